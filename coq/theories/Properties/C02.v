(* C02 — An accepted QoS 1 publish is never lost: replayed on each resume until PUBACK.  Statements only. *)
From Coq Require Import List NArith.
From Minimq Require Import Bytes Varint Utf8 Props Ser De Reader Arena Core.
From Minimq Require Import ArenaOps Inv Lts Status Persist.
Import ListNotations.

(* has_entry o pid ub: the retained list holds a packet with identifier pid whose bytes, with the DUP bit (bit 3
   of the first byte) cleared, are ub.  One step of any operation, under any schedule, keeps it there unless
   the step processes an acknowledgement naming pid or establishes a fresh broker session — cancellation,
   transport faults, reconnects, compaction, other acknowledgements in any order, later publishes, DUP marking
   and replay do not lose it and do not change its content. *)
Theorem C02_never_lost : forall s l s' pid ub, sstep s l s' -> Inv s -> has_entry (s_ob s) pid ub ->
  has_entry (s_ob s') pid ub \/
  (exists p ok, l = LPacket ok /\ names p pid /\ s' = fst (handle_packet s p)) \/
  (exists u m, l = LConnack false u m).
Proof. exact entry_persist. Qed.

(* a new connection (and every disconnect) rewinds every queued entry to byte 0 and marks DUP: it will be
   written again, completely, on the next connection ... *)
Theorem C02_replay_armed : forall o, has_pending_state o = true ->
  Forall (fun e => re_st e = SWrite 0) (ob_ret (arm_replay o)) /\
  Forall (fun e => le_st e = SWrite 0) (ob_rel (arm_replay o)) /\
  Forall (fun e => ce_st e = SWrite 0) (ob_ctl (arm_replay o)) /\
  map re_pid (ob_ret (arm_replay o)) = map re_pid (ob_ret o) /\
  map le_pid (ob_rel (arm_replay o)) = map le_pid (ob_rel o).
Proof. exact arm_replay_states. Qed.

(* ... and only once: the engine never picks an entry that is marked Sent *)
Theorem C02_not_twice : forall o st, next_step o = Some st -> step_state st <> SSent.
Proof. exact next_step_not_sent. Qed.

(* the DUP poke changes bit 3 of the first byte and nothing else *)
Theorem C02_dup_only : forall b, undup (dup_bytes b) = undup b.
Proof. exact undup_dup. Qed.

(* order: removal from the retained list keeps the order of the others; new packets join at the tail *)
Theorem C02_order_kept : forall pid es es', remove_first_ret pid es = Some es' ->
  exists a x b, es = a ++ x :: b /\ es' = a ++ b /\ re_pid x = pid.
Proof. exact remove_first_ret_order. Qed.

From Minimq Require Import Machine Run WireInv Wire PingQuiet Healthy Owed Replay.
Open Scope N_scope.

(* ---- the replay on the wire ---- *)
(* What the queues owe after a resumed connect is a function of the queues at the moment connect() was called: every
   owed acknowledgement, every pending PUBREL, every retained packet — each queue in its order, each retained packet
   with DUP set and otherwise byte for byte as accepted. *)
Theorem C02_resumed_connect_owes_replay : forall o, OInv o -> owed (compact (arm_replay o)) = replay_bytes o.
Proof. exact owed_compact_arm_replay. Qed.

Theorem C02_resumed_connect_keeps_queues : forall fuel w w',
  op_connect fuel w = (w', ODone 1) -> s_ob (w_sess w') = compact (arm_replay (s_ob (w_sess w))).
Proof. exact connect_resumed_outbound. Qed.

(* On a behaving transport the first drive()/poll() after the resumed connect puts exactly that on the wire: every
   retained publish once, with DUP, nothing else. *)
Theorem C02_replay_on_wire : forall f1 f2 adv w w1 w1' w2 pr,
  Inv (w_sess w) -> op_connect f1 w = (w1, ODone 1) -> w_sess w1' = w_sess w1 ->
  Hd w1' -> NA w1' -> drive_loop f2 adv w1' = (w2, ODone pr) ->
  w_wire w2 = w_wire w1' ++ replay_bytes (s_ob (w_sess w)).
Proof. exact reconnect_replays. Qed.

(* On ANY transport, however it cuts the writes: when the drain the user operations run comes to its end, the same bytes
   have been accepted and nothing is left to write. *)
Theorem C02_replay_on_wire_any_transport : forall f1 f2 w w1 w1' w2,
  Inv (w_sess w) -> op_connect f1 w = (w1, ODone 1) -> w_sess w1' = w_sess w1 ->
  WInv (w_sess w1') -> PQ w1' -> flush_outbound f2 w1' = (w2, ODone tt) ->
  w_wire w2 = w_wire w1' ++ replay_bytes (s_ob (w_sess w)) /\ next_step (s_ob (w_sess w2)) = None.
Proof. exact reconnect_replays_any_transport. Qed.

(* computed: PUBACK 7, PUBREL 2, PUBLISH 1 (DUP) replayed — whole, and three bytes at a time *)
Theorem C02_replay_example :
  snd (op_connect FUEL ex_new) = ODone 1 /\
  replay_bytes (s_ob (w_sess ex_new)) = [64; 3; 0; 7; 0] ++ [98; 3; 0; 2; 0] ++ [58; 9; 0; 1; 116; 0; 1; 0; 1; 2; 3] /\
  snd (op_drive FUEL ex_conn) = ODone None /\
  w_wire (fst (op_drive FUEL ex_conn)) = w_wire ex_conn ++ replay_bytes (s_ob (w_sess ex_new)) /\
  snd (flush_outbound FUEL ex_frag) = ODone tt /\
  w_wire (fst (flush_outbound FUEL ex_frag)) = w_wire ex_frag ++ replay_bytes (s_ob (w_sess ex_new)).
Proof. exact replay_example. Qed.

Theorem C02_replay_hyps_met :
  Inv (w_sess ex_new) /\ w_sess ex_conn = w_sess (fst (op_connect FUEL ex_new)) /\ Hd ex_conn /\ NA ex_conn /\
  w_sess ex_frag = w_sess (fst (op_connect FUEL ex_new)) /\ WInv (w_sess ex_frag) /\ PQ ex_frag.
Proof. exact replay_hyps_met. Qed.

Print Assumptions C02_never_lost.
Print Assumptions C02_replay_armed.
Print Assumptions C02_not_twice.
Print Assumptions C02_dup_only.
Print Assumptions C02_order_kept.
Print Assumptions C02_resumed_connect_owes_replay.
Print Assumptions C02_resumed_connect_keeps_queues.
Print Assumptions C02_replay_on_wire.
Print Assumptions C02_replay_on_wire_any_transport.
Print Assumptions C02_replay_example.
Print Assumptions C02_replay_hyps_met.
