(* Frames.v — C01, packet level: whatever an encoder returns is exactly one MQTT control packet (first byte,
   canonical Remaining Length, exactly that many bytes) whose first byte a client may send; a concatenation of
   such packets is split back into exactly those packets by the standard's framing rule; the outbound engine
   only ever continues the packet it has begun. *)
From Coq Require Import List NArith Lia Bool.
From Coq Require Import ZifyBool ZifyN ZifyNat.
From Minimq Require Import Bytes Varint Utf8 Props Ser De Reader Spec Arena Core Util VarintProofs SerLemmas Status.
Import ListNotations.
Local Open Scope N_scope.

(* one whole packet with first byte `first` *)
Definition frame (first : N) (bs : bytes) : Prop :=
  exists rl body, bs = first :: rl ++ body /\ varint_write (lenN body) = Some rl.

Lemma finalize_frame : forall cap idx body typ flags off bs,
  finalize cap idx body typ flags = SOk off bs -> lenN body = idx - 5 ->
  frame (typ * 16 + flags mod 16) bs.
Proof.
  intros cap idx body typ flags off bs H Hb. unfold finalize in H.
  destruct (varint_write (idx - 5)) as [rl|] eqn:Ev; [|discriminate].
  destruct (cap <? 5); [discriminate|]. injection H as _ <-.
  exists rl, body. split; [reflexivity|]. now rewrite Hb.
Qed.

Lemma encode_chunks_frame : forall cap typ flags cs off bs,
  encode_chunks cap typ flags cs = SOk off bs -> frame (typ * 16 + flags mod 16) bs.
Proof.
  intros cap typ flags cs off bs H. unfold encode_chunks in H.
  destruct (ser_push cap 5 cs []) as [idx body|e] eqn:E; [|discriminate].
  pose proof (ser_push_spec _ _ _ _ _ _ E) as [S1 [S2 S3]]. rewrite lenN_nil in S3.
  eapply finalize_frame; [exact H|]. lia.
Qed.

Lemma encode_chunks_payload_frame : forall cap typ flags cs payload off bs,
  encode_chunks_payload cap typ flags cs payload = SOk off bs -> frame (typ * 16 + flags mod 16) bs.
Proof.
  intros cap typ flags cs payload off bs H. unfold encode_chunks_payload in H.
  destruct (ser_push cap 5 cs []) as [idx body|e] eqn:E; [|discriminate].
  pose proof (ser_push_spec _ _ _ _ _ _ E) as [S1 [S2 S3]]. rewrite lenN_nil in S3.
  destruct (cap - N.min idx cap <? lenN payload) eqn:E1; [discriminate|].
  unfold sat_sub in H. destruct (cap - idx <? lenN payload) eqn:E2; [discriminate|].
  eapply finalize_frame; [exact H|]. rewrite lenN_app. lia.
Qed.

(* ---------- the first byte of each packet type is one a client may send ---------- *)
Lemma publish_first_byte_legal : forall r,
  (pq_qos r = Q0 -> pq_dup r = false) ->
  spec_client_first_byte (3 * 16 + publish_flags r mod 16) = true.
Proof.
  intros r Hd. unfold publish_flags.
  destruct (pq_qos r) eqn:Eq, (pq_retain r), (pq_dup r) eqn:Ed; try reflexivity; specialize (Hd eq_refl); discriminate.
Qed.

Theorem enc_connect_frame : forall cap r off bs, enc_connect cap r = SOk off bs ->
  frame 16 bs /\ spec_client_first_byte 16 = true.
Proof. intros cap r off bs H. split; [|reflexivity]. exact (encode_chunks_frame _ _ _ _ _ _ H). Qed.

Theorem enc_publish_frame : forall cap r off bs, enc_publish cap r = SOk off bs ->
  frame (48 + publish_flags r mod 16) bs /\
  ((pq_qos r = Q0 -> pq_dup r = false) -> spec_client_first_byte (48 + publish_flags r mod 16) = true).
Proof.
  intros cap r off bs H. split; [exact (encode_chunks_payload_frame _ _ _ _ _ _ _ H)|].
  intros Hd. exact (publish_first_byte_legal r Hd).
Qed.

Theorem enc_subscribe_frame : forall cap r off bs, enc_subscribe cap r = SOk off bs ->
  frame 130 bs /\ spec_client_first_byte 130 = true.
Proof. intros cap r off bs H. split; [|reflexivity]. exact (encode_chunks_frame _ _ _ _ _ _ H). Qed.

Theorem enc_unsubscribe_frame : forall cap r off bs, enc_unsubscribe cap r = SOk off bs ->
  frame 162 bs /\ spec_client_first_byte 162 = true.
Proof. intros cap r off bs H. split; [|reflexivity]. exact (encode_chunks_frame _ _ _ _ _ _ H). Qed.

Theorem enc_disconnect_frame : forall cap r off bs, enc_disconnect cap r = SOk off bs ->
  frame 224 bs /\ spec_client_first_byte 224 = true.
Proof. intros cap r off bs H. split; [|reflexivity]. exact (encode_chunks_frame _ _ _ _ _ _ H). Qed.

Theorem control_packet_frame : forall a off bs, encode_control_packet a = SOk off bs ->
  exists first, frame first bs /\ spec_client_first_byte first = true /\
    first = match a with CPubAck _ _ => 64 | CPubRec _ _ => 80 | CPubComp _ _ => 112 | CPing => 192 end.
Proof.
  intros a off bs H. destruct a as [pid rc|pid rc|pid rc|]; cbn [encode_control_packet] in H; unfold enc_ack, enc_pingreq in H;
    apply encode_chunks_frame in H; eexists; (split; [exact H|split; reflexivity]).
Qed.

Theorem pubrel_frame : forall pid rc off bs, encode_pubrel pid rc = SOk off bs ->
  frame 98 bs /\ spec_client_first_byte 98 = true.
Proof. intros pid rc off bs H. unfold encode_pubrel, enc_ack in H. apply encode_chunks_frame in H. split; [exact H|reflexivity]. Qed.

(* ---------- framing: a stream of whole packets is split back into exactly those packets ---------- *)
Lemma frame_len : forall first bs, frame first bs -> 2 <= lenN bs.
Proof.
  intros first bs [rl [body [-> Hv]]]. apply varint_write_len in Hv. rewrite lenN_cons, lenN_app. lia.
Qed.

Theorem take_frame_app : forall first bs rest, frame first bs -> take_frame (bs ++ rest) = Some (bs, rest).
Proof.
  intros first bs rest [rl [body [-> Hv]]]. cbn [app take_frame].
  rewrite <- app_assoc. rewrite (varint_roundtrip _ _ (body ++ rest) Hv).
  rewrite !lenN_app. destruct (N.ltb_spec (lenN body + lenN rest) (lenN body)) as [Hl|Hl]; [lia|].
  replace (1 + (lenN rl + (lenN body + lenN rest) - (lenN body + lenN rest)) + lenN body) with (lenN (first :: rl ++ body))
    by (rewrite lenN_cons, lenN_app; lia).
  change (first :: rl ++ body ++ rest) with ((first :: rl ++ (body ++ rest))).
  replace (first :: rl ++ body ++ rest) with ((first :: rl ++ body) ++ rest) by (cbn [app]; now rewrite <- app_assoc).
  now rewrite takeN_app_exact, dropN_app_exact.
Qed.

Theorem split_frames_concat : forall fs, Forall (fun f => exists first, frame first f) fs ->
  forall fuel, (length fs < fuel)%nat -> split_frames fuel (concat fs) = Some fs.
Proof.
  induction fs as [|f t IH]; intros HF fuel Hfuel.
  - destruct fuel; [lia|]. reflexivity.
  - destruct fuel as [|fuel]; [cbn [length] in Hfuel; lia|]. inversion HF as [|? ? [first Hf] Ht]; subst.
    cbn [concat split_frames]. pose proof (frame_len _ _ Hf) as Hl.
    destruct (f ++ concat t) as [|x xs] eqn:E.
    { apply (f_equal lenN) in E. rewrite lenN_app, lenN_nil in E. lia. }
    rewrite <- E. rewrite (take_frame_app first f (concat t) Hf).
    rewrite (IH Ht fuel) by (cbn [length] in Hfuel; lia). reflexivity.
Qed.

(* ---------- the engine: bytes handed to write() are the unwritten rest of one packet ---------- *)
(* control packets and PUBRELs are re-encoded at every step: always the same whole, legal packet *)
Theorem engine_ctl_bytes : forall s a w p bs written len,
  prepare_step s (StCtl a (SWrite w)) = PWrite p bs written len ->
  p = FCtl a /\ written = w /\ len = lenN bs /\ exists first, frame first bs /\ spec_client_first_byte first = true.
Proof.
  intros s a w p bs written len H. cbn [prepare_step] in H.
  destruct (encode_control_packet a) as [off b|e] eqn:E; [|discriminate].
  destruct (too_large _ _); [discriminate|]. inversion H; subst.
  destruct (control_packet_frame a off bs E) as [first [F [L _]]].
  repeat split. exists first. split; assumption.
Qed.

Theorem engine_rel_bytes : forall s pid rc w p bs written len,
  prepare_step s (StRel pid rc (SWrite w)) = PWrite p bs written len ->
  p = FRel pid /\ written = w /\ len = lenN bs /\ frame 98 bs.
Proof.
  intros s pid rc w p bs written len H. cbn [prepare_step] in H.
  destruct (encode_pubrel pid rc) as [off b|e] eqn:E; [|discriminate].
  destruct (too_large _ _); [discriminate|]. inversion H; subst.
  repeat split. exact (proj1 (pubrel_frame pid rc off bs E)).
Qed.

(* a step on an entry writes from the recorded offset of that entry, nothing else *)
Theorem engine_resumes_at_offset : forall s st p bs written len,
  prepare_step s st = PWrite p bs written len ->
  step_state st = SWrite written /\
  match st with StCtl a _ => p = FCtl a | StRel pid _ _ => p = FRel pid | StRet pid off l _ => p = FRet pid /\ len = l end.
Proof.
  intros s st p bs written len H. destruct st as [a st|pid rc st|pid off l st]; destruct st as [w| |]; cbn [prepare_step] in H; try discriminate.
  - destruct (encode_control_packet a); [|discriminate]. destruct (too_large _ _); [discriminate|]. inversion H; subst. split; reflexivity.
  - destruct (encode_pubrel pid rc); [|discriminate]. destruct (too_large _ _); [discriminate|]. inversion H; subst. split; reflexivity.
  - destruct (too_large _ _); [discriminate|]. inversion H; subst. split; [reflexivity|split; reflexivity].
Qed.

(* a fresh entry is begun only when no entry at all is in progress (partially written or awaiting its flush) *)
Theorem fresh_only_when_nothing_in_progress : forall o st,
  next_step o = Some st -> is_in_progress (step_state st) = false ->
  (forall e, In e (ob_ctl o) -> is_in_progress (ce_st e) = false) /\
  (forall e, In e (ob_rel o) -> is_in_progress (le_st e) = false) /\
  (forall e, In e (ob_ret o) -> is_in_progress (re_st e) = false).
Proof.
  intros o st H Hn. unfold next_step, orelse in H.
  destruct (next_step_pass o true) as [st1|] eqn:E1.
  - inversion H; subst. apply pass_state in E1. cbn [matches_priority] in E1. congruence.
  - unfold next_step_pass, orelse, find_ctl, find_rel, find_ret in E1. cbn [matches_priority] in E1.
    destruct (find (fun e => is_in_progress (ce_st e)) (ob_ctl o)) eqn:F1; [discriminate|].
    destruct (find (fun e => is_in_progress (le_st e)) (ob_rel o)) eqn:F2; [discriminate|].
    destruct (find (fun e => is_in_progress (re_st e)) (ob_ret o)) eqn:F3; [discriminate|].
    refine (conj _ (conj _ _)); intros e He.
    + exact (find_none _ _ F1 e He).
    + exact (find_none _ _ F2 e He).
    + exact (find_none _ _ F3 e He).
Qed.
