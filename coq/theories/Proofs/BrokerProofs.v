(* BrokerProofs.v — C09 for CONNECT, SUBSCRIBE, UNSUBSCRIBE, DISCONNECT: the broker-side decoder (Model/Broker.v) reads
   from the client's encoder output exactly the request, for every request the encoder accepts (all lengths symbolic). *)
From Coq Require Import List NArith Lia Bool.
From Coq Require Import ZifyBool ZifyN ZifyNat.
From Minimq Require Import Bytes Varint Utf8 Props Ser De Broker Reader Arena Core Util VarintProofs SerLemmas CodecProofs ConnectOk.
Import ListNotations.
Open Scope N_scope.

Definition props_ok (ps : list prop) : Prop := forallb prop_wf ps = true /\ forallb prop_canon ps = true.

Lemma all_some_map : forall {A} (l : list A), all_some (map Some l) = Some l.
Proof. induction l as [|x t IH]; cbn [map all_some]; [reflexivity|now rewrite IH]. Qed.

Lemma bk_field_prefixed : forall d x t, len_prefixed d = Some x -> bk_field (x ++ t) = Some (d, t).
Proof. intros d x t H. unfold bk_field. rewrite (read_field_prefixed false d x t H); [reflexivity|discriminate]. Qed.

(* the chunks of a property list: size varint, then the block *)
Lemma concat_c_properties : forall ps x, concat_chunks (c_properties (PSlice ps)) = Some x ->
  exists szb block, encode_all ps = Some block /\ varint_write (lenN block) = Some szb /\ x = szb ++ block.
Proof.
  intros ps x H. unfold c_properties, c_varint in H. cbn [concat_chunks] in H.
  destruct (varint_write (props_size (PSlice ps))) as [szb|] eqn:Es; [|discriminate].
  rewrite concat_props in H. destruct (encode_all ps) as [block|] eqn:Eb; [|discriminate].
  inversion H; subst x. exists szb, block. split; [reflexivity|]. split; [|reflexivity].
  cbn [props_size] in Es. now rewrite (props_size_eq _ _ Eb).
Qed.

Lemma bk_props_block : forall ps block szb t, encode_all ps = Some block -> varint_write (lenN block) = Some szb ->
  props_ok ps -> bk_props (szb ++ block ++ t) = Some (ps, t).
Proof.
  intros ps block szb t Hb Hs [Hw Hc]. unfold bk_props. rewrite (de_props_block _ _ _ Hs).
  rewrite (props_iter_roundtrip ps block Hb Hw Hc), all_some_map. reflexivity.
Qed.

(* whole-packet framing: first byte, remaining length, body *)
Lemma decode_frame : forall cap typ flags cs off bs, encode_chunks cap typ flags cs = SOk off bs ->
  exists body, concat_chunks cs = Some body /\
    broker_decode bs =
      (let hdr := typ * 16 + flags mod 16 in
       if N.eqb hdr 16 then opt_map BConnect (bk_connect body)
       else if N.eqb hdr 130 then opt_map BSubscribe (bk_subscribe body)
       else if N.eqb hdr 162 then opt_map BUnsubscribe (bk_unsubscribe body)
       else if N.eqb hdr 224 then opt_map BDisconnect (bk_disconnect body)
       else None).
Proof.
  intros cap typ flags cs off bs H. destruct (encode_chunks_content _ _ _ _ _ _ H) as [rl [body [Hc [Hb Hv]]]].
  exists body. split; [exact Hc|]. subst bs. unfold broker_decode. rewrite (varint_roundtrip _ _ _ Hv).
  rewrite N.eqb_refl. reflexivity.
Qed.

Lemma len_prefixed_cons : forall d x, len_prefixed d = Some x -> exists a b, x = a :: b :: d /\ (2 <= length x)%nat.
Proof.
  intros d x H. unfold len_prefixed in H. destruct (65535 <? lenN d); [discriminate|]. inversion H; subst x.
  unfold u16_be. cbn [app]. eexists _, _. split; [reflexivity|]. cbn [length]. lia.
Qed.

Local Opaque u16_be.

(* ---------- UNSUBSCRIBE ---------- *)
Lemma topics_roundtrip : forall topics tb, concat_chunks (map c_str topics) = Some tb ->
  forall fuel, (length tb <= fuel)%nat -> bk_topics fuel tb = Some topics.
Proof.
  induction topics as [|t ts IH]; intros tb H fuel Hf; cbn [map concat_chunks] in H.
  - inversion H; subst tb. destruct fuel; reflexivity.
  - unfold c_str at 1 in H. destruct (len_prefixed t) as [x|] eqn:Ex; [|discriminate]. cbn [concat_chunks] in H.
    destruct (concat_chunks (map c_str ts)) as [tb'|] eqn:Et; [|discriminate]. inversion H; subst tb.
    destruct (len_prefixed_cons _ _ Ex) as [a [b [Hx Hl]]].
    rewrite app_length in Hf. destruct fuel as [|f]; [lia|].
    cbn [bk_topics]. assert (Hne : x ++ tb' = a :: (b :: t) ++ tb') by (rewrite Hx; reflexivity).
    rewrite Hne at 1. rewrite (bk_field_prefixed t x tb' Ex). rewrite (IH tb' eq_refl f) by lia. reflexivity.
Qed.

Theorem unsubscribe_roundtrip : forall cap r off bs,
  enc_unsubscribe cap r = SOk off bs -> uq_pid r < 65536 -> props_ok (uq_props r) -> uq_topics r <> [] ->
  broker_decode bs = Some (BUnsubscribe r).
Proof.
  intros cap r off bs H Hp Hok Hne. unfold enc_unsubscribe in H.
  destruct (decode_frame _ _ _ _ _ _ H) as [body [Hc Hd]]. rewrite Hd. clear Hd H.
  change (10 * 16 + 2 mod 16) with 162. cbv zeta. change (162 =? 16) with false. change (162 =? 130) with false. change (162 =? 162) with true.
  cbv iota. unfold unsubscribe_chunks in Hc. rewrite !concat_chunks_app in Hc. unfold c_u16 in Hc. cbn [concat_chunks] in Hc. rewrite app_nil_r in Hc.
  destruct (concat_chunks (c_properties (PSlice (uq_props r)))) as [pb|] eqn:Epb; [|discriminate].
  destruct (concat_chunks (map c_str (uq_topics r))) as [tb|] eqn:Etb; [|discriminate]. inversion Hc; subst body; clear Hc.
  destruct (concat_c_properties _ _ Epb) as [szb [block [Eb [Es Ex]]]]. subst pb.
  unfold bk_unsubscribe. rewrite read_u16_be by exact Hp. rewrite <- app_assoc, (bk_props_block _ _ _ _ Eb Es Hok).
  rewrite (topics_roundtrip _ _ Etb _ (le_n _)).
  destruct r as [pid ps topics]. cbn [uq_topics uq_pid uq_props] in *. destruct topics as [|t ts]; [contradiction|]. reflexivity.
Qed.

(* ---------- SUBSCRIBE ---------- *)
Lemma sub_opts_roundtrip : forall o, so_rh o <= 2 -> sub_opts_of_byte (sub_opts_byte o) = Some o.
Proof.
  intros [q nl rap rh] H. cbn [so_rh] in H.
  assert (Hr : rh = 0 \/ rh = 1 \/ rh = 2) by lia.
  destruct Hr as [Hr|[Hr|Hr]]; subst rh; destruct q, nl, rap; vm_compute; reflexivity.
Qed.

Lemma filters_roundtrip : forall topics tb,
  concat_chunks (flat_map (fun t => [c_str (fst t); c_u8 (sub_opts_byte (snd t))]) topics) = Some tb ->
  Forall (fun t : bytes * sub_opts => so_rh (snd t) <= 2) topics ->
  forall fuel, (length tb <= fuel)%nat -> bk_filters fuel tb = Some topics.
Proof.
  induction topics as [|[t o] ts IH]; intros tb H Hf fuel Hl; cbn [flat_map app concat_chunks fst snd] in H.
  - inversion H; subst tb. destruct fuel; reflexivity.
  - unfold c_str at 1 in H. destruct (len_prefixed t) as [x|] eqn:Ex; [|discriminate]. unfold c_u8 at 1 in H. cbn [concat_chunks] in H.
    match type of H with context [concat_chunks ?l] => destruct (concat_chunks l) as [tb'|] eqn:Et; [|discriminate] end.
    inversion H; subst tb. inversion Hf as [|? ? Ho Hrest]; subst. cbn [snd] in Ho.
    destruct (len_prefixed_cons _ _ Ex) as [a [b [Hx Hlen]]].
    rewrite app_length in Hl. cbn [app length] in Hl. destruct fuel as [|f]; [lia|].
    cbn [bk_filters]. assert (Hne : x ++ [sub_opts_byte o] ++ tb' = a :: (b :: t) ++ [sub_opts_byte o] ++ tb') by (rewrite Hx; reflexivity).
    rewrite Hne at 1. rewrite (bk_field_prefixed t x _ Ex). cbn [app]. rewrite (sub_opts_roundtrip o Ho).
    rewrite (IH tb' eq_refl Hrest f) by lia. reflexivity.
Qed.

Theorem subscribe_roundtrip : forall cap r off bs,
  enc_subscribe cap r = SOk off bs -> sq_pid r < 65536 -> props_ok (sq_props r) -> sq_topics r <> [] ->
  Forall (fun t : bytes * sub_opts => so_rh (snd t) <= 2) (sq_topics r) ->
  broker_decode bs = Some (BSubscribe r).
Proof.
  intros cap r off bs H Hp Hok Hne Hrh. unfold enc_subscribe in H.
  destruct (decode_frame _ _ _ _ _ _ H) as [body [Hc Hd]]. rewrite Hd. clear Hd H.
  change (8 * 16 + 2 mod 16) with 130. cbv zeta. change (130 =? 16) with false. change (130 =? 130) with true.
  cbv iota. unfold subscribe_chunks in Hc. rewrite !concat_chunks_app in Hc. unfold c_u16 in Hc. cbn [concat_chunks] in Hc. rewrite app_nil_r in Hc.
  destruct (concat_chunks (c_properties (PSlice (sq_props r)))) as [pb|] eqn:Epb; [|discriminate].
  match type of Hc with context [concat_chunks (flat_map ?f ?l)] => destruct (concat_chunks (flat_map f l)) as [tb|] eqn:Etb; [|discriminate] end.
  inversion Hc; subst body; clear Hc.
  destruct (concat_c_properties _ _ Epb) as [szb [block [Eb [Es Ex]]]]. subst pb.
  unfold bk_subscribe. rewrite read_u16_be by exact Hp. rewrite <- app_assoc, (bk_props_block _ _ _ _ Eb Es Hok).
  rewrite (filters_roundtrip _ _ Etb Hrh _ (le_n _)).
  destruct r as [pid ps topics]. cbn [sq_topics sq_pid sq_props] in *. destruct topics as [|t ts]; [contradiction|]. reflexivity.
Qed.

(* ---------- DISCONNECT ---------- *)
Theorem disconnect_roundtrip : forall cap r off bs,
  enc_disconnect cap r = SOk off bs ->
  (dq_reason r = None -> dq_props r = None) ->
  (forall l, dq_props r = Some l -> props_ok l) ->
  broker_decode bs = Some (BDisconnect {| dq_reason := match dq_reason r with Some c => Some (rc_norm c) | None => None end;
                                          dq_props := dq_props r |}).
Proof.
  intros cap r off bs H Hshape Hok. unfold enc_disconnect in H.
  destruct (decode_frame _ _ _ _ _ _ H) as [body [Hc Hd]]. rewrite Hd. clear Hd H.
  change (14 * 16 + 0 mod 16) with 224. cbv zeta. change (224 =? 16) with false. change (224 =? 130) with false.
  change (224 =? 162) with false. change (224 =? 224) with true. cbv iota.
  unfold disconnect_chunks in Hc. destruct r as [reason props]. cbn [dq_reason dq_props] in *.
  destruct reason as [c|].
  - destruct props as [l|].
    + rewrite concat_chunks_app in Hc. unfold c_u8 in Hc. cbn [concat_chunks] in Hc.
      destruct (concat_chunks (c_properties (PSlice l))) as [pb|] eqn:Epb; [|discriminate]. inversion Hc; subst body; clear Hc.
      destruct (concat_c_properties _ _ Epb) as [szb [block [Eb [Es Ex]]]]. subst pb.
      unfold bk_disconnect. cbn [app].
      assert (Hne : exists y ys, szb ++ block = y :: ys).
      { destruct szb as [|y ys]; [|eexists _, _; reflexivity]. unfold varint_write in Es. destruct (_ <? _); [discriminate|].
        inversion Es as [E]. cbn [varint_write_fuel] in E. destruct (N.eqb _ 0); discriminate. }
      destruct Hne as [y [ys Hy]]. rewrite Hy. rewrite <- Hy.
      replace (szb ++ block) with (szb ++ block ++ []) by now rewrite app_nil_r.
      rewrite (bk_props_block _ _ _ _ Eb Es (Hok l eq_refl)). reflexivity.
    + unfold c_u8 in Hc. cbn [app concat_chunks] in Hc. inversion Hc; subst body. reflexivity.
  - rewrite (Hshape eq_refl) in *. cbn [app concat_chunks] in Hc. inversion Hc; subst body. reflexivity.
Qed.

(* ---------- CONNECT ---------- *)
Lemma flags_bits : forall r, let f := connect_flags r in
  N.testbit f 0 = false /\ N.testbit f 1 = cq_clean r /\
  match cq_will r with
  | Some w => N.testbit f 2 = true /\ qos_of_n ((f / 8) mod 4) = Some (w_qos w) /\ N.testbit f 5 = w_retain w
  | None => N.testbit f 2 = false /\ (f / 8) mod 4 = 0 /\ N.testbit f 5 = false
  end /\
  N.testbit f 7 = (if cq_auth r then true else false) /\ N.testbit f 6 = (if cq_auth r then true else false).
Proof.
  intros [ka ps cid au wl cl]. unfold connect_flags. cbn [cq_clean cq_will cq_auth].
  destruct cl, au, wl as [[? ? [] [] ?]|]; vm_compute; repeat split; reflexivity.
Qed.

Lemma name_prefixed : len_prefixed MQTT_NAME = Some [0; 4; 77; 81; 84; 84].
Proof. reflexivity. Qed.

Lemma bk_field_name : forall t, bk_field (0 :: 4 :: 77 :: 81 :: 84 :: 84 :: t) = Some (MQTT_NAME, t).
Proof. intros t. exact (bk_field_prefixed MQTT_NAME _ t name_prefixed). Qed.

Theorem connect_roundtrip : forall cap r off bs,
  enc_connect cap r = SOk off bs -> cq_keepalive r < 65536 -> props_ok (cq_props r) ->
  (forall w, cq_will r = Some w -> props_ok (w_props w)) ->
  broker_decode bs = Some (BConnect r).
Proof.
  intros cap r off bs H Hka Hok Hwok. unfold enc_connect in H.
  destruct (decode_frame _ _ _ _ _ _ H) as [body [Hc Hd]]. rewrite Hd. clear Hd H.
  change (1 * 16 + 0 mod 16) with 16. cbv zeta. change (16 =? 16) with true. cbv iota.
  destruct (flags_bits r) as [F0 [F1 [FW [F7 F6]]]]. cbv zeta in F0, F1, FW, F7, F6.
  unfold connect_chunks in Hc. rewrite !concat_chunks_app in Hc.
  unfold c_str at 1 in Hc. rewrite name_prefixed in Hc. unfold c_u8, c_u16 in Hc. cbn [concat_chunks] in Hc.
  destruct (concat_chunks (c_properties (PSlice (cq_props r)))) as [pb|] eqn:Epb; [|discriminate].
  unfold c_str at 1 in Hc. destruct (len_prefixed (cq_client_id r)) as [cx|] eqn:Ecid; [|discriminate]. cbn [concat_chunks] in Hc.
  destruct (concat_chunks (match cq_will r with
                           | Some w => c_properties (PSlice (w_props w)) ++ [c_str (w_topic w); c_str (w_data w)]
                           | None => [] end)) as [wb|] eqn:Ewb; [|discriminate].
  destruct (concat_chunks (match cq_auth r with
                           | Some a => [c_str (a_user a); c_str (a_pass a)]
                           | None => [] end)) as [ab|] eqn:Eab; [|discriminate].
  inversion Hc; subst body; clear Hc.
  destruct (concat_c_properties _ _ Epb) as [szb [block [Eb [Es Ex]]]]. subst pb.
  (* decode *)
  unfold bk_connect. rewrite <- !app_assoc.
  cbn [app]. rewrite bk_field_name.
  change (list_eqb MQTT_NAME MQTT_NAME) with true. change (5 =? 5) with true. rewrite F0. cbn [andb negb].
  rewrite read_u16_be by exact Hka. rewrite (bk_props_block _ _ _ _ Eb Es Hok).
  rewrite (bk_field_prefixed _ _ _ Ecid).
  (* will *)
  assert (HW : bk_will (connect_flags r) (wb ++ ab) = Some (cq_will r, ab)).
  { unfold bk_will. destruct (cq_will r) as [w|] eqn:Ew.
    - destruct FW as [W2 [Wq W5]]. rewrite W2, Wq, W5.
      rewrite concat_chunks_app in Ewb.
      destruct (concat_chunks (c_properties (PSlice (w_props w)))) as [wpb|] eqn:Ewpb; [|discriminate].
      unfold c_str in Ewb. cbn [concat_chunks] in Ewb.
      destruct (len_prefixed (w_topic w)) as [tx|] eqn:Etx; [|discriminate].
      destruct (len_prefixed (w_data w)) as [dx|] eqn:Edx; [|discriminate].
      inversion Ewb; subst wb; clear Ewb.
      destruct (concat_c_properties _ _ Ewpb) as [wszb [wblock [Ewb [Ews Ewx]]]]. subst wpb.
      rewrite <- !app_assoc. rewrite (bk_props_block _ _ _ _ Ewb Ews (Hwok w eq_refl)).
      rewrite (bk_field_prefixed _ _ _ Etx), (bk_field_prefixed _ _ _ Edx). cbn [app]. destruct w; reflexivity.
    - destruct FW as [W2 [Wq W5]]. rewrite W2, Wq, W5. cbn [concat_chunks] in Ewb. inversion Ewb; subst wb. reflexivity. }
  rewrite HW.
  (* credentials *)
  assert (HA : bk_auth (connect_flags r) ab = Some (cq_auth r, [])).
  { unfold bk_auth. rewrite F7, F6. destruct (cq_auth r) as [a|] eqn:Ea.
    - unfold c_str in Eab. cbn [concat_chunks] in Eab.
      destruct (len_prefixed (a_user a)) as [ux|] eqn:Eux; [|discriminate].
      destruct (len_prefixed (a_pass a)) as [px|] eqn:Epx; [|discriminate].
      inversion Eab; subst ab; clear Eab.
      rewrite (bk_field_prefixed _ _ _ Eux), (bk_field_prefixed _ _ _ Epx). destruct a; reflexivity.
    - cbn [concat_chunks] in Eab. inversion Eab; subst ab. reflexivity. }
  rewrite HA. rewrite F1. destruct r; reflexivity.
Qed.

(* ---------- acknowledgements (same layout in both directions: read with the client's own decoder) ---------- *)
Lemma rc_norm_idem : forall c, rc_norm (rc_norm c) = rc_norm c.
Proof. intros c. unfold rc_norm. destruct (rc_known c) eqn:E; [now rewrite E|reflexivity]. Qed.

Definition ack_packet_of (typ pid rc : N) : rpacket :=
  if N.eqb typ 4 then RPubAck pid rc else if N.eqb typ 5 then RPubRec pid rc else if N.eqb typ 6 then RPubRel pid rc else RPubComp pid rc.

Lemma de_body_puback : forall l, de_body 64 l = de_ack RPubAck l. Proof. reflexivity. Qed.
Lemma de_body_pubrec : forall l, de_body 80 l = de_ack RPubRec l. Proof. reflexivity. Qed.
Lemma de_body_pubrel : forall l, de_body 98 l = de_ack RPubRel l. Proof. reflexivity. Qed.
Lemma de_body_pubcomp : forall l, de_body 112 l = de_ack RPubComp l. Proof. reflexivity. Qed.

Theorem ack_roundtrip : forall typ pid rc off bs, In typ [4; 5; 6; 7] -> pid < 65536 ->
  enc_ack CONTROL_PACKET_LEN typ pid rc = SOk off bs -> from_buffer bs = Some (ack_packet_of typ pid (rc_norm rc)).
Proof.
  intros typ pid rc off bs Ht Hp H. unfold enc_ack in H.
  destruct (encode_chunks_content _ _ _ _ _ _ H) as [rl [body [Hc [Hb Hv]]]].
  unfold ack_chunks, c_u16, c_u8 in Hc. cbn [concat_chunks app] in Hc. inversion Hc; subst body; clear Hc.
  assert (Hde : forall mk, de_ack mk (u16_be pid ++ [rc_norm rc]) = Some (mk pid (rc_norm rc), [])).
  { intros mk. unfold de_ack. rewrite read_u16_be by exact Hp. cbn [app de_reason]. now rewrite rc_norm_idem. }
  subst bs. unfold from_buffer. rewrite (varint_roundtrip _ _ _ Hv).
  cbn [In] in Ht. destruct Ht as [E|[E|[E|[E|[]]]]]; subst typ.
  - change (4 * 16 + (if 4 =? 6 then 2 else 0) mod 16) with 64. rewrite de_body_puback, Hde. reflexivity.
  - change (5 * 16 + (if 5 =? 6 then 2 else 0) mod 16) with 80. rewrite de_body_pubrec, Hde. reflexivity.
  - change (6 * 16 + (if 6 =? 6 then 2 else 0) mod 16) with 98. rewrite de_body_pubrel, Hde. reflexivity.
  - change (7 * 16 + (if 7 =? 6 then 2 else 0) mod 16) with 112. rewrite de_body_pubcomp, Hde. reflexivity.
Qed.

(* ---------- the CONNECT of a session: what the broker reads is the configuration ---------- *)
Lemma session_connect_props_ok : forall s, cf_expiry (s_cfg s) < 4294967296 -> props_ok (cq_props (connect_request s)).
Proof.
  intros s He. unfold props_ok, connect_request. cbn [cq_props forallb].
  pose proof (N.mod_upper_bound (rcap (s_reader s)) 4294967296 ltac:(lia)) as Hm.
  assert (W1 : prop_wf (mkprop KMaximumPacketSize (rcap (s_reader s) mod 4294967296) [] []) = true).
  { unfold prop_wf, mkprop. cbn [pk pnum kind_shape]. now apply N.ltb_lt. }
  assert (W2 : prop_wf (mkprop KSessionExpiryInterval (cf_expiry (s_cfg s)) [] []) = true).
  { unfold prop_wf, mkprop. cbn [pk pnum kind_shape]. now apply N.ltb_lt. }
  rewrite W1, W2. split; reflexivity.
Qed.

Theorem session_connect_decodes : forall s cap off bs,
  cf_expiry (s_cfg s) < 4294967296 ->
  (forall w, cf_will (s_cfg s) = Some w -> props_ok (w_props w)) ->
  enc_connect cap (connect_request s) = SOk off bs ->
  broker_decode bs = Some (BConnect (connect_request s)) /\
  cq_keepalive (connect_request s) = cf_keepalive_s (s_cfg s) mod 65536 /\
  cq_clean (connect_request s) = negb (s_sp s) /\ cq_client_id (connect_request s) = s_client_id s /\
  cq_will (connect_request s) = cf_will (s_cfg s) /\ cq_auth (connect_request s) = cf_auth (s_cfg s) /\
  In (mkprop KMaximumPacketSize (rcap (s_reader s) mod 4294967296) [] []) (cq_props (connect_request s)) /\
  In (mkprop KSessionExpiryInterval (cf_expiry (s_cfg s)) [] []) (cq_props (connect_request s)) /\
  In (mkprop KReceiveMaximum 8 [] []) (cq_props (connect_request s)).
Proof.
  intros s cap off bs He Hw H. split.
  - apply (connect_roundtrip cap _ off bs H).
    + cbn [connect_request cq_keepalive]. apply N.mod_upper_bound. lia.
    + now apply session_connect_props_ok.
    + exact Hw.
  - cbn [connect_request cq_keepalive cq_clean cq_client_id cq_will cq_auth cq_props In]. repeat split; auto.
Qed.

(* ---------- non-vacuity: a request with will, credentials, properties and several filters meets every premise ---------- *)
Definition ex_connect : connect_req :=
  {| cq_keepalive := 60; cq_props := [mkprop KSessionExpiryInterval 5 [] []]; cq_client_id := [97; 98];
     cq_auth := Some {| a_user := [117]; a_pass := [] |};
     cq_will := Some {| w_topic := [116]; w_data := [1; 2]; w_qos := Q1; w_retain := true;
                        w_props := [mkprop KUserProperty 0 [97] [98]] |};
     cq_clean := true |}.
Definition ex_subscribe : subscribe_req :=
  {| sq_pid := 7; sq_props := [mkprop KSubscriptionIdentifier 300 [] []];
     sq_topics := [([97], {| so_qos := Q2; so_no_local := true; so_rap := false; so_rh := 2 |});
                   ([98; 47; 35], {| so_qos := Q0; so_no_local := false; so_rap := true; so_rh := 0 |})] |}.

Example roundtrip_examples :
  (exists off bs, enc_connect 100 ex_connect = SOk off bs /\ broker_decode bs = Some (BConnect ex_connect)) /\
  (exists off bs, enc_subscribe 100 ex_subscribe = SOk off bs /\ broker_decode bs = Some (BSubscribe ex_subscribe)) /\
  forallb prop_wf (cq_props ex_connect) = true /\ forallb prop_canon (sq_props ex_subscribe) = true.
Proof.
  split; [|split; [|split; reflexivity]].
  - eexists _, _. split; [vm_compute; reflexivity|vm_compute; reflexivity].
  - eexists _, _. split; [vm_compute; reflexivity|vm_compute; reflexivity].
Qed.
