(* Lts.v — the session-level labelled transition system the machine refines: every change the asynchronous
   operations make to the session is one of these synchronous steps.  State invariants are proved closed under
   `sstep` (Inv*.v) and lifted to every reachable world by Refine.v. *)
From Minimq Require Import Bytes Varint Utf8 Props Ser De Reader Arena Core.

Inductive slabel :=
| LOther
| LConnack (resumed : bool) (unresolved maxquota : N)    (* a successful CONNACK was processed *)
| LPacket (ok : bool).                                   (* an inbound packet was handled; ok = ack_type_ok *)

(* the environment assumptions a label carries (mirrored by the ghost flag w_envok of the machine) *)
Definition label_ok (l : slabel) : bool :=
  match l with
  | LOther => true
  | LConnack resumed u m => if resumed then u <=? m else true
  | LPacket ok => ok
  end.

Definition connack_label (s : session) (p : option rpacket) (now : N) : slabel :=
  match snd (connack_process s p now) with
  | CAOk resumed =>
      LConnack resumed (if resumed then unresolved_publishes (s_ob s) else 0)
               (rt_maxquota (s_rt (fst (connack_process s p now))))
  | _ => LOther
  end.

Inductive sstep : session -> slabel -> session -> Prop :=
| SS_hd s : sstep s LOther (sess_handle_disconnect s)
| SS_ping s now : sstep s LOther (fst (maybe_queue_pingreq s now))
| SS_written s st p bs w len n :
    next_step (s_ob s) = Some st -> prepare_step s st = PWrite p bs w len ->
    sstep s LOther (fst (set_written s p (w + n) len))
| SS_flushed s p now : sstep s LOther (fst (complete_flush s p now))
| SS_reader s r : sstep s LOther (set_reader s r)
| SS_packet s p : sstep s (LPacket (ack_type_ok s p)) (fst (handle_packet s p))
| SS_publish s live r : sstep s LOther (fst (publish_middle s live r))
| SS_subscribe s t ps : sstep s LOther (fst (subscribe_middle s t ps))
| SS_unsubscribe s t ps : sstep s LOther (fst (unsubscribe_middle s t ps))
| SS_timers_cleared s : sstep s LOther (set_rt s (rt_with_timers (s_rt s) None None))
| SS_activity s now : sstep s LOther (set_rt s (note_outbound_activity (s_rt s) now))
| SS_reset_transport s : sstep s LOther (set_rt s (reset_transport (s_rt s)))
| SS_arm_replay s : sstep s LOther (set_ob s (arm_replay (s_ob s)))
| SS_compact s : sstep s LOther (set_ob s (compact (s_ob s)))
| SS_connack s p now : sstep s (connack_label s p now) (fst (connack_process s p now))
| SS_setpid s p : 1 <= p <= 65535 -> sstep s LOther (set_pid s p).

Inductive spath : session -> list slabel -> session -> Prop :=
| SP_nil s : spath s [] s
| SP_cons s l s1 ls s2 : sstep s l s1 -> spath s1 ls s2 -> spath s (l :: ls) s2.

Lemma spath_app : forall s1 l1 s2 l2 s3, spath s1 l1 s2 -> spath s2 l2 s3 -> spath s1 (l1 ++ l2) s3.
Proof.
  intros s1 l1 s2 l2 s3 H. induction H; intros H2; cbn [app]; [exact H2|].
  econstructor; [eassumption | now apply IHspath].
Qed.

Lemma spath_one : forall s l s', sstep s l s' -> spath s [l] s'.
Proof. intros. econstructor; [eassumption | constructor]. Qed.

(* reachability without caring about labels *)
Definition sreach (s s' : session) : Prop := exists ls, spath s ls s'.
Lemma sreach_refl : forall s, sreach s s.
Proof. intros. exists []. constructor. Qed.
Lemma sreach_trans : forall a b c, sreach a b -> sreach b c -> sreach a c.
Proof. intros a b c [l1 H1] [l2 H2]. exists (l1 ++ l2). eapply spath_app; eassumption. Qed.
Lemma sreach_step : forall s l s', sstep s l s' -> sreach s s'.
Proof. intros. exists [l]. now apply spath_one. Qed.

(* a closed predicate holds along every path *)
Lemma spath_inv : forall (P : session -> Prop),
  (forall s l s', sstep s l s' -> P s -> P s') ->
  forall s ls s', spath s ls s' -> P s -> P s'.
Proof. intros P Hc s ls s' H. induction H; intros HP; [exact HP|]. apply IHspath. eapply Hc; eassumption. Qed.

(* reachability together with the conjunction of the environment flags of the labels passed *)
Definition ereach (s : session) (b : bool) (s' : session) : Prop :=
  exists ls, spath s ls s' /\ forallb label_ok ls = b.
Lemma ereach_refl : forall s, ereach s true s.
Proof. intros. exists []. split; [constructor|reflexivity]. Qed.
Lemma ereach_trans : forall a b c x y, ereach a x b -> ereach b y c -> ereach a (x && y) c.
Proof.
  intros a b c x y [l1 [H1 F1]] [l2 [H2 F2]]. exists (l1 ++ l2). split.
  - eapply spath_app; eassumption.
  - rewrite forallb_app. now rewrite F1, F2.
Qed.
Lemma ereach_step : forall s l s', sstep s l s' -> ereach s (label_ok l) s'.
Proof. intros. exists [l]. split; [now apply spath_one | cbn [forallb]; now rewrite andb_true_r]. Qed.
Lemma ereach_sreach : forall s b s', ereach s b s' -> sreach s s'.
Proof. intros s b s' [ls [H _]]. now exists ls. Qed.
