(* PingQuiet.v — time and the keep-alive timer through the outbound engine: time does not pass inside a write or a flush,
   and once no PINGREQ is to be queued (PQ) this stays so through every engine step. *)
From Coq Require Import List NArith Lia Bool PeanoNat.
From Coq Require Import ZifyBool ZifyN ZifyNat.
From Minimq Require Import Bytes Varint Utf8 Props Ser De Reader Spec Arena Core Show Machine Parse Run Util Lts Refine
  ArenaLemmas ArenaOps Inv Quota Status Persist Frames Limits Reach WireInv Chunking Wire.
Import ListNotations.
Local Open Scope N_scope.

Definition not_failed {A} (r : outcome A) : Prop := match r with OFail _ => False | _ => True end.

Lemma broker_feed_fields : forall w a, w_sess (broker_feed w a) = w_sess w /\ w_script (broker_feed w a) = w_script w /\
  w_live (broker_feed w a) = w_live w /\ w_now (broker_feed w a) = w_now w /\ w_wire (broker_feed w a) = w_wire w.
Proof.
  intros w a. unfold broker_feed. destruct (N.eqb (w_broker w) 0); [repeat split|].
  destruct (broker_split _ _ _ _) as [replies rest]. destruct replies; repeat split.
Qed.


Lemma set_written_fields : forall s k x len,
  s_rt (fst (set_written s k x len)) = s_rt s /\ lenN (ob_buf (s_ob (fst (set_written s k x len)))) = lenN (ob_buf (s_ob s)).
Proof.
  intros. unfold set_written. destruct k as [a|pid|pid];
    [unfold set_control_written|unfold set_release_written|unfold set_retained_written];
    destruct (update_first _ _ _) as [l0 b]; split; reflexivity.
Qed.


(* ---------------------------------------------------------------- time and the keep-alive timer through a step *)
(* PQ: no PINGREQ is to be queued at this instant (none due, or one already queued or outstanding).  The drain checks this
   before every step; once it holds it keeps holding, because time does not pass inside the drain, a queued PINGREQ stays
   queued until it is flushed, and every completed flush moves the next ping into the future. *)
(* a transport whose remaining script has no slow write (kinds 4, 5): time does not pass inside its writes *)
Definition slow_ev (e : N * N) : bool := N.eqb (fst e) 4 || N.eqb (fst e) 5.
Definition Calm (w : world) : Prop := Forall (fun e => slow_ev e = false) (w_script w).
Definition PQ (w : world) : Prop := should_queue_pingreq (w_sess w) (w_now w) = false /\ Calm w.

Lemma sq_frame : forall s s' now, rt_ping_timeout (s_rt s') = rt_ping_timeout (s_rt s) -> rt_next_ping (s_rt s') = rt_next_ping (s_rt s) ->
  ob_ctl (s_ob s') = ob_ctl (s_ob s) -> should_queue_pingreq s' now = should_queue_pingreq s now.
Proof. intros s s' now H1 H2 H3. unfold should_queue_pingreq, has_pending_pingreq. rewrite H1, H2, H3. reflexivity. Qed.

(* what the ping decision reads of a session: two timers and the control queue *)
Definition pframe (s s' : session) : Prop :=
  rt_ping_timeout (s_rt s') = rt_ping_timeout (s_rt s) /\ rt_next_ping (s_rt s') = rt_next_ping (s_rt s) /\
  ob_ctl (s_ob s') = ob_ctl (s_ob s).
Lemma pframe_sq : forall s s', pframe s s' -> forall now, should_queue_pingreq s' now = should_queue_pingreq s now.
Proof. intros s s' [H1 [H2 H3]] now. now apply sq_frame. Qed.

Lemma broker_feed_now : forall w a, w_now (broker_feed w a) = w_now w.
Proof. intros. destruct (broker_feed_fields w a) as [_ [_ [_ [H _]]]]. exact H. Qed.


Lemma next_ev_calm : forall w k amt rest, next_ev w = ((k, amt), rest) -> Calm w ->
  (N.eqb k 4 || N.eqb k 5) = false /\ Forall (fun e => slow_ev e = false) rest.
Proof.
  intros w k amt rest E H. unfold next_ev in E. unfold Calm in H. destruct (w_script w) as [|e t] eqn:Es.
  - inversion E; subst. split; [reflexivity|constructor].
  - inversion E; subst. inversion H; subst. split; assumption.
Qed.

Lemma broker_feed_script : forall w a, w_script (broker_feed w a) = w_script w.
Proof. intros. destruct (broker_feed_fields w a) as [_ [H _]]. exact H. Qed.

Lemma io_write_now : forall bs w, Calm w -> w_now (fst (io_write bs w)) = w_now w /\ Calm (fst (io_write bs w)).
Proof.
  intros bs w Hc. unfold io_write. destruct (N.eqb (lenN bs) 0); [split; [reflexivity|exact Hc]|].
  destruct (next_ev w) as [[k amt] rest] eqn:En. destruct (next_ev_calm _ _ _ _ En Hc) as [Hk Hr].
  apply orb_false_iff in Hk. destruct Hk as [H4 H5].
  destruct (N.eqb k 1); [split; [reflexivity|exact Hr]|]. destruct (N.eqb k 2); [split; [reflexivity|exact Hr]|].
  destruct (N.eqb k 3); [split; [reflexivity|exact Hr]|].
  rewrite H4, H5. cbv zeta. cbn [fst]. unfold Calm. rewrite broker_feed_now, broker_feed_script. split; [reflexivity|exact Hr].
Qed.
Lemma io_flush_now : forall w, w_now (fst (io_flush w)) = w_now w.
Proof. intros w. unfold io_flush. destruct (next_ev w) as [[k a] rest]. destruct (N.eqb k 1); [reflexivity|]. destruct (N.eqb k 3); reflexivity. Qed.
Lemma io_flush_calm : forall w, Calm w -> Calm (fst (io_flush w)).
Proof.
  intros w Hc. unfold io_flush. destruct (next_ev w) as [[k a] rest] eqn:En. destruct (next_ev_calm _ _ _ _ En Hc) as [_ Hr].
  destruct (N.eqb k 1); [exact Hr|]. destruct (N.eqb k 3); exact Hr.
Qed.

Lemma noa_not_due : forall r now,
  match rt_next_ping (note_outbound_activity r now) with Some d => d <=? now | None => false end = false.
Proof.
  intros r now. unfold note_outbound_activity, keepalive_send_interval. cbn [rt_with_timers rt_next_ping].
  destruct (N.eqb_spec (rt_ka_ms r) 0) as [E0|E0]; [reflexivity|]. apply N.leb_gt. unfold ROUND_TRIP_TIMEOUT_MS.
  assert (rt_ka_ms r / 2 < rt_ka_ms r) by (apply N.div_lt; lia). lia.
Qed.

Lemma complete_flush_pq : forall s k now, should_queue_pingreq (fst (complete_flush s k now)) now = false.
Proof.
  intros s k now. unfold complete_flush.
  set (r1 := match k with FCtl CPing => rt_with_timers (s_rt s) (rt_next_ping (s_rt s)) (Some (now + ROUND_TRIP_TIMEOUT_MS)) | _ => s_rt s end).
  destruct (match k with FCtl a => flush_control (s_ob s) a | FRel pid => flush_release (s_ob s) pid | FRet pid => flush_retained (s_ob s) pid end) as [o b].
  cbn [fst]. unfold should_queue_pingreq. cbn [s_rt set_rt]. rewrite (noa_not_due r1 now). rewrite andb_false_r. reflexivity.
Qed.

Lemma set_written_pq : forall s st p bs w len x now,
  WInv s -> next_step (s_ob s) = Some st -> prepare_step s st = PWrite p bs w len ->
  should_queue_pingreq (fst (set_written s p x len)) now = should_queue_pingreq s now.
Proof.
  intros s st p bs w len x now [I [F [Hs Hc]]] Hn Hp.
  destruct (engine_resumes_at_offset s st p bs w len Hp) as [Hst Hkey].
  destruct (set_written_fields s p x len) as [Rt _].
  unfold should_queue_pingreq. rewrite Rt. f_equal. f_equal.
  unfold set_written. destruct st as [a s0|pid rc s0|pid off l0 s0]; cbn [step_state] in Hst; subst s0.
  - subst p. destruct (ctl_step_head _ _ _ Hc Hn) as [t Et].
    unfold set_control_written. rewrite Et. cbn [update_first ce_act]. rewrite caction_eqb_refl. cbn [fst set_ob s_ob with_ctl].
    unfold has_pending_pingreq. cbn [ob_ctl]. rewrite Et. cbn [existsb ce_act ce_st]. f_equal.
    destruct a; try reflexivity. unfold set_written_state. destruct (_ <=? _); reflexivity.
  - subst p. unfold set_release_written. destruct (update_first _ _ _) as [l b]. reflexivity.
  - destruct Hkey as [-> _]. unfold set_retained_written. destruct (update_first _ _ _) as [l b]. reflexivity.
Qed.

Lemma calm_nil : forall w, w_script w = [] -> Calm w.
Proof. intros w H. unfold Calm. rewrite H. constructor. Qed.

Lemma upd_sess_calm : forall w s, Calm (upd_sess w s) <-> Calm w.
Proof. intros. unfold Calm. cbn [w_script upd_sess]. tauto. Qed.

Lemma flush_current_pq : forall p w w' r, PQ w -> flush_current p (w_now w) w = (w', r) -> not_failed r -> PQ w' /\ w_now w' = w_now w.
Proof.
  intros p w w' r [Hq Hc] H Hr. unfold flush_current in H. destruct (w_live w); cbn [negb] in H; [|inversion H; subst; contradiction].
  destruct (io_flush w) as [w1 fr] eqn:Ef. destruct (io_flush_ghost _ _ _ Ef) as [Hs _].
  pose proof (io_flush_now w) as Nw. rewrite Ef in Nw. cbn [fst] in Nw.
  pose proof (io_flush_calm w Hc) as Cw. rewrite Ef in Cw. cbn [fst] in Cw.
  destruct fr.
  - destruct (complete_flush (w_sess w1) p (w_now w)) as [s3 f3] eqn:Ec.
    assert (Es3 : s3 = fst (complete_flush (w_sess w) p (w_now w))) by (rewrite <- Hs, Ec; reflexivity).
    assert (Hw' : w' = upd_sess w1 s3) by (destruct f3; now inversion H). subst w'.
    unfold PQ. cbn [w_sess w_now upd_sess]. rewrite Es3, Nw. split; [split; [apply complete_flush_pq|apply upd_sess_calm; exact Cw]|reflexivity].
  - inversion H; subst. contradiction.
  - inversion H; subst. unfold PQ. rewrite Hs, Nw. split; [split; [exact Hq|exact Cw]|reflexivity].
Qed.

Lemma step_pq : forall st w w' r, WInv (w_sess w) -> next_step (s_ob (w_sess w)) = Some st -> PQ w ->
  perform_outbound_step st (w_now w) w = (w', r) -> not_failed r -> PQ w' /\ w_now w' = w_now w.
Proof.
  intros st w w' r I Hn [Hq Hc] H Hr. unfold perform_outbound_step in H.
  destruct (prepare_step (w_sess w) st) as [p bs written len|p| |e] eqn:Ep.
  - destruct (w_live w) eqn:Hl; cbn [negb] in H; [|inversion H; subst; contradiction].
    destruct (io_write (dropN written bs) w) as [w1 r0] eqn:Ew.
    destruct (io_write_ghost _ _ _ _ Ew) as [Hs _].
    pose proof (io_write_now (dropN written bs) w Hc) as [Nw Cw]. rewrite Ew in Nw, Cw. cbn [fst] in Nw, Cw.
    destruct r0 as [n| |]; [|inversion H; subst; contradiction|].
    + destruct (N.eqb n 0); [inversion H; subst; contradiction|].
      destruct (set_written (w_sess w1) p (written + n) len) as [s2 found] eqn:Es.
      assert (Es2 : s2 = fst (set_written (w_sess w) p (written + n) len)) by (rewrite <- Hs, Es; reflexivity).
      assert (Q2 : PQ (upd_sess w1 s2)).
      { unfold PQ. cbn [w_sess w_now upd_sess]. rewrite Es2, Nw. rewrite (set_written_pq _ _ _ _ _ _ _ _ I Hn Ep).
        split; [exact Hq|apply upd_sess_calm; exact Cw]. }
      destruct (negb found); [inversion H; subst; split; [exact Q2|exact Nw]|].
      destruct (written + n <? len); [inversion H; subst; split; [exact Q2|exact Nw]|].
      assert (N2 : w_now (upd_sess w1 s2) = w_now w) by exact Nw.
      rewrite <- N2 in H. destruct (flush_current_pq _ _ _ _ Q2 H Hr) as [Q3 N3]. split; [exact Q3|now rewrite N3].
    + inversion H; subst. unfold PQ. rewrite Hs, Nw. split; [split; [exact Hq|exact Cw]|reflexivity].
  - now apply (flush_current_pq p w w' r (conj Hq Hc)) in H.
  - inversion H; subst. split; [exact (conj Hq Hc)|reflexivity].
  - inversion H; subst. contradiction.
Qed.

Lemma pq_no_ping : forall w, PQ w -> maybe_queue_pingreq (w_sess w) (w_now w) = (w_sess w, None).
Proof. intros w [H _]. unfold maybe_queue_pingreq. rewrite H. reflexivity. Qed.

