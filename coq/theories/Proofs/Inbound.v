(* Inbound.v — C04: what handling an inbound PUBLISH / PUBREL does to the session: which acknowledgement is
   queued (at the tail of the control queue: arrival order), whether the message is delivered, how the set of
   pending inbound QoS 2 identifiers evolves, and that nothing but a PUBREL for it or a fresh broker session
   removes an identifier from that set. *)
From Coq Require Import List NArith Lia Bool.
From Coq Require Import ZifyBool ZifyN ZifyNat.
From Minimq Require Import Bytes Varint Utf8 Props Ser De Reader Arena Core Util Lts.
Import ListNotations.
Local Open Scope N_scope.

Definition fresh_ctl (a : caction) : centry := {| ce_act := a; ce_st := SWrite 0 |}.

(* queue_ctl_checked: either the acknowledgement joins the tail of the control queue and nothing else changes,
   or the session is returned as it was given together with the reason *)
Lemma queue_ctl_checked_spec : forall s a d s' hr, queue_ctl_checked s a d = (s', hr) ->
  (hr = HOk d /\ s' = set_ob s (with_ctl (s_ob s) (ob_ctl (s_ob s) ++ [fresh_ctl a])) /\ glen (ob_ctl (s_ob s)) < MAX_PENDING_CONTROL) \/
  (s' = s /\ ((hr = HErr EInflightExhausted /\ MAX_PENDING_CONTROL <= glen (ob_ctl (s_ob s))) \/
              (exists e, hr = HErr e /\ check_control_size (rt_mps (s_rt s)) a = Some e))).
Proof.
  intros s a d s' hr H. unfold queue_ctl_checked in H.
  destruct (check_control_size _ _) as [e|] eqn:E.
  - inversion H; subst. right. split; [reflexivity|]. right. exists e. split; reflexivity.
  - unfold queue_control in H. destruct (N.leb_spec MAX_PENDING_CONTROL (glen (ob_ctl (s_ob s)))) as [L|L].
    + inversion H; subst. right. split; [reflexivity|]. left. split; [reflexivity|exact L].
    + inversion H; subst. left. split; [reflexivity|]. split; [reflexivity|exact L].
Qed.

Definition ack_appended (s s' : session) (a : caction) : Prop :=
  ob_ctl (s_ob s') = ob_ctl (s_ob s) ++ [fresh_ctl a] /\ ob_ret (s_ob s') = ob_ret (s_ob s) /\
  ob_rel (s_ob s') = ob_rel (s_ob s) /\ ob_buf (s_ob s') = ob_buf (s_ob s).

Definition refused (s : session) (a : caction) (hr : hres) : Prop :=
  (hr = HErr EInflightExhausted /\ MAX_PENDING_CONTROL <= glen (ob_ctl (s_ob s))) \/
  (exists e, hr = HErr e /\ check_control_size (rt_mps (s_rt s)) a = Some e).

(* ---------- QoS 0 ---------- *)
Theorem qos0_delivered : forall s t pid r d ps pl, handle_packet s (RPublish t pid Q0 r d ps pl) = (s, HOk true).
Proof. reflexivity. Qed.

(* ---------- QoS 1: PUBACK with the same identifier queued behind everything already owed, then delivery ---------- *)
Theorem qos1_acked_then_delivered : forall s t id r d ps pl s' hr,
  handle_packet s (RPublish t (Some id) Q1 r d ps pl) = (s', hr) ->
  let rc := if mem_id id (s_srv s) then 145 else 0 in
  (hr = HOk true /\ ack_appended s s' (CPubAck id rc) /\ s_srv s' = s_srv s) \/
  (s' = s /\ refused s (CPubAck id rc) hr).
Proof.
  intros s t id r d ps pl s' hr H rc. cbn [handle_packet] in H. fold rc in H.
  destruct (queue_ctl_checked_spec _ _ _ _ _ H) as [[Hr [Hs _]]|[Hs Hr]].
  - left. subst s'. split; [exact Hr|]. split; [|reflexivity]. repeat split.
  - right. split; assumption.
Qed.

(* ---------- QoS 2 ---------- *)
(* first arrival: identifier recorded, PUBREC (success) queued, delivered *)
Theorem qos2_first_arrival : forall s t id r d ps pl s' hr,
  handle_packet s (RPublish t (Some id) Q2 r d ps pl) = (s', hr) ->
  mem_id id (s_srv s) = false -> glen (s_srv s) < MAX_INBOUND_QOS2 ->
  (hr = HOk true /\ ack_appended s s' (CPubRec id 0) /\ s_srv s' = s_srv s ++ [id]) \/
  (s' = s /\ refused s (CPubRec id 0) hr).
Proof.
  intros s t id r d ps pl s' hr H Hm Hl. cbn [handle_packet] in H. rewrite Hm in H.
  destruct (N.leb_spec MAX_INBOUND_QOS2 (glen (s_srv s))) as [L|L]; [lia|]. cbn [orb negb] in H.
  destruct (queue_ctl_checked s (CPubRec id 0) (negb (negb (rc_success 0)))) as [s1 h1] eqn:E.
  destruct (queue_ctl_checked_spec _ _ _ _ _ E) as [[Hr [Hs _]]|[Hs Hr]]; subst s1.
  - subst h1. inversion H; subst s' hr. left. split; [reflexivity|]. split; [repeat split|reflexivity].
  - right. destruct Hr as [[-> Hq]|[e [-> Hq]]]; inversion H; subst s' hr; (split; [reflexivity|]).
    + left. split; [reflexivity|exact Hq].
    + right. exists e. split; [reflexivity|exact Hq].
Qed.

(* retransmission while the identifier is pending: acknowledged again, NOT delivered again, set unchanged *)
Theorem qos2_duplicate : forall s t id r d ps pl s' hr,
  handle_packet s (RPublish t (Some id) Q2 r d ps pl) = (s', hr) ->
  mem_id id (s_srv s) = true ->
  s_srv s' = s_srv s /\ hr <> HOk true /\
  ((hr = HOk false /\ ack_appended s s' (CPubRec id 0)) \/ (s' = s /\ refused s (CPubRec id 0) hr)).
Proof.
  intros s t id r d ps pl s' hr H Hm. cbn [handle_packet] in H. rewrite Hm in H. cbn [orb negb] in H.
  destruct (queue_ctl_checked s (CPubRec id 0) false) as [s1 h1] eqn:E.
  destruct (queue_ctl_checked_spec _ _ _ _ _ E) as [[Hr [Hs _]]|[Hs Hr]]; subst s1.
  - subst h1. inversion H; subst s' hr. split; [reflexivity|]. split; [discriminate|]. left. split; [reflexivity|]. repeat split.
  - assert (Hs' : s' = s /\ hr = h1) by (destruct h1; inversion H; subst; split; reflexivity). destruct Hs' as [-> ->].
    split; [reflexivity|]. split.
    + destruct Hr as [[-> _]|[e [-> _]]]; discriminate.
    + right. split; [reflexivity|exact Hr].
Qed.

(* more than the advertised Receive Maximum pending (a broker that breaks the flow-control rule): refused with
   0x93, not delivered, not recorded *)
Theorem qos2_over_receive_maximum : forall s t id r d ps pl s' hr,
  handle_packet s (RPublish t (Some id) Q2 r d ps pl) = (s', hr) ->
  mem_id id (s_srv s) = false -> MAX_INBOUND_QOS2 <= glen (s_srv s) ->
  s_srv s' = s_srv s /\ hr <> HOk true /\
  ((hr = HOk false /\ ack_appended s s' (CPubRec id 147)) \/ (s' = s /\ refused s (CPubRec id 147) hr)).
Proof.
  intros s t id r d ps pl s' hr H Hm Hl. cbn [handle_packet] in H. rewrite Hm in H.
  destruct (N.leb_spec MAX_INBOUND_QOS2 (glen (s_srv s))) as [L|L]; [|lia]. cbn [orb negb] in H.
  change (rc_success 147) with false in H. cbn [negb orb] in H.
  destruct (queue_ctl_checked s (CPubRec id 147) false) as [s1 h1] eqn:E.
  destruct (queue_ctl_checked_spec _ _ _ _ _ E) as [[Hr [Hs _]]|[Hs Hr]]; subst s1.
  - subst h1. inversion H; subst s' hr. split; [reflexivity|]. split; [discriminate|]. left. split; [reflexivity|]. repeat split.
  - assert (Hs' : s' = s /\ hr = h1) by (destruct h1; inversion H; subst; split; reflexivity). destruct Hs' as [-> ->].
    split; [reflexivity|]. split.
    + destruct Hr as [[-> _]|[e [-> _]]]; discriminate.
    + right. split; [reflexivity|exact Hr].
Qed.

(* a PUBLISH with QoS > 0 and no identifier cannot be decoded as such; handled defensively *)
Theorem qos_without_id : forall s t q r d ps pl, q <> Q0 ->
  handle_packet s (RPublish t None q r d ps pl) = (s, HErr EInvalidPacket).
Proof. intros s t q r d ps pl Hq. destruct q; [contradiction| |]; reflexivity. Qed.

(* ---------- PUBREL ---------- *)
Lemma swap_remove_id_some : forall id l, mem_id id l = true -> exists l', swap_remove_id id l = Some l'.
Proof.
  induction l as [|x t IH]; intros H; cbn [mem_id existsb] in H; [discriminate|].
  cbn [swap_remove_id]. rewrite N.eqb_sym in H. destruct (N.eqb x id) eqn:E.
  - destruct (rev t); eexists; reflexivity.
  - cbn [orb] in H. destruct (IH H) as [l' ->]. eexists; reflexivity.
Qed.

Lemma swap_remove_id_none : forall id l, mem_id id l = false -> swap_remove_id id l = None.
Proof.
  induction l as [|x t IH]; intros H; cbn [mem_id existsb] in H; [reflexivity|].
  cbn [swap_remove_id]. rewrite N.eqb_sym in H. destruct (N.eqb x id) eqn:E; [discriminate|].
  cbn [orb] in H. now rewrite (IH H).
Qed.

(* membership after removing the first occurrence of id (the last entry takes its place) *)
Lemma swap_remove_id_in : forall id l l' x, swap_remove_id id l = Some l' -> x <> id -> (In x l <-> In x l').
Proof.
  induction l as [|y t IH]; intros l' x H Hx; cbn [swap_remove_id] in H; [discriminate|].
  destruct (N.eqb_spec y id) as [->|Hy].
  - destruct (rev t) as [|lst rinit] eqn:Er.
    + inversion H; subst. assert (t = []) by (destruct t; [reflexivity|]; apply (f_equal (@length N)) in Er; rewrite rev_length in Er; discriminate).
      subst. cbn [In]. split; [intros [E|[]]; congruence|intros []].
    + inversion H; subst. assert (Et : t = rev rinit ++ [lst]).
      { rewrite <- (rev_involutive t), Er. reflexivity. }
      rewrite Et. cbn [In]. rewrite in_app_iff. cbn [In]. split.
      * intros [E|[Hi|[E|[]]]]; [congruence|right; exact Hi|left; exact E].
      * intros [E|Hi]; [right; right; left; exact E|right; left; exact Hi].
  - destruct (swap_remove_id id t) as [t'|] eqn:E; [|discriminate]. inversion H; subst.
    cbn [In]. rewrite (IH t' x eq_refl Hx). reflexivity.
Qed.

Lemma swap_remove_id_nodup : forall id l l', NoDup l -> swap_remove_id id l = Some l' -> NoDup l' /\ ~ In id l'.
Proof.
  induction l as [|y t IH]; intros l' Hn H; cbn [swap_remove_id] in H; [discriminate|].
  inversion Hn as [|? ? Hy Ht]; subst.
  destruct (N.eqb_spec y id) as [->|Hne].
  - destruct (rev t) as [|lst rinit] eqn:Er.
    + inversion H; subst. split; [constructor|intros []].
    + inversion H; subst. assert (Et : t = rev rinit ++ [lst]).
      { rewrite <- (rev_involutive t), Er. reflexivity. }
      assert (Hp : forall x, In x (lst :: rev rinit) <-> In x t).
      { intros x. rewrite Et. cbn [In]. rewrite in_app_iff. cbn [In]. tauto. }
      split.
      * rewrite Et in Ht. apply NoDup_remove in Ht. rewrite app_nil_r in Ht. destruct Ht as [H1 H2].
        constructor; assumption.
      * intros Hi. apply Hp in Hi. contradiction.
  - destruct (swap_remove_id id t) as [t'|] eqn:E; [|discriminate]. inversion H; subst.
    destruct (IH t' Ht eq_refl) as [N1 N2]. split.
    + constructor; [|exact N1]. intros Hi. apply Hy. apply (swap_remove_id_in id t t' y E Hne). exact Hi.
    + intros [Hi|Hi]; [congruence|contradiction].
Qed.

(* PUBREL for a pending identifier: removed from the set, PUBCOMP success queued *)
Theorem pubrel_pending : forall s id rc s' hr,
  handle_packet s (RPubRel id rc) = (s', hr) -> mem_id id (s_srv s) = true ->
  exists l, swap_remove_id id (s_srv s) = Some l /\ s_srv s' = l /\
    ((hr = HOk false /\ ack_appended s s' (CPubComp id 0)) \/
     (s' = set_srv s l /\ refused (set_srv s l) (CPubComp id 0) hr)).
Proof.
  intros s id rc s' hr H Hm. cbn [handle_packet] in H.
  destruct (swap_remove_id_some id (s_srv s) Hm) as [l El]. rewrite El in H. exists l. split; [exact El|].
  destruct (queue_ctl_checked_spec _ _ _ _ _ H) as [[Hr [Hs _]]|[Hs Hr]]; subst s'.
  - split; [reflexivity|]. left. split; [exact Hr|]. repeat split.
  - split; [reflexivity|]. right. split; [reflexivity|exact Hr].
Qed.

(* PUBREL for an unknown identifier: PUBCOMP with Packet Identifier Not Found (0x92), set unchanged *)
Theorem pubrel_unknown : forall s id rc s' hr,
  handle_packet s (RPubRel id rc) = (s', hr) -> mem_id id (s_srv s) = false ->
  s_srv s' = s_srv s /\
  ((hr = HOk false /\ ack_appended s s' (CPubComp id 146)) \/ (s' = s /\ refused s (CPubComp id 146) hr)).
Proof.
  intros s id rc s' hr H Hm. cbn [handle_packet] in H. rewrite (swap_remove_id_none id _ Hm) in H.
  destruct (queue_ctl_checked_spec _ _ _ _ _ H) as [[Hr [Hs _]]|[Hs Hr]]; subst s'.
  - split; [reflexivity|]. left. split; [exact Hr|]. repeat split.
  - split; [reflexivity|]. right. split; [reflexivity|exact Hr].
Qed.

(* a PUBREL never surfaces a message *)
Theorem pubrel_never_delivers : forall s id rc, snd (handle_packet s (RPubRel id rc)) <> HOk true.
Proof.
  intros s id rc. cbn [handle_packet]. destruct (swap_remove_id id (s_srv s)) as [l|];
    unfold queue_ctl_checked; destruct (check_control_size _ _); cbn [snd]; try discriminate;
    destruct (queue_control _ _); cbn [snd]; discriminate.
Qed.

Lemma NoDup_app_one : forall (l : list N) x, NoDup l -> ~ In x l -> NoDup (l ++ [x]).
Proof.
  induction l as [|y t IH]; intros x Hn Hx; cbn [app]; [constructor; [intros []|constructor]|].
  inversion Hn as [|? ? Hy Ht]; subst. constructor.
  - rewrite in_app_iff. cbn [In]. intros [Hi|[E|[]]]; [contradiction|]. subst. apply Hx. now left.
  - apply IH; [exact Ht|]. intros Hi. apply Hx. now right.
Qed.

(* ---------- the pending set across every session step ---------- *)
Definition SrvInv (s : session) : Prop := NoDup (s_srv s).

Lemma mem_id_In : forall id l, mem_id id l = true <-> In id l.
Proof.
  intros id l. unfold mem_id. rewrite existsb_exists. split.
  - intros [x [Hx E]]. apply N.eqb_eq in E. now subst.
  - intros H. exists id. split; [exact H|apply N.eqb_refl].
Qed.

Lemma queue_ctl_checked_srv : forall s a d, s_srv (fst (queue_ctl_checked s a d)) = s_srv s.
Proof. intros. unfold queue_ctl_checked. destruct (check_control_size _ _); [reflexivity|]. destruct (queue_control _ _); reflexivity. Qed.

(* the only steps that change the set: a QoS 2 PUBLISH (adds its identifier if new), a PUBREL (removes its
   identifier), a fresh CONNACK (empties it) *)
Lemma handle_packet_srv : forall s p,
  s_srv (fst (handle_packet s p)) = s_srv s \/
  (exists t id r d ps pl, p = RPublish t (Some id) Q2 r d ps pl /\ ~ In id (s_srv s) /\ s_srv (fst (handle_packet s p)) = s_srv s ++ [id]) \/
  (exists id rc l, p = RPubRel id rc /\ swap_remove_id id (s_srv s) = Some l /\ s_srv (fst (handle_packet s p)) = l).
Proof.
  intros s p. destruct p as [sp rc props|t pid q r d ps pl|pid rc|pid rc|pid rc|pid rc|pid props codes|pid props codes|rc props| ];
    cbn [handle_packet]; try (left; reflexivity).
  - destruct q; [left; reflexivity| |]; (destruct pid as [id|]; [|left; reflexivity]).
    + left. apply queue_ctl_checked_srv.
    + match goal with |- context [queue_ctl_checked s ?a ?dl] =>
        pose proof (queue_ctl_checked_srv s a dl) as Hq; destruct (queue_ctl_checked s a dl) as [s1 hr] end.
      cbn [fst] in Hq |- *. destruct hr as [b|e]; [|left; exact Hq].
      destruct (mem_id id (s_srv s)) eqn:Em; cbn [orb]; [left; exact Hq|].
      destruct (MAX_INBOUND_QOS2 <=? glen (s_srv s)); [left; exact Hq|].
      right. left. exists t, id, r, d, ps, pl. split; [reflexivity|]. split.
      * intros Hi. apply mem_id_In in Hi. congruence.
      * reflexivity.
  - left. destruct (ack_packet _ _) as [o f]. destruct (negb f); [reflexivity|]. destruct (rc_success rc); reflexivity.
  - left. destruct (ack_packet _ _) as [o f]. destruct f.
    + destruct (negb (rc_success rc)); [reflexivity|]. cbn [set_ob s_rt].
      destruct (check_pubrel_size _ _ _); [reflexivity|]. destruct (queue_release _ _ _); reflexivity.
    + destruct (has_pending_release _ _); [destruct (rc_success rc)|]; reflexivity.
  - destruct (swap_remove_id pid (s_srv s)) as [l|] eqn:E.
    + right. right. exists pid, rc, l. split; [reflexivity|]. split; [exact E|]. rewrite queue_ctl_checked_srv. reflexivity.
    + left. apply queue_ctl_checked_srv.
  - left. destruct (ack_release _ _) as [o f]. destruct (negb f); [reflexivity|]. destruct (rc_success rc); reflexivity.
  - left. destruct (ack_packet _ _) as [o f]. destruct (negb f); [reflexivity|]. destruct (all_success codes); reflexivity.
  - left. destruct (ack_packet _ _) as [o f]. destruct (negb f); [reflexivity|]. destruct (all_success codes); reflexivity.
Qed.

Lemma next_packet_id_srv : forall s, s_srv (fst (next_packet_id s)) = s_srv s.
Proof. intros. unfold next_packet_id. destruct (next_packet_id_go _ _ _). reflexivity. Qed.

Lemma publish_middle_srv : forall s live r, s_srv (fst (publish_middle s live r)) = s_srv s.
Proof.
  intros s live r. unfold publish_middle. destruct (negb _); [reflexivity|].
  destruct (effective_qos s (pr_qos r)).
  - destruct (negb _); [reflexivity|]. cbv zeta. destruct (enc_publish _ _); try reflexivity.
    destruct (too_large _ _); [reflexivity|]. destruct (negb live); reflexivity.
  - pose proof (next_packet_id_srv s) as Hr. destruct (next_packet_id s) as [s1 id]. cbn [fst] in Hr.
    destruct (retained_full _); [exact Hr|]. destruct (negb _); [exact Hr|]. cbv zeta.
    destruct (encode_at _ _) as [o1 er]. destruct er; [|exact Hr].
    destruct (too_large _ _); [exact Hr|]. destruct (retain_packet _ _ _ _); exact Hr.
  - pose proof (next_packet_id_srv s) as Hr. destruct (next_packet_id s) as [s1 id]. cbn [fst] in Hr.
    destruct (retained_full _); [exact Hr|]. destruct (negb _); [exact Hr|]. cbv zeta.
    destruct (encode_at _ _) as [o1 er]. destruct er; [|exact Hr].
    destruct (too_large _ _); [exact Hr|]. destruct (retain_packet _ _ _ _); exact Hr.
Qed.

Lemma enqueue_middle_srv : forall s k enc, s_srv (fst (enqueue_middle s k enc)) = s_srv s.
Proof.
  intros s k enc. unfold enqueue_middle. destruct (retained_full _); [reflexivity|].
  pose proof (next_packet_id_srv s) as Hr. destruct (next_packet_id s) as [s1 id]. cbn [fst] in Hr.
  destruct (encode_at _ _) as [o1 er]. destruct er; [|exact Hr].
  destruct (too_large _ _); [exact Hr|]. destruct (retain_packet _ _ _ _); exact Hr.
Qed.

(* what a step can do to the pending set *)
Inductive srv_change (s s' : session) : Prop :=
| SrvSame : s_srv s' = s_srv s -> srv_change s s'
| SrvAdd id : ~ In id (s_srv s) -> s_srv s' = s_srv s ++ [id] -> srv_change s s'
| SrvRelease id l : swap_remove_id id (s_srv s) = Some l -> s_srv s' = l -> srv_change s s'
| SrvFresh : s_srv s' = [] -> s_sp s' = true -> srv_change s s'.

Theorem srv_step : forall s l s', sstep s l s' -> srv_change s s'.
Proof.
  intros s l s' H. inversion H; subst; clear H; try (apply SrvSame; reflexivity).
  - apply SrvSame. unfold maybe_queue_pingreq. destruct (should_queue_pingreq _ _); [|reflexivity].
    destruct (check_control_size _ _); [reflexivity|]. destruct (queue_control _ _); reflexivity.
  - apply SrvSame. unfold set_written.
    destruct p; [destruct (set_control_written _ _ _ _)|destruct (set_release_written _ _ _ _)|destruct (set_retained_written _ _ _ _)]; reflexivity.
  - apply SrvSame. unfold complete_flush.
    destruct p; [destruct (flush_control _ _)|destruct (flush_release _ _)|destruct (flush_retained _ _)]; reflexivity.
  - destruct (handle_packet_srv s p) as [E|[[t [id [r [d [ps [pl [_ [Hn E]]]]]]]]|[id [rc [l0 [_ [E1 E2]]]]]]].
    + now apply SrvSame.
    + eapply SrvAdd; eassumption.
    + eapply SrvRelease; eassumption.
  - apply SrvSame. apply publish_middle_srv.
  - apply SrvSame. apply enqueue_middle_srv.
  - apply SrvSame. apply enqueue_middle_srv.
  - unfold connack_process. destruct p as [p|]; [|apply SrvSame; reflexivity]. destruct p; try (apply SrvSame; reflexivity).
    destruct (negb _); [apply SrvSame; reflexivity|]. cbv zeta. destruct (connack_props _ _ _); cbn [fst]; [|apply SrvSame; reflexivity].
    destruct sp; [apply SrvSame; reflexivity|]. apply SrvFresh; reflexivity.
Qed.

Theorem SrvInv_step : forall s l s', sstep s l s' -> SrvInv s -> SrvInv s'.
Proof.
  intros s l s' H I. unfold SrvInv in *. destruct (srv_step s l s' H) as [E|id Hn E|id l0 E1 E2|E _].
  - now rewrite E.
  - rewrite E. apply NoDup_app_one; assumption.
  - rewrite E2. exact (proj1 (swap_remove_id_nodup id _ _ I E1)).
  - rewrite E. constructor.
Qed.

(* exactly once: an identifier that is pending stays pending through EVERY step (outbound traffic, disconnects,
   resumed reconnects, other packets) except a PUBREL naming it or a fresh broker session — so every
   retransmission in between is a duplicate in the sense of qos2_duplicate *)
Theorem pending_until_released : forall s l s' id, sstep s l s' -> In id (s_srv s) ->
  In id (s_srv s') \/
  (exists l0, swap_remove_id id (s_srv s) = Some l0 /\ s_srv s' = l0) \/
  (s_srv s' = [] /\ s_sp s' = true).
Proof.
  intros s l s' id H Hi. destruct (srv_step s l s' H) as [E|id' Hn E|id' l0 E1 E2|E Hs].
  - left. now rewrite E.
  - left. rewrite E. apply in_or_app. now left.
  - destruct (N.eq_dec id id') as [->|Hne].
    + right. left. exists l0. split; assumption.
    + left. rewrite E2. apply (swap_remove_id_in id' _ l0 id E1 Hne). exact Hi.
  - right. right. split; assumption.
Qed.

(* after the PUBREL the identifier is free again: a later PUBLISH with it is a new message *)
Theorem released_is_free : forall s id rc, SrvInv s -> mem_id id (s_srv s) = true ->
  mem_id id (s_srv (fst (handle_packet s (RPubRel id rc)))) = false.
Proof.
  intros s id rc I Hm. destruct (handle_packet s (RPubRel id rc)) as [s' hr] eqn:E.
  destruct (pubrel_pending s id rc s' hr E Hm) as [l [El [Es _]]]. cbn [fst]. rewrite Es.
  destruct (mem_id id l) eqn:Em; [|reflexivity]. apply mem_id_In in Em.
  exfalso. exact (proj2 (swap_remove_id_nodup id _ _ I El) Em).
Qed.

(* ---------- acknowledgements leave in the order they were queued ---------- *)
(* the engine starts the FIRST fresh control entry; flushing removes entries without reordering the rest *)
Theorem first_fresh_ack_first : forall l e, find (fun e => matches_priority (ce_st e) false) l = Some e ->
  exists pre post, l = pre ++ e :: post /\ Forall (fun x => is_fresh (ce_st x) = false) pre.
Proof.
  induction l as [|x t IH]; intros e H; cbn [find] in H; [discriminate|].
  cbn [matches_priority] in H. destruct (is_fresh (ce_st x)) eqn:E.
  - inversion H; subst. exists [], t. split; [reflexivity|constructor].
  - destruct (IH e H) as [pre [post [-> F]]]. exists (x :: pre), post. split; [reflexivity|]. constructor; assumption.
Qed.

