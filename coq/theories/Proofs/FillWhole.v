(* FillWhole.v — liveness of the packet reader on a behaving transport: when the bytes of one whole, canonically
   framed packet that fits the receive buffer are available, fill_packet_reader assembles exactly that packet
   (whatever window sequence the reader asks for) and stops with the packet available. *)
From Coq Require Import List NArith Lia Bool.
From Coq Require Import ZifyBool ZifyN ZifyNat.
From Minimq Require Import Bytes Varint Utf8 Props Ser De Reader Arena Core Show Machine Parse Run.
From Minimq Require Import Util VarintProofs Chunking ReaderInv Cancel ConnectOk Framing.
Import ListNotations.
Open Scope N_scope.

(* the bytes of a canonical variable byte integer: continuation bytes, then one terminating byte; at most four *)
Lemma varint_split : forall v rl, varint_write v = Some rl ->
  exists t b, rl = t ++ [b] /\ Forall cont t /\ b < 128 /\ lenN rl <= 4.
Proof.
  intros v rl H. assert (Hv : v <= VARINT_MAX).
  { unfold varint_write in H. destruct (VARINT_MAX <? v) eqn:E; [discriminate|lia]. }
  rewrite (varint_write_cases v Hv) in H. unfold VARINT_MAX in Hv.
  destruct (N.ltb_spec v 128).
  { inversion H; subst. exists [], v. repeat split; [constructor|lia|cbn; lia]. }
  destruct (N.ltb_spec v 16384).
  { inversion H; subst. exists [v mod 128 + 128], (v / 128). repeat split; [repeat constructor; unfold cont; lia|lia|cbn; lia]. }
  destruct (N.ltb_spec v 2097152).
  { inversion H; subst. exists [v mod 128 + 128; (v / 128) mod 128 + 128], (v / 16384).
    repeat split; [repeat constructor; unfold cont; lia|lia|cbn; lia]. }
  inversion H; subst. exists [v mod 128 + 128; (v / 128) mod 128 + 128; (v / 16384) mod 128 + 128], (v / 2097152).
  repeat split; [repeat constructor; unfold cont; lia|lia|cbn; lia].
Qed.

Lemma Forall_takeN : forall (P : N -> Prop) n l, Forall P l -> Forall P (takeN n l).
Proof.
  intros P n l H. rewrite takeN_firstn. generalize (N.to_nat n). clear n.
  induction H as [|x t Hx Ht IH]; intros [|m]; cbn [firstn]; constructor; auto.
Qed.

Section Whole.
Variables (h : N) (rl body : bytes).
Hypothesis Hrl : varint_write (lenN body) = Some rl.
Let P := h :: rl ++ body.
Let L := lenN P.

Lemma L_eq : L = 1 + lenN rl + lenN body.
Proof. unfold L, P. rewrite lenN_cons, lenN_app. lia. Qed.

(* what the probe sees in a prefix of the packet *)
Lemma probe_prefix : forall k, 2 <= k -> k <= L ->
  probe_len (takeN 4 (dropN 1 (takeN k P))) = if k - 1 <? lenN rl then None else Some L.
Proof.
  intros k H2 Hk. destruct (varint_split _ _ Hrl) as [t [b [Erl [Hct [Hb Hl4]]]]].
  assert (Hd : dropN 1 (takeN k P) = takeN (k - 1) (rl ++ body)).
  { unfold P. rewrite !takeN_firstn, dropN_skipn. replace (N.to_nat k) with (S (N.to_nat (k - 1))) by lia. reflexivity. }
  rewrite Hd. destruct (N.ltb_spec (k - 1) (lenN rl)) as [Lt|Ge].
  - (* a strict prefix of the length field: continuation bytes only *)
    rewrite takeN_app_le by lia.
    assert (Hpre : takeN (k - 1) rl = takeN (k - 1) t).
    { rewrite Erl. rewrite Erl, lenN_app, lenN_cons, lenN_nil in Lt. apply takeN_app_le. lia. }
    rewrite Hpre. unfold probe_len. apply probe_go_cont. apply Forall_takeN. now apply Forall_takeN.
  - rewrite takeN_app_ge by lia. set (rest := takeN (k - 1 - lenN rl) body).
    pose proof (varint_roundtrip _ _ rest Hrl) as Hv. pose proof (probe_agrees _ _ _ Hv) as Hp.
    rewrite Hp. rewrite lenN_app. f_equal. rewrite L_eq. lia.
Qed.

(* one reader state on the way: the first k bytes of the packet *)
Definition at_k (r : reader) (k : N) : Prop :=
  rdata r = takeN k P /\ k <= L /\ L <= rcap r /\ RInv r /\ (forall pl, rplen r = Some pl -> pl = L).

Lemma at_k_len : forall r k, at_k r k -> read_bytes r = k.
Proof. intros r k [Hd [Hk _]]. unfold read_bytes. rewrite Hd, lenN_takeN. fold L. lia. Qed.

Lemma window_common : forall r r' win, RInv r -> receive_buffer r = (r', Some win) ->
  rdata r' = rdata r /\ rcap r' = rcap r /\ (forall d, lenN d <= win -> RInv (commit r' d)) /\ RInv r'.
Proof.
  intros r r' win Hi Er. destruct (receive_buffer_inv r r' win Hi Er) as [A [B Post]].
  split; [exact A|]. split; [exact B|]. split.
  - intros d Hd. eapply commit_inv; [reflexivity|exact Post|exact Hd].
  - eapply window_RInv. exact Post.
Qed.

(* the window the reader asks for in such a state: never an error, never more than what is missing *)
Lemma window_at_k : forall r k, at_k r k ->
  exists r' win, receive_buffer r = (r', Some win) /\ win <= L - k /\
    (forall pl, rplen r' = Some pl -> pl = L) /\
    (win = 0 -> k = L /\ rplen r' = Some L) /\
    (k < L -> 1 <= win).
Proof.
  intros r k Hat. pose proof (at_k_len _ _ Hat) as Hrb. destruct Hat as [Hd [Hk [Hcap [Hi Hpl]]]].
  assert (Hl4 : lenN rl <= 4) by (destruct (varint_split _ _ Hrl) as [t [b [_ [_ [_ H4]]]]]; exact H4).
  assert (HL2 : 2 <= L) by (rewrite L_eq; destruct (varint_split _ _ Hrl) as [t [b [E _]]]; rewrite E, lenN_app, lenN_cons; lia).
  unfold receive_buffer.
  destruct (rplen r) as [pl|] eqn:Ep.
  - (* the length is known: it is L *)
    pose proof (Hpl pl eq_refl). subst pl. rewrite Ep.
    destruct (N.leb_spec L (rcap r)) as [_|Bad]; [|lia].
    exists r, (L - read_bytes r). rewrite Hrb, Ep.
    split; [reflexivity|]. split; [lia|]. split; [intros pl E; now inversion E|]. split; [intros E; split; [lia|reflexivity]|lia].
  - unfold probe. rewrite Hrb.
    destruct (N.leb_spec k 1) as [K1|K1].
    + (* at most one byte: ask for one more *)
      rewrite Ep, Hrb. destruct (N.leb_spec (k + 1) (rcap r)) as [_|Bad]; [|lia].
      exists r, (k + 1 - k). rewrite Ep.
      split; [reflexivity|]. split; [lia|]. split; [discriminate|]. split; [lia|lia].
    + rewrite Hd, (probe_prefix k ltac:(lia) Hk).
      destruct (N.ltb_spec (k - 1) (lenN rl)) as [Lt|Ge].
      * (* still inside the length field *)
        destruct (N.leb_spec 5 k) as [Bad|_]; [lia|]. cbn [andb rplen rcap]. unfold read_bytes. cbn [rdata].
        rewrite lenN_takeN. fold L. replace (N.min k L) with k by lia.
        assert (HkL : k < L) by (rewrite L_eq; lia).
        destruct (N.leb_spec (k + 1) (rcap r)) as [_|Bad]; [|lia].
        eexists _, _. split; [reflexivity|]. cbn [rplen]. split; [lia|]. split; [discriminate|]. split; [lia|lia].
      * (* the length field is complete: the probe learns L *)
        rewrite andb_false_r. cbn [rplen rcap]. unfold read_bytes. cbn [rdata].
        rewrite lenN_takeN. fold L. replace (N.min k L) with k by lia.
        destruct (N.leb_spec L (rcap r)) as [_|Bad]; [|lia].
        eexists _, _. split; [reflexivity|]. cbn [rplen]. split; [lia|]. split; [intros pl E; now inversion E|].
        split; [intros E; split; [lia|reflexivity]|lia].
Qed.

Lemma takeN_L : takeN L P = P.
Proof. apply takeN_all. unfold L. lia. Qed.

Lemma dropN_nonempty : forall k, k < L -> dropN k P <> [].
Proof. intros k Hk E. apply (f_equal lenN) in E. rewrite lenN_dropN, lenN_nil in E. fold L in E. lia. Qed.

Lemma at_k_available : forall r k, at_k r k -> packet_available r = true -> rdata r = P /\ rplen r = Some L.
Proof.
  intros r k Hat Ea. pose proof (at_k_len _ _ Hat) as Hrb. destruct Hat as [Hd [Hk [Hcap [Hi Hpl]]]].
  destruct (available_exact _ Hi Ea) as [pl [Ep El]]. pose proof (Hpl pl Ep) as Hp. rewrite Hp in *.
  assert (Hk2 : k = L) by lia. rewrite Hk2 in Hd. rewrite Hd, takeN_L. split; [reflexivity|exact Ep].
Qed.

Lemma set_reader_same : forall s, s = set_reader s (s_reader s).
Proof. intros s. destruct s; reflexivity. Qed.

Theorem fill_whole_dl : forall dl m fuel w k t,
  at_k (rd w) k -> L - k <= N.of_nat m -> (m + 2 <= fuel)%nat -> w_script w = [] -> L <= BIG ->
  (k < L -> w_inq w = [(t, dropN k P)] /\ t <= w_now w) -> (k = L -> w_inq w = []) ->
  exists w', fill_packet_reader fuel dl w = (w', FillOk) /\
    rdata (rd w') = P /\ rplen (rd w') = Some L /\ rcap (rd w') = rcap (rd w) /\
    w_sess w' = set_reader (w_sess w) (rd w') /\ w_inq w' = [] /\ w_script w' = [] /\ w_now w' = w_now w.
Proof.
  intros dl. induction m as [|m IH]; intros fuel w k t Hat Hm Hf Hs HB Hq Hq0;
    (destruct fuel as [|f]; [lia|]); unfold fill_packet_reader; cbn [fill_go]; fold (rd w).
  all: pose proof (at_k_len _ _ Hat) as Hrb.
  all: destruct (packet_available (rd w)) eqn:Ea.
  (* a complete packet is already there *)
  1,3: destruct (at_k_available _ _ Hat Ea) as [Hp Hl]; exists w; split; [reflexivity|];
       assert (Hk2 : k = L) by (destruct Hat as [Hd [Hk [Hcap [Hi Hpl]]]]; destruct (available_exact _ Hi Ea) as [pl [Ep El]];
                                 pose proof (Hpl pl Ep); lia);
       split; [exact Hp|]; split; [exact Hl|]; split; [reflexivity|]; split; [apply set_reader_same|];
       split; [now apply Hq0|]; split; [exact Hs|reflexivity].
  - (* m = 0: nothing is missing, the window is empty *)
    destruct (window_at_k _ _ Hat) as [r' [win [Er [Hw [Hpl' [H0 H1]]]]]]. rewrite Er.
    destruct Hat as [Hd [Hk [Hcap [Hi Hpl]]]]. destruct (window_common _ _ _ Hi Er) as [Hd' [Hc' _]].
    assert (Hk2 : k = L) by lia. assert (Hw0 : win = 0) by lia. destruct (H0 Hw0) as [_ Ep']. rewrite Hw0.
    change (0 =? 0) with true. cbv iota. eexists. split; [reflexivity|]. unfold rd. cbn [w_sess upd_sess set_reader s_reader w_inq w_script w_now].
    rewrite Hd'. fold (rd w). rewrite Hd, Hk2, takeN_L. repeat split; try assumption; try (now apply Hq0).
  - destruct (window_at_k _ _ Hat) as [r' [win [Er [Hw [Hpl' [H0 H1]]]]]]. rewrite Er.
    destruct Hat as [Hd [Hk [Hcap [Hi Hpl]]]]. destruct (window_common _ _ _ Hi Er) as [Hd' [Hc' [Hci Hi']]].
    destruct (N.eqb_spec win 0) as [E0|E0].
    + destruct (H0 E0) as [HkL Ep'].
      eexists. split; [reflexivity|]. unfold rd. cbn [w_sess upd_sess set_reader s_reader w_inq w_script w_now].
      rewrite Hd'. fold (rd w). rewrite Hd, HkL, takeN_L. repeat split; try assumption; try (now apply Hq0).
    + assert (HkL : k < L) by lia. destruct (Hq HkL) as [Hinq Ht].
      assert (Hlen : lenN (dropN k P) = L - k) by (rewrite lenN_dropN; reflexivity).
      destruct (fill_step_dl dl f w r' win t (dropN k P) Ea Er E0 Hs Hinq Ht (dropN_nonempty k HkL) ltac:(rewrite Hlen; lia))
        as [w2 [Ef [S2 [C2 [N2 I2]]]]].
      replace (N.min win (lenN (dropN k P))) with win in S2, I2 by (rewrite Hlen; lia).
      unfold fill_packet_reader in Ef. cbn [fill_go] in Ef. fold (rd w) in Ef. rewrite Ea, Er in Ef.
      destruct (N.eqb_spec win 0); [contradiction|]. rewrite Ef.
      assert (Hat2 : at_k (rd w2) (k + win)).
      { unfold rd. rewrite S2. cbn [set_reader s_reader]. unfold at_k.
        split; [unfold commit; cbn [rdata]; rewrite Hd', Hd, takeN_takeN_dropN; reflexivity|].
        split; [lia|]. split; [unfold commit; cbn [rcap]; rewrite Hc'; exact Hcap|].
        split; [apply Hci; rewrite lenN_takeN, Hlen; lia|]. unfold commit. cbn [rplen]. exact Hpl'. }
      destruct (IH f w2 (k + win) (w_now w) Hat2 ltac:(lia) ltac:(lia) C2 HB) as [w' [Ew [A1 [A2 [A3 [A4 [A5 [A6 A7]]]]]]]].
      * intros Hlt. rewrite I2, dropN_dropN. replace (win + k) with (k + win) by lia.
        destruct (dropN (k + win) P) eqn:Edr; [exfalso; exact (dropN_nonempty _ Hlt Edr)|]. split; [reflexivity|lia].
      * intros Heq. rewrite I2, dropN_dropN. replace (win + k) with (k + win) by lia. rewrite Heq.
        rewrite (dropN_all P L) by (unfold L; lia). reflexivity.
      * exists w'. split; [exact Ew|]. split; [exact A1|]. split; [exact A2|].
        split; [rewrite A3; unfold rd; rewrite S2; cbn [set_reader s_reader commit rcap]; exact Hc'|].
        split; [rewrite A4, S2; destruct (w_sess w); reflexivity|]. split; [exact A5|]. split; [exact A6|]. now rewrite A7.
Qed.

Theorem fill_whole : forall m fuel w k t,
  at_k (rd w) k -> L - k <= N.of_nat m -> (m + 2 <= fuel)%nat -> w_script w = [] -> L <= BIG ->
  (k < L -> w_inq w = [(t, dropN k P)] /\ t <= w_now w) -> (k = L -> w_inq w = []) ->
  exists w', fill_packet_reader fuel None w = (w', FillOk) /\
    rdata (rd w') = P /\ rplen (rd w') = Some L /\ rcap (rd w') = rcap (rd w) /\
    w_sess w' = set_reader (w_sess w) (rd w') /\ w_inq w' = [] /\ w_script w' = [] /\ w_now w' = w_now w.
Proof. exact (fill_whole_dl None). Qed.
End Whole.
