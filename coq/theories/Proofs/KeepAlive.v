(* KeepAlive.v — C10: the arithmetic and the state machine of the two keep-alive timers.
   Everything here is about the synchronous functions the machine calls (note_outbound_activity at every completed
   flush and at CONNACK, maybe_queue_pingreq / ping_timed_out in `service`, next_deadline in the wait); the tie of
   those calls to virtual time is the correspondence check with the timing monitor. *)
From Coq Require Import List NArith ZArith Lia Bool.
From Coq Require Import ZifyBool ZifyN ZifyNat.
From Minimq Require Import Bytes Varint Utf8 Props Ser De Reader Arena Core Machine Util Lts.
From Minimq Require Import PacketShape.
Import ListNotations.
Local Open Scope N_scope.

Section Arith.
Local Ltac Zify.zify_post_hook ::= Z.div_mod_to_equations.

(* the lead the client gives itself: min(5 s, K/2) *)
Definition ka_lead (k : N) : N := N.min ROUND_TRIP_TIMEOUT_MS (k / 2).

Lemma interval_some : forall r i, keepalive_send_interval r = Some i ->
  0 < rt_ka_ms r /\ i + ka_lead (rt_ka_ms r) = rt_ka_ms r /\ i <= rt_ka_ms r /\ (1 < rt_ka_ms r -> 0 < i).
Proof.
  intros r i H. unfold keepalive_send_interval in H. destruct (N.eqb_spec (rt_ka_ms r) 0) as [E|E]; [discriminate|].
  inversion H; subst; clear H. unfold ka_lead, ROUND_TRIP_TIMEOUT_MS. lia.
Qed.

Lemma interval_none : forall r, keepalive_send_interval r = None <-> rt_ka_ms r = 0.
Proof.
  intros r. unfold keepalive_send_interval. destruct (N.eqb_spec (rt_ka_ms r) 0); split; intros; try discriminate; try assumption; try reflexivity; contradiction.
Qed.

(* for every keep-alive that is a whole number of seconds (the only ones the client can have) the interval is positive *)
Lemma interval_pos_seconds : forall r i secs, rt_ka_ms r = secs * 1000 -> keepalive_send_interval r = Some i -> 0 < i.
Proof.
  intros r i secs E H. destruct (interval_some r i H) as [Hp [_ [_ Hi]]]. apply Hi. lia.
Qed.
End Arith.

(* ---------- the next-ping deadline ---------- *)
Lemma activity_ka : forall r now, rt_ka_ms (note_outbound_activity r now) = rt_ka_ms r.
Proof. reflexivity. Qed.
Lemma activity_timeout : forall r now, rt_ping_timeout (note_outbound_activity r now) = rt_ping_timeout r.
Proof. reflexivity. Qed.

(* every completed outbound packet schedules the next PINGREQ no later than K after it *)
Lemma activity_deadline : forall r now, 0 < rt_ka_ms r ->
  exists d, rt_next_ping (note_outbound_activity r now) = Some d /\ now <= d /\ d <= now + rt_ka_ms r
            /\ d + ka_lead (rt_ka_ms r) = now + rt_ka_ms r.
Proof.
  intros r now Hk. unfold note_outbound_activity. cbn [rt_next_ping rt_with_timers].
  destruct (keepalive_send_interval r) as [i|] eqn:E.
  - destruct (interval_some r i E) as [_ [H1 [H2 _]]]. exists (now + i). split; [reflexivity|]. lia.
  - apply interval_none in E. lia.
Qed.

Lemma activity_ka0 : forall r now, rt_ka_ms r = 0 -> rt_next_ping (note_outbound_activity r now) = None.
Proof.
  intros r now E. unfold note_outbound_activity. cbn [rt_next_ping rt_with_timers].
  apply interval_none in E. now rewrite E.
Qed.

(* ---------- K = 0: the invariant "no ping is ever scheduled" ---------- *)
Definition KA (s : session) : Prop := rt_ka_ms (s_rt s) = 0 -> rt_next_ping (s_rt s) = None.

Definition tframe (s s' : session) : Prop :=
  rt_ka_ms (s_rt s') = rt_ka_ms (s_rt s) /\ rt_next_ping (s_rt s') = rt_next_ping (s_rt s).
Lemma KA_frame : forall s s', tframe s s' -> KA s -> KA s'.
Proof. intros s s' [E1 E2] H. unfold KA. rewrite E1, E2. exact H. Qed.
Lemma tframe_refl : forall s, tframe s s.
Proof. split; reflexivity. Qed.

Lemma tframe_queue_ctl_checked : forall s a d, tframe s (fst (queue_ctl_checked s a d)).
Proof.
  intros. unfold queue_ctl_checked. destruct (check_control_size _ _); [apply tframe_refl|].
  destruct (queue_control _ _); split; reflexivity.
Qed.

Lemma tframe_handle_packet : forall s p, tframe s (fst (handle_packet s p)).
Proof.
  intros s p. unfold handle_packet.
  destruct p as [sp rc props|tp pid q rt dup props pl|pid rc|pid rc|pid rc|pid rc|pid props codes|pid props codes|rc props| ];
    try apply tframe_refl.
  - (* publish *) destruct q; [apply tframe_refl| |]; (destruct pid as [id|]; [|apply tframe_refl]).
    + apply tframe_queue_ctl_checked.
    + match goal with |- context [queue_ctl_checked s ?a ?dl] =>
        pose proof (tframe_queue_ctl_checked s a dl) as Hq; destruct (queue_ctl_checked s a dl) as [s1 hr] end.
      cbn [fst] in Hq |- *. destruct hr as [b|e]; [|exact Hq].
      destruct (_ || _); exact Hq.
  - destruct (ack_packet _ _) as [o f]. destruct (negb f); [apply tframe_refl|]. destruct (rc_success rc); split; reflexivity.
  - destruct (ack_packet _ _) as [o f]. destruct f.
    + destruct (negb (rc_success rc)); [split; reflexivity|]. cbn [set_ob s_rt].
      destruct (check_pubrel_size _ _ _); [split; reflexivity|]. destruct (queue_release _ _ _); split; reflexivity.
    + destruct (has_pending_release _ _); [destruct (rc_success rc)|]; apply tframe_refl.
  - destruct (swap_remove_id pid (s_srv s)) as [l|].
    + pose proof (tframe_queue_ctl_checked (set_srv s l) (CPubComp pid 0) false) as H. exact H.
    + apply tframe_queue_ctl_checked.
  - destruct (ack_release _ _) as [o f]. destruct (negb f); [apply tframe_refl|]. destruct (rc_success rc); split; reflexivity.
  - destruct (ack_packet _ _) as [o f]. destruct (negb f); [apply tframe_refl|]. destruct (all_success codes); split; reflexivity.
  - destruct (ack_packet _ _) as [o f]. destruct (negb f); [apply tframe_refl|]. destruct (all_success codes); split; reflexivity.
  - split; reflexivity.
Qed.

Lemma next_packet_id_rt : forall s, s_rt (fst (next_packet_id s)) = s_rt s.
Proof. intros. unfold next_packet_id. destruct (next_packet_id_go _ _ _). reflexivity. Qed.

Lemma tframe_publish_middle : forall s live r, tframe s (fst (publish_middle s live r)).
Proof.
  intros s live r. unfold publish_middle. destruct (negb _); [apply tframe_refl|].
  destruct (effective_qos s (pr_qos r)).
  - destruct (negb _); [apply tframe_refl|]. cbv zeta. destruct (enc_publish _ _); try (split; reflexivity).
    destruct (too_large _ _); [split; reflexivity|]. destruct (negb live); split; reflexivity.
  - pose proof (next_packet_id_rt s) as Hr. destruct (next_packet_id s) as [s1 id]. cbn [fst] in Hr.
    assert (F : tframe s s1) by (unfold tframe; now rewrite Hr).
    destruct (retained_full _); [exact F|]. destruct (negb _); [exact F|]. cbv zeta.
    destruct (encode_at _ _) as [o1 er]. destruct er; [|unfold tframe; cbn [fst set_ob s_rt]; now rewrite Hr].
    destruct (too_large _ _); [unfold tframe; cbn [fst set_ob s_rt]; now rewrite Hr|].
    destruct (retain_packet _ _ _ _); unfold tframe; cbn [fst set_ob set_rt s_rt rt_with_quota rt_ka_ms rt_next_ping]; now rewrite Hr.
  - pose proof (next_packet_id_rt s) as Hr. destruct (next_packet_id s) as [s1 id]. cbn [fst] in Hr.
    assert (F : tframe s s1) by (unfold tframe; now rewrite Hr).
    destruct (retained_full _); [exact F|]. destruct (negb _); [exact F|]. cbv zeta.
    destruct (encode_at _ _) as [o1 er]. destruct er; [|unfold tframe; cbn [fst set_ob s_rt]; now rewrite Hr].
    destruct (too_large _ _); [unfold tframe; cbn [fst set_ob s_rt]; now rewrite Hr|].
    destruct (retain_packet _ _ _ _); unfold tframe; cbn [fst set_ob set_rt s_rt rt_with_quota rt_ka_ms rt_next_ping]; now rewrite Hr.
Qed.

Lemma tframe_enqueue_middle : forall s k enc, tframe s (fst (enqueue_middle s k enc)).
Proof.
  intros s k enc. unfold enqueue_middle. destruct (retained_full _); [apply tframe_refl|].
  pose proof (next_packet_id_rt s) as Hr. destruct (next_packet_id s) as [s1 id]. cbn [fst] in Hr.
  destruct (encode_at _ _) as [o1 er]. destruct er; [|unfold tframe; cbn [fst set_ob s_rt]; now rewrite Hr].
  destruct (too_large _ _); [unfold tframe; cbn [fst set_ob s_rt]; now rewrite Hr|].
  destruct (retain_packet _ _ _ _); unfold tframe; cbn [fst set_ob s_rt]; now rewrite Hr.
Qed.

Lemma tframe_set_written : forall s p w len, tframe s (fst (set_written s p w len)).
Proof.
  intros. unfold set_written.
  destruct p; [destruct (set_control_written _ _ _ _)|destruct (set_release_written _ _ _ _)|destruct (set_retained_written _ _ _ _)]; split; reflexivity.
Qed.

Lemma tframe_ping : forall s now, tframe s (fst (maybe_queue_pingreq s now)).
Proof.
  intros. unfold maybe_queue_pingreq. destruct (should_queue_pingreq _ _); [|apply tframe_refl].
  destruct (check_control_size _ _); [apply tframe_refl|]. destruct (queue_control _ _); split; reflexivity.
Qed.

Lemma KA_activity : forall s now, KA (set_rt s (note_outbound_activity (s_rt s) now)).
Proof. intros s now H. cbn [set_rt s_rt] in *. rewrite activity_ka in H. now apply activity_ka0. Qed.

Lemma KA_complete_flush : forall s p now, KA (fst (complete_flush s p now)).
Proof.
  intros s p now. unfold complete_flush.
  destruct p as [a|pid|pid]; [destruct (flush_control _ _)|destruct (flush_release _ _)|destruct (flush_retained _ _)];
    cbn [fst]; intros H; cbn [set_rt s_rt] in *; rewrite activity_ka in H; apply activity_ka0;
    try exact H; destruct a; exact H.
Qed.

Lemma KA_connack : forall s p now, KA s -> KA (fst (connack_process s p now)).
Proof.
  intros s p now H. unfold connack_process. destruct p as [p|]; [|exact H]. destruct p; try exact H.
  destruct (negb _); [exact H|]. cbv zeta. destruct (connack_props _ _ _) as [a|]; cbn [fst]; [|exact H].
  intros E. cbn [s_rt rt_with_timers rt_next_ping rt_ka_ms] in *. apply activity_ka0. exact E.
Qed.

Theorem KA_step : forall s l s', sstep s l s' -> KA s -> KA s'.
Proof.
  intros s l s' H K. inversion H; subst; clear H.
  - intros _. reflexivity.
  - eapply KA_frame; [apply tframe_ping|exact K].
  - eapply KA_frame; [apply tframe_set_written|exact K].
  - apply KA_complete_flush.
  - exact K.
  - eapply KA_frame; [apply tframe_handle_packet|exact K].
  - eapply KA_frame; [apply tframe_publish_middle|exact K].
  - eapply KA_frame; [apply tframe_enqueue_middle|exact K].
  - eapply KA_frame; [apply tframe_enqueue_middle|exact K].
  - intros _. reflexivity.
  - apply KA_activity.
  - intros _. reflexivity.
  - exact K.
  - exact K.
  - now apply KA_connack.
  - exact K.
Qed.

Lemma KA_new : forall c, KA (session_new c).
Proof. intros c _. reflexivity. Qed.

(* with K = 0 the ping machinery is inert: nothing is queued, and the wait has no ping deadline *)
Theorem ka0_no_ping : forall s now, KA s -> rt_ka_ms (s_rt s) = 0 ->
  should_queue_pingreq s now = false /\ maybe_queue_pingreq s now = (s, None).
Proof.
  intros s now K E. assert (H : should_queue_pingreq s now = false).
  { unfold should_queue_pingreq. rewrite (K E). now rewrite andb_false_r. }
  split; [exact H|]. unfold maybe_queue_pingreq. now rewrite H.
Qed.

(* ---------- K > 0: when a PINGREQ is queued ---------- *)
(* not before the deadline, never while one is outstanding or already queued *)
Theorem ping_only_when_due : forall s now, should_queue_pingreq s now = true ->
  (exists d, rt_next_ping (s_rt s) = Some d /\ d <= now) /\ rt_ping_timeout (s_rt s) = None
  /\ has_pending_pingreq (s_ob s) = false.
Proof.
  intros s now H. unfold should_queue_pingreq in H.
  destruct (rt_ping_timeout (s_rt s)); [discriminate|]. destruct (rt_next_ping (s_rt s)) as [d|]; [|discriminate].
  cbn [andb] in H. destruct (N.leb_spec d now); [|discriminate]. cbn [andb] in H.
  split; [exists d; split; [reflexivity|assumption]|]. split; [reflexivity|]. now destruct (has_pending_pingreq _).
Qed.

(* as soon as the deadline is reached (ties included) and none is outstanding *)
Theorem ping_when_due : forall s now d, rt_next_ping (s_rt s) = Some d -> d <= now ->
  rt_ping_timeout (s_rt s) = None -> has_pending_pingreq (s_ob s) = false -> should_queue_pingreq s now = true.
Proof.
  intros s now d E L T P. unfold should_queue_pingreq. rewrite E, T, P.
  destruct (N.leb_spec d now); [reflexivity|lia].
Qed.

(* ---------- the ping timeout ---------- *)
Theorem pingreq_flush_arms : forall s now,
  rt_ping_timeout (s_rt (fst (complete_flush s (FCtl CPing) now))) = Some (now + ROUND_TRIP_TIMEOUT_MS).
Proof. intros. unfold complete_flush. destruct (flush_control _ _). reflexivity. Qed.

Theorem other_flush_keeps_timeout : forall s p now, p <> FCtl CPing ->
  rt_ping_timeout (s_rt (fst (complete_flush s p now))) = rt_ping_timeout (s_rt s).
Proof.
  intros s p now Hp. unfold complete_flush.
  destruct p as [a|pid|pid]; [destruct (flush_control _ _)|destruct (flush_release _ _)|destruct (flush_retained _ _)];
    cbn [fst set_rt s_rt]; rewrite activity_timeout; try reflexivity.
  destruct a; try reflexivity. contradiction.
Qed.

(* the disconnect decision: exactly when the armed instant has been reached — never earlier *)
Theorem timed_out_iff : forall s now, ping_timed_out s now = true <-> exists d, rt_ping_timeout (s_rt s) = Some d /\ d <= now.
Proof.
  intros s now. unfold ping_timed_out. destruct (rt_ping_timeout (s_rt s)) as [d|].
  - destruct (N.leb_spec d now) as [Hle|Hlt]; split; intros H0; try reflexivity; try discriminate.
    + exists d. split; [reflexivity|assumption].
    + destruct H0 as [d' [E L]]. inversion E; subst. lia.
  - split; [discriminate|]. intros [d [E _]]. discriminate.
Qed.

Theorem no_timeout_before_bound : forall s tp now,
  now < tp + ROUND_TRIP_TIMEOUT_MS ->
  ping_timed_out (fst (complete_flush s (FCtl CPing) tp)) now = false.
Proof.
  intros s tp now L. destruct (ping_timed_out _ now) eqn:E; [|reflexivity].
  apply timed_out_iff in E. destruct E as [d [E1 E2]]. rewrite pingreq_flush_arms in E1. inversion E1; subst. lia.
Qed.

Theorem timeout_at_bound : forall s tp now,
  tp + ROUND_TRIP_TIMEOUT_MS <= now ->
  ping_timed_out (fst (complete_flush s (FCtl CPing) tp)) now = true.
Proof.
  intros s tp now L. apply timed_out_iff. exists (tp + ROUND_TRIP_TIMEOUT_MS). split; [apply pingreq_flush_arms|exact L].
Qed.

(* a PINGRESP clears the timeout: afterwards no instant, however late, times out *)
Theorem pingresp_clears : forall s now,
  rt_ping_timeout (s_rt (fst (handle_packet s RPingResp))) = None /\
  ping_timed_out (fst (handle_packet s RPingResp)) now = false /\
  snd (handle_packet s RPingResp) = HOk false.
Proof. intros. cbn [handle_packet fst snd]. unfold ping_timed_out. cbn [set_rt s_rt rt_with_timers rt_ping_timeout]. repeat split. Qed.

(* nothing but a PINGREQ flush arms the timeout: handling any packet, enqueuing, writing leave it alone or clear it *)
Lemma handle_packet_timeout : forall s p d,
  rt_ping_timeout (s_rt (fst (handle_packet s p))) = Some d -> rt_ping_timeout (s_rt s) = Some d.
Proof.
  intros s p d. unfold handle_packet.
  destruct p as [sp rc props|tp pid q rt dup props pl|pid rc|pid rc|pid rc|pid rc|pid props codes|pid props codes|rc props| ];
    try (intros H; exact H).
  - destruct q; [intros H; exact H| |]; (destruct pid as [id|]; [|intros H; exact H]).
    + unfold queue_ctl_checked. destruct (check_control_size _ _); [intros H; exact H|]. destruct (queue_control _ _); intros H; exact H.
    + q2_split; unfold queue_ctl_checked; destruct (check_control_size _ _); try (intros H; exact H);
        destruct (queue_control _ _); intros H; exact H.
  - destruct (ack_packet _ _) as [o f]. destruct (negb f); [intros H; exact H|]. destruct (rc_success rc); intros H; exact H.
  - destruct (ack_packet _ _) as [o f]. destruct f.
    + destruct (negb (rc_success rc)); [intros H; exact H|]. cbn [set_ob s_rt].
      destruct (check_pubrel_size _ _ _); [intros H; exact H|]. destruct (queue_release _ _ _); intros H; exact H.
    + destruct (has_pending_release _ _); [destruct (rc_success rc)|]; intros H; exact H.
  - destruct (swap_remove_id pid (s_srv s)) as [l|]; unfold queue_ctl_checked; cbn [set_srv s_rt s_ob];
      destruct (check_control_size _ _); try (intros H; exact H); destruct (queue_control _ _); intros H; exact H.
  - destruct (ack_release _ _) as [o f]. destruct (negb f); [intros H; exact H|]. destruct (rc_success rc); intros H; exact H.
  - destruct (ack_packet _ _) as [o f]. destruct (negb f); [intros H; exact H|]. destruct (all_success codes); intros H; exact H.
  - destruct (ack_packet _ _) as [o f]. destruct (negb f); [intros H; exact H|]. destruct (all_success codes); intros H; exact H.
  - cbn [fst set_rt s_rt rt_with_timers rt_ping_timeout]. discriminate.
Qed.

(* ---------- the wait deadline ---------- *)
Theorem deadline_is_earliest : forall r d, next_deadline r = Some d ->
  (forall x, rt_next_ping r = Some x -> d <= x) /\ (forall x, rt_ping_timeout r = Some x -> d <= x) /\
  (rt_next_ping r = Some d \/ rt_ping_timeout r = Some d).
Proof.
  intros r d H. unfold next_deadline in H.
  destruct (rt_next_ping r) as [a|], (rt_ping_timeout r) as [b|]; inversion H; subst; clear H.
  - split; [intros x E; inversion E; subst; lia|]. split; [intros x E; inversion E; subst; lia|].
    destruct (N.min_spec a b) as [[_ E]|[_ E]]; rewrite E; [left|right]; reflexivity.
  - split; [intros x E; inversion E; subst; lia|]. split; [discriminate|now left].
  - split; [discriminate|]. split; [intros x E; inversion E; subst; lia|now right].
Qed.

Theorem deadline_none : forall r, next_deadline r = None <-> rt_next_ping r = None /\ rt_ping_timeout r = None.
Proof.
  intros r. unfold next_deadline. destruct (rt_next_ping r), (rt_ping_timeout r); split; intros H; try discriminate; try (destruct H; discriminate); try reflexivity.
  split; reflexivity.
Qed.

(* ---------- `service`: the only keep-alive disconnect is the armed timeout ---------- *)
Theorem service_disconnects_iff_timed_out : forall now w,
  ping_timed_out (w_sess w) now = true -> snd (service now w) = OFail EDisconnected.
Proof. intros now w H. unfold service. now rewrite H. Qed.

(* ---------- the outstanding-PINGREQ window and the gap bound ---------- *)
(* after a PINGREQ completes at tp:   next PINGREQ due at tp + K - lead,   timeout at tp + 5000.
   While the PINGREQ is outstanding no second one is queued; so if no other packet is sent the next completion
   is no earlier than the PINGRESP or tp + 5000.  For K >= 5 s that instant is within K of tp. *)
Theorem outstanding_blocks_ping : forall s tp now,
  should_queue_pingreq (fst (complete_flush s (FCtl CPing) tp)) now = false.
Proof.
  intros. unfold should_queue_pingreq. rewrite pingreq_flush_arms. reflexivity.
Qed.

Theorem timeout_within_keepalive : forall k tp, ROUND_TRIP_TIMEOUT_MS <= k -> tp + ROUND_TRIP_TIMEOUT_MS <= tp + k.
Proof. intros. lia. Qed.

Section Arith2.
Local Ltac Zify.zify_post_hook ::= Z.div_mod_to_equations.
(* for K >= 10 s the lead is the full round-trip bound, so by the time the next ping is due the outstanding one
   has been answered or has timed out: pings are never blocked *)
Theorem long_keepalive_never_blocked : forall s tp d,
  2 * ROUND_TRIP_TIMEOUT_MS <= rt_ka_ms (s_rt s) ->
  rt_next_ping (s_rt (fst (complete_flush s (FCtl CPing) tp))) = Some d ->
  tp + ROUND_TRIP_TIMEOUT_MS <= d /\ d <= tp + rt_ka_ms (s_rt s).
Proof.
  intros s tp d Hk. unfold complete_flush. destruct (flush_control _ _). cbn [fst set_rt s_rt].
  set (r1 := rt_with_timers (s_rt s) _ _).
  assert (Ek : rt_ka_ms r1 = rt_ka_ms (s_rt s)) by reflexivity.
  intros H. destruct (activity_deadline r1 tp) as [d' [E [L1 [L2 L3]]]]; [rewrite Ek; unfold ROUND_TRIP_TIMEOUT_MS in *; lia|].
  rewrite E in H. inversion H; subst. rewrite Ek in *. unfold ka_lead, ROUND_TRIP_TIMEOUT_MS in *. lia.
Qed.
End Arith2.

(* ---------- refutation for K < 5 s (known finding K10) ---------- *)
(* K = 1 s: a PINGREQ completes at tp; until tp + 5000 (or a PINGRESP) no further PINGREQ is queued and no timeout
   fires — an idle client sends nothing for up to 5 s, five times the keep-alive *)
Definition k10_session : session :=
  let s := session_new {| cf_rx := 64; cf_tx := 64; cf_client_id := []; cf_keepalive_s := 1; cf_expiry := 0;
                          cf_downgrade := false; cf_will := None; cf_auth := None |} in
  fst (complete_flush s (FCtl CPing) 1000).

Theorem keepalive_gap_refuted_small_k :
  rt_ka_ms (s_rt k10_session) = 1000 /\
  forall now, 1000 <= now -> now < 6000 ->
    should_queue_pingreq k10_session now = false /\ ping_timed_out k10_session now = false
    /\ next_step (s_ob k10_session) = None.
Proof.
  split; [reflexivity|]. intros now L1 L2. split; [reflexivity|]. split; [|reflexivity].
  unfold ping_timed_out. change (rt_ping_timeout (s_rt k10_session)) with (Some 6000).
  cbv beta iota. apply N.leb_gt. exact L2.
Qed.
