(* CodecProofs.v — the packet codec: property sizes, serializer content, fixed-header gate, PUBLISH round trip. *)
From Coq Require Import Arith ZArith Lia ZifyBool ZifyN ZifyNat.
From Minimq Require Import Util Bytes Varint Utf8 Props Ser De Reader VarintProofs SerLemmas.

(* ---------- C09: Property::size equals the number of bytes Property::serialize emits ---------- *)
Lemma lenN_u16 : forall v, lenN (u16_be v) = 2. Proof. reflexivity. Qed.
Lemma lenN_u32 : forall v, lenN (u32_be v) = 4. Proof. reflexivity. Qed.

Ltac lens := repeat first [rewrite lenN_app | rewrite lenN_cons | rewrite lenN_nil | rewrite lenN_u16 | rewrite lenN_u32].

Lemma len_prefixed_len : forall d bs, len_prefixed d = Some bs -> lenN bs = lenN d + 2 /\ lenN d <= 65535.
Proof.
  intros d bs H. unfold len_prefixed in H. destruct (65535 <? lenN d) eqn:E; [discriminate|].
  assert (Hb : bs = u16_be (lenN d) ++ d) by congruence. rewrite Hb, lenN_app, lenN_u16. lia.
Qed.

Lemma kind_id_small : forall k, kind_id k < 128.
Proof. destruct k; cbn [kind_id]; lia. Qed.

Lemma kind_id_write : forall k, varint_write (kind_id k) = Some [kind_id k].
Proof.
  intros k. pose proof (kind_id_small k). rewrite varint_write_cases by (unfold VARINT_MAX; lia).
  destruct (N.ltb_spec (kind_id k) 128); [reflexivity|lia].
Qed.

Theorem prop_size_eq : forall p bs, prop_encode p = Some bs -> lenN bs = prop_size p.
Proof.
  intros p bs H. unfold prop_encode in H. rewrite kind_id_write in H. unfold prop_size.
  assert (Hid : varint_len (kind_id (pk p)) = 1).
  { unfold varint_len. pose proof (kind_id_small (pk p)). destruct (N.leb_spec (kind_id (pk p)) 127); [reflexivity|lia]. }
  rewrite Hid. destruct (kind_shape (pk p)).
  - inversion H; subst. lens. lia.
  - inversion H; subst. lens. lia.
  - inversion H; subst. lens. lia.
  - destruct (varint_write (pnum p)) as [v|] eqn:Ev; [|discriminate]. inversion H; subst.
    apply varint_write_len_eq in Ev. lens. lia.
  - destruct (len_prefixed (pdata p)) as [d|] eqn:Ed; [|discriminate]. inversion H; subst.
    apply len_prefixed_len in Ed. lens. lia.
  - destruct (len_prefixed (pdata p)) as [d|] eqn:Ed; [|discriminate]. inversion H; subst.
    apply len_prefixed_len in Ed. lens. lia.
  - destruct (len_prefixed (pdata p)) as [d|] eqn:Ed; [|discriminate].
    destruct (len_prefixed (pdata2 p)) as [d2|] eqn:Ed2; [|discriminate]. inversion H; subst.
    apply len_prefixed_len in Ed. apply len_prefixed_len in Ed2. lens. lia.
Qed.

(* the whole block: the declared property length is the length of what follows *)
Fixpoint encode_all (l : list prop) : option bytes :=
  match l with
  | [] => Some []
  | p :: t => match prop_encode p, encode_all t with Some a, Some b => Some (a ++ b) | _, _ => None end
  end.

Theorem props_size_eq : forall l bs, encode_all l = Some bs -> lenN bs = sumN (map prop_size l).
Proof.
  induction l as [|p t IH]; intros bs H; cbn [encode_all map sumN] in *; [inversion H; reflexivity|].
  destruct (prop_encode p) as [a|] eqn:Ea; [|discriminate]. destruct (encode_all t) as [b|] eqn:Eb; [|discriminate].
  inversion H; subst. rewrite lenN_app, (prop_size_eq _ _ Ea), (IH b eq_refl). reflexivity.
Qed.

(* the serializer writes exactly the concatenation of the chunks, or fails: nothing truncated *)
Fixpoint concat_chunks (cs : list chunk) : option bytes :=
  match cs with
  | [] => Some []
  | None :: _ => None
  | Some d :: t => match concat_chunks t with Some r => Some (d ++ r) | None => None end
  end.

Lemma ser_push_content : forall cs cap idx acc idx' body,
  ser_push cap idx cs acc = SOk idx' body -> exists r, concat_chunks cs = Some r /\ body = acc ++ r.
Proof.
  induction cs as [|c t IH]; intros cap idx acc idx' body H; cbn [ser_push concat_chunks] in *.
  - inversion H; subst. exists []. split; [reflexivity|now rewrite app_nil_r].
  - destruct c as [d|]; [|discriminate]. destruct (_ <? _); [discriminate|].
    destruct (IH _ _ _ _ _ H) as [r [Hr Hb]]. rewrite Hr. exists (d ++ r). split; [reflexivity|]. now rewrite Hb, app_assoc.
Qed.

Lemma concat_chunks_app : forall a b, concat_chunks (a ++ b) =
  match concat_chunks a, concat_chunks b with Some x, Some y => Some (x ++ y) | _, _ => None end.
Proof.
  induction a as [|c t IH]; intros b; cbn [app concat_chunks].
  - destruct (concat_chunks b); reflexivity.
  - destruct c as [d|]; [|reflexivity]. rewrite IH. destruct (concat_chunks t); [|reflexivity].
    destruct (concat_chunks b); [now rewrite app_assoc|reflexivity].
Qed.

Lemma prop_chunks_concat : forall p, concat_chunks (prop_chunks p) =
  match prop_encode p with Some bs => Some bs | None => None end.
Proof.
  intros p. unfold prop_chunks. destruct (prop_encode p) as [bs|]; [cbn [concat_chunks]; now rewrite app_nil_r|].
  destruct (varint_write (kind_id (pk p))); [|reflexivity].
  destruct (kind_shape (pk p)); try reflexivity. destruct (len_prefixed (pdata p)); reflexivity.
Qed.

Lemma concat_props : forall l, concat_chunks (flat_map prop_chunks l) = encode_all l.
Proof.
  induction l as [|p t IH]; cbn [flat_map concat_chunks encode_all]; [reflexivity|].
  rewrite concat_chunks_app, prop_chunks_concat, IH. destruct (prop_encode p); [|reflexivity]. destruct (encode_all t); reflexivity.
Qed.

(* ---------- C08: the fixed-header gate ---------- *)
(* what de_body decides from the first byte alone *)
Definition hdr_gate (hdr : N) : bool :=
  let typ := hdr / 16 in
  let flags := hdr mod 16 in
  negb (N.eqb typ 0) &&
  (if N.eqb typ 3 then true
   else if N.eqb typ 6 then N.eqb flags 2
   else if N.eqb typ 2 || N.eqb typ 4 || N.eqb typ 5 || N.eqb typ 7 || N.eqb typ 9 || N.eqb typ 11
           || N.eqb typ 13 || N.eqb typ 14 then N.eqb flags 0
   else true) &&
  (N.eqb typ 2 || N.eqb typ 3 || N.eqb typ 4 || N.eqb typ 5 || N.eqb typ 6 || N.eqb typ 7 || N.eqb typ 9
   || N.eqb typ 11 || N.eqb typ 13 || N.eqb typ 14) &&
  (if N.eqb typ 3 then negb (N.eqb ((hdr / 2) mod 4) 3) else true).

Lemma gate_rejects : forall hdr l, hdr_gate hdr = false -> de_body hdr l = None.
Proof.
  intros hdr l H. unfold hdr_gate, de_body in *.
  destruct (N.eqb (hdr / 16) 0); [reflexivity|]. cbn [negb andb] in H.
  destruct (N.eqb (hdr / 16) 3) eqn:E3.
  - cbn [negb] in *. rewrite ?orb_true_r in H. cbn [andb orb] in H.
    assert (E2 : N.eqb (hdr / 16) 2 = false) by (apply N.eqb_eq in E3; rewrite E3; reflexivity).
    rewrite E2 in *. cbn [orb andb] in H.
    unfold qos_of_n. destruct (N.eqb ((hdr / 2) mod 4) 3) eqn:Eq; [|discriminate].
    apply N.eqb_eq in Eq. rewrite Eq. reflexivity.
  - destruct (N.eqb (hdr / 16) 6) eqn:E6.
    + destruct (N.eqb (hdr mod 16) 2); cbn [negb]; [|reflexivity].
      apply N.eqb_eq in E6. rewrite E6 in H. cbn in H. discriminate.
    + destruct (N.eqb (hdr / 16) 2) eqn:E2; destruct (N.eqb (hdr / 16) 4) eqn:E4; destruct (N.eqb (hdr / 16) 5) eqn:E5;
      destruct (N.eqb (hdr / 16) 7) eqn:E7; destruct (N.eqb (hdr / 16) 9) eqn:E9; destruct (N.eqb (hdr / 16) 11) eqn:E11;
      destruct (N.eqb (hdr / 16) 13) eqn:E13; destruct (N.eqb (hdr / 16) 14) eqn:E14; cbn [orb andb negb] in *;
      try (destruct (N.eqb (hdr mod 16) 0); cbn [negb andb] in *; [discriminate|reflexivity]); try reflexivity; try discriminate.
Qed.

(* MQTT 5 table 2-2 / 2-3 for packets a server sends: type, and the flag nibble required for it; PUBLISH carries
   DUP/QoS/RETAIN there and QoS 3 is malformed.  (The implementation does not reject DUP=1 on a QoS 0 PUBLISH;
   that is outside the list of C08 and is reported as an observation.) *)
Definition spec_server_first_byte (hdr : N) : bool :=
  let typ := hdr / 16 in
  let flags := hdr mod 16 in
  if N.eqb typ 2 then N.eqb flags 0            (* CONNACK *)
  else if N.eqb typ 3 then negb (N.eqb ((flags / 2) mod 4) 3)   (* PUBLISH, QoS 0..2 *)
  else if N.eqb typ 4 then N.eqb flags 0       (* PUBACK *)
  else if N.eqb typ 5 then N.eqb flags 0       (* PUBREC *)
  else if N.eqb typ 6 then N.eqb flags 2       (* PUBREL *)
  else if N.eqb typ 7 then N.eqb flags 0       (* PUBCOMP *)
  else if N.eqb typ 9 then N.eqb flags 0       (* SUBACK *)
  else if N.eqb typ 11 then N.eqb flags 0      (* UNSUBACK *)
  else if N.eqb typ 13 then N.eqb flags 0      (* PINGRESP *)
  else if N.eqb typ 14 then N.eqb flags 0      (* DISCONNECT *)
  else false.                                  (* 0 reserved; 1, 8, 10, 12 client only; 15 AUTH not requested *)

Fixpoint upto (n : nat) : list N := match n with O => [] | S k => upto k ++ [N.of_nat k] end.

Lemma upto_complete : forall n x, x < N.of_nat n -> In x (upto n).
Proof.
  induction n as [|k IH]; intros x H; [lia|]. cbn [upto]. apply in_or_app.
  destruct (N.eq_dec x (N.of_nat k)); [right; now left | left; apply IH; lia].
Qed.

Lemma gate_table_256 : forallb (fun h => Bool.eqb (hdr_gate h) (spec_server_first_byte h)) (upto 256) = true.
Proof. vm_compute. reflexivity. Qed.

Theorem gate_is_spec : forall hdr, hdr < 256 -> hdr_gate hdr = spec_server_first_byte hdr.
Proof.
  intros hdr H. pose proof gate_table_256 as T. rewrite forallb_forall in T.
  specialize (T hdr (upto_complete 256 hdr H)). now apply Bool.eqb_prop in T.
Qed.

Theorem illegal_first_byte_rejected : forall hdr t, hdr < 256 -> spec_server_first_byte hdr = false -> from_buffer (hdr :: t) = None.
Proof.
  intros hdr t H Hs. unfold from_buffer. destruct (varint_read t) as [n body| |]; try reflexivity.
  rewrite gate_rejects; [reflexivity|]. now rewrite gate_is_spec.
Qed.

(* non-canonical / over-long / oversized remaining length *)
Theorem bad_remaining_length_rejected : forall hdr t, (forall v r, varint_read t <> VOk v r) -> from_buffer (hdr :: t) = None.
Proof. intros hdr t H. unfold from_buffer. destruct (varint_read t) as [n body| |] eqn:E; try reflexivity. exfalso. eapply H. reflexivity. Qed.

(* trailing bytes after the last field of a packet without payload *)
Theorem trailing_garbage_rejected : forall hdr t n body p x rest,
  varint_read t = VOk n body -> de_body hdr body = Some (p, x :: rest) ->
  match p with RPublish _ _ _ _ _ _ _ | RSubAck _ _ _ | RUnsubAck _ _ _ => False | _ => True end ->
  from_buffer (hdr :: t) = None.
Proof. intros hdr t n body p x rest Hv Hd Hp. unfold from_buffer. rewrite Hv, Hd. destruct p; try reflexivity; contradiction. Qed.

(* ---------- PUBLISH: what the decoder reads back from the encoder's bytes is the request ---------- *)
Section RT.
Local Ltac Zify.zify_post_hook ::= Z.div_mod_to_equations.

Lemma read_u16_be : forall v t, v < 65536 -> read_u16 (u16_be v ++ t) = Some (v, t).
Proof.
  intros v t H. unfold u16_be. cbn [app read_u16]. f_equal. f_equal.
  rewrite N.shiftr_div_pow2. change (2 ^ 8) with 256. lia.
Qed.

Lemma take_exact_app : forall (d t : bytes), take_exact (lenN d) (d ++ t) = Some (d, t).
Proof.
  intros. unfold take_exact. rewrite lenN_app. destruct (N.ltb_spec (lenN d + lenN t) (lenN d)); [lia|].
  now rewrite takeN_app_exact, dropN_app_exact.
Qed.

Lemma read_field_prefixed : forall is_str d x t, len_prefixed d = Some x ->
  (is_str = true -> utf8_valid d = true) -> read_field is_str (x ++ t) = FOk d t (2 + lenN d).
Proof.
  intros is_str d x t H Hu. unfold len_prefixed in H. destruct (65535 <? lenN d) eqn:E; [discriminate|].
  assert (Hx : x = u16_be (lenN d) ++ d) by congruence. subst x. unfold read_field.
  rewrite <- app_assoc, read_u16_be by lia. rewrite take_exact_app.
  destruct is_str; cbn [andb]; [rewrite Hu by reflexivity; reflexivity | reflexivity].
Qed.

Lemma de_props_block : forall block szb t, varint_write (lenN block) = Some szb ->
  de_props (szb ++ block ++ t) = Some (block, t).
Proof. intros block szb t H. unfold de_props. rewrite (varint_roundtrip _ _ _ H). apply take_exact_app. Qed.

Lemma publish_hdr_arith : forall (q : qos) (r d : bool),
  let flags := qos_n q * 2 + b2n r + (if d then 8 else 0) in
  let hdr := 3 * 16 + flags mod 16 in
  hdr / 16 = 3 /\ (hdr / 2) mod 4 = qos_n q /\ N.odd hdr = r /\ N.odd (hdr / 8) = d.
Proof.
  intros q r d. destruct q; destruct r; destruct d; vm_compute; repeat split; reflexivity.
Qed.

Definition pid_matches_qos (q : qos) (pid : option N) : Prop :=
  match q, pid with
  | Q0, None => True
  | Q0, Some _ => False
  | _, Some id => id < 65536
  | _, None => False
  end.

Theorem publish_roundtrip : forall cap r off bs ps block,
  enc_publish cap r = SOk off bs ->
  pq_props r = PSlice ps -> encode_all ps = Some block ->
  utf8_valid (pq_topic r) = true ->
  pid_matches_qos (pq_qos r) (pq_pid r) ->
  from_buffer bs = Some (RPublish (pq_topic r) (pq_pid r) (pq_qos r) (pq_retain r) (pq_dup r) block (pq_payload r)).
Proof.
  intros cap r off bs ps block He Hp Hb Hu Hid.
  unfold enc_publish, encode_chunks_payload in He.
  destruct (ser_push cap 5 (publish_chunks r) []) as [idx body|e] eqn:Es; [|discriminate].
  destruct (ser_push_content _ _ _ _ _ _ Es) as [cc [Hcc Hbody]]. cbn [app] in Hbody. subst body.
  pose proof (ser_push_spec _ _ _ _ _ _ Es) as [S1 [S2 S3]]. rewrite lenN_nil in S3.
  cbv zeta in He.
  match type of He with (if ?c then _ else _) = _ => destruct c; [discriminate He|] end.
  match type of He with (if ?c then _ else _) = _ => destruct c; [discriminate He|] end.
  unfold finalize in He. destruct (varint_write (idx + lenN (pq_payload r) - 5)) as [rl|] eqn:Erl; [|discriminate].
  destruct (cap <? 5); [discriminate|]. inversion He; subst off bs; clear He.
  (* the chunks *)
  unfold publish_chunks in Hcc. rewrite Hp in Hcc. rewrite !concat_chunks_app in Hcc. cbn [concat_chunks] in Hcc.
  unfold c_str in Hcc.
  destruct (len_prefixed (pq_topic r)) as [tp|] eqn:Et; [|discriminate Hcc]. rewrite app_nil_r in Hcc.
  set (pidc := match pq_pid r with Some id => [c_u16 id] | None => [] end) in *.
  destruct (concat_chunks pidc) as [pidb|] eqn:Epid; [|discriminate Hcc].
  unfold c_properties, c_varint in Hcc. cbn [concat_chunks] in Hcc.
  destruct (varint_write (props_size (PSlice ps))) as [szb|] eqn:Esz; [|discriminate Hcc].
  rewrite concat_props, Hb in Hcc. inversion Hcc; subst cc; clear Hcc.
  cbn [props_size] in Esz. rewrite <- (props_size_eq _ _ Hb) in Esz.
  (* decode *)
  unfold from_buffer. cbn [app].
  assert (Hrl : lenN ((tp ++ pidb ++ szb ++ block) ++ pq_payload r) = idx + lenN (pq_payload r) - 5) by (rewrite lenN_app; lia).
  rewrite <- Hrl in Erl. rewrite (varint_roundtrip _ _ _ Erl).
  destruct (publish_hdr_arith (pq_qos r) (pq_retain r) (pq_dup r)) as [A1 [A2 [A3 A4]]]. cbv zeta in A1, A2, A3, A4.
  unfold publish_flags. unfold de_body. rewrite A1. change (3 =? 0) with false. change (3 =? 3) with true. cbn [negb].
  change (3 =? 6) with false. change (3 =? 2) with false.
  rewrite A2, A3, A4.
  assert (Hq : qos_of_n (qos_n (pq_qos r)) = Some (pq_qos r)) by (destruct (pq_qos r); reflexivity). rewrite Hq.
  rewrite <- !app_assoc. rewrite (read_field_prefixed true _ _ _ Et (fun _ => Hu)).
  unfold pid_matches_qos in Hid.
  destruct (pq_qos r) eqn:Eq; destruct (pq_pid r) as [id|] eqn:Ei; try contradiction; unfold pidc in Epid;
    cbn [concat_chunks c_u16] in Epid.
  - assert (Hpb : pidb = []) by congruence. subst pidb. cbn [app].
    rewrite (de_props_block _ _ _ Esz). destruct (pq_payload r); reflexivity.
  - assert (Hpb : pidb = u16_be id) by (rewrite app_nil_r in Epid; congruence). subst pidb.
    rewrite read_u16_be by exact Hid.
    rewrite (de_props_block _ _ _ Esz). destruct (pq_payload r); reflexivity.
  - assert (Hpb : pidb = u16_be id) by (rewrite app_nil_r in Epid; congruence). subst pidb.
    rewrite read_u16_be by exact Hid.
    rewrite (de_props_block _ _ _ Esz). destruct (pq_payload r); reflexivity.
Qed.
End RT.

(* ---------- the lazy property iterator reads back exactly the properties that were encoded ---------- *)
Section PI.
Local Ltac Zify.zify_post_hook ::= Z.div_mod_to_equations.

(* canonical representation of a property value in the model's record (unused fields empty) *)
Definition prop_canon (p : prop) : bool :=
  match kind_shape (pk p) with
  | ShU8 | ShU16 | ShU32 | ShVar => match pdata p, pdata2 p with [], [] => true | _, _ => false end
  | ShStr | ShBin => N.eqb (pnum p) 0 && match pdata2 p with [] => true | _ => false end
  | ShPair => N.eqb (pnum p) 0
  end.

Lemma kind_of_id_id : forall k, kind_of_id (kind_id k) = Some k.
Proof. destruct k; reflexivity. Qed.

Lemma mkprop_eta : forall p, mkprop (pk p) (pnum p) (pdata p) (pdata2 p) = p.
Proof. destruct p; reflexivity. Qed.

Lemma canon_num : forall p, pdata p = [] -> pdata2 p = [] -> mkprop (pk p) (pnum p) [] [] = p.
Proof. destruct p; cbn; intros; subst; reflexivity. Qed.
Lemma canon_str : forall p, pnum p = 0 -> pdata2 p = [] -> mkprop (pk p) 0 (pdata p) [] = p.
Proof. destruct p; cbn; intros; subst; reflexivity. Qed.
Lemma canon_pair : forall p, pnum p = 0 -> mkprop (pk p) 0 (pdata p) (pdata2 p) = p.
Proof. destruct p; cbn; intros; subst; reflexivity. Qed.

Lemma u32_be_read : forall v t, v < 4294967296 ->
  exists a b c d, u32_be v ++ t = a :: b :: c :: d :: t /\ ((a * 256 + b) * 256 + c) * 256 + d = v.
Proof.
  intros v t H. unfold u32_be. cbn [app]. eexists _, _, _, _. split; [reflexivity|].
  rewrite !N.shiftr_div_pow2. change (2 ^ 24) with 16777216. change (2 ^ 16) with 65536. change (2 ^ 8) with 256. lia.
Qed.

Theorem prop_decode_encode : forall p bs rest, prop_encode p = Some bs -> prop_wf p = true -> prop_canon p = true ->
  prop_decode (bs ++ rest) = PDOk p (lenN bs).
Proof.
  intros p bs rest He Hw Hc. unfold prop_encode in He. rewrite kind_id_write in He.
  unfold prop_decode, prop_wf, prop_canon in *.
  assert (Hv : forall tl, varint_read (([kind_id (pk p)] ++ tl) ++ rest) = VOk (kind_id (pk p)) (tl ++ rest)).
  { intros tl. rewrite <- app_assoc. apply varint_roundtrip. apply kind_id_write. }
  assert (Hl : forall tl, lenN (([kind_id (pk p)] ++ tl) ++ rest) - lenN (tl ++ rest) = 1).
  { intros tl. rewrite !lenN_app. cbn [lenN lenN_acc]. lia. }
  destruct (kind_shape (pk p)) eqn:Es.
  - (* u8 *) assert (Hb : bs = [kind_id (pk p)] ++ [pnum p]) by congruence. subst bs. rewrite Hv, Hl, kind_of_id_id, Es. cbn [app].
    destruct (pdata p) eqn:E1; [|discriminate]. destruct (pdata2 p) eqn:E2; [|discriminate].
    rewrite (canon_num p E1 E2). f_equal.
  - (* u16 *) assert (Hb : bs = [kind_id (pk p)] ++ u16_be (pnum p)) by congruence. subst bs. rewrite Hv, Hl, kind_of_id_id, Es.
    rewrite read_u16_be by lia.
    destruct (pdata p) eqn:E1; [|discriminate]. destruct (pdata2 p) eqn:E2; [|discriminate].
    rewrite (canon_num p E1 E2). f_equal.
  - (* u32 *) assert (Hb : bs = [kind_id (pk p)] ++ u32_be (pnum p)) by congruence. subst bs. rewrite Hv, Hl, kind_of_id_id, Es.
    destruct (u32_be_read (pnum p) rest ltac:(lia)) as [a [b [c [d [Ha Hd]]]]]. rewrite Ha, Hd.
    destruct (pdata p) eqn:E1; [|discriminate]. destruct (pdata2 p) eqn:E2; [|discriminate].
    rewrite (canon_num p E1 E2). f_equal.
  - (* varint *) destruct (varint_write (pnum p)) as [vb|] eqn:Ev; [|discriminate].
    assert (Hb : bs = [kind_id (pk p)] ++ vb) by congruence. subst bs. rewrite Hv, Hl, kind_of_id_id, Es.
    rewrite (varint_roundtrip _ _ _ Ev).
    destruct (pdata p) eqn:E1; [|discriminate]. destruct (pdata2 p) eqn:E2; [|discriminate].
    rewrite (canon_num p E1 E2). f_equal. rewrite !lenN_app. cbn [lenN lenN_acc]. lia.
  - (* string *) destruct (len_prefixed (pdata p)) as [d|] eqn:Ed; [|discriminate].
    assert (Hb : bs = [kind_id (pk p)] ++ d) by congruence. subst bs. rewrite Hv, Hl, kind_of_id_id, Es.
    apply andb_true_iff in Hw. destruct Hw as [Hu _].
    rewrite (read_field_prefixed true _ _ _ Ed (fun _ => Hu)).
    apply andb_true_iff in Hc. destruct Hc as [Hn H2]. apply N.eqb_eq in Hn. destruct (pdata2 p) eqn:E2; [|discriminate].
    rewrite (canon_str p Hn E2). f_equal. apply len_prefixed_len in Ed. rewrite lenN_app. cbn [lenN lenN_acc]. lia.
  - (* binary *) destruct (len_prefixed (pdata p)) as [d|] eqn:Ed; [|discriminate].
    assert (Hb : bs = [kind_id (pk p)] ++ d) by congruence. subst bs. rewrite Hv, Hl, kind_of_id_id, Es.
    rewrite (read_field_prefixed false _ _ _ Ed (fun H => ltac:(discriminate H))).
    apply andb_true_iff in Hc. destruct Hc as [Hn H2]. apply N.eqb_eq in Hn. destruct (pdata2 p) eqn:E2; [|discriminate].
    rewrite (canon_str p Hn E2). f_equal. apply len_prefixed_len in Ed. rewrite lenN_app. cbn [lenN lenN_acc]. lia.
  - (* pair *) destruct (len_prefixed (pdata p)) as [d|] eqn:Ed; [|discriminate].
    destruct (len_prefixed (pdata2 p)) as [d2|] eqn:Ed2; [|discriminate].
    assert (Hb : bs = [kind_id (pk p)] ++ d ++ d2) by congruence. subst bs. rewrite Hv, Hl, kind_of_id_id, Es.
    repeat (apply andb_true_iff in Hw; destruct Hw as [Hw ?]).
    rewrite <- app_assoc. rewrite (read_field_prefixed true _ _ _ Ed (fun _ => Hw)).
    rewrite (read_field_prefixed true _ _ _ Ed2 (fun _ => H0)).
    apply N.eqb_eq in Hc. rewrite (canon_pair p Hc). f_equal.
    apply len_prefixed_len in Ed. apply len_prefixed_len in Ed2. rewrite !lenN_app. cbn [lenN lenN_acc]. lia.
Qed.

Lemma prop_encode_nonempty : forall p bs, prop_encode p = Some bs -> 1 <= lenN bs.
Proof. intros p bs H. rewrite (prop_size_eq _ _ H). unfold prop_size. destruct (kind_shape (pk p)); unfold varint_len; repeat match goal with |- context [if ?c then _ else _] => destruct c end; lia. Qed.

Theorem props_iter_roundtrip : forall ps block,
  encode_all ps = Some block -> forallb prop_wf ps = true -> forallb prop_canon ps = true ->
  props_iter_encoded block = map Some ps.
Proof.
  intros ps block He Hw Hc. unfold props_iter_encoded.
  assert (G : forall fuel ps block, encode_all ps = Some block -> forallb prop_wf ps = true -> forallb prop_canon ps = true ->
              (length block <= fuel)%nat -> props_iter_fuel fuel block = map Some ps).
  { clear. induction fuel as [|f IH]; intros ps block He Hw Hc Hf.
    - destruct block; [|cbn [length] in Hf; lia]. destruct ps as [|p t]; [reflexivity|].
      cbn [encode_all] in He. destruct (prop_encode p) as [a|] eqn:Ea; [|discriminate]. destruct (encode_all t); [|discriminate].
      apply prop_encode_nonempty in Ea. inversion He. apply (f_equal lenN) in H0. rewrite lenN_app, lenN_nil in H0. lia.
    - destruct ps as [|p t]; cbn [encode_all map] in *.
      + inversion He; subst. reflexivity.
      + destruct (prop_encode p) as [a|] eqn:Ea; [|discriminate]. destruct (encode_all t) as [b|] eqn:Eb; [|discriminate].
        inversion He; subst block. cbn [forallb] in Hw, Hc. apply andb_true_iff in Hw. apply andb_true_iff in Hc.
        destruct Hw as [Hw1 Hw2]. destruct Hc as [Hc1 Hc2].
        pose proof (prop_encode_nonempty _ _ Ea) as Hne.
        assert (Hlen : (length a + length b <= S f)%nat) by (rewrite <- app_length; exact Hf).
        cbn [props_iter_fuel]. destruct (a ++ b) as [|x xs] eqn:Eab.
        * apply (f_equal lenN) in Eab. rewrite lenN_app, lenN_nil in Eab. lia.
        * rewrite <- Eab. rewrite (prop_decode_encode p a b Ea Hw1 Hc1). f_equal.
          rewrite dropN_app_exact. apply IH; try assumption.
          rewrite lenN_length in Hne. lia. }
  apply (G (length block) ps block); try assumption. lia.
Qed.
End PI.

(* an invalid UTF-8 topic is refused *)
Lemma invalid_topic_rejected : forall hdr topic rest x t,
  hdr / 16 = 3 -> len_prefixed topic = Some x -> utf8_valid topic = false ->
  varint_read t = VOk (lenN (x ++ rest)) (x ++ rest) -> from_buffer (hdr :: t) = None.
Proof.
  intros hdr topic rest x t H3 Hx Hu Hv. unfold from_buffer. rewrite Hv. unfold de_body. rewrite H3.
  change (3 =? 0) with false. change (3 =? 3) with true. cbn [negb]. change (3 =? 2) with false.
  destruct (qos_of_n ((hdr / 2) mod 4)); [|reflexivity].
  unfold len_prefixed in Hx. destruct (65535 <? lenN topic) eqn:E; [discriminate|].
  assert (Hxx : x = u16_be (lenN topic) ++ topic) by congruence. subst x.
  unfold read_field. rewrite <- app_assoc.
  assert (Hr : read_u16 (u16_be (lenN topic) ++ topic ++ rest) = Some (lenN topic, topic ++ rest)).
  { unfold u16_be. cbn [app read_u16]. f_equal. f_equal. rewrite N.shiftr_div_pow2. change (2 ^ 8) with 256.
    pose proof (N.div_mod' (lenN topic) 256). pose proof (N.mod_upper_bound (lenN topic) 256).
    assert (lenN topic / 256 < 256) by (apply N.div_lt_upper_bound; lia).
    rewrite (N.mod_small (lenN topic / 256)) by lia. lia. }
  rewrite Hr. unfold take_exact. rewrite lenN_app. destruct (N.ltb_spec (lenN topic + lenN rest) (lenN topic)); [lia|].
  rewrite takeN_app_exact, dropN_app_exact. cbn [andb]. rewrite Hu. reflexivity.
Qed.
