(* Sends.v — the user operations at the wire (C09 meets C15): a publish with QoS 1 or 2, a subscribe, an unsubscribe that
   returns its handle has put on the wire exactly what the queues owed before, followed by the encoding of the request —
   on ANY transport, however it cuts the writes — and leaves nothing to write.  A drain that is dropped or cancelled on the
   way conserves `wire ++ owed`, so the retry completes the same byte stream. *)
From Coq Require Import List NArith Lia Bool PeanoNat.
From Coq Require Import ZifyBool ZifyN ZifyNat.
From Minimq Require Import Bytes Varint Utf8 Props Ser De Reader Spec Arena Core Show Machine Parse Run Util Lts Refine
  ArenaLemmas ArenaOps Inv Quota Status Persist Frames Limits Reach WireInv Chunking Wire Measure Terminate KeepAlive ConnectOk PingQuiet Healthy Owed.
Import ListNotations.
Local Open Scope N_scope.

(* ---------------------------------------------------------------- `owed` through the abstract view of the arena *)
Definition a_st (a : aentry) : sstate := snd a.
Definition a_bs (a : aentry) : bytes := snd (fst a).

Lemma Pq_map : forall {A B} (f : B -> A) st bs l, Pq st bs (map f l) = Pq (fun x => st (f x)) (fun x => bs (f x)) l.
Proof. intros. unfold Pq. rewrite map_map. reflexivity. Qed.
Lemma Fq_map : forall {A B} (f : B -> A) st bs l, Fq st bs (map f l) = Fq (fun x => st (f x)) (fun x => bs (f x)) l.
Proof. intros. unfold Fq. rewrite map_map. reflexivity. Qed.

Lemma owed_abs : forall o, owed o =
  (Pq ce_st cbytes (ob_ctl o) ++ Pq le_st lbytes (ob_rel o) ++ Pq a_st a_bs (abs o)) ++
  (Fq ce_st cbytes (ob_ctl o) ++ Fq le_st lbytes (ob_rel o) ++ Fq a_st a_bs (abs o)).
Proof. intros o. unfold owed, part_of, fresh_of, abs. rewrite Pq_map, Fq_map. reflexivity. Qed.

(* a new packet retained behind everything else is owed last *)
Lemma owed_append : forall o o2 pid bs, abs o2 = abs o ++ [(pid, bs, SWrite 0)] -> ob_ctl o2 = ob_ctl o -> ob_rel o2 = ob_rel o ->
  owed o2 = owed o ++ bs.
Proof.
  intros o o2 pid bs Ha Hc Hl. rewrite !owed_abs, Ha, Hc, Hl, Pq_app, Fq_app.
  change (Pq a_st a_bs [(pid, bs, SWrite 0)]) with (@nil N). change (Fq a_st a_bs [(pid, bs, SWrite 0)]) with (bs ++ []).
  rewrite !app_nil_r, <- !app_assoc. reflexivity.
Qed.

(* ---------------------------------------------------------------- the synchronous middles *)
Definition pub_request (r : pub_req) (q : qos) (id : N) : publish_req :=
  {| pq_topic := pr_topic r; pq_pid := Some id; pq_props := pr_props r; pq_retain := pr_retain r;
     pq_qos := q; pq_dup := false; pq_payload := pr_payload r |}.

Lemma next_packet_id_ob : forall s, s_ob (fst (next_packet_id s)) = s_ob s /\ s_rt (fst (next_packet_id s)) = s_rt s.
Proof. intros s. unfold next_packet_id. destruct (next_packet_id_go 17 (s_ob s) (s_pid s)). split; reflexivity. Qed.

Theorem publish_middle_owed : forall s live r s' op,
  Inv s -> publish_middle s live r = (s', MRetained op) ->
  exists bs cap off,
    enc_publish cap (pub_request r (effective_qos s (pr_qos r)) (op_pid op)) = SOk off bs /\
    owed (s_ob s') = owed (s_ob s) ++ bs /\
    pframe s s'.
Proof.
  intros s live r s' op I H. unfold publish_middle in H.
  destruct (negb (props_valid_for (pr_props r) CtxPublish)); [discriminate|].
  set (q := effective_qos s (pr_qos r)) in *.
  assert (Hq : forall s1 id, next_packet_id s = (s1, id) ->
    (if retained_full (s_ob s1) then (s1, MErr EInflightExhausted) else
     if negb (live && sess_can_publish s1 q) then (s1, MErr ENotReady) else
     let req := pub_request r q id in
     let '(o1, er) := encode_at (s_ob s1) (fun cap => enc_publish cap req) in
     let s2 := set_ob s1 o1 in
     match er with
     | EErr e => (s2, MErr (err_of_serr e))
     | EOk off len =>
         if too_large (rt_mps (s_rt s2)) len then (s2, MErr EPacketTooLarge) else
         match retain_packet o1 id off len with
         | None => (s2, MErr EInflightExhausted)
         | Some o2 =>
             let s3 := set_rt (set_ob s2 o2) (rt_with_quota (s_rt s2) (rt_quota (s_rt s2) - 1)) in
             (s3, MRetained {| op_kind := match q with Q2 => 1 | _ => 0 end; op_pid := id; op_gen := s_gen s3 |})
         end
     end) = (s', MRetained op) ->
    exists bs cap off, enc_publish cap (pub_request r q (op_pid op)) = SOk off bs /\ owed (s_ob s') = owed (s_ob s) ++ bs /\
      pframe s s').
  { intros s1 id En G. pose proof (next_packet_id_ob s) as [Eo Er]. rewrite En in Eo, Er. cbn [fst] in Eo, Er.
    destruct (retained_full (s_ob s1)); [discriminate|]. destruct (negb (live && sess_can_publish s1 q)); [discriminate|].
    cbv zeta in G. destruct (encode_at (s_ob s1) (fun cap => enc_publish cap (pub_request r q id))) as [o1 er] eqn:Ee.
    destruct er as [off len|e]; [|discriminate].
    destruct (too_large _ _); [discriminate|]. destruct (retain_packet o1 id off len) as [o2|] eqn:Er2; [|discriminate].
    inversion G; subst s' op. clear G. cbn [op_pid s_ob s_rt set_rt set_ob].
    destruct (encode_retain_spec (s_ob s1) _ o1 off len id o2 ltac:(rewrite Eo; exact (oi_arena _ (inv_ob _ I)))
                (enc_publish_fits (pub_request r q id)) Ee Er2) as [bs [_ [Ab [_ [[cap [off' Hb]] [Hc [Hl _]]]]]]].
    exists bs, cap, off'. split; [exact Hb|]. split.
    - rewrite <- Eo. eapply owed_append; eassumption.
    - unfold pframe. cbn [s_rt s_ob set_rt set_ob rt_with_quota rt_ping_timeout rt_next_ping]. split; [rewrite <- Er; reflexivity|]. split; [rewrite <- Er; reflexivity|].
      rewrite Hc, Eo. reflexivity. }
  destruct q eqn:Eq.
  - (* QoS 0 never returns a handle *)
    destruct (negb (live && sess_can_publish s Q0)); [discriminate|].
    match type of H with context [enc_publish ?c ?x] => destruct (enc_publish c x) end; [|discriminate].
    destruct (too_large _ _); [discriminate|]. destruct (negb live); discriminate.
  - destruct (next_packet_id s) as [s1 id] eqn:En. exact (Hq s1 id eq_refl H).
  - destruct (next_packet_id s) as [s1 id] eqn:En. exact (Hq s1 id eq_refl H).
Qed.

Theorem enqueue_middle_owed : forall s kind enc s' op,
  Inv s -> (forall id cap off bs, enc cap id = SOk off bs -> off + lenN bs <= cap /\ 2 <= lenN bs) ->
  enqueue_middle s kind enc = (s', MRetained op) ->
  exists bs cap off, enc cap (op_pid op) = SOk off bs /\ owed (s_ob s') = owed (s_ob s) ++ bs /\
    pframe s s'.
Proof.
  intros s kind enc s' op I Hfit H. unfold enqueue_middle in H.
  destruct (retained_full (s_ob s)); [discriminate|].
  destruct (next_packet_id s) as [s1 id] eqn:En. pose proof (next_packet_id_ob s) as [Eo Er]. rewrite En in Eo, Er. cbn [fst] in Eo, Er.
  destruct (encode_at (s_ob s1) (fun cap => enc cap id)) as [o1 er] eqn:Ee.
  destruct er as [off len|e]; [|discriminate].
  destruct (too_large _ _); [discriminate|]. destruct (retain_packet o1 id off len) as [o2|] eqn:Er2; [|discriminate].
  inversion H; subst s' op. clear H. cbn [op_pid s_ob s_rt set_ob].
  destruct (encode_retain_spec (s_ob s1) _ o1 off len id o2 ltac:(rewrite Eo; exact (oi_arena _ (inv_ob _ I)))
              (fun cap off' bs => Hfit id cap off' bs) Ee Er2) as [bs [_ [Ab [_ [[cap [off' Hb]] [Hc [Hl _]]]]]]].
  exists bs, cap, off'. split; [exact Hb|]. split; [rewrite <- Eo; eapply owed_append; eassumption|].
  unfold pframe. cbn [s_rt s_ob set_ob]. split; [rewrite Er; reflexivity|]. split; [rewrite Er; reflexivity|]. rewrite Hc, Eo. reflexivity.
Qed.

(* ---------------------------------------------------------------- the drain, for every outcome but an error *)
Ltac same4 := split; [reflexivity|]; split; [assumption|]; split; [assumption|reflexivity].

Theorem flush_outbound_total : forall fuel w w' r,
  WInv (w_sess w) -> PQ w -> flush_outbound fuel w = (w', r) -> not_failed r ->
  total w' = total w /\ WInv (w_sess w') /\ PQ w' /\ w_now w' = w_now w.
Proof.
  induction fuel as [|f IH]; intros w w' r I Hq H Hr; [inversion H; subst; same4|]. cbn [flush_outbound] in H.
  rewrite (pq_no_ping w Hq), upd_sess_id in H.
  destruct (next_step (s_ob (w_sess w))) as [st|] eqn:En; [|inversion H; subst; same4].
  destruct (perform_outbound_step st (w_now w) w) as [w2 r2] eqn:E2.
  assert (I2 : WInv (w_sess w2)).
  { pose proof (perform_outbound_step_wq st (w_now w) w En) as Hwq. rewrite E2 in Hwq. eapply WInv_wq; [exact Hwq|exact I]. }
  assert (Hr2 : not_failed r2) by (destruct r2; inversion H; subst; try exact Logic.I; exact Hr).
  pose proof (step_conserves _ _ _ _ _ I En E2 Hr2) as Hc.
  destruct (step_pq _ _ _ _ I En Hq E2 Hr2) as [Q2 N2].
  assert (Stop : forall r0 : outcome unit, (w2, r0) = (w', r) -> total w' = total w /\ WInv (w_sess w') /\ PQ w' /\ w_now w' = w_now w).
  { intros r0 E. inversion E; subst. split; [exact Hc|]. split; [exact I2|]. split; [exact Q2|exact N2]. }
  destruct r2 as [b|e| | |]; [|elim Hr2|exact (Stop _ H)|exact (Stop _ H)|exact (Stop _ H)].
  destruct (IH w2 w' r I2 Q2 H Hr) as [T [I' [Q' N']]]. split; [congruence|]. split; [exact I'|]. split; [exact Q'|congruence].
Qed.

(* a drain that was dropped (or stopped for any reason but an error) and is run again to its end: the same bytes as if it had
   never been interrupted — nothing lost, nothing twice *)
Theorem flush_outbound_resumes : forall f1 f2 w w1 r w2,
  WInv (w_sess w) -> PQ w -> flush_outbound f1 w = (w1, r) -> not_failed r -> flush_outbound f2 w1 = (w2, ODone tt) ->
  w_wire w2 = w_wire w ++ owed (s_ob (w_sess w)) /\ next_step (s_ob (w_sess w2)) = None.
Proof.
  intros f1 f2 w w1 r w2 I Hq H1 Hr H2. destruct (flush_outbound_total _ _ _ _ I Hq H1 Hr) as [T [I1 [Q1 _]]].
  destruct (flush_outbound_wire _ _ _ I1 Q1 H2) as [Hw Hn]. split; [|exact Hn]. rewrite Hw. exact T.
Qed.

(* ---------------------------------------------------------------- the operations *)
Lemma PQ_upd_sess : forall w s, (forall now, should_queue_pingreq s now = should_queue_pingreq (w_sess w) now) -> PQ w -> PQ (upd_sess w s).
Proof. intros w s H [Hq Hc]. split; [cbn [w_sess w_now upd_sess]; rewrite H; exact Hq|apply upd_sess_calm; exact Hc]. Qed.

(* the tail shared by the three operations: the packet has been retained, the drain runs *)
Lemma finish_retained_wire : forall fuel w1 s2 bs o w',
  WInv (w_sess w1) -> PQ w1 -> next_step (s_ob (w_sess w1)) = None ->
  sstep (w_sess w1) LOther s2 -> owed (s_ob s2) = owed (s_ob (w_sess w1)) ++ bs ->
  (forall now, should_queue_pingreq s2 now = should_queue_pingreq (w_sess w1) now) ->
  finish_mid fuel (upd_sess w1 s2) (MRetained o) = (w', ODone (Some o)) ->
  w_wire w' = w_wire w1 ++ bs /\ next_step (s_ob (w_sess w')) = None.
Proof.
  intros fuel w1 s2 bs o w' I Hq Hn Hstep Ho Hk H. cbn [finish_mid] in H. unfold bindu in H.
  destruct (flush_outbound fuel (upd_sess w1 s2)) as [w3 o3] eqn:Ef. destruct o3 as [u|e| | |]; try discriminate. inversion H; subst w'. clear H.
  destruct u.
  assert (I2 : WInv (w_sess (upd_sess w1 s2))) by (cbn [w_sess upd_sess]; eapply WInv_step; eassumption).
  destruct (flush_outbound_wire _ _ _ I2 (PQ_upd_sess _ _ Hk Hq) Ef) as [Hw Hn3]. split; [|exact Hn3].
  rewrite Hw. cbn [w_wire w_sess upd_sess]. rewrite Ho, (owed_no_step _ Hn). reflexivity.
Qed.

Theorem op_publish_wire : forall fuel r w w' op,
  WInv (w_sess w) -> PQ w -> op_publish fuel r w = (w', ODone (Some op)) ->
  exists w1 bs cap off,
    flush_outbound fuel w = (w1, ODone tt) /\
    enc_publish cap (pub_request r (effective_qos (w_sess w1) (pr_qos r)) (op_pid op)) = SOk off bs /\
    w_wire w' = w_wire w ++ owed (s_ob (w_sess w)) ++ bs /\ next_step (s_ob (w_sess w')) = None.
Proof.
  intros fuel r w w' op I Hq H. unfold op_publish in H. destruct (negb (w_live w)); [discriminate|]. unfold bindu in H.
  destruct (flush_outbound fuel w) as [w1 o1] eqn:E1. destruct o1 as [u|e| | |]; try discriminate. destruct u.
  destruct (flush_outbound_wire _ _ _ I Hq E1) as [Hw1 Hn1].
  destruct (flush_outbound_total _ _ _ _ I Hq E1 Logic.I) as [_ [I1 [Q1 _]]].
  destruct (publish_middle (w_sess w1) (w_live w1) r) as [s2 m] eqn:Em.
  destruct m as [e|o|bs0].
  - cbn [finish_mid] in H. discriminate.
  - assert (Eo : o = op).
    { cbn [finish_mid] in H. unfold bindu in H. destruct (flush_outbound fuel (upd_sess w1 s2)) as [w3 o3]. destruct o3; try discriminate. now inversion H. }
    subst o. destruct (publish_middle_owed _ _ _ _ _ (proj1 I1) Em) as [bs [cap [off [Hb [Ho Hk]]]]].
    assert (Hstep : sstep (w_sess w1) LOther s2).
    { replace s2 with (fst (publish_middle (w_sess w1) (w_live w1) r)) by now rewrite Em. apply SS_publish. }
    destruct (finish_retained_wire fuel w1 s2 bs op w' I1 Q1 Hn1 Hstep Ho (pframe_sq _ _ Hk) H) as [Hw Hn].
    exists w1, bs, cap, off. split; [reflexivity|]. split; [exact Hb|]. split; [|exact Hn]. rewrite Hw, Hw1, <- app_assoc. reflexivity.
  - (* QoS 0 returns no handle *)
    cbn [finish_mid] in H. destruct (write_all fuel bs0 (upd_sess w1 s2)) as [w3 r3]. destruct r3 as [u|e| | |]; try discriminate.
    + destruct (io_flush w3) as [w4 fr]. destruct fr; discriminate.
    + destruct e; discriminate.
Qed.

Theorem op_subscribe_wire : forall fuel topics ps w w' op,
  WInv (w_sess w) -> PQ w -> op_subscribe fuel topics ps w = (w', ODone (Some op)) ->
  exists bs cap off,
    enc_subscribe cap {| sq_pid := op_pid op; sq_props := ps; sq_topics := topics |} = SOk off bs /\
    w_wire w' = w_wire w ++ owed (s_ob (w_sess w)) ++ bs /\ next_step (s_ob (w_sess w')) = None.
Proof.
  intros fuel topics ps w w' op I Hq H. unfold op_subscribe in H. destruct (negb (w_live w)); [discriminate|].
  destruct topics as [|t0 ts]; [discriminate|]. set (topics := t0 :: ts) in *.
  destruct (negb (props_valid_for (PSlice ps) CtxSubscribe)); [discriminate|]. unfold bindu in H.
  destruct (flush_outbound fuel w) as [w1 o1] eqn:E1. destruct o1 as [u|e| | |]; try discriminate. destruct u.
  destruct (flush_outbound_wire _ _ _ I Hq E1) as [Hw1 Hn1].
  destruct (flush_outbound_total _ _ _ _ I Hq E1 Logic.I) as [_ [I1 [Q1 _]]].
  destruct (subscribe_middle (w_sess w1) topics ps) as [s2 m] eqn:Em.
  destruct m as [e|o|bs0]; [cbn [finish_mid] in H; discriminate| |].
  - assert (Eo : o = op).
    { cbn [finish_mid] in H. unfold bindu in H. destruct (flush_outbound fuel (upd_sess w1 s2)) as [w3 o3]. destruct o3; try discriminate. now inversion H. }
    subst o. unfold subscribe_middle in Em.
    destruct (enqueue_middle_owed _ _ _ _ _ (proj1 I1) (fun id => enc_subscribe_fits {| sq_pid := id; sq_props := ps; sq_topics := topics |}) Em)
      as [bs [cap [off [Hb [Ho Hr]]]]].
    assert (Hstep : sstep (w_sess w1) LOther s2).
    { replace s2 with (fst (subscribe_middle (w_sess w1) topics ps)) by (unfold subscribe_middle; now rewrite Em). apply SS_subscribe. }
    destruct (finish_retained_wire fuel w1 s2 bs op w' I1 Q1 Hn1 Hstep Ho (pframe_sq _ _ Hr) H) as [Hw Hn].
    exists bs, cap, off. split; [exact Hb|]. split; [|exact Hn]. rewrite Hw, Hw1, <- app_assoc. reflexivity.
  - unfold subscribe_middle, enqueue_middle in Em. destruct (retained_full _); [discriminate|]. destruct (next_packet_id _). destruct (encode_at _ _) as [o1 [off len|e]]; [|discriminate].
    destruct (too_large _ _); [discriminate|]. destruct (retain_packet _ _ _ _); discriminate.
Qed.

Theorem op_unsubscribe_wire : forall fuel topics ps w w' op,
  WInv (w_sess w) -> PQ w -> op_unsubscribe fuel topics ps w = (w', ODone (Some op)) ->
  exists bs cap off,
    enc_unsubscribe cap {| uq_pid := op_pid op; uq_props := ps; uq_topics := topics |} = SOk off bs /\
    w_wire w' = w_wire w ++ owed (s_ob (w_sess w)) ++ bs /\ next_step (s_ob (w_sess w')) = None.
Proof.
  intros fuel topics ps w w' op I Hq H. unfold op_unsubscribe in H. destruct (negb (w_live w)); [discriminate|].
  destruct topics as [|t0 ts]; [discriminate|]. set (topics := t0 :: ts) in *.
  destruct (negb (props_valid_for (PSlice ps) CtxUnsubscribe)); [discriminate|]. unfold bindu in H.
  destruct (flush_outbound fuel w) as [w1 o1] eqn:E1. destruct o1 as [u|e| | |]; try discriminate. destruct u.
  destruct (flush_outbound_wire _ _ _ I Hq E1) as [Hw1 Hn1].
  destruct (flush_outbound_total _ _ _ _ I Hq E1 Logic.I) as [_ [I1 [Q1 _]]].
  destruct (unsubscribe_middle (w_sess w1) topics ps) as [s2 m] eqn:Em.
  destruct m as [e|o|bs0]; [cbn [finish_mid] in H; discriminate| |].
  - assert (Eo : o = op).
    { cbn [finish_mid] in H. unfold bindu in H. destruct (flush_outbound fuel (upd_sess w1 s2)) as [w3 o3]. destruct o3; try discriminate. now inversion H. }
    subst o. unfold unsubscribe_middle in Em.
    destruct (enqueue_middle_owed _ _ _ _ _ (proj1 I1) (fun id => enc_unsubscribe_fits {| uq_pid := id; uq_props := ps; uq_topics := topics |}) Em)
      as [bs [cap [off [Hb [Ho Hr]]]]].
    assert (Hstep : sstep (w_sess w1) LOther s2).
    { replace s2 with (fst (unsubscribe_middle (w_sess w1) topics ps)) by (unfold unsubscribe_middle; now rewrite Em). apply SS_unsubscribe. }
    destruct (finish_retained_wire fuel w1 s2 bs op w' I1 Q1 Hn1 Hstep Ho (pframe_sq _ _ Hr) H) as [Hw Hn].
    exists bs, cap, off. split; [exact Hb|]. split; [|exact Hn]. rewrite Hw, Hw1, <- app_assoc. reflexivity.
  - unfold unsubscribe_middle, enqueue_middle in Em. destruct (retained_full _); [discriminate|]. destruct (next_packet_id _). destruct (encode_at _ _) as [o1 [off len|e]]; [|discriminate].
    destruct (too_large _ _); [discriminate|]. destruct (retain_packet _ _ _ _); discriminate.
Qed.

(* ---------------------------------------------------------------- non-vacuity (the worlds of Replay.v): a retained QoS 1 publish
   issued on the resumed connection whose queues still owe the replay, on a transport taking three bytes at a time *)
From Minimq Require Import Replay.
Definition ex_pub3 : pub_req := {| pr_topic := [118]; pr_props := PSlice []; pr_qos := Q1; pr_payload := [7; 7]; pr_retain := true |}.
Example publish_wire_example :
  snd (op_publish FUEL ex_pub3 ex_frag) = ODone (Some {| op_kind := 0; op_pid := 3; op_gen := 1 |}) /\
  owed (s_ob (w_sess ex_frag)) = [64; 3; 0; 7; 0; 98; 3; 0; 2; 0; 58; 9; 0; 1; 116; 0; 1; 0; 1; 2; 3] /\
  w_wire (fst (op_publish FUEL ex_pub3 ex_frag)) =
    w_wire ex_frag ++ owed (s_ob (w_sess ex_frag)) ++ [51; 8; 0; 1; 118; 0; 3; 0; 7; 7].
Proof. vm_compute. repeat split. Qed.

Lemma step_cancel_conserves : forall st now w w',
  WInv (w_sess w) -> next_step (s_ob (w_sess w)) = Some st -> perform_outbound_step st now w = (w', OCancel) ->
  total w' = total w.
Proof. intros st now w w' I Hn H. exact (step_conserves st now w w' OCancel I Hn H Logic.I). Qed.

(* ---------------------------------------------------------------- QoS 0: the packet is written directly, behind the drained queues *)
Definition pub_request0 (r : pub_req) : publish_req :=
  {| pq_topic := pr_topic r; pq_pid := None; pq_props := pr_props r; pq_retain := pr_retain r;
     pq_qos := Q0; pq_dup := false; pq_payload := pr_payload r |}.

Lemma publish_middle_direct : forall s live r s' bs, publish_middle s live r = (s', MDirect bs) ->
  effective_qos s (pr_qos r) = Q0 /\ exists cap off, enc_publish cap (pub_request0 r) = SOk off bs.
Proof.
  intros s live r s' bs H. unfold publish_middle in H.
  destruct (negb (props_valid_for (pr_props r) CtxPublish)); [discriminate|].
  destruct (effective_qos s (pr_qos r)) eqn:Eq.
  - split; [reflexivity|]. destruct (negb (live && sess_can_publish s Q0)); [discriminate|].
    match type of H with context [enc_publish ?c ?x] => destruct (enc_publish c x) as [off b0|e] eqn:Ee end; [|discriminate].
    destruct (too_large _ _); [discriminate|]. destruct (negb live); [discriminate|]. inversion H; subst. eexists _, _. exact Ee.
  - destruct (next_packet_id s) as [s1 id]. destruct (retained_full _); [discriminate|]. destruct (negb _); [discriminate|].
    destruct (encode_at _ _) as [o1 [off len|e]]; [|discriminate]. destruct (too_large _ _); [discriminate|]. destruct (retain_packet _ _ _ _); discriminate.
  - destruct (next_packet_id s) as [s1 id]. destruct (retained_full _); [discriminate|]. destruct (negb _); [discriminate|].
    destruct (encode_at _ _) as [o1 [off len|e]]; [|discriminate]. destruct (too_large _ _); [discriminate|]. destruct (retain_packet _ _ _ _); discriminate.
Qed.

Theorem op_publish_q0_wire : forall fuel r w w',
  WInv (w_sess w) -> PQ w -> op_publish fuel r w = (w', ODone None) ->
  exists w1 bs cap off,
    flush_outbound fuel w = (w1, ODone tt) /\ effective_qos (w_sess w1) (pr_qos r) = Q0 /\
    enc_publish cap (pub_request0 r) = SOk off bs /\
    w_wire w' = w_wire w ++ owed (s_ob (w_sess w)) ++ bs.
Proof.
  intros fuel r w w' I Hq H. unfold op_publish in H. destruct (negb (w_live w)); [discriminate|]. unfold bindu in H.
  destruct (flush_outbound fuel w) as [w1 o1] eqn:E1. destruct o1 as [u|e| | |]; try discriminate. destruct u.
  destruct (flush_outbound_wire _ _ _ I Hq E1) as [Hw1 Hn1].
  destruct (publish_middle (w_sess w1) (w_live w1) r) as [s2 m] eqn:Em.
  destruct m as [e|o|bs]; [cbn [finish_mid] in H; discriminate| |].
  - cbn [finish_mid] in H. unfold bindu in H. destruct (flush_outbound fuel (upd_sess w1 s2)) as [w3 o3]. destruct o3; discriminate.
  - destruct (publish_middle_direct _ _ _ _ _ Em) as [Hq0 [cap [off Hb]]].
    cbn [finish_mid] in H. destruct (write_all fuel bs (upd_sess w1 s2)) as [w3 r3] eqn:Ew.
    destruct r3 as [u|e| | |]; try discriminate; [|destruct e; discriminate]. destruct u.
    destruct (io_flush w3) as [w4 fr] eqn:Ef. destruct (io_flush_ghost _ _ _ Ef) as [_ [Hw4 _]]. destruct fr; try discriminate.
    inversion H; subst w'. clear H.
    pose proof (write_all_wire fuel bs 0 (upd_sess w1 s2) w3 (ODone tt) ltac:(lia)) as Hwa. rewrite dropN_0 in Hwa.
    destruct (Hwa Ew) as [_ [_ [_ [k' [_ [K2 [K3 K4]]]]]]]. specialize (K4 eq_refl). subst k'.
    rewrite N.sub_0_r, takeN_all in K3 by lia.
    exists w1, bs, cap, off. split; [reflexivity|]. split; [exact Hq0|]. split; [exact Hb|].
    cbn [w_wire upd_sess]. rewrite Hw4, K3. cbn [w_wire upd_sess]. rewrite Hw1, <- app_assoc. reflexivity.
Qed.

(* ---------------------------------------------------------------- with a PINGREQ falling due: no assumption on the timers *)
(* The drain decides once, before its first step, whether a PINGREQ joins the queue; from then on PQ holds.  So for EVERY
   state: what the drain puts on the wire is what the queues owe after that decision. *)
Lemma existsb_app_true : forall {A} (g : A -> bool) l x, g x = true -> existsb g (l ++ [x]) = true.
Proof. intros A g l x H. rewrite existsb_app. cbn [existsb]. rewrite H. now rewrite orb_true_r. Qed.

Lemma pinged_pq : forall s now s1, maybe_queue_pingreq s now = (s1, None) -> should_queue_pingreq s1 now = false.
Proof.
  intros s now s1 H. unfold maybe_queue_pingreq in H. destruct (should_queue_pingreq s now) eqn:E; [|inversion H; subst; exact E].
  destruct (check_control_size _ _); [discriminate|]. unfold queue_control in H. destruct (_ <=? _); [discriminate|]. inversion H; subst s1.
  unfold should_queue_pingreq. cbn [s_rt s_ob set_ob]. unfold has_pending_pingreq. cbn [ob_ctl].
  rewrite existsb_app_true by reflexivity. cbn [negb]. now rewrite andb_false_r.
Qed.

Theorem flush_outbound_wire_any : forall fuel w w',
  WInv (w_sess w) -> Calm w -> flush_outbound fuel w = (w', ODone tt) ->
  w_wire w' = w_wire w ++ owed (s_ob (fst (maybe_queue_pingreq (w_sess w) (w_now w)))) /\ next_step (s_ob (w_sess w')) = None.
Proof.
  intros fuel w w' I Hcalm H. destruct fuel as [|f]; [discriminate|].
  destruct (maybe_queue_pingreq (w_sess w) (w_now w)) as [s1 e] eqn:Eq.
  assert (Ee : e = None) by (cbn [flush_outbound] in H; rewrite Eq in H; destruct e; [discriminate|reflexivity]). subst e.
  set (w1 := upd_sess w s1).
  assert (I1 : WInv (w_sess w1)).
  { cbn [w1 w_sess upd_sess]. replace s1 with (fst (maybe_queue_pingreq (w_sess w) (w_now w))) by now rewrite Eq.
    eapply WInv_step; [apply SS_ping|exact I]. }
  assert (Q1 : PQ w1) by (split; [cbn [w1 w_sess w_now upd_sess]; exact (pinged_pq _ _ _ Eq)|apply upd_sess_calm; exact Hcalm]).
  assert (H1 : flush_outbound (S f) w1 = (w', ODone tt)).
  { cbn [flush_outbound] in H |- *. rewrite Eq in H. rewrite (pq_no_ping w1 Q1), upd_sess_id. exact H. }
  cbn [fst]. exact (flush_outbound_wire _ _ _ I1 Q1 H1).
Qed.

(* ---------------------------------------------------------------- C13: an operation whose future is dropped *)
(* `total w = wire ++ owed`.  A publish (QoS 1/2), subscribe or unsubscribe dropped at any await point leaves the invariants and
   the timers in place and either no trace at all (total unchanged: dropped while the queues were still being drained) or the
   whole request enqueued (total = old total ++ the encoding: dropped after it was retained, whatever part of it was already
   written); continuing to drain then completes exactly that byte stream (flush_outbound_wire). *)
Lemma finish_retained_cancel : forall fuel w1 s2 bs o w',
  WInv (w_sess w1) -> PQ w1 -> next_step (s_ob (w_sess w1)) = None ->
  sstep (w_sess w1) LOther s2 -> owed (s_ob s2) = owed (s_ob (w_sess w1)) ++ bs ->
  (forall now, should_queue_pingreq s2 now = should_queue_pingreq (w_sess w1) now) ->
  finish_mid fuel (upd_sess w1 s2) (MRetained o) = (w', OCancel) ->
  total w' = w_wire w1 ++ bs /\ WInv (w_sess w') /\ PQ w'.
Proof.
  intros fuel w1 s2 bs o w' I Hq Hn Hstep Ho Hk H. cbn [finish_mid] in H. unfold bindu in H.
  destruct (flush_outbound fuel (upd_sess w1 s2)) as [w3 o3] eqn:Ef. destruct o3 as [u|e| | |]; try discriminate. inversion H; subst w'. clear H.
  assert (I2 : WInv (w_sess (upd_sess w1 s2))) by (cbn [w_sess upd_sess]; eapply WInv_step; eassumption).
  destruct (flush_outbound_total _ _ _ _ I2 (PQ_upd_sess _ _ Hk Hq) Ef Logic.I) as [T [I3 [Q3 _]]].
  split; [|split; assumption]. rewrite T. unfold total. cbn [w_wire w_sess upd_sess]. rewrite Ho, (owed_no_step _ Hn). reflexivity.
Qed.

Theorem op_publish_cancel_safe : forall fuel r w w',
  WInv (w_sess w) -> PQ w -> op_publish fuel r w = (w', OCancel) ->
  (exists w1, flush_outbound fuel w = (w1, ODone tt) /\ effective_qos (w_sess w1) (pr_qos r) = Q0) \/
  (WInv (w_sess w') /\ PQ w' /\
   (total w' = total w \/
    exists w1 bs cap off id, flush_outbound fuel w = (w1, ODone tt) /\
      enc_publish cap (pub_request r (effective_qos (w_sess w1) (pr_qos r)) id) = SOk off bs /\ total w' = total w ++ bs)).
Proof.
  intros fuel r w w' I Hq H. unfold op_publish in H. destruct (negb (w_live w)); [discriminate|]. unfold bindu in H.
  destruct (flush_outbound fuel w) as [w1 o1] eqn:E1. destruct o1 as [u|e| | |]; try discriminate.
  - destruct u. destruct (flush_outbound_wire _ _ _ I Hq E1) as [Hw1 Hn1].
    destruct (flush_outbound_total _ _ _ _ I Hq E1 Logic.I) as [_ [I1 [Q1 _]]].
    destruct (publish_middle (w_sess w1) (w_live w1) r) as [s2 m] eqn:Em.
    destruct m as [e|o|bs0]; [cbn [finish_mid] in H; discriminate| |].
    + right. destruct (publish_middle_owed _ _ _ _ _ (proj1 I1) Em) as [bs [cap [off [Hb [Ho Hk]]]]].
      assert (Hstep : sstep (w_sess w1) LOther s2).
      { replace s2 with (fst (publish_middle (w_sess w1) (w_live w1) r)) by now rewrite Em. apply SS_publish. }
      destruct (finish_retained_cancel fuel w1 s2 bs o w' I1 Q1 Hn1 Hstep Ho (pframe_sq _ _ Hk) H) as [T [I' Q']].
      split; [exact I'|]. split; [exact Q'|]. right. exists w1, bs, cap, off, (op_pid o). split; [reflexivity|]. split; [exact Hb|].
      rewrite T, Hw1. unfold total. rewrite <- app_assoc. reflexivity.
    + left. exists w1. split; [reflexivity|]. exact (proj1 (publish_middle_direct _ _ _ _ _ Em)).
  - right. inversion H; subst w'. destruct (flush_outbound_total _ _ _ _ I Hq E1 Logic.I) as [T [I1 [Q1 _]]].
    split; [exact I1|]. split; [exact Q1|]. left. exact T.
Qed.

Theorem op_subscribe_cancel_safe : forall fuel topics ps w w',
  WInv (w_sess w) -> PQ w -> op_subscribe fuel topics ps w = (w', OCancel) ->
  WInv (w_sess w') /\ PQ w' /\
  (total w' = total w \/
   exists bs cap off id, enc_subscribe cap {| sq_pid := id; sq_props := ps; sq_topics := topics |} = SOk off bs /\ total w' = total w ++ bs).
Proof.
  intros fuel topics ps w w' I Hq H. unfold op_subscribe in H. destruct (negb (w_live w)); [discriminate|].
  destruct topics as [|t0 ts]; [discriminate|]. set (topics := t0 :: ts) in *.
  destruct (negb (props_valid_for (PSlice ps) CtxSubscribe)); [discriminate|]. unfold bindu in H.
  destruct (flush_outbound fuel w) as [w1 o1] eqn:E1. destruct o1 as [u|e| | |]; try discriminate.
  - destruct u. destruct (flush_outbound_wire _ _ _ I Hq E1) as [Hw1 Hn1].
    destruct (flush_outbound_total _ _ _ _ I Hq E1 Logic.I) as [_ [I1 [Q1 _]]].
    destruct (subscribe_middle (w_sess w1) topics ps) as [s2 m] eqn:Em.
    destruct m as [e|o|bs0]; [cbn [finish_mid] in H; discriminate| |].
    + unfold subscribe_middle in Em.
      destruct (enqueue_middle_owed _ _ _ _ _ (proj1 I1) (fun id => enc_subscribe_fits {| sq_pid := id; sq_props := ps; sq_topics := topics |}) Em)
        as [bs [cap [off [Hb [Ho Hr]]]]].
      assert (Hstep : sstep (w_sess w1) LOther s2).
      { replace s2 with (fst (subscribe_middle (w_sess w1) topics ps)) by (unfold subscribe_middle; now rewrite Em). apply SS_subscribe. }
      destruct (finish_retained_cancel fuel w1 s2 bs o w' I1 Q1 Hn1 Hstep Ho (pframe_sq _ _ Hr) H) as [T [I' Q']].
      split; [exact I'|]. split; [exact Q'|]. right. exists bs, cap, off, (op_pid o). split; [exact Hb|].
      rewrite T, Hw1. unfold total. rewrite <- app_assoc. reflexivity.
    + unfold subscribe_middle, enqueue_middle in Em. destruct (retained_full _); [discriminate|]. destruct (next_packet_id _). destruct (encode_at _ _) as [o1 [off len|e]]; [|discriminate].
      destruct (too_large _ _); [discriminate|]. destruct (retain_packet _ _ _ _); discriminate.
  - inversion H; subst w'. destruct (flush_outbound_total _ _ _ _ I Hq E1 Logic.I) as [T [I1 [Q1 _]]].
    split; [exact I1|]. split; [exact Q1|]. left. exact T.
Qed.

Theorem op_unsubscribe_cancel_safe : forall fuel topics ps w w',
  WInv (w_sess w) -> PQ w -> op_unsubscribe fuel topics ps w = (w', OCancel) ->
  WInv (w_sess w') /\ PQ w' /\
  (total w' = total w \/
   exists bs cap off id, enc_unsubscribe cap {| uq_pid := id; uq_props := ps; uq_topics := topics |} = SOk off bs /\ total w' = total w ++ bs).
Proof.
  intros fuel topics ps w w' I Hq H. unfold op_unsubscribe in H. destruct (negb (w_live w)); [discriminate|].
  destruct topics as [|t0 ts]; [discriminate|]. set (topics := t0 :: ts) in *.
  destruct (negb (props_valid_for (PSlice ps) CtxUnsubscribe)); [discriminate|]. unfold bindu in H.
  destruct (flush_outbound fuel w) as [w1 o1] eqn:E1. destruct o1 as [u|e| | |]; try discriminate.
  - destruct u. destruct (flush_outbound_wire _ _ _ I Hq E1) as [Hw1 Hn1].
    destruct (flush_outbound_total _ _ _ _ I Hq E1 Logic.I) as [_ [I1 [Q1 _]]].
    destruct (unsubscribe_middle (w_sess w1) topics ps) as [s2 m] eqn:Em.
    destruct m as [e|o|bs0]; [cbn [finish_mid] in H; discriminate| |].
    + unfold unsubscribe_middle in Em.
      destruct (enqueue_middle_owed _ _ _ _ _ (proj1 I1) (fun id => enc_unsubscribe_fits {| uq_pid := id; uq_props := ps; uq_topics := topics |}) Em)
        as [bs [cap [off [Hb [Ho Hr]]]]].
      assert (Hstep : sstep (w_sess w1) LOther s2).
      { replace s2 with (fst (unsubscribe_middle (w_sess w1) topics ps)) by (unfold unsubscribe_middle; now rewrite Em). apply SS_unsubscribe. }
      destruct (finish_retained_cancel fuel w1 s2 bs o w' I1 Q1 Hn1 Hstep Ho (pframe_sq _ _ Hr) H) as [T [I' Q']].
      split; [exact I'|]. split; [exact Q'|]. right. exists bs, cap, off, (op_pid o). split; [exact Hb|].
      rewrite T, Hw1. unfold total. rewrite <- app_assoc. reflexivity.
    + unfold unsubscribe_middle, enqueue_middle in Em. destruct (retained_full _); [discriminate|]. destruct (next_packet_id _). destruct (encode_at _ _) as [o1 [off len|e]]; [|discriminate].
      destruct (too_large _ _); [discriminate|]. destruct (retain_packet _ _ _ _); discriminate.
  - inversion H; subst w'. destruct (flush_outbound_total _ _ _ _ I Hq E1 Logic.I) as [T [I1 [Q1 _]]].
    split; [exact I1|]. split; [exact Q1|]. left. exact T.
Qed.

(* computed: the publish of `publish_wire_example` with its future dropped inside the n-th transport call *)
Definition ex_drop (n : nat) : world := upd_script ex_conn (repeat (0, 3) n ++ [(3, 0)]).
Definition ex_dropped (n : nat) : world := fst (op_publish FUEL ex_pub3 (ex_drop n)).
Definition ex_resumed (n : nat) : world := fst (flush_outbound FUEL (upd_script (ex_dropped n) [])).
Example publish_cancel_example :
  (* dropped while the replay was still being drained: no trace of the request *)
  snd (op_publish FUEL ex_pub3 (ex_drop 9)) = OCancel /\ total (ex_dropped 9) = total ex_conn /\
  w_wire (ex_resumed 9) = w_wire ex_conn ++ owed (s_ob (w_sess ex_conn)) /\
  (* dropped after the request was retained and nine of its ten bytes written: the request survives, whole *)
  snd (op_publish FUEL ex_pub3 (ex_drop 14)) = OCancel /\
  total (ex_dropped 14) = total ex_conn ++ [51; 8; 0; 1; 118; 0; 3; 0; 7; 7] /\ owed (s_ob (w_sess (ex_dropped 14))) = [7] /\
  w_wire (ex_resumed 14) = w_wire ex_conn ++ owed (s_ob (w_sess ex_conn)) ++ [51; 8; 0; 1; 118; 0; 3; 0; 7; 7].
Proof. vm_compute. repeat split. Qed.
