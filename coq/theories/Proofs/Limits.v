(* Limits.v — C14: Maximum Packet Size honoured in both directions. *)
From Coq Require Import Arith ZArith Lia ZifyBool ZifyN ZifyNat.
From Minimq Require Import Util Bytes Varint Utf8 Props Ser De Reader Arena Core Show Machine.
From Minimq Require Import SerLemmas.

Definition within (mps : option N) (len : N) : Prop := match mps with Some m => len <= m | None => True end.

Lemma too_large_false : forall mps len, too_large mps len = false -> within mps len.
Proof. intros [m|] len H; cbn [too_large within] in *; [lia|exact I]. Qed.
Lemma too_large_true : forall mps len, too_large mps len = true -> exists m, mps = Some m /\ m < len.
Proof. intros [m|] len H; cbn [too_large] in *; [exists m; split; [reflexivity|lia]|discriminate]. Qed.

(* every byte string the outbound engine hands to write() belongs to a packet no longer than the limit:
   the length compared is the length written, and the comparison is strict (len = limit passes, len = limit+1 is refused) *)
Lemma prepare_step_within : forall s st p bs w len,
  prepare_step s st = PWrite p bs w len -> within (rt_mps (s_rt s)) len /\ (forall a, p = FCtl a -> lenN bs = len) /\ (forall pid, p = FRel pid -> lenN bs = len).
Proof.
  intros s st p bs w len H. unfold prepare_step in H.
  destruct st as [a st|pid rc st|pid off l st]; destruct st; try discriminate.
  - destruct (encode_control_packet a) as [n b|se]; [|discriminate].
    destruct (too_large _ _) eqn:E; [discriminate|]. inversion H; subst. apply too_large_false in E.
    split; [exact E|]. split; intros; reflexivity.
  - destruct (encode_pubrel pid rc) as [n b|se]; [|discriminate].
    destruct (too_large _ _) eqn:E; [discriminate|]. inversion H; subst. apply too_large_false in E.
    split; [exact E|]. split; intros; reflexivity.
  - destruct (too_large _ _) eqn:E; [discriminate|]. inversion H; subst. apply too_large_false in E.
    split; [exact E|]. split; intros; discriminate.
Qed.

Lemma prepare_step_refuses : forall s st,
  (exists pid off len w m, st = StRet pid off len (SWrite w) /\ rt_mps (s_rt s) = Some m /\ m < len) ->
  prepare_step s st = PErr EPacketTooLarge.
Proof.
  intros s st [pid [off [len [w [m [-> [Hm Hl]]]]]]]. cbn [prepare_step]. rewrite Hm. cbn [too_large].
  destruct (N.ltb_spec m len); [reflexivity|lia].
Qed.

(* requests: an encoding above the limit is refused with PacketTooLarge and nothing is retained *)
Lemma publish_middle_within : forall s live r s' m,
  publish_middle s live r = (s', m) ->
  match m with
  | MDirect bs => within (rt_mps (s_rt s')) (lenN bs)
  | MRetained o => exists e, In e (ob_ret (s_ob s')) /\ re_pid e = op_pid o /\ within (rt_mps (s_rt s')) (re_len e)
  | MErr _ => True
  end.
Proof.
  intros s live r s' m H. unfold publish_middle in H.
  destruct (negb (props_valid_for _ _)); [inversion H; subst; exact I|].
  destruct (effective_qos _ _).
  - destruct (negb _); [inversion H; subst; exact I|].
    destruct (enc_publish _ _) as [n b|se]; [|inversion H; subst; exact I].
    destruct (too_large _ _) eqn:E; [inversion H; subst; exact I|]. destruct (negb live); inversion H; subst; [exact I|].
    apply too_large_false in E. exact E.
  - destruct (next_packet_id s) as [s1 id]. destruct (retained_full _); [inversion H; subst; exact I|].
    destruct (negb _); [inversion H; subst; exact I|]. destruct (encode_at _ _) as [o1 er].
    destruct er as [off len|se]; [|inversion H; subst; exact I].
    destruct (too_large _ _) eqn:E; [inversion H; subst; exact I|].
    destruct (retain_packet o1 id off len) as [o2|] eqn:Er; inversion H; subst; [|exact I].
    apply too_large_false in E. unfold retain_packet in Er. destruct (_ <=? _); [discriminate|]. inversion Er; subst.
    exists {| re_pid := id; re_off := off; re_len := len; re_st := SWrite 0 |}. cbn [set_rt set_ob s_ob s_rt ob_ret re_pid re_len op_pid rt_with_quota rt_mps].
    split; [apply in_or_app; right; now left|]. split; [reflexivity|exact E].
  - destruct (next_packet_id s) as [s1 id]. destruct (retained_full _); [inversion H; subst; exact I|].
    destruct (negb _); [inversion H; subst; exact I|]. destruct (encode_at _ _) as [o1 er].
    destruct er as [off len|se]; [|inversion H; subst; exact I].
    destruct (too_large _ _) eqn:E; [inversion H; subst; exact I|].
    destruct (retain_packet o1 id off len) as [o2|] eqn:Er; inversion H; subst; [|exact I].
    apply too_large_false in E. unfold retain_packet in Er. destruct (_ <=? _); [discriminate|]. inversion Er; subst.
    exists {| re_pid := id; re_off := off; re_len := len; re_st := SWrite 0 |}. cbn [set_rt set_ob s_ob s_rt ob_ret re_pid re_len op_pid rt_with_quota rt_mps].
    split; [apply in_or_app; right; now left|]. split; [reflexivity|exact E].
Qed.

Lemma enqueue_middle_within : forall s k enc s' o,
  enqueue_middle s k enc = (s', MRetained o) ->
  exists e, In e (ob_ret (s_ob s')) /\ re_pid e = op_pid o /\ within (rt_mps (s_rt s')) (re_len e).
Proof.
  intros s k enc s' o H. unfold enqueue_middle in H. destruct (retained_full _); [discriminate|].
  destruct (next_packet_id s) as [s1 id]. destruct (encode_at _ _) as [o1 er]. destruct er as [off len|se]; [|discriminate].
  destruct (too_large _ _) eqn:E; [discriminate|].
  destruct (retain_packet o1 id off len) as [o2|] eqn:Er; inversion H; subst.
  apply too_large_false in E. unfold retain_packet in Er. destruct (_ <=? _); [discriminate|]. inversion Er; subst.
  exists {| re_pid := id; re_off := off; re_len := len; re_st := SWrite 0 |}. cbn [set_ob s_ob s_rt ob_ret re_pid re_len op_pid].
  split; [apply in_or_app; right; now left|]. split; [reflexivity|exact E].
Qed.

Lemma disconnect_prepare_within : forall s d bs, disconnect_prepare s d = DPOk bs -> within (rt_mps (s_rt s)) (lenN bs).
Proof.
  intros s d bs H. unfold disconnect_prepare in H. destruct (match dq_props d with Some _ => _ | None => _ end); [discriminate|].
  destruct (enc_disconnect _ _) as [n b|se]; [|discriminate]. destruct (too_large _ _) eqn:E; [discriminate|].
  inversion H; subst. now apply too_large_false.
Qed.

(* a mandatory acknowledgement that would not fit closes the connection instead of being sent *)
Lemma ack_too_large_closes : forall w r' pl p s2 e,
  take_packet (s_reader (w_sess w)) = Some (r', pl, Some p) ->
  packet_available (s_reader (w_sess w)) = true ->
  handle_packet (set_reader (w_sess w) r') p = (s2, HErr EPacketTooLarge) ->
  e = EPacketTooLarge ->
  w_live (fst (process_received w)) = false /\ snd (process_received w) = OFail EPacketTooLarge.
Proof.
  intros w r' pl p s2 e Ht Ha Hh _. unfold process_received. rewrite Ha, Ht. cbn [negb]. rewrite Hh.
  split; reflexivity.
Qed.

(* CONNECT always advertises the receive-buffer size as the client's Maximum Packet Size *)
Lemma connect_advertises_rx : forall s,
  In (mkprop KMaximumPacketSize (rcap (s_reader s) mod 4294967296) [] []) (cq_props (connect_request s)).
Proof. intros. cbn [connect_request cq_props]. now left. Qed.

(* the read window handed to the transport never reaches beyond the receive buffer; a declared length beyond
   the buffer is refused before any byte beyond it is requested *)
Lemma window_in_buffer : forall r r' win, receive_buffer r = (r', Some win) ->
  (exists e, e <= rcap r' /\ win = e - read_bytes r') /\ rdata r' = rdata r /\ rcap r' = rcap r.
Proof.
  intros r r' win H. unfold receive_buffer in H.
  destruct (rplen r) as [pl|] eqn:Ep.
  - rewrite Ep in H. destruct (pl <=? rcap r) eqn:E; inversion H; subst. split; [exists pl; split; [lia|reflexivity]|split; reflexivity].
  - unfold probe in H. destruct (read_bytes r <=? 1) eqn:E1.
    + rewrite Ep in H. destruct (read_bytes r + 1 <=? rcap r) eqn:E; inversion H; subst.
      split; [exists (read_bytes r' + 1); split; [lia|reflexivity]|split; reflexivity].
    + destruct ((5 <=? read_bytes r) && _); [inversion H|].
      cbn [rplen rcap rdata] in H. unfold read_bytes in H. cbn [rdata] in H.
      destruct (probe_len _) as [pl|]; cbn [rcap] in H.
      * destruct (pl <=? rcap r) eqn:E; inversion H; subst. unfold read_bytes. cbn [rdata rcap].
        split; [exists pl; split; [lia|reflexivity]|split; reflexivity].
      * destruct (lenN (rdata r) + 1 <=? rcap r) eqn:E; inversion H; subst. unfold read_bytes. cbn [rdata rcap].
        split; [exists (lenN (rdata r) + 1); split; [lia|reflexivity]|split; reflexivity].
Qed.

Lemma oversize_inbound_refused : forall r pl, rplen r = Some pl -> rcap r < pl -> snd (receive_buffer r) = None.
Proof.
  intros r pl H L. unfold receive_buffer. rewrite H. cbn iota. rewrite H.
  destruct (N.leb_spec pl (rcap r)); [lia|reflexivity].
Qed.
