(* Exchange.v — C16, one whole QoS 1 exchange against the automatic broker, as theorems about the machine:
   publish() on a quiescent healthy connection puts the PUBLISH on the wire, the broker (mode 1: answers as MQTT prescribes)
   answers with the PUBACK, and the next poll() reads it, completes the handle and leaves the session quiescent again. *)
From Coq Require Import List NArith Lia Bool PeanoNat.
From Coq Require Import ZifyBool ZifyN ZifyNat.
From Minimq Require Import Bytes Varint Utf8 Props Ser De Reader Spec Arena Core Show Machine Parse Run Util Lts Refine
  VarintProofs SerLemmas CodecProofs ArenaLemmas ArenaOps Inv Quota Status Persist Frames Limits Reach WireInv Chunking Wire Measure
  Terminate KeepAlive ConnectOk PingQuiet Healthy Owed Sends Pings Framing Liveness.
Import ListNotations.
Local Open Scope N_scope.
Local Opaque u16_be.

(* ---------------------------------------------------------------- the layout of an encoded QoS 1/2 PUBLISH *)
Lemma publish_layout : forall cap r off bs ps id,
  enc_publish cap r = SOk off bs -> pq_props r = PSlice ps -> pq_pid r = Some id ->
  exists rl rest,
    bs = (3 * 16 + publish_flags r mod 16) :: rl ++ (u16_be (lenN (pq_topic r)) ++ pq_topic r) ++ u16_be id ++ rest /\
    varint_write (lenN ((u16_be (lenN (pq_topic r)) ++ pq_topic r) ++ u16_be id ++ rest)) = Some rl /\
    lenN (pq_topic r) < 65536.
Proof.
  intros cap r off bs ps id He Hp Hid.
  unfold enc_publish, encode_chunks_payload in He.
  destruct (ser_push cap 5 (publish_chunks r) []) as [idx body|e] eqn:Es; [|discriminate].
  destruct (ser_push_content _ _ _ _ _ _ Es) as [cc [Hcc Hbody]]. cbn [app] in Hbody. subst body.
  pose proof (ser_push_spec _ _ _ _ _ _ Es) as [S1 [S2 S3]]. rewrite lenN_nil in S3.
  cbv zeta in He.
  match type of He with (if ?c then _ else _) = _ => destruct c; [discriminate He|] end.
  match type of He with (if ?c then _ else _) = _ => destruct c; [discriminate He|] end.
  unfold finalize in He. destruct (varint_write (idx + lenN (pq_payload r) - 5)) as [rl|] eqn:Erl; [|discriminate].
  destruct (cap <? 5); [discriminate|]. inversion He; subst off bs; clear He.
  unfold publish_chunks in Hcc. rewrite Hp, Hid in Hcc. rewrite !concat_chunks_app in Hcc. cbn [concat_chunks] in Hcc.
  unfold c_str in Hcc. unfold len_prefixed in Hcc.
  destruct (N.ltb_spec 65535 (lenN (pq_topic r))) as [|Hlt]; [discriminate Hcc|]. rewrite app_nil_r in Hcc.
  unfold c_properties, c_varint in Hcc. cbn [concat_chunks c_u16] in Hcc.
  destruct (varint_write (props_size (PSlice ps))) as [szb|] eqn:Esz; [|discriminate Hcc].
  destruct (concat_chunks (flat_map prop_chunks ps)) as [block|] eqn:Eb; [|discriminate Hcc].
  rewrite !app_nil_r in Hcc. inversion Hcc; subst cc; clear Hcc.
  exists rl, ((szb ++ block) ++ pq_payload r). split; [|split; [|lia]].
  - rewrite <- !app_assoc. reflexivity.
  - transitivity (varint_write (idx + lenN (pq_payload r) - 5)); [|exact Erl]. f_equal.
    rewrite <- !app_assoc in S3. rewrite !lenN_app. rewrite !lenN_app in S3. lia.
Qed.

(* ---------------------------------------------------------------- the automatic broker reads one whole packet *)
Lemma u16_be_two : forall v, exists a b, u16_be v = [a; b].
Proof. intros v. Local Transparent u16_be. unfold u16_be. eexists _, _. reflexivity. Local Opaque u16_be. Qed.

(* a QoS 1 / QoS 2 PUBLISH is answered with the PUBACK / PUBREC of its identifier *)
Definition ack_head (q : qos) : N := match q with Q1 => 64 | _ => 80 end.
Lemma broker_reply_publish : forall mode fl rl topic id rest q,
  q <> Q0 -> (fl / 2) mod 4 = qos_n q -> fl / 16 = 3 ->
  varint_write (lenN ((u16_be (lenN topic) ++ topic) ++ u16_be id ++ rest)) = Some rl -> lenN topic < 65536 ->
  broker_reply mode (fl :: rl ++ (u16_be (lenN topic) ++ topic) ++ u16_be id ++ rest) = ack_head q :: [2] ++ u16_be id.
Proof.
  intros mode fl rl topic id rest q Hq0 Hq Ht Hrl Hl. unfold broker_reply.
  rewrite (varint_roundtrip _ _ _ Hrl), Ht. change (3 =? 3) with true. cbv iota. rewrite Hq.
  rewrite <- app_assoc. rewrite (read_u16_be _ _ Hl). rewrite dropN_app_exact.
  destruct (u16_be_two id) as [a [b E]]. rewrite E. cbn [app]. destruct q; [contradiction|reflexivity|reflexivity].
Qed.

(* one complete packet in the broker's buffer: it is taken whole and answered *)
Lemma broker_split_one : forall mode f h rl body,
  varint_write (lenN body) = Some rl ->
  broker_split mode (S (S f)) (h :: rl ++ body) [] = (broker_reply mode (h :: rl ++ body), []).
Proof.
  intros mode f h rl body Hrl. cbn [broker_split]. rewrite (varint_roundtrip _ _ _ Hrl).
  destruct (N.ltb_spec (lenN body) (lenN body)) as [L|_]; [lia|].
  assert (Ht : 1 + (lenN (rl ++ body) - lenN body) + lenN body = lenN (h :: rl ++ body)) by (rewrite lenN_cons, lenN_app; lia).
  rewrite Ht. rewrite (dropN_all (h :: rl ++ body)) by lia. rewrite (takeN_all (h :: rl ++ body)) by lia.
  cbn [app]. destruct f; reflexivity.
Qed.

Lemma broker_feed_one : forall w h rl body,
  w_broker w <> 0 -> w_txbuf w = [] -> varint_write (lenN body) = Some rl ->
  broker_reply (w_broker w) (h :: rl ++ body) <> [] ->
  broker_feed w (h :: rl ++ body) =
    (let t := N.max (w_now w) (w_last_arrival w) in
     upd_inq (upd_txbuf w []) (w_inq w ++ [(t, broker_reply (w_broker w) (h :: rl ++ body))]) t).
Proof.
  intros w h rl body Hb Ht Hrl Hne. unfold broker_feed. destruct (N.eqb_spec (w_broker w) 0) as [E|_]; [contradiction|].
  rewrite Ht. cbn [app]. 
  assert (Hlen : exists f, S (length (h :: rl ++ body)) = S (S f)) by (cbn [length]; eexists; reflexivity).
  destruct Hlen as [f Hf]. rewrite Hf, (broker_split_one _ f h rl body Hrl).
  destruct (broker_reply (w_broker w) (h :: rl ++ body)) as [|x t] eqn:Er; [contradiction|]. reflexivity.
Qed.

(* ---------------------------------------------------------------- a publish retained on an empty arena: the queues, explicitly *)
Lemma abs_single : forall o pid bs st, abs o = [(pid, bs, st)] ->
  exists e, ob_ret o = [e] /\ re_pid e = pid /\ sliceN (re_off e) (re_len e) (ob_buf o) = bs /\ re_st e = st.
Proof.
  intros o pid bs st H. unfold abs in H. destruct (ob_ret o) as [|e [|e2 t]]; cbn [map] in H; try discriminate.
  exists e. split; [reflexivity|]. unfold abs_entry, entry_bytes in H. injection H as H1 H2 H3. repeat split; assumption.
Qed.

Lemma publish_middle_quiescent : forall s r s2 op,
  Inv s -> ob_ctl (s_ob s) = [] -> ob_rel (s_ob s) = [] -> ob_ret (s_ob s) = [] ->
  publish_middle s true r = (s2, MRetained op) ->
  exists bs cap off e,
    enc_publish cap (pub_request r (effective_qos s (pr_qos r)) (op_pid op)) = SOk off bs /\
    ob_ctl (s_ob s2) = [] /\ ob_rel (s_ob s2) = [] /\ ob_ret (s_ob s2) = [e] /\
    re_pid e = op_pid op /\ sliceN (re_off e) (re_len e) (ob_buf (s_ob s2)) = bs /\ re_st e = SWrite 0 /\
    pframe s s2 /\ rt_ka_ms (s_rt s2) = rt_ka_ms (s_rt s) /\ rt_mps (s_rt s2) = rt_mps (s_rt s) /\
    s_reader s2 = s_reader s /\ lenN (ob_buf (s_ob s2)) = lenN (ob_buf (s_ob s)).
Proof.
  intros s r s2 op I Hc Hl Hr H. unfold publish_middle in H.
  destruct (negb (props_valid_for (pr_props r) CtxPublish)); [discriminate|].
  set (q := effective_qos s (pr_qos r)) in *.
  assert (Hq : forall s1 id, next_packet_id s = (s1, id) ->
    (if retained_full (s_ob s1) then (s1, MErr EInflightExhausted) else
     if negb (true && sess_can_publish s1 q) then (s1, MErr ENotReady) else
     let req := pub_request r q id in
     let '(o1, er) := encode_at (s_ob s1) (fun cap => enc_publish cap req) in
     let s2 := set_ob s1 o1 in
     match er with
     | EErr e => (s2, MErr (err_of_serr e))
     | EOk off len =>
         if too_large (rt_mps (s_rt s2)) len then (s2, MErr EPacketTooLarge) else
         match retain_packet o1 id off len with
         | None => (s2, MErr EInflightExhausted)
         | Some o2 =>
             let s3 := set_rt (set_ob s2 o2) (rt_with_quota (s_rt s2) (rt_quota (s_rt s2) - 1)) in
             (s3, MRetained {| op_kind := match q with Q2 => 1 | _ => 0 end; op_pid := id; op_gen := s_gen s3 |})
         end
     end) = (s2, MRetained op) ->
    exists bs cap off e, enc_publish cap (pub_request r q (op_pid op)) = SOk off bs /\
      ob_ctl (s_ob s2) = [] /\ ob_rel (s_ob s2) = [] /\ ob_ret (s_ob s2) = [e] /\
      re_pid e = op_pid op /\ sliceN (re_off e) (re_len e) (ob_buf (s_ob s2)) = bs /\ re_st e = SWrite 0 /\
      pframe s s2 /\ rt_ka_ms (s_rt s2) = rt_ka_ms (s_rt s) /\ rt_mps (s_rt s2) = rt_mps (s_rt s) /\
      s_reader s2 = s_reader s /\ lenN (ob_buf (s_ob s2)) = lenN (ob_buf (s_ob s))).
  { intros s1 id En G. pose proof (next_packet_id_ob s) as [Eo Er]. rewrite En in Eo, Er. cbn [fst] in Eo, Er.
    assert (Erd : s_reader s1 = s_reader s).
    { unfold next_packet_id in En. destruct (next_packet_id_go 17 (s_ob s) (s_pid s)). inversion En; subst. reflexivity. }
    destruct (retained_full (s_ob s1)); [discriminate|]. destruct (negb (true && sess_can_publish s1 q)); [discriminate|].
    cbv zeta in G. destruct (encode_at (s_ob s1) (fun cap => enc_publish cap (pub_request r q id))) as [o1 er] eqn:Ee.
    destruct er as [off len|e]; [|discriminate].
    destruct (too_large _ _); [discriminate|]. destruct (retain_packet o1 id off len) as [o2|] eqn:Er2; [|discriminate].
    inversion G; subst s2 op. clear G. cbn [op_pid s_ob s_rt s_reader set_rt set_ob].
    destruct (encode_retain_spec (s_ob s1) _ o1 off len id o2 ltac:(rewrite Eo; exact (oi_arena _ (inv_ob _ I)))
                (enc_publish_fits (pub_request r q id)) Ee Er2) as [bs [_ [Ab [_ [[cap [off' Hb]] [Hc2 [Hl2 Hlen]]]]]]].
    rewrite Eo in Ab, Hc2, Hl2, Hlen. unfold abs at 2 in Ab. rewrite Hr in Ab. cbn [map app] in Ab.
    destruct (abs_single _ _ _ _ Ab) as [e [E1 [E2 [E3 E4]]]].
    exists bs, cap, off', e. split; [exact Hb|]. split; [rewrite Hc2; exact Hc|]. split; [rewrite Hl2; exact Hl|].
    split; [exact E1|]. split; [exact E2|]. split; [exact E3|]. split; [exact E4|].
    split; [unfold pframe; cbn [s_rt s_ob set_rt set_ob rt_with_quota rt_ping_timeout rt_next_ping]; rewrite <- Er, Hc2; repeat split; reflexivity|].
    cbn [rt_with_quota rt_ka_ms rt_mps]. rewrite <- Er. split; [reflexivity|]. split; [reflexivity|]. split; [exact Erd|exact Hlen]. }
  destruct q eqn:Eq.
  - destruct (negb (true && sess_can_publish s Q0)); [discriminate|].
    match type of H with context [enc_publish ?c ?x] => destruct (enc_publish c x) end; [|discriminate].
    destruct (too_large _ _); [discriminate|]. discriminate.
  - destruct (next_packet_id s) as [s1 id] eqn:En. exact (Hq s1 id eq_refl H).
  - destruct (next_packet_id s) as [s1 id] eqn:En. exact (Hq s1 id eq_refl H).
Qed.

Definition sent_entry (e : rentry) : rentry := {| re_pid := re_pid e; re_off := re_off e; re_len := re_len e; re_st := SSent |}.

Lemma single_fresh_step : forall o e, ob_ctl o = [] -> ob_rel o = [] -> ob_ret o = [e] -> re_st e = SWrite 0 ->
  next_step o = Some (StRet (re_pid e) (re_off e) (re_len e) (SWrite 0)).
Proof.
  intros o e Hc Hl Hr Hs. unfold next_step, next_step_pass, orelse, find_ctl, find_rel, find_ret. rewrite Hc, Hl, Hr.
  cbn [find]. rewrite Hs. cbn [matches_priority is_in_progress is_fresh]. change (0 =? 0) with true. cbn [negb]. rewrite Hs. reflexivity.
Qed.

Lemma single_sent_no_step : forall o e, ob_ctl o = [] -> ob_rel o = [] -> ob_ret o = [sent_entry e] -> next_step o = None.
Proof.
  intros o e Hc Hl Hr. unfold next_step, next_step_pass, orelse, find_ctl, find_rel, find_ret. rewrite Hc, Hl, Hr. reflexivity.
Qed.

Lemma single_step_result : forall s e len now, ob_ret (s_ob s) = [e] ->
  let s' := fst (complete_flush (fst (set_written s (FRet (re_pid e)) (0 + len) len)) (FRet (re_pid e)) now) in
  ob_ret (s_ob s') = [sent_entry e] /\ ob_ctl (s_ob s') = ob_ctl (s_ob s) /\ ob_rel (s_ob s') = ob_rel (s_ob s) /\
  ob_buf (s_ob s') = ob_buf (s_ob s) /\ s_rt s' = note_outbound_activity (s_rt s) now /\ s_reader s' = s_reader s.
Proof.
  intros s e len now Hr. cbv zeta. unfold complete_flush, set_written, set_retained_written, flush_retained.
  rewrite Hr. cbn [update_first re_pid]. rewrite N.eqb_refl. cbn [fst set_ob s_ob with_ret ob_ret update_first re_pid].
  rewrite N.eqb_refl. cbn [fst set_rt set_ob s_ob s_rt s_reader with_ret ob_ret ob_ctl ob_rel ob_buf re_pid re_off re_len].
  repeat split.
Qed.

Lemma quiescent_no_step : forall o, ob_ctl o = [] -> ob_rel o = [] -> ob_ret o = [] -> next_step o = None.
Proof. intros o Hc Hl Hr. unfold next_step, next_step_pass, orelse, find_ctl, find_rel, find_ret. rewrite Hc, Hl, Hr. reflexivity. Qed.

Lemma owed_single_fresh : forall o e, ob_ctl o = [] -> ob_rel o = [] -> ob_ret o = [e] -> re_st e = SWrite 0 ->
  owed o = sliceN (re_off e) (re_len e) (ob_buf o).
Proof.
  intros o e Hc Hl Hr Hs. unfold owed, part_of, fresh_of. rewrite Hc, Hl, Hr. unfold Pq, Fq. cbn [map concat app].
  rewrite Hs. cbn [rest_part rest_fresh is_fresh N.eqb]. change (0 =? 0) with true. cbv iota. cbn [app]. rewrite app_nil_r. reflexivity.
Qed.

(* ---------------------------------------------------------------- publish(): the PUBLISH goes out, the broker answers *)
Theorem publish_is_sent_and_answered_rt : forall w r s2 op ps q,
  Hc w ->
  ob_ctl (s_ob (w_sess w)) = [] -> ob_rel (s_ob (w_sess w)) = [] -> ob_ret (s_ob (w_sess w)) = [] ->
  rt_ka_ms (s_rt (w_sess w)) = 0 -> rt_next_ping (s_rt (w_sess w)) = None -> rt_ping_timeout (s_rt (w_sess w)) = None ->
  w_broker w = 1 -> w_txbuf w = [] -> w_inq w = [] -> w_last_arrival w <= w_now w ->
  publish_middle (w_sess w) true r = (s2, MRetained op) ->
  effective_qos (w_sess w) (pr_qos r) = q -> q <> Q0 -> pr_props r = PSlice ps -> op_pid op < 65536 ->
  exists w1 bs cap off e,
    op_publish FUEL r w = (w1, ODone (Some op)) /\
    enc_publish cap (pub_request r q (op_pid op)) = SOk off bs /\
    w_wire w1 = w_wire w ++ bs /\
    w_inq w1 = [(w_now w, ack_head q :: [2] ++ u16_be (op_pid op))] /\
    Hc w1 /\ s_reader (w_sess w1) = s_reader (w_sess w) /\ w_now w1 = w_now w /\
    w_broker w1 = 1 /\ w_txbuf w1 = [] /\ w_last_arrival w1 = w_now w /\ rt_ka_ms (s_rt (w_sess w1)) = 0 /\
    rt_next_ping (s_rt (w_sess w1)) = None /\ rt_ping_timeout (s_rt (w_sess w1)) = None /\
    ob_ctl (s_ob (w_sess w1)) = [] /\ ob_rel (s_ob (w_sess w1)) = [] /\
    ob_ret (s_ob (w_sess w1)) = [sent_entry e] /\ re_pid e = op_pid op /\
    s_rt (w_sess w1) = note_outbound_activity (s_rt s2) (w_now w) /\ ob_buf (s_ob (w_sess w1)) = ob_buf (s_ob s2).
Proof.
  intros w r s2 op ps q Hcw Ec El Er Hka Hnp Hpt Hbr Htx Hiq Hla Hm Hq1 Hq0 Hps Hid.
  pose proof Hcw as [Hs [Hl [I [Hmps [_ [HB HF]]]]]].
  assert (Hq : PQ w).
  { split; [|apply calm_nil; exact Hs]. unfold should_queue_pingreq. rewrite Hpt, Hnp. reflexivity. }
  destruct (publish_middle_quiescent _ _ _ _ (proj1 I) Ec El Er Hm)
    as [bs [cap [off [e [Hb [Ec2 [El2 [Er2 [Epid [Ebs [Est [Hpf [Hka2 [Hmps2 [Hrd2 Hlen2]]]]]]]]]]]]]]].
  rewrite Hq1 in Hb.
  destruct FUEL_big as [f Hf]. rewrite Hf. unfold op_publish. rewrite Hl. cbn [negb].
  (* the leading drain: nothing to do *)
  cbn [flush_outbound]. rewrite (pq_no_ping w Hq), upd_sess_id, (quiescent_no_step _ Ec El Er). cbn [bindu]. rewrite Hl, Hm.
  cbn [finish_mid].
  set (w2 := upd_sess w s2).
  assert (I2 : WInv (w_sess w2)).
  { cbn [w2 w_sess upd_sess]. replace s2 with (fst (publish_middle (w_sess w) true r)) by now rewrite Hm. eapply WInv_step; [apply SS_publish|exact I]. }
  assert (Hc2 : Hc w2).
  { unfold Hc. cbn [w2 w_script w_live w_sess w_now upd_sess].
    split; [exact Hs|]. split; [exact Hl|]. split; [exact I2|]. split; [rewrite Hmps2; exact Hmps|].
    split; [destruct Hpf as [Hpf _]; rewrite Hpf, Hpt; intros d E; discriminate E|]. split; [rewrite Hlen2; exact HB|].
    unfold Fr. rewrite Ec2, El2, Er2. repeat split; try constructor; [rewrite Est; reflexivity|constructor]. }
  assert (Q2 : PQ w2).
  { split; [|apply calm_nil; exact Hs]. cbn [w2 w_sess w_now upd_sess]. rewrite (pframe_sq _ _ Hpf). exact (proj1 Hq). }
  set (st := StRet (re_pid e) (re_off e) (re_len e) (SWrite 0)).
  assert (En2 : next_step (s_ob (w_sess w2)) = Some st) by (cbn [w2 w_sess upd_sess]; apply single_fresh_step; assumption).
  (* the second drain, first step: the PUBLISH is written whole and flushed *)
  cbn [flush_outbound]. rewrite (pq_no_ping w2 Q2), upd_sess_id, En2.
  destruct (healthy_perform_core st w2 Hc2 En2) as [w3 [E3 [Hc3 [R3 [N3 [X3 V3]]]]]]. rewrite E3.
  destruct (X3 eq_refl) as [len S3]. cbn [st step_key] in S3.
  destruct (single_step_result (w_sess w2) e len (w_now w2) ltac:(cbn [w2 w_sess upd_sess]; exact Er2)) as [Er3 [Ec3 [El3 [Eb3 [Ert3 Erd3]]]]].
  cbv zeta in Er3, Ec3, El3, Eb3, Ert3, Erd3. rewrite <- S3 in Er3, Ec3, El3, Eb3, Ert3, Erd3.
  cbn [w2 w_sess upd_sess] in Ec3, El3, Eb3, Ert3, Erd3. rewrite Ec2 in Ec3. rewrite El2 in El3.
  assert (En3 : next_step (s_ob (w_sess w3)) = None) by (eapply single_sent_no_step; eassumption).
  assert (Q3 : PQ w3) by exact (proj1 (step_pq _ _ _ _ I2 En2 Q2 E3 Logic.I)).
  (* second step: nothing left *)
  cbn [flush_outbound]. rewrite (pq_no_ping w3 Q3), upd_sess_id, En3. cbn [bindu].
  (* the bytes and the broker's answer *)
  assert (Hprep : prepare_step (w_sess w2) st = PWrite (FRet (re_pid e)) bs 0 (re_len e)).
  { cbn [st prepare_step w2 w_sess upd_sess]. rewrite Hmps2, Hmps. cbn [too_large]. unfold retained_packet. rewrite Ebs. reflexivity. }
  pose proof (V3 bs (re_len e) Hprep) as V.
  destruct (publish_layout cap _ off bs ps (op_pid op) Hb Hps eq_refl) as [rl [rest [Elay [Hrl Htl]]]].
  cbn [pub_request pq_topic] in Elay, Hrl, Htl.
  set (fl := 3 * 16 + publish_flags (pub_request r q (op_pid op)) mod 16) in *.
  destruct (publish_hdr_arith q (pr_retain r) false) as [A1 [A2 _]]. cbv zeta in A1, A2.
  assert (Hfl : fl / 16 = 3 /\ (fl / 2) mod 4 = qos_n q) by (unfold fl, publish_flags; cbn [pub_request pq_qos pq_retain pq_dup]; split; [exact A1|exact A2]).
  assert (Hrep : broker_reply 1 bs = ack_head q :: [2] ++ u16_be (op_pid op)).
  { rewrite Elay. apply broker_reply_publish; [exact Hq0|exact (proj2 Hfl)|exact (proj1 Hfl)|exact Hrl|exact Htl]. }
  assert (Hfeed : broker_view (broker_feed w2 bs) = (1, [], [(w_now w, ack_head q :: [2] ++ u16_be (op_pid op))], w_now w)).
  { rewrite Elay. rewrite broker_feed_one; [|cbn [w2 w_broker upd_sess]; rewrite Hbr; discriminate|cbn [w2 w_txbuf upd_sess]; exact Htx|exact Hrl|].
    - cbv zeta. unfold broker_view. cbn [w2 w_broker w_txbuf w_inq w_last_arrival w_now upd_inq upd_txbuf upd_sess].
      rewrite Hbr, Hiq, <- Elay, Hrep. replace (N.max (w_now w) (w_last_arrival w)) with (w_now w) by lia. reflexivity.
    - cbn [w2 w_broker upd_sess]. rewrite Hbr, <- Elay, Hrep. discriminate. }
  rewrite Hfeed in V. unfold broker_view in V. injection V as Vb Vt Vi Vl.
  (* the wire *)
  destruct (step_prefix _ _ _ _ _ I2 En2 E3 Logic.I) as [P [Hw3 Ho3]].
  rewrite (owed_no_step _ En3), app_nil_r in Ho3.
  cbn [w2 w_sess w_wire upd_sess] in Ho3, Hw3. rewrite (owed_single_fresh _ e Ec2 El2 Er2 Est), Ebs in Ho3. subst P.
  (* the timers *)
  assert (Hrt3 : rt_next_ping (s_rt (w_sess w3)) = None /\ rt_ping_timeout (s_rt (w_sess w3)) = None).
  { rewrite Ert3. unfold note_outbound_activity, keepalive_send_interval. rewrite Hka2, Hka. cbn [N.eqb rt_with_timers rt_next_ping rt_ping_timeout].
    split; [reflexivity|]. destruct Hpf as [Hpf _]. rewrite Hpf. exact Hpt. }
  exists w3, bs, cap, off, e. split; [reflexivity|]. split; [exact Hb|]. split; [exact Hw3|]. split; [exact Vi|].
  split; [exact Hc3|]. split; [rewrite R3; cbn [w2 w_sess upd_sess]; exact Hrd2|]. split; [rewrite N3; reflexivity|].
  split; [exact Vb|]. split; [exact Vt|]. split; [exact Vl|]. split; [rewrite Ert3; cbn [note_outbound_activity rt_with_timers rt_ka_ms]; rewrite Hka2; exact Hka|].
  split; [exact (proj1 Hrt3)|]. split; [exact (proj2 Hrt3)|]. split; [exact Ec3|]. split; [exact El3|]. split; [exact Er3|]. split; [exact Epid|]. split; [exact Ert3|exact Eb3].
Qed.


Theorem publish_is_sent_and_answered : forall w r s2 op ps q,
  Hc w ->
  ob_ctl (s_ob (w_sess w)) = [] -> ob_rel (s_ob (w_sess w)) = [] -> ob_ret (s_ob (w_sess w)) = [] ->
  rt_ka_ms (s_rt (w_sess w)) = 0 -> rt_next_ping (s_rt (w_sess w)) = None -> rt_ping_timeout (s_rt (w_sess w)) = None ->
  w_broker w = 1 -> w_txbuf w = [] -> w_inq w = [] -> w_last_arrival w <= w_now w ->
  publish_middle (w_sess w) true r = (s2, MRetained op) ->
  effective_qos (w_sess w) (pr_qos r) = q -> q <> Q0 -> pr_props r = PSlice ps -> op_pid op < 65536 ->
  exists w1 bs cap off e,
    op_publish FUEL r w = (w1, ODone (Some op)) /\
    enc_publish cap (pub_request r q (op_pid op)) = SOk off bs /\
    w_wire w1 = w_wire w ++ bs /\
    w_inq w1 = [(w_now w, ack_head q :: [2] ++ u16_be (op_pid op))] /\
    Hc w1 /\ s_reader (w_sess w1) = s_reader (w_sess w) /\ w_now w1 = w_now w /\
    w_broker w1 = 1 /\ w_txbuf w1 = [] /\ w_last_arrival w1 = w_now w /\ rt_ka_ms (s_rt (w_sess w1)) = 0 /\
    rt_next_ping (s_rt (w_sess w1)) = None /\ rt_ping_timeout (s_rt (w_sess w1)) = None /\
    ob_ctl (s_ob (w_sess w1)) = [] /\ ob_rel (s_ob (w_sess w1)) = [] /\
    ob_ret (s_ob (w_sess w1)) = [sent_entry e] /\ re_pid e = op_pid op.
Proof.
  intros w r s2 op ps q Hcw Ec El Er Hka Hnp Hpt Hbr Htx Hiq Hla Hm Hq1 Hq0 Hps Hid.
  destruct (publish_is_sent_and_answered_rt w r s2 op ps q Hcw Ec El Er Hka Hnp Hpt Hbr Htx Hiq Hla Hm Hq1 Hq0 Hps Hid)
    as [w1 [bs [cap [off [e [A1 [A2 [A3 [A4 [A5 [A6 [A7 [A8 [A9 [A10 [A11 [A12 [A13 [A14 [A15 [A16 [A17 _]]]]]]]]]]]]]]]]]]]]]].
  exists w1, bs, cap, off, e. repeat (split; [assumption|]). assumption.
Qed.

(* ---------------------------------------------------------------- the whole exchange: publish(), then one poll() *)
Theorem qos1_exchange_completes : forall w r s2 op ps,
  Hc w ->
  ob_ctl (s_ob (w_sess w)) = [] -> ob_rel (s_ob (w_sess w)) = [] -> ob_ret (s_ob (w_sess w)) = [] ->
  rt_ka_ms (s_rt (w_sess w)) = 0 -> rt_next_ping (s_rt (w_sess w)) = None -> rt_ping_timeout (s_rt (w_sess w)) = None ->
  w_broker w = 1 -> w_txbuf w = [] -> w_inq w = [] -> w_last_arrival w <= w_now w ->
  rdata (rd w) = [] -> rplen (rd w) = None -> 4 <= rcap (rd w) ->
  publish_middle (w_sess w) true r = (s2, MRetained op) ->
  effective_qos (w_sess w) (pr_qos r) = Q1 -> pr_props r = PSlice ps -> op_pid op < 65536 ->
  exists w1 w2 bs cap off,
    op_publish FUEL r w = (w1, ODone (Some op)) /\
    enc_publish cap (pub_request r Q1 (op_pid op)) = SOk off bs /\ w_wire w1 = w_wire w ++ bs /\
    op_poll FUEL w1 = (w2, ODone None) /\ w_live w2 = true /\ w_inq w2 = [] /\
    ob_ctl (s_ob (w_sess w2)) = [] /\ ob_rel (s_ob (w_sess w2)) = [] /\ ob_ret (s_ob (w_sess w2)) = [] /\
    next_step (s_ob (w_sess w2)) = None /\
    rt_quota (s_rt (w_sess w2)) = N.min (N.min (rt_quota (s_rt (w_sess w1)) + 1) 65535) (rt_maxquota (s_rt (w_sess w1))).
Proof.
  intros w r s2 op ps Hcw Ec El Er Hka Hnp Hpt Hbr Htx Hiq Hla Hrd Hrp Hcap Hm Hq1 Hps Hid.
  destruct (publish_is_sent_and_answered w r s2 op ps Q1 Hcw Ec El Er Hka Hnp Hpt Hbr Htx Hiq Hla Hm Hq1 ltac:(discriminate) Hps Hid)
    as [w1 [bs [cap [off [e [E1 [Hb [Hw1 [Hi1 [Hc1 [R1 [N1 [_ [_ [_ [_ [Np1 [Pt1 [Ec1 [El1 [Er1 Epid]]]]]]]]]]]]]]]]]]]]].
  pose proof Hc1 as [Hs1 [Hl1 [I1 _]]].
  assert (Hret : has_retained (s_ob (w_sess w1)) (op_pid op) = true).
  { unfold has_retained. rewrite Er1. cbn [existsb sent_entry re_pid]. rewrite Epid, N.eqb_refl. reflexivity. }
  assert (H1 : 4 <= rcap (rd w1)) by (unfold rd; rewrite R1; exact Hcap).
  assert (H2 : rdata (rd w1) = []) by (unfold rd; rewrite R1; exact Hrd).
  assert (H3 : rplen (rd w1) = None) by (unfold rd; rewrite R1; exact Hrp).
  assert (H4 : arena_wf (s_ob (w_sess w1))) by exact (oi_arena _ (inv_ob _ (proj1 I1))).
  assert (H5 : next_step (s_ob (w_sess w1)) = None) by (eapply single_sent_no_step; eassumption).
  assert (H6 : forall d, rt_next_ping (s_rt (w_sess w1)) = Some d -> w_now w1 < d) by (intros d E; rewrite Np1 in E; discriminate E).
  assert (H7 : w_now w <= w_now w1) by (rewrite N1; apply N.le_refl).
  destruct (poll_completes_puback w1 (op_pid op) (w_now w) Hid H1 Hl1 H2 H3 H4 H5 H6 Pt1 Hs1 Hi1 H7 Hret)
    as [w2 [E2 [L2 [Q2 [[l' [Hrm Habs]] [C2 [Rl2 [Qu2 [Nn2 _]]]]]]]]].
  assert (Hl' : l' = []).
  { unfold abs in Hrm. rewrite Er1 in Hrm. cbn [map abs_entry sent_entry re_pid abs_remove] in Hrm. rewrite Epid, N.eqb_refl in Hrm.
    now inversion Hrm. }
  rewrite Hl' in Habs. unfold abs in Habs. apply map_eq_nil in Habs.
  exists w1, w2, bs, cap, off. split; [exact E1|]. split; [exact Hb|]. split; [exact Hw1|]. split; [exact E2|]. split; [exact L2|].
  split; [exact Q2|]. split; [rewrite C2; exact Ec1|]. split; [rewrite Rl2; exact El1|]. split; [exact Habs|]. split; [exact Nn2|exact Qu2].
Qed.

(* ---------------------------------------------------------------- non-vacuity: a fresh connection to the answering broker *)
Definition ex_b1 : world :=
  run_case {| c_cfg := ex_cfgh; c_prog := [ASetBroker 2; AConnect []; ASetBroker 1]; c_script := [] |}.
Definition ex_op1 : op := {| op_kind := 0; op_pid := 1; op_gen := 1 |}.

Example exchange_example :
  snd (publish_middle (w_sess ex_b1) true ex_pub) = MRetained ex_op1 /\
  snd (op_publish FUEL ex_pub ex_b1) = ODone (Some ex_op1) /\
  w_wire (fst (op_publish FUEL ex_pub ex_b1)) = w_wire ex_b1 ++ [50; 9; 0; 1; 116; 0; 1; 0; 1; 2; 3] /\
  w_inq (fst (op_publish FUEL ex_pub ex_b1)) = [(0, [64; 2; 0; 1])] /\
  snd (op_poll FUEL (fst (op_publish FUEL ex_pub ex_b1))) = ODone None /\
  ob_ret (s_ob (w_sess (fst (op_poll FUEL (fst (op_publish FUEL ex_pub ex_b1)))))) = [].
Proof. vm_compute. repeat split. Qed.

Example exchange_hyps_met :
  Hc ex_b1 /\
  ob_ctl (s_ob (w_sess ex_b1)) = [] /\ ob_rel (s_ob (w_sess ex_b1)) = [] /\ ob_ret (s_ob (w_sess ex_b1)) = [] /\
  rt_ka_ms (s_rt (w_sess ex_b1)) = 0 /\ rt_next_ping (s_rt (w_sess ex_b1)) = None /\ rt_ping_timeout (s_rt (w_sess ex_b1)) = None /\
  w_broker ex_b1 = 1 /\ w_txbuf ex_b1 = [] /\ w_inq ex_b1 = [] /\ w_last_arrival ex_b1 <= w_now ex_b1 /\
  rdata (rd ex_b1) = [] /\ rplen (rd ex_b1) = None /\ 4 <= rcap (rd ex_b1) /\
  publish_middle (w_sess ex_b1) true ex_pub = (fst (publish_middle (w_sess ex_b1) true ex_pub), MRetained ex_op1) /\
  effective_qos (w_sess ex_b1) (pr_qos ex_pub) = Q1 /\ pr_props ex_pub = PSlice [] /\ op_pid ex_op1 < 65536.
Proof.
  assert (I0 : WInv (w_sess ex_b1)) by (unfold ex_b1; apply (proj1 (run_case_good _))).
  assert (Sc : w_script ex_b1 = []) by (vm_compute; reflexivity).
  assert (Lv : w_live ex_b1 = true) by (vm_compute; reflexivity).
  assert (Mp : rt_mps (s_rt (w_sess ex_b1)) = None) by (vm_compute; reflexivity).
  assert (Pt : rt_ping_timeout (s_rt (w_sess ex_b1)) = None) by (vm_compute; reflexivity).
  assert (Bl : lenN (ob_buf (s_ob (w_sess ex_b1))) <= BIG) by (vm_compute; intros X; discriminate X).
  assert (Ec : ob_ctl (s_ob (w_sess ex_b1)) = []) by (vm_compute; reflexivity).
  assert (El : ob_rel (s_ob (w_sess ex_b1)) = []) by (vm_compute; reflexivity).
  assert (Er : ob_ret (s_ob (w_sess ex_b1)) = []) by (vm_compute; reflexivity).
  assert (A1 : rt_ka_ms (s_rt (w_sess ex_b1)) = 0) by (vm_compute; reflexivity).
  assert (A2 : rt_next_ping (s_rt (w_sess ex_b1)) = None) by (vm_compute; reflexivity).
  assert (A3 : w_broker ex_b1 = 1) by (vm_compute; reflexivity).
  assert (A4 : w_txbuf ex_b1 = []) by (vm_compute; reflexivity).
  assert (A5 : w_inq ex_b1 = []) by (vm_compute; reflexivity).
  assert (A6 : w_last_arrival ex_b1 <= w_now ex_b1) by (vm_compute; intros X; discriminate X).
  assert (A7 : rdata (rd ex_b1) = []) by (vm_compute; reflexivity).
  assert (A8 : rplen (rd ex_b1) = None) by (vm_compute; reflexivity).
  assert (A9 : 4 <= rcap (rd ex_b1)) by (vm_compute; intros X; discriminate X).
  assert (A10 : snd (publish_middle (w_sess ex_b1) true ex_pub) = MRetained ex_op1) by (vm_compute; reflexivity).
  assert (A11 : effective_qos (w_sess ex_b1) (pr_qos ex_pub) = Q1) by (vm_compute; reflexivity).
  assert (A12 : op_pid ex_op1 < 65536) by (vm_compute; reflexivity).
  assert (Hcw : Hc ex_b1).
  { unfold Hc. split; [exact Sc|]. split; [exact Lv|]. split; [exact I0|]. split; [exact Mp|].
    split; [intros d E; pose proof (eq_trans (eq_sym Pt) E) as X; discriminate X|]. split; [exact Bl|].
    unfold Fr. split; [exact (eq_ind_r (fun l => Forall _ l) (Forall_nil _) Ec)|].
    split; [exact (eq_ind_r (fun l => Forall _ l) (Forall_nil _) El)|exact (eq_ind_r (fun l => Forall _ l) (Forall_nil _) Er)]. }
  split; [exact Hcw|]. split; [exact Ec|]. split; [exact El|]. split; [exact Er|]. split; [exact A1|]. split; [exact A2|]. split; [exact Pt|].
  split; [exact A3|]. split; [exact A4|]. split; [exact A5|]. split; [exact A6|]. split; [exact A7|]. split; [exact A8|]. split; [exact A9|].
  split; [|split; [exact A11|split; [reflexivity|exact A12]]].
  exact (eq_trans (surjective_pairing _) (f_equal (fun m => (fst (publish_middle (w_sess ex_b1) true ex_pub), m)) A10)).
Qed.
