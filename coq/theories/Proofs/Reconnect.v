(* Reconnect.v — C12: what connect() does before and around the handshake, independent of all history:
   the preamble clears every piece of per-transport state; the CONNECT is encoded into the free tail of the
   transmit arena and that encoding succeeds exactly when the CONNECT fits there; a plain successful CONNACK
   is always accepted.  The full-arena case in which it does not fit is a reachable state (known finding K12). *)
From Coq Require Import List NArith Lia Bool.
From Coq Require Import ZifyBool ZifyN ZifyNat.
From Minimq Require Import Bytes Varint Utf8 Props Ser De Reader Arena Core Machine Parse Run Util SerLemmas Status.
Import ListNotations.
Local Open Scope N_scope.

(* ---------- the preamble of connect() ---------- *)
Definition connect_preamble (s0 : session) : session :=
  set_ob (set_rt (set_reader s0 (reader_reset (s_reader s0))) (reset_transport (s_rt s0))) (arm_replay (s_ob s0)).

Definition connect_scratch (s0 : session) : session :=
  set_ob (connect_preamble s0) (compact (s_ob (connect_preamble s0))).

Lemma op_connect_encode : forall fuel w,
  let s2 := connect_scratch (w_sess w) in
  match enc_connect (ob_cap (s_ob s2) - ob_used (s_ob s2)) (connect_request s2) with
  | SErr e => op_connect fuel w = (upd_sess w s2, OFail (err_of_serr e))
  | SOk _ _ => True
  end.
Proof.
  intros fuel w s2. unfold op_connect. fold (connect_preamble (w_sess w)).
  change (set_ob (connect_preamble (w_sess w)) (compact (s_ob (connect_preamble (w_sess w))))) with s2.
  change (compact (s_ob (connect_preamble (w_sess w)))) with (s_ob s2).
  destruct (enc_connect _ _); [exact I|reflexivity].
Qed.

(* nothing of the previous transport survives: no partial inbound packet, no timers, no resumed flag, every
   queued entry back at byte 0 *)
Theorem preamble_clean : forall s0,
  let s1 := connect_preamble s0 in
  rdata (s_reader s1) = [] /\ rplen (s_reader s1) = None /\ rcap (s_reader s1) = rcap (s_reader s0) /\
  rt_next_ping (s_rt s1) = None /\ rt_ping_timeout (s_rt s1) = None /\ rt_resumed (s_rt s1) = false /\
  Forall (fun e => re_st e = SWrite 0) (ob_ret (s_ob s1)) /\
  Forall (fun e => le_st e = SWrite 0) (ob_rel (s_ob s1)) /\
  Forall (fun e => ce_st e = SWrite 0) (ob_ctl (s_ob s1)) /\
  s_sp s1 = s_sp s0 /\ s_srv s1 = s_srv s0 /\ s_gen s1 = s_gen s0 /\ s_client_id s1 = s_client_id s0.
Proof.
  intros s0 s1. unfold s1, connect_preamble. cbn [set_ob set_rt set_reader s_reader s_rt s_ob reader_reset reset_transport
    rdata rplen rcap rt_next_ping rt_ping_timeout rt_resumed s_sp s_srv s_gen s_client_id].
  repeat (split; [reflexivity|]).
  destruct (has_pending_state (s_ob s0)) eqn:E.
  - destruct (arm_replay_states (s_ob s0) E) as [H1 [H2 [H3 _]]]. repeat split; assumption.
  - unfold arm_replay. rewrite E. cbn [negb].
    unfold has_pending_state in E. destruct (ob_ctl (s_ob s0)); [|discriminate]. destruct (ob_ret (s_ob s0)); [|discriminate].
    destruct (ob_rel (s_ob s0)); [|discriminate]. repeat split; constructor.
Qed.

(* ---------- when the encoder succeeds ---------- *)
Definition chunk_len (c : chunk) : N := match c with Some d => lenN d | None => 0 end.
Definition chunks_ok (cs : list chunk) : bool := forallb (fun c => match c with Some _ => true | None => false end) cs.
Definition chunks_len (cs : list chunk) : N := sumN (map chunk_len cs).

Lemma ser_push_succeeds : forall cs cap idx acc, chunks_ok cs = true -> idx + chunks_len cs <= cap ->
  exists body, ser_push cap idx cs acc = SOk (idx + chunks_len cs) body.
Proof.
  induction cs as [|c t IH]; intros cap idx acc Hok Hl; cbn [ser_push chunks_len map sumN] in *.
  - exists acc. f_equal. unfold chunks_len. cbn [map sumN]. lia.
  - cbn [chunks_ok forallb] in Hok. destruct c as [d|]; [|discriminate]. cbn [andb] in Hok.
    unfold chunks_len in *. cbn [map sumN chunk_len] in *.
    unfold sat_sub. destruct (N.ltb_spec (cap - idx) (lenN d)) as [L|L]; [lia|].
    destruct (IH cap (idx + lenN d) (acc ++ d) Hok) as [body Hb]; [lia|]. exists body. rewrite Hb. f_equal. lia.
Qed.

Lemma ser_push_no_room : forall cs cap idx acc, chunks_ok cs = true -> idx <= cap -> cap < idx + chunks_len cs ->
  ser_push cap idx cs acc = SErr EMem.
Proof.
  induction cs as [|c t IH]; intros cap idx acc Hok Hi Hl; unfold chunks_len in *; cbn [ser_push map sumN] in *; [lia|].
  cbn [chunks_ok forallb] in Hok. destruct c as [d|]; [|discriminate]. cbn [andb chunk_len] in *.
  unfold sat_sub. destruct (N.ltb_spec (cap - idx) (lenN d)) as [L|L]; [reflexivity|].
  apply IH; [exact Hok|lia|lia].
Qed.

Theorem encode_chunks_succeeds : forall cap typ flags cs, chunks_ok cs = true ->
  5 + chunks_len cs <= cap -> chunks_len cs <= VARINT_MAX ->
  exists off bs, encode_chunks cap typ flags cs = SOk off bs.
Proof.
  intros cap typ flags cs Hok Hl Hv. unfold encode_chunks.
  destruct (ser_push_succeeds cs cap 5 [] Hok Hl) as [body ->]. unfold finalize.
  replace (5 + chunks_len cs - 5) with (chunks_len cs) by lia.
  unfold varint_write. destruct (N.ltb_spec VARINT_MAX (chunks_len cs)) as [L|L]; [lia|].
  destruct (N.ltb_spec cap 5); [lia|]. eexists _, _. reflexivity.
Qed.

Theorem encode_chunks_no_room : forall cap typ flags cs, chunks_ok cs = true ->
  cap < 5 + chunks_len cs -> encode_chunks cap typ flags cs = SErr EMem.
Proof.
  intros cap typ flags cs Hok Hl. unfold encode_chunks.
  destruct (N.le_gt_cases 5 cap) as [H5|H5].
  - now rewrite (ser_push_no_room cs cap 5 [] Hok H5 Hl).
  - destruct (ser_push cap 5 cs []) as [idx body|e] eqn:E.
    + unfold finalize. destruct (varint_write _); [|reflexivity]. destruct (N.ltb_spec cap 5); [reflexivity|lia].
    + (* the serializer itself can only fail for lack of room when all chunks are well-formed *)
      clear Hl. revert E. generalize (@nil N) as acc. generalize 5 as idx. induction cs as [|c t IH]; intros idx acc E; cbn [ser_push] in E; [discriminate|].
      cbn [chunks_ok forallb] in Hok. destruct c as [d|]; [|discriminate]. cbn [andb] in Hok.
      destruct (sat_sub cap idx <? lenN d); [inversion E; reflexivity|]. exact (IH Hok _ _ E).
Qed.

(* connect(): the CONNECT goes through exactly when it fits the free tail of the arena *)
Theorem connect_encodes_iff_room : forall s,
  let s2 := connect_scratch s in
  let free := ob_cap (s_ob s2) - ob_used (s_ob s2) in
  let cs := connect_chunks (connect_request s2) in
  chunks_ok cs = true -> chunks_len cs <= VARINT_MAX ->
  (5 + chunks_len cs <= free -> exists off bs, enc_connect free (connect_request s2) = SOk off bs) /\
  (free < 5 + chunks_len cs -> enc_connect free (connect_request s2) = SErr EMem).
Proof.
  intros s s2 free cs Hok Hv. unfold enc_connect. fold cs. split; intros H.
  - now apply encode_chunks_succeeds.
  - now apply encode_chunks_no_room.
Qed.

(* ---------- a plain successful CONNACK is accepted in every session state ---------- *)
Theorem plain_connack_accepted : forall s sp now,
  snd (connack_process s (Some (RConnAck sp 0 [])) now) = CAOk sp.
Proof.
  intros s sp now. unfold connack_process. change (rc_success 0) with true. cbn [negb].
  change (props_iter_encoded []) with (@nil (option prop)). cbn [connack_props]. reflexivity.
Qed.

(* ---------- refutation (K12): a reachable world whose arena is so full that connect() can never succeed ---------- *)
(* tx arena 48 bytes, one QoS 1 publish of 20 payload bytes retained and unacknowledged, connection dropped,
   healthy transport (empty script = every I/O succeeds in full), conformant broker (mode 2) *)
Definition k12_tokens : list N :=
  [64; 48; 1; 116; 0; 0; 0; 0; 0; 4;
   0; 1; 0; 5; 32; 3; 0; 0; 0;
   1; 1; 97; 0; 0; 1; 20; 120; 120; 120; 120; 120; 120; 120; 120; 120; 120; 120; 120; 120; 120; 120; 120; 120; 120; 120; 120; 0;
   10;
   12; 2;
   0].

Definition k12_world : option world :=
  match p_case k12_tokens with Some (c, []) => Some (run_case c) | _ => None end.

Theorem reconnect_refuted_full_arena :
  exists w, k12_world = Some w /\
    w_script w = [] /\ w_broker w = 2 /\ w_conn w = false /\
    (exists e, ob_ret (s_ob (w_sess w)) = [e]) /\
    snd (op_connect FUEL w) = OFail EBufferTooSmall /\
    (* and connect() leaves the retained packet where it is: the next attempt meets the same arena *)
    ob_ret (s_ob (w_sess (fst (op_connect FUEL w)))) = ob_ret (s_ob (connect_scratch (w_sess w))).
Proof.
  destruct k12_world as [w|] eqn:E; [|vm_compute in E; discriminate].
  exists w. split; [reflexivity|].
  vm_compute in E. inversion E; subst; clear E.
  repeat split; try (eexists; reflexivity); vm_compute; reflexivity.
Qed.
