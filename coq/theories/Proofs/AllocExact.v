(* The allocator of packet identifiers characterised exactly: the identifier handed out is the first candidate, in the
   cyclic order 1..65535 starting at the counter, that is not in flight; every candidate before it is in flight; and
   the counter is left at the successor of the identifier handed out.  So the allocator skips nothing but identifiers
   in use, and which identifier a request gets is a function of the counter and the in-flight set alone. *)
From Coq Require Import List NArith Lia Bool.
From Minimq Require Import Util Bytes Varint Utf8 Props Ser De Reader Arena Core Inv.
Import ListNotations.
Local Open Scope N_scope.

Lemma next_packet_id_go_exact : forall fuel o cur nxt id,
  next_packet_id_go fuel o cur = (nxt, id) -> id <> 0 ->
  exists k, (k < fuel)%nat /\ id = cand k cur /\ nxt = pid_succ id /\ pid_in_use o id = false /\
            forall j, (j < k)%nat -> pid_in_use o (cand j cur) = true.
Proof.
  induction fuel as [|f IH]; intros o cur nxt id H Hnz; cbn [next_packet_id_go] in H.
  - injection H as _ H0. congruence.
  - destruct (pid_in_use o cur) eqn:E.
    + destruct (IH _ _ _ _ H Hnz) as [k [K1 [K2 [K3 [K4 K5]]]]].
      exists (S k). cbn [cand]. refine (conj _ (conj K2 (conj K3 (conj K4 _)))); [lia|].
      intros j Hj. destruct j as [|j]; cbn [cand]; [exact E|]. apply K5. lia.
    + injection H as <- <-. exists O. cbn [cand]. refine (conj _ (conj eq_refl (conj eq_refl (conj E _)))); [lia|].
      intros j Hj. lia.
Qed.

(* the session-level statement: under the invariant the search always succeeds (Inv.next_packet_id_fresh), so the
   characterisation holds without the side condition id <> 0 *)
Lemma next_packet_id_exact : forall s s' id,
  OInv (s_ob s) -> id_ok (s_pid s) -> next_packet_id s = (s', id) ->
  exists k, (k < 17)%nat /\ id = cand k (s_pid s) /\ s_pid s' = pid_succ id /\
            ~ In id (ids (s_ob s)) /\
            forall j, (j < k)%nat -> In (cand j (s_pid s)) (ids (s_ob s)).
Proof.
  intros s s' id HO Hp H. destruct (next_packet_id_fresh s s' id HO Hp H) as [Hi [Hn _]].
  unfold next_packet_id in H. destruct (next_packet_id_go 17 (s_ob s) (s_pid s)) as [nxt i] eqn:E.
  inversion H; subst; clear H.
  assert (Hnz : id <> 0) by (unfold id_ok in Hi; lia).
  destruct (next_packet_id_go_exact _ _ _ _ _ E Hnz) as [k [K1 [K2 [K3 [K4 K5]]]]].
  exists k. refine (conj K1 (conj K2 (conj K3 (conj Hn _)))).
  intros j Hj. apply pid_in_use_In. apply K5. exact Hj.
Qed.

(* an identifier not in flight at the counter is the one handed out: nothing is skipped needlessly *)
Lemma next_packet_id_no_skip : forall s s' id,
  OInv (s_ob s) -> id_ok (s_pid s) -> next_packet_id s = (s', id) ->
  ~ In (s_pid s) (ids (s_ob s)) -> id = s_pid s.
Proof.
  intros s s' id HO Hp H Hfree. destruct (next_packet_id_exact s s' id HO Hp H) as [k [_ [K2 [_ [_ K5]]]]].
  destruct k as [|k]; [exact K2|]. exfalso. apply Hfree. apply (K5 O). lia.
Qed.
