(* ArenaOps.v — every arena operation seen through the abstract view: the list of (id, bytes, state) of the
   retained packets.  This is the refinement behind C17 (retained packets stay intact) and the geometry invariant
   that makes every slice access and copy_within in the Rust code in-bounds. *)
From Coq Require Import Arith Lia ZifyBool ZifyN ZifyNat.
From Minimq Require Import Util Bytes Varint Utf8 Props Ser Arena ArenaLemmas SerLemmas.

Definition arena_wf (o : outbound) : Prop :=
  wf_layout 0 (ob_ret o) (ob_used o) /\ ob_used o <= lenN (ob_buf o).

Definition aentry := (N * bytes * sstate)%type.
Definition abs_entry (buf : bytes) (e : rentry) : aentry := (re_pid e, entry_bytes buf e, re_st e).
Definition abs (o : outbound) : list aentry := map (abs_entry (ob_buf o)) (ob_ret o).

Lemma abs_from_maps : forall buf buf' es es',
  map (entry_bytes buf') es' = map (entry_bytes buf) es ->
  map re_pid es' = map re_pid es -> map re_st es' = map re_st es ->
  map (abs_entry buf') es' = map (abs_entry buf) es.
Proof.
  intros buf buf' es. induction es as [|e t IH]; intros es' H1 H2 H3; destruct es' as [|e' t']; try discriminate;
    [reflexivity|]. cbn [map] in *. inversion H1; inversion H2; inversion H3.
  f_equal; [unfold abs_entry; congruence | now apply IH].
Qed.

Lemma compact_spec : forall o, arena_wf o ->
  arena_wf (compact o) /\ abs (compact o) = abs o /\
  ob_used (compact o) = used_after_compact o /\ lenN (ob_buf (compact o)) = lenN (ob_buf o) /\
  ob_ctl (compact o) = ob_ctl o /\ ob_rel (compact o) = ob_rel o /\
  map re_pid (ob_ret (compact o)) = map re_pid (ob_ret o) /\
  map re_len (ob_ret (compact o)) = map re_len (ob_ret o) /\
  map re_st (ob_ret (compact o)) = map re_st (ob_ret o) /\
  ob_used (compact o) <= ob_used o.
Proof.
  intros o [W U]. unfold compact.
  pose proof (compact_go_spec (ob_ret o) (ob_buf o) 0 (ob_used o) W U) as H.
  destruct (compact_go (ob_buf o) 0 (ob_ret o)) as [[b es] c].
  destruct H as [H1 [H2 [H3 [H4 [H5 [H6 [H7 [H8 H9]]]]]]]].
  cbn [ob_buf ob_used ob_ret ob_ctl ob_rel]. unfold arena_wf, abs, used_after_compact.
  cbn [ob_buf ob_used ob_ret ob_ctl ob_rel].
  repeat split; try assumption; try lia.
  apply abs_from_maps; assumption.
Qed.

(* the abstract effect of removing the first entry with a given id *)
Fixpoint abs_remove (pid : N) (l : list aentry) : option (list aentry) :=
  match l with
  | [] => None
  | (p, b, s) :: t => if N.eqb p pid then Some t
                      else match abs_remove pid t with Some t' => Some ((p, b, s) :: t') | None => None end
  end.

Lemma remove_first_ret_abs : forall buf pid es,
  match remove_first_ret pid es with
  | Some es' => abs_remove pid (map (abs_entry buf) es) = Some (map (abs_entry buf) es')
  | None => abs_remove pid (map (abs_entry buf) es) = None
  end.
Proof.
  induction es as [|e t IH]; cbn [remove_first_ret map]; [reflexivity|].
  change (abs_remove pid (abs_entry buf e :: map (abs_entry buf) t))
    with (if N.eqb (re_pid e) pid then Some (map (abs_entry buf) t)
          else match abs_remove pid (map (abs_entry buf) t) with
               | Some t' => Some (abs_entry buf e :: t') | None => None end).
  destruct (N.eqb (re_pid e) pid); [reflexivity|].
  destruct (remove_first_ret pid t); rewrite IH; reflexivity.
Qed.

Lemma remove_first_ret_wf : forall pid es es' lo used,
  remove_first_ret pid es = Some es' -> wf_layout lo es used -> wf_layout lo es' used.
Proof.
  induction es as [|e t IH]; intros es' lo used H W; cbn [remove_first_ret] in H; [discriminate|].
  cbn [wf_layout] in W. destruct W as [W1 [W2 W3]].
  destruct (N.eqb (re_pid e) pid).
  - inversion H; subst. eapply wf_layout_weaken; [|exact W3]. lia.
  - destruct (remove_first_ret pid t) as [t'|] eqn:E; [|discriminate]. inversion H; subst.
    cbn [wf_layout]. repeat split; try assumption. eapply IH; [reflexivity|exact W3].
Qed.

Lemma ack_packet_spec : forall o pid o' found, arena_wf o -> ack_packet o pid = (o', found) ->
  arena_wf o' /\ ob_ctl o' = ob_ctl o /\ ob_rel o' = ob_rel o /\ lenN (ob_buf o') = lenN (ob_buf o) /\
  (if found then abs_remove pid (abs o) = Some (abs o') else o' = o /\ abs_remove pid (abs o) = None).
Proof.
  intros o pid o' found [W U] H. unfold ack_packet in H.
  pose proof (remove_first_ret_abs (ob_buf o) pid (ob_ret o)) as Ha.
  destruct (remove_first_ret pid (ob_ret o)) as [es|] eqn:E.
  - inversion H; subst; clear H.
    set (o1 := {| ob_buf := ob_buf o; ob_used := ob_used o; ob_ctl := ob_ctl o; ob_ret := es; ob_rel := ob_rel o |}).
    assert (W1 : arena_wf o1).
    { split; [|exact U]. cbn [ob_ret ob_used o1]. eapply remove_first_ret_wf; eassumption. }
    destruct (compact_spec o1 W1) as [C1 [C2 [C3 [C4 [C5 [C6 _]]]]]].
    refine (conj C1 (conj C5 (conj C6 (conj C4 _)))). rewrite C2. exact Ha.
  - inversion H; subst. refine (conj (conj W U) (conj eq_refl (conj eq_refl (conj eq_refl (conj eq_refl Ha))))).
Qed.

(* encoding a new packet behind the compacted prefix and retaining it appends one abstract entry *)
Lemma encode_retain_spec : forall o enc o1 off len pid o2,
  arena_wf o ->
  (forall cap off' bs, enc cap = SOk off' bs -> off' + lenN bs <= cap /\ 2 <= lenN bs) ->
  encode_at o enc = (o1, EOk off len) ->
  retain_packet o1 pid off len = Some o2 ->
  exists bs, arena_wf o2 /\ abs o2 = abs o ++ [(pid, bs, SWrite 0)] /\ lenN bs = len /\
    (exists cap off', enc cap = SOk off' bs) /\
    ob_ctl o2 = ob_ctl o /\ ob_rel o2 = ob_rel o /\ lenN (ob_buf o2) = lenN (ob_buf o).
Proof.
  intros o enc o1 off len pid o2 Wf Henc He Hr. unfold encode_at in He.
  destruct (compact_spec o Wf) as [[CW CU] [C2 [C3 [C4 [C5 [C6 [C7 [C8 [C9 C10]]]]]]]]].
  set (oc := compact o) in *.
  destruct (enc (ob_cap oc - ob_used oc)) as [off' bs|e] eqn:Ee; [|inversion He].
  inversion He; subst; clear He.
  destruct (Henc _ _ _ Ee) as [Hfit Hlen]. unfold ob_cap in Hfit.
  unfold retain_packet in Hr. destruct (MAX_RETAINED <=? glen _); [discriminate|]. inversion Hr; subst; clear Hr.
  cbn [ob_buf ob_used ob_ret ob_ctl ob_rel].
  set (start := ob_used oc) in *. set (buf' := overwrite (ob_buf oc) (start + off') bs).
  assert (Hl : lenN buf' = lenN (ob_buf oc)) by (apply lenN_overwrite; lia).
  exists bs. unfold arena_wf, abs. cbn [ob_buf ob_used ob_ret ob_ctl ob_rel].
  assert (Hmax : N.max start (start + off' + lenN bs) = start + off' + lenN bs) by lia.
  rewrite Hmax.
  assert (G1 : forall es lo, wf_layout lo es start ->
              wf_layout lo (es ++ [{| re_pid := pid; re_off := start + off'; re_len := lenN bs; re_st := SWrite 0 |}])
                        (start + off' + lenN bs)).
  { induction es as [|x t IH]; intros lo W; cbn [app wf_layout] in *.
    - cbn [re_off re_len]. split; [lia|]. split; lia.
    - destruct W as [W1 [W2 W3]]. split; [assumption|]. split; [assumption|]. now apply IH. }
  assert (G2 : forall es lo, wf_layout lo es start ->
              map (abs_entry buf') es = map (abs_entry (ob_buf oc)) es).
  { induction es as [|x t IH]; intros lo W; cbn [map]; [reflexivity|].
    cbn [wf_layout] in W. destruct W as [W1 [W2 W3]]. pose proof (wf_layout_le _ _ _ W3). f_equal.
    - unfold abs_entry, entry_bytes. f_equal. f_equal. unfold buf'. apply slice_overwrite_before; lia.
    - eapply IH. exact W3. }
  split; [split|].
  - apply G1. exact CW.
  - lia.
  - split; [|split; [reflexivity|split; [eauto|split; [assumption|split; [assumption|lia]]]]].
    rewrite map_app. cbn [map]. f_equal.
    + transitivity (abs oc); [unfold abs; eapply G2; exact CW | exact C2].
    + unfold abs_entry, entry_bytes. cbn [re_pid re_off re_len re_st]. f_equal.
      unfold buf'. rewrite slice_overwrite_same by lia. reflexivity.
Qed.

(* ---------- DUP marking ---------- *)
Definition dup_bytes (b : bytes) : bytes := match b with x :: t => set_bit3 x :: t | [] => [] end.
Definition dup_aentry (a : aentry) : aentry := let '(p, b, s) := a in (p, dup_bytes b, s).

Lemma poke_dup_overwrite : forall buf off, off < lenN buf ->
  poke_dup buf off = overwrite buf off [set_bit3 (nthN off buf 0)].
Proof.
  intros buf off H. unfold poke_dup, overwrite.
  assert (Hd : exists b t, dropN off buf = b :: t).
  { destruct (dropN off buf) as [|b t] eqn:E; [|eauto]. apply (f_equal lenN) in E. rewrite lenN_dropN, lenN_nil in E. lia. }
  destruct Hd as [b [t Hd]]. rewrite Hd. f_equal.
  assert (Hn : nthN off buf 0 = b).
  { clear - Hd. revert off Hd. induction buf as [|x l IH]; intros off Hd; cbn [dropN nthN] in *; [discriminate|].
    destruct (N.eqb off 0); [now inversion Hd | now apply IH]. }
  rewrite Hn. cbn [app]. f_equal. change (lenN [set_bit3 b]) with 1.
  replace (off + 1) with (1 + off) by lia. rewrite <- dropN_dropN, Hd. cbn [dropN].
  change (1 =? 0) with false. cbv iota. change (N.pred 1) with 0. now rewrite dropN_0.
Qed.

Lemma lenN_poke_dup : forall buf off, lenN (poke_dup buf off) = lenN buf.
Proof.
  intros. unfold poke_dup. destruct (dropN off buf) as [|b t] eqn:E.
  - rewrite app_nil_r, lenN_takeN. apply (f_equal lenN) in E. rewrite lenN_dropN, lenN_nil in E. lia.
  - rewrite lenN_app, lenN_cons, lenN_takeN. apply (f_equal lenN) in E. rewrite lenN_dropN, lenN_cons in E. lia.
Qed.

Lemma slice_poke_head : forall buf off len, 1 <= len -> off + len <= lenN buf ->
  sliceN off len (poke_dup buf off) = dup_bytes (sliceN off len buf).
Proof.
  intros buf off len H1 H2. unfold poke_dup, sliceN.
  destruct (dropN off buf) as [|b t] eqn:E.
  - apply (f_equal lenN) in E. rewrite lenN_dropN, lenN_nil in E. lia.
  - assert (Ht : lenN (takeN off buf) = off) by (rewrite lenN_takeN; lia).
    rewrite dropN_app_ge by lia. rewrite Ht, N.sub_diag, dropN_0.
    cbn [takeN dup_bytes]. destruct (N.eqb_spec len 0); [lia|]. reflexivity.
Qed.

Lemma slice_poke_other : forall buf off o2 n, off < lenN buf -> (o2 + n <= off \/ off + 1 <= o2) ->
  sliceN o2 n (poke_dup buf off) = sliceN o2 n buf.
Proof.
  intros buf off o2 n H Hd. rewrite poke_dup_overwrite by exact H. destruct Hd.
  - apply slice_overwrite_before; lia.
  - apply slice_overwrite_after; cbn [lenN lenN_acc]; lia.
Qed.

Lemma poke_all_spec : forall es buf lo used,
  wf_layout lo es used -> used <= lenN buf ->
  let buf' := fold_left (fun b e => poke_dup b (re_off e)) es buf in
  lenN buf' = lenN buf /\
  map (entry_bytes buf') es = map (fun e => dup_bytes (entry_bytes buf e)) es /\
  (forall o n, o + n <= lo -> sliceN o n buf' = sliceN o n buf).
Proof.
  induction es as [|e t IH]; intros buf lo used W U; cbn [fold_left map].
  - repeat split; reflexivity.
  - cbn [wf_layout] in W. destruct W as [W1 [W2 W3]]. pose proof (wf_layout_le _ _ _ W3) as Hle.
    set (b1 := poke_dup buf (re_off e)).
    assert (L1 : lenN b1 = lenN buf) by apply lenN_poke_dup.
    specialize (IH b1 (re_off e + re_len e) used W3 ltac:(lia)). cbn zeta in IH.
    destruct IH as [I1 [I2 I3]]. cbn zeta. refine (conj _ (conj _ _)).
    + lia.
    + f_equal.
      * unfold entry_bytes at 1. rewrite I3 by lia. unfold b1, entry_bytes. apply slice_poke_head; lia.
      * rewrite I2. clear - W3 W2 Hle U.
        assert (G : forall lo', re_off e + re_len e <= lo' -> wf_layout lo' t used ->
                    map (fun x => dup_bytes (entry_bytes b1 x)) t = map (fun x => dup_bytes (entry_bytes buf x)) t).
        { clear W3. induction t as [|x t IHt]; intros lo' Hlo W; cbn [map]; [reflexivity|].
          cbn [wf_layout] in W. destruct W as [Wa [Wb Wc]]. pose proof (wf_layout_le _ _ _ Wc). f_equal.
          - f_equal. unfold entry_bytes, b1. apply slice_poke_other; lia.
          - apply (IHt (re_off x + re_len x)); [lia|exact Wc]. }
        apply (G (re_off e + re_len e)); [lia|exact W3].
    + intros o n Ho. rewrite I3 by lia. unfold b1. apply slice_poke_other; lia.
Qed.

Lemma dup_abs_maps : forall b b' es,
  map (entry_bytes b') es = map (fun e => dup_bytes (entry_bytes b e)) es ->
  map (abs_entry b') es = map (fun x => dup_aentry (abs_entry b x)) es.
Proof.
  intros b b'. induction es as [|e t IH]; intros H; cbn [map] in *; [reflexivity|].
  inversion H. f_equal; [unfold abs_entry, dup_aentry; congruence | now apply IH].
Qed.

Lemma mark_retained_dup_spec : forall o, arena_wf o ->
  arena_wf (mark_retained_dup o) /\ abs (mark_retained_dup o) = map dup_aentry (abs o) /\
  ob_ret (mark_retained_dup o) = ob_ret o /\ ob_ctl (mark_retained_dup o) = ob_ctl o /\
  ob_rel (mark_retained_dup o) = ob_rel o /\ ob_used (mark_retained_dup o) = ob_used o /\
  lenN (ob_buf (mark_retained_dup o)) = lenN (ob_buf o).
Proof.
  intros o [W U]. pose proof (poke_all_spec (ob_ret o) (ob_buf o) 0 (ob_used o) W U) as H. cbn zeta in H.
  destruct H as [H1 [H2 H3]]. unfold mark_retained_dup, arena_wf, abs. cbn [ob_buf ob_used ob_ret ob_ctl ob_rel].
  refine (conj (conj W _) (conj _ (conj eq_refl (conj eq_refl (conj eq_refl (conj eq_refl H1)))))); [lia|].
  rewrite map_map. apply dup_abs_maps. exact H2.
Qed.
