(* ArenaLemmas.v — byte-level facts about the transmit arena: slices, overwrite, compaction. *)
From Coq Require Import Arith Lia ZifyBool ZifyN ZifyNat.
From Minimq Require Import Util Bytes Varint Utf8 Props Ser Arena.

Lemma lenN_sliceN : forall (l : bytes) off len, off + len <= lenN l -> lenN (sliceN off len l) = len.
Proof. intros. unfold sliceN. rewrite lenN_takeN, lenN_dropN. lia. Qed.

Lemma lenN_overwrite : forall l off d, off + lenN d <= lenN l -> lenN (overwrite l off d) = lenN l.
Proof. intros. unfold overwrite. rewrite !lenN_app, lenN_takeN, lenN_dropN. lia. Qed.

Lemma slice_overwrite_same : forall l off d,
  off + lenN d <= lenN l -> sliceN off (lenN d) (overwrite l off d) = d.
Proof.
  intros l off d H. unfold sliceN, overwrite.
  assert (Ht : lenN (takeN off l) = off) by (rewrite lenN_takeN; lia).
  rewrite dropN_app_ge by lia. rewrite Ht, N.sub_diag, dropN_0. apply takeN_app_exact.
Qed.

Lemma slice_overwrite_after : forall l off d o2 n,
  off + lenN d <= lenN l -> off + lenN d <= o2 ->
  sliceN o2 n (overwrite l off d) = sliceN o2 n l.
Proof.
  intros l off d o2 n H H2. unfold sliceN, overwrite. f_equal.
  assert (Ht : lenN (takeN off l) = off) by (rewrite lenN_takeN; lia).
  rewrite dropN_app_ge by lia. rewrite Ht.
  rewrite dropN_app_ge by lia. rewrite dropN_dropN. f_equal. lia.
Qed.

Lemma slice_overwrite_before : forall l off d o2 n,
  o2 + n <= off -> off <= lenN l ->
  sliceN o2 n (overwrite l off d) = sliceN o2 n l.
Proof.
  intros l off d o2 n H H2. unfold sliceN, overwrite.
  assert (Ht : lenN (takeN off l) = off) by (rewrite lenN_takeN; lia).
  rewrite dropN_app_le by lia.
  rewrite takeN_app_le by (rewrite lenN_dropN; lia).
  rewrite <- (takeN_dropN l off) at 2.
  rewrite dropN_app_le by lia.
  rewrite takeN_app_le by (rewrite lenN_dropN; lia). reflexivity.
Qed.

(* the layout of the retained entries: increasing, pairwise disjoint, inside [lo, used) *)
Fixpoint wf_layout (lo : N) (es : list rentry) (used : N) : Prop :=
  match es with
  | [] => lo <= used
  | e :: t => lo <= re_off e /\ 2 <= re_len e /\ wf_layout (re_off e + re_len e) t used
  end.

Lemma wf_layout_le : forall es lo used, wf_layout lo es used -> lo <= used.
Proof. induction es as [|e t IH]; intros lo used H; cbn [wf_layout] in H; [exact H|]. destruct H as [H1 [H2 H3]]. apply IH in H3. lia. Qed.

Lemma wf_layout_weaken : forall es lo lo' used, lo' <= lo -> wf_layout lo es used -> wf_layout lo' es used.
Proof. destruct es as [|e t]; intros lo lo' used H W; cbn [wf_layout] in *; [lia|]. destruct W as [W1 W]. split; [lia|exact W]. Qed.

Lemma wf_layout_used : forall es lo used used', used <= used' -> wf_layout lo es used -> wf_layout lo es used'.
Proof.
  induction es as [|e t IH]; intros lo used used' H W; cbn [wf_layout] in *; [lia|].
  destruct W as [W1 [W2 W3]]. repeat split; try assumption. eapply IH; eassumption.
Qed.

Definition entry_bytes (buf : bytes) (e : rentry) : bytes := sliceN (re_off e) (re_len e) buf.

(* compaction keeps every entry's bytes, pid, length and state; the result is contiguous from the cursor *)
Lemma compact_go_spec : forall es buf cursor used,
  wf_layout cursor es used -> used <= lenN buf ->
  let '(b', es', c') := compact_go buf cursor es in
  lenN b' = lenN buf /\
  map (entry_bytes b') es' = map (entry_bytes buf) es /\
  map re_pid es' = map re_pid es /\ map re_len es' = map re_len es /\ map re_st es' = map re_st es /\
  c' = cursor + sumN (map re_len es) /\ c' <= used /\
  wf_layout cursor es' c' /\
  (forall o n, o + n <= cursor -> sliceN o n b' = sliceN o n buf).
Proof.
  induction es as [|e t IH]; intros buf cursor used W Hu; cbn [compact_go].
  - cbn [wf_layout map sumN] in *.
    refine (conj _ (conj _ (conj _ (conj _ (conj _ (conj _ (conj _ (conj _ _)))))))); try reflexivity; lia.
  - cbn [wf_layout] in W. destruct W as [W1 [W2 W3]].
    pose proof (wf_layout_le _ _ _ W3) as Hle.
    set (buf' := if N.eqb (re_off e) cursor then buf
                 else overwrite buf cursor (sliceN (re_off e) (re_len e) buf)).
    assert (Hs : lenN (sliceN (re_off e) (re_len e) buf) = re_len e) by (apply lenN_sliceN; lia).
    assert (Hl : lenN buf' = lenN buf).
    { unfold buf'. destruct (N.eqb_spec (re_off e) cursor); [reflexivity|]. apply lenN_overwrite. lia. }
    assert (He : sliceN cursor (re_len e) buf' = sliceN (re_off e) (re_len e) buf).
    { unfold buf'. destruct (N.eqb_spec (re_off e) cursor) as [->|]; [reflexivity|].
      rewrite <- Hs at 1. apply slice_overwrite_same. lia. }
    assert (Ht : forall o n, re_off e + re_len e <= o -> sliceN o n buf' = sliceN o n buf).
    { intros o n Ho. unfold buf'. destruct (N.eqb_spec (re_off e) cursor); [reflexivity|].
      apply slice_overwrite_after; lia. }
    assert (Hb : forall o n, o + n <= cursor -> sliceN o n buf' = sliceN o n buf).
    { intros o n Ho. unfold buf'. destruct (N.eqb_spec (re_off e) cursor); [reflexivity|].
      apply slice_overwrite_before; lia. }
    assert (W3' : wf_layout (cursor + re_len e) t used) by (eapply wf_layout_weaken; [|exact W3]; lia).
    specialize (IH buf' (cursor + re_len e) used W3' ltac:(lia)).
    fold buf'. destruct (compact_go buf' (cursor + re_len e) t) as [[b2 t'] c2].
    destruct IH as [I1 [I2 [I3 [I4 [I5 [I6 [I7 [I8 I9]]]]]]]].
    cbn [map sumN]. refine (conj _ (conj _ (conj _ (conj _ (conj _ (conj _ (conj _ (conj _ _)))))))).
    + lia.
    + f_equal.
      * unfold entry_bytes at 1 2. cbn [re_off re_len]. rewrite I9 by lia. exact He.
      * rewrite I2. clear - Ht W3. revert W3. intros W3.
        assert (G : forall lo, re_off e + re_len e <= lo -> wf_layout lo t used ->
                    map (entry_bytes buf') t = map (entry_bytes buf) t).
        { clear W3. induction t as [|x t IHt]; intros lo Hlo W; cbn [map]; [reflexivity|].
          cbn [wf_layout] in W. destruct W as [Wa [Wb Wc]]. f_equal.
          - unfold entry_bytes. apply Ht. lia.
          - apply (IHt (re_off x + re_len x)); [lia | exact Wc]. }
        apply (G (re_off e + re_len e)); [lia | exact W3].
    + now rewrite I3.
    + now rewrite I4.
    + now rewrite I5.
    + lia.
    + lia.
    + cbn [wf_layout re_off re_len]. split; [lia|]. split; [lia|exact I8].
    + intros o n Ho. rewrite I9 by lia. apply Hb. lia.
Qed.
