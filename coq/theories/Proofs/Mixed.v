(* Mixed.v — C16 / C04 for histories that interleave the application's acknowledged requests with inbound QoS 0 messages:
   from the idle state, every request completes and every message that arrives in between is handed to the application by
   the next poll(), in any order and for any length of history, and nothing but the requests' packets reaches the wire. *)
From Coq Require Import List NArith Lia Bool PeanoNat.
From Coq Require Import ZifyBool ZifyN ZifyNat.
From Minimq Require Import Bytes Varint Utf8 Props Ser De Reader Spec Arena Core Show Machine Parse Run Util Lts Refine
  VarintProofs SerLemmas CodecProofs BrokerProofs ArenaLemmas ArenaOps Inv Quota Status Persist Frames Limits Reach WireInv Chunking Wire Measure
  Terminate KeepAlive ConnectOk PingQuiet Healthy Owed Sends Pings Framing Liveness PingAt PollReads Exchange Exchange2 Exchange3 CfgFrame History.
Import ListNotations.
Local Open Scope N_scope.
Local Opaque u16_be.

(* an event of the history: a request of the application, or the arrival of one whole packet from the broker *)
Inductive event :=
| EvReq (q : request)
| EvMsg (pkt : bytes).

(* an inbound QoS 0 PUBLISH that fits the receive buffer *)
Definition msg_ok (w : world) (pkt : bytes) : Prop :=
  exists h rl body topic r dp props payload,
    varint_write (lenN body) = Some rl /\ pkt = h :: rl ++ body /\
    lenN pkt <= rcap (rd w) /\ lenN pkt <= 29000 /\
    from_buffer pkt = Some (RPublish topic None Q0 r dp props payload).

Definition event_ok (cap : N) (w : world) (e : event) : Prop :=
  match e with
  | EvReq q => request_ok cap w q
  | EvMsg pkt => msg_ok w pkt
  end.

(* one event carried out: a request is one complete exchange (History.exchange) after which its identifier is free again;
   a message arrives now (Run.feed with no delay) and the next poll() returns exactly its decoding, writing nothing *)
Inductive estep : world -> event -> world -> Prop :=
| es_req : forall w q op w2, exchange w q op w2 ->
    has_retained (s_ob (w_sess w2)) (op_pid op) = false -> has_pending_release (s_ob (w_sess w2)) (op_pid op) = false ->
    estep w (EvReq q) w2
| es_msg : forall w pkt w2 p, from_buffer pkt = Some p ->
    op_poll FUEL (feed w 0 pkt) = (w2, ODone (Some p)) -> w_wire w2 = w_wire w ->
    estep w (EvMsg pkt) w2.

Lemma estep_msg_inv : forall w pkt w2, estep w (EvMsg pkt) w2 ->
  exists p, from_buffer pkt = Some p /\ op_poll FUEL (feed w 0 pkt) = (w2, ODone (Some p)) /\ w_wire w2 = w_wire w.
Proof. intros w pkt w2 H. inversion H; subst. eexists. repeat split; eassumption. Qed.
Lemma estep_req_inv : forall w q w2, estep w (EvReq q) w2 ->
  exists op, exchange w q op w2 /\
    has_retained (s_ob (w_sess w2)) (op_pid op) = false /\ has_pending_release (s_ob (w_sess w2)) (op_pid op) = false.
Proof. intros w q w2 H. inversion H; subst. eexists. repeat split; eassumption. Qed.

Fixpoint wanted_events (cap : N) (es : list event) (w : world) : Prop :=
  match es with
  | [] => True
  | e :: t => event_ok cap w e /\ forall w2, estep w e w2 -> wanted_events cap t w2
  end.

Inductive mixed_history : world -> list event -> world -> Prop :=
| mh_nil : forall w, mixed_history w [] w
| mh_cons : forall w e es w2 w', estep w e w2 -> mixed_history w2 es w' -> mixed_history w (e :: es) w'.

Lemma feed_now : forall w pkt, pkt <> [] -> w_last_arrival w <= w_now w ->
  feed w 0 pkt = upd_inq w (w_inq w ++ [(w_now w, pkt)]) (w_now w).
Proof.
  intros w pkt Hne Hla. unfold feed. rewrite N.add_0_r, N.max_l by exact Hla. destruct pkt; [congruence|reflexivity].
Qed.

(* one message from idle: delivered by one poll(), idle again, window, buffers and clock untouched *)
Theorem message_idle : forall w pkt,
  IdleQ w -> msg_ok w pkt ->
  exists w2, estep w (EvMsg pkt) w2 /\ IdleQ w2 /\ w_now w2 = w_now w /\
    ob_cap (s_ob (w_sess w2)) = ob_cap (s_ob (w_sess w)).
Proof.
  intros w pkt [Hi [Hq1 [Hq2 [Hq3 Hcap]]]] [h [rl [body [topic [r [dp [props [payload [Hrl [Hp [Hfit [H29 Hdec]]]]]]]]]]]].
  destruct Hi as [Hcw [Ec [El [Er [Hka [Hnp [Hpt [Hbr [Htx [Hinq [Hla [Hrd [Hrp Hrc]]]]]]]]]]]]].
  assert (Hne : pkt <> []) by (rewrite Hp; discriminate).
  pose proof (feed_now w pkt Hne Hla) as Ef. rewrite Hinq in Ef. cbn [app] in Ef.
  set (wf := upd_inq w [(w_now w, pkt)] (w_now w)) in *.
  assert (Hs : w_sess wf = w_sess w) by reflexivity.
  assert (A10 : w_last_arrival wf <= w_now wf) by (cbn [wf upd_inq w_last_arrival w_now]; lia).
  assert (A16 : w_now w <= w_now wf) by (cbn [wf upd_inq w_now]; lia).
  assert (A15 : w_inq wf = [(w_now w, h :: rl ++ body)]) by (rewrite <- Hp; reflexivity).
  assert (A17 : lenN (h :: rl ++ body) <= rcap (rd wf)) by (rewrite <- Hp; exact Hfit).
  assert (A18 : lenN (h :: rl ++ body) <= 29000) by (rewrite <- Hp; exact H29).
  assert (A19 : from_buffer (h :: rl ++ body) = Some (RPublish topic None Q0 r dp props payload)) by (rewrite <- Hp; exact Hdec).
  destruct (inbound_qos0_idle wf h rl body (w_now w) topic r dp props payload
              Hcw Ec El Er Hka Hnp Hpt Hbr Htx A10 Hrd Hrp Hrc Hrl A15 A16 A17 A18 A19) as [w2 [E2 [W2 [N2 [R2 [O2 I2]]]]]].
  - exists w2. split.
    + eapply es_msg; [exact Hdec| rewrite Ef; exact E2 | exact W2].
    + split; [|split; [exact N2|rewrite O2; reflexivity]].
      split; [exact I2|]. rewrite R2, O2. rewrite Hs. repeat split; assumption.
Qed.

(* every mixed history, of any length and in any order: every request completes, every message is delivered *)
Theorem mixed_history_completes : forall es w,
  IdleQ w -> wanted_events (ob_cap (s_ob (w_sess w))) es w ->
  exists w', mixed_history w es w' /\ IdleQ w' /\ w_now w' = w_now w.
Proof.
  induction es as [|e es IH]; intros w HI HW.
  - exists w. split; [constructor|]. split; [exact HI|reflexivity].
  - cbn [wanted_events] in HW. destruct HW as [Hok Hnext]. destruct e as [q|pkt]; cbn [event_ok] in Hok.
    + destruct (exchange_idle w q HI Hok) as [op [w2 [Hex [Hr [Hp [Hn [Hc [HI2 _]]]]]]]].
      assert (Hst : estep w (EvReq q) w2) by (econstructor; eassumption).
      specialize (Hnext w2 Hst). rewrite <- Hc in Hnext.
      destruct (IH w2 HI2 Hnext) as [w' [Hh [HI' Hn']]].
      exists w'. split; [econstructor; eassumption|]. split; [exact HI'|]. rewrite Hn'. exact Hn.
    + destruct (message_idle w pkt HI Hok) as [w2 [Hst [HI2 [Hn Hc]]]].
      specialize (Hnext w2 Hst). rewrite <- Hc in Hnext.
      destruct (IH w2 HI2 Hnext) as [w' [Hh [HI' Hn']]].
      exists w'. split; [econstructor; eassumption|]. split; [exact HI'|]. rewrite Hn'. exact Hn.
Qed.

(* ---------------------------------------------------------------- the hypotheses are met: a message, then a SUBSCRIBE *)
Definition ex_msg : bytes := [48; 5; 0; 1; 116; 0; 9].      (* PUBLISH QoS 0, topic "t", no properties, payload 09 *)

Example mixed_events_hyps_met :
  IdleQ ex_b1 /\ wanted_events (ob_cap (s_ob (w_sess ex_b1))) [EvMsg ex_msg; EvReq ex_req_sub] ex_b1.
Proof.
  destruct history_hyps_met as [HI _]. split; [exact HI|].
  assert (V1 : props_valid_for (PSlice []) CtxSubscribe = true) by (vm_compute; reflexivity).
  assert (F1 : forall id, exists off bs, enc_subscribe (ob_cap (s_ob (w_sess ex_b1))) {| sq_pid := id; sq_props := []; sq_topics := [(ex_filter, ex_so1)] |} = SOk off bs).
  { intros id. eexists. eexists. vm_compute. reflexivity. }
  assert (Rc : lenN ex_msg <= rcap (rd ex_b1)) by (vm_compute; discriminate).
  assert (Dc : from_buffer ex_msg = Some (RPublish [116] None Q0 false false [] [9])) by (vm_compute; reflexivity).
  cbn [wanted_events event_ok]. split.
  - exists 48, [5], [0; 1; 116; 0; 9], [116], false, false, [], [9].
    split; [vm_compute; reflexivity|]. split; [reflexivity|]. split; [exact Rc|]. split; [vm_compute; discriminate|exact Dc].
  - intros w2 _. split; [|intros; exact I].
    cbn [ex_req_sub request_ok]. split; [discriminate|]. split; [exact V1|exact F1].
Qed.
