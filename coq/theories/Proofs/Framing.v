(* Framing.v — C15 for the inbound direction at the level of the machine: whatever the fragmentation and timing of
   reads, the packet reader of every reachable world holds a prefix of the inbound byte stream that is never longer
   than the packet being assembled (RInv); hence the packet that process_received decodes is exactly the first `pl`
   bytes of the stream (reader ++ bytes still queued on the transport), and handling it removes exactly those bytes. *)
From Coq Require Import List NArith Lia Bool.
From Coq Require Import ZifyBool ZifyN ZifyNat.
From Minimq Require Import Bytes Varint Utf8 Props Ser De Reader Arena Core Show Machine Parse Run.
From Minimq Require Import Util Lts Refine Inv WireInv Wire Chunking ReaderInv Cancel.
Import ListNotations.
Open Scope N_scope.

Definition rd (w : world) : reader := s_reader (w_sess w).
Definition RP (w w' : world) : Prop := RInv (rd w) -> RInv (rd w').

Lemma RP_refl : forall w, RP w w. Proof. intros w H. exact H. Qed.
Lemma RP_trans : forall a b c, RP a b -> RP b c -> RP a c. Proof. intros a b c H1 H2 H. auto. Qed.
Lemma RP_same : forall w w', rd w' = rd w -> RP w w'. Proof. intros w w' E H. unfold RP in *. now rewrite E. Qed.
Lemma RP_reset : forall w w' r, rd w' = reader_reset r -> RP w w'. Proof. intros w w' r E _. rewrite E. apply RInv_reset. Qed.
Lemma RP_sess : forall w w', w_sess w' = w_sess w -> RP w w'. Proof. intros w w' E. apply RP_same. unfold rd. now rewrite E. Qed.
Lemma RP_hd : forall w, RP w (w_hd w).
Proof. intros w. eapply RP_reset. unfold rd, w_hd, sess_handle_disconnect. cbn [w_sess upd_live upd_sess set_reader s_reader]. reflexivity. Qed.

Lemma available_exact : forall r, RInv r -> packet_available r = true -> exists pl, rplen r = Some pl /\ read_bytes r = pl.
Proof.
  intros r [Hok _] Ha. unfold packet_available in Ha. unfold ROK in Hok. destruct (rplen r) as [pl|]; [|discriminate].
  exists pl. split; [reflexivity|]. apply N.leb_le in Ha. destruct Hok. lia.
Qed.

(* ---------- I/O and the outbound side leave the reader alone (or reset it on a fatal error) ---------- *)
Lemma RP_io_write : forall bs w, RP w (fst (io_write bs w)).
Proof. intros. destruct (io_write bs w) as [w1 r] eqn:E. destruct (io_write_ghost _ _ _ _ E) as [Hs _]. now apply RP_sess. Qed.
Lemma RP_io_flush : forall w, RP w (fst (io_flush w)).
Proof. intros. destruct (io_flush w) as [w1 r] eqn:E. destruct (io_flush_ghost _ _ _ E) as [Hs _]. now apply RP_sess. Qed.
Lemma RP_io_read : forall win dl w, RP w (fst (io_read win dl w)).
Proof. intros. apply RP_sess. apply io_read_sess. Qed.

Lemma RP_upd_same : forall w s, s_reader s = rd w -> RP w (upd_sess w s).
Proof. intros w s E. apply RP_same. unfold rd. cbn [w_sess upd_sess]. exact E. Qed.

Lemma RP_write_all : forall fuel bs w, RP w (fst (write_all fuel bs w)).
Proof.
  induction fuel as [|f IH]; intros bs w; cbn [write_all]; [apply RP_refl|].
  destruct bs as [|b t]; [apply RP_refl|].
  pose proof (RP_io_write (b :: t) w) as H. destruct (io_write (b :: t) w) as [w1 r]. cbn [fst] in H.
  destruct r as [n| |]; cbn [fst]; try exact H. destruct (N.eqb n 0); cbn [fst]; [exact H|]. eapply RP_trans; [exact H|apply IH].
Qed.

Lemma RP_flush_current : forall p now w, RP w (fst (flush_current p now w)).
Proof.
  intros. unfold flush_current. destruct (negb (w_live w)); [apply RP_refl|].
  pose proof (RP_io_flush w) as H. destruct (io_flush w) as [w1 r]. cbn [fst] in H.
  destruct r; cbn [fst]; [|eapply RP_trans; [exact H|apply RP_hd]|exact H].
  pose proof (complete_flush_reader (w_sess w1) p now) as Hr. destruct (complete_flush (w_sess w1) p now) as [s f]. cbn [fst] in Hr.
  destruct f; cbn [fst]; (eapply RP_trans; [exact H|apply RP_upd_same; exact Hr]).
Qed.

Lemma RP_perform : forall st now w, RP w (fst (perform_outbound_step st now w)).
Proof.
  intros. unfold perform_outbound_step. destruct (prepare_step (w_sess w) st) as [p bs wr len|p| |e]; try apply RP_refl.
  2: apply RP_flush_current.
  destruct (negb (w_live w)); [apply RP_refl|].
  pose proof (RP_io_write (dropN wr bs) w) as H. destruct (io_write (dropN wr bs) w) as [w1 r]. cbn [fst] in H.
  destruct r as [n| |]; cbn [fst]; [|eapply RP_trans; [exact H|apply RP_hd]|exact H].
  destruct (N.eqb n 0); [exact H|].
  pose proof (set_written_reader (w_sess w1) p (wr + n) len) as Hr. destruct (set_written (w_sess w1) p (wr + n) len) as [s found]. cbn [fst] in Hr.
  assert (H2 : RP w (upd_sess w1 s)) by (eapply RP_trans; [exact H|apply RP_upd_same; exact Hr]).
  destruct (negb found); [exact H2|]. destruct (wr + n <? len); [exact H2|].
  eapply RP_trans; [exact H2|apply RP_flush_current].
Qed.

Lemma RP_ping : forall w now, RP w (upd_sess w (fst (maybe_queue_pingreq (w_sess w) now))).
Proof. intros. apply RP_upd_same. apply (proj2 (ping_pres w now)). Qed.

Lemma RP_flush_outbound : forall fuel w, RP w (fst (flush_outbound fuel w)).
Proof.
  induction fuel as [|f IH]; intros w; cbn [flush_outbound]; [apply RP_refl|].
  pose proof (RP_ping w (w_now w)) as Hp. destruct (maybe_queue_pingreq (w_sess w) (w_now w)) as [s1 e]. cbn [fst] in Hp.
  destruct e; [exact Hp|]. cbn [w_sess upd_sess]. destruct (next_step (s_ob s1)) as [st|]; [|exact Hp].
  pose proof (RP_perform st (w_now w) (upd_sess w s1)) as H. destruct (perform_outbound_step st (w_now w) (upd_sess w s1)) as [w2 r]. cbn [fst] in H.
  assert (H2 : RP w w2) by (eapply RP_trans; [exact Hp|exact H]).
  destruct r; cbn [fst]; try exact H2. eapply RP_trans; [exact H2|apply IH].
Qed.

Lemma RP_service : forall now w, RP w (fst (service now w)).
Proof.
  intros. unfold service. destruct (ping_timed_out (w_sess w) now); [apply RP_hd|].
  pose proof (RP_ping w now) as Hp. destruct (maybe_queue_pingreq (w_sess w) now) as [s1 e]. cbn [fst] in Hp.
  destruct e; [exact Hp|]. cbn [w_sess upd_sess]. destruct (next_step (s_ob s1)) as [st|]; [|exact Hp].
  eapply RP_trans; [exact Hp|apply RP_perform].
Qed.

(* ---------- taking a packet resets the reader ---------- *)
Lemma RP_process : forall w, RP w (fst (process_received w)).
Proof.
  intros w. unfold process_received. destruct (negb (packet_available (s_reader (w_sess w)))); [apply RP_refl|].
  destruct (take_packet (s_reader (w_sess w))) as [[[r' pl] op]|] eqn:Et; [|apply RP_refl].
  assert (Er : r' = reader_reset (s_reader (w_sess w))).
  { unfold take_packet in Et. destruct (rplen (s_reader (w_sess w))); inversion Et; reflexivity. }
  destruct op as [p|].
  - pose proof (handle_packet_reader (set_reader (w_sess w) r') p) as Hr.
    destruct (handle_packet (set_reader (w_sess w) r') p) as [s2 hr]. cbn [fst set_reader s_reader] in Hr.
    assert (H2 : forall w2, rd w2 = s_reader s2 -> RP w w2) by (intros w2 E; eapply RP_reset; rewrite E, Hr, Er; reflexivity).
    destruct hr as [[|]|e]; [| |destruct e]; cbn [fst];
      try (apply H2; reflexivity); (eapply RP_trans; [|apply RP_hd]; apply H2; reflexivity).
  - cbn [fst]. eapply RP_trans; [|apply RP_hd]. eapply RP_reset. unfold rd. cbn [w_sess upd_sess set_reader s_reader]. exact Er.
Qed.

Lemma RP_drive_loop : forall fuel adv w, RP w (fst (drive_loop fuel adv w)).
Proof.
  induction fuel as [|f IH]; intros adv w; cbn [drive_loop]; [apply RP_refl|].
  pose proof (RP_process w) as Hp. destruct (process_received w) as [w1 r1]. cbn [fst] in Hp.
  destruct r1 as [op|e| | |]; cbn [fst]; try exact Hp.
  destruct op as [p|]; [exact Hp|].
  destruct (packet_available (s_reader (w_sess w))); [eapply RP_trans; [exact Hp|apply IH]|].
  pose proof (RP_service (w_now w1) w1) as Hs. destruct (service (w_now w1) w1) as [w2 r2]. cbn [fst] in Hs.
  assert (H2 : RP w w2) by (eapply RP_trans; [exact Hp|exact Hs]).
  destruct r2 as [b|e| | |]; cbn [fst]; try exact H2.
  destruct (next_step (s_ob (w_sess w2))); [eapply RP_trans; [exact H2|apply IH]|exact H2].
Qed.

(* ---------- reading: the reader grows by at most what it asked for ---------- *)
Lemma deliver_len : forall win amt w w1 d, deliver win amt w = (w1, RData d) -> lenN d <= win.
Proof.
  intros win amt w w1 d H. unfold deliver in H. destruct (avail_split (w_now w) (w_inq w)) as [av later].
  inversion H; subst. rewrite lenN_takeN. lia.
Qed.

Lemma io_read_len : forall win dl w w1 d, io_read win dl w = (w1, RData d) -> lenN d <= win.
Proof.
  intros win dl w w1 d H. unfold io_read in H. destruct (N.eqb win 0); [inversion H; subst; rewrite lenN_nil; lia|].
  destruct (next_ev w) as [[k amt] rest].
  destruct (N.eqb k 1); [discriminate|]. destruct (N.eqb k 2); [inversion H; subst; rewrite lenN_nil; lia|].
  destruct (N.eqb k 3); [discriminate|].
  destruct (avail_split (w_now w) (w_inq w)) as [av later]. destruct av as [|a0 av'].
  - match type of H with (match ?t with _ => _ end) = _ => destruct t as [tt|] end; [|discriminate].
    match type of H with (let '(_, _) := ?x in _) = _ => destruct x as [av1 l1] end.
    destruct av1; [discriminate|]. eapply deliver_len; exact H.
  - eapply deliver_len; exact H.
Qed.

Lemma window_RInv : forall r' w,
  match rplen r' with
  | Some pl => read_bytes r' <= pl /\ w = pl - read_bytes r' /\ pl <= rcap r' /\ probe_len (takeN 4 (dropN 1 (rdata r'))) = Some pl
  | None => w = 1 /\ Forall cont (dropN 1 (rdata r')) /\ read_bytes r' <= 4
  end -> RInv r'.
Proof.
  intros r' w H. pose proof (commit_inv r' w [] eq_refl H ltac:(rewrite lenN_nil; lia)) as Hc.
  unfold commit in Hc. rewrite app_nil_r in Hc. destruct r'; exact Hc.
Qed.

Lemma fill_go_RInv : forall fuel y dl w w' fr, RInv (rd w) -> fill_go fuel y dl w = (w', fr) ->
  (forall e, fr <> FillErr e) -> RInv (rd w').
Proof.
  induction fuel as [|f IH]; intros y dl w w' fr Hi H Hne; cbn [fill_go] in H; [inversion H; subst; exact Hi|].
  fold (rd w) in H. destruct (packet_available (rd w)); [inversion H; subst; exact Hi|].
  destruct (receive_buffer (rd w)) as [r' ow] eqn:Er. destruct ow as [win|]; [|inversion H; subst; exfalso; eapply Hne; reflexivity].
  destruct (receive_buffer_inv _ _ _ Hi Er) as [Hd [Hcap Hpost]].
  set (w0 := upd_sess w (set_reader (w_sess w) r')) in *.
  assert (R0 : RInv (rd w0)) by (unfold rd, w0; cbn [w_sess upd_sess set_reader s_reader]; exact (window_RInv _ _ Hpost)).
  destruct (N.eqb win 0); [inversion H; subst; exact R0|].
  destruct (timer_fired y dl w0); [inversion H; subst; exact R0|].
  destruct (io_read win dl w0) as [w1 r] eqn:Ei.
  pose proof (io_read_sess win dl w0) as [Hs _]. rewrite Ei in Hs. cbn [fst] in Hs.
  assert (R1 : RInv (rd w1)) by (unfold rd; rewrite Hs; exact R0).
  destruct r as [d| | |]; try (inversion H; subst; first [exact R1 | exfalso; eapply Hne; reflexivity]).
  destruct d as [|x t]; [inversion H; subst; exfalso; eapply Hne; reflexivity|].
  pose proof (io_read_len _ _ _ _ _ Ei) as Hl.
  eapply IH; [|exact H|exact Hne].
  unfold rd. cbn [w_sess upd_sess set_reader s_reader]. rewrite Hs. unfold w0. cbn [w_sess upd_sess set_reader s_reader].
  exact (commit_inv r' win (x :: t) eq_refl Hpost Hl).
Qed.
Theorem fill_RInv : forall fuel dl w w' fr, RInv (rd w) -> fill_packet_reader fuel dl w = (w', fr) ->
  (forall e, fr <> FillErr e) -> RInv (rd w').
Proof. intros fuel dl. exact (fill_go_RInv fuel false dl). Qed.

Lemma RP_drive_packet : forall fuel w, RP w (fst (drive_packet fuel w)).
Proof. intros. unfold drive_packet. destruct (negb (w_live w)); [apply RP_refl|apply RP_drive_loop]. Qed.

Theorem RP_wait : forall fuel w, RP w (fst (wait_for_progress fuel w)).
Proof.
  induction fuel as [|f IH]; intros w; cbn [wait_for_progress]; [apply RP_refl|].
  pose proof (RP_drive_packet (S f) w) as Hd. destruct (drive_packet (S f) w) as [w1 r]. cbn [fst] in Hd.
  destruct r as [pr|e| | |]; cbn [fst]; try exact Hd.
  destruct pr as [| |q]; cbn [fst]; try exact Hd.
  destruct (negb (w_live w1)); [exact Hd|].
  destruct (fill_packet_reader (S f) (next_deadline (s_rt (w_sess w1))) w1) as [w2 fr] eqn:Ef.
  assert (F : (forall e0, fr <> FillErr e0) -> RP w w2).
  { intros Hne Hi. eapply fill_RInv; [exact (Hd Hi)|exact Ef|exact Hne]. }
  destruct fr as [|e| | |]; cbn [fst].
  - eapply RP_trans; [apply F; discriminate|apply IH].
  - intros _. unfold rd, w_hd, sess_handle_disconnect. cbn [w_sess upd_live upd_sess set_reader s_reader]. apply RInv_reset.
  - eapply RP_trans; [apply F; discriminate|apply IH].
  - apply F; discriminate.
  - apply F; discriminate.
Qed.

Lemma RP_op_poll : forall fuel w, RP w (fst (op_poll fuel w)).
Proof.
  intros. unfold op_poll. pose proof (RP_wait fuel w) as H. destruct (wait_for_progress fuel w) as [w1 r]. cbn [fst] in H.
  destruct r as [[| |p]|e| | |]; exact H.
Qed.

Lemma RP_op_recv : forall fuel w, RP w (fst (op_recv fuel w)).
Proof.
  induction fuel as [|f IH]; intros w; cbn [op_recv]; [apply RP_refl|].
  pose proof (RP_wait (S f) w) as H. destruct (wait_for_progress (S f) w) as [w1 r]. cbn [fst] in H.
  destruct r as [[| |p]|e| | |]; cbn [fst]; try exact H. eapply RP_trans; [exact H|apply IH].
Qed.

Lemma RP_op_drive : forall fuel w, RP w (fst (op_drive fuel w)).
Proof.
  intros. unfold op_drive. pose proof (RP_drive_packet fuel w) as H. destruct (drive_packet fuel w) as [w1 r]. cbn [fst] in H.
  destruct r as [[| |p]|e| | |]; exact H.
Qed.

Lemma RP_mark_partial : forall w b a l, RP w a -> RP w (mark_partial b a l).
Proof. intros w b a l H. unfold mark_partial. destruct (_ && _); [|exact H]. eapply RP_trans; [exact H|apply RP_sess; reflexivity]. Qed.

Lemma RP_finish_mid : forall fuel w m, RP w (fst (finish_mid fuel w m)).
Proof.
  intros fuel w m. unfold finish_mid. destruct m as [e|o|bs]; [apply RP_refl| |].
  - pose proof (RP_flush_outbound fuel w) as H. destruct (flush_outbound fuel w) as [w1 r]. cbn [fst] in H. destruct r; exact H.
  - pose proof (RP_write_all fuel bs w) as H. destruct (write_all fuel bs w) as [w1 r]. cbn [fst] in H.
    destruct r as [u|e| | |]; cbn [fst]; try (apply RP_mark_partial; exact H).
    + pose proof (RP_io_flush w1) as H2. destruct (io_flush w1) as [w2 fr]. cbn [fst] in H2.
      assert (H3 : RP w w2) by (eapply RP_trans; [exact H|exact H2]).
      destruct fr; cbn [fst]; [|eapply RP_trans; [exact H3|apply RP_hd]|exact H3].
      eapply RP_trans; [exact H3|apply RP_upd_same; reflexivity].
    + destruct e; cbn [fst]; try (eapply RP_trans; [exact H|apply RP_hd]). apply RP_mark_partial; exact H.
Qed.

Lemma RP_bind_mid : forall fuel w (k : world -> session * midres),
  (forall w1, s_reader (fst (k w1)) = rd w1) ->
  RP w (fst (bindu (flush_outbound fuel w) (fun w1 => let '(s2, m) := k w1 in finish_mid fuel (upd_sess w1 s2) m))).
Proof.
  intros fuel w k Hk. pose proof (RP_flush_outbound fuel w) as H. destruct (flush_outbound fuel w) as [w1 r]. cbn [fst] in H.
  destruct r; cbn [bindu fst]; try exact H.
  specialize (Hk w1). destruct (k w1) as [s2 m]. cbn [fst] in Hk.
  eapply RP_trans; [exact H|]. eapply RP_trans; [apply RP_upd_same; exact Hk|apply RP_finish_mid].
Qed.

Lemma subscribe_middle_reader : forall s t ps, s_reader (fst (subscribe_middle s t ps)) = s_reader s.
Proof. intros. unfold subscribe_middle. apply enqueue_middle_reader. Qed.
Lemma unsubscribe_middle_reader : forall s t ps, s_reader (fst (unsubscribe_middle s t ps)) = s_reader s.
Proof. intros. unfold unsubscribe_middle. apply enqueue_middle_reader. Qed.

Lemma RP_op_publish : forall fuel rq w, RP w (fst (op_publish fuel rq w)).
Proof.
  intros. unfold op_publish. destruct (negb (w_live w)); [apply RP_refl|].
  apply (RP_bind_mid fuel w (fun w1 => publish_middle (w_sess w1) (w_live w1) rq)). intros w1. apply publish_middle_reader.
Qed.
Lemma RP_op_subscribe : forall fuel t ps w, RP w (fst (op_subscribe fuel t ps w)).
Proof.
  intros. unfold op_subscribe. destruct (negb (w_live w)); [apply RP_refl|]. destruct t as [|x t]; [apply RP_refl|].
  destruct (negb _); [apply RP_refl|].
  apply (RP_bind_mid fuel w (fun w1 => subscribe_middle (w_sess w1) (x :: t) ps)). intros w1. apply subscribe_middle_reader.
Qed.
Lemma RP_op_unsubscribe : forall fuel t ps w, RP w (fst (op_unsubscribe fuel t ps w)).
Proof.
  intros. unfold op_unsubscribe. destruct (negb (w_live w)); [apply RP_refl|]. destruct t as [|x t]; [apply RP_refl|].
  destruct (negb _); [apply RP_refl|].
  apply (RP_bind_mid fuel w (fun w1 => unsubscribe_middle (w_sess w1) (x :: t) ps)). intros w1. apply unsubscribe_middle_reader.
Qed.

Lemma RP_op_disconnect : forall fuel d w, RP w (fst (op_disconnect fuel d w)).
Proof.
  intros. unfold op_disconnect. destruct (negb (w_live w)); [apply RP_refl|].
  destruct (disconnect_prepare (w_sess w) d) as [e|bs]; [apply RP_refl|].
  set (w0 := if has_partial (s_ob (w_sess w)) then upd_poison w true else w).
  assert (H0 : RP w w0) by (unfold w0; destruct (has_partial _); [apply RP_sess; reflexivity|apply RP_refl]).
  pose proof (RP_write_all fuel bs w0) as H. destruct (write_all fuel bs w0) as [w1 r]. cbn [fst] in H.
  assert (H1 : RP w w1) by (eapply RP_trans; [exact H0|exact H]).
  destruct r as [u|e| | |]; cbn [fst]; try (apply RP_mark_partial; exact H1); [|eapply RP_trans; [exact H1|apply RP_hd]].
  pose proof (RP_io_flush w1) as H2. destruct (io_flush w1) as [w2 fr]. cbn [fst] in H2.
  assert (H3 : RP w w2) by (eapply RP_trans; [exact H1|exact H2]).
  destruct fr; cbn [fst]; [eapply RP_trans; [exact H3|apply RP_hd]|eapply RP_trans; [exact H3|apply RP_hd]|exact H3].
Qed.

Lemma RP_direct_send : forall fuel bs w, RP w (fst (direct_send fuel bs w)).
Proof.
  intros. unfold direct_send. pose proof (RP_write_all fuel bs w) as H. destruct (write_all fuel bs w) as [w1 r]. cbn [fst] in H.
  destruct r; cbn [bindu fst]; try exact H.
  pose proof (RP_io_flush w1) as H2. destruct (io_flush w1) as [w2 fr]. cbn [fst] in H2.
  destruct fr; cbn [fst]; eapply RP_trans; [exact H|exact H2|exact H|exact H2|exact H|exact H2].
Qed.

Lemma sess_hd_RInv : forall w, RInv (rd (sess_hd w)).
Proof. intros. unfold rd, sess_hd, sess_handle_disconnect. cbn [w_sess upd_sess set_reader s_reader]. apply RInv_reset. Qed.

Theorem op_connect_RInv : forall fuel w, RInv (rd (fst (op_connect fuel w))).
Proof.
  intros fuel w. unfold op_connect.
  match goal with |- context [enc_connect ?a ?b] => destruct (enc_connect a b) as [off bs|e] end.
  2:{ cbn [fst]. unfold rd. cbn [w_sess upd_sess set_ob set_rt set_reader s_reader]. apply RInv_reset. }
  match goal with |- context [direct_send fuel bs ?x] => set (w2 := x) end.
  assert (R2 : RInv (rd w2)) by (unfold rd, w2; cbn [w_sess upd_sess set_ob set_rt set_reader s_reader]; apply RInv_reset).
  pose proof (RP_direct_send fuel bs w2 R2) as R3. destruct (direct_send fuel bs w2) as [w3 r]. cbn [fst] in R3.
  destruct r; cbn [bindu fst]; try exact R3.
  match goal with |- context [fill_packet_reader fuel None ?x] => set (w4 := x) end.
  assert (R4 : RInv (rd w4)) by (unfold rd, w4; cbn [w_sess upd_sess set_rt s_reader]; exact R3).
  destruct (fill_packet_reader fuel None w4) as [w5 fr] eqn:Ef.
  assert (F : (forall e0, fr <> FillErr e0) -> RInv (rd w5)) by (intros Hne; eapply fill_RInv; [exact R4|exact Ef|exact Hne]).
  destruct fr as [|e| | |]; cbn [fst]; try (apply F; discriminate); try apply sess_hd_RInv.
  destruct (take_packet (s_reader (w_sess w5))) as [[[r' n] p]|] eqn:Et; cbn [fst]; [|apply sess_hd_RInv].
  assert (Er : r' = reader_reset (s_reader (w_sess w5))).
  { unfold take_packet in Et. destruct (rplen (s_reader (w_sess w5))); inversion Et; reflexivity. }
  pose proof (connack_reader (set_reader (w_sess w5) r') p (w_now w5)) as Hr.
  destruct (connack_process (set_reader (w_sess w5) r') p (w_now w5)) as [s6 cr]. cbn [fst set_reader s_reader] in Hr.
  destruct cr as [resumed|e b]; [|destruct b]; cbn [fst]; try apply sess_hd_RInv;
    unfold rd; cbn [w_sess upd_envok upd_sess]; rewrite Hr, Er; apply RInv_reset.
Qed.

Lemma rd_feed : forall w d b, rd (feed w d b) = rd w.
Proof. intros. unfold feed. destruct b; reflexivity. Qed.

Theorem run_action_RInv : forall a w, RInv (rd w) -> RInv (rd (run_action a w)).
Proof.
  intros a w Hi.
  destruct a as [chunks|r|topics ps|topics ps|d| | | |delay bs|dt| | |mode|pid| ]; cbn [run_action];
    try (destruct (negb (w_conn w)); [exact Hi|]).
  - match goal with |- context [op_connect FUEL ?x] => pose proof (op_connect_RInv FUEL x) as H; destruct (op_connect FUEL x) as [w2 r] end.
    cbn [fst] in H. destruct r; exact H.
  - pose proof (RP_op_publish FUEL r w Hi) as H. destruct (op_publish FUEL r w) as [w1 o]. cbn [fst] in H.
    unfold record_op. destruct o as [[h|]| | | |]; exact H.
  - pose proof (RP_op_subscribe FUEL topics ps w Hi) as H. destruct (op_subscribe FUEL topics ps w) as [w1 o]. cbn [fst] in H.
    unfold record_op. destruct o as [[h|]| | | |]; exact H.
  - pose proof (RP_op_unsubscribe FUEL topics ps w Hi) as H. destruct (op_unsubscribe FUEL topics ps w) as [w1 o]. cbn [fst] in H.
    unfold record_op. destruct o as [[h|]| | | |]; exact H.
  - pose proof (RP_op_disconnect FUEL d w Hi) as H. destruct (op_disconnect FUEL d w) as [w1 o]. exact H.
  - pose proof (RP_op_drive FUEL w Hi) as H. destruct (op_drive FUEL w) as [w1 o]. exact H.
  - pose proof (RP_op_poll FUEL w Hi) as H. destruct (op_poll FUEL w) as [w1 o]. exact H.
  - pose proof (RP_op_recv FUEL w Hi) as H. destruct (op_recv FUEL w) as [w1 o]. exact H.
  - unfold rd. cbn [w_sess upd_log]. fold (rd (feed w delay bs)). now rewrite rd_feed.
  - exact Hi.
  - exact Hi.
  - apply RP_hd. exact Hi.
  - exact Hi.
  - destruct (w_conn w); exact Hi.
  - exact Hi.
Qed.

Theorem reachable_RInv : forall c, RInv (rd (run_case c)).
Proof.
  intros c. unfold run_case.
  assert (H0 : RInv (rd (init_world c))) by (unfold rd, init_world, session_new; cbn; split; [constructor|intros _; unfold read_bytes; cbn; lia]).
  revert H0. generalize (init_world c). induction (c_prog c) as [|a t IH]; intros w Hw; cbn [fold_left]; [exact Hw|].
  apply IH. unfold step_action. destruct (halted w); [exact Hw|].
  match goal with |- context [run_action a ?x] => pose proof (run_action_RInv a x Hw) as H; destruct (halted (run_action a x)); exact H end.
Qed.

(* ---------- the statements ---------- *)
(* the packet handed to the session is the next frame of the inbound stream: its length is announced by the stream's
   own header, its bytes are the first `pl` bytes of the stream — whatever reads delivered them *)
Theorem handled_packet_is_next_frame : forall w, RInv (rd w) -> packet_available (rd w) = true ->
  exists pl, rplen (rd w) = Some pl /\ pl <= lenN (inbound_stream w) /\
    rdata (rd w) = takeN pl (inbound_stream w) /\
    take_packet (rd w) = Some (reader_reset (rd w), pl, from_buffer (takeN pl (inbound_stream w))).
Proof.
  intros w Hi Ha. destruct (available_exact _ Hi Ha) as [pl [Ep El]]. exists pl. split; [exact Ep|].
  unfold inbound_stream. fold (rd w). unfold read_bytes in El.
  assert (Et : takeN pl (rdata (rd w) ++ inq_bytes (w_inq w)) = rdata (rd w)) by (rewrite <- El; apply takeN_app_exact).
  split; [rewrite lenN_app; lia|]. split; [now rewrite Et|].
  unfold take_packet. rewrite Ep, Et. f_equal. f_equal. f_equal. rewrite <- El. now rewrite takeN_all by lia.
Qed.

(* handling it consumes exactly those bytes: nothing of the stream is skipped or read twice *)
Theorem process_consumes_frame : forall w pl, RInv (rd w) -> packet_available (rd w) = true -> rplen (rd w) = Some pl ->
  inbound_stream (fst (process_received w)) = dropN pl (inbound_stream w).
Proof.
  intros w pl Hi Ha Ep. destruct (available_exact _ Hi Ha) as [pl' [Ep' El]]. rewrite Ep in Ep'. injection Ep' as Epp. rewrite <- Epp in El. clear Epp pl'.
  assert (Hd : dropN pl (inbound_stream w) = inq_bytes (w_inq w)).
  { unfold inbound_stream. fold (rd w). unfold read_bytes in El. rewrite <- El. apply dropN_app_exact. }
  rewrite Hd. unfold process_received. fold (rd w). rewrite Ha. cbn [negb]. unfold take_packet. rewrite Ep.
  destruct (from_buffer (takeN pl (rdata (rd w)))) as [p|].
  - pose proof (handle_packet_reader (set_reader (w_sess w) (reader_reset (rd w))) p) as Hr.
    destruct (handle_packet (set_reader (w_sess w) (reader_reset (rd w))) p) as [s2 hr]. cbn [fst set_reader s_reader] in Hr.
    destruct hr as [[|]|e]; [| |destruct e]; cbn [fst]; unfold inbound_stream, w_hd, sess_handle_disconnect;
      cbn [w_sess w_inq upd_drained upd_envok upd_sess upd_live set_reader set_rt set_ob s_reader reader_reset rdata]; rewrite ?Hr; reflexivity.
  - cbn [fst]. unfold inbound_stream, w_hd, sess_handle_disconnect.
    cbn [w_sess w_inq upd_sess upd_live set_reader set_rt set_ob s_reader reader_reset rdata]. reflexivity.
Qed.

(* and the length itself is read off the stream's own header, so the framing is a function of the stream alone *)
Theorem frame_length_from_stream : forall w pl, RInv (rd w) -> rplen (rd w) = Some pl ->
  probe_len (takeN 4 (dropN 1 (inbound_stream w))) = Some pl.
Proof.
  intros w pl [Hok _] Ep. unfold ROK in Hok. rewrite Ep in Hok. destruct Hok as [_ Hp].
  unfold inbound_stream. fold (rd w). now apply probe_len_ext.
Qed.

(* ---------- non-vacuity: the same QoS 2 PUBLISH read whole and read one byte at a time ---------- *)
From Minimq Require Import ConnectOk Drain.
Definition ex_q2_frag : world :=
  run_case {| c_cfg := ex_cfg;
              c_prog := [ASetBroker 2; AConnect []; AFeed 0 [52; 6; 0; 1; 116; 0; 7; 0]; APoll; APoll];
              c_script := [(0, 1000); (0, 1000); (0, 1000); (0, 1000); (0, 1000);
                           (0, 1); (0, 1); (0, 1); (0, 1); (0, 1); (0, 1); (0, 1); (0, 1); (0, 1); (0, 1); (0, 1); (0, 1)] |}.

Example framing_example :
  s_srv (w_sess ex_q2_frag) = s_srv (w_sess ex_q2) /\ s_srv (w_sess ex_q2) = [7] /\
  w_wire ex_q2_frag = w_wire ex_q2 /\ w_live ex_q2_frag = true /\ rd ex_q2_frag = rd ex_q2.
Proof. vm_compute. repeat split; reflexivity. Qed.
