(* Pings.v — the drain on EVERY transport, slow writes included (script kinds 4 / 5: time passes inside write()).
   When the clock moves inside the drain a PINGREQ can fall due in the middle of it — even in the middle of a packet.  It joins
   the control queue; the entry in progress is finished first; at most one PINGREQ joins (none is queued while one is queued or
   outstanding).  So what a completed drain has put on the wire is `owed` with at most one PINGREQ inserted:
       wire' = wire ++ owed        or        owed = A ++ B  and  wire' = wire ++ A ++ [0xC0; 0x00] ++ B
   (that the insertion point is a packet boundary is C01's theorem, which holds for every script). *)
From Coq Require Import List NArith Lia Bool PeanoNat.
From Coq Require Import ZifyBool ZifyN ZifyNat.
From Minimq Require Import Bytes Varint Utf8 Props Ser De Reader Spec Arena Core Show Machine Parse Run Util Lts Refine
  ArenaLemmas ArenaOps Inv Quota Status Persist Frames Limits Reach WireInv Chunking Wire Measure Terminate KeepAlive ConnectOk
  PingQuiet Healthy Owed Sends.
Import ListNotations.
Local Open Scope N_scope.

(* ---------------------------------------------------------------- one engine step, in prefix form *)
Lemma flush_current_prefix : forall p now w w' r,
  owed (s_ob (fst (complete_flush (w_sess w) p now))) = owed (s_ob (w_sess w)) ->
  flush_current p now w = (w', r) -> not_failed r -> w_wire w' = w_wire w /\ owed (s_ob (w_sess w')) = owed (s_ob (w_sess w)).
Proof.
  intros p now w w' r Ho H Hr. unfold flush_current in H. destruct (w_live w); cbn [negb] in H; [|inversion H; subst; contradiction].
  destruct (io_flush w) as [w1 fr] eqn:Ef. destruct (io_flush_ghost _ _ _ Ef) as [Hs [Hw [Hlv Hpo]]].
  destruct fr.
  - destruct (complete_flush (w_sess w1) p now) as [s3 f3] eqn:Ec.
    assert (Es3 : s3 = fst (complete_flush (w_sess w) p now)) by (rewrite <- Hs, Ec; reflexivity).
    assert (Hw' : w' = upd_sess w1 s3) by (destruct f3; now inversion H). subst w'.
    cbn [w_wire w_sess upd_sess]. rewrite Hw, Es3, Ho. split; reflexivity.
  - inversion H; subst. contradiction.
  - inversion H; subst. rewrite Hw, Hs. split; reflexivity.
Qed.

Theorem step_prefix : forall st now w w' r,
  WInv (w_sess w) -> next_step (s_ob (w_sess w)) = Some st ->
  perform_outbound_step st now w = (w', r) -> not_failed r ->
  exists P, w_wire w' = w_wire w ++ P /\ owed (s_ob (w_sess w)) = P ++ owed (s_ob (w_sess w')).
Proof.
  intros st now w w' r I Hn H Hr. unfold perform_outbound_step in H.
  destruct (prepare_step (w_sess w) st) as [p bs written len|p| |e] eqn:Ep.
  - destruct (w_live w) eqn:Hl; cbn [negb] in H; [|inversion H; subst; contradiction].
    destruct (io_write (dropN written bs) w) as [w1 r0] eqn:Ew.
    destruct (io_write_ghost _ _ _ _ Ew) as [Hs [Hlv [Hpo Hwire]]].
    destruct r0 as [n| |].
    + destruct Hwire as [Hwire Hle]. destruct (N.eqb_spec n 0) as [En|En]; [inversion H; subst; contradiction|].
      destruct (engine_tail (w_sess w) st p bs written len n I Hn Ep) as [_ [Hlen _]].
      rewrite lenN_dropN, Hlen in Hle.
      destruct (engine_owed (w_sess w) st p bs written len n now I Hn Ep En Hle) as [E1 E2]. cbv zeta in E1, E2.
      destruct (set_written (w_sess w1) p (written + n) len) as [s2 found] eqn:Es.
      assert (Es2 : s2 = fst (set_written (w_sess w) p (written + n) len)) by (rewrite <- Hs, Es; reflexivity).
      assert (T2 : w_wire (upd_sess w1 s2) = w_wire w ++ takeN n (dropN written bs) /\
                   owed (s_ob (w_sess w)) = takeN n (dropN written bs) ++ owed (s_ob (w_sess (upd_sess w1 s2)))).
      { cbn [w_wire w_sess upd_sess]. rewrite Es2. split; [exact Hwire|exact E1]. }
      destruct T2 as [T2a T2b].
      destruct (negb found); [inversion H; subst; eexists; split; [exact T2a|exact T2b]|].
      destruct (N.ltb_spec (written + n) len) as [L|L]; [inversion H; subst; eexists; split; [exact T2a|exact T2b]|].
      destruct (flush_current_prefix p now (upd_sess w1 s2) w' r) as [F1 F2]; [|exact H|exact Hr|].
      { cbn [w_sess upd_sess]. rewrite Es2. apply E2. exact L. }
      exists (takeN n (dropN written bs)). split; [rewrite F1; exact T2a|rewrite F2; exact T2b].
    + inversion H; subst. contradiction.
    + inversion H; subst. exists []. rewrite Hwire, Hs, app_nil_r. split; reflexivity.
  - destruct (flush_current_prefix p now w w' r) as [F1 F2]; [eapply engine_flush_owed; eassumption|exact H|exact Hr|].
    exists []. rewrite F1, F2, app_nil_r. split; reflexivity.
  - inversion H; subst. exists []. rewrite app_nil_r. split; reflexivity.
  - inversion H; subst. contradiction.
Qed.

(* ---------------------------------------------------------------- where a newly queued control packet stands in `owed` *)
Lemma owed_queue_control : forall o a o', queue_control o a = Some o' ->
  exists A B, owed o = A ++ B /\ owed o' = A ++ ctl_bytes a ++ B.
Proof.
  intros o a o' H. unfold queue_control in H. destruct (_ <=? _); [discriminate|]. inversion H; subst o'. clear H.
  exists (part_of o ++ Fq ce_st cbytes (ob_ctl o)), (Fq le_st lbytes (ob_rel o) ++ Fq re_st (ret_bytes (ob_buf o)) (ob_ret o)).
  unfold owed, part_of, fresh_of. cbn [ob_ctl ob_rel ob_ret ob_buf]. rewrite Pq_app, Fq_app.
  change (Pq ce_st cbytes [{| ce_act := a; ce_st := SWrite 0 |}]) with (@nil N).
  change (Fq ce_st cbytes [{| ce_act := a; ce_st := SWrite 0 |}]) with (ctl_bytes a ++ []).
  rewrite !app_nil_r, <- !app_assoc. split; reflexivity.
Qed.

(* ---------------------------------------------------------------- no further PINGREQ: one is queued or outstanding *)
Definition NoMorePing (s : session) : Prop :=
  rt_ping_timeout (s_rt s) <> None \/ has_pending_pingreq (s_ob s) = true.

Lemma nmp_sq : forall s now, NoMorePing s -> should_queue_pingreq s now = false.
Proof.
  intros s now [H|H]; unfold should_queue_pingreq.
  - destruct (rt_ping_timeout (s_rt s)); [reflexivity|contradiction].
  - rewrite H. cbn [negb]. now rewrite andb_false_r.
Qed.

Lemma set_written_pending : forall s st p bs w len x,
  WInv s -> next_step (s_ob s) = Some st -> prepare_step s st = PWrite p bs w len ->
  has_pending_pingreq (s_ob (fst (set_written s p x len))) = has_pending_pingreq (s_ob s).
Proof.
  intros s st p bs w len x [I [F [Hs Hc]]] Hn Hp.
  destruct (engine_resumes_at_offset s st p bs w len Hp) as [Hst Hkey].
  unfold set_written. destruct st as [a s0|pid rc s0|pid off l0 s0]; cbn [step_state] in Hst; subst s0.
  - subst p. destruct (ctl_step_head _ _ _ Hc Hn) as [t Et].
    unfold set_control_written. rewrite Et. cbn [update_first ce_act]. rewrite caction_eqb_refl. cbn [fst set_ob s_ob with_ctl].
    unfold has_pending_pingreq. cbn [ob_ctl]. rewrite Et. cbn [existsb ce_act ce_st]. f_equal.
    destruct a; try reflexivity. unfold set_written_state. destruct (_ <=? _); reflexivity.
  - subst p. unfold set_release_written. destruct (update_first _ _ _) as [l b]. reflexivity.
  - destruct Hkey as [-> _]. unfold set_retained_written. destruct (update_first _ _ _) as [l b]. reflexivity.
Qed.

Definition is_pending_ping (e : centry) : bool :=
  match ce_act e with CPing => negb (sstate_eqb (ce_st e) SSent) | _ => false end.

Lemma pending_survives_flush : forall a l, a <> CPing -> existsb is_pending_ping l = true ->
  existsb is_pending_ping
    (filter (fun e => negb (sstate_eqb (ce_st e) SSent))
       (fst (update_first (fun e => caction_eqb (ce_act e) a) (fun e => {| ce_act := ce_act e; ce_st := SSent |}) l))) = true.
Proof.
  intros a l Ha. induction l as [|x t IH]; intros H; [discriminate|]. cbn [existsb] in H. cbn [update_first].
  destruct (caction_eqb (ce_act x) a) eqn:Ex.
  - (* x is the entry being flushed: not a ping *)
    assert (Hx : is_pending_ping x = false).
    { unfold is_pending_ping. destruct (ce_act x) eqn:Ea; try reflexivity. destruct a; cbn in Ex; try discriminate. contradiction. }
    rewrite Hx in H. cbn [orb] in H. cbn [fst filter ce_st sstate_eqb negb].
    clear IH. induction t as [|y t IH]; [discriminate|]. cbn [existsb filter] in *.
    destruct (is_pending_ping y) eqn:Ey.
    + assert (Hk : negb (sstate_eqb (ce_st y) SSent) = true).
      { unfold is_pending_ping in Ey. destruct (ce_act y); try discriminate. exact Ey. }
      rewrite Hk. cbn [existsb]. rewrite Ey. reflexivity.
    + cbn [orb] in H. destruct (negb (sstate_eqb (ce_st y) SSent)); [cbn [existsb]; rewrite Ey; cbn [orb]|]; apply IH; exact H.
  - destruct (update_first _ _ t) as [t' b] eqn:Eu. cbn [fst] in *. cbn [filter].
    destruct (is_pending_ping x) eqn:Ey.
    + assert (Hk : negb (sstate_eqb (ce_st x) SSent) = true).
      { unfold is_pending_ping in Ey. destruct (ce_act x); try discriminate. exact Ey. }
      rewrite Hk. cbn [existsb]. rewrite Ey. reflexivity.
    + cbn [orb] in H. destruct (negb (sstate_eqb (ce_st x) SSent)); [cbn [existsb]; rewrite Ey; cbn [orb]|]; apply IH; exact H.
Qed.

Lemma flush_control_pending : forall o a, a <> CPing -> has_pending_pingreq o = true ->
  has_pending_pingreq (fst (flush_control o a)) = true.
Proof.
  intros o a Ha H. unfold flush_control. pose proof (pending_survives_flush a (ob_ctl o) Ha H) as G.
  destruct (update_first _ _ (ob_ctl o)) as [l0 b0]. cbn [fst with_ctl] in *. exact G.
Qed.

Lemma complete_flush_nmp : forall s k now, NoMorePing s -> NoMorePing (fst (complete_flush s k now)).
Proof.
  intros s k now H. unfold complete_flush.
  destruct k as [a|pid|pid].
  - destruct (flush_control (s_ob s) a) as [o b] eqn:E.
    assert (Eo : o = fst (flush_control (s_ob s) a)) by now rewrite E.
    cbn [fst]. destruct a as [pid rc|pid rc|pid rc|];
      try (destruct H as [H|H];
           [left; cbn [set_rt s_rt note_outbound_activity rt_with_timers rt_ping_timeout]; exact H
           |right; cbn [set_rt set_ob s_ob]; rewrite Eo; apply flush_control_pending; [discriminate|exact H]]).
    left. cbn [set_rt s_rt note_outbound_activity rt_with_timers rt_ping_timeout]. discriminate.
  - destruct H as [H|H].
    + left. destruct (flush_release _ _) as [o b]. cbn [fst set_rt s_rt note_outbound_activity rt_with_timers rt_ping_timeout]. exact H.
    + right. unfold flush_release. destruct (update_first _ _ _) as [l b]. cbn [fst set_rt set_ob s_ob with_rel ob_ctl]. exact H.
  - destruct H as [H|H].
    + left. destruct (flush_retained _ _) as [o b]. cbn [fst set_rt s_rt note_outbound_activity rt_with_timers rt_ping_timeout]. exact H.
    + right. unfold flush_retained. destruct (update_first _ _ _) as [l b]. cbn [fst set_rt set_ob s_ob with_ret ob_ctl]. exact H.
Qed.

Lemma flush_current_nmp : forall p now w w' b, NoMorePing (w_sess w) -> flush_current p now w = (w', ODone b) -> NoMorePing (w_sess w').
Proof.
  intros p now w w' b Hn H. unfold flush_current in H. destruct (w_live w); cbn [negb] in H; [|discriminate].
  destruct (io_flush w) as [w1 fr] eqn:Ef. destruct (io_flush_ghost _ _ _ Ef) as [Hs _].
  destruct fr; [|discriminate|discriminate].
  destruct (complete_flush (w_sess w1) p now) as [s3 f3] eqn:Ec.
  assert (Es3 : s3 = fst (complete_flush (w_sess w) p now)) by (rewrite <- Hs, Ec; reflexivity).
  destruct f3; [|discriminate]. inversion H; subst w' b. cbn [w_sess upd_sess]. rewrite Es3. now apply complete_flush_nmp.
Qed.

Lemma step_nmp : forall st now w w' b, WInv (w_sess w) -> next_step (s_ob (w_sess w)) = Some st -> NoMorePing (w_sess w) ->
  perform_outbound_step st now w = (w', ODone b) -> NoMorePing (w_sess w').
Proof.
  intros st now w w' b I Hn Hp H. unfold perform_outbound_step in H.
  destruct (prepare_step (w_sess w) st) as [p bs written len|p| |e] eqn:Ep.
  - destruct (w_live w) eqn:Hl; cbn [negb] in H; [|discriminate].
    destruct (io_write (dropN written bs) w) as [w1 r0] eqn:Ew.
    destruct (io_write_ghost _ _ _ _ Ew) as [Hs _].
    destruct r0 as [n| |]; [|discriminate|discriminate].
    destruct (N.eqb n 0); [discriminate|].
    destruct (set_written (w_sess w1) p (written + n) len) as [s2 found] eqn:Es.
    assert (Es2 : s2 = fst (set_written (w_sess w) p (written + n) len)) by (rewrite <- Hs, Es; reflexivity).
    assert (N2 : NoMorePing s2).
    { destruct (set_written_fields (w_sess w) p (written + n) len) as [Rt _]. rewrite <- Es2 in Rt.
      destruct Hp as [Hp|Hp]; [left; rewrite Rt; exact Hp|right]. rewrite Es2, (set_written_pending _ _ _ _ _ _ _ I Hn Ep). exact Hp. }
    destruct (negb found); [discriminate|].
    destruct (written + n <? len); [inversion H; subst; exact N2|].
    eapply (flush_current_nmp p now (upd_sess w1 s2)); [exact N2|exact H].
  - eapply flush_current_nmp; eassumption.
  - inversion H; subst. exact Hp.
  - discriminate.
Qed.

(* once a PINGREQ is queued or outstanding the drain queues no other: it writes exactly `owed`, whatever time the writes take *)
Theorem flush_outbound_wire_nmp_full : forall fuel w w',
  WInv (w_sess w) -> NoMorePing (w_sess w) -> flush_outbound fuel w = (w', ODone tt) ->
  w_wire w' = w_wire w ++ owed (s_ob (w_sess w)) /\ next_step (s_ob (w_sess w')) = None /\
  NoMorePing (w_sess w') /\ WInv (w_sess w').
Proof.
  induction fuel as [|f IH]; intros w w' I Hp H; [discriminate|]. cbn [flush_outbound] in H.
  unfold maybe_queue_pingreq in H. rewrite (nmp_sq _ (w_now w) Hp), upd_sess_id in H.
  destruct (next_step (s_ob (w_sess w))) as [st|] eqn:En.
  - destruct (perform_outbound_step st (w_now w) w) as [w2 r] eqn:E2.
    destruct r as [b|e| | |]; try discriminate.
    assert (I2 : WInv (w_sess w2)).
    { pose proof (perform_outbound_step_wq st (w_now w) w En) as Hwq. rewrite E2 in Hwq. eapply WInv_wq; [exact Hwq|exact I]. }
    destruct (step_prefix _ _ _ _ _ I En E2 Logic.I) as [P [Hw Ho]].
    destruct (IH w2 w' I2 (step_nmp _ _ _ _ _ I En Hp E2) H) as [Hw' [Hnone [N' I']]]. split; [|split; [exact Hnone|split; assumption]].
    rewrite Hw', Hw, Ho, <- app_assoc. reflexivity.
  - inversion H; subst w'. split; [|split; [exact En|split; assumption]]. rewrite (owed_no_step _ En), app_nil_r. reflexivity.
Qed.

Theorem flush_outbound_wire_nmp : forall fuel w w',
  WInv (w_sess w) -> NoMorePing (w_sess w) -> flush_outbound fuel w = (w', ODone tt) ->
  w_wire w' = w_wire w ++ owed (s_ob (w_sess w)) /\ next_step (s_ob (w_sess w')) = None.
Proof. intros fuel w w' I Hp H. destruct (flush_outbound_wire_nmp_full _ _ _ I Hp H) as [A [B _]]. split; assumption. Qed.

(* ---------------------------------------------------------------- the drain on every transport *)
Definition PINGREQ_BYTES : bytes := [192; 0].

Theorem flush_outbound_wire_every_full : forall fuel w w',
  WInv (w_sess w) -> flush_outbound fuel w = (w', ODone tt) ->
  (w_wire w' = w_wire w ++ owed (s_ob (w_sess w)) \/
   exists A B, owed (s_ob (w_sess w)) = A ++ B /\ w_wire w' = w_wire w ++ A ++ PINGREQ_BYTES ++ B /\ NoMorePing (w_sess w')) /\
  next_step (s_ob (w_sess w')) = None /\ WInv (w_sess w') /\ (NoMorePing (w_sess w) -> NoMorePing (w_sess w')).
Proof.
  induction fuel as [|f IH]; intros w w' I H; [discriminate|].
  destruct (should_queue_pingreq (w_sess w) (w_now w)) eqn:Esq.
  - (* a PINGREQ joins the queue now; from here on none other does *)
    assert (Hq : exists s1, maybe_queue_pingreq (w_sess w) (w_now w) = (s1, None) /\
                 exists A B, owed (s_ob (w_sess w)) = A ++ B /\ owed (s_ob s1) = A ++ PINGREQ_BYTES ++ B /\ NoMorePing s1 /\ WInv s1).
    { cbn [flush_outbound] in H. destruct (maybe_queue_pingreq (w_sess w) (w_now w)) as [s1 e] eqn:Eq.
      destruct e; [discriminate|]. exists s1. split; [reflexivity|].
      assert (I1 : WInv s1).
      { replace s1 with (fst (maybe_queue_pingreq (w_sess w) (w_now w))) by now rewrite Eq. eapply WInv_step; [apply SS_ping|exact I]. }
      unfold maybe_queue_pingreq in Eq. rewrite Esq in Eq. destruct (check_control_size _ _); [discriminate|].
      destruct (queue_control (s_ob (w_sess w)) CPing) as [o|] eqn:Eo; [|discriminate]. inversion Eq; subst s1.
      destruct (owed_queue_control _ _ _ Eo) as [A [B [E1 E2]]]. exists A, B. split; [exact E1|]. split; [exact E2|]. split; [|exact I1].
      right. cbn [s_ob set_ob]. unfold queue_control in Eo. destruct (_ <=? _); [discriminate|]. inversion Eo; subst o.
      unfold has_pending_pingreq. cbn [ob_ctl]. apply existsb_app_true. reflexivity. }
    destruct Hq as [s1 [Eq [A [B [E1 [E2 [N1 I1]]]]]]].
    assert (H1 : flush_outbound (S f) (upd_sess w s1) = (w', ODone tt)).
    { cbn [flush_outbound] in H |- *. rewrite Eq in H. cbn [w_sess w_now upd_sess].
      unfold maybe_queue_pingreq at 1. rewrite (nmp_sq _ (w_now w) N1).
      replace (upd_sess (upd_sess w s1) s1) with (upd_sess w s1) by (destruct w; reflexivity). exact H. }
    destruct (flush_outbound_wire_nmp_full (S f) (upd_sess w s1) w' I1 N1 H1) as [Hw [Hn [N' I']]]. split; [|split; [exact Hn|split; [exact I'|intros _; exact N']]].
    right. exists A, B. split; [exact E1|]. split; [|exact N']. rewrite Hw. cbn [w_wire w_sess upd_sess]. rewrite E2. reflexivity.
  - (* no PINGREQ now: one step, then the same question again *)
    cbn [flush_outbound] in H. unfold maybe_queue_pingreq in H. rewrite Esq, upd_sess_id in H.
    destruct (next_step (s_ob (w_sess w))) as [st|] eqn:En.
    + destruct (perform_outbound_step st (w_now w) w) as [w2 r] eqn:E2.
      destruct r as [b|e| | |]; try discriminate.
      assert (I2 : WInv (w_sess w2)).
      { pose proof (perform_outbound_step_wq st (w_now w) w En) as Hwq. rewrite E2 in Hwq. eapply WInv_wq; [exact Hwq|exact I]. }
      destruct (step_prefix _ _ _ _ _ I En E2 Logic.I) as [P [Hw Ho]].
      assert (Nstep : NoMorePing (w_sess w) -> NoMorePing (w_sess w2)) by (intros Hp; exact (step_nmp _ _ _ _ _ I En Hp E2)).
      destruct (IH w2 w' I2 H) as [[Hw'|[A [B [E1 [Hw' N']]]]] [Hnone [I' Nk]]]; (split; [|split; [exact Hnone|split; [exact I'|intros Hp; exact (Nk (Nstep Hp))]]]).
      * left. rewrite Hw', Hw, Ho, <- app_assoc. reflexivity.
      * right. exists (P ++ A), B. split; [rewrite Ho, E1, app_assoc; reflexivity|]. split; [|exact N']. rewrite Hw', Hw, <- !app_assoc. reflexivity.
    + inversion H; subst w'. split; [|split; [exact En|split; [exact I|intros Hp; exact Hp]]]. left. rewrite (owed_no_step _ En), app_nil_r. reflexivity.
Qed.

Theorem flush_outbound_wire_every_transport : forall fuel w w',
  WInv (w_sess w) -> flush_outbound fuel w = (w', ODone tt) ->
  (w_wire w' = w_wire w ++ owed (s_ob (w_sess w)) \/
   exists A B, owed (s_ob (w_sess w)) = A ++ B /\ w_wire w' = w_wire w ++ A ++ PINGREQ_BYTES ++ B) /\
  next_step (s_ob (w_sess w')) = None.
Proof.
  intros fuel w w' I H. destruct (flush_outbound_wire_every_full _ _ _ I H) as [[Hw|[A [B [E1 [Hw _]]]]] [Hn _]]; (split; [|exact Hn]).
  - left. exact Hw.
  - right. exists A, B. split; assumption.
Qed.


Lemma pframe_nmp : forall s s', pframe s s' -> NoMorePing s -> NoMorePing s'.
Proof.
  intros s s' [H1 [_ H3]] [H|H]; [left; rewrite H1; exact H|right]. unfold has_pending_pingreq in *. rewrite H3. exact H.
Qed.

(* ---------------------------------------------------------------- the operations on every transport *)
(* `ins X Y`: Y is X, or X with one PINGREQ inserted *)
Definition ins (X Y : bytes) : Prop := Y = X \/ exists A B, X = A ++ B /\ Y = A ++ PINGREQ_BYTES ++ B.

Lemma ins_app_l : forall P X Y, ins X Y -> ins (P ++ X) (P ++ Y).
Proof.
  intros P X Y [->|[A [B [-> ->]]]]; [left; reflexivity|right]. exists (P ++ A), B. rewrite <- !app_assoc. split; reflexivity.
Qed.
Lemma ins_app_r : forall S X Y, ins X Y -> ins (X ++ S) (Y ++ S).
Proof.
  intros S X Y [->|[A [B [-> ->]]]]; [left; reflexivity|right]. exists A, (B ++ S). rewrite <- !app_assoc. split; reflexivity.
Qed.

(* the packet has been retained behind a drained queue; the second drain runs *)
Lemma finish_retained_every : forall fuel w1 s2 bs o w',
  WInv (w_sess w1) -> next_step (s_ob (w_sess w1)) = None ->
  sstep (w_sess w1) LOther s2 -> owed (s_ob s2) = owed (s_ob (w_sess w1)) ++ bs -> pframe (w_sess w1) s2 ->
  finish_mid fuel (upd_sess w1 s2) (MRetained o) = (w', ODone (Some o)) ->
  (exists Y, ins bs Y /\ w_wire w' = w_wire w1 ++ Y) /\ (NoMorePing (w_sess w1) -> w_wire w' = w_wire w1 ++ bs) /\
  next_step (s_ob (w_sess w')) = None.
Proof.
  intros fuel w1 s2 bs o w' I Hn Hstep Ho Hk H. cbn [finish_mid] in H. unfold bindu in H.
  destruct (flush_outbound fuel (upd_sess w1 s2)) as [w3 o3] eqn:Ef. destruct o3 as [u|e| | |]; try discriminate. inversion H; subst w'. clear H.
  destruct u.
  assert (I2 : WInv (w_sess (upd_sess w1 s2))) by (cbn [w_sess upd_sess]; eapply WInv_step; eassumption).
  assert (Eo : owed (s_ob (w_sess (upd_sess w1 s2))) = bs) by (cbn [w_sess upd_sess]; rewrite Ho, (owed_no_step _ Hn); reflexivity).
  destruct (flush_outbound_wire_every_full _ _ _ I2 Ef) as [Hd [Hn3 _]].
  split; [|split; [|exact Hn3]].
  - destruct Hd as [Hw|[A [B [E1 [Hw _]]]]].
    + exists bs. split; [left; reflexivity|]. rewrite Hw, Eo. reflexivity.
    + exists (A ++ PINGREQ_BYTES ++ B). split; [right; exists A, B; split; [rewrite <- Eo; exact E1|reflexivity]|]. rewrite Hw. reflexivity.
  - intros Hp. assert (N2 : NoMorePing (w_sess (upd_sess w1 s2))) by (cbn [w_sess upd_sess]; exact (pframe_nmp _ _ Hk Hp)).
    destruct (flush_outbound_wire_nmp _ _ _ I2 N2 Ef) as [Hw _]. rewrite Hw, Eo. reflexivity.
Qed.

Theorem op_publish_wire_every_transport : forall fuel r w w' op,
  WInv (w_sess w) -> op_publish fuel r w = (w', ODone (Some op)) ->
  exists w1 bs cap off Y,
    flush_outbound fuel w = (w1, ODone tt) /\
    enc_publish cap (pub_request r (effective_qos (w_sess w1) (pr_qos r)) (op_pid op)) = SOk off bs /\
    ins (owed (s_ob (w_sess w)) ++ bs) Y /\ w_wire w' = w_wire w ++ Y /\ next_step (s_ob (w_sess w')) = None.
Proof.
  intros fuel r w w' op I H. unfold op_publish in H. destruct (negb (w_live w)); [discriminate|]. unfold bindu in H.
  destruct (flush_outbound fuel w) as [w1 o1] eqn:E1. destruct o1 as [u|e| | |]; try discriminate. destruct u.
  destruct (flush_outbound_wire_every_full _ _ _ I E1) as [Hd1 [Hn1 [I1 _]]].
  destruct (publish_middle (w_sess w1) (w_live w1) r) as [s2 m] eqn:Em.
  destruct m as [e|o|bs0].
  - cbn [finish_mid] in H. discriminate.
  - assert (Eo : o = op).
    { cbn [finish_mid] in H. unfold bindu in H. destruct (flush_outbound fuel (upd_sess w1 s2)) as [w3 o3]. destruct o3; try discriminate. now inversion H. }
    subst o. destruct (publish_middle_owed _ _ _ _ _ (proj1 I1) Em) as [bs [cap [off [Hb [Ho Hk]]]]].
    assert (Hstep : sstep (w_sess w1) LOther s2).
    { replace s2 with (fst (publish_middle (w_sess w1) (w_live w1) r)) by now rewrite Em. apply SS_publish. }
    destruct (finish_retained_every fuel w1 s2 bs op w' I1 Hn1 Hstep Ho Hk H) as [[Y2 [Hi2 Hw2]] [Hnmp Hn]].
    destruct Hd1 as [Hw1|[A [B [Eab [Hw1 N1]]]]].
    + exists w1, bs, cap, off, (owed (s_ob (w_sess w)) ++ Y2). split; [reflexivity|]. split; [exact Hb|].
      split; [apply ins_app_l; exact Hi2|]. split; [|exact Hn]. rewrite Hw2, Hw1, <- app_assoc. reflexivity.
    + exists w1, bs, cap, off, ((A ++ PINGREQ_BYTES ++ B) ++ bs). split; [reflexivity|]. split; [exact Hb|].
      split; [apply ins_app_r; right; exists A, B; split; [exact Eab|reflexivity]|]. split; [|exact Hn].
      rewrite (Hnmp N1), Hw1, <- !app_assoc. reflexivity.
  - cbn [finish_mid] in H. destruct (write_all fuel bs0 (upd_sess w1 s2)) as [w3 r3]. destruct r3 as [u|e| | |]; try discriminate.
    + destruct (io_flush w3) as [w4 fr]. destruct fr; discriminate.
    + destruct e; discriminate.
Qed.

Theorem op_subscribe_wire_every_transport : forall fuel topics ps w w' op,
  WInv (w_sess w) -> op_subscribe fuel topics ps w = (w', ODone (Some op)) ->
  exists bs cap off Y,
    enc_subscribe cap {| sq_pid := op_pid op; sq_props := ps; sq_topics := topics |} = SOk off bs /\
    ins (owed (s_ob (w_sess w)) ++ bs) Y /\ w_wire w' = w_wire w ++ Y /\ next_step (s_ob (w_sess w')) = None.
Proof.
  intros fuel topics ps w w' op I H. unfold op_subscribe in H. destruct (negb (w_live w)); [discriminate|].
  destruct topics as [|t0 ts]; [discriminate|]. set (topics := t0 :: ts) in *.
  destruct (negb (props_valid_for (PSlice ps) CtxSubscribe)); [discriminate|]. unfold bindu in H.
  destruct (flush_outbound fuel w) as [w1 o1] eqn:E1. destruct o1 as [u|e| | |]; try discriminate. destruct u.
  destruct (flush_outbound_wire_every_full _ _ _ I E1) as [Hd1 [Hn1 [I1 _]]].
  destruct (subscribe_middle (w_sess w1) topics ps) as [s2 m] eqn:Em.
  destruct m as [e|o|bs0]; [cbn [finish_mid] in H; discriminate| |].
  - assert (Eo : o = op).
    { cbn [finish_mid] in H. unfold bindu in H. destruct (flush_outbound fuel (upd_sess w1 s2)) as [w3 o3]. destruct o3; try discriminate. now inversion H. }
    subst o. unfold subscribe_middle in Em.
    destruct (enqueue_middle_owed _ _ _ _ _ (proj1 I1) (fun id => enc_subscribe_fits {| sq_pid := id; sq_props := ps; sq_topics := topics |}) Em) as [bs [cap [off [Hb [Ho Hk]]]]].
    assert (Hstep : sstep (w_sess w1) LOther s2).
    { replace s2 with (fst (subscribe_middle (w_sess w1) topics ps)) by (unfold subscribe_middle; now rewrite Em). apply SS_subscribe. }
    destruct (finish_retained_every fuel w1 s2 bs op w' I1 Hn1 Hstep Ho Hk H) as [[Y2 [Hi2 Hw2]] [Hnmp Hn]].
    destruct Hd1 as [Hw1|[A [B [Eab [Hw1 N1]]]]].
    + exists bs, cap, off, (owed (s_ob (w_sess w)) ++ Y2). split; [exact Hb|].
      split; [apply ins_app_l; exact Hi2|]. split; [|exact Hn]. rewrite Hw2, Hw1, <- app_assoc. reflexivity.
    + exists bs, cap, off, ((A ++ PINGREQ_BYTES ++ B) ++ bs). split; [exact Hb|].
      split; [apply ins_app_r; right; exists A, B; split; [exact Eab|reflexivity]|]. split; [|exact Hn].
      rewrite (Hnmp N1), Hw1, <- !app_assoc. reflexivity.
  - unfold subscribe_middle, enqueue_middle in Em. destruct (retained_full _); [discriminate|]. destruct (next_packet_id _). destruct (encode_at _ _) as [o1 [off len|e]]; [|discriminate].
    destruct (too_large _ _); [discriminate|]. destruct (retain_packet _ _ _ _); discriminate.
Qed.

Theorem op_unsubscribe_wire_every_transport : forall fuel topics ps w w' op,
  WInv (w_sess w) -> op_unsubscribe fuel topics ps w = (w', ODone (Some op)) ->
  exists bs cap off Y,
    enc_unsubscribe cap {| uq_pid := op_pid op; uq_props := ps; uq_topics := topics |} = SOk off bs /\
    ins (owed (s_ob (w_sess w)) ++ bs) Y /\ w_wire w' = w_wire w ++ Y /\ next_step (s_ob (w_sess w')) = None.
Proof.
  intros fuel topics ps w w' op I H. unfold op_unsubscribe in H. destruct (negb (w_live w)); [discriminate|].
  destruct topics as [|t0 ts]; [discriminate|]. set (topics := t0 :: ts) in *.
  destruct (negb (props_valid_for (PSlice ps) CtxUnsubscribe)); [discriminate|]. unfold bindu in H.
  destruct (flush_outbound fuel w) as [w1 o1] eqn:E1. destruct o1 as [u|e| | |]; try discriminate. destruct u.
  destruct (flush_outbound_wire_every_full _ _ _ I E1) as [Hd1 [Hn1 [I1 _]]].
  destruct (unsubscribe_middle (w_sess w1) topics ps) as [s2 m] eqn:Em.
  destruct m as [e|o|bs0]; [cbn [finish_mid] in H; discriminate| |].
  - assert (Eo : o = op).
    { cbn [finish_mid] in H. unfold bindu in H. destruct (flush_outbound fuel (upd_sess w1 s2)) as [w3 o3]. destruct o3; try discriminate. now inversion H. }
    subst o. unfold unsubscribe_middle in Em.
    destruct (enqueue_middle_owed _ _ _ _ _ (proj1 I1) (fun id => enc_unsubscribe_fits {| uq_pid := id; uq_props := ps; uq_topics := topics |}) Em) as [bs [cap [off [Hb [Ho Hk]]]]].
    assert (Hstep : sstep (w_sess w1) LOther s2).
    { replace s2 with (fst (unsubscribe_middle (w_sess w1) topics ps)) by (unfold unsubscribe_middle; now rewrite Em). apply SS_unsubscribe. }
    destruct (finish_retained_every fuel w1 s2 bs op w' I1 Hn1 Hstep Ho Hk H) as [[Y2 [Hi2 Hw2]] [Hnmp Hn]].
    destruct Hd1 as [Hw1|[A [B [Eab [Hw1 N1]]]]].
    + exists bs, cap, off, (owed (s_ob (w_sess w)) ++ Y2). split; [exact Hb|].
      split; [apply ins_app_l; exact Hi2|]. split; [|exact Hn]. rewrite Hw2, Hw1, <- app_assoc. reflexivity.
    + exists bs, cap, off, ((A ++ PINGREQ_BYTES ++ B) ++ bs). split; [exact Hb|].
      split; [apply ins_app_r; right; exists A, B; split; [exact Eab|reflexivity]|]. split; [|exact Hn].
      rewrite (Hnmp N1), Hw1, <- !app_assoc. reflexivity.
  - unfold unsubscribe_middle, enqueue_middle in Em. destruct (retained_full _); [discriminate|]. destruct (next_packet_id _). destruct (encode_at _ _) as [o1 [off len|e]]; [|discriminate].
    destruct (too_large _ _); [discriminate|]. destruct (retain_packet _ _ _ _); discriminate.
Qed.

(* computed: keep-alive 1 s (PINGREQ due 500 ms after the CONNECT); the first write of a QoS 1 publish lasts 800 ms and takes one
   byte, the rest goes two bytes at a time: the PINGREQ falls due in the middle of the PUBLISH and is written behind it *)
Definition ex_cfg1 : config :=
  {| cf_rx := 64; cf_tx := 128; cf_client_id := [99]; cf_keepalive_s := 1; cf_expiry := 0;
     cf_downgrade := false; cf_will := None; cf_auth := None |}.
Definition ex_k1 : world := run_case {| c_cfg := ex_cfg1; c_prog := [ASetBroker 2; AConnect []; ASetBroker 0]; c_script := [] |}.
Definition ex_slow : world := upd_script ex_k1 ((4, 800) :: repeat (0, 2) 40).
Example slow_write_example :
  rt_next_ping (s_rt (w_sess ex_slow)) = Some 500 /\
  snd (op_publish FUEL ex_pub ex_slow) = ODone (Some {| op_kind := 0; op_pid := 1; op_gen := 1 |}) /\
  w_now (fst (op_publish FUEL ex_pub ex_slow)) = 800 /\
  w_wire (fst (op_publish FUEL ex_pub ex_slow)) = w_wire ex_slow ++ [50; 9; 0; 1; 116; 0; 1; 0; 1; 2; 3] ++ PINGREQ_BYTES.
Proof. vm_compute. repeat split. Qed.
