(* KeepAliveReach.v — the K = 0 invariant holds in every reachable world of the machine *)
From Coq Require Import List NArith Lia Bool.
From Minimq Require Import Bytes Varint Utf8 Props Ser De Reader Arena Core Machine Run Util Lts Refine Reach KeepAlive.
Import ListNotations.
Local Open Scope N_scope.

Lemma KA_sreach : forall s s', sreach s s' -> KA s -> KA s'.
Proof. intros s s' [ls H]. eapply (spath_inv KA); [exact KA_step | exact H]. Qed.

Theorem reachable_KA : forall c, KA (w_sess (run_case c)).
Proof.
  intros c. eapply KA_sreach; [eapply wq_sreach; apply run_case_wq|]. cbn [init_world w_sess]. apply KA_new.
Qed.

(* whatever the program, the faults and the broker did: with an effective keep-alive of zero no PINGREQ is queued *)
Theorem reachable_ka0_no_ping : forall c now,
  rt_ka_ms (s_rt (w_sess (run_case c))) = 0 ->
  maybe_queue_pingreq (w_sess (run_case c)) now = (w_sess (run_case c), None) /\
  rt_next_ping (s_rt (w_sess (run_case c))) = None.
Proof.
  intros c now E. split; [apply ka0_no_ping; [apply reachable_KA|exact E]|]. now apply reachable_KA.
Qed.
