(* Measure.v — C16: a weight on the outbound queues that every engine step strictly decreases.  Hence, between two
   enqueues (publish / subscribe / owed acknowledgement / PINGREQ) and within one connection, the engine performs at most
   `work` write and flush steps: nothing is written for ever, nothing is sent twice. *)
From Coq Require Import List NArith Lia Bool.
From Coq Require Import ZifyBool ZifyN ZifyNat.
From Minimq Require Import Bytes Varint Utf8 Props Ser De Reader Spec Arena Core Show Machine Util Lts Refine
  ArenaLemmas ArenaOps Inv Quota Status Persist Frames Limits Reach WireInv Chunking Wire.
Import ListNotations.
Local Open Scope N_scope.

Definition st_weight (st : sstate) (len : N) : N :=
  match st with SWrite w => 2 + (len - w) | SFlush => 1 | SSent => 0 end.

Definition work_ctl (l : list centry) : N := sumN (map (fun e => st_weight (ce_st e) (lenN (ctl_bytes (ce_act e)))) l).
Definition work_rel (l : list lentry) : N := sumN (map (fun e => st_weight (le_st e) (lenN (rel_bytes (le_pid e) (le_rc e)))) l).
Definition work_ret (l : list rentry) : N := sumN (map (fun e => st_weight (re_st e) (re_len e)) l).
Definition work (o : outbound) : N := work_ctl (ob_ctl o) + work_rel (ob_rel o) + work_ret (ob_ret o).

Lemma sumN_mid : forall {A} (f : A -> N) pre x post, sumN (map f (pre ++ x :: post)) = sumN (map f pre) + f x + sumN (map f post).
Proof. intros. rewrite map_app, sumN_app. cbn [map sumN]. lia. Qed.

Lemma sws_weight : forall w n len, 1 <= n -> st_weight (set_written_state (w + n) len) len < st_weight (SWrite w) len.
Proof.
  intros w n len Hn. unfold set_written_state. destruct (N.leb_spec len (w + n)); cbn [st_weight]; lia.
Qed.

Theorem write_step_decreases : forall s st p bs w len n,
  WInv s -> next_step (s_ob s) = Some st -> prepare_step s st = PWrite p bs w len -> 1 <= n ->
  work (s_ob (fst (set_written s p (w + n) len))) < work (s_ob s).
Proof.
  intros s st p bs w len n [I [F [Hs Hc]]] Hn Hp Hn1.
  destruct (engine_resumes_at_offset s st p bs w len Hp) as [Hst Hkey].
  pose proof (next_step_entry _ _ Hn) as He.
  destruct (nodup_ids _ (oi_nodup _ (inv_ob _ I))) as [Nret Nrel].
  unfold work, set_written.
  destruct st as [a s0|pid rc s0|pid off l0 s0]; cbn [step_state] in Hst; subst s0.
  - subst p. destruct (ctl_step_head _ _ _ Hc Hn) as [t Et].
    destruct (engine_ctl_bytes s a w (FCtl a) bs w len Hp) as [_ [_ [Hlen _]]].
    assert (Hb : ctl_bytes a = bs).
    { unfold ctl_bytes. cbn [prepare_step] in Hp. destruct (encode_control_packet a); [|discriminate].
      destruct (too_large _ _); [discriminate|]. now inversion Hp. }
    unfold set_control_written. rewrite Et. cbn [update_first ce_act]. rewrite caction_eqb_refl. cbn [fst set_ob s_ob].
    unfold with_ctl. cbn [ob_ctl ob_rel ob_ret]. unfold work_ctl. cbn [map sumN ce_st ce_act]. rewrite Hb, <- Hlen.
    pose proof (sws_weight w n len Hn1). lia.
  - subst p. destruct He as [e [Hin [Hpid [Hrc Hse]]]].
    destruct (engine_rel_bytes s pid rc w (FRel pid) bs w len Hp) as [_ [_ [Hlen _]]].
    assert (Hb : rel_bytes pid rc = bs).
    { unfold rel_bytes. cbn [prepare_step] in Hp. destruct (encode_pubrel pid rc); [|discriminate].
      destruct (too_large _ _); [discriminate|]. now inversion Hp. }
    destruct (update_first_unique le_pid (fun e0 => {| le_pid := le_pid e0; le_rc := le_rc e0; le_st := set_written_state (w + n) len |})
                (ob_rel (s_ob s)) e Nrel Hin) as [pre [post [El Hu]]].
    unfold set_release_written. rewrite <- Hpid. destruct (update_first _ _ (ob_rel (s_ob s))) as [l b] eqn:E. cbn [fst] in Hu. subst l.
    cbn [fst set_ob s_ob]. unfold with_rel. cbn [ob_ctl ob_rel ob_ret]. rewrite El. unfold work_rel. rewrite !sumN_mid.
    cbn [le_st le_pid le_rc]. rewrite Hse, Hpid, Hrc, Hb, <- Hlen. pose proof (sws_weight w n len Hn1). lia.
  - destruct Hkey as [-> ->]. destruct He as [e [Hin [Hpid [Hoff [Hl Hse]]]]].
    destruct (update_first_unique re_pid (fun e0 => {| re_pid := re_pid e0; re_off := re_off e0; re_len := re_len e0; re_st := set_written_state (w + n) l0 |})
                (ob_ret (s_ob s)) e Nret Hin) as [pre [post [El Hu]]].
    unfold set_retained_written. rewrite <- Hpid. destruct (update_first _ _ (ob_ret (s_ob s))) as [l b] eqn:E. cbn [fst] in Hu. subst l.
    cbn [fst set_ob s_ob]. unfold with_ret. cbn [ob_ctl ob_rel ob_ret]. rewrite El. unfold work_ret. rewrite !sumN_mid.
    cbn [re_st re_len]. rewrite Hse, Hl. pose proof (sws_weight w n l0 Hn1). lia.
Qed.

Theorem flush_step_decreases : forall s st p now,
  WInv s -> next_step (s_ob s) = Some st -> prepare_step s st = PFlush p ->
  work (s_ob (fst (complete_flush s p now))) < work (s_ob s).
Proof.
  intros s st p now [I [F [Hs Hc]]] Hn Hp.
  pose proof (next_step_entry _ _ Hn) as He.
  destruct (nodup_ids _ (oi_nodup _ (inv_ob _ I))) as [Nret Nrel].
  unfold work, complete_flush.
  destruct st as [a s0|pid rc s0|pid off l0 s0]; destruct s0 as [w0| |]; cbn [prepare_step] in Hp; try discriminate;
    try (destruct (encode_control_packet _); [destruct (too_large _ _)|]; discriminate);
    try (destruct (encode_pubrel _ _); [destruct (too_large _ _)|]; discriminate);
    try (destruct (too_large _ _); discriminate).
  - inversion Hp; subst p. destruct (ctl_step_head _ _ _ Hc Hn) as [t Et].
    rewrite Et in Hc. destruct Hc as [_ Ht].
    unfold flush_control. rewrite Et. cbn [update_first ce_act]. rewrite caction_eqb_refl. cbn [fst set_rt set_ob s_ob].
    unfold with_ctl. cbn [ob_ctl ob_rel ob_ret filter ce_st sstate_eqb negb]. rewrite (filter_fresh_id t Ht).
    unfold work_ctl. cbn [map sumN ce_st st_weight]. lia.
  - inversion Hp; subst p. destruct He as [e [Hin [Hpid [Hrc Hse]]]].
    destruct (update_first_unique le_pid (fun e0 => {| le_pid := le_pid e0; le_rc := le_rc e0; le_st := SSent |})
                (ob_rel (s_ob s)) e Nrel Hin) as [pre [post [El Hu]]].
    unfold flush_release. rewrite <- Hpid. destruct (update_first _ _ (ob_rel (s_ob s))) as [l b] eqn:E. cbn [fst] in Hu. subst l.
    cbn [fst set_rt set_ob s_ob]. unfold with_rel. cbn [ob_ctl ob_rel ob_ret]. rewrite El. unfold work_rel. rewrite !sumN_mid.
    cbn [le_st st_weight]. rewrite Hse. cbn [st_weight]. lia.
  - inversion Hp; subst p. destruct He as [e [Hin [Hpid [Hoff [Hl Hse]]]]].
    destruct (update_first_unique re_pid (fun e0 => {| re_pid := re_pid e0; re_off := re_off e0; re_len := re_len e0; re_st := SSent |})
                (ob_ret (s_ob s)) e Nret Hin) as [pre [post [El Hu]]].
    unfold flush_retained. rewrite <- Hpid. destruct (update_first _ _ (ob_ret (s_ob s))) as [l b] eqn:E. cbn [fst] in Hu. subst l.
    cbn [fst set_rt set_ob s_ob]. unfold with_ret. cbn [ob_ctl ob_rel ob_ret]. rewrite El. unfold work_ret. rewrite !sumN_mid.
    cbn [re_st st_weight]. rewrite Hse. cbn [st_weight]. lia.
Qed.

Lemma work_ctl_cons : forall x t, work_ctl (x :: t) = st_weight (ce_st x) (lenN (ctl_bytes (ce_act x))) + work_ctl t.
Proof. reflexivity. Qed.
Lemma work_rel_cons : forall x t, work_rel (x :: t) = st_weight (le_st x) (lenN (rel_bytes (le_pid x) (le_rc x))) + work_rel t.
Proof. reflexivity. Qed.
Lemma work_ret_cons : forall x t, work_ret (x :: t) = st_weight (re_st x) (re_len x) + work_ret t.
Proof. reflexivity. Qed.

Lemma work_ctl_filter_le : forall g l, work_ctl (filter g l) <= work_ctl l.
Proof.
  intros g. induction l as [|x t IH]; [apply N.le_refl|]. cbn [filter]. destruct (g x); rewrite ?work_ctl_cons; lia.
Qed.

(* a completed flush never raises the work: the entry becomes Sent, or leaves *)
Lemma flush_never_raises : forall s p now, work (s_ob (fst (complete_flush s p now))) <= work (s_ob s).
Proof.
  intros s p now. unfold complete_flush, work. destruct p as [a|pid|pid].
  - unfold flush_control. destruct (update_first _ _ (ob_ctl (s_ob s))) as [l b] eqn:E. cbn [fst set_rt set_ob s_ob]. unfold with_ctl. cbn [ob_ctl ob_rel ob_ret].
    assert (work_ctl (filter (fun e => negb (sstate_eqb (ce_st e) SSent)) l) <= work_ctl (ob_ctl (s_ob s))); [|lia].
    eapply N.le_trans; [apply work_ctl_filter_le|].
    replace l with (fst (update_first (fun e => caction_eqb (ce_act e) a) (fun e => {| ce_act := ce_act e; ce_st := SSent |}) (ob_ctl (s_ob s)))) by now rewrite E.
    clear E. induction (ob_ctl (s_ob s)) as [|x t IH]; cbn [update_first fst]; [apply N.le_refl|].
    destruct (caction_eqb (ce_act x) a); cbn [fst].
    + rewrite !work_ctl_cons. cbn [ce_st ce_act st_weight]. lia.
    + destruct (update_first _ _ t) as [t' b']. cbn [fst] in *. rewrite !work_ctl_cons. lia.
  - unfold flush_release. destruct (update_first _ _ (ob_rel (s_ob s))) as [l b] eqn:E. cbn [fst set_rt set_ob s_ob]. unfold with_rel. cbn [ob_ctl ob_rel ob_ret].
    assert (work_rel l <= work_rel (ob_rel (s_ob s))); [|lia].
    replace l with (fst (update_first (fun e => N.eqb (le_pid e) pid) (fun e => {| le_pid := le_pid e; le_rc := le_rc e; le_st := SSent |}) (ob_rel (s_ob s)))) by now rewrite E.
    clear E. induction (ob_rel (s_ob s)) as [|x t IH]; cbn [update_first fst]; [apply N.le_refl|].
    destruct (N.eqb (le_pid x) pid); cbn [fst].
    + rewrite !work_rel_cons. cbn [le_st le_pid le_rc st_weight]. lia.
    + destruct (update_first _ _ t) as [t' b']. cbn [fst] in *. rewrite !work_rel_cons. lia.
  - unfold flush_retained. destruct (update_first _ _ (ob_ret (s_ob s))) as [l b] eqn:E. cbn [fst set_rt set_ob s_ob]. unfold with_ret. cbn [ob_ctl ob_rel ob_ret].
    assert (work_ret l <= work_ret (ob_ret (s_ob s))); [|lia].
    replace l with (fst (update_first (fun e => N.eqb (re_pid e) pid) (fun e => {| re_pid := re_pid e; re_off := re_off e; re_len := re_len e; re_st := SSent |}) (ob_ret (s_ob s)))) by now rewrite E.
    clear E. induction (ob_ret (s_ob s)) as [|x t IH]; cbn [update_first fst]; [apply N.le_refl|].
    destruct (N.eqb (re_pid x) pid); cbn [fst].
    + rewrite !work_ret_cons. cbn [re_st re_len st_weight]. lia.
    + destruct (update_first _ _ t) as [t' b']. cbn [fst] in *. rewrite !work_ret_cons. lia.
Qed.

(* the machine: an engine step that reports progress has strictly decreased the work of the session *)
Theorem progress_decreases_work : forall st now w w',
  WInv (w_sess w) -> next_step (s_ob (w_sess w)) = Some st ->
  perform_outbound_step st now w = (w', ODone true) ->
  work (s_ob (w_sess w')) < work (s_ob (w_sess w)).
Proof.
  intros st now w w' I Hn H. unfold perform_outbound_step in H.
  destruct (prepare_step (w_sess w) st) as [p bs written len|p| |e] eqn:Ep; try discriminate.
  - destruct (negb (w_live w)); [discriminate|].
    destruct (io_write (dropN written bs) w) as [w1 r0] eqn:Ew.
    destruct (io_write_ghost _ _ _ _ Ew) as [Hs _].
    destruct r0 as [n| |]; try discriminate.
    destruct (N.eqb_spec n 0) as [En|En]; [discriminate|].
    destruct (set_written (w_sess w1) p (written + n) len) as [s2 found] eqn:Es.
    assert (Es2 : s2 = fst (set_written (w_sess w) p (written + n) len)) by (rewrite <- Hs, Es; reflexivity).
    pose proof (write_step_decreases (w_sess w) st p bs written len n I Hn Ep ltac:(lia)) as Hd. rewrite <- Es2 in Hd.
    destruct (negb found); [discriminate|].
    destruct (N.ltb_spec (written + n) len) as [L|L]; [inversion H; subst; exact Hd|].
    (* complete: the flush, if it succeeds, only lowers the work further *)
    unfold flush_current in H. cbn [w_live upd_sess] in H. destruct (negb (w_live w1)); [discriminate|].
    destruct (io_flush (upd_sess w1 s2)) as [w2 fr] eqn:Ef. destruct (io_flush_ghost _ _ _ Ef) as [Hs2 _]. cbn [w_sess upd_sess] in Hs2.
    destruct fr; try discriminate.
    destruct (complete_flush (w_sess w2) p now) as [s3 f3] eqn:Ec. destruct f3; [|discriminate]. inversion H; subst w'. cbn [w_sess upd_sess].
    assert (Hle : work (s_ob s3) <= work (s_ob s2)).
    { replace s3 with (fst (complete_flush s2 p now)) by (rewrite <- Hs2, Ec; reflexivity). apply flush_never_raises. }
    lia.
  - (* flush *)
    unfold flush_current in H. destruct (negb (w_live w)); [discriminate|].
    destruct (io_flush w) as [w1 fr] eqn:Ef. destruct (io_flush_ghost _ _ _ Ef) as [Hs _].
    destruct fr; try discriminate.
    destruct (complete_flush (w_sess w1) p now) as [s3 f3] eqn:Ec. destruct f3; [|discriminate]. inversion H; subst w'. cbn [w_sess upd_sess].
    replace s3 with (fst (complete_flush (w_sess w) p now)) by (rewrite <- Hs, Ec; reflexivity).
    eapply flush_step_decreases; eassumption.
Qed.
