From Coq Require Import Lia ZifyBool ZifyN.
From Minimq Require Import Util Bytes Varint Utf8 Props Ser De Reader Arena Core Spec Show Machine.

Lemma table_eq : forall k c, kind_valid_for k c = client_may_send k c.
Proof. destruct k; destruct c; reflexivity. Qed.

Lemma values_eq : forall p, has_valid_value p = legal_value p.
Proof.
  intros p. unfold has_valid_value, legal_value, VARINT_MAX.
  destruct (pk p); try reflexivity; lia.
Qed.

Lemma is_valid_for_spec : forall p c, is_valid_for p c = legal_value p && client_may_send (pk p) c.
Proof. intros. unfold is_valid_for. now rewrite table_eq, values_eq. Qed.

(* every allowed kind with a legal value is accepted, everything else refused *)
Lemma props_valid_for_slice : forall l c,
  props_valid_for (PSlice l) c = forallb (fun p => legal_value p && client_may_send (pk p) c) l.
Proof.
  intros l c. unfold props_valid_for, props_iter. rewrite forallb_map_some. 
  apply forallb_ext'. intros p. apply is_valid_for_spec.
Qed.

(* ---- (b) refusal leaves no trace ---- *)
Lemma publish_invalid_no_trace : forall s live r,
  props_valid_for (pr_props r) CtxPublish = false ->
  publish_middle s live r = (s, MErr EInvalidRequest).
Proof. intros s live r H. unfold publish_middle. now rewrite H. Qed.

Lemma op_publish_invalid : forall fuel r w w1,
  w_live w = true ->
  props_valid_for (pr_props r) CtxPublish = false ->
  flush_outbound fuel w = (w1, ODone tt) ->
  op_publish fuel r w = (w1, OFail EInvalidRequest).
Proof.
  intros fuel r w w1 Hl Hv Hf. unfold op_publish. rewrite Hl. cbn [negb].
  rewrite Hf. cbn [bindu]. rewrite publish_invalid_no_trace by exact Hv.
  cbn [finish_mid]. destruct w1; reflexivity.
Qed.

Lemma op_subscribe_invalid : forall fuel topics ps w,
  w_live w = true ->
  topics = [] \/ props_valid_for (PSlice ps) CtxSubscribe = false ->
  op_subscribe fuel topics ps w = (w, OFail EInvalidRequest).
Proof.
  intros fuel topics ps w Hl [->|Hv]; unfold op_subscribe; rewrite Hl; cbn [negb]; [reflexivity|].
  destruct topics; [reflexivity|]. now rewrite Hv.
Qed.

Lemma op_unsubscribe_invalid : forall fuel topics ps w,
  w_live w = true ->
  topics = [] \/ props_valid_for (PSlice ps) CtxUnsubscribe = false ->
  op_unsubscribe fuel topics ps w = (w, OFail EInvalidRequest).
Proof.
  intros fuel topics ps w Hl [->|Hv]; unfold op_unsubscribe; rewrite Hl; cbn [negb]; [reflexivity|].
  destruct topics; [reflexivity|]. now rewrite Hv.
Qed.

Lemma op_disconnect_invalid : forall fuel r l w,
  w_live w = true ->
  props_valid_for (PSlice l) CtxDisconnect = false ->
  op_disconnect fuel {| dq_reason := r; dq_props := Some l |} w = (w, OFail EInvalidRequest).
Proof.
  intros fuel r l w Hl Hv. unfold op_disconnect. rewrite Hl. cbn [negb].
  unfold disconnect_prepare. cbn [dq_props]. now rewrite Hv.
Qed.

Lemma dead_handle_refused : forall fuel w, w_live w = false ->
  (forall r, op_publish fuel r w = (w, OFail EDisconnected)) /\
  (forall t ps, op_subscribe fuel t ps w = (w, OFail EDisconnected)) /\
  (forall t ps, op_unsubscribe fuel t ps w = (w, OFail EDisconnected)) /\
  (forall d, op_disconnect fuel d w = (w, ODone tt)).
Proof.
  intros fuel w Hl. repeat split; intros;
    [unfold op_publish|unfold op_subscribe|unfold op_unsubscribe|unfold op_disconnect]; now rewrite Hl.
Qed.

(* ---- (c) QoS downgrade ---- *)
Lemma downgrade_caps : forall s q m,
  cf_downgrade (s_cfg s) = true -> rt_maxqos (s_rt s) = Some m ->
  qos_n (effective_qos s q) <= qos_n m.
Proof.
  intros s q m Hd Hm. unfold effective_qos, qos_ltb. rewrite Hm, Hd. cbn [andb].
  destruct (qos_n m <? qos_n q) eqn:E; lia.
Qed.

Lemma no_downgrade_unchanged : forall s q, cf_downgrade (s_cfg s) = false -> effective_qos s q = q.
Proof. intros s q Hd. unfold effective_qos. rewrite Hd. now destruct (rt_maxqos (s_rt s)). Qed.

Lemma handle_matches_qos : forall s live r s' o,
  publish_middle s live r = (s', MRetained o) ->
  op_kind o = match effective_qos s (pr_qos r) with Q2 => 1 | _ => 0 end
  /\ effective_qos s (pr_qos r) <> Q0.
Proof.
  intros s live r s' o. unfold publish_middle.
  destruct (props_valid_for (pr_props r) CtxPublish); cbn [negb]; [|discriminate].
  destruct (effective_qos s (pr_qos r)) eqn:Eq.
  - destruct (negb _); [discriminate|].
    destruct (enc_publish _ _); [|discriminate].
    destruct (too_large _ _); [discriminate|]. destruct (negb live); discriminate.
  - destruct (next_packet_id s) as [s1 id].
    destruct (retained_full _); [discriminate|]. destruct (negb _); [discriminate|].
    destruct (encode_at _ _) as [o1 er]. destruct er; [|discriminate].
    destruct (too_large _ _); [discriminate|]. destruct (retain_packet _ _ _ _); [|discriminate].
    intros H. inversion H; subst. cbn [op_kind]. split; [reflexivity|discriminate].
  - destruct (next_packet_id s) as [s1 id].
    destruct (retained_full _); [discriminate|]. destruct (negb _); [discriminate|].
    destruct (encode_at _ _) as [o1 er]. destruct er; [|discriminate].
    destruct (too_large _ _); [discriminate|]. destruct (retain_packet _ _ _ _); [|discriminate].
    intros H. inversion H; subst. cbn [op_kind]. split; [reflexivity|discriminate].
Qed.
