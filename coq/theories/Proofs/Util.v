(* Util.v — general lemmas about the byte-list vocabulary of Bytes.v. *)
From Coq Require Import Arith Lia ZifyBool ZifyN ZifyNat.
From Minimq Require Import Bytes.

Global Arguments N.add : simpl never.
Global Arguments N.sub : simpl never.
Global Arguments N.mul : simpl never.
Global Arguments N.div : simpl never.
Global Arguments N.modulo : simpl never.
Global Arguments N.eqb : simpl never.
Global Arguments N.ltb : simpl never.
Global Arguments N.leb : simpl never.
Global Arguments N.min : simpl never.
Global Arguments N.max : simpl never.

Lemma lenN_acc_spec : forall (l : bytes) a, lenN_acc l a = a + N.of_nat (length l).
Proof. induction l as [|x l IH]; intros a; cbn [lenN_acc length]; [lia|]. rewrite IH. lia. Qed.

Lemma lenN_length : forall l, lenN l = N.of_nat (length l).
Proof. intros. unfold lenN. rewrite lenN_acc_spec. lia. Qed.

Lemma lenN_nil : lenN [] = 0.
Proof. reflexivity. Qed.
Lemma lenN_cons : forall x l, lenN (x :: l) = 1 + lenN l.
Proof. intros. rewrite !lenN_length. cbn [length]. lia. Qed.
Lemma lenN_app : forall a b, lenN (a ++ b) = lenN a + lenN b.
Proof. intros. rewrite !lenN_length, app_length. lia. Qed.

Lemma glen_length : forall {A} (l : list A), glen l = N.of_nat (length l).
Proof. induction l as [|x l IH]; cbn [glen length]; [reflexivity|]. rewrite IH. lia. Qed.
Lemma glen_app : forall {A} (a b : list A), glen (a ++ b) = glen a + glen b.
Proof. intros. rewrite !glen_length, app_length. lia. Qed.

Lemma takeN_firstn : forall {A} (l : list A) n, takeN n l = firstn (N.to_nat n) l.
Proof.
  induction l as [|x l IH]; intros n; cbn [takeN].
  - now rewrite firstn_nil.
  - destruct (N.eqb_spec n 0) as [->|Hn]; [reflexivity|].
    replace (N.to_nat n) with (S (N.to_nat (N.pred n))) by lia. cbn [firstn]. now rewrite IH.
Qed.
Lemma dropN_skipn : forall {A} (l : list A) n, dropN n l = skipn (N.to_nat n) l.
Proof.
  induction l as [|x l IH]; intros n; cbn [dropN].
  - now rewrite skipn_nil.
  - destruct (N.eqb_spec n 0) as [->|Hn]; [reflexivity|].
    replace (N.to_nat n) with (S (N.to_nat (N.pred n))) by lia. cbn [skipn]. now rewrite IH.
Qed.

Lemma takeN_dropN : forall {A} (l : list A) n, takeN n l ++ dropN n l = l.
Proof. intros. rewrite takeN_firstn, dropN_skipn. apply firstn_skipn. Qed.

Lemma lenN_takeN : forall (l : bytes) n, lenN (takeN n l) = N.min n (lenN l).
Proof. intros. rewrite takeN_firstn, !lenN_length, firstn_length. lia. Qed.
Lemma lenN_dropN : forall (l : bytes) n, lenN (dropN n l) = lenN l - n.
Proof. intros. rewrite dropN_skipn, !lenN_length, skipn_length. lia. Qed.

Lemma takeN_0 : forall {A} (l : list A), takeN 0 l = [].
Proof. destruct l; reflexivity. Qed.
Lemma dropN_0 : forall {A} (l : list A), dropN 0 l = l.
Proof. destruct l; reflexivity. Qed.

Lemma takeN_all : forall (l : bytes) n, lenN l <= n -> takeN n l = l.
Proof. intros. rewrite takeN_firstn. apply firstn_all2. rewrite lenN_length in H. lia. Qed.
Lemma dropN_all : forall (l : bytes) n, lenN l <= n -> dropN n l = [].
Proof. intros. rewrite dropN_skipn. apply skipn_all2. rewrite lenN_length in H. lia. Qed.

Lemma takeN_app_exact : forall (a b : bytes), takeN (lenN a) (a ++ b) = a.
Proof.
  intros. rewrite takeN_firstn, lenN_length, Nat2N.id.
  rewrite firstn_app, Nat.sub_diag, firstn_O, app_nil_r. apply firstn_all.
Qed.
Lemma dropN_app_exact : forall (a b : bytes), dropN (lenN a) (a ++ b) = b.
Proof.
  intros. rewrite dropN_skipn, lenN_length, Nat2N.id.
  rewrite skipn_app, Nat.sub_diag, skipn_all. reflexivity.
Qed.

Lemma takeN_app_le : forall (a b : bytes) n, n <= lenN a -> takeN n (a ++ b) = takeN n a.
Proof.
  intros. rewrite !takeN_firstn. rewrite lenN_length in H. rewrite firstn_app.
  replace (N.to_nat n - length a)%nat with 0%nat by lia. now rewrite firstn_O, app_nil_r.
Qed.
Lemma dropN_app_ge : forall (a b : bytes) n, lenN a <= n -> dropN n (a ++ b) = dropN (n - lenN a) b.
Proof.
  intros. rewrite !dropN_skipn. rewrite lenN_length in *. rewrite skipn_app.
  rewrite skipn_all2 by lia. cbn [app]. f_equal. lia.
Qed.
Lemma dropN_app_le : forall (a b : bytes) n, n <= lenN a -> dropN n (a ++ b) = dropN n a ++ b.
Proof.
  intros. rewrite !dropN_skipn. rewrite lenN_length in *. rewrite skipn_app.
  replace (N.to_nat n - length a)%nat with 0%nat by lia. reflexivity.
Qed.
Lemma takeN_app_ge : forall (a b : bytes) n, lenN a <= n -> takeN n (a ++ b) = a ++ takeN (n - lenN a) b.
Proof.
  intros. rewrite !takeN_firstn. rewrite lenN_length in *. rewrite firstn_app.
  rewrite firstn_all2 by lia. f_equal. f_equal. lia.
Qed.

Lemma dropN_dropN : forall {A} (l : list A) a b, dropN a (dropN b l) = dropN (a + b) l.
Proof.
  intros A l a b. rewrite !dropN_skipn.
  replace (N.to_nat (a + b)) with (N.to_nat b + N.to_nat a)%nat by lia.
  generalize (N.to_nat a) (N.to_nat b). intros x y. revert l.
  induction y as [|y IH]; intros l; [reflexivity|].
  destruct l as [|h t]; cbn [skipn Nat.add]; [now rewrite skipn_nil | apply IH].
Qed.

Lemma takeN_takeN : forall {A} (l : list A) a b, takeN a (takeN b l) = takeN (N.min a b) l.
Proof. intros. rewrite !takeN_firstn, firstn_firstn. f_equal. lia. Qed.

Lemma forallb_map_some : forall {A} (f : option A -> bool) (l : list A),
  forallb f (map Some l) = forallb (fun x => f (Some x)) l.
Proof. induction l as [|x l IH]; cbn [map forallb]; [reflexivity|]. now rewrite IH. Qed.

Lemma forallb_ext' : forall {A} (f g : A -> bool) l, (forall x, f x = g x) -> forallb f l = forallb g l.
Proof. intros A f g l H. induction l as [|x l IH]; cbn [forallb]; [reflexivity|]. now rewrite H, IH. Qed.

Lemma sumN_app : forall a b, sumN (a ++ b) = sumN a + sumN b.
Proof. induction a as [|x a IH]; intros b; cbn [sumN app]; [reflexivity|]. rewrite IH. lia. Qed.
