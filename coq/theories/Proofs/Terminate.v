(* Terminate.v — C16: the engine loops of the machine (drive_packet, flush_outbound) end without exhausting their
   fuel, whatever the transport does: every step that reports progress strictly lowers `work` (Measure.v), the one
   thing that can raise it inside the loop — queuing a PINGREQ — is paid for by a budget that is spent once, and a
   step reporting "nothing done" cannot be selected.  Hence no packet is written for ever or twice, and the number
   of engine steps per call is bounded by work + 5. *)
From Coq Require Import List NArith Lia Bool PeanoNat.
From Coq Require Import ZifyBool ZifyN ZifyNat.
From Minimq Require Import Bytes Varint Utf8 Props Ser De Reader Arena Core Show Machine Parse Run.
From Minimq Require Import Util Lts Refine Inv Status WireInv Wire Measure.
Import ListNotations.
Open Scope N_scope.

(* what queuing a PINGREQ may still cost: it is queued only while none is queued or awaited *)
Definition pbudget (s : session) : N :=
  match rt_ping_timeout (s_rt s) with
  | Some _ => 0
  | None => if has_pending_pingreq (s_ob s) then 0 else 5
  end.
Definition M (s : session) : N := work (s_ob s) + pbudget s.

Lemma ping_len : lenN (ctl_bytes CPing) = 2.
Proof. reflexivity. Qed.

Lemma work_ctl_app : forall a b, work_ctl (a ++ b) = work_ctl a + work_ctl b.
Proof. induction a as [|x t IH]; intros b; [reflexivity|]. cbn [app]. rewrite !work_ctl_cons, IH. lia. Qed.

Lemma has_pending_snoc_ping : forall l,
  existsb (fun e => match ce_act e with CPing => negb (sstate_eqb (ce_st e) SSent) | _ => false end)
          (l ++ [{| ce_act := CPing; ce_st := SWrite 0 |}]) = true.
Proof. intros l. rewrite existsb_app. cbn. apply orb_true_r. Qed.

Lemma ping_M : forall s now, M (fst (maybe_queue_pingreq s now)) <= M s.
Proof.
  intros s now. unfold maybe_queue_pingreq. destruct (should_queue_pingreq s now) eqn:Eq; [|cbn [fst]; lia].
  destruct (check_control_size _ CPing); [cbn [fst]; lia|].
  unfold queue_control. destruct (MAX_PENDING_CONTROL <=? glen (ob_ctl (s_ob s))); cbn [fst]; [lia|].
  unfold should_queue_pingreq in Eq. apply andb_true_iff in Eq. destruct Eq as [Eq Hp]. apply andb_true_iff in Eq. destruct Eq as [Ht _].
  unfold M, pbudget, work. cbn [s_ob s_rt set_ob ob_ctl ob_rel ob_ret].
  destruct (rt_ping_timeout (s_rt s)); [discriminate|].
  apply negb_true_iff in Hp. rewrite Hp. unfold has_pending_pingreq. cbn [ob_ctl]. rewrite has_pending_snoc_ping.
  rewrite work_ctl_app, work_ctl_cons. cbn [ce_st ce_act st_weight work_ctl map sumN]. rewrite ping_len. unfold st_weight. cbn. lia.
Qed.

(* ---------- a step never selects an entry that is already sent ---------- *)
Lemma prepare_done_sent : forall s st, prepare_step s st = PDone -> step_state st = SSent.
Proof.
  intros s st H. destruct st as [a [w| |]|pid rc [w| |]|pid off len [w| |]]; cbn [prepare_step step_state] in *; try discriminate; try reflexivity.
  - destruct (encode_control_packet a); [destruct (too_large _ _)|]; discriminate.
  - destruct (encode_pubrel pid rc); [destruct (too_large _ _)|]; discriminate.
  - destruct (too_large _ _); discriminate.
Qed.

(* ---------- the PINGREQ budget is never raised by an engine step ---------- *)
Definition HP (l : list centry) : bool :=
  existsb (fun e => match ce_act e with CPing => negb (sstate_eqb (ce_st e) SSent) | _ => false end) l.

Lemma hp_update_nonsent : forall p (f : centry -> centry) l,
  (forall e, ce_act (f e) = ce_act e /\ ce_st (f e) <> SSent) ->
  HP l = true -> HP (fst (update_first p f l)) = true.
Proof.
  intros p f l Hf. induction l as [|x t IH]; intros H; cbn [update_first] in *; [discriminate|].
  destruct (p x).
  - cbn [fst HP existsb] in *. destruct (Hf x) as [Ha Hs]. rewrite Ha.
    apply orb_true_iff in H. destruct H as [H|H]; [|rewrite H; apply orb_true_r].
    destruct (ce_act x); try discriminate. destruct (ce_st (f x)); try reflexivity. congruence.
  - destruct (update_first p f t) as [t' b]. cbn [fst HP existsb] in *.
    apply orb_true_iff in H. destruct H as [H|H]; [rewrite H; reflexivity|]. rewrite (IH H). apply orb_true_r.
Qed.

Lemma hp_filter : forall l, HP l = true -> HP (filter (fun e => negb (sstate_eqb (ce_st e) SSent)) l) = true.
Proof.
  unfold HP. induction l as [|y u IH]; intros H; [discriminate|]. cbn [existsb] in H. apply orb_true_iff in H. cbn [filter].
  destruct H as [H|H].
  - destruct (ce_act y) eqn:Ey; try discriminate. rewrite H. cbn [existsb]. rewrite Ey, H. reflexivity.
  - destruct (negb (sstate_eqb (ce_st y) SSent)); [cbn [existsb]; rewrite (IH H); apply orb_true_r|exact (IH H)].
Qed.

Lemma hp_mark_other : forall a l, a <> CPing -> HP l = true ->
  HP (fst (update_first (fun e => caction_eqb (ce_act e) a) (fun e => {| ce_act := ce_act e; ce_st := SSent |}) l)) = true.
Proof.
  unfold HP. intros a l Ha. induction l as [|x t IH]; intros H; cbn [update_first] in *; [discriminate|].
  cbn [existsb] in H. apply orb_true_iff in H.
  destruct (caction_eqb (ce_act x) a) eqn:Ex.
  - cbn [fst existsb ce_act ce_st]. destruct H as [H|H]; [|rewrite H; apply orb_true_r].
    destruct (ce_act x) eqn:Eact; try discriminate. destruct a; cbn in Ex; try discriminate. congruence.
  - destruct (update_first _ _ t) as [t' b]. cbn [fst existsb] in *.
    destruct H as [H|H]; [rewrite H; reflexivity|]. rewrite (IH H). apply orb_true_r.
Qed.

Lemma hp_flush_other : forall a l, a <> CPing -> HP l = true ->
  HP (filter (fun e => negb (sstate_eqb (ce_st e) SSent))
             (fst (update_first (fun e => caction_eqb (ce_act e) a) (fun e => {| ce_act := ce_act e; ce_st := SSent |}) l))) = true.
Proof. intros a l Ha H. apply hp_filter. now apply hp_mark_other. Qed.

Lemma sws_not_sent : forall w len, set_written_state w len <> SSent.
Proof. intros. unfold set_written_state. destruct (len <=? w); discriminate. Qed.

Lemma pb_set_written : forall s p x len, pbudget (fst (set_written s p x len)) <= pbudget s.
Proof.
  intros s p x len. unfold set_written.
  destruct p as [a|pid|pid].
  - unfold set_control_written. destruct (update_first _ _ (ob_ctl (s_ob s))) as [l b] eqn:E. cbn [fst].
    unfold pbudget. cbn [s_rt s_ob set_ob]. destruct (rt_ping_timeout (s_rt s)); [lia|].
    unfold has_pending_pingreq. cbn [with_ctl ob_ctl]. fold (HP (ob_ctl (s_ob s))). fold (HP l).
    destruct (HP (ob_ctl (s_ob s))) eqn:Eh; [|destruct (HP l); lia].
    replace l with (fst (update_first (fun e => caction_eqb (ce_act e) a)
                    (fun e => {| ce_act := ce_act e; ce_st := set_written_state x len |}) (ob_ctl (s_ob s)))) by now rewrite E.
    rewrite hp_update_nonsent; [lia| |exact Eh]. intros e. split; [reflexivity|apply sws_not_sent].
  - unfold set_release_written. destruct (update_first _ _ (ob_rel (s_ob s))) as [l b]. cbn [fst]. unfold pbudget, has_pending_pingreq.
    cbn [s_rt s_ob set_ob with_rel ob_ctl]. lia.
  - unfold set_retained_written. destruct (update_first _ _ (ob_ret (s_ob s))) as [l b]. cbn [fst]. unfold pbudget, has_pending_pingreq.
    cbn [s_rt s_ob set_ob with_ret ob_ctl]. lia.
Qed.

Lemma noa_timeout : forall r now, rt_ping_timeout (note_outbound_activity r now) = rt_ping_timeout r.
Proof. reflexivity. Qed.

Lemma pb_flush_ctl_other : forall s a now, a <> CPing ->
  pbudget (set_rt (set_ob s (fst (flush_control (s_ob s) a))) (note_outbound_activity (s_rt s) now)) <= pbudget s.
Proof.
  intros s a now Ha. unfold pbudget. cbn [s_rt s_ob set_rt set_ob]. rewrite noa_timeout.
  destruct (rt_ping_timeout (s_rt s)); [lia|].
  unfold flush_control. destruct (update_first _ _ (ob_ctl (s_ob s))) as [l b0] eqn:Eu. cbn [fst].
  unfold has_pending_pingreq. cbn [with_ctl ob_ctl].
  change (existsb (fun e => match ce_act e with CPing => negb (sstate_eqb (ce_st e) SSent) | _ => false end) (ob_ctl (s_ob s)))
    with (HP (ob_ctl (s_ob s))).
  match goal with |- context [existsb ?f (filter ?g l)] => change (existsb f (filter g l)) with (HP (filter g l)) end.
  destruct (HP (ob_ctl (s_ob s))) eqn:Eh; [|match goal with |- context [HP ?x] => destruct (HP x) end; lia].
  replace l with (fst (update_first (fun e => caction_eqb (ce_act e) a) (fun e => {| ce_act := ce_act e; ce_st := SSent |}) (ob_ctl (s_ob s))))
    by (rewrite Eu; reflexivity).
  rewrite (hp_flush_other a _ Ha Eh). lia.
Qed.

Lemma pb_complete_flush : forall s p now, pbudget (fst (complete_flush s p now)) <= pbudget s.
Proof.
  intros s p now. unfold complete_flush.
  destruct p as [a|pid|pid].
  - destruct (flush_control (s_ob s) a) as [o b] eqn:E. cbn [fst].
    assert (Eo : o = fst (flush_control (s_ob s) a)) by now rewrite E. subst o.
    destruct a as [pid rc|pid rc|pid rc|]; try (apply pb_flush_ctl_other; discriminate).
    unfold pbudget. cbn [s_rt set_rt set_ob]. rewrite noa_timeout. cbn [rt_ping_timeout rt_with_timers]. lia.
  - destruct (flush_release (s_ob s) pid) as [o b] eqn:E. cbn [fst]. unfold flush_release in E.
    destruct (update_first _ _ (ob_rel (s_ob s))) as [l b0]. inversion E; subst o b.
    unfold pbudget, has_pending_pingreq. cbn [s_rt s_ob set_rt set_ob with_rel ob_ctl]. rewrite noa_timeout. lia.
  - destruct (flush_retained (s_ob s) pid) as [o b] eqn:E. cbn [fst]. unfold flush_retained in E.
    destruct (update_first _ _ (ob_ret (s_ob s))) as [l b0]. inversion E; subst o b.
    unfold pbudget, has_pending_pingreq. cbn [s_rt s_ob set_rt set_ob with_ret ob_ctl]. rewrite noa_timeout. lia.
Qed.

(* ---------- one engine step of the machine ---------- *)
Lemma step_pbudget : forall st now w w',
  perform_outbound_step st now w = (w', ODone true) -> pbudget (w_sess w') <= pbudget (w_sess w).
Proof.
  intros st now w w' H. unfold perform_outbound_step in H.
  destruct (prepare_step (w_sess w) st) as [p bs written len|p| |e] eqn:Ep; try discriminate.
  - destruct (negb (w_live w)); [discriminate|].
    destruct (io_write (dropN written bs) w) as [w1 r0] eqn:Ew.
    destruct (io_write_ghost _ _ _ _ Ew) as [Hs _].
    destruct r0 as [n| |]; try discriminate.
    destruct (N.eqb n 0); [discriminate|].
    destruct (set_written (w_sess w1) p (written + n) len) as [s2 found] eqn:Es.
    assert (P2 : pbudget s2 <= pbudget (w_sess w)).
    { replace s2 with (fst (set_written (w_sess w) p (written + n) len)) by (rewrite <- Hs, Es; reflexivity). apply pb_set_written. }
    destruct (negb found); [discriminate|].
    destruct (written + n <? len); [inversion H; subst; exact P2|].
    unfold flush_current in H. cbn [w_live upd_sess] in H. destruct (negb (w_live w1)); [discriminate|].
    destruct (io_flush (upd_sess w1 s2)) as [w2 fr] eqn:Ef. destruct (io_flush_ghost _ _ _ Ef) as [Hs2 _]. cbn [w_sess upd_sess] in Hs2.
    destruct fr; try discriminate.
    destruct (complete_flush (w_sess w2) p now) as [s3 f3] eqn:Ec. destruct f3; [|discriminate]. inversion H; subst w'. cbn [w_sess upd_sess].
    assert (P3 : pbudget s3 <= pbudget s2).
    { replace s3 with (fst (complete_flush s2 p now)) by (rewrite <- Hs2, Ec; reflexivity). apply pb_complete_flush. }
    lia.
  - unfold flush_current in H. destruct (negb (w_live w)); [discriminate|].
    destruct (io_flush w) as [w1 fr] eqn:Ef. destruct (io_flush_ghost _ _ _ Ef) as [Hs _].
    destruct fr; try discriminate.
    destruct (complete_flush (w_sess w1) p now) as [s3 f3] eqn:Ec. destruct f3; [|discriminate]. inversion H; subst w'. cbn [w_sess upd_sess].
    replace s3 with (fst (complete_flush (w_sess w) p now)) by (rewrite <- Hs, Ec; reflexivity). apply pb_complete_flush.
Qed.

Lemma step_M : forall st now w w', WInv (w_sess w) -> next_step (s_ob (w_sess w)) = Some st ->
  perform_outbound_step st now w = (w', ODone true) -> M (w_sess w') < M (w_sess w).
Proof.
  intros st now w w' I Hn H. unfold M.
  pose proof (progress_decreases_work st now w w' I Hn H). pose proof (step_pbudget st now w w' H). lia.
Qed.

Lemma step_never_idle : forall st now w w', next_step (s_ob (w_sess w)) = Some st ->
  perform_outbound_step st now w = (w', ODone false) -> False.
Proof.
  intros st now w w' Hn H. unfold perform_outbound_step in H.
  destruct (prepare_step (w_sess w) st) as [p bs written len|p| |e] eqn:Ep; try discriminate.
  - destruct (negb (w_live w)); [discriminate|].
    destruct (io_write (dropN written bs) w) as [w1 r0]. destruct r0 as [n| |]; try discriminate.
    destruct (N.eqb n 0); [discriminate|].
    destruct (set_written (w_sess w1) p (written + n) len) as [s2 found].
    destruct (negb found); [discriminate|]. destruct (written + n <? len); [discriminate|].
    unfold flush_current in H. destruct (negb (w_live (upd_sess w1 s2))); [discriminate|].
    destruct (io_flush (upd_sess w1 s2)) as [w2 fr]. destruct fr; try discriminate.
    destruct (complete_flush (w_sess w2) p now) as [s3 f3]. destruct f3; discriminate.
  - unfold flush_current in H. destruct (negb (w_live w)); [discriminate|].
    destruct (io_flush w) as [w1 fr]. destruct fr; try discriminate.
    destruct (complete_flush (w_sess w1) p now) as [s3 f3]. destruct f3; discriminate.
  - apply prepare_done_sent in Ep. exact (next_step_not_sent _ _ Hn Ep).
Qed.

Lemma step_never_fuel : forall st now w w', perform_outbound_step st now w = (w', OFuel) -> False.
Proof.
  intros st now w w' H. unfold perform_outbound_step in H.
  destruct (prepare_step (w_sess w) st) as [p bs written len|p| |e]; try discriminate.
  - destruct (negb (w_live w)); [discriminate|].
    destruct (io_write (dropN written bs) w) as [w1 r0]. destruct r0 as [n| |]; try discriminate.
    destruct (N.eqb n 0); [discriminate|].
    destruct (set_written (w_sess w1) p (written + n) len) as [s2 found].
    destruct (negb found); [discriminate|]. destruct (written + n <? len); [discriminate|].
    unfold flush_current in H. destruct (negb (w_live (upd_sess w1 s2))); [discriminate|].
    destruct (io_flush (upd_sess w1 s2)) as [w2 fr]. destruct fr; try discriminate.
    destruct (complete_flush (w_sess w2) p now) as [s3 f3]. destruct f3; discriminate.
  - unfold flush_current in H. destruct (negb (w_live w)); [discriminate|].
    destruct (io_flush w) as [w1 fr]. destruct fr; try discriminate.
    destruct (complete_flush (w_sess w1) p now) as [s3 f3]. destruct f3; discriminate.
Qed.

(* ---------- the loops ---------- *)
Theorem flush_outbound_terminates : forall fuel w,
  WInv (w_sess w) -> M (w_sess w) < N.of_nat fuel -> snd (flush_outbound fuel w) <> OFuel.
Proof.
  induction fuel as [|f IH]; intros w I Hm; [cbn in Hm; lia|]. cbn [flush_outbound].
  destruct (maybe_queue_pingreq (w_sess w) (w_now w)) as [s1 e] eqn:Eq.
  pose proof (ping_M (w_sess w) (w_now w)) as Hp. rewrite Eq in Hp. cbn [fst] in Hp.
  destruct e; [cbn [snd]; discriminate|].
  set (w1 := upd_sess w s1).
  assert (I1 : WInv (w_sess w1)).
  { cbn [w1 w_sess upd_sess]. replace s1 with (fst (maybe_queue_pingreq (w_sess w) (w_now w))) by now rewrite Eq.
    eapply WInv_step; [apply SS_ping|exact I]. }
  cbn [w_sess upd_sess]. fold w1. change s1 with (w_sess w1).
  destruct (next_step (s_ob (w_sess w1))) as [st|] eqn:En; [|cbn [snd]; discriminate].
  destruct (perform_outbound_step st (w_now w) w1) as [w2 r] eqn:Es.
  destruct r as [b| e | | |]; cbn [snd]; try discriminate; [|exfalso; exact (step_never_fuel _ _ _ _ Es)].
  destruct b; [|exfalso; exact (step_never_idle _ _ _ _ En Es)].
  pose proof (step_M _ _ _ _ I1 En Es) as Hd. cbn [w1 w_sess upd_sess] in Hd.
  apply IH.
  - eapply WInv_wq; [|exact I1]. pose proof (perform_outbound_step_wq st (w_now w) w1 En) as Hq. now rewrite Es in Hq.
  - lia.
Qed.

Theorem drive_loop_terminates : forall fuel adv w,
  WInv (w_sess w) -> NA w -> M (w_sess w) < N.of_nat fuel -> snd (drive_loop fuel adv w) <> OFuel.
Proof.
  induction fuel as [|f IH]; intros adv w I Hna Hm; [cbn in Hm; lia|]. cbn [drive_loop].
  destruct (process_received w) as [w1 r1] eqn:Ep.
  destruct (process_received_pres w w1 r1 Ep) as [Pa _]. specialize (Pa Hna). subst w1.
  assert (Er : r1 = ODone None).
  { unfold process_received in Ep. unfold NA in Hna. rewrite Hna in Ep. cbn [negb] in Ep. now inversion Ep. }
  subst r1. unfold NA in Hna. rewrite Hna.
  destruct (service (w_now w) w) as [w2 r2] eqn:Es.
  destruct (service_pres (w_now w) w w2 r2 I Hna Es) as [_ [Na2 _]].
  assert (I2 : WInv (w_sess w2)).
  { eapply WInv_wq; [|exact I]. pose proof (service_wq (w_now w) w) as Hq. now rewrite Es in Hq. }
  destruct r2 as [b|e| | |]; cbn [snd]; try discriminate.
  2:{ (* the service step itself never reports fuel *) exfalso. unfold service in Es.
      destruct (ping_timed_out _ _); [discriminate|]. destruct (maybe_queue_pingreq _ _) as [s1 e]. destruct e; [discriminate|].
      destruct (next_step _); [|discriminate]. exact (step_never_fuel _ _ _ _ Es). }
  destruct (next_step (s_ob (w_sess w2))) as [st2|] eqn:En2; [|cbn [snd]; discriminate].
  (* the step made progress: M went down *)
  assert (Hd : M (w_sess w2) < M (w_sess w)).
  { unfold service in Es. destruct (ping_timed_out _ _); [discriminate|].
    destruct (maybe_queue_pingreq (w_sess w) (w_now w)) as [s1 e] eqn:Eq.
    pose proof (ping_M (w_sess w) (w_now w)) as Hp. rewrite Eq in Hp. cbn [fst] in Hp.
    destruct e; [discriminate|]. set (w1 := upd_sess w s1) in *.
    assert (I1 : WInv (w_sess w1)).
    { cbn [w1 w_sess upd_sess]. replace s1 with (fst (maybe_queue_pingreq (w_sess w) (w_now w))) by now rewrite Eq.
      eapply WInv_step; [apply SS_ping|exact I]. }
    destruct (next_step (s_ob (w_sess w1))) as [st|] eqn:En.
    - destruct b; [|exfalso; exact (step_never_idle _ _ _ _ En Es)].
      pose proof (step_M _ _ _ _ I1 En Es) as Hd. cbn [w1 w_sess upd_sess] in Hd. lia.
    - inversion Es; subst w2. rewrite En in En2. discriminate. }
  apply IH; [exact I2|exact Na2|lia].
Qed.

Theorem op_drive_terminates : forall fuel w,
  WInv (w_sess w) -> NAl w -> M (w_sess w) < N.of_nat fuel -> snd (op_drive fuel w) <> OFuel.
Proof.
  intros fuel w I Hn Hm. unfold op_drive. destruct (drive_packet fuel w) as [w1 r] eqn:Ed. unfold drive_packet in Ed.
  destruct (w_live w) eqn:Hl; cbn [negb] in Ed; [|inversion Ed; subst; cbn [snd]; discriminate].
  pose proof (drive_loop_terminates fuel false w I (Hn Hl) Hm) as Ht. rewrite Ed in Ht. cbn [snd] in Ht.
  destruct r as [[| |p]|e| | |]; cbn [snd]; try discriminate. congruence.
Qed.

(* ---------- non-vacuity: a resumed connection with a retained publish to replay ---------- *)
From Minimq Require Import ConnectOk.
Definition ex_resumed : world := run_action (AConnect []) ex_broken.
Example terminate_example :
  w_live ex_resumed = true /\ work (s_ob (w_sess ex_resumed)) = 13 /\ M (w_sess ex_resumed) < N.of_nat FUEL /\
  packet_available (s_reader (w_sess ex_resumed)) = false /\
  snd (op_drive FUEL ex_resumed) = ODone None /\ work (s_ob (w_sess (fst (op_drive FUEL ex_resumed)))) = 0.
Proof. vm_compute. repeat split; reflexivity. Qed.

(* ---------- the measure is bounded by the arena: FUEL suffices in every reachable world ---------- *)
From Minimq Require Import CodecProofs Reach ArenaLemmas ArenaOps.

Lemma enc_ack_len : forall typ pid rc off bs, enc_ack CONTROL_PACKET_LEN typ pid rc = SOk off bs -> lenN bs <= 5.
Proof.
  intros typ pid rc off bs E. unfold enc_ack in E.
  destruct (encode_chunks_content _ _ _ _ _ _ E) as [rl [body [Hc [Hb Hv]]]].
  assert (Hbody : lenN body = 3).
  { unfold ack_chunks, concat_chunks in Hc. cbn in Hc. inversion Hc; subst body. reflexivity. }
  rewrite Hbody in Hv. inversion Hv; subst rl. rewrite Hb, lenN_cons, lenN_app, Hbody. cbn. lia.
Qed.

Lemma ctl_bytes_len : forall a, lenN (ctl_bytes a) <= 5.
Proof.
  intros a. unfold ctl_bytes. destruct (encode_control_packet a) as [off bs|e] eqn:E; [|cbn; lia].
  destruct a as [pid rc|pid rc|pid rc|]; cbn [encode_control_packet] in E; try (eapply enc_ack_len; exact E).
  vm_compute in E. inversion E; subst. vm_compute. discriminate.
Qed.

Lemma rel_bytes_len : forall pid rc, lenN (rel_bytes pid rc) <= 5.
Proof.
  intros. unfold rel_bytes. destruct (encode_pubrel pid rc) as [off bs|e] eqn:E; [|cbn; lia].
  unfold encode_pubrel in E. eapply enc_ack_len; exact E.
Qed.

Lemma st_weight_le : forall st len, st_weight st len <= 2 + len.
Proof. intros [w| |] len; unfold st_weight; lia. Qed.

Lemma work_ctl_le : forall l, work_ctl l <= 7 * glen l.
Proof.
  induction l as [|x t IH]; [cbn; lia|]. rewrite work_ctl_cons. cbn [glen].
  pose proof (st_weight_le (ce_st x) (lenN (ctl_bytes (ce_act x)))). pose proof (ctl_bytes_len (ce_act x)). lia.
Qed.

Lemma work_rel_le : forall l, work_rel l <= 7 * glen l.
Proof.
  induction l as [|x t IH]; [cbn; lia|]. rewrite work_rel_cons. cbn [glen].
  pose proof (st_weight_le (le_st x) (lenN (rel_bytes (le_pid x) (le_rc x)))). pose proof (rel_bytes_len (le_pid x) (le_rc x)). lia.
Qed.

Lemma work_ret_le : forall es lo used, wf_layout lo es used -> work_ret es + lo <= 2 * glen es + used.
Proof.
  induction es as [|e t IH]; intros lo used H; cbn [wf_layout] in H.
  - cbn. lia.
  - destruct H as [H1 [H2 H3]]. rewrite work_ret_cons. cbn [glen]. specialize (IH _ _ H3).
    pose proof (st_weight_le (re_st e) (re_len e)). lia.
Qed.

Theorem M_bounded : forall s, Inv s -> M s <= lenN (ob_buf (s_ob s)) + 133.
Proof.
  intros s [[[Hl Hu] Hr Hre Hc _ _] _ _]. unfold M, work, pbudget.
  pose proof (work_ctl_le (ob_ctl (s_ob s))). pose proof (work_rel_le (ob_rel (s_ob s))).
  pose proof (work_ret_le _ _ _ Hl).
  destruct (rt_ping_timeout (s_rt s)); [|destruct (has_pending_pingreq (s_ob s))]; lia.
Qed.

(* every reachable world of a client whose transmit arena is at most 29 000 bytes: drive() cannot spin *)
Theorem reachable_drive_terminates : forall c, cf_tx (c_cfg c) <= 29000 ->
  let w := run_case c in halted w = false -> snd (op_drive FUEL w) <> OFuel.
Proof.
  intros c Hc w Hh. destruct (run_case_good c) as [I [_ Hn]]. fold w in I, Hn.
  destruct Hn as [Hn|Hn]; [congruence|].
  apply op_drive_terminates; [exact I|exact Hn|].
  pose proof (M_bounded (w_sess w) (proj1 I)) as Hb. unfold w in Hb. rewrite reachable_Cap in Hb.
  change (N.of_nat FUEL) with 30000. fold w in Hb. lia.
Qed.
