(* Connack.v — exactly which successful CONNACKs the handshake accepts: every property list whose block decodes is
   accepted unless it carries Receive Maximum 0, a Maximum QoS above 2 (both protocol errors of the broker) — or an
   Assigned Client Identifier longer than the 64 bytes the session can store (valid MQTT 5: known finding K08a). *)
From Coq Require Import List NArith Lia Bool.
From Minimq Require Import Bytes Varint Utf8 Props Ser De Reader Arena Core.
From Minimq Require Import Util VarintProofs SerLemmas CodecProofs.
Import ListNotations.
Open Scope N_scope.

Definition connack_prop_ok (p : prop) : bool :=
  match pk p with
  | KAssignedClientIdentifier => lenN (pdata p) <=? 64
  | KReceiveMaximum => negb (N.eqb (pnum p) 0)
  | KMaximumQoS => pnum p <=? 2
  | _ => true
  end.

Lemma qos_of_n_some : forall n, n <= 2 -> exists q, qos_of_n n = Some q.
Proof.
  intros n H. assert (E : n = 0 \/ n = 1 \/ n = 2) by lia. destruct E as [E|[E|E]]; subst; eexists; reflexivity.
Qed.
Lemma qos_of_n_none : forall n, 2 < n -> qos_of_n n = None.
Proof.
  intros n H. unfold qos_of_n. destruct (N.eqb_spec n 0); [lia|]. destruct (N.eqb_spec n 1); [lia|]. destruct (N.eqb_spec n 2); [lia|reflexivity].
Qed.

Lemma connack_props_some : forall ps lq a, forallb connack_prop_ok ps = true -> exists a', connack_props (map Some ps) lq a = Some a'.
Proof.
  induction ps as [|p t IH]; intros lq a H; cbn [map connack_props forallb] in *; [eexists; reflexivity|].
  apply andb_true_iff in H. destruct H as [Hp Ht]. unfold connack_prop_ok in Hp.
  destruct (pk p); try (apply IH; exact Ht).
  - destruct (N.ltb_spec 64 (lenN (pdata p))) as [L|L]; [apply N.leb_le in Hp; lia|]. apply IH; exact Ht.
  - destruct (N.eqb (pnum p) 0); [discriminate|]. apply IH; exact Ht.
  - apply N.leb_le in Hp. destruct (qos_of_n_some _ Hp) as [q Eq]. rewrite Eq. apply IH; exact Ht.
Qed.

Lemma connack_props_none : forall ps lq a, forallb connack_prop_ok ps = false -> connack_props (map Some ps) lq a = None.
Proof.
  induction ps as [|p t IH]; intros lq a H; cbn [map connack_props forallb] in *; [discriminate|].
  apply andb_false_iff in H. unfold connack_prop_ok in H.
  destruct (pk p); try (destruct H as [H|H]; [discriminate|apply IH; exact H]).
  - destruct (N.ltb_spec 64 (lenN (pdata p))) as [L|L]; [reflexivity|].
    destruct H as [H|H]; [apply N.leb_gt in H; lia|apply IH; exact H].
  - destruct (N.eqb (pnum p) 0); [reflexivity|]. destruct H as [H|H]; [discriminate|apply IH; exact H].
  - destruct H as [H|H].
    + apply N.leb_gt in H. now rewrite qos_of_n_none.
    + destruct (qos_of_n (pnum p)); [apply IH; exact H|reflexivity].
Qed.

Theorem connack_accepted_iff : forall s sp ps block now,
  encode_all ps = Some block -> forallb prop_wf ps = true -> forallb prop_canon ps = true ->
  snd (connack_process s (Some (RConnAck sp 0 block)) now) =
    if forallb connack_prop_ok ps then CAOk sp else CAErr EInvalidPacket true.
Proof.
  intros s sp ps block now He Hw Hc. unfold connack_process. change (rc_success 0) with true. cbn [negb].
  rewrite (props_iter_roundtrip ps block He Hw Hc).
  destruct (forallb connack_prop_ok ps) eqn:Ok.
  - match goal with |- context [connack_props (map Some ps) ?lq ?a] => destruct (connack_props_some ps lq a Ok) as [a' Ea]; rewrite Ea end.
    reflexivity.
  - match goal with |- context [connack_props (map Some ps) ?lq ?a] => rewrite (connack_props_none ps lq a Ok) end. reflexivity.
Qed.

(* K08a: a valid CONNACK — reason 0, one property: Assigned Client Identifier of 65 letters — decodes, and is refused *)
Definition k08a_props : list prop := [mkprop KAssignedClientIdentifier 0 (repeat 97 65) []].
Definition k08a_packet : bytes :=
  match encode_all k08a_props with Some block => 32 :: 71 :: 0 :: 0 :: 68 :: block | None => [] end.

Theorem assigned_client_id_refuted :
  forallb prop_wf k08a_props = true /\ forallb prop_canon k08a_props = true /\
  lenN k08a_packet = 73 /\
  (exists block, from_buffer k08a_packet = Some (RConnAck false 0 block) /\ encode_all k08a_props = Some block) /\
  forall s now, snd (connack_process s (from_buffer k08a_packet) now) = CAErr EInvalidPacket true.
Proof.
  split; [reflexivity|]. split; [reflexivity|]. split; [reflexivity|]. split.
  - eexists. split; vm_compute; reflexivity.
  - intros s now.
    assert (E : exists block, from_buffer k08a_packet = Some (RConnAck false 0 block) /\ encode_all k08a_props = Some block)
      by (eexists; split; vm_compute; reflexivity).
    destruct E as [block [E1 E2]]. rewrite E1.
    rewrite (connack_accepted_iff s false k08a_props block now E2 eq_refl eq_refl). reflexivity.
Qed.
