(* Status.v — session-level facts behind C02, C03, C05 and C18: which steps can remove an operation from the
   in-flight lists, when the generation changes, what a fresh / resumed CONNACK does, the order of the lists. *)
From Coq Require Import Arith ZArith Lia ZifyBool ZifyN ZifyNat.
From Minimq Require Import Util Bytes Varint Utf8 Props Ser De Reader Arena Core.
From Minimq Require Import PacketShape.
From Minimq Require Import ArenaLemmas SerLemmas ArenaOps Inv Lts.

(* ---------- C18: status ---------- *)
Lemma status_invalidated : forall s o, status s o = StInvalidated <-> op_gen o <> s_gen s.
Proof.
  intros s o. unfold status. destruct (N.eqb_spec (op_gen o) (s_gen s)) as [E|E]; cbn [negb].
  - split; [|contradiction]. destruct (N.eqb (op_kind o) 1); [destruct (_ || _)|destruct (has_retained _ _)]; discriminate.
  - split; [intros _; exact E | reflexivity].
Qed.

Lemma has_retained_In : forall o pid, has_retained o pid = true <-> In pid (map re_pid (ob_ret o)).
Proof.
  intros. unfold has_retained. rewrite existsb_exists, in_map_iff. split; intros [e [H1 H2]]; exists e; split; try assumption; lia.
Qed.
Lemma has_release_In : forall o pid, has_pending_release o pid = true <-> In pid (map le_pid (ob_rel o)).
Proof.
  intros. unfold has_pending_release. rewrite existsb_exists, in_map_iff. split; intros [e [H1 H2]]; exists e; split; try assumption; lia.
Qed.

Lemma status_pending : forall s o, op_gen o = s_gen s ->
  (status s o = StPending <->
   (In (op_pid o) (map re_pid (ob_ret (s_ob s))) \/ (op_kind o = 1 /\ In (op_pid o) (map le_pid (ob_rel (s_ob s)))))).
Proof.
  intros s o Hg. unfold status. rewrite Hg, N.eqb_refl. cbn [negb].
  rewrite <- has_retained_In, <- has_release_In.
  destruct (N.eqb_spec (op_kind o) 1) as [Ek|Ek];
    destruct (has_retained (s_ob s) (op_pid o)); destruct (has_pending_release (s_ob s) (op_pid o)); cbn [orb];
    intuition (try discriminate; try congruence).
Qed.

(* a handle is complete exactly when it is neither invalidated nor pending *)
Lemma status_complete : forall s o, status s o = StComplete <-> (op_gen o = s_gen s /\ status s o <> StPending).
Proof.
  intros s o. unfold status. destruct (N.eqb_spec (op_gen o) (s_gen s)) as [E|E]; cbn [negb].
  - destruct (N.eqb (op_kind o) 1); [destruct (_ || _)|destruct (has_retained _ _)];
      intuition (try discriminate; try congruence).
  - intuition (try discriminate; try congruence).
Qed.

(* the generation changes only when a fresh broker session is established *)
Lemma gen_step : forall s l s', sstep s l s' ->
  s_gen s' = s_gen s \/ (exists u m, l = LConnack false u m /\ s_gen s' = (s_gen s + 1) mod 4294967296).
Proof.
  intros s l s' H. inversion H; subst; clear H; try (left; reflexivity).
  - left. unfold maybe_queue_pingreq. destruct (should_queue_pingreq _ _); [|reflexivity]. destruct (check_control_size _ _); [reflexivity|].
    destruct (queue_control _ _); reflexivity.
  - left. unfold set_written. destruct p; [destruct (set_control_written _ _ _ _)|destruct (set_release_written _ _ _ _)|destruct (set_retained_written _ _ _ _)]; reflexivity.
  - left. unfold complete_flush. destruct p; [destruct (flush_control _ _)|destruct (flush_release _ _)|destruct (flush_retained _ _)]; reflexivity.
  - left. assert (Hq : forall s0 a d, s_gen (fst (queue_ctl_checked s0 a d)) = s_gen s0).
    { intros. unfold queue_ctl_checked. destruct (check_control_size _ _); [reflexivity|]. destruct (queue_control _ _); reflexivity. }
    destruct p; cbn [handle_packet]; try reflexivity.
    + destruct q; [reflexivity| |]; destruct pid; try reflexivity; try apply Hq.
      match goal with |- context [queue_ctl_checked s ?a ?dl] =>
        pose proof (Hq s a dl) as Hq2; destruct (queue_ctl_checked s a dl) as [s1 hr] end.
      cbn [fst] in Hq2 |- *. destruct hr; [destruct (_ || _)|]; exact Hq2.
    + destruct (ack_packet _ _) as [o f]. destruct f; cbn [negb]; [|reflexivity]. destruct (rc_success _); reflexivity.
    + destruct (ack_packet _ _) as [o f]. destruct f.
      * destruct (negb _); [reflexivity|]. destruct (check_pubrel_size _ _ _); [reflexivity|]. destruct (queue_release _ _ _); reflexivity.
      * destruct (has_pending_release _ _); [destruct (rc_success _)|]; reflexivity.
    + destruct (swap_remove_id _ _); now rewrite Hq.
    + destruct (ack_release _ _) as [o f]. destruct f; cbn [negb]; [|reflexivity]. destruct (rc_success _); reflexivity.
    + destruct (ack_packet _ _) as [o f]. destruct f; cbn [negb]; [|reflexivity]. destruct (all_success _); reflexivity.
    + destruct (ack_packet _ _) as [o f]. destruct f; cbn [negb]; [|reflexivity]. destruct (all_success _); reflexivity.
  - left. unfold publish_middle. destruct (negb (props_valid_for _ _)); [reflexivity|]. destruct (effective_qos _ _).
    + destruct (negb _); [reflexivity|]. destruct (enc_publish _ _); [|reflexivity]. destruct (too_large _ _); [reflexivity|]. destruct (negb live); reflexivity.
    + unfold next_packet_id. destruct (next_packet_id_go _ _ _). destruct (retained_full _); [reflexivity|]. destruct (negb _); [reflexivity|].
      destruct (encode_at _ _) as [o1 er]. destruct er; [|reflexivity]. destruct (too_large _ _); [reflexivity|]. destruct (retain_packet _ _ _ _); reflexivity.
    + unfold next_packet_id. destruct (next_packet_id_go _ _ _). destruct (retained_full _); [reflexivity|]. destruct (negb _); [reflexivity|].
      destruct (encode_at _ _) as [o1 er]. destruct er; [|reflexivity]. destruct (too_large _ _); [reflexivity|]. destruct (retain_packet _ _ _ _); reflexivity.
  - left. unfold subscribe_middle, enqueue_middle. destruct (retained_full _); [reflexivity|]. unfold next_packet_id. destruct (next_packet_id_go _ _ _).
    destruct (encode_at _ _) as [o1 er]. destruct er; [|reflexivity]. destruct (too_large _ _); [reflexivity|]. destruct (retain_packet _ _ _ _); reflexivity.
  - left. unfold unsubscribe_middle, enqueue_middle. destruct (retained_full _); [reflexivity|]. unfold next_packet_id. destruct (next_packet_id_go _ _ _).
    destruct (encode_at _ _) as [o1 er]. destruct er; [|reflexivity]. destruct (too_large _ _); [reflexivity|]. destruct (retain_packet _ _ _ _); reflexivity.
  - unfold connack_label, connack_process. destruct p as [p|]; [|left; reflexivity]. destruct p; try (left; reflexivity).
    destruct (negb _); [left; reflexivity|]. destruct (connack_props _ _ _); cbn [fst snd]; [|left; reflexivity].
    destruct sp; [left; reflexivity|]. right. cbn [data_reset s_gen]. eexists _, _. split; reflexivity.
Qed.

(* a failure reason code in an acknowledgement is surfaced as Rejected after the entry has been removed *)
Lemma puback_rejected : forall s pid rc o, ack_packet (s_ob s) pid = (o, true) -> rc_success rc = false ->
  handle_packet s (RPubAck pid rc) = (set_rt (set_ob s o) (quota_inc (s_rt s)), HErr (ERejected rc)).
Proof. intros s pid rc o H Hr. cbn [handle_packet]. rewrite H. cbn [negb]. now rewrite Hr. Qed.

Lemma pubrec_rejected_ends_exchange : forall s pid rc o, ack_packet (s_ob s) pid = (o, true) -> rc_success rc = false ->
  handle_packet s (RPubRec pid rc) = (set_rt (set_ob s o) (quota_inc (s_rt s)), HErr (ERejected rc)).
Proof. intros s pid rc o H Hr. cbn [handle_packet]. rewrite H. now rewrite Hr. Qed.

(* ---------- C05: session-present mirror ---------- *)
Lemma clean_start_mirror : forall s, cq_clean (connect_request s) = negb (s_sp s).
Proof. reflexivity. Qed.
Lemma connect_client_id : forall s, cq_client_id (connect_request s) = s_client_id s.
Proof. reflexivity. Qed.

Lemma sp_monotone : forall s l s', sstep s l s' -> s_sp s = true -> s_sp s' = true.
Proof.
  intros s l s' H Hs. inversion H; subst; clear H; try exact Hs.
  - unfold maybe_queue_pingreq. destruct (should_queue_pingreq _ _); [|exact Hs]. destruct (check_control_size _ _); [exact Hs|].
    destruct (queue_control _ _); exact Hs.
  - unfold set_written. destruct p; [destruct (set_control_written _ _ _ _)|destruct (set_release_written _ _ _ _)|destruct (set_retained_written _ _ _ _)]; exact Hs.
  - unfold complete_flush. destruct p; [destruct (flush_control _ _)|destruct (flush_release _ _)|destruct (flush_retained _ _)]; exact Hs.
  - assert (Hq : forall s0 a d, s_sp (fst (queue_ctl_checked s0 a d)) = s_sp s0).
    { intros. unfold queue_ctl_checked. destruct (check_control_size _ _); [reflexivity|]. destruct (queue_control _ _); reflexivity. }
    destruct p; cbn [handle_packet]; try exact Hs.
    + destruct q; [exact Hs| |]; destruct pid; try exact Hs; try (now rewrite Hq).
      q2_split; now rewrite Hq.
    + destruct (ack_packet _ _) as [o f]. destruct f; cbn [negb]; [|exact Hs]. destruct (rc_success _); exact Hs.
    + destruct (ack_packet _ _) as [o f]. destruct f.
      * destruct (negb _); [exact Hs|]. destruct (check_pubrel_size _ _ _); [exact Hs|]. destruct (queue_release _ _ _); exact Hs.
      * destruct (has_pending_release _ _); [destruct (rc_success _)|]; exact Hs.
    + destruct (swap_remove_id _ _); now rewrite Hq.
    + destruct (ack_release _ _) as [o f]. destruct f; cbn [negb]; [|exact Hs]. destruct (rc_success _); exact Hs.
    + destruct (ack_packet _ _) as [o f]. destruct f; cbn [negb]; [|exact Hs]. destruct (all_success _); exact Hs.
    + destruct (ack_packet _ _) as [o f]. destruct f; cbn [negb]; [|exact Hs]. destruct (all_success _); exact Hs.
  - unfold publish_middle. destruct (negb (props_valid_for _ _)); [exact Hs|]. destruct (effective_qos _ _).
    + destruct (negb _); [exact Hs|]. destruct (enc_publish _ _); [|exact Hs]. destruct (too_large _ _); [exact Hs|]. destruct (negb live); exact Hs.
    + unfold next_packet_id. destruct (next_packet_id_go _ _ _). destruct (retained_full _); [exact Hs|]. destruct (negb _); [exact Hs|].
      destruct (encode_at _ _) as [o1 er]. destruct er; [|exact Hs]. destruct (too_large _ _); [exact Hs|]. destruct (retain_packet _ _ _ _); exact Hs.
    + unfold next_packet_id. destruct (next_packet_id_go _ _ _). destruct (retained_full _); [exact Hs|]. destruct (negb _); [exact Hs|].
      destruct (encode_at _ _) as [o1 er]. destruct er; [|exact Hs]. destruct (too_large _ _); [exact Hs|]. destruct (retain_packet _ _ _ _); exact Hs.
  - unfold subscribe_middle, enqueue_middle. destruct (retained_full _); [exact Hs|]. unfold next_packet_id. destruct (next_packet_id_go _ _ _).
    destruct (encode_at _ _) as [o1 er]. destruct er; [|exact Hs]. destruct (too_large _ _); [exact Hs|]. destruct (retain_packet _ _ _ _); exact Hs.
  - unfold unsubscribe_middle, enqueue_middle. destruct (retained_full _); [exact Hs|]. unfold next_packet_id. destruct (next_packet_id_go _ _ _).
    destruct (encode_at _ _) as [o1 er]. destruct er; [|exact Hs]. destruct (too_large _ _); [exact Hs|]. destruct (retain_packet _ _ _ _); exact Hs.
  - unfold connack_process. destruct p as [p|]; [|exact Hs]. destruct p; try exact Hs.
    destruct (negb _); [exact Hs|]. destruct (connack_props _ _ _); [|exact Hs]. reflexivity.
Qed.

(* a successful CONNACK always leaves session_present set *)
Lemma connack_sets_sp : forall s p now r, snd (connack_process s p now) = CAOk r -> s_sp (fst (connack_process s p now)) = true.
Proof.
  intros s p now r H. unfold connack_process in *. destruct p as [p|]; [|discriminate]. destruct p; try discriminate.
  destruct (negb _); [discriminate|]. destruct (connack_props _ _ _); [|discriminate]. reflexivity.
Qed.

(* fresh session: everything in flight is discarded and every earlier handle is invalidated *)
Lemma connack_fresh : forall s p now s', connack_process s p now = (s', CAOk false) ->
  s_ob s' = ob_clear (s_ob s) /\ s_srv s' = [] /\ s_gen s' = (s_gen s + 1) mod 4294967296 /\ s_pid s' = 1 /\
  (forall o, op_gen o = s_gen s -> s_gen s < 4294967296 -> status s' o = StInvalidated).
Proof.
  intros s p now s' H. unfold connack_process in H. destruct p as [p|]; [|discriminate]. destruct p; try discriminate.
  destruct (negb _); [discriminate|]. destruct (connack_props _ _ _); [|discriminate].
  destruct sp; inversion H; subst; clear H. cbn [s_ob s_srv s_gen s_pid data_reset].
  refine (conj eq_refl (conj eq_refl (conj eq_refl (conj eq_refl _)))).
  intros o Hg Hb. apply status_invalidated. cbn [s_gen]. rewrite Hg.
  destruct (N.eqb_spec (s_gen s + 1) 4294967296) as [E|E].
  - rewrite E. change (4294967296 mod 4294967296) with 0. lia.
  - rewrite N.mod_small by lia. lia.
Qed.

(* resumed session: nothing in flight is touched *)
Lemma connack_resumed : forall s p now s', connack_process s p now = (s', CAOk true) ->
  s_ob s' = s_ob s /\ s_srv s' = s_srv s /\ s_gen s' = s_gen s /\ s_pid s' = s_pid s.
Proof.
  intros s p now s' H. unfold connack_process in H. destruct p as [p|]; [|discriminate]. destruct p; try discriminate.
  destruct (negb _); [discriminate|]. destruct (connack_props _ _ _); [|discriminate].
  destruct sp; inversion H; subst. repeat split; reflexivity.
Qed.

(* a rejected or invalid CONNACK leaves the session's in-flight state, generation and session-present flag alone *)
Lemma connack_failed_keeps : forall s p now s' e d, connack_process s p now = (s', CAErr e d) -> s' = s.
Proof.
  intros s p now s' e d H. unfold connack_process in H. destruct p as [p|]; [|inversion H; reflexivity].
  destruct p; try (inversion H; reflexivity).
  destruct (negb _); [inversion H; reflexivity|]. destruct (connack_props _ _ _); inversion H. reflexivity.
Qed.

(* ---------- C02 / C03: replay state and order ---------- *)
(* arm_replay: every queued entry restarts from byte 0 *)
Lemma arm_replay_states : forall o, has_pending_state o = true ->
  Forall (fun e => re_st e = SWrite 0) (ob_ret (arm_replay o)) /\
  Forall (fun e => le_st e = SWrite 0) (ob_rel (arm_replay o)) /\
  Forall (fun e => ce_st e = SWrite 0) (ob_ctl (arm_replay o)) /\
  map re_pid (ob_ret (arm_replay o)) = map re_pid (ob_ret o) /\
  map le_pid (ob_rel (arm_replay o)) = map le_pid (ob_rel o).
Proof.
  intros o H. unfold arm_replay. rewrite H. cbn [negb ob_ret ob_rel ob_ctl].
  unfold mark_retained_dup. cbn [ob_ret ob_rel ob_ctl].
  repeat split; try (apply Forall_forall; intros x Hx; apply in_map_iff in Hx; destruct Hx as [y [<- _]]; reflexivity);
    rewrite map_map; reflexivity.
Qed.

(* next_step never returns a Sent entry: within one connection nothing is written twice *)
Definition step_state (st : ostep) : sstate := match st with StCtl _ s | StRel _ _ s | StRet _ _ _ s => s end.

Lemma pass_state : forall o p st, next_step_pass o p = Some st -> matches_priority (step_state st) p = true.
Proof.
  intros o p st H. unfold next_step_pass, orelse, find_ctl, find_rel, find_ret in H.
  destruct (find (fun e => matches_priority (ce_st e) p) (ob_ctl o)) as [e|] eqn:E1.
  - inversion H; subst. apply find_some in E1. exact (proj2 E1).
  - destruct (find (fun e => matches_priority (le_st e) p) (ob_rel o)) as [e|] eqn:E2.
    + inversion H; subst. apply find_some in E2. exact (proj2 E2).
    + destruct (find (fun e => matches_priority (re_st e) p) (ob_ret o)) as [e|] eqn:E3; [|discriminate].
      inversion H; subst. apply find_some in E3. exact (proj2 E3).
Qed.

Lemma next_step_not_sent : forall o st, next_step o = Some st -> step_state st <> SSent.
Proof.
  intros o st H. unfold next_step, orelse in H.
  destruct (next_step_pass o true) as [st1|] eqn:E1.
  - inversion H; subst. apply pass_state in E1. intros Hs. rewrite Hs in E1. discriminate.
  - apply pass_state in H. intros Hs. rewrite Hs in H. discriminate.
Qed.

(* the PUBREC step is atomic: in one step the identifier leaves the retained list and joins the release list *)
Lemma pubrec_moves : forall s pid rc o o2, Inv s ->
  ack_packet (s_ob s) pid = (o, true) -> rc_success rc = true ->
  check_pubrel_size (rt_mps (s_rt s)) pid 0 = None -> queue_release o pid 0 = Some o2 ->
  handle_packet s (RPubRec pid rc) = (set_ob (set_ob s o) o2, HOk false) /\
  ~ In pid (map re_pid (ob_ret o2)) /\ In pid (map le_pid (ob_rel o2)).
Proof.
  intros s pid rc o o2 I Ha Hr Hc Hq. cbn [handle_packet]. rewrite Ha, Hr. cbn [negb set_ob s_rt]. rewrite Hc.
  cbn [set_ob s_ob]. rewrite Hq. split; [reflexivity|].
  destruct (ack_packet_found _ _ _ (inv_ob _ I) Ha) as [_ [Hn _]].
  unfold queue_release in Hq. destruct (_ <=? _); [discriminate|]. inversion Hq; subst. cbn [ob_ret ob_rel].
  split.
  - intros Hin. apply Hn. unfold ids. apply in_or_app. now left.
  - rewrite map_app. apply in_or_app. right. now left.
Qed.

(* order: the release list only ever grows at the tail and shrinks by deleting one element in place, so the
   PUBRELs still owed are always in the order in which their PUBRECs were processed *)
Lemma remove_first_rel_order : forall pid es es', remove_first_rel pid es = Some es' ->
  exists a x b, es = a ++ x :: b /\ es' = a ++ b /\ le_pid x = pid.
Proof.
  induction es as [|e t IH]; intros es' H; cbn [remove_first_rel] in H; [discriminate|].
  destruct (N.eqb_spec (le_pid e) pid) as [E|E].
  - inversion H; subst. exists [], e, es'. repeat split; reflexivity.
  - destruct (remove_first_rel pid t) as [t'|]; [|discriminate]. inversion H; subst.
    destruct (IH t' eq_refl) as [a [x [b [H1 [H2 H3]]]]]. exists (e :: a), x, b. cbn [app]. now rewrite H1, H2.
Qed.
Lemma remove_first_ret_order : forall pid es es', remove_first_ret pid es = Some es' ->
  exists a x b, es = a ++ x :: b /\ es' = a ++ b /\ re_pid x = pid.
Proof.
  induction es as [|e t IH]; intros es' H; cbn [remove_first_ret] in H; [discriminate|].
  destruct (N.eqb_spec (re_pid e) pid) as [E|E].
  - inversion H; subst. exists [], e, es'. repeat split; reflexivity.
  - destruct (remove_first_ret pid t) as [t'|]; [|discriminate]. inversion H; subst.
    destruct (IH t' eq_refl) as [a [x [b [H1 [H2 H3]]]]]. exists (e :: a), x, b. cbn [app]. now rewrite H1, H2.
Qed.
Lemma queue_release_tail : forall o pid rc o', queue_release o pid rc = Some o' ->
  ob_rel o' = ob_rel o ++ [{| le_pid := pid; le_rc := rc; le_st := SWrite 0 |}].
Proof. intros o pid rc o' H. unfold queue_release in H. destruct (_ <=? _); [discriminate|]. now inversion H. Qed.

(* the engine serves fresh entries of one list strictly in list order *)
Lemma find_first_fresh : forall (l : list lentry) e, find (fun e => matches_priority (le_st e) false) l = Some e ->
  exists a b, l = a ++ e :: b /\ Forall (fun x => is_fresh (le_st x) = false) a.
Proof.
  induction l as [|x t IH]; intros e H; cbn [find] in H; [discriminate|].
  destruct (matches_priority (le_st x) false) eqn:E.
  - inversion H; subst. exists [], t. split; [reflexivity|constructor].
  - destruct (IH e H) as [a [b [H1 H2]]]. exists (x :: a), b. split; [now rewrite H1|]. constructor; [exact E|exact H2].
Qed.
