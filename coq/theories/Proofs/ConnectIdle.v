(* ConnectIdle.v — C12 / C16: where the histories of History.v start.  connect() of a client without keep-alive and with
   nothing in flight, on a behaving transport answered by a conformant broker, ends in the state `IdleQ` — for every
   configuration in which the CONNECT fits, for a fresh client as well as for one that resumes its session. *)
From Coq Require Import List NArith Lia Bool PeanoNat.
From Coq Require Import ZifyBool ZifyN ZifyNat.
From Minimq Require Import Bytes Varint Utf8 Props Ser De Reader Spec Arena Core Show Machine Parse Run Util Lts Refine
  VarintProofs SerLemmas CodecProofs BrokerProofs ArenaLemmas ArenaOps Inv Quota Status Persist Frames Limits Reach WireInv Chunking Wire Measure
  Terminate KeepAlive Reconnect ConnectOk PingQuiet Healthy Owed Sends Pings Framing Liveness PingAt PollReads Exchange Exchange2 Exchange3 CfgFrame History.
Import ListNotations.
Local Open Scope N_scope.
Local Opaque u16_be.

Lemma io_flush_healthy_bt : forall w, w_script w = [] -> bt (fst (io_flush w)) = bt w /\ w_wire (fst (io_flush w)) = w_wire w.
Proof. intros w Hs. unfold io_flush. rewrite (next_ev_healthy w Hs). cbn [N.eqb]. split; reflexivity. Qed.

(* the session a plain successful CONNACK leaves, when nothing was in flight and no keep-alive is configured *)
Lemma connack_idle_session : forall s sp now,
  ob_ctl (s_ob s) = [] -> ob_rel (s_ob s) = [] -> ob_ret (s_ob s) = [] ->
  (cf_keepalive_s (s_cfg s) mod 65536) * 1000 = 0 ->
  let s7 := fst (connack_process s (Some (RConnAck sp 0 [])) now) in
  ob_ctl (s_ob s7) = [] /\ ob_rel (s_ob s7) = [] /\ ob_ret (s_ob s7) = [] /\ ob_buf (s_ob s7) = ob_buf (s_ob s) /\
  s_reader s7 = s_reader s /\
  rt_ka_ms (s_rt s7) = 0 /\ rt_next_ping (s_rt s7) = None /\ rt_ping_timeout (s_rt s7) = None /\ rt_mps (s_rt s7) = None /\
  rt_quota (s_rt s7) = 8 /\ rt_maxquota (s_rt s7) = 8 /\ rt_maxqos (s_rt s7) = None.
Proof.
  intros s sp now Ec El Er Hka. unfold connack_process. change (rc_success 0) with true. cbn [negb].
  change (props_iter_encoded []) with (@nil (option prop)). cbn [connack_props]. cbv zeta. cbn [fst].
  cbn [s_ob s_reader s_rt ca_ka_ms ca_quota ca_maxquota ca_mps ca_maxqos].
  assert (Hob : s_ob (if sp then s else data_reset s) = (if sp then s_ob s else ob_clear (s_ob s))) by (destruct sp; reflexivity).
  assert (Hrd : s_reader (if sp then s else data_reset s) = s_reader s) by (destruct sp; reflexivity).
  assert (Hcf : s_cfg (if sp then s else data_reset s) = s_cfg s) by (destruct sp; reflexivity).
  rewrite Hob, Hrd.
  assert (Hun : unresolved_publishes (if sp then s_ob s else ob_clear (s_ob s)) = 0).
  { unfold unresolved_publishes. destruct sp; cbn [ob_clear ob_ret ob_rel ob_buf]; rewrite ?Er, ?El; reflexivity. }
  unfold note_outbound_activity, keepalive_send_interval. cbn [rt_ka_ms rt_with_timers rt_next_ping rt_ping_timeout rt_mps rt_quota rt_maxquota rt_maxqos].
  rewrite Hka, Hun. cbn [N.eqb].
  destruct sp; cbn [ob_clear ob_ctl ob_rel ob_ret ob_buf]; repeat split; assumption || reflexivity.
Qed.

Theorem connect_establishes_idle : forall w off bs,
  w_script w = [] -> w_broker w = 2 -> w_inq w = [] -> w_txbuf w = [] -> w_last_arrival w <= w_now w ->
  6 <= rcap (s_reader (w_sess w)) ->
  let s2 := connect_scratch (w_sess w) in
  enc_connect (ob_cap (s_ob s2) - ob_used (s_ob s2)) (connect_request s2) = SOk off bs -> lenN bs <= BIG ->
  WInv (w_sess w) ->
  ob_ctl (s_ob (w_sess w)) = [] -> ob_rel (s_ob (w_sess w)) = [] -> ob_ret (s_ob (w_sess w)) = [] ->
  (cf_keepalive_s (s_cfg (w_sess w)) mod 65536) * 1000 = 0 ->
  5 <= ob_cap (s_ob (w_sess w)) -> ob_cap (s_ob (w_sess w)) <= BIG ->
  exists w1 ev,
    op_connect FUEL w = (w1, ODone ev) /\ ev = (if s_sp (w_sess w) then 1 else 0) /\
    w_wire w1 = w_wire w ++ bs /\ w_now w1 = w_now w /\
    ob_cap (s_ob (w_sess w1)) = ob_cap (s_ob (w_sess w)) /\ s_cfg (w_sess w1) = s_cfg (w_sess w) /\
    rt_maxqos (s_rt (w_sess w1)) = None /\
    IdleQ (upd_broker (upd_live w1 true true ev) 1).
Proof.
  intros w off bs Hs Hb Hi Ht Hla Hrc s2 He Hl I0 Ec El Er Hka Hcap HB.
  destruct FUEL_big as [f Hf]. rewrite Hf.
  pose proof (op_connect_wq (S (S (S (S (S f))))) w) as Hwq.
  unfold op_connect in *. fold (connect_preamble (w_sess w)) in *.
  change (set_ob (connect_preamble (w_sess w)) (compact (s_ob (connect_preamble (w_sess w))))) with s2 in *.
  change (compact (s_ob (connect_preamble (w_sess w)))) with (s_ob s2) in *. rewrite He in *.
  destruct (connect_layout _ _ _ _ He) as [rl [rest [Ebs Hv]]].
  set (w2 := upd_sess w s2) in *.
  destruct (io_write_connect w2 (connect_flags (connect_request s2)) rl rest Hs Hb Ht Hv) as [w3 [Ew [S3 [C3 [T3 [B3 [N3 [I3 L3]]]]]]]]; [rewrite <- Ebs; exact Hl|].
  rewrite <- Ebs in Ew. cbn [w2 w_now w_inq w_last_arrival upd_sess] in N3, I3, L3. rewrite Hi in I3. cbn [app] in I3.
  replace (N.max (w_now w) (w_last_arrival w)) with (w_now w) in I3, L3 by lia.
  unfold direct_send in *. cbn [write_all] in *.
  assert (Hne : bs <> []) by (rewrite Ebs; discriminate). destruct bs as [|b0 bt0] eqn:Eb; [contradiction|]. rewrite <- Eb in *.
  assert (Hw3 : w_wire w3 = w_wire w ++ bs).
  { destruct (io_write_healthy w2 bs Hs Hne Hl) as [w3' [Ew' [_ [_ [_ [_ [Hwr _]]]]]]]. rewrite Ew in Ew'. inversion Ew'; subst w3'. exact Hwr. }
  rewrite Ew in *. destruct (N.eqb_spec (lenN bs) 0) as [E0|_]; [rewrite Eb, lenN_cons in E0; lia|].
  rewrite (dropN_all bs (lenN bs)) in * by lia. cbn [write_all bindu] in *.
  destruct (io_flush_healthy w3 C3) as [w4 [Ef [S4 [C4 [I4 [N4 L4]]]]]].
  pose proof (io_flush_healthy_bt w3 C3) as [B4 Hw4]. rewrite Ef in B4, Hw4. cbn [fst] in B4, Hw4.
  rewrite Ef in *. cbn [bindu] in *.
  set (w5 := upd_sess w4 (set_rt (w_sess w4) (rt_with_timers (s_rt (w_sess w4)) None None))) in *.
  assert (R5 : s_reader (w_sess w5) = reader_reset (s_reader (w_sess w))).
  { cbn [w5 w_sess upd_sess set_rt s_reader]. rewrite S4, S3. reflexivity. }
  destruct (fill_connack_full (S f) w5 (w_now w) (connect_flags (connect_request s2))) as [w6 [Ef6 [S6 [N6 [I6 C6]]]]].
  { now rewrite R5. } { now rewrite R5. } { rewrite R5. cbn [reader_reset rcap]. lia. }
  { cbn [w5 w_script upd_sess]. exact C4. }
  { cbn [w5 w_inq upd_sess]. rewrite I4. exact I3. }
  { cbn [w5 w_now upd_sess]. rewrite N4, N3. lia. }
  pose proof (fill_bt (S (S (S (S (S f))))) None w5) as B6. rewrite Ef6 in *. cbn [fst] in B6.
  unfold take_packet in *. rewrite S6 in *. cbn [set_reader s_reader rplen rdata] in *.
  change (takeN 5 (connack_for (connect_flags (connect_request s2)))) with (connack_for (connect_flags (connect_request s2))) in *.
  assert (Hdec : from_buffer (connack_for (connect_flags (connect_request s2)))
                 = Some (RConnAck (negb (N.testbit (connect_flags (connect_request s2)) 1)) 0 []))
    by exact (connack_decodes (N.testbit (connect_flags (connect_request s2)) 1)).
  rewrite Hdec in *.
  assert (Hsp : negb (N.testbit (connect_flags (connect_request s2)) 1) = s_sp (w_sess w)).
  { rewrite connect_flags_clean. change (cq_clean (connect_request s2)) with (negb (s_sp (w_sess w))). apply Bool.negb_involutive. }
  rewrite Hsp in *.
  set (sr := set_reader (set_reader (w_sess w5) {| rcap := rcap (s_reader (w_sess w5)); rdata := connack_for (connect_flags (connect_request s2)); rplen := Some 5 |})
                        (reader_reset {| rcap := rcap (s_reader (w_sess w5)); rdata := connack_for (connect_flags (connect_request s2)); rplen := Some 5 |})) in *.
  pose proof (plain_connack_accepted sr (s_sp (w_sess w)) (w_now w6)) as Hacc.
  (* the queues of the session the CONNACK meets are those of the idle client *)
  assert (Osr : s_ob sr = s_ob s2) by (unfold sr; cbn [set_reader s_ob w5 w_sess upd_sess set_rt]; rewrite S4, S3; reflexivity).
  assert (Os2 : s_ob s2 = {| ob_buf := ob_buf (s_ob (w_sess w)); ob_used := 0; ob_ctl := []; ob_ret := []; ob_rel := [] |}).
  { unfold s2, connect_scratch, connect_preamble. cbn [set_ob s_ob]. unfold arm_replay, has_pending_state. rewrite Ec, Er, El. cbn [negb orb].
    unfold compact. rewrite Er. cbn [compact_go]. rewrite Ec, El. reflexivity. }
  assert (Csr : s_cfg sr = s_cfg (w_sess w)) by (unfold sr; cbn [set_reader s_cfg w5 w_sess upd_sess set_rt]; rewrite S4, S3; reflexivity).
  destruct (connack_idle_session sr (s_sp (w_sess w)) (w_now w6)) as [Ec7 [El7 [Er7 [Bu7 [Rd7 [Ka7 [Np7 [Pt7 [Mp7 [Qu7 [Mq7 Mqs7]]]]]]]]]]];
    try (rewrite Osr, Os2; reflexivity); [rewrite Csr; exact Hka|].
  destruct (connack_process sr (Some (RConnAck (s_sp (w_sess w)) 0 [])) (w_now w6)) as [s7 cr] eqn:Ecp.
  cbn [snd] in Hacc. subst cr. cbn [fst] in *.
  eexists. eexists. split; [reflexivity|]. split; [reflexivity|].
  cbn [w_wire w_now w_sess upd_envok upd_sess].
  destruct (Wire.fill_same (S (S (S (S (S f))))) None w5) as [[Hwr6 _] _]. rewrite Ef6 in Hwr6. cbn [fst] in Hwr6.
  split; [first [rewrite Hwr6 | rewrite <- Hwr6]; cbn [w5 w_wire upd_sess]; rewrite Hw4; exact Hw3|].
  split; [rewrite N6; cbn [w5 w_now upd_sess]; rewrite N4; exact N3|].
  assert (Hbuf : ob_buf (s_ob s7) = ob_buf (s_ob (w_sess w))) by (rewrite Bu7, Osr, Os2; reflexivity).
  assert (Hcap7 : ob_cap (s_ob s7) = ob_cap (s_ob (w_sess w))) by (unfold ob_cap; rewrite Hbuf; reflexivity).
  cbn [fst] in Hwq.
  assert (Hcfg : s_cfg s7 = s_cfg (w_sess w)) by exact (wq_cfg _ _ Hwq).
  assert (I7 : WInv s7) by exact (WInv_wq _ _ Hwq I0).
  split; [exact Hcap7|]. split; [exact Hcfg|]. split; [exact Mqs7|].
  unfold bt in B4, B6. cbn [w5 w_broker w_txbuf w_last_arrival upd_sess] in B6.
  injection B4 as B4b B4t B4l. injection B6 as B6b B6t B6l.
  assert (Hrd7 : s_reader s7 = reader_reset {| rcap := rcap (s_reader (w_sess w5)); rdata := connack_for (connect_flags (connect_request s2)); rplen := Some 5 |})
    by (rewrite Rd7; reflexivity).
  assert (Hnow6 : w_now w6 = w_now w) by (rewrite N6; cbn [w5 w_now upd_sess]; rewrite N4; exact N3).
  split; [|cbn [upd_broker upd_live w_sess upd_envok upd_sess]; rewrite Qu7, Mq7, Hcap7; repeat split; try lia; exact Hcap].
  unfold Idle, Hc, rd. cbn [upd_broker upd_live upd_envok upd_sess w_sess w_script w_live w_now w_broker w_txbuf w_inq w_last_arrival].
  split.
  { split; [exact C6|]. split; [reflexivity|]. split; [exact I7|]. split; [exact Mp7|].
    split; [intros d E; rewrite Pt7 in E; discriminate E|]. split; [rewrite Hbuf; exact HB|].
    unfold Fr. rewrite Ec7, El7, Er7. repeat split; constructor. }
  split; [exact Ec7|]. split; [exact El7|]. split; [exact Er7|]. split; [exact Ka7|]. split; [exact Np7|]. split; [exact Pt7|].
  split; [reflexivity|]. split; [rewrite B6t, B4t; exact T3|]. split; [exact I6|].
  split; [rewrite B6l, B4l, L3, Hnow6; apply N.le_refl|].
  rewrite Hrd7. cbn [reader_reset rdata rplen rcap]. split; [reflexivity|]. split; [reflexivity|].
  rewrite R5. cbn [reader_reset rcap]. exact Hrc.
Qed.

(* ---------------------------------------------------------------- from connect() to the end of any history *)
(* with no Maximum QoS from the broker a request keeps the QoS it asks for: `request_ok` no longer mentions the session *)
Definition request_plain (cap : N) (q : request) : Prop :=
  match q with
  | ReqPublish r =>
      props_valid_for (pr_props r) CtxPublish = true /\ (exists ps, pr_props r = PSlice ps) /\ pr_qos r <> Q0 /\
      (forall id, exists off bs, enc_publish cap (pub_request r (pr_qos r) id) = SOk off bs)
  | ReqSubscribe topics ps =>
      topics <> [] /\ props_valid_for (PSlice ps) CtxSubscribe = true /\
      (forall id, exists off bs, enc_subscribe cap {| sq_pid := id; sq_props := ps; sq_topics := topics |} = SOk off bs)
  | ReqUnsubscribe topics ps =>
      topics <> [] /\ props_valid_for (PSlice ps) CtxUnsubscribe = true /\
      (forall id, exists off bs, enc_unsubscribe cap {| uq_pid := id; uq_props := ps; uq_topics := topics |} = SOk off bs)
  end.

Lemma request_plain_ok : forall cap w q, rt_maxqos (s_rt (w_sess w)) = None -> request_plain cap q -> request_ok cap w q.
Proof.
  intros cap w q Hm H. destruct q as [r|t ps|t ps]; cbn [request_plain request_ok] in *; [|exact H|exact H].
  assert (E : forall x, effective_qos (w_sess w) x = x) by (intros x; unfold effective_qos; rewrite Hm; reflexivity).
  rewrite !E. exact H.
Qed.

(* a client without keep-alive and with nothing in flight connects — for the first time or resuming its session — and then
   issues any list of acknowledged requests, each followed by its poll(): the connect succeeds and every request completes *)
Theorem connect_then_history_completes : forall w off bs qs,
  w_script w = [] -> w_broker w = 2 -> w_inq w = [] -> w_txbuf w = [] -> w_last_arrival w <= w_now w ->
  6 <= rcap (s_reader (w_sess w)) ->
  let s2 := connect_scratch (w_sess w) in
  enc_connect (ob_cap (s_ob s2) - ob_used (s_ob s2)) (connect_request s2) = SOk off bs -> lenN bs <= BIG ->
  WInv (w_sess w) ->
  ob_ctl (s_ob (w_sess w)) = [] -> ob_rel (s_ob (w_sess w)) = [] -> ob_ret (s_ob (w_sess w)) = [] ->
  (cf_keepalive_s (s_cfg (w_sess w)) mod 65536) * 1000 = 0 ->
  5 <= ob_cap (s_ob (w_sess w)) -> ob_cap (s_ob (w_sess w)) <= BIG ->
  Forall (request_plain (ob_cap (s_ob (w_sess w)))) qs ->
  exists w1 ev w',
    op_connect FUEL w = (w1, ODone ev) /\ w_wire w1 = w_wire w ++ bs /\
    history (upd_broker (upd_live w1 true true ev) 1) qs w' /\ IdleQ w' /\ w_now w' = w_now w.
Proof.
  intros w off bs qs Hs Hb Hi Ht Hla Hrc s2 He Hl I0 Ec El Er Hka Hcap HB HF.
  destruct (connect_establishes_idle w off bs Hs Hb Hi Ht Hla Hrc He Hl I0 Ec El Er Hka Hcap HB)
    as [w1 [ev [E1 [_ [Hw1 [Hn1 [Hc1 [_ [Hm1 HI1]]]]]]]]].
  set (wc := upd_broker (upd_live w1 true true ev) 1) in *.
  assert (HF' : Forall (request_ok (ob_cap (s_ob (w_sess wc))) wc) qs).
  { change (ob_cap (s_ob (w_sess wc))) with (ob_cap (s_ob (w_sess w1))). rewrite Hc1.
    eapply Forall_impl; [|exact HF]. intros q Hq. apply request_plain_ok; [exact Hm1|exact Hq]. }
  destruct (history_completes_static qs wc HI1 HF') as [w' [Hh [HI' Hn']]].
  exists w1, ev, w'. split; [exact E1|]. split; [exact Hw1|]. split; [exact Hh|]. split; [exact HI'|].
  rewrite Hn'. exact Hn1.
Qed.

(* ---------------------------------------------------------------- the hypotheses are met by a client that has never connected *)
Definition ex_pre : world := run_case {| c_cfg := ex_cfgh; c_prog := [ASetBroker 2]; c_script := [] |}.
Definition ex_connect_bytes : bytes :=
  match enc_connect (ob_cap (s_ob (connect_scratch (w_sess ex_pre))) - ob_used (s_ob (connect_scratch (w_sess ex_pre))))
                    (connect_request (connect_scratch (w_sess ex_pre))) with SOk _ bs => bs | SErr _ => [] end.

Example connect_then_history_hyps_met :
  w_script ex_pre = [] /\ w_broker ex_pre = 2 /\ w_inq ex_pre = [] /\ w_txbuf ex_pre = [] /\ w_last_arrival ex_pre <= w_now ex_pre /\
  6 <= rcap (s_reader (w_sess ex_pre)) /\
  (exists off, enc_connect (ob_cap (s_ob (connect_scratch (w_sess ex_pre))) - ob_used (s_ob (connect_scratch (w_sess ex_pre))))
                           (connect_request (connect_scratch (w_sess ex_pre))) = SOk off ex_connect_bytes) /\
  lenN ex_connect_bytes <= BIG /\ WInv (w_sess ex_pre) /\
  ob_ctl (s_ob (w_sess ex_pre)) = [] /\ ob_rel (s_ob (w_sess ex_pre)) = [] /\ ob_ret (s_ob (w_sess ex_pre)) = [] /\
  (cf_keepalive_s (s_cfg (w_sess ex_pre)) mod 65536) * 1000 = 0 /\
  5 <= ob_cap (s_ob (w_sess ex_pre)) /\ ob_cap (s_ob (w_sess ex_pre)) <= BIG /\
  Forall (request_plain (ob_cap (s_ob (w_sess ex_pre)))) [ex_req_sub; ex_req_q2; ReqPublish ex_pub; ReqUnsubscribe [ex_filter] []].
Proof.
  assert (I0 : WInv (w_sess ex_pre)) by (unfold ex_pre; apply (proj1 (run_case_good _))).
  split; [vm_compute; reflexivity|]. split; [vm_compute; reflexivity|]. split; [vm_compute; reflexivity|]. split; [vm_compute; reflexivity|].
  split; [vm_compute; intros X; discriminate X|]. split; [vm_compute; intros X; discriminate X|].
  split; [eexists; vm_compute; reflexivity|]. split; [vm_compute; intros X; discriminate X|]. split; [exact I0|].
  split; [vm_compute; reflexivity|]. split; [vm_compute; reflexivity|]. split; [vm_compute; reflexivity|]. split; [vm_compute; reflexivity|].
  split; [vm_compute; intros X; discriminate X|]. split; [vm_compute; intros X; discriminate X|].
  assert (V1 : props_valid_for (PSlice []) CtxSubscribe = true) by (vm_compute; reflexivity).
  assert (V2 : props_valid_for (pr_props ex_pubq2) CtxPublish = true) by (vm_compute; reflexivity).
  assert (V3 : props_valid_for (pr_props ex_pub) CtxPublish = true) by (vm_compute; reflexivity).
  assert (V4 : props_valid_for (PSlice []) CtxUnsubscribe = true) by (vm_compute; reflexivity).
  assert (F1 : forall id, exists off bs, enc_subscribe (ob_cap (s_ob (w_sess ex_pre))) {| sq_pid := id; sq_props := []; sq_topics := [(ex_filter, ex_so1)] |} = SOk off bs)
    by (intros id; eexists; eexists; vm_compute; reflexivity).
  assert (F2 : forall id, exists off bs, enc_publish (ob_cap (s_ob (w_sess ex_pre))) (pub_request ex_pubq2 (pr_qos ex_pubq2) id) = SOk off bs)
    by (intros id; eexists; eexists; vm_compute; reflexivity).
  assert (F3 : forall id, exists off bs, enc_publish (ob_cap (s_ob (w_sess ex_pre))) (pub_request ex_pub (pr_qos ex_pub) id) = SOk off bs)
    by (intros id; eexists; eexists; vm_compute; reflexivity).
  assert (F4 : forall id, exists off bs, enc_unsubscribe (ob_cap (s_ob (w_sess ex_pre))) {| uq_pid := id; uq_props := []; uq_topics := [ex_filter] |} = SOk off bs)
    by (intros id; eexists; eexists; vm_compute; reflexivity).
  assert (R1 : request_plain (ob_cap (s_ob (w_sess ex_pre))) ex_req_sub)
    by (cbn [ex_req_sub request_plain]; split; [discriminate|]; split; [exact V1|exact F1]).
  assert (R2 : request_plain (ob_cap (s_ob (w_sess ex_pre))) ex_req_q2)
    by (cbn [ex_req_q2 request_plain]; split; [exact V2|]; split; [exists []; reflexivity|]; split; [discriminate|exact F2]).
  assert (R3 : request_plain (ob_cap (s_ob (w_sess ex_pre))) (ReqPublish ex_pub))
    by (cbn [request_plain]; split; [exact V3|]; split; [exists []; reflexivity|]; split; [discriminate|exact F3]).
  assert (R4 : request_plain (ob_cap (s_ob (w_sess ex_pre))) (ReqUnsubscribe [ex_filter] []))
    by (cbn [request_plain]; split; [discriminate|]; split; [exact V4|exact F4]).
  exact (Forall_cons _ R1 (Forall_cons _ R2 (Forall_cons _ R3 (Forall_cons _ R4 (Forall_nil _))))).
Qed.
