(* Exchange2.v — C16, one whole QoS 2 exchange against the answering broker: after publish() (Exchange.v: the PUBLISH is on
   the wire, the PUBREC has arrived), the first poll() reads the PUBREC, drops the retained PUBLISH, queues, writes and flushes
   the PUBREL — to which the broker answers with the PUBCOMP — and the second poll() reads the PUBCOMP and completes the
   exchange: nothing retained, nothing to release, the quota slot returned. *)
From Coq Require Import List NArith Lia Bool PeanoNat.
From Coq Require Import ZifyBool ZifyN ZifyNat.
From Minimq Require Import Bytes Varint Utf8 Props Ser De Reader Spec Arena Core Show Machine Parse Run Util Lts Refine
  VarintProofs SerLemmas CodecProofs BrokerProofs ArenaLemmas ArenaOps Inv Quota Status Persist Frames Limits Reach WireInv Chunking Wire Measure
  Terminate KeepAlive ConnectOk PingQuiet Healthy Owed Sends Pings Framing Liveness PingAt Exchange.
Import ListNotations.
Local Open Scope N_scope.
Local Opaque u16_be.

(* ---------------------------------------------------------------- codec facts *)
Lemma from_buffer_pubrec4 : forall pid, pid < 65536 -> from_buffer (80 :: [2] ++ u16_be pid) = Some (RPubRec pid 0).
Proof.
  intros pid Hp. unfold from_buffer. cbn [app].
  change (varint_read (2 :: u16_be pid)) with (VOk 2 (u16_be pid)).
  cbv beta iota. rewrite de_body_pubrec.
  unfold de_ack. pose proof (read_u16_be pid [] Hp) as Hr. rewrite app_nil_r in Hr. rewrite Hr. reflexivity.
Qed.
Lemma from_buffer_pubcomp4 : forall pid, pid < 65536 -> from_buffer (112 :: [2] ++ u16_be pid) = Some (RPubComp pid 0).
Proof.
  intros pid Hp. unfold from_buffer. cbn [app].
  change (varint_read (2 :: u16_be pid)) with (VOk 2 (u16_be pid)).
  cbv beta iota. rewrite de_body_pubcomp.
  unfold de_ack. pose proof (read_u16_be pid [] Hp) as Hr. rewrite app_nil_r in Hr. rewrite Hr. reflexivity.
Qed.

(* the PUBREL the client sends *)
Lemma rel_frame : forall pid, exists rl,
  rel_bytes pid 0 = 98 :: rl ++ (u16_be pid ++ [0]) /\ varint_write (lenN (u16_be pid ++ [0])) = Some rl.
Proof.
  intros pid. unfold rel_bytes, encode_pubrel. destruct (enc_ack_ok 6 pid 0) as [off [bs E]]. rewrite E.
  unfold enc_ack in E. destruct (encode_chunks_content _ _ _ _ _ _ E) as [rl [body [Hc [Hb Hv]]]].
  unfold ack_chunks, c_u16, c_u8 in Hc. cbn [concat_chunks] in Hc. change (rc_norm 0) with 0 in Hc. rewrite app_nil_r in Hc.
  inversion Hc; subst body. exists rl. split; [exact Hb|exact Hv].
Qed.

Lemma broker_reply_pubrel : forall mode rl pid, varint_write (lenN (u16_be pid ++ [0])) = Some rl ->
  broker_reply mode (98 :: rl ++ (u16_be pid ++ [0])) = 112 :: [2] ++ u16_be pid.
Proof.
  intros mode rl pid Hrl. unfold broker_reply. rewrite (varint_roundtrip _ _ _ Hrl).
  change (98 / 16) with 6. change (6 =? 3) with false. change (6 =? 6) with true. cbv iota.
  destruct (u16_be_two pid) as [a [b E]]. rewrite E. reflexivity.
Qed.

Lemma check_pubrel_none : forall pid rc, check_pubrel_size None pid rc = None.
Proof.
  intros. unfold check_pubrel_size, encode_pubrel. destruct (enc_ack_ok 6 pid rc) as [off [bs E]]. rewrite E. reflexivity.
Qed.

Definition rel_entry (pid : N) (st : sstate) : lentry := {| le_pid := pid; le_rc := 0; le_st := st |}.

Lemma single_rel_step : forall o pid, ob_ctl o = [] -> ob_rel o = [rel_entry pid (SWrite 0)] -> ob_ret o = [] ->
  next_step o = Some (StRel pid 0 (SWrite 0)).
Proof.
  intros o pid Hc Hl Hr. unfold next_step, next_step_pass, orelse, find_ctl, find_rel, find_ret. rewrite Hc, Hl, Hr.
  cbn [find rel_entry le_st le_pid le_rc]. cbn [matches_priority is_in_progress is_fresh]. change (0 =? 0) with true. cbn [negb]. reflexivity.
Qed.

Lemma single_rel_sent_no_step : forall o pid, ob_ctl o = [] -> ob_rel o = [rel_entry pid SSent] -> ob_ret o = [] -> next_step o = None.
Proof.
  intros o pid Hc Hl Hr. unfold next_step, next_step_pass, orelse, find_ctl, find_rel, find_ret. rewrite Hc, Hl, Hr. reflexivity.
Qed.

Lemma single_rel_step_result : forall s pid len now, ob_rel (s_ob s) = [rel_entry pid (SWrite 0)] ->
  let s' := fst (complete_flush (fst (set_written s (FRel pid) (0 + len) len)) (FRel pid) now) in
  ob_rel (s_ob s') = [rel_entry pid SSent] /\ ob_ctl (s_ob s') = ob_ctl (s_ob s) /\ ob_ret (s_ob s') = ob_ret (s_ob s) /\
  ob_buf (s_ob s') = ob_buf (s_ob s) /\ s_rt s' = note_outbound_activity (s_rt s) now /\ s_reader s' = s_reader s.
Proof.
  intros s pid len now Hr. cbv zeta. unfold complete_flush, set_written, set_release_written, flush_release.
  rewrite Hr. cbn [update_first rel_entry le_pid]. rewrite N.eqb_refl. cbn [fst set_ob s_ob with_rel ob_rel update_first le_pid].
  rewrite N.eqb_refl. cbn [fst set_rt set_ob s_ob s_rt s_reader with_rel ob_rel ob_ctl ob_ret ob_buf le_pid le_rc].
  repeat split.
Qed.

Lemma owed_single_rel : forall o pid, ob_ctl o = [] -> ob_rel o = [rel_entry pid (SWrite 0)] -> ob_ret o = [] -> owed o = rel_bytes pid 0.
Proof.
  intros o pid Hc Hl Hr. unfold owed, part_of, fresh_of. rewrite Hc, Hl, Hr. unfold Pq, Fq. cbn [map concat app rel_entry le_st le_pid le_rc].
  cbn [rest_part rest_fresh is_fresh]. change (0 =? 0) with true. cbv iota. unfold lbytes. cbn [le_pid le_rc app]. rewrite app_nil_r. reflexivity.
Qed.

(* ---------------------------------------------------------------- first poll(): PUBREC in, PUBREL out, the broker answers PUBCOMP *)
Theorem poll_pubrec_sends_pubrel_rt : forall w pid e t,
  Hc w -> pid < 65536 -> 4 <= rcap (rd w) -> rdata (rd w) = [] -> rplen (rd w) = None ->
  ob_ctl (s_ob (w_sess w)) = [] -> ob_rel (s_ob (w_sess w)) = [] -> ob_ret (s_ob (w_sess w)) = [sent_entry e] -> re_pid e = pid ->
  rt_ka_ms (s_rt (w_sess w)) = 0 -> rt_next_ping (s_rt (w_sess w)) = None -> rt_ping_timeout (s_rt (w_sess w)) = None ->
  w_broker w = 1 -> w_txbuf w = [] -> w_inq w = [(t, 80 :: [2] ++ u16_be pid)] -> t <= w_now w -> w_last_arrival w <= w_now w ->
  exists w',
    op_poll FUEL w = (w', ODone None) /\ w_wire w' = w_wire w ++ rel_bytes pid 0 /\
    w_inq w' = [(w_now w, 112 :: [2] ++ u16_be pid)] /\
    Hc w' /\ rdata (rd w') = [] /\ rplen (rd w') = None /\ rcap (rd w') = rcap (rd w) /\ w_now w' = w_now w /\
    ob_ctl (s_ob (w_sess w')) = [] /\ ob_ret (s_ob (w_sess w')) = [] /\ ob_rel (s_ob (w_sess w')) = [rel_entry pid SSent] /\
    rt_ka_ms (s_rt (w_sess w')) = 0 /\ rt_next_ping (s_rt (w_sess w')) = None /\ rt_ping_timeout (s_rt (w_sess w')) = None /\
    w_broker w' = 1 /\ w_txbuf w' = [] /\ w_last_arrival w' = w_now w /\
    rt_quota (s_rt (w_sess w')) = rt_quota (s_rt (w_sess w)) /\ rt_maxquota (s_rt (w_sess w')) = rt_maxquota (s_rt (w_sess w)) /\
    ob_buf (s_ob (w_sess w')) = ob_buf (s_ob (w_sess w)) /\ rt_mps (s_rt (w_sess w')) = None /\
    rt_maxqos (s_rt (w_sess w')) = rt_maxqos (s_rt (w_sess w)).
Proof.
  intros w pid e t Hcw Hp Hcap Hd Hpl Ec El Er Epid Hka Hnp Hpt Hbr Htx Hi Ht Hla.
  pose proof Hcw as [Hs [Hl [I [Hmps [_ [HB HF]]]]]].
  destruct FUEL_big as [f Hf]. assert (Hfu : N.of_nat FUEL = 30000) by reflexivity.
  unfold op_poll. rewrite Hf.
  assert (Hto : ping_timed_out (w_sess w) (w_now w) = false) by (unfold ping_timed_out; rewrite Hpt; reflexivity).
  assert (Hq : PQ w) by (split; [unfold should_queue_pingreq; rewrite Hpt, Hnp; reflexivity|apply calm_nil; exact Hs]).
  assert (Hn : next_step (s_ob (w_sess w)) = None) by (eapply single_sent_no_step; eassumption).
  assert (Hrl : varint_write (lenN (u16_be pid)) = Some [2]) by (rewrite lenN_u16; reflexivity).
  destruct (wait_reads_arrived_packet_gen (S (S (S (S f)))) w 80 [2] (u16_be pid) t Hrl) as [w3 [E3 [D3 [P3 [K3 [S3 [Q3 [C3 [N3 [L3 [W3 B3]]]]]]]]]]];
    try assumption; try (cbn [app]; rewrite lenN_cons, lenN_cons, lenN_u16; first [exact Hcap | unfold BIG; lia | unfold FUEL in Hf; lia]).
  assert (Hlen : lenN (80 :: [2] ++ u16_be pid) = 4) by (cbn [app]; rewrite !lenN_cons, lenN_u16; reflexivity).
  rewrite Hlen in P3.
  rewrite E3. clear E3.
  rewrite wait_unfold. unfold drive_packet. rewrite L3. cbn [negb]. rewrite drive_loop_unfold.
  assert (Ha3 : packet_available (rd w3) = true) by (unfold packet_available; rewrite P3; unfold read_bytes; rewrite D3, Hlen; reflexivity).
  unfold process_received at 1. fold (rd w3). rewrite Ha3. cbn [negb]. unfold take_packet. rewrite P3, D3.
  rewrite (takeN_all (80 :: [2] ++ u16_be pid) 4) by lia. rewrite (from_buffer_pubrec4 pid Hp).
  assert (Es3 : set_reader (w_sess w3) (reader_reset (rd w3)) = set_reader (w_sess w) (reader_reset (rd w))).
  { rewrite S3. unfold reader_reset. rewrite K3. destruct (w_sess w); reflexivity. }
  rewrite Es3.
  (* the PUBREC is handled: the retained PUBLISH goes, the PUBREL is queued *)
  set (s3 := set_reader (w_sess w) (reader_reset (rd w))).
  assert (Ob3 : s_ob s3 = s_ob (w_sess w)) by reflexivity.
  assert (Rt3 : s_rt s3 = s_rt (w_sess w)) by reflexivity.
  cbn [handle_packet]. rewrite Ob3. unfold ack_packet. rewrite Er. cbn [remove_first_ret sent_entry re_pid]. rewrite Epid, N.eqb_refl.
  unfold compact. cbn [ob_ret compact_go ob_buf ob_used ob_ctl ob_rel]. cbn [negb]. change (rc_success 0) with true. cbn [negb].
  cbn [set_ob s_rt s_ob]. rewrite Rt3, Hmps, check_pubrel_none.
  unfold queue_release. cbn [ob_rel]. rewrite El. cbn [glen]. change (MAX_PENDING_RELEASE <=? 0) with false. cbv iota. cbn [app].
  match goal with |- context [drive_loop ?fu true ?x] => set (w4 := x) end.
  set (s4 := w_sess w4).
  assert (Ec4 : ob_ctl (s_ob s4) = []) by (cbn [s4 w4 w_sess upd_drained upd_envok upd_sess set_ob s_ob ob_ctl]; exact Ec).
  assert (El4 : ob_rel (s_ob s4) = [rel_entry pid (SWrite 0)]) by reflexivity.
  assert (Er4 : ob_ret (s_ob s4) = []) by reflexivity.
  assert (Rt4 : s_rt s4 = s_rt (w_sess w)) by reflexivity.
  assert (Rd4 : s_reader s4 = reader_reset (rd w)) by reflexivity.
  assert (Bf4 : ob_buf (s_ob s4) = ob_buf (s_ob (w_sess w))) by reflexivity.
  assert (L4 : w_live w4 = true) by (unfold w4; cbn [w_live upd_drained upd_envok upd_sess]; exact L3).
  assert (N4 : w_now w4 = w_now w) by (unfold w4; cbn [w_now upd_drained upd_envok upd_sess]; exact N3).
  assert (C4 : w_script w4 = []) by (unfold w4; cbn [w_script upd_drained upd_envok upd_sess]; exact C3).
  assert (W4 : w_wire w4 = w_wire w) by (unfold w4; cbn [w_wire upd_drained upd_envok upd_sess]; exact W3).
  assert (I3 : WInv (w_sess w3)) by (rewrite S3; eapply WInv_step; [apply SS_reader|exact I]).
  assert (I4 : WInv s4).
  { assert (Hpr : fst (process_received w3) = w4).
    { unfold process_received. fold (rd w3). rewrite Ha3. cbn [negb]. unfold take_packet. rewrite P3, D3.
      rewrite (takeN_all (80 :: [2] ++ u16_be pid) 4) by lia. rewrite (from_buffer_pubrec4 pid Hp). rewrite Es3. fold s3.
      cbn [handle_packet]. rewrite Ob3. unfold ack_packet. rewrite Er. cbn [remove_first_ret sent_entry re_pid]. rewrite Epid, N.eqb_refl.
      unfold compact. cbn [ob_ret compact_go ob_buf ob_used ob_ctl ob_rel]. cbn [negb]. change (rc_success 0) with true. cbn [negb].
      cbn [set_ob s_rt s_ob]. rewrite Rt3, Hmps, check_pubrel_none.
      unfold queue_release. cbn [ob_rel]. rewrite El. cbn [glen]. change (MAX_PENDING_RELEASE <=? 0) with false. cbv iota. cbn [app fst]. reflexivity. }
    unfold s4. rewrite <- Hpr. eapply WInv_wq; [apply process_received_wq|exact I3]. }
  assert (Hc4 : Hc w4).
  { unfold Hc. fold s4. rewrite C4, L4, Rt4, Bf4, Hmps, Hpt.
    split; [reflexivity|]. split; [reflexivity|]. split; [exact I4|]. split; [reflexivity|]. split; [intros d E; discriminate E|]. split; [exact HB|].
    unfold Fr. rewrite Ec4, El4, Er4. repeat split; repeat constructor. }
  assert (Q4 : PQ w4) by (split; [fold s4; unfold should_queue_pingreq; rewrite Rt4, Hpt, Hnp; reflexivity|apply calm_nil; exact C4]).
  (* the engine continues: the PUBREL is written and flushed *)
  rewrite drive_loop_unfold.
  assert (Ep4 : process_received w4 = (w4, ODone None)) by (unfold process_received; fold s4; rewrite Rd4; reflexivity).
  rewrite Ep4. fold s4. rewrite Rd4. cbn [packet_available reader_reset rplen].
  destruct (Hd_service w4 (conj Hc4 Q4)) as [Ht4 Hmq4]. unfold service. rewrite Ht4, Hmq4, upd_sess_id.
  assert (En4 : next_step (s_ob (w_sess w4)) = Some (StRel pid 0 (SWrite 0))) by (apply single_rel_step; assumption).
  rewrite En4.
  destruct (healthy_perform_core _ w4 Hc4 En4) as [w5 [E5 [Hc5 [R5 [N5 [X5 V5]]]]]]. rewrite E5.
  destruct (X5 eq_refl) as [len S5]. cbn [step_key] in S5.
  destruct (single_rel_step_result (w_sess w4) pid len (w_now w4) El4) as [El5 [Ec5 [Er5 [Eb5 [Ert5 Erd5]]]]].
  cbv zeta in El5, Ec5, Er5, Eb5, Ert5, Erd5. rewrite <- S5 in El5, Ec5, Er5, Eb5, Ert5, Erd5.
  fold s4 in Ec5, Er5, Ert5, Erd5. rewrite Ec4 in Ec5. rewrite Er4 in Er5.
  assert (En5 : next_step (s_ob (w_sess w5)) = None) by (eapply single_rel_sent_no_step; eassumption).
  rewrite En5. cbn [orb].
  (* the bytes and the broker's answer *)
  destruct (rel_frame pid) as [rl [Erel Hvrl]].
  assert (Hprep : prepare_step (w_sess w4) (StRel pid 0 (SWrite 0)) = PWrite (FRel pid) (rel_bytes pid 0) 0 (lenN (rel_bytes pid 0))).
  { cbn [prepare_step]. fold s4. rewrite Rt4, Hmps. unfold rel_bytes. destruct (enc_ack_ok 6 pid 0) as [off [bs E]]. unfold encode_pubrel. rewrite E. reflexivity. }
  pose proof (V5 _ _ Hprep) as V.
  unfold bt in B3. injection B3 as Bb Btx Bla.
  assert (Br4 : w_broker w4 = 1) by (unfold w4; cbn [w_broker upd_drained upd_envok upd_sess]; rewrite Bb; exact Hbr).
  assert (Tx4 : w_txbuf w4 = []) by (unfold w4; cbn [w_txbuf upd_drained upd_envok upd_sess]; rewrite Btx; exact Htx).
  assert (La4 : w_last_arrival w4 = w_last_arrival w) by (unfold w4; cbn [w_last_arrival upd_drained upd_envok upd_sess]; exact Bla).
  assert (Iq4 : w_inq w4 = []) by (unfold w4; cbn [w_inq upd_drained upd_envok upd_sess]; exact Q3).
  assert (Hrep : broker_reply 1 (rel_bytes pid 0) = 112 :: [2] ++ u16_be pid) by (rewrite Erel; apply broker_reply_pubrel; exact Hvrl).
  assert (Hfeed : broker_view (broker_feed w4 (rel_bytes pid 0)) = (1, [], [(w_now w, 112 :: [2] ++ u16_be pid)], w_now w)).
  { rewrite Erel. rewrite broker_feed_one; [|rewrite Br4; discriminate|exact Tx4|exact Hvrl|rewrite Br4, <- Erel, Hrep; discriminate].
    cbv zeta. unfold broker_view. cbn [w_broker w_txbuf w_inq w_last_arrival w_now upd_inq upd_txbuf].
    rewrite Br4, Iq4, La4, N4, <- Erel, Hrep. replace (N.max (w_now w) (w_last_arrival w)) with (w_now w) by lia. reflexivity. }
  rewrite Hfeed in V. unfold broker_view in V. injection V as Vb Vt Vi Vl.
  (* the wire *)
  destruct (step_prefix _ _ _ _ _ I4 En4 E5 Logic.I) as [P [Hw5 Ho5]].
  rewrite (owed_no_step _ En5), app_nil_r in Ho5. fold s4 in Ho5. rewrite (owed_single_rel _ pid Ec4 El4 Er4) in Ho5. subst P.
  (* the timers *)
  assert (Hrt5 : rt_next_ping (s_rt (w_sess w5)) = None /\ rt_ping_timeout (s_rt (w_sess w5)) = None /\ rt_ka_ms (s_rt (w_sess w5)) = 0 /\
                 rt_quota (s_rt (w_sess w5)) = rt_quota (s_rt (w_sess w)) /\ rt_maxquota (s_rt (w_sess w5)) = rt_maxquota (s_rt (w_sess w))).
  { rewrite Ert5, Rt4. unfold note_outbound_activity, keepalive_send_interval. rewrite Hka.
    cbn [N.eqb rt_with_timers rt_next_ping rt_ping_timeout rt_ka_ms rt_quota rt_maxquota]. repeat split; assumption. }
  destruct Hrt5 as [T1 [T2 [T3 [T4 T5]]]].
  eexists. split; [reflexivity|].
  split; [rewrite Hw5, W4; reflexivity|]. split; [exact Vi|]. split; [exact Hc5|].
  assert (Rd5 : rd w5 = reader_reset (rd w)) by (unfold rd; rewrite R5; fold s4; exact Rd4).
  split; [rewrite Rd5; reflexivity|]. split; [rewrite Rd5; reflexivity|]. split; [rewrite Rd5; reflexivity|].
  split; [rewrite N5; exact N4|]. split; [exact Ec5|]. split; [exact Er5|]. split; [exact El5|].
  split; [exact T3|]. split; [exact T1|]. split; [exact T2|]. split; [exact Vb|]. split; [exact Vt|]. split; [exact Vl|]. split; [exact T4|]. split; [exact T5|].
  split; [rewrite Eb5; exact Bf4|]. split; [exact (proj1 (proj2 (proj2 (proj2 Hc5))))|].
  rewrite Ert5, Rt4. reflexivity.
Qed.

Theorem poll_pubrec_sends_pubrel : forall w pid e t,
  Hc w -> pid < 65536 -> 4 <= rcap (rd w) -> rdata (rd w) = [] -> rplen (rd w) = None ->
  ob_ctl (s_ob (w_sess w)) = [] -> ob_rel (s_ob (w_sess w)) = [] -> ob_ret (s_ob (w_sess w)) = [sent_entry e] -> re_pid e = pid ->
  rt_ka_ms (s_rt (w_sess w)) = 0 -> rt_next_ping (s_rt (w_sess w)) = None -> rt_ping_timeout (s_rt (w_sess w)) = None ->
  w_broker w = 1 -> w_txbuf w = [] -> w_inq w = [(t, 80 :: [2] ++ u16_be pid)] -> t <= w_now w -> w_last_arrival w <= w_now w ->
  exists w',
    op_poll FUEL w = (w', ODone None) /\ w_wire w' = w_wire w ++ rel_bytes pid 0 /\
    w_inq w' = [(w_now w, 112 :: [2] ++ u16_be pid)] /\
    Hc w' /\ rdata (rd w') = [] /\ rplen (rd w') = None /\ rcap (rd w') = rcap (rd w) /\ w_now w' = w_now w /\
    ob_ctl (s_ob (w_sess w')) = [] /\ ob_ret (s_ob (w_sess w')) = [] /\ ob_rel (s_ob (w_sess w')) = [rel_entry pid SSent] /\
    rt_ka_ms (s_rt (w_sess w')) = 0 /\ rt_next_ping (s_rt (w_sess w')) = None /\ rt_ping_timeout (s_rt (w_sess w')) = None /\
    w_broker w' = 1 /\ w_txbuf w' = [] /\ w_last_arrival w' = w_now w /\
    rt_quota (s_rt (w_sess w')) = rt_quota (s_rt (w_sess w)) /\ rt_maxquota (s_rt (w_sess w')) = rt_maxquota (s_rt (w_sess w)).
Proof.
  intros w pid e t Hcw Hp Hcap Hd Hpl Ec El Er Epid Hka Hnp Hpt Hbr Htx Hi Ht Hla.
  destruct (poll_pubrec_sends_pubrel_rt w pid e t Hcw Hp Hcap Hd Hpl Ec El Er Epid Hka Hnp Hpt Hbr Htx Hi Ht Hla)
    as [w' [A1 [A2 [A3 [A4 [A5 [A6 [A7 [A8 [A9 [A10 [A11 [A12 [A13 [A14 [A15 [A16 [A17 [A18 [A19 _]]]]]]]]]]]]]]]]]]]].
  exists w'. repeat (split; [assumption|]). assumption.
Qed.



(* ---------------------------------------------------------------- second poll(): PUBCOMP in, the exchange is over *)
Theorem poll_pubcomp_completes : forall w pid t,
  pid < 65536 -> 4 <= rcap (rd w) -> w_live w = true -> rdata (rd w) = [] -> rplen (rd w) = None ->
  ob_ctl (s_ob (w_sess w)) = [] -> ob_ret (s_ob (w_sess w)) = [] -> ob_rel (s_ob (w_sess w)) = [rel_entry pid SSent] ->
  rt_next_ping (s_rt (w_sess w)) = None -> rt_ping_timeout (s_rt (w_sess w)) = None ->
  w_script w = [] -> w_inq w = [(t, 112 :: [2] ++ u16_be pid)] -> t <= w_now w ->
  exists w',
    op_poll FUEL w = (w', ODone None) /\ w_live w' = true /\ w_inq w' = [] /\ w_now w' = w_now w /\
    ob_ctl (s_ob (w_sess w')) = [] /\ ob_ret (s_ob (w_sess w')) = [] /\ ob_rel (s_ob (w_sess w')) = [] /\
    next_step (s_ob (w_sess w')) = None /\
    rt_quota (s_rt (w_sess w')) = N.min (N.min (rt_quota (s_rt (w_sess w)) + 1) 65535) (rt_maxquota (s_rt (w_sess w))).
Proof.
  intros w pid t Hp Hcap Hl Hd Hpl Ec Er El Hnp Hpt Hs Hi Ht.
  assert (Hrl : varint_write (lenN (u16_be pid)) = Some [2]) by (rewrite lenN_u16; reflexivity).
  assert (Hlen : lenN (112 :: [2] ++ u16_be pid) = 4) by (cbn [app]; rewrite !lenN_cons, lenN_u16; reflexivity).
  assert (Hn : next_step (s_ob (w_sess w)) = None) by (eapply single_rel_sent_no_step; eassumption).
  set (s3 := set_reader (w_sess w) (reader_reset (rd w))).
  set (s4 := set_rt (set_ob s3 {| ob_buf := ob_buf (s_ob s3); ob_used := ob_used (s_ob s3); ob_ctl := ob_ctl (s_ob s3); ob_ret := ob_ret (s_ob s3); ob_rel := [] |})
                    (quota_inc (s_rt s3))).
  assert (Hh : handle_packet s3 (RPubComp pid 0) = (s4, HOk false)).
  { cbn [handle_packet]. unfold ack_release. change (ob_rel (s_ob s3)) with (ob_rel (s_ob (w_sess w))). rewrite El.
    cbn [remove_first_rel rel_entry le_pid]. rewrite N.eqb_refl. cbn [negb]. change (rc_success 0) with true. reflexivity. }
  assert (Hn4 : next_step (s_ob s4) = None).
  { apply quiescent_no_step; cbn [s4 s3 s_ob set_rt set_ob set_reader ob_ctl ob_rel ob_ret]; [exact Ec|reflexivity|exact Er]. }
  destruct (poll_handles_arrived w 112 [2] (u16_be pid) t (RPubComp pid 0) s4 false Hrl) as [w' [E [S' [L' [Q' N']]]]];
    try assumption; try (rewrite Hlen; first [exact Hcap|lia]).
  - intros dd E. rewrite Hnp in E. discriminate E.
  - exact (from_buffer_pubcomp4 pid Hp).
  - intros _. exact Hn4.
  - exists w'. split; [exact E|]. split; [exact L'|]. split; [exact Q'|]. split; [exact N'|]. rewrite S'.
    split; [cbn [s4 s3 s_ob set_rt set_ob set_reader ob_ctl]; exact Ec|]. split; [cbn [s4 s3 s_ob set_rt set_ob set_reader ob_ret]; exact Er|].
    split; [reflexivity|]. split; [exact Hn4|]. reflexivity.
Qed.

(* ---------------------------------------------------------------- the whole QoS 2 exchange: publish(), poll(), poll() *)
Theorem qos2_exchange_completes : forall w r s2 op ps,
  Hc w ->
  ob_ctl (s_ob (w_sess w)) = [] -> ob_rel (s_ob (w_sess w)) = [] -> ob_ret (s_ob (w_sess w)) = [] ->
  rt_ka_ms (s_rt (w_sess w)) = 0 -> rt_next_ping (s_rt (w_sess w)) = None -> rt_ping_timeout (s_rt (w_sess w)) = None ->
  w_broker w = 1 -> w_txbuf w = [] -> w_inq w = [] -> w_last_arrival w <= w_now w ->
  rdata (rd w) = [] -> rplen (rd w) = None -> 4 <= rcap (rd w) ->
  publish_middle (w_sess w) true r = (s2, MRetained op) ->
  effective_qos (w_sess w) (pr_qos r) = Q2 -> pr_props r = PSlice ps -> op_pid op < 65536 ->
  exists w1 w2 w3 bs cap off,
    op_publish FUEL r w = (w1, ODone (Some op)) /\
    enc_publish cap (pub_request r Q2 (op_pid op)) = SOk off bs /\ w_wire w1 = w_wire w ++ bs /\
    op_poll FUEL w1 = (w2, ODone None) /\ w_wire w2 = w_wire w1 ++ rel_bytes (op_pid op) 0 /\
    op_poll FUEL w2 = (w3, ODone None) /\ w_live w3 = true /\ w_inq w3 = [] /\
    ob_ctl (s_ob (w_sess w3)) = [] /\ ob_rel (s_ob (w_sess w3)) = [] /\ ob_ret (s_ob (w_sess w3)) = [] /\
    next_step (s_ob (w_sess w3)) = None /\
    rt_quota (s_rt (w_sess w3)) = N.min (N.min (rt_quota (s_rt (w_sess w1)) + 1) 65535) (rt_maxquota (s_rt (w_sess w1))).
Proof.
  intros w r s2 op ps Hcw Ec El Er Hka Hnp Hpt Hbr Htx Hiq Hla Hrd Hrp Hcap Hm Hq2 Hps Hid.
  destruct (publish_is_sent_and_answered w r s2 op ps Q2 Hcw Ec El Er Hka Hnp Hpt Hbr Htx Hiq Hla Hm Hq2 ltac:(discriminate) Hps Hid)
    as [w1 [bs [cap [off [e [E1 [Hb [Hw1 [Hi1 [Hc1 [R1 [N1 [B1 [T1 [La1 [Ka1 [Np1 [Pt1 [Ec1 [El1 [Er1 Epid]]]]]]]]]]]]]]]]]]]]].
  assert (H1 : 4 <= rcap (rd w1)) by (unfold rd; rewrite R1; exact Hcap).
  assert (H2 : rdata (rd w1) = []) by (unfold rd; rewrite R1; exact Hrd).
  assert (H3 : rplen (rd w1) = None) by (unfold rd; rewrite R1; exact Hrp).
  destruct (poll_pubrec_sends_pubrel w1 (op_pid op) e (w_now w) Hc1 Hid H1 H2 H3 Ec1 El1 Er1 Epid Ka1 Np1 Pt1 B1 T1 Hi1
              ltac:(rewrite N1; apply N.le_refl) ltac:(rewrite La1, N1; apply N.le_refl))
    as [w2 [E2 [Hw2 [Hi2 [Hc2 [D2 [P2 [K2 [N2 [Ec2 [Er2 [El2 [Ka2 [Np2 [Pt2 [B2 [T2 [La2 [Qu2 Mq2]]]]]]]]]]]]]]]]]]].
  pose proof Hc2 as [Hs2 [Hl2 _]].
  destruct (poll_pubcomp_completes w2 (op_pid op) (w_now w1) Hid ltac:(rewrite K2; exact H1) Hl2 D2 P2 Ec2 Er2 El2 Np2 Pt2 Hs2 Hi2
              ltac:(rewrite N2; apply N.le_refl))
    as [w3 [E3 [L3 [Q3 [N3 [Ec3 [Er3 [El3 [Nn3 Qu3]]]]]]]]].
  exists w1, w2, w3, bs, cap, off. split; [exact E1|]. split; [exact Hb|]. split; [exact Hw1|]. split; [exact E2|]. split; [exact Hw2|].
  split; [exact E3|]. split; [exact L3|]. split; [exact Q3|]. split; [exact Ec3|]. split; [exact El3|]. split; [exact Er3|]. split; [exact Nn3|].
  rewrite Qu3, Qu2, Mq2. reflexivity.
Qed.

(* ---------------------------------------------------------------- non-vacuity *)
Definition ex_pubq2 : pub_req := {| pr_topic := [117]; pr_props := PSlice []; pr_qos := Q2; pr_payload := [9]; pr_retain := false |}.
Definition ex_op2 : op := {| op_kind := 1; op_pid := 1; op_gen := 1 |}.
Definition ex_q2a : world := fst (op_publish FUEL ex_pubq2 ex_b1).
Definition ex_q2b : world := fst (op_poll FUEL ex_q2a).
Definition ex_q2c : world := fst (op_poll FUEL ex_q2b).

Example exchange2_example :
  publish_middle (w_sess ex_b1) true ex_pubq2 = (fst (publish_middle (w_sess ex_b1) true ex_pubq2), MRetained ex_op2) /\
  effective_qos (w_sess ex_b1) (pr_qos ex_pubq2) = Q2 /\
  snd (op_publish FUEL ex_pubq2 ex_b1) = ODone (Some ex_op2) /\
  w_wire ex_q2a = w_wire ex_b1 ++ [52; 7; 0; 1; 117; 0; 1; 0; 9] /\ w_inq ex_q2a = [(0, [80; 2; 0; 1])] /\
  snd (op_poll FUEL ex_q2a) = ODone None /\ w_wire ex_q2b = w_wire ex_q2a ++ [98; 3; 0; 1; 0] /\ w_inq ex_q2b = [(0, [112; 2; 0; 1])] /\
  snd (op_poll FUEL ex_q2b) = ODone None /\ ob_ret (s_ob (w_sess ex_q2c)) = [] /\ ob_rel (s_ob (w_sess ex_q2c)) = [] /\
  rt_quota (s_rt (w_sess ex_q2c)) = rt_quota (s_rt (w_sess ex_b1)).
Proof. vm_compute. repeat split. Qed.
