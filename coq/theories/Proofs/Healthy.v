(* Healthy.v — C16, the outbound half of quiescence: on a behaving transport (every write accepted whole, every
   flush succeeding), a live connection without a broker packet-size limit and without keep-alive, drive() writes and
   flushes EVERYTHING that is queued — owed acknowledgements, pending PUBRELs, retained packets to (re)send — and
   returns with nothing left to write.  Termination comes from the measure of Terminate.v; what is added here is that
   on such a transport no step can end in an error, a dropped future or a lost entry. *)
From Coq Require Import List NArith Lia Bool.
From Coq Require Import ZifyBool ZifyN ZifyNat.
From Minimq Require Import Bytes Varint Utf8 Props Ser De Reader Arena Core Show Machine Parse Run.
From Minimq Require Import Util Lts Refine Inv Status Frames WireInv Wire Measure Terminate KeepAlive ConnectOk PingQuiet.
Import ListNotations.
Open Scope N_scope.

Definition Hl (w : world) : Prop :=
  w_script w = [] /\ w_live w = true /\ WInv (w_sess w) /\ rt_mps (s_rt (w_sess w)) = None /\
  rt_next_ping (s_rt (w_sess w)) = None /\ rt_ping_timeout (s_rt (w_sess w)) = None /\ rt_ka_ms (s_rt (w_sess w)) = 0.

(* ---------- the entry the engine chose is found again by the bookkeeping ---------- *)
Lemma update_first_in : forall {A} (p : A -> bool) (f : A -> A) l e, In e l -> p e = true -> snd (update_first p f l) = true.
Proof.
  intros A p f. induction l as [|x t IH]; intros e Hin Hp; [contradiction|]. cbn [update_first].
  destruct (p x) eqn:Ex; [reflexivity|]. destruct Hin as [->|Hin]; [congruence|].
  specialize (IH e Hin Hp). destruct (update_first p f t). exact IH.
Qed.

Lemma key_of_step : forall o st, next_step o = Some st ->
  match st with
  | StCtl a _ => exists e, In e (ob_ctl o) /\ caction_eqb (ce_act e) a = true
  | StRel pid _ _ => exists e, In e (ob_rel o) /\ N.eqb (le_pid e) pid = true
  | StRet pid _ _ _ => exists e, In e (ob_ret o) /\ N.eqb (re_pid e) pid = true
  end.
Proof.
  intros o st H. pose proof (next_step_entry _ _ H) as He. destruct st as [a s0|pid rc s0|pid off l s0].
  - destruct He as [e [Hi [Ha _]]]. exists e. split; [exact Hi|]. rewrite Ha. apply caction_eqb_refl.
  - destruct He as [e [Hi [Hp _]]]. exists e. split; [exact Hi|]. rewrite Hp. apply N.eqb_refl.
  - destruct He as [e [Hi [Hp _]]]. exists e. split; [exact Hi|]. rewrite Hp. apply N.eqb_refl.
Qed.

Definition step_key (st : ostep) : fpkt :=
  match st with StCtl a _ => FCtl a | StRel pid _ _ => FRel pid | StRet pid _ _ _ => FRet pid end.

Lemma set_written_found : forall s st x len, next_step (s_ob s) = Some st -> snd (set_written s (step_key st) x len) = true.
Proof.
  intros s st x len H. pose proof (key_of_step _ _ H) as K. unfold set_written.
  destruct st as [a s0|pid rc s0|pid off l s0]; cbn [step_key]; destruct K as [e [Hi Hk]].
  - unfold set_control_written. pose proof (update_first_in (fun e0 => caction_eqb (ce_act e0) a)
      (fun e0 => {| ce_act := ce_act e0; ce_st := set_written_state x len |}) _ e Hi Hk) as F.
    destruct (update_first _ _ (ob_ctl (s_ob s))) as [l0 b]. exact F.
  - unfold set_release_written. pose proof (update_first_in (fun e0 => N.eqb (le_pid e0) pid)
      (fun e0 => {| le_pid := le_pid e0; le_rc := le_rc e0; le_st := set_written_state x len |}) _ e Hi Hk) as F.
    destruct (update_first _ _ (ob_rel (s_ob s))) as [l0 b]. exact F.
  - unfold set_retained_written. pose proof (update_first_in (fun e0 => N.eqb (re_pid e0) pid)
      (fun e0 => {| re_pid := re_pid e0; re_off := re_off e0; re_len := re_len e0; re_st := set_written_state x len |}) _ e Hi Hk) as F.
    destruct (update_first _ _ (ob_ret (s_ob s))) as [l0 b]. exact F.
Qed.

Lemma update_first_keeps : forall {A} (p : A -> bool) (f : A -> A) l e,
  (forall x, p x = true -> p (f x) = true) -> In e l -> p e = true ->
  exists e', In e' (fst (update_first p f l)) /\ p e' = true.
Proof.
  intros A p f l e Hf. induction l as [|x t IH]; intros Hin Hp; [contradiction|]. cbn [update_first].
  destruct (p x) eqn:Ex.
  - exists (f x). split; [left; reflexivity|now apply Hf].
  - destruct Hin as [->|Hin]; [congruence|]. destruct (IH Hin Hp) as [e' [Hi' Hp']].
    destruct (update_first p f t) as [t' b]. exists e'. split; [right; exact Hi'|exact Hp'].
Qed.

Definition has_key (o : outbound) (k : fpkt) : Prop :=
  match k with
  | FCtl a => exists e, In e (ob_ctl o) /\ caction_eqb (ce_act e) a = true
  | FRel pid => exists e, In e (ob_rel o) /\ N.eqb (le_pid e) pid = true
  | FRet pid => exists e, In e (ob_ret o) /\ N.eqb (re_pid e) pid = true
  end.

Lemma has_key_step : forall o st, next_step o = Some st -> has_key o (step_key st).
Proof. intros o st H. pose proof (key_of_step _ _ H) as K. destruct st; exact K. Qed.

Lemma has_key_set_written : forall s k x len, has_key (s_ob s) k -> has_key (s_ob (fst (set_written s k x len))) k.
Proof.
  intros s k x len H. unfold set_written. destruct k as [a|pid|pid]; cbn [has_key] in *; destruct H as [e [Hi Hk]].
  - unfold set_control_written.
    destruct (update_first_keeps (fun e0 => caction_eqb (ce_act e0) a)
      (fun e0 => {| ce_act := ce_act e0; ce_st := set_written_state x len |}) _ e ltac:(intros y Hy; exact Hy) Hi Hk) as [e' [Hi' Hk']].
    destruct (update_first _ _ (ob_ctl (s_ob s))) as [l0 b]. exists e'. split; [exact Hi'|exact Hk'].
  - unfold set_release_written.
    destruct (update_first_keeps (fun e0 => N.eqb (le_pid e0) pid)
      (fun e0 => {| le_pid := le_pid e0; le_rc := le_rc e0; le_st := set_written_state x len |}) _ e ltac:(intros y Hy; exact Hy) Hi Hk) as [e' [Hi' Hk']].
    destruct (update_first _ _ (ob_rel (s_ob s))) as [l0 b]. exists e'. split; [exact Hi'|exact Hk'].
  - unfold set_retained_written.
    destruct (update_first_keeps (fun e0 => N.eqb (re_pid e0) pid)
      (fun e0 => {| re_pid := re_pid e0; re_off := re_off e0; re_len := re_len e0; re_st := set_written_state x len |}) _ e ltac:(intros y Hy; exact Hy) Hi Hk) as [e' [Hi' Hk']].
    destruct (update_first _ _ (ob_ret (s_ob s))) as [l0 b]. exists e'. split; [exact Hi'|exact Hk'].
Qed.

Lemma complete_flush_found : forall s k now, has_key (s_ob s) k -> snd (complete_flush s k now) = true.
Proof.
  intros s k now H. unfold complete_flush. destruct k as [a|pid|pid]; cbn [has_key] in H; destruct H as [e [Hi Hk]].
  - unfold flush_control. pose proof (update_first_in (fun e0 => caction_eqb (ce_act e0) a)
      (fun e0 => {| ce_act := ce_act e0; ce_st := SSent |}) _ e Hi Hk) as F.
    destruct (update_first _ _ (ob_ctl (s_ob s))) as [l0 b]. exact F.
  - unfold flush_release. pose proof (update_first_in (fun e0 => N.eqb (le_pid e0) pid)
      (fun e0 => {| le_pid := le_pid e0; le_rc := le_rc e0; le_st := SSent |}) _ e Hi Hk) as F.
    destruct (update_first _ _ (ob_rel (s_ob s))) as [l0 b]. exact F.
  - unfold flush_retained. pose proof (update_first_in (fun e0 => N.eqb (re_pid e0) pid)
      (fun e0 => {| re_pid := re_pid e0; re_off := re_off e0; re_len := re_len e0; re_st := SSent |}) _ e Hi Hk) as F.
    destruct (update_first _ _ (ob_ret (s_ob s))) as [l0 b]. exact F.
Qed.

(* ---------- a behaving transport ---------- *)
(* what the automatic broker owns of a world *)
Definition broker_view (w : world) : N * bytes * list (N * bytes) * N := (w_broker w, w_txbuf w, w_inq w, w_last_arrival w).

Lemma broker_feed_ext : forall x w a, broker_view x = broker_view w -> w_now x = w_now w ->
  broker_view (broker_feed x a) = broker_view (broker_feed w a).
Proof.
  intros x w a Hv Hn. unfold broker_view in Hv. injection Hv as Hb Ht Hi Hl.
  unfold broker_feed. rewrite Hb, Ht. destruct (N.eqb (w_broker w) 0).
  - unfold broker_view. now rewrite Hb, Ht, Hi, Hl.
  - destruct (broker_split _ _ _ _) as [replies rest]. destruct replies as [|r0 rs]; unfold broker_view;
      cbn [w_broker w_txbuf w_inq w_last_arrival w_now upd_txbuf upd_inq]; rewrite ?Hb, ?Hi, ?Hl, ?Hn; reflexivity.
Qed.

Lemma io_write_healthy : forall w bs, w_script w = [] -> bs <> [] -> lenN bs <= BIG ->
  exists w1, io_write bs w = (w1, WOk (lenN bs)) /\
    w_sess w1 = w_sess w /\ w_script w1 = [] /\ w_live w1 = w_live w /\ w_now w1 = w_now w /\ w_wire w1 = w_wire w ++ bs /\
    broker_view w1 = broker_view (broker_feed w bs).
Proof.
  intros w bs Hs Hne Hl. unfold io_write.
  assert (H0 : lenN bs <> 0) by (destruct bs; [contradiction|rewrite lenN_cons; lia]).
  destruct (N.eqb_spec (lenN bs) 0) as [E|_]; [contradiction|].
  rewrite (next_ev_healthy w Hs). cbn [N.eqb]. cbv zeta.
  replace (N.min (N.max BIG 1) (lenN bs)) with (lenN bs) by (unfold BIG in *; lia).
  rewrite (takeN_all bs (lenN bs)) by lia.
  eexists. split; [reflexivity|].
  match goal with |- context [broker_feed ?x ?a] => destruct (broker_feed_fields x a) as [A [B [C [D E]]]] end.
  rewrite A, B, C, D, E. cbn [w_sess w_script w_live w_now w_wire upd_wire upd_log upd_script].
  split; [reflexivity|]. split; [reflexivity|]. split; [reflexivity|]. split; [reflexivity|]. split; [reflexivity|].
  apply broker_feed_ext; reflexivity.
Qed.

Lemma io_flush_healthy' : forall w, w_script w = [] ->
  exists w1, io_flush w = (w1, FlOk) /\ w_sess w1 = w_sess w /\ w_script w1 = [] /\ w_live w1 = w_live w /\ w_now w1 = w_now w /\
    w_wire w1 = w_wire w /\ broker_view w1 = broker_view w.
Proof.
  intros w Hs. unfold io_flush. rewrite (next_ev_healthy w Hs). cbn [N.eqb]. eexists. split; [reflexivity|].
  cbn [w_sess w_script w_live w_now w_wire upd_log upd_script]. repeat split.
Qed.

(* ---------- entries that are unsent, awaiting their flush, or sent: no half-written one ---------- *)
Definition okst (st : sstate) : Prop := match st with SWrite w => w = 0 | _ => True end.
Definition Fr (o : outbound) : Prop :=
  Forall (fun e => okst (ce_st e)) (ob_ctl o) /\ Forall (fun e => okst (le_st e)) (ob_rel o) /\ Forall (fun e => okst (re_st e)) (ob_ret o).

Lemma Forall_update_first : forall {A} (P : A -> Prop) (p : A -> bool) (f : A -> A) l,
  (forall x, P (f x)) -> Forall P l -> Forall P (fst (update_first p f l)).
Proof.
  intros A P p f l Hf. induction l as [|x t IH]; intros H; cbn [update_first]; [constructor|].
  inversion H as [|? ? Hx Ht]; subst. destruct (p x); cbn [fst]; [constructor; [apply Hf|exact Ht]|].
  specialize (IH Ht). destruct (update_first p f t) as [t' b]. constructor; assumption.
Qed.

Lemma Forall_filter : forall {A} (P : A -> Prop) (g : A -> bool) l, Forall P l -> Forall P (filter g l).
Proof. intros A P g l H. induction H; cbn [filter]; [constructor|]. destruct (g x); [constructor|]; assumption. Qed.

Lemma Fr_set_written_full : forall s k len, Fr (s_ob s) -> Fr (s_ob (fst (set_written s k (0 + len) len))).
Proof.
  intros s k len [Fc [Fl Ft]]. assert (Hs : okst (set_written_state (0 + len) len)).
  { unfold set_written_state. destruct (N.leb_spec len (0 + len)); [exact I|lia]. }
  unfold set_written. destruct k as [a|pid|pid].
  - unfold set_control_written.
    pose proof (Forall_update_first (fun e => okst (ce_st e)) (fun e0 => caction_eqb (ce_act e0) a)
      (fun e0 => {| ce_act := ce_act e0; ce_st := set_written_state (0 + len) len |}) _ (fun _ => Hs) Fc) as F.
    destruct (update_first _ _ (ob_ctl (s_ob s))) as [l0 b]. cbn [fst set_ob s_ob with_ctl ob_ctl ob_rel ob_ret] in *. repeat split; assumption.
  - unfold set_release_written.
    pose proof (Forall_update_first (fun e => okst (le_st e)) (fun e0 => N.eqb (le_pid e0) pid)
      (fun e0 => {| le_pid := le_pid e0; le_rc := le_rc e0; le_st := set_written_state (0 + len) len |}) _ (fun _ => Hs) Fl) as F.
    destruct (update_first _ _ (ob_rel (s_ob s))) as [l0 b]. cbn [fst set_ob s_ob with_rel ob_ctl ob_rel ob_ret] in *. repeat split; assumption.
  - unfold set_retained_written.
    pose proof (Forall_update_first (fun e => okst (re_st e)) (fun e0 => N.eqb (re_pid e0) pid)
      (fun e0 => {| re_pid := re_pid e0; re_off := re_off e0; re_len := re_len e0; re_st := set_written_state (0 + len) len |}) _ (fun _ => Hs) Ft) as F.
    destruct (update_first _ _ (ob_ret (s_ob s))) as [l0 b]. cbn [fst set_ob s_ob with_ret ob_ctl ob_rel ob_ret] in *. repeat split; assumption.
Qed.

Lemma Fr_complete_flush : forall s k now, Fr (s_ob s) -> Fr (s_ob (fst (complete_flush s k now))).
Proof.
  intros s k now [Fc [Fl Ft]]. unfold complete_flush. destruct k as [a|pid|pid].
  - unfold flush_control.
    pose proof (Forall_update_first (fun e => okst (ce_st e)) (fun e0 => caction_eqb (ce_act e0) a)
      (fun e0 => {| ce_act := ce_act e0; ce_st := SSent |}) _ (fun _ => I) Fc) as F.
    destruct (update_first _ _ (ob_ctl (s_ob s))) as [l0 b]. cbn [fst set_rt set_ob s_ob with_ctl ob_ctl ob_rel ob_ret] in *.
    repeat split; try assumption. now apply Forall_filter.
  - unfold flush_release.
    pose proof (Forall_update_first (fun e => okst (le_st e)) (fun e0 => N.eqb (le_pid e0) pid)
      (fun e0 => {| le_pid := le_pid e0; le_rc := le_rc e0; le_st := SSent |}) _ (fun _ => I) Fl) as F.
    destruct (update_first _ _ (ob_rel (s_ob s))) as [l0 b]. cbn [fst set_rt set_ob s_ob with_rel ob_ctl ob_rel ob_ret] in *. repeat split; assumption.
  - unfold flush_retained.
    pose proof (Forall_update_first (fun e => okst (re_st e)) (fun e0 => N.eqb (re_pid e0) pid)
      (fun e0 => {| re_pid := re_pid e0; re_off := re_off e0; re_len := re_len e0; re_st := SSent |}) _ (fun _ => I) Ft) as F.
    destruct (update_first _ _ (ob_ret (s_ob s))) as [l0 b]. cbn [fst set_rt set_ob s_ob with_ret ob_ctl ob_rel ob_ret] in *. repeat split; assumption.
Qed.

Lemma Fr_step_state : forall o st, Fr o -> next_step o = Some st -> step_state st = SWrite 0 \/ step_state st = SFlush.
Proof.
  intros o st [Fc [Fl Ft]] H. pose proof (next_step_not_sent _ _ H) as Hns. pose proof (next_step_entry _ _ H) as He.
  assert (G : forall s0, okst s0 -> s0 <> SSent -> s0 = SWrite 0 \/ s0 = SFlush).
  { intros [w| |] Hk Hn; [left; cbn in Hk; now subst|right; reflexivity|congruence]. }
  destruct st as [a s0|pid rc s0|pid off l s0]; cbn [step_state] in *.
  - destruct He as [e [Hi [_ Hs]]]. rewrite Forall_forall in Fc. specialize (Fc e Hi). rewrite Hs in Fc. now apply G.
  - destruct He as [e [Hi [_ [_ Hs]]]]. rewrite Forall_forall in Fl. specialize (Fl e Hi). rewrite Hs in Fl. now apply G.
  - destruct He as [e [Hi [_ [_ [_ Hs]]]]]. rewrite Forall_forall in Ft. specialize (Ft e Hi). rewrite Hs in Ft. now apply G.
Qed.

(* ---------- what the engine prepares for an unsent entry when the broker set no size limit ---------- *)
From Minimq Require Import Reconnect CodecProofs.

Lemma enc_ack_ok : forall typ pid rc, exists off bs, enc_ack CONTROL_PACKET_LEN typ pid rc = SOk off bs.
Proof.
  intros typ pid rc. unfold enc_ack.
  apply (encode_chunks_succeeds CONTROL_PACKET_LEN typ (if N.eqb typ 6 then 2 else 0) (ack_chunks pid rc));
    [reflexivity|unfold chunks_len, ack_chunks, CONTROL_PACKET_LEN; cbn [map sumN chunk_len c_u16 c_u8]; rewrite lenN_u16; cbn; lia
    |unfold chunks_len, ack_chunks, VARINT_MAX; cbn [map sumN chunk_len c_u16 c_u8]; rewrite lenN_u16; cbn; lia].
Qed.

Lemma encode_control_ok : forall a, exists off bs, encode_control_packet a = SOk off bs.
Proof.
  intros [pid rc|pid rc|pid rc|]; cbn [encode_control_packet]; try apply enc_ack_ok.
  unfold enc_pingreq. eexists _, _. vm_compute. reflexivity.
Qed.

Lemma prepare_fresh : forall s st, rt_mps (s_rt s) = None -> step_state st = SWrite 0 ->
  exists bs len, prepare_step s st = PWrite (step_key st) bs 0 len.
Proof.
  intros s st Hm Hs. destruct st as [a s0|pid rc s0|pid off l s0]; cbn [step_state] in Hs; subst s0; cbn [prepare_step step_key]; rewrite Hm.
  - destruct (encode_control_ok a) as [off [bs E]]. rewrite E. cbn [too_large]. eexists _, _. reflexivity.
  - unfold encode_pubrel. destruct (enc_ack_ok 6 pid rc) as [off [bs E]]. rewrite E. cbn [too_large]. eexists _, _. reflexivity.
  - cbn [too_large]. eexists _, _. reflexivity.
Qed.

Lemma prepare_flush : forall s st, step_state st = SFlush -> prepare_step s st = PFlush (step_key st).
Proof. intros s st Hs. destruct st as [a s0|pid rc s0|pid off l s0]; cbn [step_state] in Hs; subst s0; reflexivity. Qed.

(* the invariant of the healthy drive.  Hc: its transport-and-queue part; PQ (PingQuiet.v): no PINGREQ is to be queued now;
   the ping timeout, if one is armed by flushing a PINGREQ, lies ahead *)
Definition Hc (w : world) : Prop :=
  w_script w = [] /\ w_live w = true /\ WInv (w_sess w) /\ rt_mps (s_rt (w_sess w)) = None /\
  (forall d, rt_ping_timeout (s_rt (w_sess w)) = Some d -> w_now w < d) /\
  lenN (ob_buf (s_ob (w_sess w))) <= BIG /\ Fr (s_ob (w_sess w)).
Definition Hd (w : world) : Prop := Hc w /\ PQ w.

Lemma complete_flush_rt : forall s k now, rt_mps (s_rt s) = None ->
  (forall d, rt_ping_timeout (s_rt s) = Some d -> now < d) ->
  let s' := fst (complete_flush s k now) in
  rt_mps (s_rt s') = None /\ (forall d, rt_ping_timeout (s_rt s') = Some d -> now < d) /\
  lenN (ob_buf (s_ob s')) = lenN (ob_buf (s_ob s)).
Proof.
  intros s k now Hm Hp. unfold complete_flush.
  set (r1 := match k with FCtl CPing => rt_with_timers (s_rt s) (rt_next_ping (s_rt s)) (Some (now + ROUND_TRIP_TIMEOUT_MS)) | _ => s_rt s end).
  assert (M1 : rt_mps r1 = None) by (unfold r1; destruct k as [[| | |]| |]; exact Hm).
  assert (P1 : forall d, rt_ping_timeout r1 = Some d -> now < d).
  { unfold r1. destruct k as [[| | |]| |]; try exact Hp. intros d E. cbn [rt_with_timers rt_ping_timeout] in E. inversion E. unfold ROUND_TRIP_TIMEOUT_MS. lia. }
  assert (B : lenN (ob_buf (fst (match k with FCtl a => flush_control (s_ob s) a | FRel pid => flush_release (s_ob s) pid | FRet pid => flush_retained (s_ob s) pid end))) = lenN (ob_buf (s_ob s))).
  { destruct k as [a|pid|pid]; [unfold flush_control|unfold flush_release|unfold flush_retained];
      destruct (update_first _ _ _) as [l0 b]; reflexivity. }
  destruct (match k with FCtl a => flush_control (s_ob s) a | FRel pid => flush_release (s_ob s) pid | FRet pid => flush_retained (s_ob s) pid end) as [o b].
  cbn [fst] in *. cbn [set_rt set_ob s_rt s_ob]. split; [exact M1|]. split; [exact P1|exact B].
Qed.

Lemma prepared_len_small : forall s st bs len, WInv s -> lenN (ob_buf (s_ob s)) <= BIG ->
  next_step (s_ob s) = Some st -> prepare_step s st = PWrite (step_key st) bs 0 len -> lenN bs <= BIG.
Proof.
  intros s st bs len I HB Hn Hp. destruct (engine_tail s st _ bs 0 len 0 I Hn Hp) as [_ [Hlen _]].
  destruct st as [a s0|pid rc s0|pid off l s0]; destruct s0 as [w0| |]; cbn [prepare_step] in Hp; try discriminate.
  - destruct (encode_control_packet a) as [off b|e] eqn:E; [|discriminate]. destruct (too_large _ _); [discriminate|]. inversion Hp; subst.
    pose proof (Terminate.ctl_bytes_len a) as Hc. unfold ctl_bytes in Hc. rewrite E in Hc. unfold BIG. lia.
  - destruct (encode_pubrel pid rc) as [off b|e] eqn:E; [|discriminate]. destruct (too_large _ _); [discriminate|]. inversion Hp; subst.
    pose proof (Terminate.rel_bytes_len pid rc) as Hc. unfold rel_bytes in Hc. rewrite E in Hc. unfold BIG. lia.
  - destruct (too_large _ _); [discriminate|]. injection Hp as Eb El.
    pose proof (next_step_entry _ _ Hn) as [e [Hi [_ [_ [Hl _]]]]].
    destruct I as [Iv _]. destruct (oi_arena _ (inv_ob _ Iv)) as [Wl Wu].
    pose proof (wf_layout_bound _ _ _ _ Wl Hi). rewrite Hlen. lia.
Qed.

Theorem healthy_perform_core : forall st w, Hc w -> next_step (s_ob (w_sess w)) = Some st ->
  exists w', perform_outbound_step st (w_now w) w = (w', ODone true) /\ Hc w' /\
    s_reader (w_sess w') = s_reader (w_sess w) /\ w_now w' = w_now w /\
    (step_state st = SWrite 0 -> exists len,
       w_sess w' = fst (complete_flush (fst (set_written (w_sess w) (step_key st) (0 + len) len)) (step_key st) (w_now w))) /\
    (forall bs len, prepare_step (w_sess w) st = PWrite (step_key st) bs 0 len -> broker_view w' = broker_view (broker_feed w bs)).
Proof.
  intros st w [Hs [Hl [I [Hm [Hpt [HB HF]]]]]] Hn.
  assert (Hwq : WInv (w_sess (fst (perform_outbound_step st (w_now w) w)))).
  { eapply WInv_wq; [apply perform_outbound_step_wq; exact Hn|exact I]. }
  pose proof (has_key_step _ _ Hn) as Hkey.
  unfold perform_outbound_step in *.
  destruct (Fr_step_state _ _ HF Hn) as [Hst|Hst].
  - (* unsent: one write takes it whole, then the flush *)
    destruct (prepare_fresh (w_sess w) st Hm Hst) as [bs [len Hp]]. rewrite Hp in *.
    destruct (engine_tail (w_sess w) st _ bs 0 len len I Hn Hp) as [_ [Hlen [Hfr _]]].
    assert (H2 : 2 <= lenN bs) by (destruct Hfr as [first Hfr]; exact (frame_len _ _ Hfr)).
    pose proof (prepared_len_small _ _ _ _ I HB Hn Hp) as Hsm.
    rewrite Hl in *. cbn [negb] in *. rewrite dropN_0 in *.
    destruct (io_write_healthy w bs Hs ltac:(intros E; rewrite E, lenN_nil in H2; lia) Hsm) as [w1 [Ew [S1 [C1 [L1 [N1 [_ V1]]]]]]].
    rewrite Ew in *. destruct (N.eqb_spec (lenN bs) 0) as [E0|_]; [lia|].
    rewrite S1 in *. rewrite Hlen in *.
    pose proof (set_written_found (w_sess w) st (0 + len) len Hn) as Hf1.
    destruct (set_written (w_sess w) (step_key st) (0 + len) len) as [s2 f2] eqn:E2. cbn [snd] in Hf1. subst f2. cbn [negb] in *.
    destruct (N.ltb_spec (0 + len) len) as [Bad|_]; [lia|].
    assert (Es2 : s2 = fst (set_written (w_sess w) (step_key st) (0 + len) len)) by now rewrite E2.
    unfold flush_current in *. cbn [w_live upd_sess] in *. rewrite L1, Hl in *. cbn [negb] in *.
    destruct (io_flush_healthy' (upd_sess w1 s2) C1) as [w2 [Ef [S2 [C2 [L2 [N2 [_ V2]]]]]]]. rewrite Ef in *. cbn [w_sess upd_sess] in S2.
    rewrite S2 in *.
    pose proof (complete_flush_found s2 (step_key st) (w_now w) ltac:(rewrite Es2; apply has_key_set_written; exact Hkey)) as Hf3.
    destruct (complete_flush s2 (step_key st) (w_now w)) as [s3 f3] eqn:E3. cbn [snd] in Hf3. subst f3.
    assert (Es3 : s3 = fst (complete_flush s2 (step_key st) (w_now w))) by now rewrite E3.
    destruct (set_written_fields (w_sess w) (step_key st) (0 + len) len) as [Rt2 Bf2]. rewrite <- Es2 in Rt2, Bf2.
    destruct (complete_flush_rt s2 (step_key st) (w_now w) ltac:(rewrite Rt2; exact Hm)
                ltac:(rewrite Rt2; exact Hpt)) as [M3 [T3 B3]]. rewrite <- Es3 in M3, T3, B3.
    eexists. split; [reflexivity|]. cbn [fst] in Hwq. split.
    + assert (Lv : w_live w2 = true) by (rewrite L2; cbn [w_live upd_sess]; exact L1).
      assert (Nw : w_now w2 = w_now w) by (rewrite N2; cbn [w_now upd_sess]; exact N1).
      unfold Hc. cbn [w_script w_live w_sess w_now upd_sess]. rewrite C2, Lv, Nw.
      split; [reflexivity|]. split; [reflexivity|]. split; [exact Hwq|]. split; [exact M3|].
      split; [exact T3|]. split; [rewrite B3, Bf2; exact HB|].
      rewrite Es3. apply Fr_complete_flush. rewrite Es2. apply Fr_set_written_full. exact HF.
    + cbn [w_sess w_now upd_sess]. split; [rewrite Es3, complete_flush_reader, Es2, set_written_reader; reflexivity|].
      split; [rewrite N2; cbn [w_now upd_sess]; exact N1|].
      split; [intros _; exists len; rewrite Es3, Es2; reflexivity|].
      intros bs' len' Hp'. injection Hp' as <- _. unfold broker_view in *. cbn [w_broker w_txbuf w_inq w_last_arrival upd_sess] in *.
      rewrite V2. exact V1.
  - (* written, awaiting its flush *)
    rewrite (prepare_flush (w_sess w) st Hst) in *.
    unfold flush_current in *. rewrite Hl in *. cbn [negb] in *.
    destruct (io_flush_healthy' w Hs) as [w1 [Ef [S1 [C1 [L1 [N1 [_ V1]]]]]]]. rewrite Ef in *. rewrite S1 in *.
    pose proof (complete_flush_found (w_sess w) (step_key st) (w_now w) Hkey) as Hf3.
    destruct (complete_flush (w_sess w) (step_key st) (w_now w)) as [s3 f3] eqn:E3. cbn [snd] in Hf3. subst f3.
    assert (Es3 : s3 = fst (complete_flush (w_sess w) (step_key st) (w_now w))) by now rewrite E3.
    destruct (complete_flush_rt (w_sess w) (step_key st) (w_now w) Hm Hpt) as [M3 [T3 B3]]. rewrite <- Es3 in M3, T3, B3.
    eexists. split; [reflexivity|]. cbn [fst] in Hwq. split.
    + unfold Hc. cbn [w_script w_live w_sess w_now upd_sess]. rewrite C1, L1, N1, Hl.
      split; [reflexivity|]. split; [reflexivity|]. split; [exact Hwq|]. split; [exact M3|].
      split; [exact T3|]. split; [rewrite B3; exact HB|]. rewrite Es3. apply Fr_complete_flush. exact HF.
    + cbn [w_sess w_now upd_sess]. split; [rewrite Es3, complete_flush_reader; reflexivity|]. split; [exact N1|].
      split; [intros E; rewrite Hst in E; discriminate E|].
      intros bs' len' Hp'. discriminate Hp'.
Qed.

Theorem healthy_perform : forall st w, Hd w -> next_step (s_ob (w_sess w)) = Some st ->
  exists w', perform_outbound_step st (w_now w) w = (w', ODone true) /\ Hd w' /\
    s_reader (w_sess w') = s_reader (w_sess w) /\ w_now w' = w_now w.
Proof.
  intros st w [Hcw Hq] Hn. destruct (healthy_perform_core st w Hcw Hn) as [w' [E [Hc' [R [N _]]]]].
  exists w'. split; [exact E|]. split; [|split; assumption]. split; [exact Hc'|].
  assert (I : WInv (w_sess w)) by (destruct Hcw as [_ [_ [I _]]]; exact I).
  exact (proj1 (step_pq _ _ _ _ I Hn Hq E Logic.I)).
Qed.

Lemma upd_sess_id : forall w, upd_sess w (w_sess w) = w.
Proof. intros w. destruct w; reflexivity. Qed.

Lemma Hd_service : forall w, Hd w ->
  ping_timed_out (w_sess w) (w_now w) = false /\ maybe_queue_pingreq (w_sess w) (w_now w) = (w_sess w, None).
Proof.
  intros w [[_ [_ [_ [_ [Hpt _]]]]] Hq]. split.
  - unfold ping_timed_out. destruct (rt_ping_timeout (s_rt (w_sess w))) as [d|] eqn:E; [|reflexivity].
    specialize (Hpt d eq_refl). apply N.leb_gt. exact Hpt.
  - exact (pq_no_ping w Hq).
Qed.

Theorem drive_loop_drains : forall fuel adv w, Hd w -> NA w -> M (w_sess w) < N.of_nat fuel ->
  exists w' pr, drive_loop fuel adv w = (w', ODone pr) /\
    pr = (if adv || match next_step (s_ob (w_sess w)) with Some _ => true | None => false end then PrAdvanced else PrIdle) /\
    next_step (s_ob (w_sess w')) = None /\ Hd w' /\ NA w' /\ w_now w' = w_now w.
Proof.
  induction fuel as [|f IH]; intros adv w Hh Hna Hm; [cbn in Hm; lia|]. cbn [drive_loop].
  assert (Ep : process_received w = (w, ODone None)).
  { unfold process_received. unfold NA in Hna. rewrite Hna. reflexivity. }
  rewrite Ep. unfold NA in Hna. rewrite Hna.
  destruct (Hd_service w Hh) as [Ht Hq]. unfold service. rewrite Ht, Hq. rewrite upd_sess_id.
  destruct (next_step (s_ob (w_sess w))) as [st|] eqn:En.
  - destruct (healthy_perform st w Hh En) as [w2 [E2 [H2 [R2 N2]]]]. rewrite E2.
    assert (I : WInv (w_sess w)) by (destruct Hh as [[_ [_ [I _]]] _]; exact I).
    pose proof (step_M _ _ _ _ I En E2) as Hdec.
    assert (Na2 : NA w2) by (unfold NA; rewrite R2; exact Hna).
    destruct (next_step (s_ob (w_sess w2))) as [st2|] eqn:En2.
    + destruct (IH (adv || true) w2 H2 Na2 ltac:(lia)) as [w' [pr [E' [Hpr [Hn' [Hd' [Na' Nw']]]]]]].
      exists w', pr. split; [exact E'|]. split; [rewrite Hpr, !orb_true_r; reflexivity|]. split; [exact Hn'|]. split; [exact Hd'|]. split; [exact Na'|]. now rewrite Nw'.
    + eexists _, _. split; [reflexivity|]. split; [rewrite !orb_true_r; reflexivity|]. split; [exact En2|]. split; [exact H2|]. split; [exact Na2|exact N2].
  - rewrite En. eexists _, _. split; [reflexivity|]. split; [reflexivity|].
    split; [exact En|]. split; [exact Hh|]. split; [exact Hna|reflexivity].
Qed.

(* drive() on a behaving transport sends everything that is queued *)
Theorem drive_sends_all : forall fuel w, Hd w -> NA w -> M (w_sess w) < N.of_nat fuel ->
  exists w', op_drive fuel w = (w', ODone None) /\ next_step (s_ob (w_sess w')) = None /\ Hd w' /\ NA w'.
Proof.
  intros fuel w Hh Hna Hm. unfold op_drive, drive_packet.
  assert (Hl : w_live w = true) by (destruct Hh as [[_ [Hl _]] _]; exact Hl). rewrite Hl. cbn [negb].
  destruct (drive_loop_drains fuel false w Hh Hna Hm) as [w' [pr [E [Hpr [Hn [Hd' [Na' _]]]]]]]. rewrite E.
  exists w'. split; [rewrite Hpr; destruct (false || _); reflexivity|]. split; [exact Hn|]. split; [exact Hd'|exact Na'].
Qed.

(* and so does poll(): with work queued it sends all of it and reports progress, without reading *)
Theorem poll_sends_all : forall fuel w st, Hd w -> NA w -> next_step (s_ob (w_sess w)) = Some st -> M (w_sess w) < N.of_nat (S fuel) ->
  exists w', op_poll (S fuel) w = (w', ODone None) /\ next_step (s_ob (w_sess w')) = None /\ Hd w' /\ NA w'.
Proof.
  intros fuel w st Hh Hna Hn Hm. unfold op_poll. cbn [wait_for_progress]. unfold drive_packet.
  assert (Hl : w_live w = true) by (destruct Hh as [[_ [Hl _]] _]; exact Hl). rewrite Hl. cbn [negb].
  destruct (drive_loop_drains (S fuel) false w Hh Hna Hm) as [w' [pr [E [Hpr [Hn' [Hd' [Na' _]]]]]]]. rewrite E.
  rewrite Hn in Hpr. cbn [orb] in Hpr. subst pr. exists w'. split; [reflexivity|]. split; [exact Hn'|]. split; [exact Hd'|exact Na'].
Qed.

(* with nothing left to write and no half-written entry, everything queued has been SENT *)
Lemma drained_all_sent : forall o, Fr o -> next_step o = None ->
  Forall (fun e => ce_st e = SSent) (ob_ctl o) /\ Forall (fun e => le_st e = SSent) (ob_rel o) /\ Forall (fun e => re_st e = SSent) (ob_ret o).
Proof.
  intros o [Fc [Fl Ft]] Hn. unfold next_step, next_step_pass, orelse, find_ctl, find_rel, find_ret in Hn.
  assert (G : forall {A} (st : A -> sstate) (l : list A), Forall (fun e => okst (st e)) l ->
              find (fun e => matches_priority (st e) true) l = None -> find (fun e => matches_priority (st e) false) l = None ->
              Forall (fun e => st e = SSent) l).
  { intros A st l H. induction H as [|x t Hx Ht IH]; intros H1 H2; [constructor|]. cbn [find] in H1, H2.
    destruct (matches_priority (st x) true) eqn:E1; [discriminate|]. destruct (matches_priority (st x) false) eqn:E2; [discriminate|].
    constructor; [|now apply IH]. unfold matches_priority in E1, E2. destruct (st x) as [w0| |]; cbn in *; try discriminate; [|reflexivity].
    subst w0. discriminate. }
  destruct (find (fun e => matches_priority (ce_st e) true) (ob_ctl o)) eqn:C1; [discriminate|].
  destruct (find (fun e => matches_priority (le_st e) true) (ob_rel o)) eqn:L1; [discriminate|].
  destruct (find (fun e => matches_priority (re_st e) true) (ob_ret o)) eqn:R1; [discriminate|].
  destruct (find (fun e => matches_priority (ce_st e) false) (ob_ctl o)) eqn:C2; [discriminate|].
  destruct (find (fun e => matches_priority (le_st e) false) (ob_rel o)) eqn:L2; [discriminate|].
  destruct (find (fun e => matches_priority (re_st e) false) (ob_ret o)) eqn:R2; [discriminate|].
  split; [now apply G|]. split; now apply G.
Qed.

(* ---------- non-vacuity: a resumed connection (no keep-alive) with a retained publish to replay ---------- *)
Definition ex_cfgh : config :=
  {| cf_rx := 64; cf_tx := 128; cf_client_id := [99]; cf_keepalive_s := 0; cf_expiry := 0;
     cf_downgrade := false; cf_will := None; cf_auth := None |}.
Definition ex_replay : world :=
  run_case {| c_cfg := ex_cfgh;
              c_prog := [ASetBroker 2; AConnect []; APublish ex_pub; ADrive; AHandleDisconnect; AHeal; AConnect []];
              c_script := [(0, 1000); (0, 1000); (0, 1000); (0, 1000); (0, 1000); (0, 4); (1, 0)] |}.

Example healthy_example :
  w_script ex_replay = [] /\ w_live ex_replay = true /\ rt_mps (s_rt (w_sess ex_replay)) = None /\
  rt_next_ping (s_rt (w_sess ex_replay)) = None /\ rt_ka_ms (s_rt (w_sess ex_replay)) = 0 /\
  rt_ping_timeout (s_rt (w_sess ex_replay)) = None /\
  map re_st (ob_ret (s_ob (w_sess ex_replay))) = [SWrite 0] /\ ob_ctl (s_ob (w_sess ex_replay)) = [] /\ ob_rel (s_ob (w_sess ex_replay)) = [] /\
  packet_available (s_reader (w_sess ex_replay)) = false /\ M (w_sess ex_replay) < N.of_nat FUEL /\
  snd (op_drive FUEL ex_replay) = ODone None /\
  map re_st (ob_ret (s_ob (w_sess (fst (op_drive FUEL ex_replay))))) = [SSent].
Proof. vm_compute. repeat split; reflexivity. Qed.
