(* InboundReach.v — the pending inbound QoS 2 identifiers are pairwise distinct in every reachable world *)
From Coq Require Import List NArith Lia Bool.
From Minimq Require Import Bytes Varint Utf8 Props Ser De Reader Arena Core Machine Run Util Lts Refine Reach Inbound.
Import ListNotations.
Local Open Scope N_scope.

Lemma SrvInv_sreach : forall s s', sreach s s' -> SrvInv s -> SrvInv s'.
Proof. intros s s' [ls H]. eapply (spath_inv SrvInv); [exact SrvInv_step | exact H]. Qed.

Theorem reachable_SrvInv : forall c, SrvInv (w_sess (run_case c)).
Proof.
  intros c. eapply SrvInv_sreach; [eapply wq_sreach; apply run_case_wq|]. cbn [init_world w_sess]. constructor.
Qed.

Theorem reachable_srv_bound : forall c, glen (s_srv (w_sess (run_case c))) <= 8.
Proof. intros c. apply (Inv.inv_srv _ (reachable_Inv c)). Qed.
