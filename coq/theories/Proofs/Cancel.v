(* Cancel.v — C13: everything an operation has achieved is in the session (or still in the transport) at the moment
   its future is dropped.  Inbound: no byte is lost, duplicated or reordered by a read that is dropped, times out or
   fails.  Outbound: a dropped engine step leaves either the session untouched or the step completely recorded.
   Requests: a dropped publish/subscribe/unsubscribe is either not applied at all or applied in full. *)
From Coq Require Import List NArith Lia Bool String.
From Coq Require Import ZifyBool ZifyN ZifyNat.
From Minimq Require Import Bytes Varint Utf8 Props Ser De Reader Arena Core Show Machine Parse Run Util Lts Refine Limits.
Import ListNotations.
Local Open Scope N_scope.

(* ---------- inbound byte conservation ---------- *)
(* everything the broker has sent and the client has not consumed: the reader's buffer, then the transport queue *)
Definition inq_bytes (q : list (N * bytes)) : bytes := concat (map snd q).
Definition inbound_stream (w : world) : bytes := rdata (s_reader (w_sess w)) ++ inq_bytes (w_inq w).

Lemma avail_split_bytes : forall now q av later, avail_split now q = (av, later) -> inq_bytes q = av ++ inq_bytes later.
Proof.
  induction q as [|[t b] r IH]; intros av later H; cbn [avail_split] in H.
  - inversion H; subst. reflexivity.
  - destruct (t <=? now).
    + destruct (avail_split now r) as [a r'] eqn:E. inversion H; subst. cbn [inq_bytes map concat snd].
      fold (inq_bytes r). rewrite (IH a later eq_refl). now rewrite app_assoc.
    + inversion H; subst. reflexivity.
Qed.

Lemma deliver_bytes : forall win amt w w1 d, deliver win amt w = (w1, RData d) ->
  inq_bytes (w_inq w) = d ++ inq_bytes (w_inq w1).
Proof.
  intros win amt w w1 d H. unfold deliver in H. destruct (avail_split (w_now w) (w_inq w)) as [av later] eqn:E.
  inversion H; subst; clear H. cbn [w_inq upd_log upd_inq].
  rewrite (avail_split_bytes _ _ _ _ E).
  set (n := N.min (N.max amt 1) (N.min win (lenN av))).
  rewrite <- (takeN_dropN av n) at 1. rewrite <- app_assoc. f_equal.
  destruct (dropN n av) as [|x t] eqn:Ed; [reflexivity|]. cbn [inq_bytes map concat snd]. reflexivity.
Qed.

Lemma deliver_is_data : forall win amt w, exists d, snd (deliver win amt w) = RData d.
Proof. intros. unfold deliver. destruct (avail_split _ _). eexists. reflexivity. Qed.

Lemma io_read_bytes : forall win dl w w1 r, io_read win dl w = (w1, r) ->
  match r with
  | RData d => inq_bytes (w_inq w) = d ++ inq_bytes (w_inq w1)
  | _ => inq_bytes (w_inq w1) = inq_bytes (w_inq w)
  end.
Proof.
  intros win dl w w1 r H. unfold io_read in H.
  destruct (N.eqb win 0); [inversion H; subst; reflexivity|].
  destruct (next_ev w) as [[k amt] rest].
  destruct (N.eqb k 1); [inversion H; subst; reflexivity|].
  destruct (N.eqb k 2); [inversion H; subst; reflexivity|].
  destruct (N.eqb k 3); [inversion H; subst; reflexivity|].
  destruct (avail_split (w_now w) (w_inq w)) as [av l0] eqn:E. destruct av as [|a0 av'].
  - set (target := if MAX_WAITS <=? w_waits w then None else _) in H.
    destruct target as [t|]; [|inversion H; subst; reflexivity].
    cbv zeta in H.
    match type of H with context [avail_split t ?q] => destruct (avail_split t q) as [av1 l1] eqn:E1 end.
    destruct av1 as [|a1 av1'].
    + inversion H; subst. reflexivity.
    + match type of H with context [deliver win amt ?x] =>
        destruct (deliver_is_data win amt x) as [d Hd]; destruct (deliver win amt x) as [w' r'] eqn:Ex end.
      inversion H; subst. cbn [snd] in Hd. subst.
      apply deliver_bytes in Ex. exact Ex.
  - destruct (deliver_is_data win amt (upd_script w rest)) as [d Hd].
    destruct (deliver win amt (upd_script w rest)) as [w' r'] eqn:Ex. inversion H; subst. cbn [snd] in Hd. subst.
    apply deliver_bytes in Ex. exact Ex.
Qed.

Lemma receive_buffer_data : forall r r' ow, receive_buffer r = (r', ow) -> rdata r' = rdata r.
Proof.
  intros r r' ow H. unfold receive_buffer in H.
  destruct (rplen r) as [pl|] eqn:Ep.
  - cbv beta iota in H. rewrite Ep in H. destruct (pl <=? rcap r); inversion H; reflexivity.
  - unfold probe in H. destruct (read_bytes r <=? 1).
    + cbv beta iota in H. rewrite Ep in H. destruct (_ <=? rcap r); inversion H; reflexivity.
    + destruct ((5 <=? read_bytes r) && _); [inversion H; reflexivity|].
      cbv beta iota in H. cbn [rplen rcap] in H.
      destruct (probe_len _) as [pl|]; cbn [read_bytes rdata rcap] in H;
        match type of H with (if ?c then _ else _) = _ => destruct c end; inversion H; reflexivity.
Qed.

(* whatever happens to a read — data, timeout, the future dropped, a transport error — the bytes sent by the broker
   and not yet consumed are the same sequence afterwards: nothing lost, nothing twice, nothing out of order *)
Lemma fill_go_conserves_inbound : forall fuel y dl w,
  inbound_stream (fst (fill_go fuel y dl w)) = inbound_stream w.
Proof.
  induction fuel as [|f IH]; intros y dl w; cbn [fill_go]; [reflexivity|].
  destruct (packet_available _); [reflexivity|].
  destruct (receive_buffer (s_reader (w_sess w))) as [r' ow] eqn:Er.
  pose proof (receive_buffer_data _ _ _ Er) as Hd.
  destruct ow as [win|]; [|cbn [fst]; unfold inbound_stream; cbn [w_sess upd_sess set_reader s_reader w_inq]; now rewrite Hd].
  set (w0 := upd_sess w (set_reader (w_sess w) r')).
  assert (H0 : inbound_stream w0 = inbound_stream w).
  { unfold inbound_stream, w0. cbn [w_sess upd_sess set_reader s_reader w_inq]. now rewrite Hd. }
  destruct (N.eqb win 0); [exact H0|].
  destruct (timer_fired y dl w0); [exact H0|].
  destruct (io_read win dl w0) as [w1 r] eqn:Ei.
  pose proof (io_read_bytes _ _ _ _ _ Ei) as Hb. pose proof (io_read_sess win dl w0) as [Hs _]. rewrite Ei in Hs. cbn [fst] in Hs.
  assert (Hk : inbound_stream w1 = inbound_stream w -> inq_bytes (w_inq w1) = inq_bytes (w_inq w0) -> True) by trivial.
  destruct r as [d| | |]; cbn [fst].
  - destruct d as [|x t].
    + cbn [fst]. unfold inbound_stream. rewrite Hs. cbn [app] in Hb. rewrite <- Hb. exact H0.
    + rewrite IH. unfold inbound_stream. cbn [w_sess upd_sess set_reader s_reader w_inq commit rdata].
      rewrite Hs. rewrite <- app_assoc. rewrite <- Hb. exact H0.
  - unfold inbound_stream. rewrite Hs, Hb. exact H0.
  - unfold inbound_stream. rewrite Hs, Hb. exact H0.
  - unfold inbound_stream. rewrite Hs, Hb. exact H0.
Qed.
Theorem fill_conserves_inbound : forall fuel dl w,
  inbound_stream (fst (fill_packet_reader fuel dl w)) = inbound_stream w.
Proof. intros. apply fill_go_conserves_inbound. Qed.

(* ---------- outbound: a dropped engine step is all or nothing ---------- *)
Theorem step_cancel_recorded : forall st now w w',
  perform_outbound_step st now w = (w', OCancel) ->
  w_sess w' = w_sess w \/
  (exists p bs written len n, prepare_step (w_sess w) st = PWrite p bs written len /\ len <= written + n /\
     w_sess w' = fst (set_written (w_sess w) p (written + n) len)).
Proof.
  intros st now w w' H. unfold perform_outbound_step in H.
  destruct (prepare_step (w_sess w) st) as [p bs written len|p| |e] eqn:Ep; try discriminate.
  - destruct (negb (w_live w)); [discriminate|].
    destruct (io_write (dropN written bs) w) as [w1 r] eqn:Ew.
    pose proof (io_write_sess (dropN written bs) w) as [Hs _]. rewrite Ew in Hs. cbn [fst] in Hs.
    destruct r as [n| |]; try discriminate.
    + destruct (N.eqb n 0); [discriminate|].
      destruct (set_written (w_sess w1) p (written + n) len) as [s found] eqn:Es.
      destruct (negb found); [discriminate|].
      destruct (N.ltb_spec (written + n) len) as [L|L]; [discriminate|].
      unfold flush_current in H. cbn [w_live upd_sess] in H. destruct (negb (w_live w1)); [discriminate|].
      destruct (io_flush (upd_sess w1 s)) as [w2 fr] eqn:Ef.
      pose proof (io_flush_sess (upd_sess w1 s)) as [Hf _]. rewrite Ef in Hf. cbn [fst w_sess upd_sess] in Hf.
      destruct fr; try discriminate.
      * destruct (complete_flush _ _ _) as [s3 f3]. destruct f3; discriminate.
      * injection H as <-. right. exists p, bs, written, len, n. split; [reflexivity|]. split; [exact L|].
        rewrite Hf. rewrite Hs in Es. now rewrite Es.
    + injection H as <-. left. exact Hs.
  - unfold flush_current in H. destruct (negb (w_live w)); [discriminate|].
    destruct (io_flush w) as [w1 fr] eqn:Ef. pose proof (io_flush_sess w) as [Hf _]. rewrite Ef in Hf. cbn [fst] in Hf.
    destruct fr; try discriminate.
    + destruct (complete_flush _ _ _) as [s3 f3]. destruct f3; discriminate.
    + injection H as <-. left. exact Hf.
Qed.

(* ---------- requests: not applied at all, or applied in full ---------- *)
Theorem publish_cancel_cases : forall fuel r w w',
  op_publish fuel r w = (w', OCancel) ->
  flush_outbound fuel w = (w', OCancel) \/
  (exists w1 s2 m, flush_outbound fuel w = (w1, ODone tt) /\ publish_middle (w_sess w1) (w_live w1) r = (s2, m) /\
     finish_mid fuel (upd_sess w1 s2) m = (w', OCancel) /\
     match m with MErr _ => False | _ => True end).
Proof.
  intros fuel r w w' H. unfold op_publish in H. destruct (negb (w_live w)); [discriminate|].
  destruct (flush_outbound fuel w) as [w1 o] eqn:Ef. destruct o as [[]|e| | |]; cbn [bindu] in H; try discriminate.
  - right. destruct (publish_middle (w_sess w1) (w_live w1) r) as [s2 m] eqn:Em.
    exists w1, s2, m. repeat split; try assumption. destruct m; [cbn [finish_mid] in H; discriminate|exact I|exact I].
  - left. injection H as <-. reflexivity.
Qed.

Theorem subscribe_cancel_cases : forall fuel t ps w w',
  op_subscribe fuel t ps w = (w', OCancel) ->
  flush_outbound fuel w = (w', OCancel) \/
  (exists w1 s2 o, flush_outbound fuel w = (w1, ODone tt) /\ subscribe_middle (w_sess w1) t ps = (s2, MRetained o) /\
     flush_outbound fuel (upd_sess w1 s2) = (w', OCancel)).
Proof.
  intros fuel t ps w w' H. unfold op_subscribe in H. destruct (negb (w_live w)); [discriminate|].
  destruct t as [|t0 ts]; [discriminate|]. destruct (negb _); [discriminate|].
  destruct (flush_outbound fuel w) as [w1 o] eqn:Ef. destruct o as [[]|e| | |]; cbn [bindu] in H; try discriminate.
  - right. destruct (subscribe_middle (w_sess w1) (t0 :: ts) ps) as [s2 m] eqn:Em.
    destruct m as [e|o|bs]; cbn [finish_mid] in H; [discriminate| |].
    + exists w1, s2, o. split; [reflexivity|]. split; [exact Em|].
      destruct (flush_outbound fuel (upd_sess w1 s2)) as [w2 o2]. destruct o2 as [[]|e| | |]; cbn [bindu] in H; try discriminate.
      injection H as <-. reflexivity.
    + exfalso. unfold subscribe_middle, enqueue_middle in Em. destruct (retained_full _); [discriminate|].
      destruct (next_packet_id _) as [s1 id]. destruct (encode_at _ _) as [o1 er]. destruct er; [|discriminate].
      destruct (too_large _ _); [discriminate|]. destruct (retain_packet _ _ _ _); discriminate.
  - left. injection H as <-. reflexivity.
Qed.

(* a retained request that was applied is in the arena whatever happens to the rest of the call *)
Theorem applied_request_is_retained : forall s k enc s' o,
  enqueue_middle s k enc = (s', MRetained o) ->
  exists e, In e (ob_ret (s_ob s')) /\ re_pid e = op_pid o.
Proof.
  intros s k enc s' o H. destruct (enqueue_middle_within s k enc s' o H) as [e [Hi [Hp _]]]. exists e. split; assumption.
Qed.

(* ---------- refutation for disconnect() (known finding K13d / K01c) ---------- *)
(* connect, then disconnect() whose first write accepts one byte and whose future is then dropped: one byte of the
   DISCONNECT is on the wire, nothing in the session remembers it, and the handle is still live *)
Definition k13_tokens : list N :=
  [64; 256; 1; 116; 0; 0; 0; 0; 0; 2;
   0; 1; 0; 5; 32; 3; 0; 0; 0;
   4; 0; 0;
   7; 0; 1000; 0; 1000; 0; 1000; 0; 1000; 0; 1000; 0; 1; 3; 0].

Definition k13_world : option world :=
  match p_case k13_tokens with Some (c, []) => Some (run_case c) | _ => None end.

Theorem disconnect_cancel_refuted :
  exists w, k13_world = Some w /\
    w_live w = true /\ In (s2t "w 2 1 e0"%string) (w_log w) /\ In (s2t "= cancelled"%string) (w_log w) /\
    next_step (s_ob (w_sess w)) = None.
Proof.
  destruct k13_world as [w|] eqn:E; [|vm_compute in E; discriminate].
  exists w. split; [reflexivity|]. vm_compute in E. inversion E; subst; clear E.
  vm_compute. repeat split; tauto.
Qed.
