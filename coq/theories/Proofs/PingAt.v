(* PingAt.v — C10 at the level of the machine: while the application waits in poll() on a behaving transport and nothing
   arrives, the wait sleeps exactly until the PINGREQ deadline, the PINGREQ is queued, written and flushed AT that instant
   (virtual time does not pass inside the engine), the round-trip timer is armed for deadline + 5 s and the next PINGREQ is
   scheduled ahead; and an unanswered PINGREQ ends the wait with the disconnected error exactly at its timeout, no earlier. *)
From Coq Require Import List NArith Lia Bool PeanoNat.
From Coq Require Import ZifyBool ZifyN ZifyNat.
From Minimq Require Import Bytes Varint Utf8 Props Ser De Reader Spec Arena Core Show Machine Parse Run Util Lts Refine
  ArenaLemmas ArenaOps Inv Quota Status Persist Frames Limits Reach WireInv Chunking Wire Measure Terminate KeepAlive ConnectOk
  PingQuiet Healthy Owed Sends Framing Liveness.
Import ListNotations.
Local Open Scope N_scope.

(* ---------- a read that meets its deadline: nothing has arrived, nothing will before the deadline ---------- *)
Lemma io_read_timeout : forall win d w, win <> 0 -> w_script w = [] -> w_inq w = [] -> w_now w < d -> w_waits w < MAX_WAITS ->
  exists w1, io_read win (Some d) w = (w1, RTimeout) /\
    w_sess w1 = w_sess w /\ w_script w1 = [] /\ w_inq w1 = [] /\ w_now w1 = d /\ w_live w1 = w_live w /\ w_wire w1 = w_wire w /\
    w_waits w1 = w_waits w + 1.
Proof.
  intros win d w Hw Hs Hi Hn Hwt. unfold io_read.
  destruct (N.eqb_spec win 0) as [E|_]; [contradiction|].
  rewrite (next_ev_healthy w Hs). cbn [N.eqb]. rewrite Hi. cbn [avail_split next_arrival].
  destruct (N.leb_spec d (w_now w)) as [L|_]; [lia|].
  destruct (N.leb_spec MAX_WAITS (w_waits w)) as [L|_]; [lia|].
  cbn [w_inq upd_log upd_waits upd_now]. rewrite Hi. cbn [avail_split].
  eexists. split; [reflexivity|]. cbn [w_sess w_script w_inq w_now w_live w_wire w_waits upd_log upd_waits upd_now]. repeat split; assumption.
Qed.

(* ---------- the ping decision made by the first service step can be taken out of the loop ---------- *)
Lemma maybe_queue_frame : forall s now s1 e, maybe_queue_pingreq s now = (s1, e) -> s_reader s1 = s_reader s /\ s_rt s1 = s_rt s.
Proof.
  intros s now s1 e H. unfold maybe_queue_pingreq in H. destruct (should_queue_pingreq s now); [|inversion H; split; reflexivity].
  destruct (check_control_size _ _); [inversion H; split; reflexivity|]. destruct (queue_control _ _); inversion H; split; reflexivity.
Qed.

Lemma drive_loop_pinged : forall f adv w s1,
  NA w -> ping_timed_out (w_sess w) (w_now w) = false -> maybe_queue_pingreq (w_sess w) (w_now w) = (s1, None) ->
  drive_loop (S f) adv w = drive_loop (S f) adv (upd_sess w s1).
Proof.
  intros f adv w s1 Hna Ht Hq. destruct (maybe_queue_frame _ _ _ _ Hq) as [Er Ert].
  rewrite !drive_loop_unfold.
  assert (Ep : process_received w = (w, ODone None)) by (unfold process_received; unfold NA in Hna; rewrite Hna; reflexivity).
  assert (Ep' : process_received (upd_sess w s1) = (upd_sess w s1, ODone None)).
  { unfold process_received. cbn [w_sess upd_sess]. rewrite Er. unfold NA in Hna. rewrite Hna. reflexivity. }
  rewrite Ep, Ep'. cbn [w_sess upd_sess]. rewrite Er. unfold NA in Hna. rewrite Hna.
  unfold service. cbn [w_sess w_now upd_sess]. rewrite Ht.
  assert (Ht' : ping_timed_out s1 (w_now w) = false) by (unfold ping_timed_out in *; rewrite Ert; exact Ht).
  rewrite Ht', Hq.
  assert (Hq' : maybe_queue_pingreq s1 (w_now w) = (s1, None)).
  { unfold maybe_queue_pingreq. rewrite (pinged_pq _ _ _ Hq). reflexivity. }
  rewrite Hq'. cbn [w_sess upd_sess].
  replace (upd_sess (upd_sess w s1) s1) with (upd_sess w s1) by (destruct w; reflexivity). reflexivity.
Qed.

(* ---------- what the queues owe once the PINGREQ has joined an otherwise finished outbound state ---------- *)
Lemma no_step_shapes : forall o, next_step o = None ->
  Forall (fun e => is_in_progress (ce_st e) = false /\ is_fresh (ce_st e) = false) (ob_ctl o) /\
  Forall (fun e => is_in_progress (le_st e) = false /\ is_fresh (le_st e) = false) (ob_rel o) /\
  Forall (fun e => is_in_progress (re_st e) = false /\ is_fresh (re_st e) = false) (ob_ret o).
Proof.
  intros o H. unfold next_step, next_step_pass, orelse, find_ctl, find_rel, find_ret in H.
  destruct (find (fun e => matches_priority (ce_st e) true) (ob_ctl o)) eqn:C1; [discriminate|].
  destruct (find (fun e => matches_priority (le_st e) true) (ob_rel o)) eqn:L1; [discriminate|].
  destruct (find (fun e => matches_priority (re_st e) true) (ob_ret o)) eqn:R1; [discriminate|].
  destruct (find (fun e => matches_priority (ce_st e) false) (ob_ctl o)) eqn:C2; [discriminate|].
  destruct (find (fun e => matches_priority (le_st e) false) (ob_rel o)) eqn:L2; [discriminate|].
  destruct (find (fun e => matches_priority (re_st e) false) (ob_ret o)) eqn:R2; [discriminate|].
  apply find_none_forall in C1, L1, R1, C2, L2, R2. cbn [matches_priority] in *.
  split; [|split]; apply Forall_forall; intros x Hx.
  - rewrite Forall_forall in C1, C2. split; auto.
  - rewrite Forall_forall in L1, L2. split; auto.
  - rewrite Forall_forall in R1, R2. split; auto.
Qed.

Lemma no_step_ctl_empty : forall o, CtlShape (ob_ctl o) -> next_step o = None -> ob_ctl o = [].
Proof.
  intros o Hc Hn. destruct (no_step_shapes o Hn) as [Fc _]. destruct (ob_ctl o) as [|e t]; [reflexivity|].
  exfalso. destruct Hc as [Hne _]. inversion Fc as [|? ? [H1 H2] _]; subst.
  destruct (ce_st e) as [k| |]; cbn in *; try discriminate; [|congruence].
  destruct (N.eqb k 0); discriminate.
Qed.

Lemma find_none_of : forall {A} (p : A -> bool) l, Forall (fun x => p x = false) l -> find p l = None.
Proof. intros A p l H. induction H as [|x t Hx Ht IH]; [reflexivity|]. cbn [find]. now rewrite Hx. Qed.

Definition ping_entry : centry := {| ce_act := CPing; ce_st := SWrite 0 |}.

Lemma next_step_with_ctl_nil : forall o, next_step o = None -> next_step (with_ctl o []) = None.
Proof.
  intros o H. destruct (no_step_shapes o H) as [_ [Fl Fr0]].
  unfold next_step, next_step_pass, orelse, find_ctl, find_rel, find_ret. cbn [ob_ctl ob_rel ob_ret with_ctl find].
  rewrite !(find_none_of _ (ob_rel o)), !(find_none_of _ (ob_ret o)); try reflexivity;
    (eapply Forall_impl; [|first [exact Fl|exact Fr0]]); cbn [matches_priority]; intros x [H1 H2]; assumption.
Qed.

Lemma next_step_pinged : forall o, next_step o = None -> next_step (with_ctl o [ping_entry]) = Some (StCtl CPing (SWrite 0)).
Proof.
  intros o H. destruct (no_step_shapes o H) as [_ [Fl Fr0]].
  unfold next_step, next_step_pass, orelse, find_ctl, find_rel, find_ret. cbn [ob_ctl ob_rel ob_ret with_ctl find ping_entry ce_st ce_act].
  cbn [matches_priority is_in_progress is_fresh N.eqb negb].
  rewrite !(find_none_of _ (ob_rel o)), !(find_none_of _ (ob_ret o)); try reflexivity;
    (eapply Forall_impl; [|first [exact Fl|exact Fr0]]); cbn [matches_priority]; intros x [H1 H2]; assumption.
Qed.

Lemma pinged_state : forall s now d, WInv s -> next_step (s_ob s) = None ->
  rt_ping_timeout (s_rt s) = None -> rt_mps (s_rt s) = None -> rt_next_ping (s_rt s) = Some d -> d <= now ->
  maybe_queue_pingreq s now = (set_ob s (with_ctl (s_ob s) [ping_entry]), None).
Proof.
  intros s now d [_ [_ [_ Hc]]] Hn Hpt Hm Hnp Hd.
  pose proof (no_step_ctl_empty _ Hc Hn) as Ec.
  unfold maybe_queue_pingreq, should_queue_pingreq, has_pending_pingreq. rewrite Hpt, Hnp, Ec. cbn [existsb negb andb].
  destruct (N.leb_spec d now) as [_|L]; [|lia].
  unfold check_control_size. rewrite Hm. change (encode_control_packet CPing) with (SOk 3 [192; 0]). cbn [too_large].
  unfold queue_control. rewrite Ec. cbn [glen]. change (MAX_PENDING_CONTROL <=? 0) with false. cbv iota. cbn [app].
  reflexivity.
Qed.

Lemma owed_pinged : forall o, next_step o = None -> owed (with_ctl o [ping_entry]) = [192; 0].
Proof.
  intros o H. destruct (no_step_shapes o H) as [_ [Fl Fr0]].
  unfold owed, part_of, fresh_of. cbn [ob_ctl ob_rel ob_ret ob_buf with_ctl].
  rewrite (Pq_quiet le_st lbytes (ob_rel o)) by (eapply Forall_impl; [|exact Fl]; intros x [H1 _]; exact H1).
  rewrite (Pq_quiet re_st (ret_bytes (ob_buf o)) (ob_ret o)) by (eapply Forall_impl; [|exact Fr0]; intros x [H1 _]; exact H1).
  rewrite (Fq_none le_st lbytes (ob_rel o)) by (eapply Forall_impl; [|exact Fl]; intros x [_ H2]; exact H2).
  rewrite (Fq_none re_st (ret_bytes (ob_buf o)) (ob_ret o)) by (eapply Forall_impl; [|exact Fr0]; intros x [_ H2]; exact H2).
  reflexivity.
Qed.

Lemma fresh_rb : forall r, rdata r = [] -> rplen r = None -> 1 <= rcap r -> receive_buffer r = (r, Some 1).
Proof.
  intros r Hd Hp Hc. unfold receive_buffer. rewrite Hp. unfold probe, read_bytes. rewrite Hd.
  cbn [lenN lenN_acc]. change (0 <=? 1) with true. cbv beta iota. rewrite Hp. unfold read_bytes. rewrite Hd. cbn [lenN lenN_acc].
  destruct (N.leb_spec (0 + 1) (rcap r)) as [_|L]; [|lia]. reflexivity.
Qed.

Lemma with_ctl_twice : forall o a b, with_ctl (with_ctl o a) b = with_ctl o b.
Proof. reflexivity. Qed.

Lemma set_reader_id : forall s, set_reader s (s_reader s) = s.
Proof. intros s. destruct s; reflexivity. Qed.

Theorem poll_pings_at_deadline : forall w d,
  Hc w -> rdata (rd w) = [] -> rplen (rd w) = None -> 1 <= rcap (rd w) ->
  next_step (s_ob (w_sess w)) = None ->
  rt_next_ping (s_rt (w_sess w)) = Some d -> w_now w < d -> rt_ping_timeout (s_rt (w_sess w)) = None ->
  w_inq w = [] -> w_waits w < MAX_WAITS ->
  exists w', op_poll FUEL w = (w', ODone None) /\ w_now w' = d /\ w_wire w' = w_wire w ++ [192; 0] /\
    rt_ping_timeout (s_rt (w_sess w')) = Some (d + ROUND_TRIP_TIMEOUT_MS) /\
    PQ w' /\ next_step (s_ob (w_sess w')) = None.
Proof.
  intros w d Hcw Hrd Hrp Hcap Hn Hnp Hlt Hpt Hi Hwt.
  pose proof Hcw as [Hs [Hl [I [Hm [_ [HB HF]]]]]].
  destruct FUEL_big as [f Hf]. rewrite Hf. unfold op_poll.
  assert (Hna : packet_available (rd w) = false) by (unfold packet_available; rewrite Hrp; reflexivity).
  assert (Hq : PQ w).
  { split; [|apply calm_nil; exact Hs]. unfold should_queue_pingreq. rewrite Hpt, Hnp. destruct (N.leb_spec d (w_now w)) as [L|_]; [lia|]. reflexivity. }
  (* ---- first pass: nothing to do; the wait sleeps until the deadline ---- *)
  rewrite wait_unfold. unfold drive_packet. rewrite Hl. cbn [negb]. rewrite drive_loop_unfold.
  assert (Ep : process_received w = (w, ODone None)) by (unfold process_received; fold (rd w); rewrite Hna; reflexivity).
  rewrite Ep. fold (rd w). rewrite Hna.
  destruct (Hd_service w (conj Hcw Hq)) as [Ht Hmq]. unfold service. rewrite Ht, Hmq, upd_sess_id, Hn. cbn [orb].
  rewrite ?Hn. unfold next_deadline. rewrite Hnp, Hpt. rewrite Hl. cbn [negb].
  unfold fill_packet_reader. cbn [fill_go]. fold (rd w). rewrite Hna, (fresh_rb (rd w) Hrd Hrp Hcap). unfold rd. rewrite set_reader_id, upd_sess_id.
  change (1 =? 0) with false. cbv iota. change (timer_fired false ?dd ?ww) with false. cbv iota.
  destruct (io_read_timeout 1 d w ltac:(discriminate) Hs Hi Hlt Hwt) as [w1 [Er [S1 [C1 [Q1 [N1 [L1 [W1 _]]]]]]]].
  rewrite Er.
  (* ---- second pass, at the deadline: the PINGREQ is queued, written and flushed ---- *)
  rewrite wait_unfold. unfold drive_packet. rewrite L1, Hl. cbn [negb].
  assert (I1 : WInv (w_sess w1)) by (rewrite S1; exact I).
  assert (Na1 : NA w1) by (unfold NA; rewrite S1; exact Hna).
  assert (Ht1 : ping_timed_out (w_sess w1) (w_now w1) = false) by (unfold ping_timed_out; rewrite S1, Hpt; reflexivity).
  assert (Hp1 : maybe_queue_pingreq (w_sess w1) (w_now w1) = (set_ob (w_sess w) (with_ctl (s_ob (w_sess w)) [ping_entry]), None)).
  { rewrite S1, N1. apply (pinged_state (w_sess w) d d I Hn Hpt Hm Hnp). lia. }
  rewrite (drive_loop_pinged _ false w1 _ Na1 Ht1 Hp1).
  set (s1 := set_ob (w_sess w) (with_ctl (s_ob (w_sess w)) [ping_entry])) in *.
  set (w3 := upd_sess w1 s1).
  assert (I3 : WInv (w_sess w3)).
  { cbn [w3 w_sess upd_sess]. replace s1 with (fst (maybe_queue_pingreq (w_sess w1) (w_now w1))) by now rewrite Hp1.
    eapply WInv_step; [apply SS_ping|exact I1]. }
  assert (Hc3 : Hc w3).
  { unfold Hc. cbn [w3 w_script w_live w_sess w_now upd_sess]. rewrite C1, L1, Hl.
    split; [reflexivity|]. split; [reflexivity|]. split; [exact I3|]. split; [exact Hm|].
    split; [cbn [s1 s_rt set_ob]; intros d0 E; rewrite Hpt in E; discriminate E|]. split; [exact HB|].
    destruct HF as [_ [Fl Ft]]. split; [|split; assumption]. cbn [s1 s_ob set_ob with_ctl ob_ctl]. repeat constructor. }
  assert (Q3 : PQ w3) by (split; [cbn [w3 w_sess w_now upd_sess]; exact (pinged_pq _ _ _ Hp1)|apply calm_nil; cbn [w3 w_script upd_sess]; exact C1]).
  assert (Na3 : NA w3) by (unfold NA; cbn [w3 w_sess upd_sess s1 s_reader set_ob]; exact Hna).
  assert (En3 : next_step (s_ob (w_sess w3)) = Some (StCtl CPing (SWrite 0))) by (cbn [w3 w_sess upd_sess s1 s_ob set_ob]; apply next_step_pinged; exact Hn).
  rewrite drive_loop_unfold.
  assert (Ep3 : process_received w3 = (w3, ODone None)) by (unfold process_received; unfold NA in Na3; rewrite Na3; reflexivity).
  rewrite Ep3. unfold NA in Na3. rewrite Na3.
  destruct (Hd_service w3 (conj Hc3 Q3)) as [Ht3 Hmq3]. unfold service. rewrite Ht3, Hmq3, upd_sess_id, En3.
  destruct (healthy_perform_core _ w3 Hc3 En3) as [w4 [E4 [Hc4 [R4 [N4 [X4 _]]]]]]. rewrite E4.
  destruct (X4 eq_refl) as [len S4]. cbn [step_key] in S4.
  (* the state after the step, explicitly *)
  assert (O4 : s_ob (w_sess w4) = with_ctl (s_ob (w_sess w)) []).
  { rewrite S4. unfold complete_flush, set_written, set_control_written, flush_control.
    cbn [w3 w_sess upd_sess s1 s_ob set_ob with_ctl ob_ctl update_first ping_entry ce_act caction_eqb fst set_rt filter ce_st sstate_eqb negb].
    reflexivity. }
  assert (T4 : rt_ping_timeout (s_rt (w_sess w4)) = Some (w_now w3 + ROUND_TRIP_TIMEOUT_MS)).
  { rewrite S4. unfold complete_flush, set_written, set_control_written, flush_control.
    cbn [w3 w_sess upd_sess s1 s_ob s_rt set_ob with_ctl ob_ctl update_first ping_entry ce_act caction_eqb fst set_rt
         note_outbound_activity rt_with_timers rt_ping_timeout].
    reflexivity. }
  assert (En4 : next_step (s_ob (w_sess w4)) = None) by (rewrite O4; apply next_step_with_ctl_nil; exact Hn).
  rewrite En4. cbn [orb].
  pose proof (step_conserves _ _ _ _ _ I3 En3 E4 Logic.I) as Hcons. unfold total in Hcons.
  rewrite (owed_no_step _ En4), app_nil_r in Hcons.
  cbn [w3 w_sess upd_sess s1 s_ob set_ob] in Hcons. rewrite (owed_pinged _ Hn) in Hcons.
  destruct (step_pq _ _ _ _ I3 En3 Q3 E4 Logic.I) as [Q4 _].
  eexists. split; [reflexivity|].
  split; [rewrite N4; cbn [w3 w_now upd_sess]; exact N1|].
  split; [rewrite Hcons; cbn [w3 w_wire upd_sess]; rewrite W1; reflexivity|].
  split; [rewrite T4; cbn [w3 w_now upd_sess]; rewrite N1; reflexivity|].
  split; [exact Q4|exact En4].
Qed.

(* ---------- an unanswered PINGREQ: the wait ends with the disconnected error exactly when the round trip bound expires ---------- *)
Theorem poll_times_out_at_bound : forall w t,
  Hc w -> rdata (rd w) = [] -> rplen (rd w) = None -> 1 <= rcap (rd w) ->
  next_step (s_ob (w_sess w)) = None ->
  rt_ping_timeout (s_rt (w_sess w)) = Some t -> w_now w < t ->
  (forall d, rt_next_ping (s_rt (w_sess w)) = Some d -> t <= d) ->
  w_inq w = [] -> w_waits w < MAX_WAITS ->
  exists w', op_poll FUEL w = (w', OFail EDisconnected) /\ w_now w' = t /\ w_live w' = false /\ w_wire w' = w_wire w.
Proof.
  intros w t Hcw Hrd Hrp Hcap Hn Hpt Hlt Hnp Hi Hwt.
  pose proof Hcw as [Hs [Hl [I [Hm [_ [HB HF]]]]]].
  destruct FUEL_big as [f Hf]. rewrite Hf. unfold op_poll.
  assert (Hna : packet_available (rd w) = false) by (unfold packet_available; rewrite Hrp; reflexivity).
  assert (Hq : PQ w) by (split; [unfold should_queue_pingreq; rewrite Hpt; reflexivity|apply calm_nil; exact Hs]).
  rewrite wait_unfold. unfold drive_packet. rewrite Hl. cbn [negb]. rewrite drive_loop_unfold.
  assert (Ep : process_received w = (w, ODone None)) by (unfold process_received; fold (rd w); rewrite Hna; reflexivity).
  rewrite Ep. fold (rd w). rewrite Hna.
  destruct (Hd_service w (conj Hcw Hq)) as [Ht Hmq]. unfold service. rewrite Ht, Hmq, upd_sess_id, Hn. cbn [orb]. rewrite ?Hn.
  assert (Hdl : next_deadline (s_rt (w_sess w)) = Some t).
  { unfold next_deadline. rewrite Hpt. destruct (rt_next_ping (s_rt (w_sess w))) as [d|] eqn:E; [|reflexivity].
    specialize (Hnp d eq_refl). f_equal. lia. }
  rewrite Hdl, Hl. cbn [negb].
  unfold fill_packet_reader. cbn [fill_go]. fold (rd w). rewrite Hna, (fresh_rb (rd w) Hrd Hrp Hcap). unfold rd. rewrite set_reader_id, upd_sess_id.
  change (1 =? 0) with false. cbv iota. change (timer_fired false ?dd ?ww) with false. cbv iota.
  destruct (io_read_timeout 1 t w ltac:(discriminate) Hs Hi Hlt Hwt) as [w1 [Er [S1 [C1 [Q1 [N1 [L1 [W1 _]]]]]]]].
  rewrite Er.
  rewrite wait_unfold. unfold drive_packet. rewrite L1, Hl. cbn [negb]. rewrite drive_loop_unfold.
  assert (Ep1 : process_received w1 = (w1, ODone None)) by (unfold process_received; rewrite S1; fold (rd w); rewrite Hna; reflexivity).
  rewrite Ep1, S1. fold (rd w). rewrite Hna.
  unfold service, ping_timed_out. rewrite S1, Hpt, N1. rewrite N.leb_refl.
  eexists. split; [reflexivity|]. cbn [w_hd w_now w_live w_wire upd_live upd_sess]. split; [exact N1|]. split; [reflexivity|exact W1].
Qed.

(* ---------- non-vacuity: a fresh connection with a keep-alive of 30 s, a broker that stays silent ---------- *)
Definition ex_cfgk : config :=
  {| cf_rx := 64; cf_tx := 128; cf_client_id := [99]; cf_keepalive_s := 30; cf_expiry := 0;
     cf_downgrade := false; cf_will := None; cf_auth := None |}.
Definition ex_ka : world :=
  run_case {| c_cfg := ex_cfgk; c_prog := [ASetBroker 2; AConnect []; ASetBroker 0]; c_script := [] |}.
Definition ex_ka2 : world := fst (op_poll FUEL ex_ka).

Example ping_example :
  w_now ex_ka = 0 /\ rt_next_ping (s_rt (w_sess ex_ka)) = Some 25000 /\
  snd (op_poll FUEL ex_ka) = ODone None /\ w_now ex_ka2 = 25000 /\ w_wire ex_ka2 = w_wire ex_ka ++ [192; 0] /\
  rt_ping_timeout (s_rt (w_sess ex_ka2)) = Some 30000 /\ rt_next_ping (s_rt (w_sess ex_ka2)) = Some 50000 /\
  snd (op_poll FUEL ex_ka2) = OFail EDisconnected /\ w_now (fst (op_poll FUEL ex_ka2)) = 30000 /\
  w_live (fst (op_poll FUEL ex_ka2)) = false.
Proof. vm_compute. repeat split. Qed.

Lemma nil_map : forall {A B} (f : A -> B) l, map f l = [] -> l = [].
Proof. intros A B f l H. destruct l; [reflexivity|discriminate H]. Qed.

Example ping_hyps_met :
  Hc ex_ka /\ rdata (rd ex_ka) = [] /\ rplen (rd ex_ka) = None /\ 1 <= rcap (rd ex_ka) /\
  next_step (s_ob (w_sess ex_ka)) = None /\ rt_next_ping (s_rt (w_sess ex_ka)) = Some 25000 /\ w_now ex_ka < 25000 /\
  rt_ping_timeout (s_rt (w_sess ex_ka)) = None /\ w_inq ex_ka = [] /\ w_waits ex_ka < MAX_WAITS.
Proof.
  assert (I0 : WInv (w_sess ex_ka)) by (unfold ex_ka; apply (proj1 (run_case_good _))).
  assert (Sc : w_script ex_ka = []) by (vm_compute; reflexivity).
  assert (Lv : w_live ex_ka = true) by (vm_compute; reflexivity).
  assert (Mp : rt_mps (s_rt (w_sess ex_ka)) = None) by (vm_compute; reflexivity).
  assert (Pt : rt_ping_timeout (s_rt (w_sess ex_ka)) = None) by (vm_compute; reflexivity).
  assert (Np : rt_next_ping (s_rt (w_sess ex_ka)) = Some 25000) by (vm_compute; reflexivity).
  assert (Bl : lenN (ob_buf (s_ob (w_sess ex_ka))) <= BIG) by (vm_compute; intros X; discriminate X).
  assert (Ec : map ce_st (ob_ctl (s_ob (w_sess ex_ka))) = []) by (vm_compute; reflexivity).
  assert (El : map le_st (ob_rel (s_ob (w_sess ex_ka))) = []) by (vm_compute; reflexivity).
  assert (Er : map re_st (ob_ret (s_ob (w_sess ex_ka))) = []) by (vm_compute; reflexivity).
  assert (Rd : rdata (rd ex_ka) = []) by (vm_compute; reflexivity).
  assert (Rp : rplen (rd ex_ka) = None) by (vm_compute; reflexivity).
  assert (Rc : 1 <= rcap (rd ex_ka)) by (vm_compute; intros X; discriminate X).
  assert (Ns : next_step (s_ob (w_sess ex_ka)) = None) by (vm_compute; reflexivity).
  assert (Nw : w_now ex_ka < 25000) by (vm_compute; reflexivity).
  assert (Iq : w_inq ex_ka = []) by (vm_compute; reflexivity).
  assert (Wt : w_waits ex_ka < MAX_WAITS) by (vm_compute; reflexivity).
  split; [|repeat (split; [assumption|]); assumption].
  unfold Hc. split; [exact Sc|]. split; [exact Lv|]. split; [exact I0|]. split; [exact Mp|].
  split; [intros d E; pose proof (eq_trans (eq_sym Pt) E) as X; discriminate X|]. split; [exact Bl|].
  unfold Fr. rewrite (nil_map _ _ Ec), (nil_map _ _ El), (nil_map _ _ Er). repeat split; constructor.
Qed.

(* ---------- the healthy drive without any assumption on the keep-alive timer: a PINGREQ that falls due joins the queue ---------- *)
Lemma Hc_pinged : forall w s1, Hc w -> maybe_queue_pingreq (w_sess w) (w_now w) = (s1, None) -> Hd (upd_sess w s1).
Proof.
  intros w s1 Hcw Hq. pose proof Hcw as [Hs [Hl [I [Hm [Hpt [HB HF]]]]]].
  destruct (maybe_queue_frame _ _ _ _ Hq) as [Er Ert].
  split; [|split; [cbn [w_sess w_now upd_sess]; exact (pinged_pq _ _ _ Hq)|apply calm_nil; cbn [w_script upd_sess]; exact Hs]].
  unfold Hc. cbn [w_script w_live w_sess w_now upd_sess]. rewrite Ert.
  split; [exact Hs|]. split; [exact Hl|]. split.
  { replace s1 with (fst (maybe_queue_pingreq (w_sess w) (w_now w))) by now rewrite Hq. eapply WInv_step; [apply SS_ping|exact I]. }
  split; [exact Hm|]. split; [exact Hpt|].
  unfold maybe_queue_pingreq in Hq. destruct (should_queue_pingreq (w_sess w) (w_now w)); [|inversion Hq; subst; split; assumption].
  destruct (check_control_size _ _); [discriminate|]. unfold queue_control in Hq. destruct (_ <=? _); [discriminate|]. inversion Hq; subst s1.
  cbn [s_ob set_ob ob_buf]. split; [exact HB|]. destruct HF as [Fc [Fl Ft]]. unfold Fr. cbn [ob_ctl ob_rel ob_ret].
  split; [|split; assumption]. apply Forall_app. split; [exact Fc|]. constructor; [reflexivity|constructor].
Qed.

Theorem drive_sends_all_any : forall fuel w s1,
  Hc w -> NA w -> maybe_queue_pingreq (w_sess w) (w_now w) = (s1, None) -> M s1 < N.of_nat (S fuel) ->
  exists w', op_drive (S fuel) w = (w', ODone None) /\ next_step (s_ob (w_sess w')) = None /\ Hd w' /\ NA w' /\
    w_now w' = w_now w /\ w_wire w' = w_wire w ++ owed (s_ob s1).
Proof.
  intros fuel w s1 Hcw Hna Hq Hm. pose proof Hcw as [_ [Hl [_ [_ [Hpt _]]]]].
  assert (Ht : ping_timed_out (w_sess w) (w_now w) = false).
  { unfold ping_timed_out. destruct (rt_ping_timeout (s_rt (w_sess w))) as [d|] eqn:E; [|reflexivity]. specialize (Hpt d eq_refl). apply N.leb_gt. exact Hpt. }
  unfold op_drive, drive_packet. rewrite Hl. cbn [negb]. rewrite (drive_loop_pinged _ false w s1 Hna Ht Hq).
  pose proof (Hc_pinged w s1 Hcw Hq) as H3.
  assert (Na3 : NA (upd_sess w s1)) by (unfold NA; cbn [w_sess upd_sess]; rewrite (proj1 (maybe_queue_frame _ _ _ _ Hq)); exact Hna).
  destruct (drive_loop_drains (S fuel) false _ H3 Na3 Hm) as [w' [pr [E [Hpr [Hn [Hd' [Na' Nw']]]]]]].
  pose proof (drive_loop_wire _ _ _ _ _ H3 Na3 E) as Hw. rewrite E.
  exists w'. split; [rewrite Hpr; destruct (false || _); reflexivity|]. split; [exact Hn|]. split; [exact Hd'|]. split; [exact Na'|].
  split; [exact Nw'|exact Hw].
Qed.

(* ---------- a PINGRESP received in time never leads to a disconnect ---------- *)
From Minimq Require Import VarintProofs ReaderInv Cancel FillWhole PollReads.

(* ---------------------------------------------------------------- reading leaves the broker's side of the world alone *)
Definition bt (w : world) : N * bytes * N := (w_broker w, w_txbuf w, w_last_arrival w).

Lemma deliver_bt : forall win amt w, bt (fst (deliver win amt w)) = bt w.
Proof. intros. unfold deliver. destruct (avail_split _ _). reflexivity. Qed.

Lemma io_read_bt : forall win dl w, bt (fst (io_read win dl w)) = bt w.
Proof.
  intros. unfold io_read. destruct (N.eqb win 0); [reflexivity|].
  destruct (next_ev w) as [[k amt] rest].
  destruct (N.eqb k 1); [reflexivity|]. destruct (N.eqb k 2); [reflexivity|]. destruct (N.eqb k 3); [reflexivity|].
  destruct (avail_split (w_now w) (w_inq w)) as [av l0]. destruct av as [|a0 av'].
  - match goal with |- context [if ?c then None else ?t] => destruct (if c then None else t) as [t0|] end; [|reflexivity].
    cbv zeta. match goal with |- context [avail_split t0 ?q] => destruct (avail_split t0 q) as [av1 l1] end.
    destruct av1; [reflexivity|]. rewrite deliver_bt. reflexivity.
  - rewrite deliver_bt. reflexivity.
Qed.

Lemma fill_go_bt : forall fuel y dl w, bt (fst (fill_go fuel y dl w)) = bt w.
Proof.
  induction fuel as [|f IH]; intros y dl w; cbn [fill_go]; [reflexivity|].
  destruct (packet_available _); [reflexivity|].
  destruct (receive_buffer (s_reader (w_sess w))) as [r' ow]. destruct ow as [win|]; [|reflexivity].
  set (w0 := upd_sess w (set_reader (w_sess w) r')).
  destruct (N.eqb win 0); [reflexivity|].
  destruct (timer_fired y dl w0); [reflexivity|].
  destruct (io_read win dl w0) as [w1 r] eqn:Ei.
  pose proof (io_read_bt win dl w0) as Hg. rewrite Ei in Hg. cbn [fst] in Hg.
  destruct r as [d| | |]; cbn [fst]; try exact Hg.
  destruct d as [|x t]; [exact Hg|]. rewrite IH. exact Hg.
Qed.
Lemma fill_bt : forall fuel dl w, bt (fst (fill_packet_reader fuel dl w)) = bt w.
Proof. intros. apply fill_go_bt. Qed.

(* PollReads.wait_reads_arrived_packet with the timers in any state that neither fires nor queues now *)
Lemma wait_reads_arrived_packet_gen : forall f w h rl body t,
  varint_write (lenN body) = Some rl ->
  let pkt := h :: rl ++ body in
  lenN pkt <= rcap (rd w) -> (N.to_nat (lenN pkt) + 2 <= f)%nat -> lenN pkt <= BIG ->
  w_live w = true -> rdata (rd w) = [] -> rplen (rd w) = None ->
  next_step (s_ob (w_sess w)) = None ->
  ping_timed_out (w_sess w) (w_now w) = false -> PQ w ->
  w_script w = [] -> w_inq w = [(t, pkt)] -> t <= w_now w ->
  exists w3, wait_for_progress (S f) w = wait_for_progress f w3 /\
    rdata (rd w3) = pkt /\ rplen (rd w3) = Some (lenN pkt) /\ rcap (rd w3) = rcap (rd w) /\
    w_sess w3 = set_reader (w_sess w) (rd w3) /\ w_inq w3 = [] /\ w_script w3 = [] /\ w_now w3 = w_now w /\ w_live w3 = true /\
    w_wire w3 = w_wire w /\ bt w3 = bt w.
Proof.
  intros f w h rl body t Hrl pkt Hcap Hf HB Hl Hd Hp Hn Hto Hq Hs Hi Ht.
  assert (Hna : packet_available (rd w) = false) by (unfold packet_available; now rewrite Hp).
  cbn [wait_for_progress]. unfold drive_packet. rewrite Hl. cbn [negb drive_loop].
  unfold process_received. fold (rd w). rewrite Hna. cbn [negb].
  unfold service. rewrite Hto, (pq_no_ping w Hq).
  rewrite upd_sess_same, Hn. cbn [orb]. rewrite ?Hn. cbn [negb]. rewrite Hl. cbn [negb].
  assert (Hat : at_k h rl body (rd w) 0).
  { unfold at_k. fold pkt. rewrite Hd, takeN_0. split; [reflexivity|]. split; [lia|]. split; [exact Hcap|].
    split; [|intros pl E; rewrite Hp in E; discriminate].
    split; [unfold ROK; rewrite Hp; unfold HdrOk; rewrite Hd; cbn; constructor|intros _; unfold read_bytes; rewrite Hd; cbn; lia]. }
  destruct (fill_whole_dl h rl body Hrl (next_deadline (s_rt (w_sess w))) (N.to_nat (lenN pkt)) (S f) w 0 t Hat) as [w3 [E3 [D3 [P3 [K3 [S3 [Q3 [C3 N3]]]]]]]].
  { fold pkt. lia. } { lia. } { exact Hs. } { fold pkt. exact HB. }
  { intros _. fold pkt. rewrite dropN_0. split; [exact Hi|exact Ht]. }
  { fold pkt. intros E. assert (1 <= lenN pkt) by (unfold pkt; rewrite lenN_cons; lia). lia. }
  rewrite E3. exists w3. split; [reflexivity|]. fold pkt in D3, P3.
  destruct (Wire.fill_same (S f) (next_deadline (s_rt (w_sess w))) w) as [[Hwr [Hlv _]] _]. rewrite E3 in Hlv, Hwr. cbn [fst] in Hlv, Hwr.
  split; [exact D3|]. split; [exact P3|]. split; [exact K3|]. split; [exact S3|]. split; [exact Q3|]. split; [exact C3|]. split; [exact N3|].
  split; [now rewrite Hlv|]. split; [exact Hwr|].
  pose proof (fill_bt (S f) (next_deadline (s_rt (w_sess w))) w) as Hb. rewrite E3 in Hb. exact Hb.
Qed.

Theorem poll_pingresp_clears : forall w t t0,
  2 <= rcap (rd w) -> w_live w = true -> rdata (rd w) = [] -> rplen (rd w) = None ->
  next_step (s_ob (w_sess w)) = None ->
  rt_ping_timeout (s_rt (w_sess w)) = Some t0 -> w_now w < t0 ->
  (forall d, rt_next_ping (s_rt (w_sess w)) = Some d -> w_now w < d) ->
  w_script w = [] -> w_inq w = [(t, [208; 0])] -> t <= w_now w ->
  exists w', op_poll FUEL w = (w', ODone None) /\ w_live w' = true /\ w_now w' = w_now w /\ w_wire w' = w_wire w /\
    rt_ping_timeout (s_rt (w_sess w')) = None /\ rt_next_ping (s_rt (w_sess w')) = rt_next_ping (s_rt (w_sess w)) /\
    s_ob (w_sess w') = s_ob (w_sess w).
Proof.
  intros w t t0 Hcap Hl Hd Hpl Hn Hpt Hlt Hnp Hs Hi Ht.
  destruct FUEL_big as [f Hf]. assert (Hfu : N.of_nat FUEL = 30000) by reflexivity.
  unfold op_poll. rewrite Hf.
  assert (Hto : ping_timed_out (w_sess w) (w_now w) = false).
  { unfold ping_timed_out. rewrite Hpt. apply N.leb_gt. exact Hlt. }
  assert (Hq : PQ w) by (split; [unfold should_queue_pingreq; rewrite Hpt; reflexivity|apply calm_nil; exact Hs]).
  destruct (wait_reads_arrived_packet_gen (S (S (S (S f)))) w 208 [0] [] t eq_refl) as [w3 [E3 [D3 [P3 [K3 [S3 [Q3 [C3 [N3 [L3 [W3 _]]]]]]]]]]];
    try assumption; try (cbn; unfold BIG; lia).
  change (208 :: [0] ++ []) with [208; 0] in *. change (lenN [208; 0]) with 2 in *.
  rewrite E3. clear E3.
  rewrite wait_unfold. unfold drive_packet. rewrite L3. cbn [negb]. rewrite drive_loop_unfold.
  assert (Ha3 : packet_available (rd w3) = true) by (unfold packet_available; rewrite P3; unfold read_bytes; rewrite D3; reflexivity).
  unfold process_received at 1. fold (rd w3). rewrite Ha3. cbn [negb]. unfold take_packet. rewrite P3, D3.
  change (from_buffer (takeN 2 [208; 0])) with (Some RPingResp).
  assert (Es3 : set_reader (w_sess w3) (reader_reset (rd w3)) = set_reader (w_sess w) (reader_reset (rd w))).
  { rewrite S3. unfold reader_reset. rewrite K3. destruct (w_sess w); reflexivity. }
  rewrite Es3. cbn [handle_packet].
  set (s4 := set_rt (set_reader (w_sess w) (reader_reset (rd w)))
                    (rt_with_timers (s_rt (set_reader (w_sess w) (reader_reset (rd w))))
                                    (rt_next_ping (s_rt (set_reader (w_sess w) (reader_reset (rd w))))) None)).
  match goal with |- context [drive_loop ?fu true ?x] => set (w4 := x) end.
  assert (S4 : w_sess w4 = s4) by reflexivity.
  assert (L4 : w_live w4 = true) by (unfold w4; cbn [w_live upd_drained upd_envok upd_sess]; exact L3).
  assert (N4 : w_now w4 = w_now w) by (unfold w4; cbn [w_now upd_drained upd_envok upd_sess]; exact N3).
  assert (W4 : w_wire w4 = w_wire w) by (unfold w4; cbn [w_wire upd_drained upd_envok upd_sess]; exact W3).
  rewrite drive_loop_unfold. unfold process_received. rewrite S4.
  assert (Na4 : packet_available (s_reader s4) = false) by reflexivity. rewrite Na4. cbn [negb].
  unfold service, ping_timed_out. rewrite S4.
  assert (Pt4 : rt_ping_timeout (s_rt s4) = None) by reflexivity.
  assert (Np4 : rt_next_ping (s_rt s4) = rt_next_ping (s_rt (w_sess w))) by reflexivity.
  assert (Ob4 : s_ob s4 = s_ob (w_sess w)) by reflexivity.
  rewrite Pt4. unfold maybe_queue_pingreq, should_queue_pingreq. rewrite Pt4, Np4, N4.
  assert (Hdue : match rt_next_ping (s_rt (w_sess w)) with Some dd => dd <=? w_now w | None => false end = false).
  { destruct (rt_next_ping (s_rt (w_sess w))) as [dd|] eqn:En; [|reflexivity]. specialize (Hnp dd eq_refl). apply N.leb_gt. exact Hnp. }
  rewrite Hdue. cbn [andb]. rewrite <- S4, upd_sess_same, S4, Ob4, Hn. cbn [orb]. rewrite ?S4, ?Ob4, ?Hn.
  eexists. split; [reflexivity|]. rewrite S4. repeat split; assumption.
Qed.

(* computed: the same connection with a broker that answers: PINGREQ at 25 s, PINGRESP, timer cleared, connection alive *)
Definition ex_kb : world :=
  run_case {| c_cfg := ex_cfgk; c_prog := [ASetBroker 2; AConnect []; ASetBroker 1]; c_script := [] |}.
Definition ex_kb2 : world := fst (op_poll FUEL ex_kb).
Example pingresp_example :
  snd (op_poll FUEL ex_kb) = ODone None /\ w_now ex_kb2 = 25000 /\ w_inq ex_kb2 = [(25000, [208; 0])] /\
  rt_ping_timeout (s_rt (w_sess ex_kb2)) = Some 30000 /\
  snd (op_poll FUEL ex_kb2) = ODone None /\ rt_ping_timeout (s_rt (w_sess (fst (op_poll FUEL ex_kb2)))) = None /\
  w_live (fst (op_poll FUEL ex_kb2)) = true /\ w_now (fst (op_poll FUEL ex_kb2)) = 25000.
Proof. vm_compute. repeat split. Qed.
