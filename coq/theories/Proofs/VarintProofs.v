(* VarintProofs.v — MQTT variable byte integers: write/read round trip, canonicity, the reader's lax probe. *)
From Coq Require Import Arith ZArith Lia ZifyBool ZifyN ZifyNat.
From Minimq Require Import Util Bytes Varint.

Ltac leq := repeat (first [ reflexivity | apply (f_equal2 (@cons N)); [lia|] ]).

Section VA.
Local Ltac Zify.zify_post_hook ::= Z.div_mod_to_equations.

Lemma pow7 : 2 ^ 7 = 128. Proof. reflexivity. Qed.
Lemma pow14 : 2 ^ 14 = 16384. Proof. reflexivity. Qed.
Lemma pow21 : 2 ^ 21 = 2097152. Proof. reflexivity. Qed.
Lemma pow0 : 2 ^ 0 = 1. Proof. reflexivity. Qed.

(* what write produces, by length class *)
Lemma varint_write_cases : forall v, v <= VARINT_MAX ->
  varint_write v = Some
    (if v <? 128 then [v]
     else if v <? 16384 then [v mod 128 + 128; v / 128]
     else if v <? 2097152 then [v mod 128 + 128; (v / 128) mod 128 + 128; v / 16384]
     else [v mod 128 + 128; (v / 128) mod 128 + 128; (v / 16384) mod 128 + 128; v / 2097152]).
Proof.
  intros v H. unfold varint_write, VARINT_MAX in *. destruct (268435455 <? v) eqn:E; [lia|]. f_equal.
  cbn [varint_write_fuel].
  destruct (N.eqb_spec (v / 128) 0).
  { destruct (N.ltb_spec v 128); [|lia]. leq. }
  destruct (N.ltb_spec v 128); [lia|].
  destruct (N.eqb_spec (v / 128 / 128) 0).
  { destruct (N.ltb_spec v 16384); [|lia]. leq. }
  destruct (N.ltb_spec v 16384); [lia|].
  destruct (N.eqb_spec (v / 128 / 128 / 128) 0).
  { destruct (N.ltb_spec v 2097152); [|lia]. leq. }
  destruct (N.ltb_spec v 2097152); [lia|].
  destruct (N.eqb_spec (v / 128 / 128 / 128 / 128) 0); [|lia].
  leq.
Qed.

Lemma varint_write_len_eq : forall v bs, varint_write v = Some bs -> lenN bs = varint_len v.
Proof.
  intros v bs H. assert (Hv : v <= VARINT_MAX).
  { unfold varint_write in H. destruct (VARINT_MAX <? v) eqn:E; [discriminate|lia]. }
  rewrite (varint_write_cases v Hv) in H. inversion H; subst. unfold varint_len.
  destruct (N.ltb_spec v 128); [destruct (N.leb_spec v 127); [reflexivity|lia]|].
  destruct (N.leb_spec v 127); [lia|].
  destruct (N.ltb_spec v 16384); [destruct (N.leb_spec v 16383); [reflexivity|lia]|].
  destruct (N.leb_spec v 16383); [lia|].
  destruct (N.ltb_spec v 2097152); [destruct (N.leb_spec v 2097151); [reflexivity|lia]|].
  destruct (N.leb_spec v 2097151); [lia|reflexivity].
Qed.

(* round trip: reading back what was written yields the value and consumes exactly those bytes *)
Theorem varint_roundtrip : forall v bs rest, varint_write v = Some bs -> varint_read (bs ++ rest) = VOk v rest.
Proof.
  intros v bs rest H. assert (Hv : v <= VARINT_MAX).
  { unfold varint_write in H. destruct (VARINT_MAX <? v) eqn:E; [discriminate|lia]. }
  rewrite (varint_write_cases v Hv) in H. inversion H; subst; clear H. unfold VARINT_MAX in Hv.
  unfold varint_read.
  destruct (N.ltb_spec v 128).
  { cbn [app varint_read_go]. rewrite pow0.
    destruct (N.ltb_spec v 128); [|lia]. change (0 =? 0) with true. cbn [negb andb]. f_equal. lia. }
  destruct (N.ltb_spec v 16384).
  { cbn [app varint_read_go]. rewrite pow0, pow7.
    destruct (N.ltb_spec (v mod 128 + 128) 128); [lia|].
    destruct (N.ltb_spec (v / 128) 128); [|lia]. change (7 =? 0) with false. cbn [negb andb].
    destruct (N.eqb_spec ((v / 128) mod 128) 0); [lia|]. f_equal. lia. }
  destruct (N.ltb_spec v 2097152).
  { cbn [app varint_read_go]. rewrite pow0, pow7, pow14.
    destruct (N.ltb_spec (v mod 128 + 128) 128); [lia|].
    destruct (N.ltb_spec ((v / 128) mod 128 + 128) 128); [lia|].
    destruct (N.ltb_spec (v / 16384) 128); [|lia]. change (14 =? 0) with false. cbn [negb andb].
    destruct (N.eqb_spec ((v / 16384) mod 128) 0); [lia|]. f_equal. lia. }
  cbn [app varint_read_go]. rewrite pow0, pow7, pow14, pow21.
  destruct (N.ltb_spec (v mod 128 + 128) 128); [lia|].
  destruct (N.ltb_spec ((v / 128) mod 128 + 128) 128); [lia|].
  destruct (N.ltb_spec ((v / 16384) mod 128 + 128) 128); [lia|].
  destruct (N.ltb_spec (v / 2097152) 128); [|lia]. change (21 =? 0) with false. cbn [negb andb].
  destruct (N.eqb_spec ((v / 2097152) mod 128) 0); [lia|]. f_equal. lia.
Qed.
End VA.

Section VB.
Local Ltac Zify.zify_post_hook ::= Z.div_mod_to_equations.

(* canonicity: the reader accepts exactly the encodings the writer produces (so nothing non-canonical, nothing
   longer than four bytes, nothing above 268435455) *)
Theorem varint_canonical : forall l v rest, Forall (fun b => b < 256) l -> varint_read l = VOk v rest ->
  exists bs, varint_write v = Some bs /\ l = bs ++ rest.
Proof.
  intros l v rest Hb H. unfold varint_read in H.
  destruct l as [|b0 l]; [discriminate|]. inversion Hb as [|? ? B0 Hb1]; subst. cbn [varint_read_go] in H. rewrite pow0 in H.
  destruct (N.ltb_spec b0 128) as [L0|L0].
  { change (0 =? 0) with true in H. cbn [negb andb] in H. inversion H; subst; clear H.
    exists [b0]. split; [|reflexivity].
    rewrite varint_write_cases by (unfold VARINT_MAX; lia). destruct (N.ltb_spec (0 + b0 mod 128 * 1) 128); [|lia]. f_equal. leq. }
  destruct l as [|b1 l]; [discriminate|]. inversion Hb1 as [|? ? B1 Hb2]; subst. cbn [varint_read_go] in H. rewrite pow7 in H.
  destruct (N.ltb_spec b1 128) as [L1|L1].
  { change (7 =? 0) with false in H. cbn [negb andb] in H.
    destruct (N.eqb_spec (b1 mod 128) 0); [discriminate|]. inversion H; subst; clear H.
    exists [b0; b1]. split; [|reflexivity].
    rewrite varint_write_cases by (unfold VARINT_MAX; lia).
    destruct (N.ltb_spec (0 + b0 mod 128 * 1 + b1 mod 128 * 128) 128); [lia|].
    destruct (N.ltb_spec (0 + b0 mod 128 * 1 + b1 mod 128 * 128) 16384); [|lia]. f_equal. leq. }
  destruct l as [|b2 l]; [discriminate|]. inversion Hb2 as [|? ? B2 Hb3]; subst. cbn [varint_read_go] in H. rewrite pow14 in H.
  destruct (N.ltb_spec b2 128) as [L2|L2].
  { change (14 =? 0) with false in H. cbn [negb andb] in H.
    destruct (N.eqb_spec (b2 mod 128) 0); [discriminate|]. inversion H; subst; clear H.
    exists [b0; b1; b2]. split; [|reflexivity].
    rewrite varint_write_cases by (unfold VARINT_MAX; lia).
    set (v := 0 + b0 mod 128 * 1 + b1 mod 128 * 128 + b2 mod 128 * 16384).
    destruct (N.ltb_spec v 128); [lia|]. destruct (N.ltb_spec v 16384); [lia|].
    destruct (N.ltb_spec v 2097152); [|lia]. f_equal. unfold v. leq. }
  destruct l as [|b3 l]; [discriminate|]. inversion Hb3 as [|? ? B3 Hb4]; subst. cbn [varint_read_go] in H. rewrite pow21 in H.
  destruct (N.ltb_spec b3 128) as [L3|L3]; [|discriminate].
  change (21 =? 0) with false in H. cbn [negb andb] in H.
  destruct (N.eqb_spec (b3 mod 128) 0); [discriminate|]. inversion H; subst; clear H.
  exists [b0; b1; b2; b3]. split; [|reflexivity].
  rewrite varint_write_cases by (unfold VARINT_MAX; lia).
  set (v := 0 + b0 mod 128 * 1 + b1 mod 128 * 128 + b2 mod 128 * 16384 + b3 mod 128 * 2097152).
  destruct (N.ltb_spec v 128); [lia|]. destruct (N.ltb_spec v 16384); [lia|].
  destruct (N.ltb_spec v 2097152); [lia|]. f_equal. unfold v. leq.
Qed.

(* the packet reader's own length probe (laxer, shift-and-add over up to four bytes) computes, on every input the
   canonical reader accepts, the same total packet length *)
Theorem probe_agrees : forall l v rest, varint_read l = VOk v rest ->
  probe_len (takeN 4 l) = Some (1 + (lenN l - lenN rest) + v).
Proof.
  intros l v rest H. unfold varint_read in H. unfold probe_len.
  destruct l as [|b0 l]; [discriminate|]. cbn [varint_read_go] in H. rewrite pow0 in H.
  cbn [takeN]. change (4 =? 0) with false. cbv iota. change (N.pred 4) with 3. cbn [probe_go].
  change (0 * 7) with 0. rewrite pow0.
  destruct (N.ltb_spec b0 128) as [L0|L0].
  { change (0 =? 0) with true in H. cbn [negb andb] in H. inversion H; subst. f_equal. rewrite lenN_cons. lia. }
  destruct l as [|b1 l]; [discriminate|]. cbn [varint_read_go] in H. rewrite pow7 in H.
  cbn [takeN]. change (3 =? 0) with false. cbv iota. change (N.pred 3) with 2. cbn [probe_go].
  change ((0 + 1) * 7) with 7. rewrite pow7.
  destruct (N.ltb_spec b1 128) as [L1|L1].
  { change (7 =? 0) with false in H. cbn [negb andb] in H.
    destruct (N.eqb_spec (b1 mod 128) 0); [discriminate|]. inversion H; subst. f_equal. rewrite !lenN_cons. lia. }
  destruct l as [|b2 l]; [discriminate|]. cbn [varint_read_go] in H. rewrite pow14 in H.
  cbn [takeN]. change (2 =? 0) with false. cbv iota. change (N.pred 2) with 1. cbn [probe_go].
  change ((0 + 1 + 1) * 7) with 14. rewrite pow14.
  destruct (N.ltb_spec b2 128) as [L2|L2].
  { change (14 =? 0) with false in H. cbn [negb andb] in H.
    destruct (N.eqb_spec (b2 mod 128) 0); [discriminate|]. inversion H; subst. f_equal. rewrite !lenN_cons. lia. }
  destruct l as [|b3 l]; [discriminate|]. cbn [varint_read_go] in H. rewrite pow21 in H.
  cbn [takeN]. change (1 =? 0) with false. cbv iota. change (N.pred 1) with 0. cbn [probe_go].
  change ((0 + 1 + 1 + 1) * 7) with 21. rewrite pow21.
  destruct (N.ltb_spec b3 128) as [L3|L3]; [|discriminate].
  change (21 =? 0) with false in H. cbn [negb andb] in H.
  destruct (N.eqb_spec (b3 mod 128) 0); [discriminate|]. inversion H; subst. f_equal. rewrite !lenN_cons. lia.
Qed.
End VB.
