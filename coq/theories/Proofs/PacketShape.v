(* PacketShape.v — the shape of handle_packet on an inbound QoS 2 PUBLISH (after fix 6ec1ca9: the identifier is
   recorded only once its PUBREC has been queued): one lemma for all the frame arguments. *)
From Coq Require Import List NArith.
From Minimq Require Import Bytes Varint Utf8 Props Ser De Reader Arena Core.
Import ListNotations.
Open Scope N_scope.

Lemma handle_q2_shape : forall s t id r d ps pl,
  exists a dl, let q := queue_ctl_checked s a dl in
    handle_packet s (RPublish t (Some id) Q2 r d ps pl) = (fst q, snd q) \/
    (handle_packet s (RPublish t (Some id) Q2 r d ps pl) = (set_srv (fst q) (s_srv s ++ [id]), snd q) /\
     mem_id id (s_srv s) = false /\ glen (s_srv s) < MAX_INBOUND_QOS2 /\ a = CPubRec id 0 /\ exists b, snd q = HOk b).
Proof.
  intros s t id r d ps pl. cbn [handle_packet].
  match goal with |- context [queue_ctl_checked s ?a ?dl] => exists a, dl; destruct (queue_ctl_checked s a dl) as [s1 hr] eqn:E end.
  cbn [fst snd]. destruct hr as [b|e]; [|left; reflexivity].
  destruct (mem_id id (s_srv s)) eqn:Em; cbn [orb]; [left; reflexivity|].
  destruct (N.leb_spec MAX_INBOUND_QOS2 (glen (s_srv s))) as [L|L]; [left; reflexivity|].
  right. repeat split; try reflexivity; try assumption. now exists b.
Qed.

(* In a goal obtained by unfolding handle_packet on a QoS 2 PUBLISH: split into the three outcomes (acknowledgement
   queued and identifier known or table full; queued and identifier recorded; refused), each phrased over
   `fst (queue_ctl_checked s a dl)` with the projections through set_srv reduced. *)
Ltac q2_split :=
  match goal with |- context [queue_ctl_checked ?s ?a ?dl] =>
    let s1 := fresh "s1" in let hr := fresh "hr" in let E := fresh "Eq2" in
    destruct (queue_ctl_checked s a dl) as [s1 hr] eqn:E; cbn [fst snd];
    (replace s1 with (fst (queue_ctl_checked s a dl)) by (rewrite E; reflexivity)); clear E;
    destruct hr;
    [match goal with |- context [if ?b then _ else set_srv _ _] => destruct b end|];
    cbn [set_srv s_cfg s_client_id s_reader s_ob s_pid s_gen s_sp s_rt]
  end.
