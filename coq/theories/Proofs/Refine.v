(* Refine.v — the machine refines the session LTS: whatever an asynchronous operation does to the session,
   for every script (every schedule of partial writes, faults, timeouts and cancellations), is a path of `sstep`. *)
From Coq Require Import Lia.
From Minimq Require Import Bytes Varint Utf8 Props Ser De Reader Arena Core Show Machine Lts.

Ltac wsimpl :=
  cbn [w_sess w_live w_conn w_now w_script w_log w_inq w_envok
       upd_sess upd_live upd_log upd_script upd_now upd_inq upd_txbuf upd_broker upd_handles upd_waits upd_envok
       w_hd sess_hd fst snd] in *.

Lemma broker_feed_sess : forall w a, w_sess (broker_feed w a) = w_sess w.
Proof.
  intros. unfold broker_feed. destruct (N.eqb (w_broker w) 0); [reflexivity|].
  destruct (broker_split _ _ _ _) as [r rest]. destruct r; reflexivity.
Qed.
Lemma broker_feed_live : forall w a, w_envok (broker_feed w a) = w_envok w.
Proof.
  intros. unfold broker_feed. destruct (N.eqb (w_broker w) 0); [reflexivity|].
  destruct (broker_split _ _ _ _) as [r rest]. destruct r; reflexivity.
Qed.

Lemma io_write_sess : forall bs w, w_sess (fst (io_write bs w)) = w_sess w /\ w_envok (fst (io_write bs w)) = w_envok w.
Proof.
  intros. unfold io_write. destruct (N.eqb (lenN bs) 0); [split; reflexivity|].
  destruct (next_ev w) as [[k amt] rest].
  destruct (N.eqb k 1); [split; reflexivity|]. destruct (N.eqb k 2); [split; reflexivity|].
  destruct (N.eqb k 3); [split; reflexivity|].
  destruct (N.eqb k 4); [unfold slow_write; cbn [fst]; now rewrite broker_feed_sess, broker_feed_live|].
  destruct (N.eqb k 5); [unfold slow_write; cbn [fst]; now rewrite broker_feed_sess, broker_feed_live|].
  cbn [fst]. now rewrite broker_feed_sess, broker_feed_live.
Qed.
Lemma io_flush_sess : forall w, w_sess (fst (io_flush w)) = w_sess w /\ w_envok (fst (io_flush w)) = w_envok w.
Proof.
  intros. unfold io_flush. destruct (next_ev w) as [[k amt] rest].
  destruct (N.eqb k 1); [split; reflexivity|]. destruct (N.eqb k 3); split; reflexivity.
Qed.
Lemma deliver_sess : forall win amt w, w_sess (fst (deliver win amt w)) = w_sess w /\ w_envok (fst (deliver win amt w)) = w_envok w.
Proof. intros. unfold deliver. destruct (avail_split _ _) as [av later]. split; reflexivity. Qed.
Lemma io_read_sess : forall win d w, w_sess (fst (io_read win d w)) = w_sess w /\ w_envok (fst (io_read win d w)) = w_envok w.
Proof.
  intros. unfold io_read. destruct (N.eqb win 0); [split; reflexivity|].
  destruct (next_ev w) as [[k amt] rest].
  destruct (N.eqb k 1); [split; reflexivity|]. destruct (N.eqb k 2); [split; reflexivity|].
  destruct (N.eqb k 3); [split; reflexivity|].
  destruct (avail_split (w_now w) (w_inq w)) as [av later].
  destruct av as [|a av'].
  - match goal with
    | |- context [match ?T with Some t => _ | None => _ end] =>
        match T with
        | (if _ then None else _) => destruct T as [t|]
        end
    end; [|split; reflexivity].
    match goal with |- context [avail_split t ?q] => destruct (avail_split t q) as [av1 l1] end.
    destruct av1; [split; reflexivity|].
    match goal with |- context [deliver ?a ?b ?c] => pose proof (deliver_sess a b c) as [H1 H2] end.
    rewrite H1, H2. split; reflexivity.
  - match goal with |- context [deliver ?a ?b ?c] => pose proof (deliver_sess a b c) as [H1 H2] end.
    rewrite H1, H2. split; reflexivity.
Qed.

(* world-level: the session of w' is reachable from the session of w by LTS steps, and the ghost flag of the
   world has been and-ed with the environment flags of exactly those steps *)
Definition wq (w w' : world) : Prop :=
  exists b, ereach (w_sess w) b (w_sess w') /\ w_envok w' = w_envok w && b.

Lemma wq_refl : forall w, wq w w.
Proof. intros. exists true. split; [apply ereach_refl | now rewrite andb_true_r]. Qed.
Lemma wq_trans : forall a b c, wq a b -> wq b c -> wq a c.
Proof.
  intros a b c [x [H1 E1]] [y [H2 E2]]. exists (x && y). split; [eapply ereach_trans; eassumption|].
  rewrite E2, E1. now rewrite andb_assoc.
Qed.
Lemma wq_same : forall w w', w_sess w' = w_sess w /\ w_envok w' = w_envok w -> wq w w'.
Proof.
  intros w w' [H1 H2]. exists true. split; [rewrite H1; apply ereach_refl | now rewrite H2, andb_true_r].
Qed.
(* a step taken on the session of a world, the rest of the world (in particular the ghost) unchanged *)
Lemma mark_partial_same : forall b a l, w_sess (mark_partial b a l) = w_sess a /\ w_envok (mark_partial b a l) = w_envok a.
Proof. intros. unfold mark_partial. destruct (_ && _); split; reflexivity. Qed.
Lemma wq_mark : forall w b a l, wq w a -> wq w (mark_partial b a l).
Proof. intros w b a l H. eapply wq_trans; [exact H | apply wq_same; apply mark_partial_same]. Qed.

Lemma wq_step : forall w w' l, sstep (w_sess w) l (w_sess w') -> label_ok l = true -> w_envok w' = w_envok w -> wq w w'.
Proof.
  intros w w' l H Hl He. exists (label_ok l). split; [now apply ereach_step | now rewrite He, Hl, andb_true_r].
Qed.

Ltac qstep := eapply wq_step; [wsimpl; econstructor; eassumption | reflexivity | reflexivity].
Ltac qstep0 := eapply wq_step; [wsimpl; constructor | reflexivity | reflexivity].

Lemma write_all_wq : forall fuel bs w, wq w (fst (write_all fuel bs w)).
Proof.
  induction fuel as [|f IH]; intros bs w; cbn [write_all]; [apply wq_refl|].
  destruct bs as [|b bs']; [apply wq_refl|].
  pose proof (io_write_sess (b :: bs') w) as Hs.
  destruct (io_write (b :: bs') w) as [w1 r]. cbn [fst] in Hs.
  destruct r as [n| |]; try (apply wq_same; exact Hs).
  destruct (N.eqb n 0); [apply wq_same; exact Hs|].
  eapply wq_trans; [apply wq_same; exact Hs | apply IH].
Qed.

Lemma hd_wq : forall w, wq w (w_hd w).
Proof. intros. qstep0. Qed.

Lemma flush_current_wq : forall p now w, wq w (fst (flush_current p now w)).
Proof.
  intros. unfold flush_current. destruct (negb (w_live w)); [apply wq_refl|].
  pose proof (io_flush_sess w) as Hs. destruct (io_flush w) as [w1 r]. cbn [fst] in Hs.
  destruct r.
  - destruct (complete_flush (w_sess w1) p now) as [s found] eqn:E.
    assert (wq w (upd_sess w1 s)).
    { eapply wq_trans; [apply wq_same; exact Hs|].
      replace s with (fst (complete_flush (w_sess w1) p now)) by now rewrite E. qstep0. }
    destruct found; exact H.
  - eapply wq_trans; [apply wq_same; exact Hs | apply hd_wq].
  - apply wq_same; exact Hs.
Qed.

Lemma perform_outbound_step_wq : forall st now w,
  next_step (s_ob (w_sess w)) = Some st -> wq w (fst (perform_outbound_step st now w)).
Proof.
  intros st now w Hn. unfold perform_outbound_step.
  destruct (prepare_step (w_sess w) st) as [p bs written len|p| |e] eqn:Ep; try apply wq_refl.
  - destruct (negb (w_live w)); [apply wq_refl|].
    pose proof (io_write_sess (dropN written bs) w) as Hs.
    destruct (io_write (dropN written bs) w) as [w1 r]. cbn [fst] in Hs.
    destruct r as [n| |].
    + destruct (N.eqb n 0); [apply wq_same; exact Hs|].
      destruct (set_written (w_sess w1) p (written + n) len) as [s found] eqn:E.
      assert (Hq : wq w (upd_sess w1 s)).
      { eapply wq_trans; [apply wq_same; exact Hs|]. destruct Hs as [Hs He].
        replace s with (fst (set_written (w_sess w1) p (written + n) len)) by now rewrite E.
        rewrite <- Hs in Hn, Ep. qstep. }
      destruct (negb found); [exact Hq|].
      destruct (written + n <? len); [exact Hq|].
      eapply wq_trans; [exact Hq | apply flush_current_wq].
    + eapply wq_trans; [apply wq_same; exact Hs | apply hd_wq].
    + apply wq_same; exact Hs.
  - apply flush_current_wq.
Qed.

Lemma ping_wq : forall w now, wq w (upd_sess w (fst (maybe_queue_pingreq (w_sess w) now))).
Proof. intros. qstep0. Qed.

Lemma flush_outbound_wq : forall fuel w, wq w (fst (flush_outbound fuel w)).
Proof.
  induction fuel as [|f IH]; intros w; cbn [flush_outbound]; [apply wq_refl|].
  pose proof (ping_wq w (w_now w)) as Hp.
  destruct (maybe_queue_pingreq (w_sess w) (w_now w)) as [s1 e]. cbn [fst] in Hp.
  destruct e; [exact Hp|].
  destruct (next_step (s_ob (w_sess (upd_sess w s1)))) as [st|] eqn:En; [|exact Hp].
  pose proof (perform_outbound_step_wq st (w_now w) (upd_sess w s1) En) as Hs.
  destruct (perform_outbound_step st (w_now w) (upd_sess w s1)) as [w2 r]. cbn [fst] in Hs.
  destruct r; try (eapply wq_trans; eassumption).
  eapply wq_trans; [exact Hp|]. eapply wq_trans; [exact Hs | apply IH].
Qed.

Lemma process_received_wq : forall w, wq w (fst (process_received w)).
Proof.
  intros. unfold process_received. destruct (negb (packet_available _)); [apply wq_refl|].
  destruct (take_packet (s_reader (w_sess w))) as [[[r' pl] [p|]]|]; try apply wq_refl.
  - assert (H1 : wq w (upd_sess w (set_reader (w_sess w) r'))) by qstep0.
    destruct (handle_packet (set_reader (w_sess w) r') p) as [s2 hr] eqn:E.
    set (ok := ack_type_ok (set_reader (w_sess w) r') p).
    assert (H2 : wq w (upd_envok (upd_sess w s2) (w_envok w && ok))).
    { eapply wq_trans; [exact H1|]. exists ok. split; [|reflexivity]. wsimpl.
      replace s2 with (fst (handle_packet (set_reader (w_sess w) r') p)) by now rewrite E.
      apply (ereach_step _ _ _ (SS_packet (set_reader (w_sess w) r') p)). }
    destruct hr as [[|]|e]; try exact H2.
    destruct e; try exact H2; (eapply wq_trans; [exact H2 | apply hd_wq]).
  - eapply wq_trans; [|apply hd_wq]. qstep0.
Qed.

Lemma service_wq : forall now w, wq w (fst (service now w)).
Proof.
  intros. unfold service. destruct (ping_timed_out _ _); [apply hd_wq|].
  pose proof (ping_wq w now) as Hp.
  destruct (maybe_queue_pingreq (w_sess w) now) as [s1 e]. cbn [fst] in Hp.
  destruct e; [exact Hp|].
  destruct (next_step (s_ob (w_sess (upd_sess w s1)))) as [st|] eqn:En; [|exact Hp].
  eapply wq_trans; [exact Hp | now apply perform_outbound_step_wq].
Qed.

Lemma drive_loop_wq : forall fuel adv w, wq w (fst (drive_loop fuel adv w)).
Proof.
  induction fuel as [|f IH]; intros adv w; cbn [drive_loop]; [apply wq_refl|].
  pose proof (process_received_wq w) as H1. destruct (process_received w) as [w1 r1]. cbn [fst] in H1.
  destruct r1 as [[p|]| | | |]; try exact H1.
  destruct (packet_available _); [eapply wq_trans; [exact H1 | apply IH]|].
  pose proof (service_wq (w_now w1) w1) as H2. destruct (service (w_now w1) w1) as [w2 r2]. cbn [fst] in H2.
  destruct r2 as [a| | | |]; try (eapply wq_trans; eassumption).
  destruct (next_step _); [|eapply wq_trans; eassumption].
  eapply wq_trans; [exact H1|]. eapply wq_trans; [exact H2 | apply IH].
Qed.

Lemma drive_packet_wq : forall fuel w, wq w (fst (drive_packet fuel w)).
Proof. intros. unfold drive_packet. destruct (negb _); [apply wq_refl | apply drive_loop_wq]. Qed.

Lemma fill_go_wq : forall fuel y d w, wq w (fst (fill_go fuel y d w)).
Proof.
  induction fuel as [|f IH]; intros y d w; cbn [fill_go]; [apply wq_refl|].
  destruct (packet_available _); [apply wq_refl|].
  destruct (receive_buffer (s_reader (w_sess w))) as [r' [win|]].
  - assert (H0 : wq w (upd_sess w (set_reader (w_sess w) r'))) by qstep0.
    destruct (N.eqb win 0); [exact H0|].
    destruct (timer_fired y d _); [eapply wq_trans; [exact H0 | apply wq_same; split; reflexivity]|].
    pose proof (io_read_sess win d (upd_sess w (set_reader (w_sess w) r'))) as Hs.
    destruct (io_read win d (upd_sess w (set_reader (w_sess w) r'))) as [w1 r]. cbn [fst] in Hs.
    assert (H1 : wq w w1) by (eapply wq_trans; [exact H0 | apply wq_same; exact Hs]).
    destruct r as [dd| | |]; try exact H1.
    destruct dd as [|b dd']; [exact H1|].
    eapply wq_trans; [exact H1|]. eapply wq_trans; [|apply IH]. qstep0.
  - qstep0.
Qed.
Lemma fill_wq : forall fuel d w, wq w (fst (fill_packet_reader fuel d w)).
Proof. intros. apply fill_go_wq. Qed.

Lemma wait_for_progress_wq : forall fuel w, wq w (fst (wait_for_progress fuel w)).
Proof.
  induction fuel as [|f IH]; intros w; cbn [wait_for_progress]; [apply wq_refl|].
  pose proof (drive_packet_wq (S f) w) as H1. destruct (drive_packet (S f) w) as [w1 r]. cbn [fst] in H1.
  destruct r as [pr| | | |]; try exact H1. destruct pr; try exact H1.
  destruct (negb (w_live w1)); [exact H1|].
  pose proof (fill_wq (S f) (next_deadline (s_rt (w_sess w1))) w1) as H2.
  destruct (fill_packet_reader (S f) _ w1) as [w2 fr]. cbn [fst] in H2.
  assert (H3 : wq w w2) by (eapply wq_trans; eassumption).
  destruct fr; try exact H3; try (eapply wq_trans; [exact H3 | apply IH]).
  eapply wq_trans; [exact H3 | apply hd_wq].
Qed.

Lemma op_poll_wq : forall fuel w, wq w (fst (op_poll fuel w)).
Proof.
  intros. unfold op_poll. pose proof (wait_for_progress_wq fuel w) as H.
  destruct (wait_for_progress fuel w) as [w1 r]. cbn [fst] in H.
  destruct r as [pr| | | |]; try exact H. destruct pr; exact H.
Qed.

Lemma op_recv_wq : forall fuel w, wq w (fst (op_recv fuel w)).
Proof.
  induction fuel as [|f IH]; intros w; cbn [op_recv]; [apply wq_refl|].
  pose proof (wait_for_progress_wq (S f) w) as H.
  destruct (wait_for_progress (S f) w) as [w1 r]. cbn [fst] in H.
  destruct r as [pr| | | |]; try exact H. destruct pr; try exact H.
  eapply wq_trans; [exact H | apply IH].
Qed.

Lemma op_drive_wq : forall fuel w, wq w (fst (op_drive fuel w)).
Proof.
  intros. unfold op_drive. pose proof (drive_packet_wq fuel w) as H.
  destruct (drive_packet fuel w) as [w1 r]. cbn [fst] in H.
  destruct r as [pr| | | |]; try exact H. destruct pr; exact H.
Qed.

Lemma bindu_wq : forall {A} (r : world * outcome unit) (k : world -> world * outcome A) w,
  wq w (fst r) -> (forall w1, wq w1 (fst (k w1))) -> wq w (fst (bindu r k)).
Proof.
  intros A [w1 o] k w H Hk. cbn [fst] in H. unfold bindu.
  destruct o; try exact H. eapply wq_trans; [exact H | apply Hk].
Qed.

Lemma finish_mid_wq : forall fuel w m, wq w (fst (finish_mid fuel w m)).
Proof.
  intros. destruct m as [e|o|bs]; cbn [finish_mid]; [apply wq_refl| |].
  - apply bindu_wq; [apply flush_outbound_wq | intros; apply wq_refl].
  - pose proof (write_all_wq fuel bs w) as H. destruct (write_all fuel bs w) as [w1 r]. cbn [fst] in H.
    destruct r as [u|e| | |]; try exact H; try (apply wq_mark; exact H).
    + pose proof (io_flush_sess w1) as Hs. destruct (io_flush w1) as [w2 fr]. cbn [fst] in Hs.
      assert (H2 : wq w w2) by (eapply wq_trans; [exact H | apply wq_same; exact Hs]).
      destruct fr; try exact H2.
      * eapply wq_trans; [exact H2|]. qstep0.
      * eapply wq_trans; [exact H2 | apply hd_wq].
    + destruct e; try (eapply wq_trans; [exact H | apply hd_wq]). apply wq_mark. exact H.
Qed.

Lemma op_publish_wq : forall fuel r w, wq w (fst (op_publish fuel r w)).
Proof.
  intros. unfold op_publish. destruct (negb _); [apply wq_refl|].
  apply bindu_wq; [apply flush_outbound_wq|]. intros w1.
  destruct (publish_middle (w_sess w1) (w_live w1) r) as [s2 m] eqn:E.
  eapply wq_trans; [|apply finish_mid_wq].
  replace s2 with (fst (publish_middle (w_sess w1) (w_live w1) r)) by now rewrite E. qstep0.
Qed.

Lemma op_subscribe_wq : forall fuel t ps w, wq w (fst (op_subscribe fuel t ps w)).
Proof.
  intros. unfold op_subscribe. destruct (negb _); [apply wq_refl|]. destruct t; [apply wq_refl|].
  destruct (negb _); [apply wq_refl|].
  apply bindu_wq; [apply flush_outbound_wq|]. intros w1.
  destruct (subscribe_middle (w_sess w1) (p :: t) ps) as [s2 m] eqn:E.
  eapply wq_trans; [|apply finish_mid_wq].
  replace s2 with (fst (subscribe_middle (w_sess w1) (p :: t) ps)) by now rewrite E. qstep0.
Qed.

Lemma op_unsubscribe_wq : forall fuel t ps w, wq w (fst (op_unsubscribe fuel t ps w)).
Proof.
  intros. unfold op_unsubscribe. destruct (negb _); [apply wq_refl|]. destruct t; [apply wq_refl|].
  destruct (negb _); [apply wq_refl|].
  apply bindu_wq; [apply flush_outbound_wq|]. intros w1.
  destruct (unsubscribe_middle (w_sess w1) (b :: t) ps) as [s2 m] eqn:E.
  eapply wq_trans; [|apply finish_mid_wq].
  replace s2 with (fst (unsubscribe_middle (w_sess w1) (b :: t) ps)) by now rewrite E. qstep0.
Qed.

Lemma op_disconnect_wq : forall fuel d w, wq w (fst (op_disconnect fuel d w)).
Proof.
  intros. unfold op_disconnect. destruct (negb _); [apply wq_refl|].
  destruct (disconnect_prepare _ _); [apply wq_refl|].
  set (w0 := if has_partial (s_ob (w_sess w)) then upd_poison w true else w).
  assert (H0 : wq w w0) by (unfold w0; destruct (has_partial _); [apply wq_same; split; reflexivity|apply wq_refl]).
  pose proof (write_all_wq fuel bs w0) as H. destruct (write_all fuel bs w0) as [w1 r]. cbn [fst] in H.
  assert (H1 : wq w w1) by (eapply wq_trans; eassumption).
  destruct r as [u|e| | |]; try exact H1; try (apply wq_mark; exact H1).
  - pose proof (io_flush_sess w1) as Hs. destruct (io_flush w1) as [w2 fr]. cbn [fst] in Hs.
    assert (H2 : wq w w2) by (eapply wq_trans; [exact H1 | apply wq_same; exact Hs]).
    destruct fr; try exact H2; (eapply wq_trans; [exact H2 | apply hd_wq]).
  - eapply wq_trans; [exact H1 | apply hd_wq].
Qed.

Lemma wq_sreach : forall w w', wq w w' -> sreach (w_sess w) (w_sess w').
Proof. intros w w' [b [H _]]. eapply ereach_sreach; exact H. Qed.
