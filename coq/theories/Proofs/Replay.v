(* Replay.v — C02 / C03 at the wire: after a connection is resumed, the drain re-sends every queued packet exactly once.

   `replay_bytes o` is a function of the outbound state `o` at the moment connect() is called: the owed acknowledgements,
   then the pending PUBRELs, then the retained packets, each queue in its own order, each retained packet with the DUP
   bit set in its first byte and otherwise byte for byte as it was accepted.  A connect() that the broker answers with
   session present leaves the queues as `compact (arm_replay o)`; what these owe the wire (Owed.v) is `replay_bytes o`;
   the drain that follows puts exactly that on the wire — on a behaving transport (drive / poll), and on ANY transport
   that lets the user-operation drain come to its end, however it cuts the writes. *)
From Coq Require Import List NArith Lia Bool PeanoNat.
From Coq Require Import ZifyBool ZifyN ZifyNat.
From Minimq Require Import Bytes Varint Utf8 Props Ser De Reader Spec Arena Core Show Machine Parse Run Util Lts Refine
  ArenaLemmas ArenaOps Inv Quota Status Persist Frames Limits Reach WireInv Chunking Wire Measure Terminate KeepAlive ConnectOk PingQuiet Healthy Owed.
Import ListNotations.
Local Open Scope N_scope.

Definition all_bytes (o : outbound) : bytes :=
  concat (map cbytes (ob_ctl o)) ++ concat (map lbytes (ob_rel o)) ++ concat (map (ret_bytes (ob_buf o)) (ob_ret o)).
Definition AllFresh (o : outbound) : Prop :=
  Forall (fun e => ce_st e = SWrite 0) (ob_ctl o) /\ Forall (fun e => le_st e = SWrite 0) (ob_rel o) /\
  Forall (fun e => re_st e = SWrite 0) (ob_ret o).

Lemma Pq_all_fresh : forall {A} (st : A -> sstate) (bs : A -> bytes) l, Forall (fun e => st e = SWrite 0) l -> Pq st bs l = [].
Proof. intros A st bs l H. apply Pq_fresh. eapply Forall_impl; [|exact H]. intros x Hx. cbn beta in Hx. now rewrite Hx. Qed.
Lemma Fq_all_fresh : forall {A} (st : A -> sstate) (bs : A -> bytes) l, Forall (fun e => st e = SWrite 0) l -> Fq st bs l = concat (map bs l).
Proof.
  intros A st bs l H. induction H as [|x t Hx Ht IH]; [reflexivity|]. rewrite Fq_cons, IH. unfold rest_fresh. rewrite Hx. reflexivity.
Qed.

Theorem owed_all_fresh : forall o, AllFresh o -> owed o = all_bytes o.
Proof.
  intros o [Hc [Hl Hr]]. unfold owed, part_of, fresh_of, all_bytes.
  rewrite (Pq_all_fresh ce_st cbytes _ Hc), (Pq_all_fresh le_st lbytes _ Hl), (Pq_all_fresh re_st (ret_bytes (ob_buf o)) _ Hr).
  rewrite (Fq_all_fresh ce_st cbytes _ Hc), (Fq_all_fresh le_st lbytes _ Hl), (Fq_all_fresh re_st (ret_bytes (ob_buf o)) _ Hr).
  reflexivity.
Qed.

(* ---------------------------------------------------------------- what a resumed connection owes *)
Definition replay_bytes (o : outbound) : bytes :=
  concat (map cbytes (ob_ctl o)) ++ concat (map lbytes (ob_rel o)) ++
  concat (map (fun e => dup_bytes (entry_bytes (ob_buf o) e)) (ob_ret o)).

Lemma abs_bytes : forall buf es, map (fun a : aentry => snd (fst a)) (map (abs_entry buf) es) = map (entry_bytes buf) es.
Proof. intros. rewrite map_map. reflexivity. Qed.
Lemma abs_states : forall buf es, map (fun a : aentry => snd a) (map (abs_entry buf) es) = map re_st es.
Proof. intros. rewrite map_map. reflexivity. Qed.

Lemma map_cbytes_fresh : forall l, map cbytes (map (fun e => {| ce_act := ce_act e; ce_st := SWrite 0 |}) l) = map cbytes l.
Proof. intros. rewrite map_map. reflexivity. Qed.
Lemma map_lbytes_fresh : forall l, map lbytes (map (fun e => {| le_pid := le_pid e; le_rc := le_rc e; le_st := SWrite 0 |}) l) = map lbytes l.
Proof. intros. rewrite map_map. reflexivity. Qed.

Theorem owed_compact_arm_replay : forall o, OInv o -> owed (compact (arm_replay o)) = replay_bytes o.
Proof.
  intros o Ho. pose proof (oi_arena _ (OInv_arm_replay o Ho)) as Wa. pose proof (oi_arena _ Ho) as W.
  destruct (compact_spec _ Wa) as [_ [Habs [_ [_ [Ec [El [_ [_ [Est _]]]]]]]]].
  destruct (has_pending_state o) eqn:Hp.
  - destruct (arm_replay_states o Hp) as [Fr [Fl [Fc _]]].
    assert (AF : AllFresh (compact (arm_replay o))).
    { unfold AllFresh. rewrite Ec, El. split; [exact Fc|]. split; [exact Fl|].
      apply Forall_forall. intros x Hx. assert (Hi : In (re_st x) (map re_st (ob_ret (compact (arm_replay o))))) by now apply in_map.
      rewrite Est in Hi. apply in_map_iff in Hi. destruct Hi as [y [Ey Hy]]. rewrite Forall_forall in Fr. rewrite <- Ey. now apply Fr. }
    rewrite (owed_all_fresh _ AF). unfold all_bytes, replay_bytes. rewrite Ec, El.
    (* the byte strings of the retained entries: compaction keeps them, arming sets DUP *)
    assert (Hb : map (ret_bytes (ob_buf (compact (arm_replay o)))) (ob_ret (compact (arm_replay o))) =
                 map (fun e => dup_bytes (entry_bytes (ob_buf o) e)) (ob_ret o)).
    { change (ret_bytes (ob_buf (compact (arm_replay o)))) with (entry_bytes (ob_buf (compact (arm_replay o)))).
      rewrite <- abs_bytes. fold (abs (compact (arm_replay o))). rewrite Habs. unfold abs. rewrite abs_bytes.
      unfold arm_replay. rewrite Hp. cbn [negb ob_buf ob_ret]. rewrite map_map.
      change (fun x : rentry => entry_bytes (ob_buf (mark_retained_dup o)) {| re_pid := re_pid x; re_off := re_off x; re_len := re_len x; re_st := SWrite 0 |})
        with (entry_bytes (ob_buf (mark_retained_dup o))).
      destruct (mark_retained_dup_spec o W) as [_ [Hd [Hr _]]]. rewrite Hr.
      rewrite <- abs_bytes. unfold abs in Hd. rewrite Hr in Hd. rewrite Hd. rewrite !map_map. apply map_ext. intros e.
      unfold abs_entry, dup_aentry. reflexivity. }
    rewrite Hb. unfold arm_replay. rewrite Hp. cbn [negb ob_ctl ob_rel]. unfold mark_retained_dup. cbn [ob_ctl ob_rel].
    rewrite map_cbytes_fresh, map_lbytes_fresh. reflexivity.
  - (* nothing queued at all *)
    assert (Ea : arm_replay o = o) by (unfold arm_replay; now rewrite Hp). rewrite Ea in *.
    unfold has_pending_state in Hp. apply orb_false_iff in Hp. destruct Hp as [Hp H3]. apply orb_false_iff in Hp. destruct Hp as [H1 H2].
    destruct (ob_ctl o) eqn:E1; [|discriminate]. destruct (ob_ret o) eqn:E2; [|discriminate]. destruct (ob_rel o) eqn:E3; [|discriminate].
    assert (Er : ob_ret (compact o) = []).
    { pose proof (f_equal (@length _) Est) as L. rewrite ?E2 in L. rewrite map_length in L. cbn [map length] in L.
      destruct (ob_ret (compact o)); [reflexivity|discriminate]. }
    unfold owed, part_of, fresh_of, replay_bytes. rewrite Ec, El, Er, E1, E2, E3. reflexivity.
Qed.

(* ---------------------------------------------------------------- connect(): what it leaves in the queues when the session is resumed *)
Lemma write_all_sess : forall fuel bs w, w_sess (fst (write_all fuel bs w)) = w_sess w.
Proof.
  induction fuel as [|f IH]; intros bs w; cbn [write_all]; [reflexivity|].
  destruct bs as [|b0 bt]; [reflexivity|]. set (bs := b0 :: bt).
  destruct (io_write bs w) as [w1 r] eqn:Ew. destruct (io_write_ghost _ _ _ _ Ew) as [Hs _].
  destruct r as [n| |]; cbn [fst]; try exact Hs.
  destruct (N.eqb n 0); [exact Hs|]. rewrite IH. exact Hs.
Qed.

Lemma direct_send_sess : forall fuel bs w, w_sess (fst (direct_send fuel bs w)) = w_sess w.
Proof.
  intros. unfold direct_send, bindu. pose proof (write_all_sess fuel bs w) as H. destruct (write_all fuel bs w) as [w1 o]. cbn [fst] in H.
  destruct o; try exact H. destruct (io_flush w1) as [w2 fr] eqn:Ef. destruct (io_flush_ghost _ _ _ Ef) as [Hs _].
  destruct fr; cbn [fst]; congruence.
Qed.

Theorem connect_resumed_outbound : forall fuel w w',
  op_connect fuel w = (w', ODone 1) -> s_ob (w_sess w') = compact (arm_replay (s_ob (w_sess w))).
Proof.
  intros fuel w w' H. unfold op_connect in H.
  match type of H with context [enc_connect ?c ?r] => destruct (enc_connect c r) as [off bs|e] end; [|discriminate].
  match type of H with context [direct_send fuel bs ?x] => set (w2 := x) in *; pose proof (direct_send_sess fuel bs w2) as Hs3;
    destruct (direct_send fuel bs w2) as [w3 o3] end.
  cbn [fst] in Hs3. unfold bindu in H. destruct o3; try discriminate.
  match type of H with context [fill_packet_reader fuel None ?x] => set (w4 := x) in *; destruct (fill_same fuel None w4) as [_ Ho5];
    destruct (fill_packet_reader fuel None w4) as [w5 fr] end.
  cbn [fst] in Ho5. destruct fr; try discriminate.
  destruct (take_packet (s_reader (w_sess w5))) as [[[r' x] p]|]; [|discriminate].
  destruct (connack_process (set_reader (w_sess w5) r') p (w_now w5)) as [s6 cr] eqn:Ec.
  destruct cr as [resumed|e lat]; [|destruct lat; discriminate].
  destruct resumed; [|discriminate]. inversion H; subst w'. cbn [w_sess upd_envok upd_sess].
  (* connack_process with session present keeps the queues *)
  unfold connack_process in Ec. destruct p as [[sp rc props| | | | | | | | |]|]; try (inversion Ec; fail).
  destruct (negb (rc_success rc)); [inversion Ec|].
  match type of Ec with context [connack_props ?a ?b ?c] => destruct (connack_props a b c) as [a1|] end; [|inversion Ec].
  inversion Ec; subst sp. cbn [s_ob set_reader].
  rewrite Ho5. unfold w4. cbn [w_sess upd_sess s_ob set_rt]. rewrite Hs3. unfold w2. cbn [w_sess upd_sess s_ob set_ob]. reflexivity.
Qed.

(* ---------------------------------------------------------------- the replay on the wire *)
(* `w1'` is the world once the caller holds the new connection handle: same session as connect() left *)
(* on a behaving transport: drive() / poll() after the resumed connect *)
Theorem reconnect_replays : forall f1 f2 adv w w1 w1' w2 pr,
  Inv (w_sess w) -> op_connect f1 w = (w1, ODone 1) -> w_sess w1' = w_sess w1 ->
  Hd w1' -> NA w1' -> drive_loop f2 adv w1' = (w2, ODone pr) ->
  w_wire w2 = w_wire w1' ++ replay_bytes (s_ob (w_sess w)).
Proof.
  intros f1 f2 adv w w1 w1' w2 pr I Hc Hs Hh Hna Hd. rewrite (drive_loop_wire _ _ _ _ _ Hh Hna Hd).
  rewrite Hs, (connect_resumed_outbound _ _ _ Hc), (owed_compact_arm_replay _ (inv_ob _ I)). reflexivity.
Qed.

(* on any transport: the drain inside publish / subscribe / unsubscribe, whatever pieces the transport accepts *)
Theorem reconnect_replays_any_transport : forall f1 f2 w w1 w1' w2,
  Inv (w_sess w) -> op_connect f1 w = (w1, ODone 1) -> w_sess w1' = w_sess w1 ->
  WInv (w_sess w1') -> PQ w1' -> flush_outbound f2 w1' = (w2, ODone tt) ->
  w_wire w2 = w_wire w1' ++ replay_bytes (s_ob (w_sess w)) /\ next_step (s_ob (w_sess w2)) = None.
Proof.
  intros f1 f2 w w1 w1' w2 I Hc Hs I1 Hq Hf. destruct (flush_outbound_wire _ _ _ I1 Hq Hf) as [Hw Hn]. split; [|exact Hn].
  rewrite Hw, Hs, (connect_resumed_outbound _ _ _ Hc), (owed_compact_arm_replay _ (inv_ob _ I)). reflexivity.
Qed.

(* ---------------------------------------------------------------- non-vacuity: all three queues hold something at the disconnect *)
Definition ex_pub2 : pub_req := {| pr_topic := [117]; pr_props := PSlice []; pr_qos := Q2; pr_payload := [9]; pr_retain := false |}.
Definition ex_inpub : bytes := [50; 7; 0; 1; 97; 0; 7; 0; 5].
(* QoS 1 publish (id 1) unacknowledged; QoS 2 publish (id 2) answered by PUBREC, its PUBREL sent; an inbound QoS 1
   publish (id 7) delivered, its PUBACK still queued; then the connection is lost *)
Definition ex_before : world :=
  run_case {| c_cfg := ex_cfgh;
              c_prog := [ASetBroker 2; AConnect []; ASetBroker 0; APublish ex_pub; APublish ex_pub2; AFeed 0 [80; 2; 0; 2]; APoll;
                         AFeed 0 ex_inpub; APoll; AHandleDisconnect; ASetBroker 2];
              c_script := [] |}.
Definition new_transport (w : world) : world :=
  upd_poison (upd_wire (upd_txbuf (upd_inq (upd_live w false false 0) [] (w_now w)) []) []) false.
Definition ex_new : world := new_transport ex_before.
Definition ex_conn : world := upd_live (fst (op_connect FUEL ex_new)) true true 1.
(* the same, on a transport that takes three bytes at a time *)
Definition ex_frag : world := upd_script ex_conn (repeat (0, 3) 40).

Example replay_example :
  snd (op_connect FUEL ex_new) = ODone 1 /\
  replay_bytes (s_ob (w_sess ex_new)) = [64; 3; 0; 7; 0] ++ [98; 3; 0; 2; 0] ++ [58; 9; 0; 1; 116; 0; 1; 0; 1; 2; 3] /\
  snd (op_drive FUEL ex_conn) = ODone None /\
  w_wire (fst (op_drive FUEL ex_conn)) = w_wire ex_conn ++ replay_bytes (s_ob (w_sess ex_new)) /\
  snd (flush_outbound FUEL ex_frag) = ODone tt /\
  w_wire (fst (flush_outbound FUEL ex_frag)) = w_wire ex_frag ++ replay_bytes (s_ob (w_sess ex_new)).
Proof. vm_compute. repeat split. Qed.

(* the hypotheses of the two theorems hold of these worlds.  (Closed worlds are only ever evaluated by vm_compute: every
   other step names the hypothesis it uses, so that no tactic starts to normalise `ex_conn` by itself.) *)
Lemma new_transport_sess : forall w, w_sess (new_transport w) = w_sess w.
Proof. reflexivity. Qed.
Lemma upd_live_sess : forall w a b c, w_sess (upd_live w a b c) = w_sess w.
Proof. reflexivity. Qed.
Lemma upd_script_sess : forall w l, w_sess (upd_script w l) = w_sess w.
Proof. reflexivity. Qed.
Lemma upd_script_script : forall w l, w_script (upd_script w l) = l.
Proof. reflexivity. Qed.
Lemma one_fresh : forall {A} (st : A -> sstate) (l : list A), map st l = [SWrite 0] -> Forall (fun e => okst (st e)) l.
Proof.
  intros A st l H. destruct l as [|x [|y t]]; try discriminate H. cbn [map] in H. injection H as H.
  constructor; [rewrite H; reflexivity|constructor].
Qed.

Example replay_hyps_met :
  Inv (w_sess ex_new) /\ w_sess ex_conn = w_sess (fst (op_connect FUEL ex_new)) /\ Hd ex_conn /\ NA ex_conn /\
  w_sess ex_frag = w_sess (fst (op_connect FUEL ex_new)) /\ WInv (w_sess ex_frag) /\ PQ ex_frag.
Proof.
  assert (I0 : WInv (w_sess ex_new)).
  { unfold ex_new. rewrite new_transport_sess. unfold ex_before. apply (proj1 (run_case_good _)). }
  assert (Ec : w_sess ex_conn = w_sess (fst (op_connect FUEL ex_new))) by (unfold ex_conn; apply upd_live_sess).
  assert (Ef : w_sess ex_frag = w_sess ex_conn) by (unfold ex_frag; apply upd_script_sess).
  assert (I1 : WInv (w_sess ex_conn)).
  { rewrite Ec. eapply WInv_wq; [apply op_connect_wq|exact I0]. }
  assert (Np : rt_next_ping (s_rt (w_sess ex_conn)) = None) by (vm_compute; reflexivity).
  assert (Pt : rt_ping_timeout (s_rt (w_sess ex_conn)) = None) by (vm_compute; reflexivity).
  assert (Ka : rt_ka_ms (s_rt (w_sess ex_conn)) = 0) by (vm_compute; reflexivity).
  assert (Sc : w_script ex_conn = []) by (vm_compute; reflexivity).
  assert (Lv : w_live ex_conn = true) by (vm_compute; reflexivity).
  assert (Mp : rt_mps (s_rt (w_sess ex_conn)) = None) by (vm_compute; reflexivity).
  assert (Sc' : map ce_st (ob_ctl (s_ob (w_sess ex_conn))) = [SWrite 0]) by (vm_compute; reflexivity).
  assert (Sl' : map le_st (ob_rel (s_ob (w_sess ex_conn))) = [SWrite 0]) by (vm_compute; reflexivity).
  assert (Sr' : map re_st (ob_ret (s_ob (w_sess ex_conn))) = [SWrite 0]) by (vm_compute; reflexivity).
  assert (Na : packet_available (s_reader (w_sess ex_conn)) = false) by (vm_compute; reflexivity).
  assert (Bl' : lenN (ob_buf (s_ob (w_sess ex_conn))) <= BIG) by (vm_compute; intros X; discriminate X).
  assert (Q1 : PQ ex_conn).
  { split; [vm_compute; reflexivity|]. unfold Calm. exact (eq_ind_r (fun l => Forall (fun e => slow_ev e = false) l) (Forall_nil _) Sc). }
  assert (H1 : Hd ex_conn).
  { split; [|exact Q1]. unfold Hc.
    split; [exact Sc|]. split; [exact Lv|]. split; [exact I1|]. split; [exact Mp|].
    split; [intros d E; pose proof (eq_trans (eq_sym Pt) E) as X; discriminate X|].
    split; [exact Bl'|]. split; [apply (one_fresh ce_st); exact Sc'|]. split; [apply (one_fresh le_st); exact Sl'|apply (one_fresh re_st); exact Sr']. }
  assert (H2 : PQ ex_frag).
  { split; [vm_compute; reflexivity|]. unfold Calm, ex_frag. rewrite upd_script_script.
    apply Forall_forall. intros x Hx. apply repeat_spec in Hx. subst x. reflexivity. }
  split; [exact (proj1 I0)|]. split; [exact Ec|]. split; [exact H1|]. split; [exact Na|].
  split; [exact (eq_trans Ef Ec)|]. split; [|exact H2].
  exact (eq_ind_r (fun s => WInv s) I1 Ef).
Qed.

Lemma replay_bytes_unfold : forall o, replay_bytes o =
  concat (map (fun e => ctl_bytes (ce_act e)) (ob_ctl o)) ++
  concat (map (fun e => rel_bytes (le_pid e) (le_rc e)) (ob_rel o)) ++
  concat (map (fun e => dup_bytes (sliceN (re_off e) (re_len e) (ob_buf o))) (ob_ret o)).
Proof. reflexivity. Qed.
