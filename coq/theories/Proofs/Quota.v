(* Quota.v — the Receive Maximum accounting invariant (C06):
     send_quota + #unresolved QoS>0 publishes <= max_send_quota
   closed under every session step whose environment flag is ok. *)
From Coq Require Import Arith ZArith Lia ZifyBool ZifyN ZifyNat.
From Minimq Require Import Util Bytes Varint Utf8 Props Ser De Reader Arena Core.
From Minimq Require Import PacketShape.
From Minimq Require Import ArenaLemmas SerLemmas ArenaOps Inv Lts.

Definition is_pub_bytes (b : bytes) : bool := match b with x :: _ => N.eqb (x / 16) 3 | [] => false end.
Definition a_bytes (a : aentry) : bytes := snd (fst a).
Definition pubs (o : outbound) : N := glen (filter (fun a => is_pub_bytes (a_bytes a)) (abs o)).

Lemma is_publish_entry_bytes : forall buf e, 1 <= re_len e ->
  is_publish_entry buf e = is_pub_bytes (entry_bytes buf e).
Proof.
  intros buf e H. unfold is_publish_entry, entry_bytes, sliceN, is_pub_bytes.
  destruct (dropN (re_off e) buf) as [|b t]; cbn [takeN]; [reflexivity|].
  destruct (N.eqb_spec (re_len e) 0); [lia|reflexivity].
Qed.

Lemma wf_layout_len : forall es lo used e, wf_layout lo es used -> In e es -> 2 <= re_len e.
Proof.
  induction es as [|x t IH]; intros lo used e W Hin; [destruct Hin|].
  cbn [wf_layout] in W. destruct W as [W1 [W2 W3]]. destruct Hin as [->|Hin]; [exact W2|]. eapply IH; eassumption.
Qed.

Lemma unres_abs : forall o, arena_wf o -> unresolved_publishes o = pubs o + glen (ob_rel o).
Proof.
  intros o [W U]. unfold unresolved_publishes, pubs, abs. f_equal.
  assert (G : forall es, (forall e, In e es -> 2 <= re_len e) ->
              glen (filter (is_publish_entry (ob_buf o)) es) =
              glen (filter (fun a => is_pub_bytes (a_bytes a)) (map (abs_entry (ob_buf o)) es))).
  { induction es as [|e t IH]; intros Hl; cbn [filter map glen]; [reflexivity|].
    unfold a_bytes at 1. cbn [abs_entry fst snd].
    rewrite <- is_publish_entry_bytes by (specialize (Hl e (or_introl eq_refl)); lia).
    destruct (is_publish_entry (ob_buf o) e); cbn [glen]; rewrite IH; try reflexivity;
      intros x Hx; apply Hl; now right. }
  apply G. intros e He. eapply wf_layout_len; eassumption.
Qed.

Definition Q (s : session) : Prop :=
  rt_quota (s_rt s) <= rt_maxquota (s_rt s) /\
  unresolved_publishes (s_ob s) + rt_quota (s_rt s) <= rt_maxquota (s_rt s).

(* pubs only depends on the bytes of the retained entries *)
Lemma pubs_bytes : forall o o', map a_bytes (abs o') = map a_bytes (abs o) -> pubs o' = pubs o.
Proof.
  intros o o' H. unfold pubs. generalize dependent (abs o'). generalize (abs o).
  induction l as [|a t IH]; intros l' H; destruct l' as [|a' t']; try discriminate; [reflexivity|].
  cbn [map filter] in *. inversion H. rewrite H1. destruct (is_pub_bytes (a_bytes a)); cbn [glen]; now rewrite (IH t').
Qed.

Lemma abs_bytes_states : forall o o',
  ob_buf o' = ob_buf o -> map re_off (ob_ret o') = map re_off (ob_ret o) -> map re_len (ob_ret o') = map re_len (ob_ret o) ->
  map a_bytes (abs o') = map a_bytes (abs o).
Proof.
  intros o o' Hb Ho Hl. unfold abs. rewrite !map_map. rewrite Hb.
  generalize dependent (ob_ret o'). generalize (ob_ret o).
  induction l as [|e t IH]; intros l' Ho Hl; destruct l' as [|e' t']; try discriminate; [reflexivity|].
  cbn [map] in *. inversion Ho; inversion Hl. f_equal; [|now apply IH].
  unfold a_bytes, abs_entry, entry_bytes. cbn [fst snd]. congruence.
Qed.

Section BitArith.
Local Ltac Zify.zify_post_hook ::= Z.div_mod_to_equations.
Lemma set_bit3_type : forall x, set_bit3 x / 16 = x / 16.
Proof.
  intros x. unfold set_bit3. destruct (N.testbit x 3) eqn:E; [reflexivity|].
  rewrite N.testbit_eqb in E. change (2 ^ 3) with 8 in E.
  assert (H : (x / 8) mod 2 = 0) by lia. clear E. lia.
Qed.
End BitArith.

Lemma pubs_dup : forall o o', abs o' = map dup_aentry (abs o) -> pubs o' = pubs o.
Proof.
  intros o o' H. unfold pubs. rewrite H. generalize (abs o). induction l as [|a t IH]; cbn [map filter]; [reflexivity|].
  assert (E : is_pub_bytes (a_bytes (dup_aentry a)) = is_pub_bytes (a_bytes a)).
  { destruct a as [[p b] st]. unfold dup_aentry, a_bytes. cbn [fst snd]. destruct b as [|x b']; cbn [dup_bytes is_pub_bytes]; [reflexivity|].
    now rewrite set_bit3_type. }
  rewrite E. destruct (is_pub_bytes (a_bytes a)); cbn [glen]; now rewrite IH.
Qed.

Definition U (o : outbound) : N := unresolved_publishes o.

Lemma U_states : forall o o', OInv o -> OInv o' ->
  ob_buf o' = ob_buf o -> map re_off (ob_ret o') = map re_off (ob_ret o) ->
  map re_len (ob_ret o') = map re_len (ob_ret o) -> glen (ob_rel o') = glen (ob_rel o) -> U o' = U o.
Proof.
  intros o o' H H' Hb Ho Hl Hr. unfold U. rewrite !unres_abs by (apply oi_arena; assumption).
  rewrite Hr. f_equal. apply pubs_bytes. now apply abs_bytes_states.
Qed.

Lemma U_compact : forall o, OInv o -> U (compact o) = U o.
Proof.
  intros o H. pose proof (OInv_compact o H) as H'. unfold U. rewrite !unres_abs by (apply oi_arena; assumption).
  destruct (compact_spec o (oi_arena _ H)) as [_ [C2 [_ [_ [_ [C6 _]]]]]]. rewrite C6. f_equal. unfold pubs. now rewrite C2.
Qed.

Lemma U_mark_dup : forall o, OInv o -> U (mark_retained_dup o) = U o.
Proof.
  intros o H. pose proof (OInv_mark_dup o H) as H'. unfold U. rewrite !unres_abs by (apply oi_arena; assumption).
  destruct (mark_retained_dup_spec o (oi_arena _ H)) as [_ [M2 [_ [_ [M5 _]]]]]. rewrite M5. f_equal. now apply pubs_dup.
Qed.

Lemma U_arm_replay : forall o, OInv o -> U (arm_replay o) = U o.
Proof.
  intros o H. pose proof (OInv_arm_replay o H) as Ha. unfold arm_replay in *.
  destruct (has_pending_state o) eqn:E; cbn [negb] in *; [|reflexivity].
  rewrite <- (U_mark_dup o H).
  apply U_states; cbn [ob_buf ob_ret ob_rel]; try reflexivity.
  - apply OInv_mark_dup. exact H.
  - exact Ha.
  - now rewrite map_map.
  - now rewrite map_map.
  - now rewrite glen_map.
Qed.

(* was the first retained entry with this id a PUBLISH? *)
Definition pub_of (o : outbound) (pid : N) : bool :=
  match find (fun e => N.eqb (re_pid e) pid) (ob_ret o) with
  | Some e => is_publish_entry (ob_buf o) e
  | None => false
  end.

Lemma abs_remove_pubs : forall pid l l', abs_remove pid l = Some l' ->
  exists a, find (fun a : aentry => N.eqb (fst (fst a)) pid) l = Some a /\
    glen (filter (fun a => is_pub_bytes (a_bytes a)) l) =
    glen (filter (fun a => is_pub_bytes (a_bytes a)) l') + (if is_pub_bytes (a_bytes a) then 1 else 0).
Proof.
  induction l as [|[[p b] st] t IH]; intros l' H; cbn [abs_remove] in H; [discriminate|].
  cbn [find fst]. destruct (N.eqb p pid) eqn:E.
  - inversion H; subst. exists (p, b, st). split; [reflexivity|]. cbn [filter].
    change (a_bytes (p, b, st)) with b. destruct (is_pub_bytes b); cbn [glen]; lia.
  - destruct (abs_remove pid t) as [t'|] eqn:Et; [|discriminate]. inversion H; subst.
    destruct (IH t' eq_refl) as [a [Ha Hg]]. exists a. split; [exact Ha|]. cbn [filter].
    change (a_bytes (p, b, st)) with b. destruct (is_pub_bytes b); cbn [glen]; lia.
Qed.

Lemma find_abs : forall buf pid es,
  find (fun a : aentry => N.eqb (fst (fst a)) pid) (map (abs_entry buf) es) =
  option_map (abs_entry buf) (find (fun e => N.eqb (re_pid e) pid) es).
Proof.
  induction es as [|e t IH]; cbn [map find option_map]; [reflexivity|].
  cbn [abs_entry fst]. destruct (N.eqb (re_pid e) pid); [reflexivity|exact IH].
Qed.

Lemma U_ack_packet : forall o pid o', OInv o -> ack_packet o pid = (o', true) ->
  U o = U o' + (if pub_of o pid then 1 else 0).
Proof.
  intros o pid o' H E. pose proof (OInv_ack_packet o pid H) as H'. rewrite E in H'. cbn [fst] in H'.
  destruct (ack_packet_spec o pid o' true (oi_arena _ H) E) as [_ [_ [Hr [_ Ha]]]].
  unfold U. rewrite !unres_abs by (apply oi_arena; assumption). rewrite Hr.
  destruct (abs_remove_pubs _ _ _ Ha) as [a [Hf Hg]]. unfold pubs. rewrite Hg.
  unfold abs in Hf. rewrite find_abs in Hf. unfold pub_of.
  destruct (find (fun e => N.eqb (re_pid e) pid) (ob_ret o)) as [e|] eqn:Ef; [|discriminate].
  cbn [option_map] in Hf. inversion Hf; subst. unfold a_bytes. cbn [abs_entry fst snd].
  rewrite is_publish_entry_bytes; [lia|].
  assert (In e (ob_ret o)) by (apply find_some in Ef; tauto).
  destruct (oi_arena _ H) as [W _]. pose proof (wf_layout_len _ _ _ _ W H0). lia.
Qed.

Lemma U_retain : forall o enc o1 off len pid o2,
  OInv o ->
  (forall cap off' bs, enc cap = SOk off' bs -> off' + lenN bs <= cap /\ 2 <= lenN bs) ->
  encode_at o enc = (o1, EOk off len) -> retain_packet o1 pid off len = Some o2 ->
  ~ In pid (ids o) -> id_ok pid ->
  exists bs cap off', enc cap = SOk off' bs /\ U o2 = U o + (if is_pub_bytes bs then 1 else 0).
Proof.
  intros o enc o1 off len pid o2 H Henc He Hr Hn Hok.
  pose proof (OInv_retain o enc o1 off len pid o2 H Henc He Hr Hn Hok) as H2.
  destruct (encode_retain_spec o enc o1 off len pid o2 (oi_arena _ H) Henc He Hr) as [bs [_ [Ab [_ [[cap [off' Hb]] [_ [Hl _]]]]]]].
  exists bs, cap, off'. split; [exact Hb|].
  unfold U. rewrite !unres_abs by (apply oi_arena; assumption). rewrite Hl. unfold pubs. rewrite Ab, filter_app, glen_app.
  cbn [filter]. change (a_bytes (pid, bs, SWrite 0)) with bs. destruct (is_pub_bytes bs); cbn [glen]; lia.
Qed.

Lemma U_encode_at : forall o enc, OInv o ->
  (forall cap off' bs, enc cap = SOk off' bs -> off' + lenN bs <= cap /\ 2 <= lenN bs) ->
  U (fst (encode_at o enc)) = U o.
Proof.
  intros o enc H Henc. pose proof (encode_at_OInv o enc H) as [H1 _]. rewrite <- (U_compact o H).
  unfold encode_at in *. destruct (enc _) as [off bs|e] eqn:E; cbn [fst] in *; [|reflexivity].
  (* bytes written behind `used` do not belong to any entry *)
  pose proof (OInv_compact o H) as Hc. unfold U. rewrite !unres_abs by (apply oi_arena; assumption).
  cbn [ob_rel]. f_equal. apply pubs_bytes. unfold abs. cbn [ob_ret ob_buf]. rewrite !map_map.
  destruct (oi_arena _ Hc) as [W Uu]. destruct (Henc _ _ _ E) as [Hfit _]. unfold ob_cap in Hfit.
  revert W. generalize 0 as lo. generalize (ob_ret (compact o)) as es.
  induction es as [|e t IH]; intros lo W; cbn [map]; [reflexivity|].
  cbn [wf_layout] in W. destruct W as [W1 [W2 W3]]. pose proof (wf_layout_le _ _ _ W3). f_equal; [|eapply IH; exact W3].
  unfold a_bytes, abs_entry, entry_bytes. cbn [fst snd]. apply slice_overwrite_before; lia.
Qed.

(* ---------- closure of Q ---------- *)
Lemma Q_frame : forall s s', U (s_ob s') = U (s_ob s) -> rt_quota (s_rt s') = rt_quota (s_rt s) ->
  rt_maxquota (s_rt s') = rt_maxquota (s_rt s) -> Q s -> Q s'.
Proof. intros s s' H1 H2 H3 [A B]. unfold Q, U in *. rewrite H1, H2, H3. split; assumption. Qed.

Lemma U_queue_control : forall o a o', queue_control o a = Some o' -> U o' = U o.
Proof. intros o a o' H. unfold queue_control in H. destruct (_ <=? _); [discriminate|]. inversion H; subst. reflexivity. Qed.

Lemma U_rel_states : forall o (p : lentry -> bool) (f : lentry -> lentry) l b,
  OInv o -> OInv (with_rel o l) -> update_first p f (ob_rel o) = (l, b) -> U (with_rel o l) = U o.
Proof.
  intros o p f l b H H' E. apply U_states; [exact H | exact H' | reflexivity | reflexivity | reflexivity |].
  cbn [with_rel ob_rel]. replace l with (fst (update_first p f (ob_rel o))) by now rewrite E. apply update_first_glen.
Qed.
Lemma U_ret_states : forall o (p : rentry -> bool) st l b,
  OInv o -> OInv (with_ret o l) ->
  update_first p (fun e => {| re_pid := re_pid e; re_off := re_off e; re_len := re_len e; re_st := st |}) (ob_ret o) = (l, b) ->
  U (with_ret o l) = U o.
Proof.
  intros o p st l b H H' E. apply U_states; [exact H | exact H' | reflexivity | | | reflexivity];
    cbn [with_ret ob_ret];
    match goal with |- map ?g l = _ =>
      replace l with (fst (update_first p (fun e => {| re_pid := re_pid e; re_off := re_off e; re_len := re_len e; re_st := st |}) (ob_ret o))) by now rewrite E end;
    apply update_first_map; reflexivity.
Qed.

Lemma U_set_written : forall s p w len, Inv s -> U (s_ob (fst (set_written s p w len))) = U (s_ob s).
Proof.
  intros s p w len H. pose proof (Inv_set_written s p w len H) as H'. unfold set_written in *. destruct p as [a|pid|pid].
  - unfold set_control_written in *. destruct (update_first _ _ (ob_ctl (s_ob s))). reflexivity.
  - unfold set_release_written in *. destruct (update_first _ _ (ob_rel (s_ob s))) as [l b] eqn:E. cbn [fst set_ob s_ob] in *.
    eapply U_rel_states; [apply H | apply H' | exact E].
  - unfold set_retained_written in *. destruct (update_first _ _ (ob_ret (s_ob s))) as [l b] eqn:E. cbn [fst set_ob s_ob] in *.
    eapply U_ret_states; [apply H | apply H' | exact E].
Qed.

Lemma U_complete_flush : forall s p now, Inv s -> U (s_ob (fst (complete_flush s p now))) = U (s_ob s).
Proof.
  intros s p now H. pose proof (Inv_complete_flush s p now H) as H'. unfold complete_flush in *. destruct p as [a|pid|pid].
  - unfold flush_control in *. destruct (update_first _ _ (ob_ctl (s_ob s))). reflexivity.
  - unfold flush_release in *. destruct (update_first _ _ (ob_rel (s_ob s))) as [l b] eqn:E. cbn [fst set_ob set_rt s_ob] in *.
    eapply U_rel_states; [apply H | apply H' | exact E].
  - unfold flush_retained in *. destruct (update_first _ _ (ob_ret (s_ob s))) as [l b] eqn:E. cbn [fst set_ob set_rt s_ob] in *.
    eapply U_ret_states; [apply H | apply H' | exact E].
Qed.

Lemma complete_flush_quota : forall s p now,
  rt_quota (s_rt (fst (complete_flush s p now))) = rt_quota (s_rt s) /\
  rt_maxquota (s_rt (fst (complete_flush s p now))) = rt_maxquota (s_rt s).
Proof.
  intros. unfold complete_flush.
  destruct p as [a|pid|pid]; [destruct (flush_control _ _)|destruct (flush_release _ _)|destruct (flush_retained _ _)];
    cbn [fst set_rt s_rt]; unfold note_outbound_activity, rt_with_timers; try destruct a; cbn [rt_quota rt_maxquota]; split; reflexivity.
Qed.

Lemma Q_queue_ctl_checked : forall s a d, Q s -> Q (fst (queue_ctl_checked s a d)).
Proof.
  intros s a d H. unfold queue_ctl_checked. destruct (check_control_size _ _); [exact H|].
  destruct (queue_control (s_ob s) a) as [o|] eqn:E; cbn [fst]; [|exact H].
  eapply Q_frame; [| | |exact H]; cbn [set_ob s_ob s_rt]; try reflexivity. eapply U_queue_control; exact E.
Qed.

Lemma quota_inc_spec : forall r, rt_quota r <= rt_maxquota r ->
  rt_quota (quota_inc r) <= rt_maxquota (quota_inc r) /\ rt_maxquota (quota_inc r) = rt_maxquota r /\
  rt_quota (quota_inc r) <= rt_quota r + 1.
Proof. intros r H. unfold quota_inc, rt_with_quota. cbn [rt_quota rt_maxquota]. lia. Qed.

Lemma find_ext_pid : forall pid (es : list rentry), find (fun e => N.eqb (re_pid e) pid) es = find (fun e => N.eqb (re_pid e) pid) es.
Proof. reflexivity. Qed.

Lemma Q_handle_packet : forall s p, Inv s -> Q s -> ack_type_ok s p = true -> Q (fst (handle_packet s p)).
Proof.
  intros s p I H Hok. destruct H as [Hq Hu]. unfold Q in *.
  destruct p; cbn [handle_packet].
  - split; assumption.
  - (* PUBLISH *)
    assert (Q s) by (split; assumption).
    destruct q; [exact H| |].
    + destruct pid; [|exact H]. now apply Q_queue_ctl_checked.
    + destruct pid as [id|]; [|exact H].
      match goal with |- context [queue_ctl_checked s ?a ?dl] =>
        pose proof (Q_queue_ctl_checked s a dl H) as Hq2; destruct (queue_ctl_checked s a dl) as [s1 hr] end.
      cbn [fst] in Hq2 |- *. destruct hr; [destruct (_ || _)|]; exact Hq2.
  - (* PUBACK *)
    destruct (ack_packet (s_ob s) pid) as [o found] eqn:E. destruct found; cbn [negb]; [|split; assumption].
    pose proof (U_ack_packet _ _ _ (inv_ob _ I) E) as HU. unfold U in HU.
    cbn [ack_type_ok] in Hok. unfold pub_of in HU.
    destruct (find (fun e => N.eqb (re_pid e) pid) (ob_ret (s_ob s))) as [e|] eqn:Ef.
    + rewrite Hok in HU. destruct (quota_inc_spec (s_rt s) Hq) as [Q1 [Q2 Q3]].
      destruct (rc_success rc); cbn [fst set_rt set_ob s_rt s_ob]; rewrite ?Q2; split; try assumption; lia.
    + (* found = true contradicts find = None *)
      exfalso. unfold ack_packet in E. 
      assert (remove_first_ret pid (ob_ret (s_ob s)) = None).
      { clear - Ef. induction (ob_ret (s_ob s)) as [|x t IH]; cbn [remove_first_ret find] in *; [reflexivity|].
        destruct (N.eqb (re_pid x) pid); [discriminate|]. now rewrite IH. }
      rewrite H in E. discriminate.
  - (* PUBREC *)
    destruct (ack_packet (s_ob s) pid) as [o found] eqn:E. destruct found.
    + pose proof (U_ack_packet _ _ _ (inv_ob _ I) E) as HU. unfold U in HU.
      cbn [ack_type_ok] in Hok. unfold pub_of in HU.
      destruct (find (fun e => N.eqb (re_pid e) pid) (ob_ret (s_ob s))) as [e|] eqn:Ef.
      * rewrite Hok in HU. destruct (quota_inc_spec (s_rt s) Hq) as [Q1 [Q2 Q3]].
        destruct (negb (rc_success rc)); cbn [fst set_rt set_ob s_rt s_ob]; [rewrite ?Q2; split; try assumption; lia|].
        destruct (check_pubrel_size _ _ _); cbn [fst set_ob s_ob s_rt]; [split; [assumption|lia]|].
        destruct (queue_release o pid 0) as [o2|] eqn:Eq; cbn [fst set_ob s_ob s_rt]; [|split; [assumption|lia]].
        assert (unresolved_publishes o2 = unresolved_publishes o + 1).
        { unfold queue_release in Eq. destruct (_ <=? _); [discriminate|]. inversion Eq; subst.
          unfold unresolved_publishes. cbn [ob_buf ob_ret ob_rel]. rewrite glen_app. cbn [glen]. lia. }
        split; [assumption|lia].
      * exfalso. unfold ack_packet in E.
        assert (remove_first_ret pid (ob_ret (s_ob s)) = None).
        { clear - Ef. induction (ob_ret (s_ob s)) as [|x t IH]; cbn [remove_first_ret find] in *; [reflexivity|].
          destruct (N.eqb (re_pid x) pid); [discriminate|]. now rewrite IH. }
        rewrite H in E. discriminate.
    + destruct (has_pending_release _ _); [destruct (rc_success rc)|]; split; assumption.
  - (* PUBREL *)
    assert (Q s) by (split; assumption).
    destruct (swap_remove_id pid (s_srv s)); apply Q_queue_ctl_checked; exact H.
  - (* PUBCOMP *)
    destruct (ack_release (s_ob s) pid) as [o found] eqn:E. destruct found; cbn [negb]; [|split; assumption].
    assert (HU : unresolved_publishes (s_ob s) = unresolved_publishes o + 1).
    { unfold ack_release in E. destruct (remove_first_rel pid (ob_rel (s_ob s))) as [es|] eqn:Er; [|inversion E].
      inversion E; subst. destruct (remove_first_rel_ids _ _ _ Er) as [a [b [I1 I2]]].
      unfold unresolved_publishes. cbn [ob_buf ob_ret ob_rel].
      rewrite <- (glen_map le_pid es), I2, <- (glen_map le_pid (ob_rel (s_ob s))), I1, !glen_app. cbn [glen]. lia. }
    destruct (quota_inc_spec (s_rt s) Hq) as [Q1 [Q2 Q3]].
    destruct (rc_success rc); cbn [fst set_rt set_ob s_rt s_ob]; rewrite ?Q2; split; try assumption; lia.
  - (* SUBACK *)
    destruct (ack_packet (s_ob s) pid) as [o found] eqn:E. destruct found; cbn [negb]; [|split; assumption].
    pose proof (U_ack_packet _ _ _ (inv_ob _ I) E) as HU. unfold U in HU.
    destruct (all_success codes); cbn [fst set_ob s_ob s_rt]; split; try assumption; destruct (pub_of _ _); lia.
  - (* UNSUBACK *)
    destruct (ack_packet (s_ob s) pid) as [o found] eqn:E. destruct found; cbn [negb]; [|split; assumption].
    pose proof (U_ack_packet _ _ _ (inv_ob _ I) E) as HU. unfold U in HU.
    destruct (all_success codes); cbn [fst set_ob s_ob s_rt]; split; try assumption; destruct (pub_of _ _); lia.
  - split; assumption.
  - cbn [fst set_rt s_rt s_ob rt_with_timers rt_quota rt_maxquota]. split; assumption.
Qed.

Lemma head_type : forall typ flags t, typ < 16 -> is_pub_bytes ((typ * 16 + flags mod 16) :: t) = N.eqb typ 3.
Proof.
  intros typ flags t H. unfold is_pub_bytes.
  assert ((typ * 16 + flags mod 16) / 16 = typ).
  { rewrite N.add_comm, N.div_add by lia. rewrite N.div_small by (apply N.mod_upper_bound; lia). lia. }
  now rewrite H0.
Qed.

Lemma Q_enqueue_middle : forall s kind enc typ,
  (forall id cap off bs, enc cap id = SOk off bs -> (off + lenN bs <= cap /\ 2 <= lenN bs) /\
        exists flags t, bs = (typ * 16 + flags mod 16) :: t) ->
  typ < 16 -> typ <> 3 ->
  Inv s -> Q s -> Q (fst (enqueue_middle s kind enc)).
Proof.
  intros s kind enc typ Henc Ht Ht3 I H. unfold enqueue_middle. destruct (retained_full _); [exact H|].
  destruct (next_packet_id s) as [s1 id] eqn:En.
  destruct (next_packet_id_fresh s s1 id (inv_ob _ I) (inv_pid _ I) En) as [Hok [Hn [Hp Hs1]]].
  assert (I1 : Inv s1) by (rewrite Hs1; apply Inv_pid; assumption).
  assert (Hob : s_ob s1 = s_ob s) by (rewrite Hs1; reflexivity).
  assert (Hrt : s_rt s1 = s_rt s) by (rewrite Hs1; reflexivity).
  assert (H1 : Q s1) by (eapply Q_frame; [| | |exact H]; rewrite ?Hob, ?Hrt; reflexivity).
  assert (Hfits : forall cap off' bs, enc cap id = SOk off' bs -> off' + lenN bs <= cap /\ 2 <= lenN bs).
  { intros cap off' bs Hx. apply Henc in Hx. tauto. }
  destruct (encode_at (s_ob s1) (fun cap => enc cap id)) as [o1 er] eqn:Ee.
  pose proof (U_encode_at (s_ob s1) (fun cap => enc cap id) (inv_ob _ I1) Hfits) as HU1. rewrite Ee in HU1. cbn [fst] in HU1.
  assert (Qo1 : Q (set_ob s1 o1)) by (eapply Q_frame; [| | |exact H1]; cbn [set_ob s_ob s_rt]; [exact HU1|reflexivity|reflexivity]).
  destruct er as [off len|e]; cbn [fst]; [|exact Qo1].
  destruct (too_large _ _); cbn [fst]; [exact Qo1|].
  destruct (retain_packet o1 id off len) as [o2|] eqn:Er; cbn [fst]; [|exact Qo1].
  destruct (U_retain (s_ob s1) (fun cap => enc cap id) o1 off len id o2 (inv_ob _ I1) Hfits Ee Er) as [bs [cap [off' [Hb HU2]]]];
    [rewrite Hob; exact Hn | exact Hok |].
  destruct (Henc _ _ _ _ Hb) as [_ [flags [t Hbs]]]. rewrite Hbs, head_type in HU2 by exact Ht.
  destruct (N.eqb_spec typ 3); [contradiction|].
  eapply Q_frame; [| | |exact H1]; cbn [set_ob s_ob s_rt]; [rewrite HU2; lia|reflexivity|reflexivity].
Qed.

Lemma enc_subscribe_head : forall r cap off bs, enc_subscribe cap r = SOk off bs ->
  (off + lenN bs <= cap /\ 2 <= lenN bs) /\ exists flags t, bs = (8 * 16 + flags mod 16) :: t.
Proof. intros r cap off bs H. apply encode_chunks_spec in H. destruct H as [_ [H1 [H2 [t Ht]]]]. split; [tauto|]. exists 2, t. exact Ht. Qed.
Lemma enc_unsubscribe_head : forall r cap off bs, enc_unsubscribe cap r = SOk off bs ->
  (off + lenN bs <= cap /\ 2 <= lenN bs) /\ exists flags t, bs = (10 * 16 + flags mod 16) :: t.
Proof. intros r cap off bs H. apply encode_chunks_spec in H. destruct H as [_ [H1 [H2 [t Ht]]]]. split; [tauto|]. exists 2, t. exact Ht. Qed.
Lemma enc_publish_head : forall r cap off bs, enc_publish cap r = SOk off bs ->
  exists flags t, bs = (3 * 16 + flags mod 16) :: t.
Proof. intros r cap off bs H. apply encode_chunks_payload_spec in H. destruct H as [_ [_ [_ [t Ht]]]]. exists (publish_flags r), t. exact Ht. Qed.

Lemma Q_publish_middle : forall s live r, Inv s -> Q s -> Q (fst (publish_middle s live r)).
Proof.
  intros s live r I H. unfold publish_middle. destruct (negb (props_valid_for _ _)); [exact H|].
  destruct (effective_qos s (pr_qos r)) eqn:Eq.
  - destruct (negb _); [exact H|].
    assert (Hc : Q (set_ob s (compact (s_ob s)))).
    { eapply Q_frame; [| | |exact H]; cbn [set_ob s_ob s_rt]; [apply U_compact; apply I|reflexivity|reflexivity]. }
    destruct (enc_publish _ _); cbn [fst]; [|exact Hc].
    destruct (too_large _ _); cbn [fst]; [exact Hc|]. destruct (negb live); exact Hc.
  - destruct (next_packet_id s) as [s1 id] eqn:En.
    destruct (next_packet_id_fresh s s1 id (inv_ob _ I) (inv_pid _ I) En) as [Hok [Hn [Hp Hs1]]].
    assert (I1 : Inv s1) by (rewrite Hs1; apply Inv_pid; assumption).
    assert (Hob : s_ob s1 = s_ob s) by (rewrite Hs1; reflexivity).
    assert (Hrt : s_rt s1 = s_rt s) by (rewrite Hs1; reflexivity).
    assert (H1 : Q s1) by (eapply Q_frame; [| | |exact H]; rewrite ?Hob, ?Hrt; reflexivity).
    destruct (retained_full _); [exact H1|].
    destruct (live && sess_can_publish s1 Q1) eqn:Ecp; cbn [negb]; [|exact H1].
    match goal with |- context [encode_at (s_ob s1) ?f] => set (enc := f) end.
    assert (Hfits : forall cap off' bs, enc cap = SOk off' bs -> off' + lenN bs <= cap /\ 2 <= lenN bs).
    { intros cap off' bs Hx. eapply enc_publish_fits. exact Hx. }
    destruct (encode_at (s_ob s1) enc) as [o1 er] eqn:Ee.
    pose proof (U_encode_at (s_ob s1) enc (inv_ob _ I1) Hfits) as HU1. rewrite Ee in HU1. cbn [fst] in HU1.
    assert (Qo1 : Q (set_ob s1 o1)) by (eapply Q_frame; [| | |exact H1]; cbn [set_ob s_ob s_rt]; [exact HU1|reflexivity|reflexivity]).
    destruct er as [off len|e]; cbn [fst]; [|exact Qo1].
    destruct (too_large _ _); cbn [fst]; [exact Qo1|].
    destruct (retain_packet o1 id off len) as [o2|] eqn:Er; cbn [fst]; [|exact Qo1].
    destruct (U_retain (s_ob s1) enc o1 off len id o2 (inv_ob _ I1) Hfits Ee Er) as [bs [cap [off' [Hb HU2]]]];
      [rewrite Hob; exact Hn | exact Hok |].
    destruct (enc_publish_head _ _ _ _ Hb) as [flags [t Hbs]]. rewrite Hbs, head_type in HU2 by lia.
    change (3 =? 3) with true in HU2. cbv iota in HU2.
    assert (Hq : rt_quota (s_rt s1) <> 0).
    { apply andb_true_iff in Ecp. destruct Ecp as [_ Ecp]. cbn [sess_can_publish] in Ecp.
      apply andb_true_iff in Ecp. destruct Ecp as [Ecp _]. destruct (N.eqb_spec (rt_quota (s_rt s1)) 0); [discriminate|assumption]. }
    destruct H1 as [A B]. unfold Q. cbn [set_rt set_ob s_ob s_rt rt_with_quota rt_quota rt_maxquota].
    unfold U in HU2. split; lia.
  - destruct (next_packet_id s) as [s1 id] eqn:En.
    destruct (next_packet_id_fresh s s1 id (inv_ob _ I) (inv_pid _ I) En) as [Hok [Hn [Hp Hs1]]].
    assert (I1 : Inv s1) by (rewrite Hs1; apply Inv_pid; assumption).
    assert (Hob : s_ob s1 = s_ob s) by (rewrite Hs1; reflexivity).
    assert (Hrt : s_rt s1 = s_rt s) by (rewrite Hs1; reflexivity).
    assert (H1 : Q s1) by (eapply Q_frame; [| | |exact H]; rewrite ?Hob, ?Hrt; reflexivity).
    destruct (retained_full _); [exact H1|].
    destruct (live && sess_can_publish s1 Q2) eqn:Ecp; cbn [negb]; [|exact H1].
    match goal with |- context [encode_at (s_ob s1) ?f] => set (enc := f) end.
    assert (Hfits : forall cap off' bs, enc cap = SOk off' bs -> off' + lenN bs <= cap /\ 2 <= lenN bs).
    { intros cap off' bs Hx. eapply enc_publish_fits. exact Hx. }
    destruct (encode_at (s_ob s1) enc) as [o1 er] eqn:Ee.
    pose proof (U_encode_at (s_ob s1) enc (inv_ob _ I1) Hfits) as HU1. rewrite Ee in HU1. cbn [fst] in HU1.
    assert (Qo1 : Q (set_ob s1 o1)) by (eapply Q_frame; [| | |exact H1]; cbn [set_ob s_ob s_rt]; [exact HU1|reflexivity|reflexivity]).
    destruct er as [off len|e]; cbn [fst]; [|exact Qo1].
    destruct (too_large _ _); cbn [fst]; [exact Qo1|].
    destruct (retain_packet o1 id off len) as [o2|] eqn:Er; cbn [fst]; [|exact Qo1].
    destruct (U_retain (s_ob s1) enc o1 off len id o2 (inv_ob _ I1) Hfits Ee Er) as [bs [cap [off' [Hb HU2]]]];
      [rewrite Hob; exact Hn | exact Hok |].
    destruct (enc_publish_head _ _ _ _ Hb) as [flags [t Hbs]]. rewrite Hbs, head_type in HU2 by lia.
    change (3 =? 3) with true in HU2. cbv iota in HU2.
    assert (Hq : rt_quota (s_rt s1) <> 0).
    { apply andb_true_iff in Ecp. destruct Ecp as [_ Ecp]. cbn [sess_can_publish] in Ecp.
      apply andb_true_iff in Ecp. destruct Ecp as [Ecp _]. destruct (N.eqb_spec (rt_quota (s_rt s1)) 0); [discriminate|assumption]. }
    destruct H1 as [A B]. unfold Q. cbn [set_rt set_ob s_ob s_rt rt_with_quota rt_quota rt_maxquota].
    unfold U in HU2. split; lia.
Qed.

Lemma connack_props_quota : forall its lq a a', connack_props its lq a = Some a' ->
  ca_quota a = ca_maxquota a -> ca_quota a' = ca_maxquota a'.
Proof.
  induction its as [|it t IH]; intros lq a a' H Ha; cbn [connack_props] in H; [inversion H; subst; exact Ha|].
  destruct it as [p|]; [|discriminate].
  destruct (pk p); try (eapply IH; [exact H | exact Ha]);
    repeat match type of H with (if ?c then _ else _) = _ => destruct c; [try discriminate|] | (match ?c with _ => _ end) = _ => destruct c; try discriminate end;
    eapply IH; try exact H; cbn [ca_quota ca_maxquota]; try exact Ha; reflexivity.
Qed.

Lemma Q_connack : forall s p now, Inv s -> Q s -> label_ok (connack_label s p now) = true ->
  Q (fst (connack_process s p now)).
Proof.
  intros s p now I H Hl. unfold connack_label in Hl. unfold connack_process in *.
  destruct p as [p|]; [|exact H]. destruct p; try exact H.
  destruct (negb (rc_success rc)); [exact H|].
  destruct (connack_props _ _ _) as [a|] eqn:Ea; cbn [fst snd] in *; [|exact H].
  pose proof (connack_props_quota _ _ _ _ Ea eq_refl) as Hqa.
  unfold Q. cbn [s_rt s_ob rt_quota rt_maxquota rt_with_timers note_outbound_activity].
  destruct sp; cbn [label_ok] in Hl.
  - cbn [s_ob s_rt rt_maxquota rt_with_timers note_outbound_activity] in Hl. split; lia.
  - cbn [data_reset s_ob]. change (unresolved_publishes (ob_clear (s_ob s))) with 0. split; lia.
Qed.

Theorem Q_step : forall s l s', sstep s l s' -> Inv s -> Q s -> label_ok l = true -> Q s'.
Proof.
  intros s l s' H I Hq Hl. inversion H; subst; clear H.
  - (* hd *) unfold sess_handle_disconnect. apply (Q_frame s); [| | |exact Hq]; cbn [set_reader set_rt set_ob s_ob s_rt reset_transport rt_quota rt_maxquota];
      [apply U_arm_replay; apply I|reflexivity|reflexivity].
  - (* ping *) unfold maybe_queue_pingreq. destruct (should_queue_pingreq _ _); [|exact Hq].
    destruct (check_control_size _ _); [exact Hq|]. destruct (queue_control (s_ob s) CPing) as [o|] eqn:E; cbn [fst]; [|exact Hq].
    apply (Q_frame s); [| | |exact Hq]; cbn [set_ob s_ob s_rt]; [eapply U_queue_control; exact E|reflexivity|reflexivity].
  - (* written *) apply (Q_frame s); [apply U_set_written; exact I| | |exact Hq];
      unfold set_written; (destruct p; [destruct (set_control_written _ _ _ _)|destruct (set_release_written _ _ _ _)|destruct (set_retained_written _ _ _ _)]); reflexivity.
  - (* flushed *) destruct (complete_flush_quota s p now) as [E1 E2].
    apply (Q_frame s); [apply U_complete_flush; exact I|exact E1|exact E2|exact Hq].
  - exact Hq.
  - cbn [label_ok] in Hl. now apply Q_handle_packet.
  - now apply Q_publish_middle.
  - unfold subscribe_middle. eapply (Q_enqueue_middle s 2 _ 8); try assumption; try lia.
    intros id cap off bs Hx. eapply enc_subscribe_head. exact Hx.
  - unfold unsubscribe_middle. eapply (Q_enqueue_middle s 3 _ 10); try assumption; try lia.
    intros id cap off bs Hx. eapply enc_unsubscribe_head. exact Hx.
  - exact Hq.
  - exact Hq.
  - exact Hq.
  - apply (Q_frame s); [| | |exact Hq]; cbn [set_ob s_ob s_rt]; [apply U_arm_replay; apply I|reflexivity|reflexivity].
  - apply (Q_frame s); [| | |exact Hq]; cbn [set_ob s_ob s_rt]; [apply U_compact; apply I|reflexivity|reflexivity].
  - now apply Q_connack.
  - exact Hq.
Qed.

(* ---------- consequences used by C06 / C03 ---------- *)
Definition P8 (s : session) : Prop := rt_maxquota (s_rt s) <= 8.

Lemma connack_props_max : forall its lq a a', connack_props its lq a = Some a' ->
  ca_maxquota a <= lq -> ca_maxquota a' <= lq.
Proof.
  induction its as [|it t IH]; intros lq a a' H Ha; cbn [connack_props] in H; [inversion H; subst; exact Ha|].
  destruct it as [p|]; [|discriminate].
  destruct (pk p); try (eapply IH; [exact H | exact Ha]);
    repeat match type of H with (if ?c then _ else _) = _ => destruct c; [try discriminate|] | (match ?c with _ => _ end) = _ => destruct c; try discriminate end;
    eapply IH; try exact H; cbn [ca_quota ca_maxquota]; try exact Ha; lia.
Qed.

Lemma queue_ctl_checked_rt : forall s a d, s_rt (fst (queue_ctl_checked s a d)) = s_rt s.
Proof.
  intros. unfold queue_ctl_checked. destruct (check_control_size _ _); [reflexivity|].
  destruct (queue_control _ _); reflexivity.
Qed.

Lemma quota_inc_max : forall r, rt_maxquota (quota_inc r) = rt_maxquota r.
Proof. reflexivity. Qed.

Lemma handle_packet_maxquota : forall s p, rt_maxquota (s_rt (fst (handle_packet s p))) = rt_maxquota (s_rt s).
Proof.
  intros s p. destruct p; cbn [handle_packet]; try reflexivity.
  - destruct q; [reflexivity| |]; destruct pid; try reflexivity.
    + now rewrite queue_ctl_checked_rt.
    + q2_split; now rewrite queue_ctl_checked_rt.
  - destruct (ack_packet _ _) as [o f]. destruct f; cbn [negb]; [|reflexivity]. destruct (rc_success _); reflexivity.
  - destruct (ack_packet _ _) as [o f]. destruct f.
    + destruct (negb _); [reflexivity|]. destruct (check_pubrel_size _ _ _); [reflexivity|]. destruct (queue_release _ _ _); reflexivity.
    + destruct (has_pending_release _ _); [destruct (rc_success _)|]; reflexivity.
  - destruct (swap_remove_id _ _); now rewrite queue_ctl_checked_rt.
  - destruct (ack_release _ _) as [o f]. destruct f; cbn [negb]; [|reflexivity]. destruct (rc_success _); reflexivity.
  - destruct (ack_packet _ _) as [o f]. destruct f; cbn [negb]; [|reflexivity]. destruct (all_success _); reflexivity.
  - destruct (ack_packet _ _) as [o f]. destruct f; cbn [negb]; [|reflexivity]. destruct (all_success _); reflexivity.
Qed.

Lemma next_packet_id_rt : forall s, s_rt (fst (next_packet_id s)) = s_rt s.
Proof. intros. unfold next_packet_id. destruct (next_packet_id_go _ _ _). reflexivity. Qed.

Lemma enqueue_middle_maxquota : forall s k enc, rt_maxquota (s_rt (fst (enqueue_middle s k enc))) = rt_maxquota (s_rt s).
Proof.
  intros. unfold enqueue_middle. destruct (retained_full _); [reflexivity|].
  pose proof (next_packet_id_rt s) as Hn. destruct (next_packet_id s) as [s1 id]. cbn [fst] in Hn.
  destruct (encode_at _ _) as [o1 er]. destruct er; cbn [fst set_ob s_rt]; [|now rewrite Hn].
  destruct (too_large _ _); cbn [fst set_ob s_rt]; [now rewrite Hn|].
  destruct (retain_packet _ _ _ _); cbn [fst set_ob s_rt]; now rewrite Hn.
Qed.

Lemma publish_middle_maxquota : forall s live r, rt_maxquota (s_rt (fst (publish_middle s live r))) = rt_maxquota (s_rt s).
Proof.
  intros. unfold publish_middle. destruct (negb (props_valid_for _ _)); [reflexivity|].
  destruct (effective_qos _ _).
  - destruct (negb _); [reflexivity|]. destruct (enc_publish _ _); cbn [fst set_ob s_rt]; [|reflexivity].
    destruct (too_large _ _); [reflexivity|]. destruct (negb live); reflexivity.
  - pose proof (next_packet_id_rt s) as Hn. destruct (next_packet_id s) as [s1 id]. cbn [fst] in Hn.
    destruct (retained_full _); cbn [fst]; [now rewrite Hn|]. destruct (negb _); cbn [fst]; [now rewrite Hn|].
    destruct (encode_at _ _) as [o1 er]. destruct er; cbn [fst set_ob s_rt]; [|now rewrite Hn].
    destruct (too_large _ _); cbn [fst set_ob s_rt]; [now rewrite Hn|].
    destruct (retain_packet _ _ _ _); cbn [fst set_ob set_rt s_rt rt_with_quota rt_maxquota]; now rewrite Hn.
  - pose proof (next_packet_id_rt s) as Hn. destruct (next_packet_id s) as [s1 id]. cbn [fst] in Hn.
    destruct (retained_full _); cbn [fst]; [now rewrite Hn|]. destruct (negb _); cbn [fst]; [now rewrite Hn|].
    destruct (encode_at _ _) as [o1 er]. destruct er; cbn [fst set_ob s_rt]; [|now rewrite Hn].
    destruct (too_large _ _); cbn [fst set_ob s_rt]; [now rewrite Hn|].
    destruct (retain_packet _ _ _ _); cbn [fst set_ob set_rt s_rt rt_with_quota rt_maxquota]; now rewrite Hn.
Qed.

Lemma P8_step : forall s l s', sstep s l s' -> P8 s -> P8 s'.
Proof.
  intros s l s' H Hp. unfold P8 in *. inversion H; subst; clear H; try exact Hp.
  - unfold maybe_queue_pingreq. destruct (should_queue_pingreq _ _); [|exact Hp]. destruct (check_control_size _ _); [exact Hp|].
    destruct (queue_control _ _); exact Hp.
  - unfold set_written. destruct p; [destruct (set_control_written _ _ _ _)|destruct (set_release_written _ _ _ _)|destruct (set_retained_written _ _ _ _)]; exact Hp.
  - destruct (complete_flush_quota s p now) as [_ E]. now rewrite E.
  - now rewrite handle_packet_maxquota.
  - now rewrite publish_middle_maxquota.
  - unfold subscribe_middle. now rewrite enqueue_middle_maxquota.
  - unfold unsubscribe_middle. now rewrite enqueue_middle_maxquota.
  - unfold connack_process. destruct p as [p|]; [|exact Hp]. destruct p; try exact Hp.
    destruct (negb _); [exact Hp|]. destruct (connack_props _ _ _) as [a|] eqn:E; [|exact Hp].
    cbn [fst s_rt rt_maxquota rt_with_timers note_outbound_activity].
    apply connack_props_max in E; cbn [ca_maxquota] in *; unfold MAX_RETAINED, MAX_PENDING_RELEASE in *; lia.
Qed.

Lemma connack_establishes_P8 : forall s p now resumed,
  snd (connack_process s p now) = CAOk resumed -> P8 (fst (connack_process s p now)).
Proof.
  intros s p now resumed H. unfold connack_process in *. destruct p as [p|]; [|discriminate]. destruct p; try discriminate.
  destruct (negb _); [discriminate|]. destruct (connack_props _ _ _) as [a|] eqn:E; [|discriminate].
  unfold P8. cbn [fst s_rt rt_maxquota rt_with_timers note_outbound_activity].
  apply connack_props_max in E; cbn [ca_maxquota] in *; unfold MAX_RETAINED, MAX_PENDING_RELEASE in *; lia.
Qed.

(* no QoS 2 exchange is dropped for lack of room in the release list *)
Lemma pubrec_never_exhausted : forall s pid rc,
  Inv s -> Q s -> P8 s -> ack_type_ok s (RPubRec pid rc) = true ->
  snd (handle_packet s (RPubRec pid rc)) <> HErr EInflightExhausted.
Proof.
  intros s pid rc I [Hq Hu] Hp Hok. cbn [handle_packet].
  destruct (ack_packet (s_ob s) pid) as [o found] eqn:E. destruct found.
  - pose proof (U_ack_packet _ _ _ (inv_ob _ I) E) as HU. unfold U in HU.
    cbn [ack_type_ok] in Hok. unfold pub_of in HU.
    destruct (find (fun e => N.eqb (re_pid e) pid) (ob_ret (s_ob s))) as [e|] eqn:Ef.
    + rewrite Hok in HU.
      destruct (negb (rc_success rc)); cbn [snd]; [discriminate|].
      destruct (check_pubrel_size _ _ _) as [e0|] eqn:Ec; cbn [snd].
      * unfold check_pubrel_size in Ec. destruct (encode_pubrel pid 0) as [n b|se].
        -- destruct (too_large _ _); inversion Ec; subst; discriminate.
        -- inversion Ec; subst. destruct se; discriminate.
      * cbn [set_ob s_ob]. unfold queue_release.
        assert (glen (ob_rel o) < 8).
        { unfold P8 in Hp. unfold unresolved_publishes in HU at 2. lia. }
        unfold MAX_PENDING_RELEASE. destruct (N.leb_spec 8 (glen (ob_rel o))); [lia|]. cbn [snd]. discriminate.
    + exfalso. unfold ack_packet in E.
      assert (remove_first_ret pid (ob_ret (s_ob s)) = None).
      { clear - Ef. induction (ob_ret (s_ob s)) as [|x t IH]; cbn [remove_first_ret find] in *; [reflexivity|].
        destruct (N.eqb (re_pid x) pid); [discriminate|]. now rewrite IH. }
      rewrite H in E. discriminate.
  - destruct (has_pending_release _ _); [destruct (rc_success rc)|]; cbn [snd]; discriminate.
Qed.

(* a publish beyond the window is refused with NotReady and leaves the outbound state and the quota untouched *)
Lemma publish_refused_no_quota : forall s r,
  props_valid_for (pr_props r) CtxPublish = true -> effective_qos s (pr_qos r) <> Q0 ->
  retained_full (s_ob s) = false -> rt_quota (s_rt s) = 0 ->
  exists p, publish_middle s true r = (set_pid s p, MErr ENotReady).
Proof.
  intros s r Hv Hq Hf H0. unfold publish_middle. rewrite Hv. cbn [negb].
  destruct (effective_qos s (pr_qos r)) eqn:Eq; [contradiction| |];
    unfold next_packet_id; destruct (next_packet_id_go 17 (s_ob s) (s_pid s)) as [nxt id];
    cbn [set_pid s_ob s_rt]; rewrite Hf; cbn [sess_can_publish s_rt set_pid]; rewrite H0; cbn [andb negb N.eqb];
    change (0 =? 0) with true; cbn [negb andb]; eexists; reflexivity.
Qed.
