(* ReplyProofs.v — C20: the reply helpers address exactly the requester. *)
From Coq Require Import Arith ZArith Lia ZifyBool ZifyN ZifyNat.
From Minimq Require Import Util Bytes Varint Utf8 Props Ser De Reply VarintProofs SerLemmas CodecProofs.

Definition is_kind (k : pkind) (p : prop) : bool := N.eqb (kind_id (pk p)) (kind_id k).

(* first_data over fully decoded items = the first property of that kind *)
Lemma first_data_find : forall k ps,
  first_data k (map Some ps) = option_map pdata (find (is_kind k) ps).
Proof.
  intros k ps. induction ps as [|p t IH]; cbn [map first_data find option_map]; [reflexivity|].
  unfold is_kind at 1. destruct (N.eqb (kind_id (pk p)) (kind_id k)); [reflexivity|exact IH].
Qed.

(* an inbound PUBLISH whose property block encodes the list ps: the helpers see the FIRST Response Topic and the
   FIRST Correlation Data of ps, wherever they stand among the other properties *)
Theorem inbound_targets : forall ps block,
  encode_all ps = Some block -> forallb prop_wf ps = true -> forallb prop_canon ps = true ->
  response_topic (PEncoded block) = option_map pdata (find (is_kind KResponseTopic) ps) /\
  correlation_data (PEncoded block) = option_map pdata (find (is_kind KCorrelationData) ps).
Proof.
  intros ps block He Hw Hc. unfold response_topic, correlation_data, props_iter.
  rewrite (props_iter_roundtrip ps block He Hw Hc). split; apply first_data_find.
Qed.

(* reply(): to exactly that topic, carrying exactly that correlation data, also after user properties are added;
   nothing is offered without a response topic *)
Theorem reply_spec : forall inbound user,
  match response_topic inbound with
  | None => reply_with inbound user = None
  | Some t =>
      reply_with inbound user =
      Some {| rp_topic := t;
              rp_props := match correlation_data inbound with
                          | Some c => PWithCorr (mkprop KCorrelationData 0 c []) user
                          | None => PSlice user
                          end |}
  end.
Proof.
  intros inbound user. unfold reply_with, reply. destruct (response_topic inbound) as [t|]; [|reflexivity].
  destruct (correlation_data inbound); reflexivity.
Qed.

(* what the application iterates / what goes on the wire: the correlation data first, then exactly the user's list *)
Lemma reply_props_iter : forall c user,
  props_iter (PWithCorr (mkprop KCorrelationData 0 c []) user) = Some (mkprop KCorrelationData 0 c []) :: map Some user.
Proof. reflexivity. Qed.

Lemma with_corr_chunks : forall c l, c_properties (PWithCorr c l) = c_properties (PSlice (c :: l)).
Proof.
  intros c l. unfold c_properties. cbn [props_size map sumN flat_map]. f_equal. f_equal. lia.
Qed.

(* the reply, encoded and read back, is a PUBLISH to the response topic whose properties are the correlation data
   followed by the user's properties *)
Theorem reply_on_the_wire : forall t c user cap off bs block,
  enc_publish cap {| pq_topic := t; pq_pid := None; pq_props := PWithCorr (mkprop KCorrelationData 0 c []) user;
                     pq_retain := false; pq_qos := Q0; pq_dup := false; pq_payload := [114] |} = SOk off bs ->
  encode_all (mkprop KCorrelationData 0 c [] :: user) = Some block -> utf8_valid t = true ->
  from_buffer bs = Some (RPublish t None Q0 false false block [114]).
Proof.
  intros t c user cap off bs block He Hb Hu.
  apply (publish_roundtrip cap {| pq_topic := t; pq_pid := None; pq_props := PSlice (mkprop KCorrelationData 0 c [] :: user);
                                  pq_retain := false; pq_qos := Q0; pq_dup := false; pq_payload := [114] |} off bs
                           (mkprop KCorrelationData 0 c [] :: user) block); try reflexivity; try assumption.
  - unfold enc_publish, publish_chunks in *. cbn [pq_topic pq_pid pq_props pq_payload] in *.
    rewrite with_corr_chunks in He. exact He.
Qed.

(* the owned copy: exactly the two values when they fit the requested capacities, an error otherwise, never a
   truncated copy; none without a response topic *)
Theorem reply_owned_spec : forall inbound T C,
  match response_topic inbound with
  | None => reply_owned inbound T C = OwnNone
  | Some t =>
      if (lenN t <=? T) && match correlation_data inbound with Some c => lenN c <=? C | None => true end
      then reply_owned inbound T C = OwnOk t (correlation_data inbound)
      else reply_owned inbound T C = OwnErr
  end.
Proof.
  intros inbound T C. unfold reply_owned. destruct (response_topic inbound) as [t|]; [|reflexivity].
  destruct (N.ltb_spec T (lenN t)); destruct (N.leb_spec (lenN t) T); try lia; cbn [andb]; [reflexivity|].
  destruct (correlation_data inbound) as [c|]; [|reflexivity].
  destruct (N.ltb_spec C (lenN c)); destruct (N.leb_spec (lenN c) C); try lia; reflexivity.
Qed.

(* the publication built later from the owned copy is the one reply() would have built from the borrowed packet:
   same topic, same correlation data, the user's properties after it *)
Theorem owned_publication_is_reply : forall inbound T C t c user,
  reply_owned inbound T C = OwnOk t c ->
  reply_with inbound user = Some (owned_publication t c user).
Proof.
  intros inbound T C t c user H. unfold reply_owned in H. unfold reply_with, reply, owned_publication.
  destruct (response_topic inbound) as [t0|]; [|discriminate H].
  destruct (T <? lenN t0); [discriminate H|].
  destruct (correlation_data inbound) as [c0|].
  - destruct (C <? lenN c0); [discriminate H|]. injection H as Ht Hc. subst t c. reflexivity.
  - injection H as Ht Hc. subst t c. reflexivity.
Qed.
