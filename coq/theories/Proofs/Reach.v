(* Reach.v — the invariant holds in every world reachable by any program under any script. *)
From Coq Require Import Arith ZArith Lia.
From Minimq Require Import Util Bytes Varint Utf8 Props Ser De Reader Arena Core Show Machine Parse Run.
From Minimq Require Import Lts Refine ArenaLemmas SerLemmas ArenaOps Inv Quota Cap.

Lemma Inv_step : forall s l s', sstep s l s' -> Inv s -> Inv s'.
Proof.
  intros s l s' H I. inversion H; subst; clear H.
  - now apply Inv_hd.
  - now apply Inv_ping.
  - now apply Inv_set_written.
  - now apply Inv_complete_flush.
  - now apply Inv_reader.
  - now apply Inv_handle_packet.
  - now apply Inv_publish_middle.
  - unfold subscribe_middle. apply Inv_enqueue_middle; [|exact I]. intros. eapply enc_subscribe_fits; eassumption.
  - unfold unsubscribe_middle. apply Inv_enqueue_middle; [|exact I]. intros. eapply enc_unsubscribe_fits; eassumption.
  - now apply Inv_rt.
  - now apply Inv_rt.
  - now apply Inv_rt.
  - apply Inv_ob; [exact I|]. apply OInv_arm_replay. apply I.
  - apply Inv_ob; [exact I|]. apply OInv_compact. apply I.
  - now apply Inv_connack.
  - now apply Inv_pid.
Qed.

Lemma Inv_sreach : forall s s', sreach s s' -> Inv s -> Inv s'.
Proof. intros s s' [ls H]. eapply spath_inv; [|exact H]. intros. eapply Inv_step; eassumption. Qed.

Lemma Inv_wq : forall w w', wq w w' -> Inv (w_sess w) -> Inv (w_sess w').
Proof. intros w w' H. apply Inv_sreach. now apply wq_sreach. Qed.

(* a successful resumed CONNACK does not touch the outbound state *)
Lemma connack_resumed_ob : forall s p now s', connack_process s p now = (s', CAOk true) -> s_ob s' = s_ob s.
Proof.
  intros s p now s' H. unfold connack_process in H. destruct p as [p|]; [|inversion H]. destruct p; try (inversion H; fail).
  destruct (negb (rc_success rc)); [inversion H|].
  destruct (connack_props _ _ _); [|inversion H]. destruct sp; inversion H; subst. reflexivity.
Qed.

(* connect: the same statement as for every other operation - a path of LTS steps whose environment flags are
   exactly what the ghost flag of the world records *)
Lemma op_connect_wq : forall fuel w, wq w (fst (op_connect fuel w)).
Proof.
  intros fuel w. unfold op_connect.
  set (s0 := w_sess w).
  set (s1 := set_ob (set_rt (set_reader s0 (reader_reset (s_reader s0))) (reset_transport (s_rt s0))) (arm_replay (s_ob s0))).
  set (s2 := set_ob s1 (compact (s_ob s1))).
  assert (Hstep1 : forall (x : world) (s' : session) (l : slabel),
            sstep (w_sess x) l s' -> label_ok l = true -> wq x (upd_sess x s')).
  { intros x s' l Hs Hl. eapply wq_step; [wsimpl; exact Hs | exact Hl | reflexivity]. }
  set (sa := set_reader s0 (reader_reset (s_reader s0))).
  set (sb := set_rt sa (reset_transport (s_rt s0))).
  assert (R02 : wq w (upd_sess w s2)).
  { eapply (wq_trans _ (upd_sess w sa)); [apply (Hstep1 w sa LOther); [apply SS_reader|reflexivity]|].
    eapply (wq_trans _ (upd_sess w sb)); [apply (Hstep1 (upd_sess w sa) sb LOther); [apply (SS_reset_transport sa)|reflexivity]|].
    eapply (wq_trans _ (upd_sess w s1)); [apply (Hstep1 (upd_sess w sb) s1 LOther); [apply (SS_arm_replay sb)|reflexivity]|].
    apply (Hstep1 (upd_sess w s1) s2 LOther); [apply (SS_compact s1)|reflexivity]. }
  change (set_ob s1 (compact (s_ob s1))) with s2.
  destruct (enc_connect _ _) as [off bs|e]; cbn [fst]; [|exact R02].
  unfold direct_send.
  pose proof (write_all_wq fuel bs (upd_sess w s2)) as Hw.
  destruct (write_all fuel bs (upd_sess w s2)) as [w3 r3]. cbn [fst] in Hw.
  assert (R3 : wq w w3) by (eapply wq_trans; eassumption).
  destruct r3; cbn [bindu fst]; try exact R3.
  pose proof (io_flush_sess w3) as Hf. destruct (io_flush w3) as [w4 fr]. cbn [fst] in Hf.
  assert (R4 : wq w w4) by (eapply wq_trans; [exact R3 | apply wq_same; exact Hf]).
  destruct fr; cbn [bindu fst]; try exact R4.
  cbv beta zeta.
  set (w5 := upd_sess w4 (set_rt (w_sess w4) (rt_with_timers (s_rt (w_sess w4)) None None))).
  assert (R5 : wq w w5).
  { eapply wq_trans; [exact R4|]. unfold w5. qstep0. }
  pose proof (fill_wq fuel None w5) as Hfill. destruct (fill_packet_reader fuel None w5) as [w6 fr6]. cbn [fst] in Hfill.
  assert (R6 : wq w w6) by (eapply wq_trans; eassumption).
  assert (Rhd : forall w', wq w w' -> wq w (sess_hd w')).
  { intros w' Hr. eapply wq_trans; [exact Hr|]. qstep0. }
  destruct fr6; cbn [fst]; try exact R6; try (apply Rhd; exact R6).
  destruct (take_packet (s_reader (w_sess w6))) as [[[r' pl] p]|]; cbn [fst]; [|apply Rhd; exact R6].
  set (s7 := set_reader (w_sess w6) r').
  assert (R7 : wq w (upd_sess w6 s7)) by (eapply wq_trans; [exact R6|]; qstep0).
  destruct (connack_process s7 p (w_now w6)) as [s8 cr] eqn:Ec.
  pose proof (SS_connack s7 p (w_now w6)) as Hstep. unfold connack_label in Hstep. rewrite Ec in Hstep. cbn [fst snd] in Hstep.
  destruct cr as [resumed|e d]; cbn [fst].
  - eapply wq_trans; [exact R7|].
    exists (label_ok (LConnack resumed (if resumed then unresolved_publishes (s_ob s7) else 0) (rt_maxquota (s_rt s8)))).
    split; [wsimpl; apply ereach_step; exact Hstep|].
    wsimpl. cbn [label_ok]. destruct resumed; [|reflexivity].
    now rewrite (connack_resumed_ob _ _ _ _ Ec).
  - assert (R8 : wq w (upd_sess w6 s8)).
    { eapply wq_trans; [exact R7|]. eapply wq_step; [wsimpl; exact Hstep|reflexivity|reflexivity]. }
    destruct d; [apply Rhd; exact R8 | exact R8].
Qed.

(* ---------- every action of a program is a path of the LTS ---------- *)
Lemma feed_same : forall w d b, w_sess (feed w d b) = w_sess w /\ w_envok (feed w d b) = w_envok w.
Proof. intros. unfold feed. destruct b; split; reflexivity. Qed.

Lemma record_op_same : forall w o, w_sess (record_op w o) = w_sess w /\ w_envok (record_op w o) = w_envok w.
Proof. intros. unfold record_op. destruct o as [[h|]| | | |]; split; reflexivity. Qed.

Lemma fold_feed_same : forall chunks w,
  w_sess (fold_left (fun w c => feed w (fst c) (snd c)) chunks w) = w_sess w /\
  w_envok (fold_left (fun w c => feed w (fst c) (snd c)) chunks w) = w_envok w.
Proof.
  induction chunks as [|c t IH]; intros w; cbn [fold_left]; [split; reflexivity|].
  destruct (IH (feed w (fst c) (snd c))) as [H1 H2]. destruct (feed_same w (fst c) (snd c)) as [H3 H4].
  rewrite H1, H2. split; assumption.
Qed.

Lemma wq_log : forall w w' l, wq w w' -> wq w (upd_log w' l).
Proof. intros w w' l H. eapply wq_trans; [exact H|]. apply wq_same. split; reflexivity. Qed.

Lemma run_action_wq : forall a w, wq w (run_action a w).
Proof.
  intros a w. destruct a; cbn [run_action].
  - match goal with |- context [op_connect FUEL ?x] => set (w1 := x) end.
    assert (H1 : wq w w1).
    { apply wq_same. unfold w1.
      match goal with |- context [fold_left ?f chunks ?x] => destruct (fold_feed_same chunks x) as [F1 F2] end.
      rewrite F1, F2. split; reflexivity. }
    pose proof (op_connect_wq FUEL w1) as Hr. destruct (op_connect FUEL w1) as [w2 r]. cbn [fst] in Hr.
    apply wq_log. eapply wq_trans; [exact H1|]. eapply wq_trans; [exact Hr|].
    destruct r; apply wq_same; split; reflexivity.
  - destruct (negb (w_conn w)); [apply wq_log, wq_refl|].
    pose proof (op_publish_wq FUEL r w) as Hq. destruct (op_publish FUEL r w) as [w1 o]. cbn [fst] in Hq.
    apply wq_log. eapply wq_trans; [exact Hq|]. apply wq_same. apply record_op_same.
  - destruct (negb (w_conn w)); [apply wq_log, wq_refl|].
    pose proof (op_subscribe_wq FUEL topics ps w) as Hq. destruct (op_subscribe FUEL topics ps w) as [w1 o]. cbn [fst] in Hq.
    apply wq_log. eapply wq_trans; [exact Hq|]. apply wq_same. apply record_op_same.
  - destruct (negb (w_conn w)); [apply wq_log, wq_refl|].
    pose proof (op_unsubscribe_wq FUEL topics ps w) as Hq. destruct (op_unsubscribe FUEL topics ps w) as [w1 o]. cbn [fst] in Hq.
    apply wq_log. eapply wq_trans; [exact Hq|]. apply wq_same. apply record_op_same.
  - destruct (negb (w_conn w)); [apply wq_log, wq_refl|].
    pose proof (op_disconnect_wq FUEL d w) as Hq. destruct (op_disconnect FUEL d w) as [w1 o]. cbn [fst] in Hq.
    apply wq_log. exact Hq.
  - destruct (negb (w_conn w)); [apply wq_log, wq_refl|].
    pose proof (op_drive_wq FUEL w) as Hq. destruct (op_drive FUEL w) as [w1 o]. cbn [fst] in Hq. apply wq_log. exact Hq.
  - destruct (negb (w_conn w)); [apply wq_log, wq_refl|].
    pose proof (op_poll_wq FUEL w) as Hq. destruct (op_poll FUEL w) as [w1 o]. cbn [fst] in Hq. apply wq_log. exact Hq.
  - destruct (negb (w_conn w)); [apply wq_log, wq_refl|].
    pose proof (op_recv_wq FUEL w) as Hq. destruct (op_recv FUEL w) as [w1 o]. cbn [fst] in Hq. apply wq_log. exact Hq.
  - apply wq_log. apply wq_same. apply feed_same.
  - apply wq_log. apply wq_same. split; reflexivity.
  - apply wq_log. apply wq_same. split; reflexivity.
  - destruct (negb (w_conn w)); [apply wq_log, wq_refl|]. apply wq_log. apply hd_wq.
  - apply wq_log. apply wq_same. split; reflexivity.
  - destruct (w_conn w); [apply wq_log, wq_refl|]. apply wq_log.
    eapply wq_step; [wsimpl; apply SS_setpid | reflexivity | reflexivity].
    pose proof (N.mod_upper_bound pid 65536 ltac:(lia)). destruct (N.eqb_spec (pid mod 65536) 0); lia.
  - apply wq_log. apply wq_same. split; reflexivity.
Qed.

Lemma step_action_wq : forall w a, wq w (step_action w a).
Proof.
  intros w a. unfold step_action. destruct (halted w); [apply wq_refl|].
  match goal with |- context [run_action a ?x] => set (w0 := x) end.
  assert (H0 : wq w w0) by (apply wq_same; split; reflexivity).
  pose proof (run_action_wq a w0) as H1.
  pose proof (wq_trans _ _ _ H0 H1) as H2.
  cbv zeta. fold w0. destruct (halted (run_action a w0)); [exact H2|].
  eapply wq_trans; [exact H2|]. apply wq_same. split; reflexivity.
Qed.

(* the complete run of any program under any script is a path of the session LTS whose environment flags are
   recorded by the ghost flag *)
Theorem run_case_wq : forall c, wq (init_world c) (run_case c).
Proof.
  intros c. unfold run_case. generalize (init_world c) as w. induction (c_prog c) as [|a t IH]; intros w; cbn [fold_left].
  - apply wq_refl.
  - eapply wq_trans; [apply step_action_wq | apply IH].
Qed.

(* Every world reachable by any program under any script satisfies the invariant. *)
Theorem reachable_Inv : forall c, Inv (w_sess (run_case c)).
Proof. intros c. eapply Inv_wq; [apply run_case_wq|]. cbn [init_world w_sess]. apply Inv_init. Qed.

Corollary reachable_ids : forall c : case,
  NoDup (ids (s_ob (w_sess (run_case c)))) /\
  Forall (fun i => 1 <= i <= 65535) (ids (s_ob (w_sess (run_case c)))).
Proof. intros c. pose proof (reachable_Inv c) as [[_ _ _ _ N F] _ _]. exact (conj N F). Qed.

Corollary allocator_total : forall s s' id,
  OInv (s_ob s) -> id_ok (s_pid s) -> next_packet_id s = (s', id) -> id <> 0.
Proof.
  intros s s' id H1 H2 H3. destruct (next_packet_id_fresh s s' id H1 H2 H3) as [Hok _].
  unfold id_ok in Hok. lia.
Qed.

(* ---------- the Receive Maximum invariant on every reachable world (C06) ---------- *)
Lemma spath_Q : forall s ls s', spath s ls s' -> Inv s -> Q s -> forallb label_ok ls = true -> Inv s' /\ Q s'.
Proof.
  intros s ls s' H. induction H as [s|s l s1 ls s2 Hs Hp IH]; intros I Hq Hl; [split; assumption|].
  cbn [forallb] in Hl. apply andb_true_iff in Hl. destruct Hl as [Hl1 Hl2].
  apply IH; [eapply Inv_step; eassumption | eapply Q_step; eassumption | exact Hl2].
Qed.

Theorem reachable_Q : forall c, w_envok (run_case c) = true -> Q (w_sess (run_case c)).
Proof.
  intros c He. destruct (run_case_wq c) as [b [[ls [Hp Hf]] Hb]].
  cbn [init_world w_envok] in Hb. rewrite He in Hb.
  assert (Hbt : b = true) by (destruct b; [reflexivity|discriminate]). rewrite Hbt in Hf.
  assert (I0 : Inv (w_sess (init_world c))) by (cbn [init_world w_sess]; apply Inv_init).
  assert (Q0 : Q (w_sess (init_world c))).
  { unfold Q, unresolved_publishes.
    cbn [init_world w_sess session_new s_rt s_ob rt_new ob_new ob_ret ob_rel ob_buf rt_quota rt_maxquota filter glen]. lia. }
  exact (proj2 (spath_Q _ _ _ Hp I0 Q0 Hf)).
Qed.

(* ---------- the arena keeps its size in every reachable world (C17) ---------- *)
Lemma spath_Cap : forall s ls s', spath s ls s' -> Inv s -> CapInv s -> Inv s' /\ CapInv s'.
Proof.
  intros s ls s' H. induction H as [s|s l s1 ls s2 Hs Hp IH]; intros I Hc; [split; assumption|].
  apply IH; [eapply Inv_step; eassumption | eapply CapInv_step; eassumption].
Qed.

Theorem reachable_Cap : forall c, lenN (ob_buf (s_ob (w_sess (run_case c)))) = cf_tx (c_cfg c).
Proof.
  intros c. destruct (run_case_wq c) as [b [[ls [Hp _]] _]].
  assert (I0 : Inv (w_sess (init_world c))) by (cbn [init_world w_sess]; apply Inv_init).
  assert (C0 : CapInv (w_sess (init_world c))) by (cbn [init_world w_sess]; apply CapInv_init).
  destruct (spath_Cap _ _ _ Hp I0 C0) as [_ Hc]. unfold CapInv in Hc. rewrite Hc.
  (* the configuration never changes *)
  assert (G : forall s ls s', spath s ls s' -> Inv s -> s_cfg s' = s_cfg s).
  { clear. intros s ls s' H. induction H as [s|s l s1 ls s2 Hs Hp IH]; intros I; [reflexivity|].
    rewrite IH by (eapply Inv_step; eassumption).
    inversion Hs; subst; try reflexivity.
    - unfold maybe_queue_pingreq. destruct (should_queue_pingreq _ _); [|reflexivity]. destruct (check_control_size _ _); [reflexivity|].
      destruct (queue_control _ _); reflexivity.
    - unfold set_written. destruct p; [destruct (set_control_written _ _ _ _)|destruct (set_release_written _ _ _ _)|destruct (set_retained_written _ _ _ _)]; reflexivity.
    - unfold complete_flush. destruct p; [destruct (flush_control _ _)|destruct (flush_release _ _)|destruct (flush_retained _ _)]; reflexivity.
    - apply (handle_packet_cap s p I).
    - apply (publish_middle_cap s live r I).
    - unfold subscribe_middle. apply (enqueue_middle_cap s 2 _ (fun id c o b Hx => enc_subscribe_fits _ c o b Hx) I).
    - unfold unsubscribe_middle. apply (enqueue_middle_cap s 3 _ (fun id c o b Hx => enc_unsubscribe_fits _ c o b Hx) I).
    - unfold connack_process. destruct p as [p|]; [|reflexivity]. destruct p; try reflexivity.
      destruct (negb _); [reflexivity|]. destruct (connack_props _ _ _); [|reflexivity]. destruct sp; reflexivity. }
  rewrite (G _ _ _ Hp I0). reflexivity.
Qed.

Corollary reachable_arena_wf : forall c : case, arena_wf (s_ob (w_sess (run_case c))).
Proof. intros c. apply (oi_arena _ (inv_ob _ (reachable_Inv c))). Qed.
