(* Reach.v — the invariant holds in every world reachable by any program under any script. *)
From Coq Require Import Arith ZArith Lia.
From Minimq Require Import Util Bytes Varint Utf8 Props Ser De Reader Arena Core Show Machine Parse Run.
From Minimq Require Import Lts Refine ArenaLemmas SerLemmas ArenaOps Inv.

Lemma Inv_step : forall s l s', sstep s l s' -> Inv s -> Inv s'.
Proof.
  intros s l s' H I. inversion H; subst; clear H.
  - now apply Inv_hd.
  - now apply Inv_ping.
  - now apply Inv_set_written.
  - now apply Inv_complete_flush.
  - now apply Inv_reader.
  - now apply Inv_handle_packet.
  - now apply Inv_publish_middle.
  - unfold subscribe_middle. apply Inv_enqueue_middle; [|exact I]. intros. eapply enc_subscribe_fits; eassumption.
  - unfold unsubscribe_middle. apply Inv_enqueue_middle; [|exact I]. intros. eapply enc_unsubscribe_fits; eassumption.
  - now apply Inv_rt.
  - now apply Inv_rt.
  - apply Inv_ob; [exact I|]. apply OInv_arm_replay. apply I.
  - apply Inv_ob; [exact I|]. apply OInv_compact. apply I.
  - now apply Inv_connack.
  - now apply Inv_pid.
Qed.

Lemma Inv_wq : forall w w', wq w w' -> Inv (w_sess w) -> Inv (w_sess w').
Proof.
  intros w w' H. unfold wq in H. eapply qreach_inv; [|exact H]. intros. eapply Inv_step; eassumption.
Qed.

(* connect: quiet steps, then possibly one CONNACK step, then quiet steps *)
Lemma op_connect_reach : forall fuel w, sreach (w_sess w) (w_sess (fst (op_connect fuel w))).
Proof.
  intros fuel w. unfold op_connect.
  set (s0 := w_sess w).
  set (s1 := set_ob (set_rt (set_reader s0 (reader_reset (s_reader s0))) (reset_transport (s_rt s0))) (arm_replay (s_ob s0))).
  set (s2 := set_ob s1 (compact (s_ob s1))).
  assert (R02 : sreach s0 s2).
  { eapply sreach_trans; [eapply sreach_step; apply (SS_reader s0 (reader_reset (s_reader s0)))|].
    eapply sreach_trans; [eapply sreach_step; apply SS_reset_transport|].
    eapply sreach_trans; [eapply sreach_step; apply SS_arm_replay|].
    eapply sreach_step. apply (SS_compact s1). }
  change (set_ob s1 (compact (s_ob s1))) with s2.
  destruct (enc_connect _ _) as [off bs|e]; cbn [fst upd_sess w_sess]; [|exact R02].
  unfold direct_send.
  pose proof (write_all_wq fuel bs (upd_sess w s2)) as Hw.
  destruct (write_all fuel bs (upd_sess w s2)) as [w3 r3]. cbn [fst] in Hw.
  assert (R3 : sreach s0 (w_sess w3)).
  { eapply sreach_trans; [exact R02|]. destruct Hw as [ls [Hp _]]. exists ls. exact Hp. }
  destruct r3; cbn [bindu fst]; try exact R3.
  pose proof (io_flush_sess w3) as [Hf _]. destruct (io_flush w3) as [w4 fr]. cbn [fst] in Hf.
  destruct fr; cbn [bindu fst]; try (rewrite Hf; exact R3).
  cbv beta zeta.
  set (w5 := upd_sess w4 (set_rt (w_sess w4) (rt_with_timers (s_rt (w_sess w4)) None None))).
  assert (R5 : sreach s0 (w_sess w5)).
  { eapply sreach_trans; [exact R3|]. unfold w5. cbn [w_sess upd_sess]. rewrite Hf.
    eapply sreach_step. apply SS_rt_timers. }
  pose proof (fill_wq fuel None w5) as Hfill. destruct (fill_packet_reader fuel None w5) as [w6 fr6]. cbn [fst] in Hfill.
  assert (R6 : sreach s0 (w_sess w6)).
  { eapply sreach_trans; [exact R5|]. destruct Hfill as [ls [Hp _]]. exists ls. exact Hp. }
  assert (Rhd : forall w', sreach s0 (w_sess w') -> sreach s0 (w_sess (sess_hd w'))).
  { intros w' Hr. eapply sreach_trans; [exact Hr|]. cbn [sess_hd w_sess upd_sess]. eapply sreach_step. apply SS_hd. }
  destruct fr6; cbn [fst]; try exact R6; try (apply Rhd; exact R6).
  destruct (take_packet (s_reader (w_sess w6))) as [[[r' pl] p]|]; cbn [fst]; [|apply Rhd; exact R6].
  assert (R7 : sreach s0 (set_reader (w_sess w6) r')).
  { eapply sreach_trans; [exact R6|]. eapply sreach_step. apply SS_reader. }
  destruct (connack_process (set_reader (w_sess w6) r') p (w_now w6)) as [s8 cr] eqn:Ec.
  assert (R8 : sreach s0 s8).
  { eapply sreach_trans; [exact R7|]. replace s8 with (fst (connack_process (set_reader (w_sess w6) r') p (w_now w6))) by now rewrite Ec.
    eapply sreach_step. apply SS_connack. }
  destruct cr as [resumed|e d]; cbn [fst w_sess upd_sess upd_envok]; [exact R8|].
  destruct d; cbn [fst w_sess upd_sess]; [|exact R8].
  eapply sreach_trans; [exact R8|]. cbn [sess_hd w_sess upd_sess]. eapply sreach_step. apply SS_hd.
Qed.

Lemma Inv_sreach : forall s s', sreach s s' -> Inv s -> Inv s'.
Proof. intros s s' [ls H]. eapply spath_inv; [|exact H]. intros. eapply Inv_step; eassumption. Qed.

Definition wsess_eq (w w' : world) : Prop := w_sess w' = w_sess w.

Lemma feed_sess : forall w d b, w_sess (feed w d b) = w_sess w.
Proof. intros. unfold feed. destruct b; reflexivity. Qed.

Lemma record_op_sess : forall w o, w_sess (record_op w o) = w_sess w.
Proof. intros. unfold record_op. destruct o as [[h|]| | | |]; reflexivity. Qed.

Lemma fold_feed_sess : forall chunks w, w_sess (fold_left (fun w c => feed w (fst c) (snd c)) chunks w) = w_sess w.
Proof. induction chunks as [|c t IH]; intros w; cbn [fold_left]; [reflexivity|]. rewrite IH. apply feed_sess. Qed.

(* every action keeps the invariant *)
Lemma run_action_Inv : forall a w, Inv (w_sess w) -> Inv (w_sess (run_action a w)).
Proof.
  intros a w H. destruct a; cbn [run_action].
  - (* connect *)
    match goal with |- context [op_connect FUEL ?x] => set (w1 := x) end.
    assert (H1 : Inv (w_sess w1)).
    { unfold w1. rewrite fold_feed_sess. exact H. }
    pose proof (op_connect_reach FUEL w1) as Hr. destruct (op_connect FUEL w1) as [w2 r]. cbn [fst] in Hr.
    pose proof (Inv_sreach _ _ Hr H1) as H2. destruct r; exact H2.
  - destruct (negb (w_conn w)); [exact H|].
    pose proof (op_publish_wq FUEL r w) as Hq. destruct (op_publish FUEL r w) as [w1 o]. cbn [fst] in Hq.
    cbn [w_sess upd_log]. rewrite record_op_sess. eapply Inv_wq; eassumption.
  - destruct (negb (w_conn w)); [exact H|].
    pose proof (op_subscribe_wq FUEL topics ps w) as Hq. destruct (op_subscribe FUEL topics ps w) as [w1 o]. cbn [fst] in Hq.
    cbn [w_sess upd_log]. rewrite record_op_sess. eapply Inv_wq; eassumption.
  - destruct (negb (w_conn w)); [exact H|].
    pose proof (op_unsubscribe_wq FUEL topics ps w) as Hq. destruct (op_unsubscribe FUEL topics ps w) as [w1 o]. cbn [fst] in Hq.
    cbn [w_sess upd_log]. rewrite record_op_sess. eapply Inv_wq; eassumption.
  - destruct (negb (w_conn w)); [exact H|].
    pose proof (op_disconnect_wq FUEL d w) as Hq. destruct (op_disconnect FUEL d w) as [w1 o]. cbn [fst] in Hq.
    cbn [w_sess upd_log]. eapply Inv_wq; eassumption.
  - destruct (negb (w_conn w)); [exact H|].
    pose proof (op_drive_wq FUEL w) as Hq. destruct (op_drive FUEL w) as [w1 o]. cbn [fst] in Hq.
    cbn [w_sess upd_log]. eapply Inv_wq; eassumption.
  - destruct (negb (w_conn w)); [exact H|].
    pose proof (op_poll_wq FUEL w) as Hq. destruct (op_poll FUEL w) as [w1 o]. cbn [fst] in Hq.
    cbn [w_sess upd_log]. eapply Inv_wq; eassumption.
  - destruct (negb (w_conn w)); [exact H|].
    pose proof (op_recv_wq FUEL w) as Hq. destruct (op_recv FUEL w) as [w1 o]. cbn [fst] in Hq.
    cbn [w_sess upd_log]. eapply Inv_wq; eassumption.
  - cbn [w_sess upd_log]. rewrite feed_sess. exact H.
  - exact H.
  - exact H.
  - destruct (negb (w_conn w)); [exact H|]. cbn [w_sess upd_log w_hd upd_live upd_sess]. now apply Inv_hd.
  - exact H.
  - cbn [w_sess upd_log upd_sess]. apply Inv_pid; [exact H|].
    unfold id_ok. pose proof (N.mod_upper_bound pid 65536 ltac:(lia)).
    destruct (N.eqb_spec (pid mod 65536) 0); lia.
Qed.

Lemma step_action_Inv : forall w a, Inv (w_sess w) -> Inv (w_sess (step_action w a)).
Proof.
  intros w a H. unfold step_action. destruct (halted w); [exact H|].
  match goal with |- context [run_action a ?x] => set (w0 := x) end.
  assert (H0 : Inv (w_sess w0)) by exact H.
  pose proof (run_action_Inv a w0 H0) as H1.
  destruct (halted (run_action a w0)); [exact H1 | exact H1].
Qed.

(* Every world reachable by any program under any script satisfies the invariant. *)
Theorem reachable_Inv : forall c, Inv (w_sess (run_case c)).
Proof.
  intros c. unfold run_case.
  assert (G : forall prog w, Inv (w_sess w) -> Inv (w_sess (fold_left step_action prog w))).
  { induction prog as [|a t IH]; intros w H; cbn [fold_left]; [exact H|]. apply IH. now apply step_action_Inv. }
  apply G. cbn [init_world w_sess]. apply Inv_init.
Qed.
