(* ConnectAny.v — C12, positive half, for EVERY conformant broker answer: whatever successful CONNACK the broker has
   sent (either session-present value, any property list the handshake accepts — Connack.connack_accepted_iff — in any
   order, with user properties, ...), connect() on a behaving transport writes the CONNECT, assembles the CONNACK
   through the packet reader (FillWhole.fill_whole), decodes and accepts it, from every world state in which the
   CONNECT fits behind the retained packets. *)
From Coq Require Import List NArith Lia Bool.
From Coq Require Import ZifyBool ZifyN ZifyNat.
From Minimq Require Import Bytes Varint Utf8 Props Ser De Reader Arena Core Show Machine Parse Run.
From Minimq Require Import Util VarintProofs SerLemmas CodecProofs Reconnect ConnectOk Connack ReaderInv Framing FillWhole.
Import ListNotations.
Open Scope N_scope.

Definition b2n' (b : bool) : N := if b then 1 else 0.

(* the bytes of a successful CONNACK: flags, reason 0, property block *)
Definition connack_body (sp : bool) (szb block : bytes) : bytes := b2n' sp :: 0 :: szb ++ block.

Lemma connack_decodes_any : forall sp szb block rl,
  varint_write (lenN block) = Some szb -> varint_write (lenN (connack_body sp szb block)) = Some rl ->
  from_buffer (32 :: rl ++ connack_body sp szb block) = Some (RConnAck sp 0 block).
Proof.
  intros sp szb block rl Hs Hr. unfold from_buffer. rewrite (varint_roundtrip _ _ _ Hr).
  change (de_body 32 (connack_body sp szb block)) with
    (match connack_body sp szb block with
     | spb :: rc :: t => if 1 <? spb then None else
                         match de_props t with Some (ps, rest) => Some (RConnAck (N.eqb spb 1) (rc_norm rc) ps, rest) | None => None end
     | _ => None end).
  unfold connack_body.
  replace (szb ++ block) with (szb ++ block ++ []) by now rewrite app_nil_r.
  rewrite (de_props_block _ _ _ Hs). destruct sp; reflexivity.
Qed.

(* a write on a behaving transport whose broker is scripted by hand: everything accepted, nothing answered *)
Lemma io_write_manual : forall w bs, w_script w = [] -> w_broker w = 0 -> bs <> [] -> lenN bs <= BIG ->
  exists w1, io_write bs w = (w1, WOk (lenN bs)) /\
    w_sess w1 = w_sess w /\ w_script w1 = [] /\ w_broker w1 = 0 /\ w_now w1 = w_now w /\ w_inq w1 = w_inq w.
Proof.
  intros w bs Hs Hb Hne Hl. unfold io_write.
  assert (H0 : lenN bs <> 0) by (destruct bs; [contradiction|rewrite lenN_cons; lia]).
  destruct (N.eqb_spec (lenN bs) 0) as [E|_]; [contradiction|].
  rewrite (next_ev_healthy w Hs). cbn [N.eqb]. cbv zeta.
  replace (N.min (N.max BIG 1) (lenN bs)) with (lenN bs) by (unfold BIG in *; lia).
  rewrite (takeN_all bs (lenN bs)) by lia.
  eexists. split; [reflexivity|].
  unfold broker_feed. cbn [w_broker upd_wire upd_log upd_script]. rewrite Hb. change (0 =? 0) with true. cbv iota.
  cbn [w_sess w_script w_broker w_now w_inq upd_wire upd_log upd_script]. repeat split; try reflexivity; assumption.
Qed.

Theorem connect_succeeds_any : forall w off bs sp ps block szb rl t,
  (* the broker's answer: any CONNACK the handshake accepts *)
  encode_all ps = Some block -> forallb prop_wf ps = true -> forallb prop_canon ps = true ->
  forallb connack_prop_ok ps = true ->
  varint_write (lenN block) = Some szb -> varint_write (lenN (connack_body sp szb block)) = Some rl ->
  let pkt := 32 :: rl ++ connack_body sp szb block in
  lenN pkt <= rcap (s_reader (w_sess w)) -> lenN pkt <= 29000 ->
  (* a behaving transport on which that answer arrives *)
  w_script w = [] -> w_broker w = 0 -> w_inq w = [(t, pkt)] -> t <= w_now w ->
  (* the CONNECT fits behind the retained packets *)
  let s2 := connect_scratch (w_sess w) in
  enc_connect (ob_cap (s_ob s2) - ob_used (s_ob s2)) (connect_request s2) = SOk off bs -> lenN bs <= BIG ->
  exists w', op_connect FUEL w = (w', ODone (if sp then 1 else 0)).
Proof.
  intros w off bs sp ps block szb rl t He Hw Hc Hok Hs Hr pkt Hcap H29 Hsc Hb Hi Ht s2 Henc Hl.
  destruct FUEL_big as [f Hf]. unfold op_connect. fold (connect_preamble (w_sess w)).
  change (set_ob (connect_preamble (w_sess w)) (compact (s_ob (connect_preamble (w_sess w))))) with s2.
  change (compact (s_ob (connect_preamble (w_sess w)))) with (s_ob s2). rewrite Henc.
  assert (Hne : bs <> []).
  { destruct (connect_layout _ _ _ _ Henc) as [rl0 [rest [E _]]]. rewrite E. discriminate. }
  set (w2 := upd_sess w s2).
  destruct (io_write_manual w2 bs Hsc Hb Hne Hl) as [w3 [Ew [S3 [C3 [B3 [N3 I3]]]]]].
  unfold direct_send. rewrite Hf. cbn [write_all]. destruct bs as [|b0 bt] eqn:Eb; [contradiction|]. rewrite <- Eb in *.
  rewrite Ew. destruct (N.eqb_spec (lenN bs) 0) as [E0|_]; [rewrite Eb, lenN_cons in E0; lia|].
  rewrite (dropN_all bs (lenN bs)) by lia. cbn [write_all bindu].
  destruct (io_flush_healthy w3 C3) as [w4 [Ef [S4 [C4 [I4 [N4 L4]]]]]]. rewrite Ef. cbn [bindu].
  set (w5 := upd_sess w4 (set_rt (w_sess w4) (rt_with_timers (s_rt (w_sess w4)) None None))).
  assert (R5 : rd w5 = reader_reset (s_reader (w_sess w))).
  { unfold rd. cbn [w5 w_sess upd_sess set_rt s_reader]. rewrite S4, S3. reflexivity. }
  (* the reader assembles the CONNACK *)
  assert (Hat : at_k 32 rl (connack_body sp szb block) (rd w5) 0).
  { unfold at_k. rewrite R5. cbn [reader_reset rdata rcap rplen]. fold pkt.
    split; [now rewrite takeN_0|]. split; [lia|]. split; [exact Hcap|]. split; [apply RInv_reset|discriminate]. }
  rewrite <- Hf.
  destruct (fill_whole 32 rl (connack_body sp szb block) Hr (N.to_nat (lenN pkt)) FUEL w5 0 t Hat) as [w6 [E6 [D6 [P6 [K6 [S6 [Q6 [C6 N6]]]]]]]].
  { fold pkt. lia. } { change (N.of_nat FUEL) with 30000 in *. unfold FUEL. lia. }
  { cbn [w5 w_script upd_sess]. exact C4. } { fold pkt. unfold BIG. lia. }
  { intros _. fold pkt. rewrite dropN_0. cbn [w5 w_inq w_now upd_sess]. rewrite I4, I3. cbn [w2 w_inq upd_sess]. rewrite Hi.
    split; [reflexivity|]. rewrite N4, N3. cbn [w2 w_now upd_sess]. exact Ht. }
  { fold pkt. intros E. exfalso. assert (1 <= lenN pkt) by (unfold pkt; rewrite lenN_cons; lia). lia. }
  rewrite E6.
  (* decode and accept *)
  unfold take_packet. fold (rd w6). rewrite P6. rewrite D6. fold pkt. rewrite (takeN_all pkt (lenN pkt)) by lia.
  unfold pkt at 1. rewrite (connack_decodes_any sp szb block rl Hs Hr).
  match goal with |- context [connack_process ?s ?p ?n] =>
    pose proof (connack_accepted_iff s sp ps block n He Hw Hc) as Hacc; rewrite Hok in Hacc;
    destruct (connack_process s p n) as [s7 cr] eqn:Ec end.
  cbn [snd] in Hacc. subst cr. eexists. reflexivity.
Qed.

(* at the level of a run: the connect action with that CONNACK scheduled as the broker's answer *)
Theorem connect_action_succeeds_any : forall w sp ps block szb rl,
  encode_all ps = Some block -> forallb prop_wf ps = true -> forallb prop_canon ps = true ->
  forallb connack_prop_ok ps = true ->
  varint_write (lenN block) = Some szb -> varint_write (lenN (connack_body sp szb block)) = Some rl ->
  let pkt := 32 :: rl ++ connack_body sp szb block in
  lenN pkt <= rcap (s_reader (w_sess w)) -> lenN pkt <= 29000 ->
  w_script w = [] -> w_broker w = 0 ->
  let s2 := connect_scratch (w_sess w) in
  let free := ob_cap (s_ob s2) - ob_used (s_ob s2) in
  let cs := connect_chunks (connect_request s2) in
  chunks_ok cs = true -> chunks_len cs <= VARINT_MAX -> 5 + chunks_len cs <= free ->
  let w' := run_action (AConnect [(0, pkt)]) w in
  w_conn w' = true /\ w_live w' = true /\ w_event w' = (if sp then 1 else 0).
Proof.
  intros w sp ps block szb rl He Hw Hc Hok Hs Hr pkt Hcap H29 Hsc Hb s2 free cs Hcok Hv Hroom w'.
  destruct (connect_encodes_iff_room (w_sess w) Hcok Hv) as [Henc _]. destruct (Henc Hroom) as [off [bs Hb2]].
  set (w0 := upd_poison (upd_wire (upd_txbuf (upd_inq (upd_live w false false 0) [] (w_now w)) []) []) false).
  set (w1 := feed w0 0 pkt).
  assert (Hpk : pkt <> []) by (unfold pkt; discriminate).
  assert (E1 : w1 = upd_inq w0 [(w_now w, pkt)] (w_now w)).
  { unfold w1, feed. destruct pkt as [|x xs] eqn:Ep; [contradiction|].
    unfold w0. cbn [w_now w_last_arrival w_inq upd_poison upd_wire upd_txbuf upd_inq upd_live app].
    replace (N.max (w_now w + 0) (w_now w)) with (w_now w) by lia. reflexivity. }
  assert (F1 : w_sess w1 = w_sess w) by (rewrite E1; reflexivity).
  assert (F2 : w_script w1 = []) by (rewrite E1; exact Hsc).
  assert (F3 : w_broker w1 = 0) by (rewrite E1; exact Hb).
  assert (F4 : w_inq w1 = [(w_now w, pkt)]) by (rewrite E1; reflexivity).
  assert (F5 : w_now w1 = w_now w) by (rewrite E1; reflexivity).
  destruct (connect_succeeds_any w1 off bs sp ps block szb rl (w_now w) He Hw Hc Hok Hs Hr) as [w2 E2].
  { rewrite F1. exact Hcap. } { exact H29. } { exact F2. } { exact F3. } { exact F4. } { rewrite F5. lia. }
  { rewrite F1. exact Hb2. } { exact (connect_len_small _ _ _ _ Hb2). }
  unfold w', run_action. cbn [fold_left fst snd]. fold w0. fold w1. rewrite E2. cbn. repeat split.
Qed.

(* ---------- non-vacuity: a resumed session, a CONNACK with Receive Maximum 3, an assigned identifier, Server Keep
   Alive and a user property ---------- *)
Definition ex_ck_props : list prop :=
  [mkprop KReceiveMaximum 3 [] []; mkprop KAssignedClientIdentifier 0 [105; 100] []; mkprop KServerKeepAlive 30 [] [];
   mkprop KUserProperty 0 [107] [118]].
Definition ex_ck_packet : bytes :=
  match encode_all ex_ck_props with
  | Some block => match varint_write (lenN block) with
                  | Some szb => match varint_write (lenN (connack_body true szb block)) with
                                | Some rl => 32 :: rl ++ connack_body true szb block
                                | None => [] end
                  | None => [] end
  | None => [] end.
Definition ex_any_world : world := upd_inq (upd_broker ex_broken 0) [(0, ex_ck_packet)] 0.

Example connect_any_example :
  forallb connack_prop_ok ex_ck_props = true /\ forallb prop_wf ex_ck_props = true /\ forallb prop_canon ex_ck_props = true /\
  lenN ex_ck_packet = 23 /\
  snd (op_connect FUEL ex_any_world) = ODone 1 /\
  rt_maxquota (s_rt (w_sess (fst (op_connect FUEL ex_any_world)))) = 3 /\
  s_client_id (w_sess (fst (op_connect FUEL ex_any_world))) = [105; 100].
Proof. vm_compute. repeat split; reflexivity. Qed.
