(* QuotaRefuted.v — C06, the case outside the environment assumption (known finding K06r): a publish that was
   accepted on an earlier connection but never reached the wire is kept in the arena; a resumed CONNACK with a
   Receive Maximum below the number of publishes the CLIENT holds makes the ghost flag false, and the engine then
   sends every retained packet regardless of the window. *)
From Coq Require Import List NArith Lia Bool.
From Minimq Require Import Bytes Varint Utf8 Props Ser De Reader Arena Core Show Machine Parse Run.
Import ListNotations.
Local Open Scope N_scope.

(* connect; QoS 1 publish (sent); QoS 1 publish whose write fails (retained, never sent); drop;
   resumed connect with Receive Maximum 1; poll *)
Definition k06r_tokens : list N :=
  [64; 256; 1; 116; 0; 0; 0; 0; 0; 6;
   0; 1; 0; 5; 32; 3; 0; 0; 0;
   1; 1; 97; 0; 0; 1; 1; 49; 0;
   1; 1; 97; 0; 0; 1; 1; 50; 0;
   10;
   0; 1; 0; 8; 32; 6; 1; 0; 3; 33; 0; 1;
   6;
   8; 0; 1000; 0; 1000; 0; 1000; 0; 1000; 0; 1000; 0; 1000; 0; 1000; 1; 0].

Definition k06r_world : option world :=
  match p_case k06r_tokens with Some (c, []) => Some (run_case c) | _ => None end.

Theorem window_refuted_unsent_publish :
  exists w, k06r_world = Some w /\
    w_envok w = false /\ rt_maxquota (s_rt (w_sess w)) = 1 /\
    unresolved_publishes (s_ob (w_sess w)) = 2 /\
    Forall (fun e => re_st e = SSent) (ob_ret (s_ob (w_sess w))).
Proof.
  destruct k06r_world as [w|] eqn:E; [|vm_compute in E; discriminate].
  exists w. split; [reflexivity|]. vm_compute in E. inversion E; subst; clear E.
  vm_compute. repeat split; repeat constructor.
Qed.
