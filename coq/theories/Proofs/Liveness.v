(* Liveness.v — C16, one exchange end to end: on a behaving transport, with nothing left to write and no timer
   pending, a PUBACK that has arrived completes its QoS 1 publish in ONE poll(): the packet is read (whatever its
   fragmentation would be), decoded, the retained PUBLISH is released, the send quota returned, poll() reports progress,
   and the outbound side is still drained. *)
From Coq Require Import List NArith Lia Bool.
From Coq Require Import ZifyBool ZifyN ZifyNat.
From Minimq Require Import Bytes Varint Utf8 Props Ser De Reader Arena Core Show Machine Parse Run.
From Minimq Require Import Util VarintProofs CodecProofs ArenaLemmas ArenaOps Inv WireInv Chunking ReaderInv Cancel ConnectOk BrokerProofs Framing FillWhole PollReads PacketShape KeepAlive Wire.
Import ListNotations.
Open Scope N_scope.

Local Opaque u16_be.

Lemma from_buffer_puback4 : forall pid, pid < 65536 -> from_buffer (64 :: [2] ++ u16_be pid) = Some (RPubAck pid 0).
Proof.
  intros pid Hp. unfold from_buffer. cbn [app].
  change (varint_read (2 :: u16_be pid)) with (VOk 2 (u16_be pid)).
  cbv beta iota. rewrite de_body_puback.
  unfold de_ack. pose proof (read_u16_be pid [] Hp) as Hr. rewrite app_nil_r in Hr. rewrite Hr. reflexivity.
Qed.

(* nothing to write stays nothing to write when a retained packet is released *)
Lemma find_ret_none_abs : forall p o, find_ret p (ob_ret o) = None <->
  (forall a, In a (abs o) -> matches_priority (snd a) p = false).
Proof.
  intros p o. unfold find_ret, abs. induction (ob_ret o) as [|e t IH]; cbn [find map In].
  - split; [intros _ a []|reflexivity].
  - destruct (matches_priority (re_st e) p) eqn:Em.
    + split; [discriminate|]. intros H. specialize (H (abs_entry (ob_buf o) e) (or_introl eq_refl)). cbn in H. congruence.
    + split.
      * intros H a [Ha|Ha]; [subst a; exact Em|]. now apply (proj1 IH).
      * intros H. apply (proj2 IH). intros a Ha. apply H. now right.
Qed.

Lemma next_step_ack_none : forall o pid, arena_wf o -> next_step o = None -> next_step (fst (ack_packet o pid)) = None.
Proof.
  intros o pid W Hn. destruct (ack_packet o pid) as [o' found] eqn:E.
  destruct (ack_packet_spec o pid o' found W E) as [_ [Hc [Hr [_ Ha]]]]. cbn [fst].
  destruct found; [|destruct Ha as [-> _]; exact Hn].
  unfold next_step, next_step_pass, orelse in *. rewrite Hc, Hr.
  assert (Hp : forall p, find_ret p (ob_ret o) = None -> find_ret p (ob_ret o') = None).
  { intros p H3. apply find_ret_none_abs. intros a Hin. apply (proj1 (find_ret_none_abs p o) H3). eapply abs_remove_sub; eassumption. }
  destruct (find_ctl true (ob_ctl o)); [discriminate|]. destruct (find_rel true (ob_rel o)); [discriminate|].
  destruct (find_ret true (ob_ret o)) eqn:T; [discriminate|].
  destruct (find_ctl false (ob_ctl o)); [discriminate|]. destruct (find_rel false (ob_rel o)); [discriminate|].
  destruct (find_ret false (ob_ret o)) eqn:F; [discriminate|].
  rewrite (Hp true T), (Hp false F). reflexivity.
Qed.

Lemma wait_unfold : forall f w, wait_for_progress (S f) w =
  (let '(w1, r) := drive_packet (S f) w in
   match r with
   | ODone PrIdle =>
       let deadline := next_deadline (s_rt (w_sess w1)) in
       if negb (w_live w1) then (w1, OFail EDisconnected) else
       let '(w2, fr) := fill_packet_reader (S f) deadline w1 in
       match fr with
       | FillOk => wait_for_progress f w2
       | FillTimeout => wait_for_progress f w2
       | FillErr e => (w_hd w2, OFail e)
       | FillCancel => (w2, OCancel)
       | FillFuel => (w2, OFuel)
       end
   | _ => (w1, r)
   end).
Proof. reflexivity. Qed.

Lemma drive_loop_unfold : forall f adv w, drive_loop (S f) adv w =
  (let '(w1, r1) := process_received w in
   match r1 with
   | OFail e => (w1, OFail e)
   | OCancel => (w1, OCancel) | OFuel => (w1, OFuel) | OPanic => (w1, OPanic)
   | ODone (Some p) => (w1, ODone (PrInbound p))
   | ODone None =>
       if packet_available (s_reader (w_sess w)) then drive_loop f true w1 else
       let '(w2, r2) := service (w_now w1) w1 in
       match r2 with
       | OFail e => (w2, OFail e)
       | OCancel => (w2, OCancel) | OFuel => (w2, OFuel) | OPanic => (w2, OPanic)
       | ODone adv0 =>
           let advanced' := adv || adv0 in
           match next_step (s_ob (w_sess w2)) with
           | None => (w2, ODone (if advanced' then PrAdvanced else PrIdle))
           | Some _ => drive_loop f advanced' w2
           end
       end
   end).
Proof. reflexivity. Qed.

Theorem poll_completes_puback : forall w pid t,
  pid < 65536 -> 4 <= rcap (rd w) ->
  w_live w = true -> rdata (rd w) = [] -> rplen (rd w) = None ->
  arena_wf (s_ob (w_sess w)) -> next_step (s_ob (w_sess w)) = None ->
  (forall d, rt_next_ping (s_rt (w_sess w)) = Some d -> w_now w < d) -> rt_ping_timeout (s_rt (w_sess w)) = None ->
  w_script w = [] -> w_inq w = [(t, 64 :: [2] ++ u16_be pid)] -> t <= w_now w ->
  has_retained (s_ob (w_sess w)) pid = true ->
  exists w', op_poll FUEL w = (w', ODone None) /\ w_live w' = true /\ w_inq w' = [] /\
    (exists l', abs_remove pid (abs (s_ob (w_sess w))) = Some l' /\ abs (s_ob (w_sess w')) = l') /\
    ob_ctl (s_ob (w_sess w')) = ob_ctl (s_ob (w_sess w)) /\ ob_rel (s_ob (w_sess w')) = ob_rel (s_ob (w_sess w)) /\
    rt_quota (s_rt (w_sess w')) = N.min (N.min (rt_quota (s_rt (w_sess w)) + 1) 65535) (rt_maxquota (s_rt (w_sess w))) /\
    next_step (s_ob (w_sess w')) = None /\ packet_available (rd w') = false.
Proof.
  intros w pid t Hp Hcap Hl Hd Hpl W Hn Hnp Hpt Hs Hi Ht Hret.
  destruct FUEL_big as [f Hf]. rewrite Hf. unfold op_poll.
  set (pkt := 64 :: [2] ++ u16_be pid) in *.
  assert (Hlen : lenN pkt = 4) by (unfold pkt; rewrite lenN_cons, lenN_app, lenN_u16; reflexivity).
  assert (Hrl : varint_write (lenN (u16_be pid)) = Some [2]) by (rewrite lenN_u16; reflexivity).
  destruct (wait_reads_arrived_packet (S (S (S (S f)))) w 64 [2] (u16_be pid) t Hrl) as [w3 [E3 [D3 [P3 [K3 [S3 [Q3 [C3 [N3 L3]]]]]]]]];
    try assumption; fold pkt; try (rewrite Hlen; first [exact Hcap | unfold BIG; lia]).
  { rewrite Hlen. unfold FUEL in Hf. lia. }
  fold pkt in D3, P3. rewrite E3. clear E3.
  (* the packet sits in the reader: one pass of the engine handles it *)
  rewrite wait_unfold. unfold drive_packet. rewrite L3. cbn [negb]. rewrite drive_loop_unfold.
  assert (Ha3 : packet_available (rd w3) = true).
  { unfold packet_available. rewrite P3. unfold read_bytes. rewrite D3. apply N.leb_le. lia. }
  unfold process_received at 1. fold (rd w3). rewrite Ha3. cbn [negb]. unfold take_packet. rewrite P3, D3, Hlen.
  rewrite (takeN_all pkt 4) by lia. unfold pkt at 1. rewrite (from_buffer_puback4 pid Hp).
  set (s3 := set_reader (w_sess w3) (reader_reset (rd w3))).
  assert (Ob3 : s_ob s3 = s_ob (w_sess w)) by (unfold s3; rewrite S3; reflexivity).
  assert (Rt3 : s_rt s3 = s_rt (w_sess w)) by (unfold s3; rewrite S3; reflexivity).
  cbn [handle_packet]. rewrite Ob3.
  destruct (ack_packet (s_ob (w_sess w)) pid) as [o found] eqn:Ea.
  destruct (ack_packet_spec _ _ _ _ W Ea) as [W' [Hc [Hr [_ Hab]]]].
  assert (Hfound : found = true).
  { destruct found; [reflexivity|]. destruct Hab as [_ Hnone]. exfalso.
    unfold has_retained in Hret. apply existsb_exists in Hret. destruct Hret as [e [Hin He]].
    clear - Hin He Hnone. unfold abs in Hnone. induction (ob_ret (s_ob (w_sess w))) as [|x l IH]; [contradiction|].
    cbn [map abs_remove abs_entry] in Hnone. destruct Hin as [->|Hin].
    - rewrite He in Hnone. discriminate.
    - destruct (N.eqb (re_pid x) pid); [discriminate|]. destruct (abs_remove pid (map (abs_entry _) l)); [discriminate|]. now apply IH. }
  subst found. cbn [negb]. change (rc_success 0) with true. cbv iota.
  pose proof (next_step_ack_none _ pid W Hn) as Hn'. rewrite Ea in Hn'. cbn [fst] in Hn'.
  set (s4 := set_rt (set_ob s3 o) (quota_inc (s_rt s3))).
  match goal with |- context [drive_loop ?fu true ?x] => set (w4 := x) end.
  assert (S4 : w_sess w4 = s4) by reflexivity.
  assert (L4 : w_live w4 = true) by (unfold w4; cbn [w_live upd_drained upd_envok upd_sess]; exact L3).

  (* second pass: nothing to read, nothing to write *)
  rewrite drive_loop_unfold. unfold process_received. rewrite S4.
  assert (Na4 : packet_available (s_reader s4) = false) by reflexivity. rewrite Na4. cbn [negb].
  unfold service, ping_timed_out. rewrite S4.
  assert (Pt4 : rt_ping_timeout (s_rt s4) = None) by (unfold s4; cbn [set_rt s_rt quota_inc rt_with_quota rt_ping_timeout]; rewrite Rt3; exact Hpt).
  assert (Np4 : rt_next_ping (s_rt s4) = rt_next_ping (s_rt (w_sess w))) by (unfold s4; cbn [set_rt s_rt quota_inc rt_with_quota rt_next_ping]; rewrite Rt3; reflexivity).
  assert (N4 : w_now w4 = w_now w) by (unfold w4; cbn [w_now upd_drained upd_envok upd_sess]; exact N3).
  rewrite Pt4. unfold maybe_queue_pingreq, should_queue_pingreq. rewrite Pt4, Np4, N4.
  assert (Hdue : match rt_next_ping (s_rt (w_sess w)) with Some d => d <=? w_now w | None => false end = false).
  { destruct (rt_next_ping (s_rt (w_sess w))) as [d|] eqn:En; [|reflexivity]. specialize (Hnp d eq_refl). apply N.leb_gt. exact Hnp. }
  rewrite Hdue. cbn [andb].
  rewrite <- S4, upd_sess_same, S4.
  assert (Ob4 : s_ob s4 = o) by reflexivity. rewrite Ob4, Hn'. cbn [orb]. rewrite S4, Ob4, Hn'.
  eexists. split; [reflexivity|]. rewrite S4. unfold rd. rewrite S4.
  split; [exact L4|]. split; [unfold w4; cbn [w_inq upd_drained upd_envok upd_sess]; exact Q3|].
  split; [exists (abs o); split; [exact Hab|rewrite Ob4; reflexivity]|].
  rewrite Ob4. split; [exact Hc|]. split; [exact Hr|].
  split; [unfold s4; cbn [set_rt s_rt quota_inc rt_with_quota rt_quota]; rewrite Rt3; reflexivity|].
  split; [exact Hn'|exact Na4].
Qed.

(* ---------- non-vacuity: a QoS 1 publish sent on a connection without keep-alive, its PUBACK arrived ---------- *)
Definition ex_cfg0 : config :=
  {| cf_rx := 64; cf_tx := 128; cf_client_id := [99]; cf_keepalive_s := 0; cf_expiry := 0;
     cf_downgrade := false; cf_will := None; cf_auth := None |}.
Definition ex_inflight : world :=
  run_case {| c_cfg := ex_cfg0;
              c_prog := [AConnect [(0, [32; 3; 0; 0; 0])]; APublish ex_pub; AFeed 0 [64; 2; 0; 1]];
              c_script := [] |}.

Example puback_example :
  w_live ex_inflight = true /\ rdata (rd ex_inflight) = [] /\ rplen (rd ex_inflight) = None /\
  next_step (s_ob (w_sess ex_inflight)) = None /\
  rt_next_ping (s_rt (w_sess ex_inflight)) = None /\ rt_ping_timeout (s_rt (w_sess ex_inflight)) = None /\
  w_script ex_inflight = [] /\ w_inq ex_inflight = [(0, 64 :: [2] ++ [0; 1])] /\
  has_retained (s_ob (w_sess ex_inflight)) 1 = true /\ rt_quota (s_rt (w_sess ex_inflight)) = 7 /\
  snd (op_poll FUEL ex_inflight) = ODone None /\
  ob_ret (s_ob (w_sess (fst (op_poll FUEL ex_inflight)))) = [] /\
  rt_quota (s_rt (w_sess (fst (op_poll FUEL ex_inflight)))) = 8.
Proof. vm_compute. repeat split; reflexivity. Qed.

(* ---------- the general form: poll() hands the arrived packet to the session ---------- *)
Lemma handle_packet_pt_none : forall s p, rt_ping_timeout (s_rt s) = None ->
  rt_ping_timeout (s_rt (fst (handle_packet s p))) = None.
Proof.
  intros s p H.
  assert (Hq : forall s0 a d, s_rt (fst (queue_ctl_checked s0 a d)) = s_rt s0).
  { intros. unfold queue_ctl_checked. destruct (check_control_size _ _); [reflexivity|]. destruct (queue_control _ _); reflexivity. }
  destruct p as [sp rc props|tp pid q rt dup props pl|pid rc|pid rc|pid rc|pid rc|pid props codes|pid props codes|rc props| ];
    cbn [handle_packet]; try exact H.
  - destruct q; [exact H| |]; (destruct pid as [id|]; [|exact H]).
    + now rewrite Hq.
    + q2_split; now rewrite Hq.
  - destruct (ack_packet _ _) as [o f]. destruct (negb f); [exact H|]. destruct (rc_success rc); exact H.
  - destruct (ack_packet _ _) as [o f]. destruct f.
    + destruct (negb (rc_success rc)); [exact H|]. cbn [set_ob s_rt].
      destruct (check_pubrel_size _ _ _); [exact H|]. destruct (queue_release _ _ _); exact H.
    + destruct (has_pending_release _ _); [destruct (rc_success rc)|]; exact H.
  - destruct (swap_remove_id pid (s_srv s)) as [l|]; now rewrite Hq.
  - destruct (ack_release _ _) as [o f]. destruct (negb f); [exact H|]. destruct (rc_success rc); exact H.
  - destruct (ack_packet _ _) as [o f]. destruct (negb f); [exact H|]. destruct (all_success codes); exact H.
  - destruct (ack_packet _ _) as [o f]. destruct (negb f); [exact H|]. destruct (all_success codes); exact H.
  - reflexivity.
Qed.

Theorem poll_handles_arrived : forall w h rl body t p s4 d,
  varint_write (lenN body) = Some rl ->
  let pkt := h :: rl ++ body in
  lenN pkt <= rcap (rd w) -> lenN pkt <= 29000 ->
  w_live w = true -> rdata (rd w) = [] -> rplen (rd w) = None ->
  next_step (s_ob (w_sess w)) = None ->
  (forall dd, rt_next_ping (s_rt (w_sess w)) = Some dd -> w_now w < dd) -> rt_ping_timeout (s_rt (w_sess w)) = None ->
  w_script w = [] -> w_inq w = [(t, pkt)] -> t <= w_now w ->
  from_buffer pkt = Some p ->
  handle_packet (set_reader (w_sess w) (reader_reset (rd w))) p = (s4, HOk d) ->
  (d = false -> next_step (s_ob s4) = None) ->
  exists w', op_poll FUEL w = (w', ODone (if d then Some p else None)) /\
    w_sess w' = s4 /\ w_live w' = true /\ w_inq w' = [] /\ w_now w' = w_now w.
Proof.
  intros w h rl body t p s4 d Hrl pkt Hcap H29 Hl Hd Hpl Hn Hnp Hpt Hs Hi Ht Hdec Hh Hdr.
  destruct FUEL_big as [f Hf]. assert (Hfu : N.of_nat FUEL = 30000) by reflexivity.
  unfold op_poll. rewrite Hf.
  destruct (wait_reads_arrived_packet (S (S (S (S f)))) w h rl body t Hrl) as [w3 [E3 [D3 [P3 [K3 [S3 [Q3 [C3 [N3 L3]]]]]]]]];
    try assumption; fold pkt; try (unfold BIG; lia); try (rewrite Hf in Hfu; lia).
  fold pkt in D3, P3. rewrite E3. clear E3.
  rewrite wait_unfold. unfold drive_packet. rewrite L3. cbn [negb]. rewrite drive_loop_unfold.
  assert (Ha3 : packet_available (rd w3) = true).
  { unfold packet_available. rewrite P3. unfold read_bytes. rewrite D3. apply N.leb_le. lia. }
  unfold process_received at 1. fold (rd w3). rewrite Ha3. cbn [negb]. unfold take_packet. rewrite P3, D3.
  rewrite (takeN_all pkt (lenN pkt)) by lia. rewrite Hdec.
  assert (Es3 : set_reader (w_sess w3) (reader_reset (rd w3)) = set_reader (w_sess w) (reader_reset (rd w))).
  { rewrite S3. unfold reader_reset. rewrite K3. destruct (w_sess w); reflexivity. }
  rewrite Es3, Hh.
  destruct d.
  - (* a message for the application *)
    eexists. split; [reflexivity|]. cbn [w_sess w_live w_inq w_now upd_drained upd_envok upd_sess]. repeat split; assumption.
  - specialize (Hdr eq_refl).
    match goal with |- context [drive_loop ?fu true ?x] => set (w4 := x) end.
    assert (S4 : w_sess w4 = s4) by reflexivity.
    assert (L4 : w_live w4 = true) by (unfold w4; cbn [w_live upd_drained upd_envok upd_sess]; exact L3).
    assert (N4 : w_now w4 = w_now w) by (unfold w4; cbn [w_now upd_drained upd_envok upd_sess]; exact N3).
    pose proof (handle_packet_reader (set_reader (w_sess w) (reader_reset (rd w))) p) as Hr4. rewrite Hh in Hr4. cbn [fst set_reader s_reader] in Hr4.
    pose proof (handle_packet_pt_none (set_reader (w_sess w) (reader_reset (rd w))) p Hpt) as Pt4. rewrite Hh in Pt4. cbn [fst] in Pt4.
    pose proof (KeepAlive.tframe_handle_packet (set_reader (w_sess w) (reader_reset (rd w))) p) as [_ Np4]. rewrite Hh in Np4. cbn [fst set_reader s_rt] in Np4.
    rewrite drive_loop_unfold. unfold process_received. rewrite S4.
    assert (Na4 : packet_available (s_reader s4) = false) by (rewrite Hr4; reflexivity). rewrite Na4. cbn [negb].
    unfold service, ping_timed_out. rewrite S4, Pt4. unfold maybe_queue_pingreq, should_queue_pingreq. rewrite Pt4, Np4, N4.
    assert (Hdue : match rt_next_ping (s_rt (w_sess w)) with Some dd => dd <=? w_now w | None => false end = false).
    { destruct (rt_next_ping (s_rt (w_sess w))) as [dd|] eqn:En; [|reflexivity]. specialize (Hnp dd eq_refl). apply N.leb_gt. exact Hnp. }
    rewrite Hdue. cbn [andb]. rewrite <- S4, upd_sess_same, S4, Hdr. cbn [orb]. rewrite S4, Hdr.
    eexists. split; [reflexivity|]. split; [exact S4|]. split; [exact L4|]. split; [|exact N4].
    unfold w4. cbn [w_inq upd_drained upd_envok upd_sess]. exact Q3.
Qed.

(* an inbound QoS 0 PUBLISH that has arrived is delivered by one poll(), exactly as decoded *)
Corollary poll_delivers_qos0 : forall w h rl body t topic r dp props payload,
  varint_write (lenN body) = Some rl ->
  let pkt := h :: rl ++ body in
  lenN pkt <= rcap (rd w) -> lenN pkt <= 29000 ->
  w_live w = true -> rdata (rd w) = [] -> rplen (rd w) = None ->
  next_step (s_ob (w_sess w)) = None ->
  (forall dd, rt_next_ping (s_rt (w_sess w)) = Some dd -> w_now w < dd) -> rt_ping_timeout (s_rt (w_sess w)) = None ->
  w_script w = [] -> w_inq w = [(t, pkt)] -> t <= w_now w ->
  from_buffer pkt = Some (RPublish topic None Q0 r dp props payload) ->
  exists w', op_poll FUEL w = (w', ODone (Some (RPublish topic None Q0 r dp props payload))) /\ w_live w' = true.
Proof.
  intros w h rl body t topic r dp props payload Hrl pkt Hcap H29 Hl Hd Hpl Hn Hnp Hpt Hs Hi Ht Hdec.
  destruct (poll_handles_arrived w h rl body t _ _ true Hrl Hcap H29 Hl Hd Hpl Hn Hnp Hpt Hs Hi Ht Hdec eq_refl ltac:(discriminate))
    as [w' [E [_ [L _]]]].
  exists w'. split; [exact E|exact L].
Qed.
