(* Cap.v — the arena never changes size, and a quiescent arena offers exactly what a new one offers (C17 b). *)
From Coq Require Import Arith ZArith Lia ZifyBool ZifyN ZifyNat.
From Minimq Require Import Util Bytes Varint Utf8 Props Ser De Reader Arena Core.
From Minimq Require Import PacketShape.
From Minimq Require Import ArenaLemmas SerLemmas ArenaOps Inv Lts Quota.

Definition CapInv (s : session) : Prop := lenN (ob_buf (s_ob s)) = cf_tx (s_cfg s).

Lemma lenN_zerosN : forall n, lenN (zerosN n) = n.
Proof.
  intros n. unfold zerosN. rewrite lenN_length.
  assert (H : forall k (x : N), length (repeatN_fuel k x) = k) by (induction k; intros; cbn [repeatN_fuel length]; [reflexivity|now rewrite IHk]).
  rewrite H. lia.
Qed.

Lemma CapInv_init : forall c, CapInv (session_new c).
Proof. intros. unfold CapInv. cbn [session_new s_ob s_cfg ob_new ob_buf]. apply lenN_zerosN. Qed.

Lemma encode_at_len : forall o enc, OInv o ->
  (forall cap off' bs, enc cap = SOk off' bs -> off' + lenN bs <= cap /\ 2 <= lenN bs) ->
  lenN (ob_buf (fst (encode_at o enc))) = lenN (ob_buf o).
Proof.
  intros o enc H Henc. unfold encode_at.
  destruct (compact_spec o (oi_arena _ H)) as [[W Uu] [_ [_ [C4 _]]]].
  destruct (enc _) as [off bs|e] eqn:E; cbn [fst ob_buf]; [|exact C4].
  destruct (Henc _ _ _ E) as [Hf _]. unfold ob_cap in Hf. rewrite lenN_overwrite by lia. exact C4.
Qed.

Lemma retain_packet_buf : forall o pid off len o', retain_packet o pid off len = Some o' -> ob_buf o' = ob_buf o.
Proof. intros o pid off len o' H. unfold retain_packet in H. destruct (_ <=? _); [discriminate|]. now inversion H. Qed.

Lemma arm_replay_len : forall o, OInv o -> lenN (ob_buf (arm_replay o)) = lenN (ob_buf o).
Proof.
  intros o H. unfold arm_replay. destruct (negb _); [reflexivity|]. cbn [ob_buf].
  destruct (mark_retained_dup_spec o (oi_arena _ H)) as [_ [_ [_ [_ [_ [_ M7]]]]]]. exact M7.
Qed.

Lemma ack_packet_len : forall o pid, OInv o -> lenN (ob_buf (fst (ack_packet o pid))) = lenN (ob_buf o).
Proof.
  intros o pid H. destruct (ack_packet o pid) as [o' f] eqn:E.
  destruct (ack_packet_spec o pid o' f (oi_arena _ H) E) as [_ [_ [_ [Hl _]]]]. exact Hl.
Qed.

Lemma enqueue_middle_cap : forall s k enc,
  (forall id cap off bs, enc cap id = SOk off bs -> off + lenN bs <= cap /\ 2 <= lenN bs) ->
  Inv s -> lenN (ob_buf (s_ob (fst (enqueue_middle s k enc)))) = lenN (ob_buf (s_ob s)) /\
           s_cfg (fst (enqueue_middle s k enc)) = s_cfg s.
Proof.
  intros s k enc Henc I. unfold enqueue_middle. destruct (retained_full _); [split; reflexivity|].
  unfold next_packet_id. destruct (next_packet_id_go _ _ _) as [nxt id]. cbn [set_pid s_ob].
  pose proof (encode_at_len (s_ob s) (fun cap => enc cap id) (inv_ob _ I) (fun c o b H => Henc id c o b H)) as Hl.
  destruct (encode_at (s_ob s) (fun cap => enc cap id)) as [o1 er]. cbn [fst] in Hl.
  destruct er; cbn [fst set_ob s_ob s_cfg]; [|split; [exact Hl|reflexivity]].
  destruct (too_large _ _); cbn [fst set_ob s_ob s_cfg]; [split; [exact Hl|reflexivity]|].
  destruct (retain_packet o1 id off len) as [o2|] eqn:Er; cbn [fst set_ob s_ob s_cfg]; [|split; [exact Hl|reflexivity]].
  rewrite (retain_packet_buf _ _ _ _ _ Er). split; [exact Hl|reflexivity].
Qed.

Lemma handle_packet_cap : forall s p, Inv s ->
  lenN (ob_buf (s_ob (fst (handle_packet s p)))) = lenN (ob_buf (s_ob s)) /\ s_cfg (fst (handle_packet s p)) = s_cfg s.
Proof.
  intros s p I.
  assert (Hq : forall s0 a d, lenN (ob_buf (s_ob (fst (queue_ctl_checked s0 a d)))) = lenN (ob_buf (s_ob s0)) /\
                              s_cfg (fst (queue_ctl_checked s0 a d)) = s_cfg s0).
  { intros. unfold queue_ctl_checked. destruct (check_control_size _ _); [split; reflexivity|].
    destruct (queue_control (s_ob s0) a) as [o|] eqn:E; cbn [fst]; [|split; reflexivity].
    unfold queue_control in E. destruct (_ <=? _); [discriminate|]. inversion E; subst. split; reflexivity. }
  destruct p; cbn [handle_packet]; try (split; reflexivity).
  - destruct q; [split; reflexivity| |]; destruct pid; try (split; reflexivity); try apply Hq.
    q2_split; apply Hq.
  - pose proof (ack_packet_len (s_ob s) pid (inv_ob _ I)) as Hl. destruct (ack_packet _ _) as [o f]. cbn [fst] in Hl.
    destruct f; cbn [negb]; [|split; reflexivity]. destruct (rc_success _); cbn [fst set_rt set_ob s_ob s_cfg]; split; try exact Hl; reflexivity.
  - pose proof (ack_packet_len (s_ob s) pid (inv_ob _ I)) as Hl. destruct (ack_packet _ _) as [o f]. cbn [fst] in Hl. destruct f.
    + destruct (negb _); cbn [fst set_rt set_ob s_ob s_cfg]; [split; [exact Hl|reflexivity]|].
      destruct (check_pubrel_size _ _ _); cbn [fst set_ob s_ob s_cfg]; [split; [exact Hl|reflexivity]|].
      destruct (queue_release o pid 0) as [o2|] eqn:E; cbn [fst set_ob s_ob s_cfg]; [|split; [exact Hl|reflexivity]].
      unfold queue_release in E. destruct (_ <=? _); [discriminate|]. inversion E; subst. cbn [ob_buf]. split; [exact Hl|reflexivity].
    + destruct (has_pending_release _ _); [destruct (rc_success _)|]; split; reflexivity.
  - destruct (swap_remove_id pid (s_srv s)) as [l|]; [|apply Hq].
    destruct (Hq (set_srv s l) (CPubComp pid 0) false) as [H1 H2]. rewrite H1, H2. split; reflexivity.
  - unfold ack_release. destruct (remove_first_rel _ _); cbn [negb fst]; [|split; reflexivity].
    destruct (rc_success _); split; reflexivity.
  - pose proof (ack_packet_len (s_ob s) pid (inv_ob _ I)) as Hl. destruct (ack_packet _ _) as [o f]. cbn [fst] in Hl.
    destruct f; cbn [negb]; [|split; reflexivity]. destruct (all_success _); cbn [fst set_ob s_ob s_cfg]; split; try exact Hl; reflexivity.
  - pose proof (ack_packet_len (s_ob s) pid (inv_ob _ I)) as Hl. destruct (ack_packet _ _) as [o f]. cbn [fst] in Hl.
    destruct f; cbn [negb]; [|split; reflexivity]. destruct (all_success _); cbn [fst set_ob s_ob s_cfg]; split; try exact Hl; reflexivity.
Qed.

Lemma publish_middle_cap : forall s live r, Inv s ->
  lenN (ob_buf (s_ob (fst (publish_middle s live r)))) = lenN (ob_buf (s_ob s)) /\ s_cfg (fst (publish_middle s live r)) = s_cfg s.
Proof.
  intros s live r I. unfold publish_middle. destruct (negb (props_valid_for _ _)); [split; reflexivity|].
  destruct (compact_spec (s_ob s) (oi_arena _ (inv_ob _ I))) as [_ [_ [_ [C4 _]]]].
  destruct (effective_qos _ _).
  - destruct (negb _); [split; reflexivity|]. destruct (enc_publish _ _); cbn [fst set_ob s_ob s_cfg]; [|split; [exact C4|reflexivity]].
    destruct (too_large _ _); [split; [exact C4|reflexivity]|]. destruct (negb live); split; try exact C4; reflexivity.
  - unfold next_packet_id. destruct (next_packet_id_go _ _ _) as [nxt id]. cbn [set_pid s_ob s_rt].
    destruct (retained_full _); [split; reflexivity|]. destruct (negb _); [split; reflexivity|].
    match goal with |- context [encode_at (s_ob s) ?f] => set (enc := f) end.
    pose proof (encode_at_len (s_ob s) enc (inv_ob _ I) (fun c o b H => enc_publish_fits _ c o b H)) as Hl.
    destruct (encode_at (s_ob s) enc) as [o1 er]. cbn [fst] in Hl.
    destruct er; cbn [fst set_ob s_ob s_cfg]; [|split; [exact Hl|reflexivity]].
    destruct (too_large _ _); cbn [fst set_ob s_ob s_cfg]; [split; [exact Hl|reflexivity]|].
    destruct (retain_packet o1 id off len) as [o2|] eqn:Er; cbn [fst set_ob set_rt s_ob s_cfg]; [|split; [exact Hl|reflexivity]].
    rewrite (retain_packet_buf _ _ _ _ _ Er). split; [exact Hl|reflexivity].
  - unfold next_packet_id. destruct (next_packet_id_go _ _ _) as [nxt id]. cbn [set_pid s_ob s_rt].
    destruct (retained_full _); [split; reflexivity|]. destruct (negb _); [split; reflexivity|].
    match goal with |- context [encode_at (s_ob s) ?f] => set (enc := f) end.
    pose proof (encode_at_len (s_ob s) enc (inv_ob _ I) (fun c o b H => enc_publish_fits _ c o b H)) as Hl.
    destruct (encode_at (s_ob s) enc) as [o1 er]. cbn [fst] in Hl.
    destruct er; cbn [fst set_ob s_ob s_cfg]; [|split; [exact Hl|reflexivity]].
    destruct (too_large _ _); cbn [fst set_ob s_ob s_cfg]; [split; [exact Hl|reflexivity]|].
    destruct (retain_packet o1 id off len) as [o2|] eqn:Er; cbn [fst set_ob set_rt s_ob s_cfg]; [|split; [exact Hl|reflexivity]].
    rewrite (retain_packet_buf _ _ _ _ _ Er). split; [exact Hl|reflexivity].
Qed.

Lemma CapInv_step : forall s l s', sstep s l s' -> Inv s -> CapInv s -> CapInv s'.
Proof.
  intros s l s' H I Hc. unfold CapInv in *. inversion H; subst; clear H; try exact Hc.
  - cbn [sess_handle_disconnect set_reader set_rt set_ob s_ob s_cfg]. rewrite arm_replay_len by apply I. exact Hc.
  - unfold maybe_queue_pingreq. destruct (should_queue_pingreq _ _); [|exact Hc]. destruct (check_control_size _ _); [exact Hc|].
    destruct (queue_control (s_ob s) CPing) as [o|] eqn:E; cbn [fst]; [|exact Hc].
    unfold queue_control in E. destruct (_ <=? _); [discriminate|]. inversion E; subst. exact Hc.
  - unfold set_written. destruct p; [unfold set_control_written; destruct (update_first _ _ _)
                                   |unfold set_release_written; destruct (update_first _ _ _)
                                   |unfold set_retained_written; destruct (update_first _ _ _)]; exact Hc.
  - unfold complete_flush. destruct p; [unfold flush_control; destruct (update_first _ _ _)
                                       |unfold flush_release; destruct (update_first _ _ _)
                                       |unfold flush_retained; destruct (update_first _ _ _)]; exact Hc.
  - destruct (handle_packet_cap s p I) as [H1 H2]. now rewrite H1, H2.
  - destruct (publish_middle_cap s live r I) as [H1 H2]. now rewrite H1, H2.
  - unfold subscribe_middle.
    destruct (enqueue_middle_cap s 2 (fun cap id => enc_subscribe cap {| sq_pid := id; sq_props := ps; sq_topics := t |})
                (fun id c o b Hx => enc_subscribe_fits _ c o b Hx) I) as [H1 H2]. now rewrite H1, H2.
  - unfold unsubscribe_middle.
    destruct (enqueue_middle_cap s 3 (fun cap id => enc_unsubscribe cap {| uq_pid := id; uq_props := ps; uq_topics := t |})
                (fun id c o b Hx => enc_unsubscribe_fits _ c o b Hx) I) as [H1 H2]. now rewrite H1, H2.
  - cbn [set_ob s_ob s_cfg]. rewrite arm_replay_len by apply I. exact Hc.
  - cbn [set_ob s_ob s_cfg]. destruct (compact_spec (s_ob s) (oi_arena _ (inv_ob _ I))) as [_ [_ [_ [C4 _]]]]. now rewrite C4.
  - unfold connack_process. destruct p as [p|]; [|exact Hc]. destruct p; try exact Hc.
    destruct (negb _); [exact Hc|]. destruct (connack_props _ _ _); [|exact Hc].
    destruct sp; cbn [fst s_ob s_cfg data_reset ob_clear ob_buf]; exact Hc.
Qed.

(* (b) capacity recovery: with nothing retained, the arena offers exactly what a new arena of that size offers *)
Lemma quiescent_compact : forall o, ob_ret o = [] ->
  ob_used (compact o) = 0 /\ ob_buf (compact o) = ob_buf o /\ ob_ret (compact o) = [].
Proof. intros o H. unfold compact. rewrite H. cbn [compact_go ob_used ob_buf ob_ret]. repeat split; reflexivity. Qed.

Lemma quiescent_encode_same : forall o cap enc, ob_ret o = [] -> lenN (ob_buf o) = cap ->
  snd (encode_at o enc) = snd (encode_at (ob_new cap) enc).
Proof.
  intros o cap enc Hr Hl. unfold encode_at.
  destruct (quiescent_compact o Hr) as [U1 [B1 _]]. destruct (quiescent_compact (ob_new cap) eq_refl) as [U2 [B2 _]].
  unfold ob_cap. rewrite U1, U2, B1, B2, Hl. cbn [ob_new ob_buf]. rewrite lenN_zerosN.
  destruct (enc (cap - 0)); reflexivity.
Qed.

Lemma quiescent_admission_same : forall o cap, ob_ret o = [] -> lenN (ob_buf o) = cap ->
  scratch_len o = scratch_len (ob_new cap) /\ can_retain o = can_retain (ob_new cap) /\
  retained_full o = retained_full (ob_new cap).
Proof.
  intros o cap Hr Hl.
  assert (Hs : scratch_len o = scratch_len (ob_new cap)).
  { unfold scratch_len, used_after_compact, ob_cap. rewrite Hr, Hl. cbn [ob_new ob_ret ob_buf map sumN].
    now rewrite lenN_zerosN. }
  split; [exact Hs|]. split.
  - unfold can_retain. rewrite Hs, Hr. reflexivity.
  - unfold retained_full. rewrite Hr. reflexivity.
Qed.
