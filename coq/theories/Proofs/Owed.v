(* Owed.v — what the outbound queues still owe the wire, and its conservation (C15 outbound, C02/C03 wire level, C16).

   `owed o` is a function of the outbound state alone: the unwritten remainder of the entry that is half written (if
   any), then every unsent entry — control packets, PUBRELs, retained packets, in that order, each queue in its own
   order.  One engine step on ANY transport (whatever part of the packet it accepts) moves bytes from the front of
   `owed` to the end of the wire and changes nothing else:   wire' ++ owed' = wire ++ owed.
   Hence the bytes that reach the transport are determined by the queues, not by how the transport fragments the writes
   (`flush_outbound_wire`: when the engine stops with nothing left, exactly `owed` was added to the wire). *)
From Coq Require Import List NArith Lia Bool PeanoNat.
From Coq Require Import ZifyBool ZifyN ZifyNat.
From Minimq Require Import Bytes Varint Utf8 Props Ser De Reader Spec Arena Core Show Machine Parse Run Util Lts Refine
  ArenaLemmas ArenaOps Inv Quota Status Persist Frames Limits Reach WireInv Chunking Wire Measure Terminate KeepAlive ConnectOk PingQuiet Healthy.
Import ListNotations.
Local Open Scope N_scope.

(* ---------------------------------------------------------------- definitions *)
Definition rest_part (st : sstate) (bs : bytes) : bytes :=
  match st with SWrite k => if N.eqb k 0 then [] else dropN k bs | _ => [] end.
Definition rest_fresh (st : sstate) (bs : bytes) : bytes := if is_fresh st then bs else [].

(* ---------------------------------------------------------------- generic list lemmas *)
Section Gen.
  Context {A : Type} (st : A -> sstate) (bs : A -> bytes).
  Definition Pq (l : list A) : bytes := concat (map (fun x => rest_part (st x) (bs x)) l).
  Definition Fq (l : list A) : bytes := concat (map (fun x => rest_fresh (st x) (bs x)) l).

  Lemma Pq_app : forall a b, Pq (a ++ b) = Pq a ++ Pq b.
  Proof. intros. unfold Pq. now rewrite map_app, concat_app. Qed.
  Lemma Fq_app : forall a b, Fq (a ++ b) = Fq a ++ Fq b.
  Proof. intros. unfold Fq. now rewrite map_app, concat_app. Qed.
  Lemma Pq_cons : forall x l, Pq (x :: l) = rest_part (st x) (bs x) ++ Pq l.
  Proof. reflexivity. Qed.
  Lemma Fq_cons : forall x l, Fq (x :: l) = rest_fresh (st x) (bs x) ++ Fq l.
  Proof. reflexivity. Qed.

  Lemma rest_part_quiet : forall s b, sstate_partial s = false -> rest_part s b = [].
  Proof. intros [k| |] b H; cbn [rest_part sstate_partial] in *; try reflexivity. destruct (N.eqb k 0); [reflexivity|discriminate]. Qed.
  Lemma rest_part_nip : forall s b, is_in_progress s = false -> rest_part s b = [].
  Proof. intros s b H. apply rest_part_quiet. now apply partial_is_ip. Qed.

  Lemma Pq_quiet : forall l, Forall (fun x => is_in_progress (st x) = false) l -> Pq l = [].
  Proof. induction l as [|x t IH]; intros H; [reflexivity|]. inversion H; subst. rewrite Pq_cons, rest_part_nip by assumption. now apply IH. Qed.
  Lemma Fq_none : forall l, Forall (fun x => is_fresh (st x) = false) l -> Fq l = [].
  Proof.
    induction l as [|x t IH]; intros H; [reflexivity|]. inversion H as [|? ? Hx Ht]; subst. rewrite Fq_cons. unfold rest_fresh. rewrite Hx. now apply IH.
  Qed.
  Lemma Pq_fresh : forall l, Forall (fun x => is_fresh (st x) = true) l -> Pq l = [].
  Proof. intros l H. apply Pq_quiet. eapply Forall_impl; [|exact H]. intros x. apply fresh_not_ip. Qed.

End Gen.
Lemma ipl_quiet : forall {A} (st : A -> sstate) l, ipl (map st l) = 0%nat -> Forall (fun x => is_in_progress (st x) = false) l.
Proof.
  intros A st. induction l as [|x t IH]; intros H; [constructor|]. cbn [map] in H. rewrite ipl_cons in H.
  destruct (is_in_progress (st x)) eqn:E; [lia|]. constructor; [exact E|apply IH; lia].
Qed.

Definition ret_bytes (buf : bytes) (e : rentry) : bytes := sliceN (re_off e) (re_len e) buf.
Definition cbytes (e : centry) : bytes := ctl_bytes (ce_act e).
Definition lbytes (e : lentry) : bytes := rel_bytes (le_pid e) (le_rc e).

Definition part_of (o : outbound) : bytes :=
  Pq ce_st cbytes (ob_ctl o) ++ Pq le_st lbytes (ob_rel o) ++ Pq re_st (ret_bytes (ob_buf o)) (ob_ret o).
Definition fresh_of (o : outbound) : bytes :=
  Fq ce_st cbytes (ob_ctl o) ++ Fq le_st lbytes (ob_rel o) ++ Fq re_st (ret_bytes (ob_buf o)) (ob_ret o).
Definition owed (o : outbound) : bytes := part_of o ++ fresh_of o.

Lemma find_none_forall : forall {A} (p : A -> bool) l, find p l = None -> Forall (fun x => p x = false) l.
Proof.
  intros A p. induction l as [|x t IH]; intros H; [constructor|]. cbn [find] in H. destruct (p x) eqn:E; [discriminate|].
  constructor; [exact E|now apply IH].
Qed.

Lemma find_split : forall {A} (p : A -> bool) l e, find p l = Some e ->
  exists pre post, l = pre ++ e :: post /\ Forall (fun x => p x = false) pre /\ p e = true.
Proof.
  intros A p. induction l as [|x t IH]; intros e H; [discriminate|]. cbn [find] in H. destruct (p x) eqn:E.
  - inversion H; subst. exists [], t. split; [reflexivity|]. split; [constructor|exact E].
  - destruct (IH e H) as [pre [post [-> [Hp He]]]]. exists (x :: pre), post. split; [reflexivity|]. split; [constructor; assumption|exact He].
Qed.

Lemma update_first_at : forall {A} (p : A -> bool) (f : A -> A) pre e post,
  Forall (fun x => p x = false) pre -> p e = true -> update_first p f (pre ++ e :: post) = (pre ++ f e :: post, true).
Proof.
  intros A p f pre e post H He. induction H as [|x t Hx Ht IH]; cbn [app update_first]; [now rewrite He|].
  rewrite Hx, IH. reflexivity.
Qed.

Lemma nodup_pre_keys : forall {A} (key : A -> N) pre e post, NoDup (map key (pre ++ e :: post)) ->
  Forall (fun x => N.eqb (key x) (key e) = false) pre.
Proof.
  intros A key pre e post H. apply Forall_forall. intros x Hx. apply N.eqb_neq. intros E.
  rewrite map_app in H. cbn [map] in H. apply NoDup_remove_2 in H. apply H. apply in_or_app. left. rewrite <- E. now apply in_map.
Qed.

(* the remainder of an entry after `n` more bytes *)
Lemma rest_after : forall w n len bs, lenN bs = len -> n <> 0 -> n <= len - w -> w <= len ->
  takeN n (dropN w bs) ++ rest_part (set_written_state (w + n) len) bs = dropN w bs.
Proof.
  intros w n len bs Hl Hn Hle Hw. unfold set_written_state. destruct (N.leb_spec len (w + n)) as [L|L]; cbn [rest_part].
  - rewrite app_nil_r. apply takeN_all. rewrite lenN_dropN. lia.
  - destruct (N.eqb_spec (w + n) 0) as [E|_]; [lia|].
    transitivity (takeN n (dropN w bs) ++ dropN n (dropN w bs)); [|apply takeN_dropN].
    f_equal. rewrite Util.dropN_dropN. f_equal. lia.
Qed.

Lemma sws_not_fresh : forall w n len, n <> 0 -> is_fresh (set_written_state (w + n) len) = false.
Proof.
  intros. unfold set_written_state. destruct (_ <=? _); cbn [is_fresh]; [reflexivity|]. apply N.eqb_neq. lia.
Qed.

Lemma in_progress_write : forall w, is_in_progress (SWrite w) = negb (N.eqb w 0).
Proof. reflexivity. Qed.

(* ---------------------------------------------------------------- nothing to do: nothing owed *)
Lemma owed_no_step : forall o, next_step o = None -> owed o = [].
Proof.
  intros o H. unfold next_step, next_step_pass, orelse, find_ctl, find_rel, find_ret in H.
  destruct (find (fun e => matches_priority (ce_st e) true) (ob_ctl o)) eqn:C1; [discriminate|].
  destruct (find (fun e => matches_priority (le_st e) true) (ob_rel o)) eqn:L1; [discriminate|].
  destruct (find (fun e => matches_priority (re_st e) true) (ob_ret o)) eqn:R1; [discriminate|].
  destruct (find (fun e => matches_priority (ce_st e) false) (ob_ctl o)) eqn:C2; [discriminate|].
  destruct (find (fun e => matches_priority (le_st e) false) (ob_rel o)) eqn:L2; [discriminate|].
  destruct (find (fun e => matches_priority (re_st e) false) (ob_ret o)) eqn:R2; [discriminate|].
  apply find_none_forall in C1, L1, R1, C2, L2, R2. cbn [matches_priority] in *.
  unfold owed, part_of, fresh_of.
  rewrite (Pq_quiet ce_st _ _ C1), (Pq_quiet le_st _ _ L1), (Pq_quiet re_st _ _ R1).
  rewrite (Fq_none ce_st _ _ C2), (Fq_none le_st _ _ L2), (Fq_none re_st _ _ R2). reflexivity.
Qed.

(* ---------------------------------------------------------------- the engine step at session level *)
Lemma step_pass : forall o st, next_step o = Some st ->
  next_step_pass o (is_in_progress (step_state st)) = Some st /\
  (is_in_progress (step_state st) = false -> next_step_pass o true = None).
Proof.
  intros o st H. unfold next_step, orelse in H. destruct (next_step_pass o true) as [st1|] eqn:E1.
  - inversion H; subst st1. pose proof (pass_state _ _ _ E1) as Hp. cbn [matches_priority] in Hp. rewrite Hp. split; [exact E1|discriminate].
  - pose proof (pass_state _ _ _ H) as Hp. cbn [matches_priority] in Hp. rewrite (fresh_not_ip _ Hp). split; [exact H|reflexivity].
Qed.

Lemma ret_bytes_with : forall o l e, ret_bytes (ob_buf (with_ret o l)) e = ret_bytes (ob_buf o) e.
Proof. reflexivity. Qed.

Lemma rest_both : forall w bs, rest_part (SWrite w) bs ++ rest_fresh (SWrite w) bs = dropN w bs.
Proof.
  intros w bs. unfold rest_part, rest_fresh, is_fresh. destruct (N.eqb_spec w 0) as [->|_]; [now rewrite dropN_0|apply app_nil_r].
Qed.
Lemma rest_fresh_nf : forall st bs, is_fresh st = false -> rest_fresh st bs = [].
Proof. intros st bs H. unfold rest_fresh. now rewrite H. Qed.
Lemma rest_part_flush : forall bs, rest_part SFlush bs = [].
Proof. reflexivity. Qed.

(* the shape of `owed` around the entry `e` the engine works on; X collects what is owed by everything else *)
Lemma owed_around : forall w n (len : N) bs X st',
  takeN n (dropN w bs) ++ rest_part st' bs = dropN w bs ->
  rest_part (SWrite w) bs ++ rest_fresh (SWrite w) bs ++ X = takeN n (dropN w bs) ++ rest_part st' bs ++ X.
Proof. intros w n len bs X st' H. rewrite !app_assoc, rest_both, H. reflexivity. Qed.

Lemma with_rel_twice : forall o a b, with_rel (with_rel o a) b = with_rel o b.
Proof. reflexivity. Qed.
Lemma with_ret_twice : forall o a b, with_ret (with_ret o a) b = with_ret o b.
Proof. reflexivity. Qed.

Theorem engine_owed : forall s st p bs w len n now,
  WInv s -> next_step (s_ob s) = Some st -> prepare_step s st = PWrite p bs w len -> n <> 0 -> n <= len - w ->
  let s2 := fst (set_written s p (w + n) len) in
  owed (s_ob s) = takeN n (dropN w bs) ++ owed (s_ob s2) /\
  (len <= w + n -> owed (s_ob (fst (complete_flush s2 p now))) = owed (s_ob s2)).
Proof.
  intros s st p bs w len n now [I [F [Hs Hc]]] Hn Hp Hn0 Hnle.
  destruct (engine_resumes_at_offset s st p bs w len Hp) as [Hst Hkey].
  destruct (engine_tail s st p bs w len n (conj I (conj F (conj Hs Hc))) Hn Hp) as [_ [Hlen _]].
  destruct (nodup_ids _ (oi_nodup _ (inv_ob _ I))) as [Nret Nrel].
  destruct (step_pass _ _ Hn) as [Hpass _]. rewrite Hst in Hpass.
  assert (Hz : is_in_progress (SWrite w) = false -> nip (s_ob s) = 0%nat).
  { intros Hf. destruct (fresh_only_when_nothing_in_progress (s_ob s) st Hn) as [F1 [F2 F3]]; [now rewrite Hst|].
    now apply nothing_in_progress_nip. }
  unfold Single, nip in Hs. unfold nip in Hz.
  assert (Hwl : w <= len) by lia.
  assert (Hrest : takeN n (dropN w bs) ++ rest_part (set_written_state (w + n) len) bs = dropN w bs) by (apply rest_after; assumption).
  assert (Hnf : is_fresh (set_written_state (w + n) len) = false) by (now apply sws_not_fresh).
  assert (Hflush : len <= w + n -> set_written_state (w + n) len = SFlush).
  { intros L. unfold set_written_state. destruct (N.leb_spec len (w + n)); [reflexivity|lia]. }
  assert (Hfw : w <> 0 -> rest_fresh (SWrite w) bs = []).
  { intros E. apply rest_fresh_nf. cbn [is_fresh]. now apply N.eqb_neq. }
  cbv zeta. unfold set_written, complete_flush.
  destruct st as [a s0|pid rc s0|pid off l0 s0]; cbn [step_state] in Hst; subst s0.
  - (* ---- control: the entry is the head of its queue, the rest of the queue is unsent ---- *)
    subst p. destruct (ctl_step_head _ _ _ Hc Hn) as [t Et].
    assert (Hb : ctl_bytes a = bs).
    { unfold ctl_bytes. cbn [prepare_step] in Hp. destruct (encode_control_packet a); [|discriminate].
      destruct (too_large _ _); [discriminate|]. now inversion Hp. }
    rewrite Et in Hc, Hs, Hz. destruct Hc as [_ Ht]. cbn [map ce_st] in Hs, Hz. rewrite ipl_cons in Hs, Hz.
    assert (Qr : ipl (map le_st (ob_rel (s_ob s))) = 0%nat /\ ipl (map re_st (ob_ret (s_ob s))) = 0%nat).
    { assert (ipl (map ce_st t) = 0%nat).
      { apply ipl_fresh_all. apply Forall_forall. intros x Hx. apply in_map_iff in Hx. destruct Hx as [y [<- Hy]].
        rewrite Forall_forall in Ht. apply fresh_not_ip. now apply Ht. }
      destruct (is_in_progress (SWrite w)) eqn:Ei; [lia|specialize (Hz eq_refl); lia]. }
    destruct Qr as [Qrel Qret]. apply (ipl_quiet le_st) in Qrel. apply (ipl_quiet re_st) in Qret.
    unfold set_control_written, flush_control. rewrite Et. cbn [update_first ce_act]. rewrite caction_eqb_refl.
    cbn [fst set_ob set_rt s_ob with_ctl ob_ctl update_first ce_act]. rewrite caction_eqb_refl. cbn [fst].
    set (X := Fq ce_st cbytes t ++ Fq le_st lbytes (ob_rel (s_ob s)) ++ Fq re_st (ret_bytes (ob_buf (s_ob s))) (ob_ret (s_ob s))).
    assert (EA : owed (s_ob s) = rest_part (SWrite w) bs ++ rest_fresh (SWrite w) bs ++ X).
    { unfold owed, part_of, fresh_of. rewrite Et, Pq_cons, Fq_cons.
      change (cbytes {| ce_act := a; ce_st := SWrite w |}) with (ctl_bytes a). cbn [ce_st]. rewrite Hb.
      rewrite (Pq_fresh ce_st cbytes t Ht), (Pq_quiet le_st lbytes _ Qrel), (Pq_quiet re_st (ret_bytes (ob_buf (s_ob s))) _ Qret), !app_nil_r.
      unfold X. rewrite <- !app_assoc. reflexivity. }
    assert (EB : forall st', is_fresh st' = false ->
              owed (with_ctl (s_ob s) ({| ce_act := a; ce_st := st' |} :: t)) = rest_part st' bs ++ X).
    { intros st' Hf. unfold owed, part_of, fresh_of. cbn [ob_ctl ob_rel ob_ret ob_buf with_ctl]. rewrite Pq_cons, Fq_cons.
      change (cbytes {| ce_act := a; ce_st := st' |}) with (ctl_bytes a). cbn [ce_st]. rewrite Hb, (rest_fresh_nf _ _ Hf).
      rewrite (Pq_fresh ce_st cbytes t Ht), (Pq_quiet le_st lbytes _ Qrel), (Pq_quiet re_st (ret_bytes (ob_buf (s_ob s))) _ Qret), !app_nil_r.
      unfold X. cbn [app]. reflexivity. }
    split.
    + rewrite EA, (EB _ Hnf). now apply (owed_around w n len).
    + intros L. rewrite (Hflush L). cbn [filter ce_st sstate_eqb negb]. rewrite (filter_fresh_id t Ht).
      cbn [fst s_ob set_rt set_ob]. rewrite (EB SFlush eq_refl). cbn [rest_part app].
      unfold owed, part_of, fresh_of. cbn [ob_ctl ob_rel ob_ret ob_buf with_ctl].
      rewrite (Pq_fresh ce_st cbytes t Ht), (Pq_quiet le_st lbytes _ Qrel), (Pq_quiet re_st (ret_bytes (ob_buf (s_ob s))) _ Qret). reflexivity.
  - (* ---- release ---- *)
    subst p. unfold next_step_pass, orelse, find_ctl, find_rel, find_ret in Hpass.
    destruct (find (fun e => matches_priority (ce_st e) (is_in_progress (SWrite w))) (ob_ctl (s_ob s))) as [ec|] eqn:Fc; [discriminate|].
    destruct (find (fun e => matches_priority (le_st e) (is_in_progress (SWrite w))) (ob_rel (s_ob s))) as [e|] eqn:Fl;
      [|destruct (find _ (ob_ret (s_ob s))); discriminate].
    injection Hpass as Hpid Hrc Hse.
    destruct (find_split _ _ _ Fl) as [pre [post [El [Hpre He]]]].
    assert (Hb : rel_bytes pid rc = bs).
    { unfold rel_bytes. cbn [prepare_step] in Hp. destruct (encode_pubrel pid rc); [|discriminate].
      destruct (too_large _ _); [discriminate|]. now inversion Hp. }
    rewrite El in Nrel. pose proof (nodup_pre_keys le_pid pre e post Nrel) as Kpre. rewrite Hpid in Kpre.
    assert (Ke : N.eqb (le_pid e) pid = true) by (rewrite Hpid; apply N.eqb_refl).
    unfold set_release_written, flush_release. rewrite El.
    rewrite (update_first_at (fun e0 => N.eqb (le_pid e0) pid) _ pre e post Kpre Ke).
    cbn [fst set_ob set_rt s_ob with_rel ob_rel].
    rewrite (update_first_at (fun e0 => N.eqb (le_pid e0) pid) _ pre {| le_pid := le_pid e; le_rc := le_rc e; le_st := set_written_state (w + n) len |} post Kpre Ke). cbn [fst le_pid le_rc].
    rewrite Hpid, Hrc.
    (* everything but `e` is not in progress *)
    rewrite El in Hs, Hz. rewrite map_app in Hs, Hz. cbn [map] in Hs, Hz. rewrite ipl_app, ipl_cons, Hse in Hs, Hz.
    assert (Qs : ipl (map ce_st (ob_ctl (s_ob s))) = 0%nat /\ ipl (map le_st pre) = 0%nat /\ ipl (map le_st post) = 0%nat
                 /\ ipl (map re_st (ob_ret (s_ob s))) = 0%nat).
    { destruct (is_in_progress (SWrite w)) eqn:Ei; [lia|specialize (Hz eq_refl); lia]. }
    destruct Qs as [Qc [Qpre [Qpost Qret]]].
    apply (ipl_quiet ce_st) in Qc. apply (ipl_quiet le_st) in Qpre, Qpost. apply (ipl_quiet re_st) in Qret.
    set (X := Fq le_st lbytes post ++ Fq re_st (ret_bytes (ob_buf (s_ob s))) (ob_ret (s_ob s))).
    set (Y := Fq ce_st cbytes (ob_ctl (s_ob s)) ++ Fq le_st lbytes pre).
    assert (EB : forall st', owed (with_rel (s_ob s) (pre ++ {| le_pid := pid; le_rc := rc; le_st := st' |} :: post)) =
                             rest_part st' bs ++ Y ++ rest_fresh st' bs ++ X).
    { intros st'. unfold owed, part_of, fresh_of. cbn [ob_ctl ob_rel ob_ret ob_buf with_rel]. rewrite !Pq_app, !Fq_app, Pq_cons, Fq_cons.
      change (lbytes {| le_pid := pid; le_rc := rc; le_st := st' |}) with (rel_bytes pid rc). cbn [le_st]. rewrite Hb.
      rewrite (Pq_quiet ce_st cbytes _ Qc), (Pq_quiet le_st lbytes _ Qpre), (Pq_quiet le_st lbytes _ Qpost), (Pq_quiet re_st (ret_bytes (ob_buf (s_ob s))) _ Qret), !app_nil_r.
      unfold X, Y. cbn [app]. rewrite <- !app_assoc. reflexivity. }
    assert (EA : owed (s_ob s) = rest_part (SWrite w) bs ++ Y ++ rest_fresh (SWrite w) bs ++ X).
    { rewrite <- (EB (SWrite w)). f_equal. destruct (s_ob s) as [b0 u0 c0 r0 l0]. cbn [ob_rel] in El. subst l0.
      unfold with_rel. cbn [ob_buf ob_used ob_ctl ob_ret]. destruct e as [p1 r1 s1]. cbn [le_pid le_rc le_st] in *. now subst. }
    assert (HY : w = 0 -> Y = []).
    { intros ->. cbn [is_in_progress N.eqb negb matches_priority] in Fc, Hpre. apply find_none_forall in Fc.
      unfold Y. now rewrite (Fq_none ce_st cbytes _ Fc), (Fq_none le_st lbytes _ Hpre). }
    split.
    + rewrite EA, EB, (rest_fresh_nf _ _ Hnf). cbn [app].
      destruct (N.eqb_spec w 0) as [E0|E0].
      * rewrite (HY E0). cbn [app]. now apply (owed_around w n len).
      * rewrite (Hfw E0). cbn [app]. rewrite !app_assoc. f_equal. f_equal.
        pose proof (rest_both w bs) as Hrb. rewrite (Hfw E0), app_nil_r in Hrb. rewrite Hrb. symmetry. exact Hrest.
    + intros L. rewrite (Hflush L). cbn [fst s_ob set_rt set_ob]. rewrite ?with_rel_twice, ?with_ret_twice, !EB. reflexivity.
  - (* ---- retained ---- *)
    destruct Hkey as [-> ->]. unfold next_step_pass, orelse, find_ctl, find_rel, find_ret in Hpass.
    destruct (find (fun e => matches_priority (ce_st e) (is_in_progress (SWrite w))) (ob_ctl (s_ob s))) as [ec|] eqn:Fc; [discriminate|].
    destruct (find (fun e => matches_priority (le_st e) (is_in_progress (SWrite w))) (ob_rel (s_ob s))) as [el|] eqn:Fl; [discriminate|].
    destruct (find (fun e => matches_priority (re_st e) (is_in_progress (SWrite w))) (ob_ret (s_ob s))) as [e|] eqn:Fr0; [|discriminate].
    injection Hpass as Hpid Hoff Hl Hse.
    destruct (find_split _ _ _ Fr0) as [pre [post [El [Hpre He]]]].
    assert (Hb : bs = sliceN off l0 (ob_buf (s_ob s))).
    { cbn [prepare_step] in Hp. destruct (too_large _ _); [discriminate|]. inversion Hp; subst. unfold retained_packet. reflexivity. }
    rewrite El in Nret. pose proof (nodup_pre_keys re_pid pre e post Nret) as Kpre. rewrite Hpid in Kpre.
    assert (Ke : N.eqb (re_pid e) pid = true) by (rewrite Hpid; apply N.eqb_refl).
    unfold set_retained_written, flush_retained. rewrite El.
    rewrite (update_first_at (fun e0 => N.eqb (re_pid e0) pid) _ pre e post Kpre Ke).
    cbn [fst set_ob set_rt s_ob with_ret ob_ret].
    rewrite (update_first_at (fun e0 => N.eqb (re_pid e0) pid) _ pre {| re_pid := re_pid e; re_off := re_off e; re_len := re_len e; re_st := set_written_state (w + n) l0 |} post Kpre Ke). cbn [fst re_pid re_off re_len].
    rewrite Hpid, Hoff, Hl.
    rewrite El in Hs, Hz. rewrite map_app in Hs, Hz. cbn [map] in Hs, Hz. rewrite ipl_app, ipl_cons, Hse in Hs, Hz.
    assert (Qs : ipl (map ce_st (ob_ctl (s_ob s))) = 0%nat /\ ipl (map le_st (ob_rel (s_ob s))) = 0%nat /\ ipl (map re_st pre) = 0%nat
                 /\ ipl (map re_st post) = 0%nat).
    { destruct (is_in_progress (SWrite w)) eqn:Ei; [lia|specialize (Hz eq_refl); lia]. }
    destruct Qs as [Qc [Qrel [Qpre Qpost]]].
    apply (ipl_quiet ce_st) in Qc. apply (ipl_quiet le_st) in Qrel. apply (ipl_quiet re_st) in Qpre, Qpost.
    set (X := Fq re_st (ret_bytes (ob_buf (s_ob s))) post).
    set (Y := Fq ce_st cbytes (ob_ctl (s_ob s)) ++ Fq le_st lbytes (ob_rel (s_ob s)) ++ Fq re_st (ret_bytes (ob_buf (s_ob s))) pre).
    assert (EB : forall st', owed (with_ret (s_ob s) (pre ++ {| re_pid := pid; re_off := off; re_len := l0; re_st := st' |} :: post)) =
                             rest_part st' bs ++ Y ++ rest_fresh st' bs ++ X).
    { intros st'. unfold owed, part_of, fresh_of. cbn [ob_ctl ob_rel ob_ret ob_buf with_ret]. rewrite !Pq_app, !Fq_app, Pq_cons, Fq_cons.
      change (ret_bytes (ob_buf (s_ob s)) {| re_pid := pid; re_off := off; re_len := l0; re_st := st' |}) with (sliceN off l0 (ob_buf (s_ob s))).
      cbn [re_st]. rewrite <- Hb.
      rewrite (Pq_quiet ce_st cbytes _ Qc), (Pq_quiet le_st lbytes _ Qrel), (Pq_quiet re_st (ret_bytes (ob_buf (s_ob s))) _ Qpre), (Pq_quiet re_st (ret_bytes (ob_buf (s_ob s))) _ Qpost), !app_nil_r.
      unfold X, Y. cbn [app]. rewrite <- !app_assoc. reflexivity. }
    assert (EA : owed (s_ob s) = rest_part (SWrite w) bs ++ Y ++ rest_fresh (SWrite w) bs ++ X).
    { rewrite <- (EB (SWrite w)). f_equal. destruct (s_ob s) as [b0 u0 c0 r0 l1]. cbn [ob_ret] in El. subst r0.
      unfold with_ret. cbn [ob_buf ob_used ob_ctl ob_rel]. destruct e as [p1 o1 n1 s1]. cbn [re_pid re_off re_len re_st] in *. now subst. }
    assert (HY : w = 0 -> Y = []).
    { intros ->. cbn [is_in_progress N.eqb negb matches_priority] in Fc, Fl, Hpre. apply find_none_forall in Fc, Fl.
      unfold Y. now rewrite (Fq_none ce_st cbytes _ Fc), (Fq_none le_st lbytes _ Fl), (Fq_none re_st (ret_bytes (ob_buf (s_ob s))) _ Hpre). }
    split.
    + rewrite EA, EB, (rest_fresh_nf _ _ Hnf). cbn [app].
      destruct (N.eqb_spec w 0) as [E0|E0].
      * rewrite (HY E0). cbn [app]. now apply (owed_around w n l0).
      * rewrite (Hfw E0). cbn [app]. rewrite !app_assoc. f_equal. f_equal.
        pose proof (rest_both w bs) as Hrb. rewrite (Hfw E0), app_nil_r in Hrb. rewrite Hrb. symmetry. exact Hrest.
    + intros L. rewrite (Hflush L). cbn [fst s_ob set_rt set_ob]. rewrite ?with_rel_twice, ?with_ret_twice, !EB. reflexivity.
Qed.

(* a completed flush of the entry the engine picked: that entry owed nothing any more *)
Theorem engine_flush_owed : forall s st p now,
  WInv s -> next_step (s_ob s) = Some st -> prepare_step s st = PFlush p ->
  owed (s_ob (fst (complete_flush s p now))) = owed (s_ob s).
Proof.
  intros s st p now [I [F [Hs Hc]]] Hn Hp.
  pose proof (next_step_entry _ _ Hn) as He.
  destruct (nodup_ids _ (oi_nodup _ (inv_ob _ I))) as [Nret Nrel].
  unfold complete_flush.
  destruct st as [a s0|pid rc s0|pid off l0 s0]; destruct s0 as [w0| |]; cbn [prepare_step] in Hp; try discriminate;
    try (destruct (encode_control_packet _); [destruct (too_large _ _)|]; discriminate);
    try (destruct (encode_pubrel _ _); [destruct (too_large _ _)|]; discriminate);
    try (destruct (too_large _ _); discriminate).
  - (* control *) inversion Hp; subst p. destruct (ctl_step_head _ _ _ Hc Hn) as [t Et].
    rewrite Et in Hc. destruct Hc as [_ Ht].
    unfold flush_control. rewrite Et. cbn [update_first ce_act]. rewrite caction_eqb_refl. cbn [fst set_rt set_ob s_ob].
    cbn [filter ce_st sstate_eqb negb]. rewrite (filter_fresh_id t Ht).
    unfold owed, part_of, fresh_of. cbn [ob_ctl ob_rel ob_ret ob_buf with_ctl]. rewrite Et, Pq_cons, Fq_cons. cbn [ce_st rest_part rest_fresh is_fresh app].
    reflexivity.
  - (* release *) inversion Hp; subst p. destruct He as [e [Hin [Hpid [Hrc Hse]]]].
    destruct (update_first_unique le_pid (fun e0 => {| le_pid := le_pid e0; le_rc := le_rc e0; le_st := SSent |})
                (ob_rel (s_ob s)) e Nrel Hin) as [pre [post [El Hu]]].
    unfold flush_release. rewrite <- Hpid. destruct (update_first _ _ (ob_rel (s_ob s))) as [l b] eqn:E. cbn [fst] in Hu. subst l.
    cbn [fst set_rt set_ob s_ob]. unfold owed, part_of, fresh_of. cbn [ob_ctl ob_rel ob_ret ob_buf with_rel]. rewrite El.
    rewrite !Pq_app, !Fq_app, !Pq_cons, !Fq_cons. cbn [le_st]. rewrite Hse. cbn [rest_part rest_fresh is_fresh app]. reflexivity.
  - (* retained *) inversion Hp; subst p. destruct He as [e [Hin [Hpid [Hoff [Hl Hse]]]]].
    destruct (update_first_unique re_pid (fun e0 => {| re_pid := re_pid e0; re_off := re_off e0; re_len := re_len e0; re_st := SSent |})
                (ob_ret (s_ob s)) e Nret Hin) as [pre [post [El Hu]]].
    unfold flush_retained. rewrite <- Hpid. destruct (update_first _ _ (ob_ret (s_ob s))) as [l b] eqn:E. cbn [fst] in Hu. subst l.
    cbn [fst set_rt set_ob s_ob]. unfold owed, part_of, fresh_of. cbn [ob_ctl ob_rel ob_ret ob_buf with_ret]. rewrite El.
    rewrite !Pq_app, !Fq_app, !Pq_cons, !Fq_cons. cbn [re_st]. rewrite Hse. cbn [rest_part rest_fresh is_fresh app]. reflexivity.
Qed.

(* ---------------------------------------------------------------- the machine: one engine step conserves wire ++ owed *)
Definition total (w : world) : bytes := w_wire w ++ owed (s_ob (w_sess w)).

Lemma flush_current_conserves : forall p now w w' r,
  owed (s_ob (fst (complete_flush (w_sess w) p now))) = owed (s_ob (w_sess w)) ->
  flush_current p now w = (w', r) -> not_failed r -> total w' = total w.
Proof.
  intros p now w w' r Ho H Hr. unfold flush_current in H. destruct (w_live w); cbn [negb] in H; [|inversion H; subst; contradiction].
  destruct (io_flush w) as [w1 fr] eqn:Ef. destruct (io_flush_ghost _ _ _ Ef) as [Hs [Hw [Hlv Hpo]]].
  destruct fr.
  - destruct (complete_flush (w_sess w1) p now) as [s3 f3] eqn:Ec.
    assert (Es3 : s3 = fst (complete_flush (w_sess w) p now)) by (rewrite <- Hs, Ec; reflexivity).
    assert (Hw' : w' = upd_sess w1 s3) by (destruct f3; now inversion H). subst w'.
    unfold total. cbn [w_wire w_sess upd_sess]. rewrite Hw, Es3, Ho. reflexivity.
  - inversion H; subst. contradiction.
  - inversion H; subst. unfold total. now rewrite Hw, Hs.
Qed.

Theorem step_conserves : forall st now w w' r,
  WInv (w_sess w) -> next_step (s_ob (w_sess w)) = Some st ->
  perform_outbound_step st now w = (w', r) -> not_failed r -> total w' = total w.
Proof.
  intros st now w w' r I Hn H Hr. unfold perform_outbound_step in H.
  destruct (prepare_step (w_sess w) st) as [p bs written len|p| |e] eqn:Ep.
  - destruct (w_live w) eqn:Hl; cbn [negb] in H; [|inversion H; subst; contradiction].
    destruct (io_write (dropN written bs) w) as [w1 r0] eqn:Ew.
    destruct (io_write_ghost _ _ _ _ Ew) as [Hs [Hlv [Hpo Hwire]]].
    destruct r0 as [n| |].
    + destruct Hwire as [Hwire Hle]. destruct (N.eqb_spec n 0) as [En|En]; [inversion H; subst; contradiction|].
      destruct (engine_tail (w_sess w) st p bs written len n I Hn Ep) as [_ [Hlen _]].
      rewrite lenN_dropN, Hlen in Hle.
      destruct (engine_owed (w_sess w) st p bs written len n now I Hn Ep En Hle) as [E1 E2]. cbv zeta in E1, E2.
      destruct (set_written (w_sess w1) p (written + n) len) as [s2 found] eqn:Es.
      assert (Es2 : s2 = fst (set_written (w_sess w) p (written + n) len)) by (rewrite <- Hs, Es; reflexivity).
      assert (T2 : total (upd_sess w1 s2) = total w).
      { unfold total. cbn [w_wire w_sess upd_sess]. rewrite Hwire, Es2, E1, <- app_assoc. reflexivity. }
      destruct (negb found); [inversion H; subst; exact T2|].
      destruct (N.ltb_spec (written + n) len) as [L|L]; [inversion H; subst; exact T2|].
      rewrite <- T2. eapply flush_current_conserves; [|exact H|exact Hr].
      cbn [w_sess upd_sess]. rewrite Es2. apply E2. exact L.
    + inversion H; subst. contradiction.
    + inversion H; subst. unfold total. now rewrite Hwire, Hs.
  - eapply flush_current_conserves; [|exact H|exact Hr]. eapply engine_flush_owed; eassumption.
  - inversion H; subst. reflexivity.
  - inversion H; subst. contradiction.
Qed.

(* ---------------------------------------------------------------- flush_outbound on ANY transport *)
(* If the drain the user operations perform (publish, subscribe, unsubscribe run it before and after queueing) comes to
   its end, then — however the transport cut the writes into pieces — the bytes it accepted are exactly `owed`, and
   nothing is left.  (No PINGREQ falls due meanwhile: time does not pass inside the drain.) *)
Theorem flush_outbound_wire : forall fuel w w',
  WInv (w_sess w) -> PQ w -> flush_outbound fuel w = (w', ODone tt) ->
  w_wire w' = w_wire w ++ owed (s_ob (w_sess w)) /\ next_step (s_ob (w_sess w')) = None.
Proof.
  induction fuel as [|f IH]; intros w w' I Hq H; [discriminate|]. cbn [flush_outbound] in H.
  rewrite (pq_no_ping w Hq), upd_sess_id in H.
  destruct (next_step (s_ob (w_sess w))) as [st|] eqn:En.
  - destruct (perform_outbound_step st (w_now w) w) as [w2 r] eqn:E2.
    destruct r as [b|e| | |]; try discriminate.
    assert (I2 : WInv (w_sess w2)).
    { pose proof (perform_outbound_step_wq st (w_now w) w En) as Hwq. rewrite E2 in Hwq. eapply WInv_wq; [exact Hwq|exact I]. }
    destruct (step_pq _ _ _ _ I En Hq E2 Logic.I) as [Q2 _].
    pose proof (step_conserves _ _ _ _ _ I En E2 Logic.I) as Hc. unfold total in Hc.
    destruct (IH w2 w' I2 Q2 H) as [Hw Hnone]. split; [|exact Hnone]. rewrite Hw, Hc. reflexivity.
  - inversion H; subst w'. split; [|exact En]. rewrite (owed_no_step _ En), app_nil_r. reflexivity.
Qed.

(* the healthy drive of Healthy.v, with what it puts on the wire *)
Theorem drive_loop_wire : forall fuel adv w w' pr, Hd w -> NA w -> drive_loop fuel adv w = (w', ODone pr) ->
  w_wire w' = w_wire w ++ owed (s_ob (w_sess w)).
Proof.
  induction fuel as [|f IH]; intros adv w w' pr Hh Hna H; [discriminate|]. cbn [drive_loop] in H.
  assert (Ep : process_received w = (w, ODone None)).
  { unfold process_received. unfold NA in Hna. rewrite Hna. reflexivity. }
  rewrite Ep in H. unfold NA in Hna. rewrite Hna in H.
  destruct (Hd_service w Hh) as [Ht Hq]. unfold service in H. rewrite Ht, Hq in H. rewrite upd_sess_id in H.
  assert (I : WInv (w_sess w)) by (destruct Hh as [[_ [_ [I _]]] _]; exact I).
  destruct (next_step (s_ob (w_sess w))) as [st|] eqn:En.
  - destruct (healthy_perform st w Hh En) as [w2 [E2 [H2 [R2 N2]]]]. rewrite E2 in H.
    pose proof (step_conserves _ _ _ _ _ I En E2 Logic.I) as Hc. unfold total in Hc.
    assert (Na2 : NA w2) by (unfold NA; rewrite R2; exact Hna).
    destruct (next_step (s_ob (w_sess w2))) as [st2|] eqn:En2.
    + rewrite (IH _ _ _ _ H2 Na2 H). exact Hc.
    + inversion H; subst w'. rewrite (owed_no_step _ En2), app_nil_r in Hc. exact Hc.
  - rewrite En in H. inversion H; subst w'. rewrite (owed_no_step _ En), app_nil_r. reflexivity.
Qed.
