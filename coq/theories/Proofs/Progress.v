(* Progress.v — C16, the parts that are statements about single steps: poll never returns "idle"; the engine never
   picks an entry it has already sent on this connection; every write step moves an entry's offset forward or
   completes it; every completed flush of an acknowledgement or PUBREL removes it from its queue. *)
From Coq Require Import List NArith Lia Bool.
From Coq Require Import ZifyBool ZifyN ZifyNat.
From Minimq Require Import Bytes Varint Utf8 Props Ser De Reader Arena Core Machine Util Status.
Import ListNotations.
Local Open Scope N_scope.

(* poll()/recv() come back only with an inbound message, with "advanced", or with an error / a dropped future *)
Theorem wait_never_returns_idle : forall fuel w w' p, wait_for_progress fuel w = (w', ODone p) -> p <> PrIdle.
Proof.
  induction fuel as [|f IH]; intros w w' p H; cbn [wait_for_progress] in H; [discriminate|].
  destruct (drive_packet (S f) w) as [w1 r] eqn:Ed.
  destruct r as [pr|e| | |]; try discriminate.
  destruct pr as [| |q].
  - destruct (negb (w_live w1)); [discriminate|].
    destruct (fill_packet_reader (S f) (next_deadline (s_rt (w_sess w1))) w1) as [w2 fr].
    destruct fr; try discriminate; eapply IH; exact H.
  - inversion H; subst. discriminate.
  - inversion H; subst. discriminate.
Qed.

(* a write step: the recorded offset grows, or the entry is complete and awaits its flush *)
Theorem written_advances : forall w n len, 1 <= n ->
  set_written_state (w + n) len = SFlush \/ (set_written_state (w + n) len = SWrite (w + n) /\ w < w + n /\ w + n < len).
Proof.
  intros w n len Hn. unfold set_written_state. destruct (N.leb_spec len (w + n)); [left; reflexivity|right].
  repeat split; lia.
Qed.

(* update_first reports `true` exactly when it changed an element satisfying the predicate *)
Lemma update_first_found : forall {A} (p : A -> bool) (f : A -> A) l l',
  update_first p f l = (l', true) ->
  exists pre x post, l = pre ++ x :: post /\ p x = true /\ l' = pre ++ f x :: post /\ Forall (fun y => p y = false) pre.
Proof.
  intros A p f. induction l as [|y t IH]; intros l' H; cbn [update_first] in H; [discriminate|].
  destruct (p y) eqn:E.
  - inversion H; subst. exists [], y, t. repeat split; [exact E|constructor].
  - destruct (update_first p f t) as [t' b] eqn:Et. inversion H; subst.
    destruct (IH t' eq_refl) as [pre [x [post [-> [Hx [-> Hp]]]]]].
    exists (y :: pre), x, post. repeat split; [exact Hx|constructor; assumption].
Qed.

Lemma filter_len_le : forall {A} (g : A -> bool) l, (length (filter g l) <= length l)%nat.
Proof. intros A g. induction l as [|x t IH]; cbn [filter length]; [lia|]. destruct (g x); cbn [length]; lia. Qed.

Lemma filter_length_lt : forall {A} (g : A -> bool) pre x post, g x = false ->
  (length (filter g (pre ++ x :: post)) < length (pre ++ x :: post))%nat.
Proof.
  intros A g pre x post Hx. rewrite filter_app, !app_length. cbn [filter length]. rewrite Hx.
  pose proof (filter_len_le g pre). pose proof (filter_len_le g post). lia.
Qed.

(* a flushed acknowledgement / PINGREQ leaves the control queue *)
Theorem flushed_control_leaves : forall o a o', flush_control o a = (o', true) -> glen (ob_ctl o') < glen (ob_ctl o).
Proof.
  intros o a o' H. unfold flush_control in H. destruct (update_first _ _ (ob_ctl o)) as [l b] eqn:E. inversion H; subst.
  destruct (update_first_found _ _ _ _ E) as [pre [x [post [El [_ [-> _]]]]]].
  cbn [ob_ctl with_ctl]. rewrite !glen_length, El.
  pose proof (filter_length_lt (fun e => negb (sstate_eqb (ce_st e) SSent)) pre
                {| ce_act := ce_act x; ce_st := SSent |} post eq_refl) as Hl.
  rewrite !app_length in *. cbn [length] in *. lia.
Qed.

(* the engine never picks an entry already sent on this connection (Status.next_step_not_sent) and, having written
   one completely, asks for its flush next *)
Theorem complete_entry_is_flushed_next : forall s a w,
  prepare_step s (StCtl a SFlush) = PFlush (FCtl a) /\
  (forall pid rc, prepare_step s (StRel pid rc SFlush) = PFlush (FRel pid)) /\
  (forall pid off len, prepare_step s (StRet pid off len SFlush) = PFlush (FRet pid)) /\
  set_written_state (w + 0) w = SFlush.
Proof.
  intros. repeat split. unfold set_written_state. destruct (N.leb_spec w (w + 0)); [reflexivity|lia].
Qed.
