(* Persist.v — an accepted packet is never lost: the bytes of a retained packet (modulo the DUP bit) stay in the
   retained list, step after step, until an acknowledgement naming its identifier is processed or a fresh broker
   session is established (C02, C03, C17). *)
From Coq Require Import Arith ZArith Lia ZifyBool ZifyN ZifyNat.
From Minimq Require Import Util Bytes Varint Utf8 Props Ser De Reader Arena Core.
From Minimq Require Import PacketShape.
From Minimq Require Import ArenaLemmas SerLemmas ArenaOps Inv Lts Quota Status.

Definition clear_bit3 (x : N) : N := if N.testbit x 3 then x - 8 else x.
Definition undup (b : bytes) : bytes := match b with x :: t => clear_bit3 x :: t | [] => [] end.

Section Bits.
Local Ltac Zify.zify_post_hook ::= Z.div_mod_to_equations.
Lemma testbit3 : forall x, N.testbit x 3 = N.eqb ((x / 8) mod 2) 1.
Proof. intros. rewrite N.testbit_eqb. reflexivity. Qed.
Lemma clear_set_bit3 : forall x, clear_bit3 (set_bit3 x) = clear_bit3 x.
Proof.
  intros x. unfold clear_bit3, set_bit3. rewrite (testbit3 x).
  destruct (N.eqb_spec ((x / 8) mod 2) 1) as [E|E].
  - rewrite (testbit3 x). destruct (N.eqb_spec ((x / 8) mod 2) 1); [reflexivity|contradiction].
  - rewrite (testbit3 (x + 8)). destruct (N.eqb_spec (((x + 8) / 8) mod 2) 1) as [E2|E2]; lia.
Qed.
End Bits.

Lemma undup_dup : forall b, undup (dup_bytes b) = undup b.
Proof. destruct b as [|x t]; cbn [dup_bytes undup]; [reflexivity|]. now rewrite clear_set_bit3. Qed.

Definition has_entry (o : outbound) (pid : N) (ub : bytes) : Prop :=
  exists bs st, In (pid, bs, st) (abs o) /\ undup bs = ub.

(* the (identifier, bytes) pairs of the abstract view *)
Definition a_key (a : aentry) : N * bytes := (fst (fst a), a_bytes a).

Lemma has_entry_keys : forall o o' pid ub, map a_key (abs o') = map a_key (abs o) -> has_entry o pid ub -> has_entry o' pid ub.
Proof.
  intros o o' pid ub Hk [bs [st [Hin Hu]]].
  assert (In (pid, bs) (map a_key (abs o))) by (apply in_map_iff; exists (pid, bs, st); split; [reflexivity|exact Hin]).
  rewrite <- Hk in H. apply in_map_iff in H. destruct H as [[[p b] st'] [Hk' Hin']].
  unfold a_key, a_bytes in Hk'. cbn [fst snd] in Hk'. injection Hk' as Hp Hb. rewrite Hp, Hb in Hin'.
  exists bs, st'. split; assumption.
Qed.

Lemma keys_states : forall o o',
  ob_buf o' = ob_buf o -> map re_pid (ob_ret o') = map re_pid (ob_ret o) ->
  map re_off (ob_ret o') = map re_off (ob_ret o) -> map re_len (ob_ret o') = map re_len (ob_ret o) ->
  map a_key (abs o') = map a_key (abs o).
Proof.
  intros o o' Hb Hp Ho Hl. unfold abs. rewrite !map_map, Hb.
  generalize dependent (ob_ret o'). generalize (ob_ret o).
  induction l as [|e t IH]; intros l' Hp Ho Hl; destruct l' as [|e' t']; try discriminate; [reflexivity|].
  cbn [map] in *. inversion Hp; inversion Ho; inversion Hl. f_equal; [|now apply IH].
  unfold a_key, a_bytes, abs_entry, entry_bytes. cbn [fst snd]. congruence.
Qed.

Lemma has_entry_compact : forall o pid ub, arena_wf o -> has_entry o pid ub -> has_entry (compact o) pid ub.
Proof. intros o pid ub W H. destruct (compact_spec o W) as [_ [C2 _]]. unfold has_entry. now rewrite C2. Qed.

Lemma has_entry_dup : forall o pid ub, arena_wf o -> has_entry o pid ub -> has_entry (mark_retained_dup o) pid ub.
Proof.
  intros o pid ub W [bs [st [Hin Hu]]]. destruct (mark_retained_dup_spec o W) as [_ [M2 _]].
  exists (dup_bytes bs), st. rewrite M2. split; [|now rewrite undup_dup].
  apply in_map_iff. exists (pid, bs, st). split; [reflexivity|exact Hin].
Qed.

Lemma has_entry_arm_replay : forall o pid ub, arena_wf o -> has_entry o pid ub -> has_entry (arm_replay o) pid ub.
Proof.
  intros o pid ub W H. unfold arm_replay. destruct (negb (has_pending_state o)); [exact H|].
  pose proof (has_entry_dup o pid ub W H) as H1. set (o1 := mark_retained_dup o) in *.
  eapply (has_entry_keys o1); [|exact H1]. apply keys_states; cbn [ob_buf ob_ret]; try reflexivity; rewrite map_map; reflexivity.
Qed.

Lemma abs_remove_other : forall pid pid' l l' (a : aentry), abs_remove pid' l = Some l' -> fst (fst a) = pid -> pid <> pid' -> In a l -> In a l'.
Proof.
  induction l as [|[[p b] st] t IH]; intros l' a H Ha Hne Hin; cbn [abs_remove] in H; [discriminate|].
  destruct (N.eqb_spec p pid').
  - inversion H; subst. destruct Hin as [<-|Hin]; [cbn [fst] in Hne; contradiction|exact Hin].
  - destruct (abs_remove pid' t) as [t'|] eqn:E; [|discriminate]. inversion H; subst.
    destruct Hin as [<-|Hin]; [now left|right; eapply IH; eauto].
Qed.

Lemma has_entry_ack_other : forall o pid pid' ub, arena_wf o -> pid <> pid' -> has_entry o pid ub -> has_entry (fst (ack_packet o pid')) pid ub.
Proof.
  intros o pid pid' ub W Hne [bs [st [Hin Hu]]]. destruct (ack_packet o pid') as [o' f] eqn:E. cbn [fst].
  destruct (ack_packet_spec o pid' o' f W E) as [_ [_ [_ [_ Hf]]]]. destruct f.
  - exists bs, st. split; [|exact Hu]. eapply abs_remove_other; [exact Hf|reflexivity|exact Hne|exact Hin].
  - destruct Hf as [-> _]. exists bs, st. split; assumption.
Qed.

Lemma has_entry_encode_at : forall o enc pid ub, OInv o ->
  (forall cap off' bs, enc cap = SOk off' bs -> off' + lenN bs <= cap /\ 2 <= lenN bs) ->
  has_entry o pid ub -> has_entry (fst (encode_at o enc)) pid ub.
Proof.
  intros o enc pid ub H Henc He. pose proof (has_entry_compact o pid ub (oi_arena _ H) He) as Hc.
  unfold encode_at. destruct (enc _) as [off bs|e] eqn:E; cbn [fst]; [|exact Hc].
  eapply (has_entry_keys (compact o)); [|exact Hc].
  pose proof (OInv_compact o H) as Hoc. destruct (oi_arena _ Hoc) as [W Uu]. destruct (Henc _ _ _ E) as [Hfit _]. unfold ob_cap in Hfit.
  unfold abs. cbn [ob_ret ob_buf]. rewrite !map_map.
  revert W. generalize 0 as lo. generalize (ob_ret (compact o)) as es.
  induction es as [|e t IH]; intros lo W; cbn [map]; [reflexivity|].
  cbn [wf_layout] in W. destruct W as [W1 [W2 W3]]. pose proof (wf_layout_le _ _ _ W3). f_equal; [|eapply IH; exact W3].
  unfold a_key, a_bytes, abs_entry, entry_bytes. cbn [fst snd]. f_equal. apply slice_overwrite_before; lia.
Qed.

Lemma has_entry_retain : forall o enc o1 off len id o2 pid ub, OInv o ->
  (forall cap off' bs, enc cap = SOk off' bs -> off' + lenN bs <= cap /\ 2 <= lenN bs) ->
  encode_at o enc = (o1, EOk off len) -> retain_packet o1 id off len = Some o2 ->
  has_entry o pid ub -> has_entry o2 pid ub.
Proof.
  intros o enc o1 off len id o2 pid ub H Henc He Hr [bs [st [Hin Hu]]].
  destruct (encode_retain_spec o enc o1 off len id o2 (oi_arena _ H) Henc He Hr) as [nb [_ [Ab _]]].
  exists bs, st. rewrite Ab. split; [apply in_or_app; now left|exact Hu].
Qed.

(* the packets that can end the life of a retained entry *)
Definition names (p : rpacket) (pid : N) : Prop :=
  match p with
  | RPubAck i _ | RPubRec i _ | RSubAck i _ _ | RUnsubAck i _ _ => i = pid
  | _ => False
  end.

Lemma names_dec : forall p pid, names p pid \/ ~ names p pid.
Proof. intros p pid. destruct p; cbn [names]; try (right; tauto); destruct (N.eq_dec pid0 pid); tauto. Qed.

Lemma has_entry_queue_ctl : forall s a d pid ub, has_entry (s_ob s) pid ub -> has_entry (s_ob (fst (queue_ctl_checked s a d))) pid ub.
Proof.
  intros s a d pid ub H. unfold queue_ctl_checked. destruct (check_control_size _ _); [exact H|].
  destruct (queue_control (s_ob s) a) as [o|] eqn:E; cbn [fst]; [|exact H].
  unfold queue_control in E. destruct (_ <=? _); [discriminate|]. inversion E; subst. exact H.
Qed.

Lemma has_entry_handle_packet : forall s p pid ub, Inv s -> ~ names p pid ->
  has_entry (s_ob s) pid ub -> has_entry (s_ob (fst (handle_packet s p))) pid ub.
Proof.
  intros s p pid ub I Hn H. pose proof (oi_arena _ (inv_ob _ I)) as W.
  destruct p; cbn [handle_packet names] in *; try exact H.
  - destruct q; [exact H| |]; destruct pid0; try exact H; try (apply has_entry_queue_ctl; exact H).
    q2_split; apply has_entry_queue_ctl; exact H.
  - pose proof (has_entry_ack_other (s_ob s) pid pid0 ub W ltac:(congruence) H) as Ha.
    destruct (ack_packet _ _) as [o f]. cbn [fst] in Ha. destruct f; cbn [negb]; [|exact H]. destruct (rc_success _); exact Ha.
  - pose proof (has_entry_ack_other (s_ob s) pid pid0 ub W ltac:(congruence) H) as Ha.
    destruct (ack_packet _ _) as [o f]. cbn [fst] in Ha. destruct f.
    + destruct (negb _); cbn [fst set_rt set_ob s_ob]; [exact Ha|]. destruct (check_pubrel_size _ _ _); cbn [fst set_ob s_ob]; [exact Ha|].
      destruct (queue_release o pid0 0) as [o2|] eqn:E; cbn [fst set_ob s_ob]; [|exact Ha].
      unfold queue_release in E. destruct (_ <=? _); [discriminate|]. inversion E; subst. exact Ha.
    + destruct (has_pending_release _ _); [destruct (rc_success _)|]; exact H.
  - destruct (swap_remove_id _ _); apply has_entry_queue_ctl; exact H.
  - unfold ack_release. destruct (remove_first_rel _ _); cbn [negb fst]; [|exact H]. destruct (rc_success _); exact H.
  - pose proof (has_entry_ack_other (s_ob s) pid pid0 ub W ltac:(congruence) H) as Ha.
    destruct (ack_packet _ _) as [o f]. cbn [fst] in Ha. destruct f; cbn [negb]; [|exact H]. destruct (all_success _); exact Ha.
  - pose proof (has_entry_ack_other (s_ob s) pid pid0 ub W ltac:(congruence) H) as Ha.
    destruct (ack_packet _ _) as [o f]. cbn [fst] in Ha. destruct f; cbn [negb]; [|exact H]. destruct (all_success _); exact Ha.
Qed.

Lemma has_entry_enqueue : forall s k enc pid ub,
  (forall id cap off bs, enc cap id = SOk off bs -> off + lenN bs <= cap /\ 2 <= lenN bs) ->
  Inv s -> has_entry (s_ob s) pid ub -> has_entry (s_ob (fst (enqueue_middle s k enc))) pid ub.
Proof.
  intros s k enc pid ub Henc I H. unfold enqueue_middle. destruct (retained_full _); [exact H|].
  unfold next_packet_id. destruct (next_packet_id_go _ _ _) as [nxt id]. cbn [set_pid s_ob].
  pose proof (has_entry_encode_at (s_ob s) (fun cap => enc cap id) pid ub (inv_ob _ I) (fun c o b Hx => Henc id c o b Hx) H) as He.
  destruct (encode_at (s_ob s) (fun cap => enc cap id)) as [o1 er] eqn:Ee. cbn [fst] in He.
  destruct er; cbn [fst set_ob s_ob]; [|exact He]. destruct (too_large _ _); cbn [fst set_ob s_ob]; [exact He|].
  destruct (retain_packet o1 id off len) as [o2|] eqn:Er; cbn [fst set_ob s_ob]; [|exact He].
  eapply (has_entry_retain (s_ob s)); [apply I| |exact Ee|exact Er|exact H]. intros c o b Hx. eapply Henc. exact Hx.
Qed.

Lemma has_entry_publish : forall s live r pid ub, Inv s -> has_entry (s_ob s) pid ub -> has_entry (s_ob (fst (publish_middle s live r))) pid ub.
Proof.
  intros s live r pid ub I H. unfold publish_middle. destruct (negb (props_valid_for _ _)); [exact H|].
  pose proof (has_entry_compact _ pid ub (oi_arena _ (inv_ob _ I)) H) as Hc.
  destruct (effective_qos _ _).
  - destruct (negb _); [exact H|]. destruct (enc_publish _ _); cbn [fst set_ob s_ob]; [|exact Hc].
    destruct (too_large _ _); [exact Hc|]. destruct (negb live); exact Hc.
  - unfold next_packet_id. destruct (next_packet_id_go _ _ _) as [nxt id]. cbn [set_pid s_ob s_rt].
    destruct (retained_full _); [exact H|]. destruct (negb _); [exact H|].
    match goal with |- context [encode_at (s_ob s) ?f] => set (enc := f) end.
    pose proof (has_entry_encode_at (s_ob s) enc pid ub (inv_ob _ I) (fun c o b Hx => enc_publish_fits _ c o b Hx) H) as He.
    destruct (encode_at (s_ob s) enc) as [o1 er] eqn:Ee. cbn [fst] in He.
    destruct er; cbn [fst set_ob s_ob]; [|exact He]. destruct (too_large _ _); cbn [fst set_ob s_ob]; [exact He|].
    destruct (retain_packet o1 id off len) as [o2|] eqn:Er; cbn [fst set_ob set_rt s_ob]; [|exact He].
    eapply (has_entry_retain (s_ob s)); [apply I| |exact Ee|exact Er|exact H]. intros c o b Hx. eapply enc_publish_fits. exact Hx.
  - unfold next_packet_id. destruct (next_packet_id_go _ _ _) as [nxt id]. cbn [set_pid s_ob s_rt].
    destruct (retained_full _); [exact H|]. destruct (negb _); [exact H|].
    match goal with |- context [encode_at (s_ob s) ?f] => set (enc := f) end.
    pose proof (has_entry_encode_at (s_ob s) enc pid ub (inv_ob _ I) (fun c o b Hx => enc_publish_fits _ c o b Hx) H) as He.
    destruct (encode_at (s_ob s) enc) as [o1 er] eqn:Ee. cbn [fst] in He.
    destruct er; cbn [fst set_ob s_ob]; [|exact He]. destruct (too_large _ _); cbn [fst set_ob s_ob]; [exact He|].
    destruct (retain_packet o1 id off len) as [o2|] eqn:Er; cbn [fst set_ob set_rt s_ob]; [|exact He].
    eapply (has_entry_retain (s_ob s)); [apply I| |exact Ee|exact Er|exact H]. intros c o b Hx. eapply enc_publish_fits. exact Hx.
Qed.

(* one step: the entry persists unless the step handles an acknowledgement naming it or establishes a fresh session *)
Theorem entry_persist : forall s l s' pid ub, sstep s l s' -> Inv s -> has_entry (s_ob s) pid ub ->
  has_entry (s_ob s') pid ub \/
  (exists p ok, l = LPacket ok /\ names p pid /\ s' = fst (handle_packet s p)) \/
  (exists u m, l = LConnack false u m).
Proof.
  intros s l s' pid ub H I He. pose proof (oi_arena _ (inv_ob _ I)) as W. inversion H; subst; clear H.
  - left. cbn [sess_handle_disconnect set_reader set_rt set_ob s_ob]. now apply has_entry_arm_replay.
  - left. unfold maybe_queue_pingreq. destruct (should_queue_pingreq _ _); [|exact He]. destruct (check_control_size _ _); [exact He|].
    destruct (queue_control (s_ob s) CPing) as [o|] eqn:E; cbn [fst]; [|exact He].
    unfold queue_control in E. destruct (_ <=? _); [discriminate|]. inversion E; subst. exact He.
  - left. unfold set_written. destruct p.
    + unfold set_control_written. destruct (update_first _ _ _). exact He.
    + unfold set_release_written. destruct (update_first _ _ _). exact He.
    + unfold set_retained_written. destruct (update_first _ _ (ob_ret (s_ob s))) as [l0 b] eqn:E. cbn [fst set_ob s_ob].
      eapply (has_entry_keys (s_ob s)); [|exact He]. apply keys_states; cbn [with_ret ob_buf ob_ret]; try reflexivity;
        (replace l0 with (fst (update_first (fun e => N.eqb (re_pid e) pid0)
           (fun e => {| re_pid := re_pid e; re_off := re_off e; re_len := re_len e; re_st := set_written_state (w + n) len |}) (ob_ret (s_ob s)))) by now rewrite E);
        apply update_first_map; reflexivity.
  - left. unfold complete_flush. destruct p.
    + unfold flush_control. destruct (update_first _ _ _). exact He.
    + unfold flush_release. destruct (update_first _ _ _). exact He.
    + unfold flush_retained. destruct (update_first _ _ (ob_ret (s_ob s))) as [l0 b] eqn:E. cbn [fst set_ob set_rt s_ob].
      eapply (has_entry_keys (s_ob s)); [|exact He]. apply keys_states; cbn [with_ret ob_buf ob_ret]; try reflexivity;
        (replace l0 with (fst (update_first (fun e => N.eqb (re_pid e) pid0)
           (fun e => {| re_pid := re_pid e; re_off := re_off e; re_len := re_len e; re_st := SSent |}) (ob_ret (s_ob s)))) by now rewrite E);
        apply update_first_map; reflexivity.
  - left. exact He.
  - destruct (names_dec p pid) as [Hn|Hn].
    + right. left. eexists p, _. split; [reflexivity|]. split; [exact Hn|reflexivity].
    + left. now apply has_entry_handle_packet.
  - left. now apply has_entry_publish.
  - left. unfold subscribe_middle. apply has_entry_enqueue; try assumption. intros. eapply enc_subscribe_fits; eassumption.
  - left. unfold unsubscribe_middle. apply has_entry_enqueue; try assumption. intros. eapply enc_unsubscribe_fits; eassumption.
  - left. exact He.
  - left. exact He.
  - left. exact He.
  - left. cbn [set_ob s_ob]. now apply has_entry_arm_replay.
  - left. cbn [set_ob s_ob]. now apply has_entry_compact.
  - unfold connack_label, connack_process. destruct p as [p|]; [|left; exact He]. destruct p; try (left; exact He).
    destruct (negb _); [left; exact He|]. destruct (connack_props _ _ _); cbn [fst snd]; [|left; exact He].
    destruct sp; [left; exact He|]. right. right. eexists _, _. reflexivity.
  - left. exact He.
Qed.
