(* Chunking.v — C15: the packet reader's output does not depend on how the transport fragments the inbound stream,
   and a packet written in several pieces from its recorded offset is the packet. *)
From Coq Require Import List NArith Lia Bool.
From Coq Require Import ZifyBool ZifyN ZifyNat.
From Minimq Require Import Bytes Varint Utf8 Props Ser De Reader Util.
Import ListNotations.
Local Open Scope N_scope.

(* ---------- the reader driven by a transport that hands over `cnt` bytes per read, 1 <= cnt <= window ---------- *)
(* big-step: RRun r input packets (final reader, unread input).  The choice of cnt at every read is free:
   that is the transport's fragmentation. *)
Inductive RRun : reader -> bytes -> list (N * option rpacket) -> reader * bytes -> Prop :=
| RR_packet r input r' pl p ps fin :
    packet_available r = true -> take_packet r = Some (r', pl, p) -> RRun r' input ps fin ->
    RRun r input ((pl, p) :: ps) fin
| RR_error r input r' :
    packet_available r = false -> receive_buffer r = (r', None) -> RRun r input [] (r', input)
| RR_starved r input r' w :
    packet_available r = false -> receive_buffer r = (r', Some w) -> 0 < w -> input = [] ->
    RRun r input [] (r', input)
| RR_zero r input r' ps fin :
    (* the probe has just learnt the length and nothing is missing: an empty window, then the packet is taken *)
    packet_available r = false -> receive_buffer r = (r', Some 0) -> packet_available r' = true ->
    RRun r' input ps fin -> RRun r input ps fin
| RR_stuck r input r' :
    packet_available r = false -> receive_buffer r = (r', Some 0) -> packet_available r' = false ->
    RRun r input [] (r', input)
| RR_chunk r input r' w cnt ps fin :
    packet_available r = false -> receive_buffer r = (r', Some w) -> 0 < w -> input <> [] ->
    1 <= cnt -> cnt <= w -> cnt <= lenN input ->
    RRun (commit r' (takeN cnt input)) (dropN cnt input) ps fin ->
    RRun r input ps fin.

(* the executable loop (the function behind the reader hook, returning values instead of text) *)
Fixpoint rloop (fuel : nat) (r : reader) (input : bytes) (frags : list N)
  : list (N * option rpacket) * option (reader * bytes) :=
  match fuel with
  | O => ([], None)
  | S f =>
      if packet_available r then
        match take_packet r with
        | Some (r', pl, p) => let '(ps, fin) := rloop f r' input frags in ((pl, p) :: ps, fin)
        | None => ([], Some (r, input))
        end
      else
        match receive_buffer r with
        | (r', None) => ([], Some (r', input))
        | (r', Some w) =>
            if N.eqb w 0 then
              if packet_available r' then rloop f r' input frags else ([], Some (r', input))
            else if N.eqb (lenN input) 0 then ([], Some (r', input))
            else
              let req := match frags with x :: _ => x | [] => 1 end in
              let cnt := N.min (N.min (N.max req 1) w) (lenN input) in
              rloop f (commit r' (takeN cnt input)) (dropN cnt input) (tl frags)
        end
  end.

Lemma lenN_zero_nil : forall (l : bytes), lenN l = 0 -> l = [].
Proof. intros [|x t] H; [reflexivity|]. rewrite lenN_cons in H. lia. Qed.

Lemma available_has_len : forall r, packet_available r = true -> exists pl, rplen r = Some pl.
Proof. intros r H. unfold packet_available in H. destruct (rplen r) as [pl|]; [now exists pl|discriminate]. Qed.

Lemma rloop_sound : forall fuel r input frags ps fin,
  rloop fuel r input frags = (ps, Some fin) -> RRun r input ps fin.
Proof.
  induction fuel as [|f IH]; intros r input frags ps fin H; cbn [rloop] in H; [inversion H|].
  destruct (packet_available r) eqn:Ea.
  - destruct (available_has_len r Ea) as [pl Epl]. unfold take_packet in H. rewrite Epl in H.
    destruct (rloop f (reader_reset r) input frags) as [ps0 fin0] eqn:E0. inversion H; subst.
    eapply RR_packet; [exact Ea|unfold take_packet; now rewrite Epl|]. eapply IH. exact E0.
  - destruct (receive_buffer r) as [r' ow] eqn:Er. destruct ow as [w|].
    + destruct (N.eqb_spec w 0) as [->|Hw].
      * destruct (packet_available r') eqn:Ea'.
        -- eapply RR_zero; [exact Ea|exact Er|exact Ea'|]. eapply IH. exact H.
        -- inversion H; subst. eapply RR_stuck; eassumption.
      * destruct (N.eqb_spec (lenN input) 0) as [Hz|Hz].
        -- inversion H; subst. eapply RR_starved; [exact Ea|exact Er|lia|now apply lenN_zero_nil].
        -- eapply RR_chunk; [exact Ea|exact Er|lia| |..|eapply IH; exact H]; try lia.
           intros ->. now rewrite lenN_nil in Hz.
    + inversion H; subst. eapply RR_error; eassumption.
Qed.

(* ---------- confluence: a larger read equals two smaller ones ---------- *)
Lemma window_gt1_known : forall r r' w, receive_buffer r = (r', Some w) -> 1 < w ->
  exists pl, rplen r' = Some pl /\ w = pl - read_bytes r' /\ pl <= rcap r'.
Proof.
  intros r r' w H Hw. unfold receive_buffer in H.
  destruct (match rplen r with None => probe r | Some _ => Some r end) as [r1|]; [|inversion H].
  destruct (rplen r1) as [pl|] eqn:Ep.
  - destruct (N.leb_spec pl (rcap r1)); inversion H; subst. exists pl. repeat split; assumption.
  - destruct (N.leb_spec (read_bytes r1 + 1) (rcap r1)); inversion H; subst. lia.
Qed.

Lemma receive_buffer_known : forall r pl, rplen r = Some pl ->
  receive_buffer r = if pl <=? rcap r then (r, Some (pl - read_bytes r)) else (r, None).
Proof. intros r pl H. unfold receive_buffer. rewrite H. cbv beta iota. rewrite H. reflexivity. Qed.

Lemma firstn_add : forall (l : bytes) a b, (firstn a l ++ firstn b (skipn a l) = firstn (a + b) l)%nat.
Proof.
  intros l a. revert l. induction a as [|a IH]; intros l b; [reflexivity|].
  destruct l as [|x t]; cbn [firstn skipn Nat.add app]; [now destruct b|]. now rewrite IH.
Qed.

Lemma takeN_takeN_dropN : forall (l : bytes) a b, takeN a l ++ takeN b (dropN a l) = takeN (a + b) l.
Proof. intros l a b. rewrite !takeN_firstn, dropN_skipn, N2Nat.inj_add. apply firstn_add. Qed.

Lemma skipn_add : forall (l : bytes) a b, (skipn b (skipn a l) = skipn (a + b) l)%nat.
Proof.
  intros l a. revert l. induction a as [|a IH]; intros l b; [reflexivity|].
  destruct l as [|x t]; cbn [skipn Nat.add]; [now destruct b|]. apply IH.
Qed.
Lemma dropN_dropN : forall (l : bytes) a b, dropN b (dropN a l) = dropN (a + b) l.
Proof. intros. rewrite !dropN_skipn, N2Nat.inj_add. apply skipn_add. Qed.

Lemma chunk_merge : forall r' input pl c1 c2 ps fin,
  rplen r' = Some pl -> pl <= rcap r' -> read_bytes r' + c2 <= pl -> 1 <= c1 -> c1 < c2 -> c2 <= lenN input ->
  RRun (commit r' (takeN c2 input)) (dropN c2 input) ps fin ->
  RRun (commit r' (takeN c1 input)) (dropN c1 input) ps fin.
Proof.
  intros r' input pl c1 c2 ps fin Hp Hc Hb H1 H12 Hl H.
  set (r1 := commit r' (takeN c1 input)).
  assert (Hr1 : rplen r1 = Some pl) by exact Hp.
  assert (Hrb : read_bytes r1 = read_bytes r' + c1).
  { unfold r1, read_bytes, commit. cbn [rdata]. rewrite lenN_app, lenN_takeN. lia. }
  eapply (RR_chunk r1 (dropN c1 input) r1 (pl - read_bytes r1) (c2 - c1)).
  - unfold packet_available. rewrite Hr1. destruct (N.leb_spec pl (read_bytes r1)); [lia|reflexivity].
  - rewrite (receive_buffer_known r1 pl Hr1). change (rcap r1) with (rcap r'). destruct (N.leb_spec pl (rcap r')); [reflexivity|lia].
  - lia.
  - intros E. apply (f_equal lenN) in E. rewrite lenN_dropN, lenN_nil in E. lia.
  - lia.
  - lia.
  - rewrite lenN_dropN. lia.
  - replace (commit r1 (takeN (c2 - c1) (dropN c1 input))) with (commit r' (takeN c2 input)).
    + rewrite dropN_dropN. replace (c1 + (c2 - c1)) with c2 by lia. exact H.
    + unfold r1, commit. cbn [rcap rdata rplen]. f_equal. rewrite <- app_assoc. f_equal.
      rewrite takeN_takeN_dropN. f_equal. lia.
Qed.

(* ---------- determinism: the packets and the final state do not depend on the fragmentation ---------- *)
Definition det_at (r : reader) (input : bytes) : Prop :=
  forall ps1 fin1 ps2 fin2, RRun r input ps1 fin1 -> RRun r input ps2 fin2 -> ps1 = ps2 /\ fin1 = fin2.

Ltac same_rb r :=
  repeat match goal with A : receive_buffer r = _, B : receive_buffer r = _ |- _ => rewrite A in B; inversion B; subst; clear B end.

(* a fresh reader (just reset) asks for one byte: no empty window, no multi-byte read *)
Lemma fresh_window : forall r r' w, rdata r = [] -> rplen r = None -> receive_buffer r = (r', Some w) -> w = 1 /\ r' = r.
Proof.
  intros r r' w Hd Hp H. unfold receive_buffer in H. rewrite Hp in H. unfold probe, read_bytes in H. rewrite Hd in H.
  cbn [lenN lenN_acc] in H. change (0 <=? 1) with true in H. cbv beta iota in H. rewrite Hp in H.
  unfold read_bytes in H. rewrite Hd in H. cbn [lenN lenN_acc] in H.
  destruct (0 + 1 <=? rcap r); inversion H; subst. split; reflexivity.
Qed.

Section Step.
Variable input : bytes.
Hypothesis IH : forall c, 1 <= c -> c <= lenN input -> forall r, det_at r (dropN c input).

Lemma det_fresh : forall r, rdata r = [] -> rplen r = None -> det_at r input.
Proof.
  intros r Hd Hp ps1 fin1 ps2 fin2 H1 H2.
  assert (Ea : packet_available r = false) by (unfold packet_available; now rewrite Hp).
  inversion H1; subst; try congruence; inversion H2; subst; try congruence; same_rb r; try (split; reflexivity);
    try match goal with A : receive_buffer r = (_, Some 0) |- _ => destruct (fresh_window _ _ _ Hd Hp A); lia end;
    try contradiction.
  match goal with A : receive_buffer r = (_, Some ?w) |- _ => destruct (fresh_window _ _ _ Hd Hp A) as [-> ->] end.
  assert (cnt = 1) by lia. assert (cnt0 = 1) by lia. subst.
  eapply (IH 1); [lia|lia|eassumption|eassumption].
Qed.

Lemma det_available : forall r, packet_available r = true -> det_at r input.
Proof.
  intros r Ea ps1 fin1 ps2 fin2 H1 H2.
  inversion H1; subst; try congruence. inversion H2; subst; try congruence.
  repeat match goal with A : take_packet r = _, B : take_packet r = _ |- _ => rewrite A in B; inversion B; subst; clear B end.
  match goal with
  | T : take_packet r = Some (?x, _, _), A : RRun ?x input _ fin1, B : RRun ?x input _ fin2 |- _ =>
      assert (Hx : rdata x = [] /\ rplen x = None)
        by (unfold take_packet in T; destruct (rplen r); inversion T; subst; split; reflexivity);
      destruct (det_fresh x (proj1 Hx) (proj2 Hx) _ _ _ _ A B) as [-> ->]
  end.
  split; reflexivity.
Qed.

Lemma det_unavailable : forall r, packet_available r = false -> det_at r input.
Proof.
  intros r Ea ps1 fin1 ps2 fin2 H1 H2.
  inversion H1; subst; try congruence; inversion H2; subst; try congruence; same_rb r; try (split; reflexivity);
    try lia; try contradiction; try congruence.
  - (* zero / zero *) eapply det_available; eassumption.
  - (* chunk / chunk *)
    match goal with A : receive_buffer r = (?x, Some ?w0) |- _ => rename x into rr; rename w0 into ww end.
    match goal with
    | A : RRun (commit rr (takeN ?c1 input)) (dropN ?c1 input) ps1 fin1,
      B : RRun (commit rr (takeN ?c2 input)) (dropN ?c2 input) ps2 fin2 |- _ =>
        destruct (N.lt_trichotomy c1 c2) as [L|[E|L]];
        [ destruct (window_gt1_known r rr ww) as [pl [Hp [Hw Hcap]]]; [assumption|lia|];
          eapply (IH c1); [lia|lia|exact A|]; eapply (chunk_merge rr input pl c1 c2); try eassumption; lia
        | subst; eapply (IH c2); [lia|lia|exact A|exact B]
        | destruct (window_gt1_known r rr ww) as [pl [Hp [Hw Hcap]]]; [assumption|lia|];
          eapply (IH c2); [lia|lia| |exact B]; eapply (chunk_merge rr input pl c2 c1); try eassumption; lia ]
    end.
Qed.

Lemma det_any : forall r, det_at r input.
Proof. intros r. destruct (packet_available r) eqn:E; [now apply det_available|now apply det_unavailable]. Qed.
End Step.

Theorem reader_deterministic : forall n input, lenN input <= n -> forall r, det_at r input.
Proof.
  induction n as [|n IH] using N.peano_ind; intros input Hn; apply det_any; intros c H1 H2.
  - lia.
  - apply IH. rewrite lenN_dropN. lia.
Qed.

(* the theorem in terms of the executable loop: two runs over the same stream with ANY two fragmentations that both
   run to completion yield the same packets (lengths and decodes), the same final reader and the same unread rest *)
Theorem reader_chunking_independent : forall f1 f2 r input frags1 frags2 ps1 fin1 ps2 fin2,
  rloop f1 r input frags1 = (ps1, Some fin1) -> rloop f2 r input frags2 = (ps2, Some fin2) ->
  ps1 = ps2 /\ fin1 = fin2.
Proof.
  intros f1 f2 r input frags1 frags2 ps1 fin1 ps2 fin2 H1 H2.
  eapply (reader_deterministic (lenN input) input (N.le_refl _) r); eapply rloop_sound; eassumption.
Qed.

(* non-vacuity: a PUBACK and a PINGRESP, read whole and read byte by byte *)
Example reader_runs_complete :
  rloop 40 (reader_new 16) [64; 2; 0; 7; 208; 0] [1000; 1000; 1000; 1000; 1000; 1000] =
  rloop 40 (reader_new 16) [64; 2; 0; 7; 208; 0] [] /\
  match rloop 40 (reader_new 16) [64; 2; 0; 7; 208; 0] [] with
  | (ps, Some _) => length ps = 2%nat
  | _ => False
  end.
Proof. vm_compute. split; reflexivity. Qed.

(* ---------- writes: pieces taken from the recorded offset concatenate to the packet ---------- *)
(* the engine writes takeN n (dropN written bs) and records written + n (perform_outbound_step / write_all) *)
Fixpoint pieces (bs : bytes) (written : N) (ns : list N) : bytes :=
  match ns with
  | [] => []
  | n :: t => takeN n (dropN written bs) ++ pieces bs (written + n) t
  end.

Theorem pieces_concat : forall ns bs written, pieces bs written ns = takeN (sumN ns) (dropN written bs).
Proof.
  induction ns as [|n t IH]; intros bs written; cbn [pieces sumN].
  - now rewrite takeN_0.
  - rewrite IH. rewrite <- (dropN_dropN bs written n). apply takeN_takeN_dropN.
Qed.

Corollary pieces_whole : forall ns bs, sumN ns = lenN bs -> pieces bs 0 ns = bs.
Proof.
  intros ns bs H. rewrite pieces_concat, dropN_0, H. apply takeN_all. lia.
Qed.
