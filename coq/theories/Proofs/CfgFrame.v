(* CfgFrame.v — the configuration of a session never changes: no step of the session LTS touches it, hence no operation of the machine. *)
From Coq Require Import List NArith Lia Bool.
From Minimq Require Import Bytes Varint Utf8 Props Ser De Reader Spec Arena Core Show Machine Parse Run Util Lts Refine.
Import ListNotations.
Local Open Scope N_scope.

Ltac crush_cfg :=
  repeat match goal with
         | |- context [match ?x with _ => _ end] => destruct x
         | |- context [if ?x then _ else _] => destruct x
         | |- context [let '(_, _) := ?x in _] => destruct x
         end; try reflexivity.

Lemma cfg_set_ob : forall s o, s_cfg (set_ob s o) = s_cfg s. Proof. intros [] ?; reflexivity. Qed.
Lemma cfg_set_rt : forall s o, s_cfg (set_rt s o) = s_cfg s. Proof. intros [] ?; reflexivity. Qed.
Lemma cfg_set_reader : forall s o, s_cfg (set_reader s o) = s_cfg s. Proof. intros [] ?; reflexivity. Qed.
Lemma cfg_set_pid : forall s o, s_cfg (set_pid s o) = s_cfg s. Proof. intros [] ?; reflexivity. Qed.
Lemma cfg_set_srv : forall s o, s_cfg (set_srv s o) = s_cfg s. Proof. intros [] ?; reflexivity. Qed.

Lemma cfg_ping : forall s now, s_cfg (fst (maybe_queue_pingreq s now)) = s_cfg s.
Proof. intros. unfold maybe_queue_pingreq. crush_cfg; cbn [fst]; rewrite ?cfg_set_ob, ?cfg_set_rt; reflexivity. Qed.
Ltac fin := cbn [fst]; rewrite ?cfg_set_ob, ?cfg_set_rt, ?cfg_set_reader, ?cfg_set_pid, ?cfg_set_srv; try reflexivity.
Lemma cfg_next_pid : forall s, s_cfg (fst (next_packet_id s)) = s_cfg s.
Proof. intros. unfold next_packet_id. destruct (next_packet_id_go _ _ _). cbn [fst]. apply cfg_set_pid. Qed.
Lemma cfg_written : forall s p k len, s_cfg (fst (set_written s p k len)) = s_cfg s.
Proof. intros. unfold set_written. crush_cfg; fin. Qed.
Lemma cfg_flush : forall s p now, s_cfg (fst (complete_flush s p now)) = s_cfg s.
Proof. intros. unfold complete_flush. crush_cfg; fin. Qed.
Lemma cfg_enqueue : forall s k enc, s_cfg (fst (enqueue_middle s k enc)) = s_cfg s.
Proof. intros. unfold enqueue_middle. destruct (retained_full _); [reflexivity|].
  pose proof (cfg_next_pid s) as H. destruct (next_packet_id s) as [s1 id]. cbn [fst] in H.
  destruct (encode_at _ _) as [o1 er]. destruct er; fin; try exact H.
  destruct (too_large _ _); fin; try exact H. destruct (retain_packet _ _ _ _); fin; exact H. Qed.
Lemma cfg_publish : forall s live r, s_cfg (fst (publish_middle s live r)) = s_cfg s.
Proof. intros. unfold publish_middle. destruct (negb _); [reflexivity|].
  pose proof (cfg_next_pid s) as H. destruct (next_packet_id s) as [s1 id]. cbn [fst] in H.
  destruct (effective_qos _ _).
  - crush_cfg; fin.
  - destruct (retained_full _); fin; try exact H. destruct (negb _); fin; try exact H.
    destruct (encode_at _ _) as [o1 er]. destruct er; fin; try exact H.
    destruct (too_large _ _); fin; try exact H. destruct (retain_packet _ _ _ _); fin; exact H.
  - destruct (retained_full _); fin; try exact H. destruct (negb _); fin; try exact H.
    destruct (encode_at _ _) as [o1 er]. destruct er; fin; try exact H.
    destruct (too_large _ _); fin; try exact H. destruct (retain_packet _ _ _ _); fin; exact H.
Qed.
Lemma cfg_qcc : forall s a d, s_cfg (fst (queue_ctl_checked s a d)) = s_cfg s.
Proof. intros. unfold queue_ctl_checked. crush_cfg; fin. Qed.
Lemma cfg_handle : forall s p, s_cfg (fst (handle_packet s p)) = s_cfg s.
Proof.
  intros s p. destruct p as [sp rc props|tp pid q rt dup props pl|pid rc|pid rc|pid rc|pid rc|pid props codes|pid props codes|rc props| ];
    cbn [handle_packet]; try reflexivity.
  2-7: try (crush_cfg; fin; fail).
  2: { destruct (swap_remove_id pid (s_srv s)); rewrite cfg_qcc; fin. }
  destruct q; [reflexivity| |]; (destruct pid as [id|]; [|reflexivity]).
  - apply cfg_qcc.
  - cbv zeta. match goal with |- context [queue_ctl_checked s ?a ?d] => pose proof (cfg_qcc s a d) as H; destruct (queue_ctl_checked s a d) as [s1 hr] end.
    cbn [fst] in *. destruct hr; [|exact H].
    match goal with |- context [if ?c then _ else _] => destruct c end; [exact H|]. rewrite cfg_set_srv. exact H.
Qed.
Lemma cfg_connack : forall s p now, s_cfg (fst (connack_process s p now)) = s_cfg s.
Proof.
  intros. unfold connack_process. destruct p as [p|]; [|reflexivity]. destruct p; try reflexivity.
  destruct (negb _); [reflexivity|]. cbv zeta. destruct (connack_props _ _ _); [|reflexivity].
  cbn [fst s_cfg]. destruct sp; reflexivity.
Qed.
Lemma sstep_cfg : forall s l s', sstep s l s' -> s_cfg s' = s_cfg s.
Proof.
  intros s l s' H. destruct H; try reflexivity; try (destruct s; reflexivity).
  - apply cfg_ping. - apply cfg_written. - apply cfg_flush. - apply cfg_handle. - apply cfg_publish.
  - apply cfg_enqueue. - apply cfg_enqueue. - apply cfg_connack.
Qed.

Lemma spath_cfg : forall s ls s', spath s ls s' -> s_cfg s' = s_cfg s.
Proof. intros s ls s' H. induction H as [|s l s1 ls s2 H1 _ IH]; [reflexivity|]. rewrite IH. eapply sstep_cfg; exact H1. Qed.
Lemma wq_cfg : forall w w', wq w w' -> s_cfg (w_sess w') = s_cfg (w_sess w).
Proof. intros w w' [b [[ls [H _]] _]]. eapply spath_cfg; exact H. Qed.

Theorem op_publish_cfg : forall fuel r w, s_cfg (w_sess (fst (op_publish fuel r w))) = s_cfg (w_sess w).
Proof. intros. apply wq_cfg, op_publish_wq. Qed.
Theorem op_poll_cfg : forall fuel w, s_cfg (w_sess (fst (op_poll fuel w))) = s_cfg (w_sess w).
Proof. intros. apply wq_cfg, op_poll_wq. Qed.
Theorem op_subscribe_cfg : forall fuel t ps w, s_cfg (w_sess (fst (op_subscribe fuel t ps w))) = s_cfg (w_sess w).
Proof. intros. apply wq_cfg, op_subscribe_wq. Qed.
Theorem op_unsubscribe_cfg : forall fuel t ps w, s_cfg (w_sess (fst (op_unsubscribe fuel t ps w))) = s_cfg (w_sess w).
Proof. intros. apply wq_cfg, op_unsubscribe_wq. Qed.
