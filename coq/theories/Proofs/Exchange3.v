(* Exchange3.v — C16, one whole SUBSCRIBE / UNSUBSCRIBE exchange against the answering broker: subscribe() (unsubscribe())
   on a quiescent healthy connection puts exactly the encoded request on the wire, the broker answers with the SUBACK (UNSUBACK)
   of its identifier, and the next poll() completes the handle. *)
From Coq Require Import List NArith Lia Bool PeanoNat.
From Coq Require Import ZifyBool ZifyN ZifyNat.
From Minimq Require Import Bytes Varint Utf8 Props Ser De Reader Spec Arena Core Show Machine Parse Run Util Lts Refine
  VarintProofs SerLemmas CodecProofs BrokerProofs ArenaLemmas ArenaOps Inv Quota Status Persist Frames Limits Reach WireInv Chunking Wire Measure
  Terminate KeepAlive ConnectOk PingQuiet Healthy Owed Sends Pings Framing Liveness PingAt Exchange.
Import ListNotations.
Local Open Scope N_scope.
Local Opaque u16_be.

(* ---------------------------------------------------------------- the drain of one freshly retained packet, answered by the broker *)
Lemma drain_single_retained_rt : forall f w2 e bs h rl body reply,
  Hc w2 -> PQ w2 ->
  ob_ctl (s_ob (w_sess w2)) = [] -> ob_rel (s_ob (w_sess w2)) = [] -> ob_ret (s_ob (w_sess w2)) = [e] -> re_st e = SWrite 0 ->
  sliceN (re_off e) (re_len e) (ob_buf (s_ob (w_sess w2))) = bs ->
  bs = h :: rl ++ body -> varint_write (lenN body) = Some rl -> broker_reply 1 bs = reply -> reply <> [] ->
  rt_ka_ms (s_rt (w_sess w2)) = 0 -> rt_ping_timeout (s_rt (w_sess w2)) = None ->
  w_broker w2 = 1 -> w_txbuf w2 = [] -> w_inq w2 = [] -> w_last_arrival w2 <= w_now w2 ->
  exists w3,
    flush_outbound (S (S f)) w2 = (w3, ODone tt) /\ w_wire w3 = w_wire w2 ++ bs /\ w_inq w3 = [(w_now w2, reply)] /\
    Hc w3 /\ s_reader (w_sess w3) = s_reader (w_sess w2) /\ w_now w3 = w_now w2 /\
    rt_next_ping (s_rt (w_sess w3)) = None /\ rt_ping_timeout (s_rt (w_sess w3)) = None /\
    ob_ctl (s_ob (w_sess w3)) = [] /\ ob_rel (s_ob (w_sess w3)) = [] /\ ob_ret (s_ob (w_sess w3)) = [sent_entry e] /\
    rt_quota (s_rt (w_sess w3)) = rt_quota (s_rt (w_sess w2)) /\
    w_broker w3 = 1 /\ w_txbuf w3 = [] /\ w_last_arrival w3 = w_now w2 /\
    s_rt (w_sess w3) = note_outbound_activity (s_rt (w_sess w2)) (w_now w2) /\ ob_buf (s_ob (w_sess w3)) = ob_buf (s_ob (w_sess w2)).
Proof.
  intros f w2 e bs h rl body reply Hc2 Q2 Ec2 El2 Er2 Est Ebs Elay Hrl Hrep Hne Hka Hpt Hbr Htx Hiq Hla.
  pose proof Hc2 as [Hs [Hl [I2 [Hmps _]]]].
  set (st := StRet (re_pid e) (re_off e) (re_len e) (SWrite 0)).
  assert (En2 : next_step (s_ob (w_sess w2)) = Some st) by (apply single_fresh_step; assumption).
  cbn [flush_outbound]. rewrite (pq_no_ping w2 Q2), upd_sess_id, En2.
  destruct (healthy_perform_core st w2 Hc2 En2) as [w3 [E3 [Hc3 [R3 [N3 [X3 V3]]]]]]. rewrite E3.
  destruct (X3 eq_refl) as [len S3]. cbn [st step_key] in S3.
  destruct (single_step_result (w_sess w2) e len (w_now w2) Er2) as [Er3 [Ec3 [El3 [Eb3 [Ert3 Erd3]]]]].
  cbv zeta in Er3, Ec3, El3, Eb3, Ert3, Erd3. rewrite <- S3 in Er3, Ec3, El3, Eb3, Ert3, Erd3.
  rewrite Ec2 in Ec3. rewrite El2 in El3.
  assert (En3 : next_step (s_ob (w_sess w3)) = None) by (eapply single_sent_no_step; eassumption).
  assert (Q3 : PQ w3) by exact (proj1 (step_pq _ _ _ _ I2 En2 Q2 E3 Logic.I)).
  destruct f as [|f]; cbn [flush_outbound]; rewrite (pq_no_ping w3 Q3), upd_sess_id, En3.
  all: assert (Hprep : prepare_step (w_sess w2) st = PWrite (FRet (re_pid e)) bs 0 (re_len e))
         by (cbn [st prepare_step]; rewrite Hmps; cbn [too_large]; unfold retained_packet; rewrite Ebs; reflexivity).
  all: pose proof (V3 bs (re_len e) Hprep) as V.
  all: assert (Hfeed : broker_view (broker_feed w2 bs) = (1, [], [(w_now w2, reply)], w_now w2))
         by (rewrite Elay; rewrite broker_feed_one; [|rewrite Hbr; discriminate|exact Htx|exact Hrl|rewrite Hbr, <- Elay, Hrep; exact Hne];
             cbv zeta; unfold broker_view; cbn [w_broker w_txbuf w_inq w_last_arrival w_now upd_inq upd_txbuf];
             rewrite Hbr, Hiq, <- Elay, Hrep; replace (N.max (w_now w2) (w_last_arrival w2)) with (w_now w2) by lia; reflexivity).
  all: rewrite Hfeed in V; unfold broker_view in V; injection V as Vb Vt Vi Vl.
  all: destruct (step_prefix _ _ _ _ _ I2 En2 E3 Logic.I) as [P [Hw3 Ho3]].
  all: rewrite (owed_no_step _ En3), app_nil_r in Ho3; rewrite (owed_single_fresh _ e Ec2 El2 Er2 Est), Ebs in Ho3; subst P.
  all: assert (Hrt3 : rt_next_ping (s_rt (w_sess w3)) = None /\ rt_ping_timeout (s_rt (w_sess w3)) = None /\ rt_quota (s_rt (w_sess w3)) = rt_quota (s_rt (w_sess w2)))
         by (rewrite Ert3; unfold note_outbound_activity, keepalive_send_interval; rewrite Hka;
             cbn [N.eqb rt_with_timers rt_next_ping rt_ping_timeout rt_quota]; repeat split; assumption).
  all: exists w3; split; [reflexivity|]; split; [exact Hw3|]; split; [exact Vi|]; split; [exact Hc3|]; split; [exact R3|]; split; [exact N3|];
       split; [exact (proj1 Hrt3)|]; split; [exact (proj1 (proj2 Hrt3))|]; split; [exact Ec3|]; split; [exact El3|]; split; [exact Er3|]; split; [exact (proj2 (proj2 Hrt3))|];
       split; [exact Vb|]; split; [exact Vt|]; split; [exact Vl|]; split; [exact Ert3|exact Eb3].
Qed.


Lemma drain_single_retained : forall f w2 e bs h rl body reply,
  Hc w2 -> PQ w2 ->
  ob_ctl (s_ob (w_sess w2)) = [] -> ob_rel (s_ob (w_sess w2)) = [] -> ob_ret (s_ob (w_sess w2)) = [e] -> re_st e = SWrite 0 ->
  sliceN (re_off e) (re_len e) (ob_buf (s_ob (w_sess w2))) = bs ->
  bs = h :: rl ++ body -> varint_write (lenN body) = Some rl -> broker_reply 1 bs = reply -> reply <> [] ->
  rt_ka_ms (s_rt (w_sess w2)) = 0 -> rt_ping_timeout (s_rt (w_sess w2)) = None ->
  w_broker w2 = 1 -> w_txbuf w2 = [] -> w_inq w2 = [] -> w_last_arrival w2 <= w_now w2 ->
  exists w3,
    flush_outbound (S (S f)) w2 = (w3, ODone tt) /\ w_wire w3 = w_wire w2 ++ bs /\ w_inq w3 = [(w_now w2, reply)] /\
    Hc w3 /\ s_reader (w_sess w3) = s_reader (w_sess w2) /\ w_now w3 = w_now w2 /\
    rt_next_ping (s_rt (w_sess w3)) = None /\ rt_ping_timeout (s_rt (w_sess w3)) = None /\
    ob_ctl (s_ob (w_sess w3)) = [] /\ ob_rel (s_ob (w_sess w3)) = [] /\ ob_ret (s_ob (w_sess w3)) = [sent_entry e] /\
    rt_quota (s_rt (w_sess w3)) = rt_quota (s_rt (w_sess w2)).
Proof.
  intros f w2 e bs h rl body reply Hc2 Q2 Ec2 El2 Er2 Est Ebs Elay Hrl Hrep Hne Hka Hpt Hbr Htx Hiq Hla.
  destruct (drain_single_retained_rt f w2 e bs h rl body reply Hc2 Q2 Ec2 El2 Er2 Est Ebs Elay Hrl Hrep Hne Hka Hpt Hbr Htx Hiq Hla)
    as [w3 [A1 [A2 [A3 [A4 [A5 [A6 [A7 [A8 [A9 [A10 [A11 [A12 _]]]]]]]]]]]]].
  exists w3. repeat (split; [assumption|]). assumption.
Qed.

(* ---------------------------------------------------------------- codec facts *)
Lemma from_buffer_suback6 : forall pid, pid < 65536 -> from_buffer (144 :: [4] ++ u16_be pid ++ [0; 0]) = Some (RSubAck pid [] [0]).
Proof.
  intros pid Hp. unfold from_buffer. cbn [app].
  change (varint_read (4 :: u16_be pid ++ [0; 0])) with (VOk 4 (u16_be pid ++ [0; 0])).
  cbv beta iota.
  change (de_body 144 (u16_be pid ++ [0; 0])) with (de_suback RSubAck (u16_be pid ++ [0; 0])).
  unfold de_suback. rewrite (read_u16_be pid [0; 0] Hp). reflexivity.
Qed.
Lemma from_buffer_unsuback6 : forall pid, pid < 65536 -> from_buffer (176 :: [4] ++ u16_be pid ++ [0; 0]) = Some (RUnsubAck pid [] [0]).
Proof.
  intros pid Hp. unfold from_buffer. cbn [app].
  change (varint_read (4 :: u16_be pid ++ [0; 0])) with (VOk 4 (u16_be pid ++ [0; 0])).
  cbv beta iota.
  change (de_body 176 (u16_be pid ++ [0; 0])) with (de_suback RUnsubAck (u16_be pid ++ [0; 0])).
  unfold de_suback. rewrite (read_u16_be pid [0; 0] Hp). reflexivity.
Qed.

(* the reply of the broker to a SUBSCRIBE (first byte 130) / UNSUBSCRIBE (first byte 162) whose body starts with the identifier *)
Lemma broker_reply_sub : forall mode rl pid rest, varint_write (lenN (u16_be pid ++ rest)) = Some rl ->
  broker_reply mode (130 :: rl ++ u16_be pid ++ rest) = 144 :: [4] ++ u16_be pid ++ [0; 0].
Proof.
  intros mode rl pid rest Hrl. unfold broker_reply. rewrite (varint_roundtrip _ _ _ Hrl).
  change (130 / 16) with 8. change (8 =? 3) with false. change (8 =? 6) with false. change (8 =? 8) with true. cbv iota.
  destruct (u16_be_two pid) as [a [b E]]. rewrite E. reflexivity.
Qed.
Lemma broker_reply_unsub : forall mode rl pid rest, varint_write (lenN (u16_be pid ++ rest)) = Some rl ->
  broker_reply mode (162 :: rl ++ u16_be pid ++ rest) = 176 :: [4] ++ u16_be pid ++ [0; 0].
Proof.
  intros mode rl pid rest Hrl. unfold broker_reply. rewrite (varint_roundtrip _ _ _ Hrl).
  change (162 / 16) with 10. change (10 =? 3) with false. change (10 =? 6) with false. change (10 =? 8) with false. change (10 =? 10) with true. cbv iota.
  destruct (u16_be_two pid) as [a [b E]]. rewrite E. reflexivity.
Qed.

Lemma chunks_u16_first : forall pid cs body, concat_chunks ([c_u16 pid] ++ cs) = Some body -> exists rest, body = u16_be pid ++ rest.
Proof.
  intros pid cs body H. cbn [app concat_chunks c_u16] in H. destruct (concat_chunks cs) as [r|]; [|discriminate].
  inversion H. exists r. reflexivity.
Qed.

Lemma subscribe_layout : forall cap r off bs, enc_subscribe cap r = SOk off bs ->
  exists rl rest, bs = 130 :: rl ++ u16_be (sq_pid r) ++ rest /\ varint_write (lenN (u16_be (sq_pid r) ++ rest)) = Some rl.
Proof.
  intros cap r off bs H. unfold enc_subscribe in H. destruct (encode_chunks_content _ _ _ _ _ _ H) as [rl [body [Hc [Hb Hv]]]].
  unfold subscribe_chunks in Hc. destruct (chunks_u16_first _ _ _ Hc) as [rest ->]. exists rl, rest. split; [exact Hb|exact Hv].
Qed.
Lemma unsubscribe_layout : forall cap r off bs, enc_unsubscribe cap r = SOk off bs ->
  exists rl rest, bs = 162 :: rl ++ u16_be (uq_pid r) ++ rest /\ varint_write (lenN (u16_be (uq_pid r) ++ rest)) = Some rl.
Proof.
  intros cap r off bs H. unfold enc_unsubscribe in H. destruct (encode_chunks_content _ _ _ _ _ _ H) as [rl [body [Hc [Hb Hv]]]].
  unfold unsubscribe_chunks in Hc. destruct (chunks_u16_first _ _ _ Hc) as [rest ->]. exists rl, rest. split; [exact Hb|exact Hv].
Qed.

(* ---------------------------------------------------------------- enqueue on an empty arena: the queues, explicitly *)
Lemma enqueue_middle_quiescent : forall s kind enc s2 op,
  Inv s -> ob_ctl (s_ob s) = [] -> ob_rel (s_ob s) = [] -> ob_ret (s_ob s) = [] ->
  (forall id cap off bs, enc cap id = SOk off bs -> off + lenN bs <= cap /\ 2 <= lenN bs) ->
  enqueue_middle s kind enc = (s2, MRetained op) ->
  exists bs cap off e,
    enc cap (op_pid op) = SOk off bs /\
    ob_ctl (s_ob s2) = [] /\ ob_rel (s_ob s2) = [] /\ ob_ret (s_ob s2) = [e] /\
    re_pid e = op_pid op /\ sliceN (re_off e) (re_len e) (ob_buf (s_ob s2)) = bs /\ re_st e = SWrite 0 /\
    pframe s s2 /\ s_rt s2 = s_rt s /\ s_reader s2 = s_reader s /\ lenN (ob_buf (s_ob s2)) = lenN (ob_buf (s_ob s)).
Proof.
  intros s kind enc s2 op I Hc Hl Hr Hfit H. unfold enqueue_middle in H.
  destruct (retained_full (s_ob s)); [discriminate|].
  destruct (next_packet_id s) as [s1 id] eqn:En. pose proof (next_packet_id_ob s) as [Eo Er]. rewrite En in Eo, Er. cbn [fst] in Eo, Er.
  assert (Erd : s_reader s1 = s_reader s).
  { unfold next_packet_id in En. destruct (next_packet_id_go 17 (s_ob s) (s_pid s)). inversion En; subst. reflexivity. }
  destruct (encode_at (s_ob s1) (fun cap => enc cap id)) as [o1 er] eqn:Ee.
  destruct er as [off len|e]; [|discriminate].
  destruct (too_large _ _); [discriminate|]. destruct (retain_packet o1 id off len) as [o2|] eqn:Er2; [|discriminate].
  inversion H; subst s2 op. clear H. cbn [op_pid s_ob s_rt s_reader set_ob].
  destruct (encode_retain_spec (s_ob s1) _ o1 off len id o2 ltac:(rewrite Eo; exact (oi_arena _ (inv_ob _ I)))
              (fun cap off' bs => Hfit id cap off' bs) Ee Er2) as [bs [_ [Ab [_ [[cap [off' Hb]] [Hc2 [Hl2 Hlen]]]]]]].
  rewrite Eo in Ab, Hc2, Hl2, Hlen. unfold abs at 2 in Ab. rewrite Hr in Ab. cbn [map app] in Ab.
  destruct (abs_single _ _ _ _ Ab) as [e [E1 [E2 [E3 E4]]]].
  exists bs, cap, off', e. split; [exact Hb|]. split; [rewrite Hc2; exact Hc|]. split; [rewrite Hl2; exact Hl|].
  split; [exact E1|]. split; [exact E2|]. split; [exact E3|]. split; [exact E4|].
  split; [unfold pframe; cbn [s_rt s_ob set_ob]; rewrite Er, Hc2; repeat split; reflexivity|].
  split; [exact Er|]. split; [exact Erd|exact Hlen].
Qed.

(* ---------------------------------------------------------------- a generic completion: the acknowledgement of the single sent entry *)
Lemma poll_single_ack_completes : forall w pid e t h body p,
  pid < 65536 -> w_live w = true -> rdata (rd w) = [] -> rplen (rd w) = None ->
  ob_ctl (s_ob (w_sess w)) = [] -> ob_rel (s_ob (w_sess w)) = [] -> ob_ret (s_ob (w_sess w)) = [sent_entry e] -> re_pid e = pid ->
  rt_next_ping (s_rt (w_sess w)) = None -> rt_ping_timeout (s_rt (w_sess w)) = None ->
  w_script w = [] -> w_inq w = [(t, h :: [lenN body] ++ body)] -> t <= w_now w ->
  varint_write (lenN body) = Some [lenN body] -> lenN (h :: [lenN body] ++ body) <= rcap (rd w) -> lenN (h :: [lenN body] ++ body) <= 29000 ->
  from_buffer (h :: [lenN body] ++ body) = Some p ->
  (forall s, ob_ret (s_ob s) = [sent_entry e] ->
     handle_packet s p = (set_ob s (compact {| ob_buf := ob_buf (s_ob s); ob_used := ob_used (s_ob s); ob_ctl := ob_ctl (s_ob s); ob_ret := []; ob_rel := ob_rel (s_ob s) |}), HOk false)) ->
  exists w', op_poll FUEL w = (w', ODone None) /\ w_live w' = true /\ w_inq w' = [] /\
    ob_ctl (s_ob (w_sess w')) = [] /\ ob_rel (s_ob (w_sess w')) = [] /\ ob_ret (s_ob (w_sess w')) = [] /\ next_step (s_ob (w_sess w')) = None.
Proof.
  intros w pid e t h body p Hp Hl Hd Hpl Ec El Er Epid Hnp Hpt Hs Hi Ht Hrl Hcap H29 Hdec Hh.
  assert (Hn : next_step (s_ob (w_sess w)) = None) by (eapply single_sent_no_step; eassumption).
  set (s3 := set_reader (w_sess w) (reader_reset (rd w))).
  assert (Er3 : ob_ret (s_ob s3) = [sent_entry e]) by exact Er.
  pose proof (Hh s3 Er3) as Hh3.
  set (s4 := set_ob s3 (compact {| ob_buf := ob_buf (s_ob s3); ob_used := ob_used (s_ob s3); ob_ctl := ob_ctl (s_ob s3); ob_ret := []; ob_rel := ob_rel (s_ob s3) |})) in *.
  assert (Q4 : ob_ctl (s_ob s4) = [] /\ ob_rel (s_ob s4) = [] /\ ob_ret (s_ob s4) = []).
  { unfold s4, compact. cbn [s_ob set_ob ob_ret ob_buf ob_used ob_ctl ob_rel compact_go]. repeat split; assumption. }
  destruct Q4 as [Ec4 [El4 Er4]].
  assert (Hn4 : next_step (s_ob s4) = None) by (apply quiescent_no_step; assumption).
  destruct (poll_handles_arrived w h [lenN body] body t p s4 false Hrl) as [w' [E [S' [L' [Q' N']]]]]; try assumption.
  - intros dd E. rewrite Hnp in E. discriminate E.
  - intros _. exact Hn4.
  - exists w'. split; [exact E|]. split; [exact L'|]. split; [exact Q'|]. rewrite S'. repeat split; assumption.
Qed.

Lemma handle_suback_single : forall mk s e pid, (mk = RSubAck \/ mk = RUnsubAck) -> ob_ret (s_ob s) = [sent_entry e] -> re_pid e = pid ->
  handle_packet s (mk pid [] [0]) =
    (set_ob s (compact {| ob_buf := ob_buf (s_ob s); ob_used := ob_used (s_ob s); ob_ctl := ob_ctl (s_ob s); ob_ret := []; ob_rel := ob_rel (s_ob s) |}), HOk false).
Proof.
  intros mk s e pid Hmk Er Epid. destruct Hmk as [-> | ->]; cbn [handle_packet]; unfold ack_packet; rewrite Er;
    cbn [remove_first_ret sent_entry re_pid]; rewrite Epid, N.eqb_refl; cbn [negb]; reflexivity.
Qed.

(* ---------------------------------------------------------------- subscribe(), then one poll() *)
Theorem subscribe_exchange_completes : forall w topics ps s2 op,
  Hc w ->
  ob_ctl (s_ob (w_sess w)) = [] -> ob_rel (s_ob (w_sess w)) = [] -> ob_ret (s_ob (w_sess w)) = [] ->
  rt_ka_ms (s_rt (w_sess w)) = 0 -> rt_next_ping (s_rt (w_sess w)) = None -> rt_ping_timeout (s_rt (w_sess w)) = None ->
  w_broker w = 1 -> w_txbuf w = [] -> w_inq w = [] -> w_last_arrival w <= w_now w ->
  rdata (rd w) = [] -> rplen (rd w) = None -> 6 <= rcap (rd w) ->
  topics <> [] -> props_valid_for (PSlice ps) CtxSubscribe = true ->
  subscribe_middle (w_sess w) topics ps = (s2, MRetained op) -> op_pid op < 65536 ->
  exists w1 w2 bs cap off,
    op_subscribe FUEL topics ps w = (w1, ODone (Some op)) /\
    enc_subscribe cap {| sq_pid := op_pid op; sq_props := ps; sq_topics := topics |} = SOk off bs /\ w_wire w1 = w_wire w ++ bs /\
    w_inq w1 = [(w_now w, 144 :: [4] ++ u16_be (op_pid op) ++ [0; 0])] /\
    op_poll FUEL w1 = (w2, ODone None) /\ w_live w2 = true /\ w_inq w2 = [] /\
    ob_ctl (s_ob (w_sess w2)) = [] /\ ob_rel (s_ob (w_sess w2)) = [] /\ ob_ret (s_ob (w_sess w2)) = [] /\
    next_step (s_ob (w_sess w2)) = None.
Proof.
  intros w topics ps s2 op Hcw Ec El Er Hka Hnp Hpt Hbr Htx Hiq Hla Hrd Hrp Hcap Hne Hval Hm Hid.
  pose proof Hcw as [Hs [Hl [I [Hmps [_ [HB HF]]]]]].
  assert (Hq : PQ w) by (split; [unfold should_queue_pingreq; rewrite Hpt, Hnp; reflexivity|apply calm_nil; exact Hs]).
  unfold subscribe_middle in Hm.
  destruct (enqueue_middle_quiescent _ _ _ _ _ (proj1 I) Ec El Er (fun id => enc_subscribe_fits {| sq_pid := id; sq_props := ps; sq_topics := topics |}) Hm)
    as [bs [cap [off [e [Hb [Ec2 [El2 [Er2 [Epid [Ebs [Est [Hpf [Hrt2 [Hrd2 Hlen2]]]]]]]]]]]]]].
  destruct (subscribe_layout _ _ _ _ Hb) as [rl [rest [Elay Hrl]]]. cbn [sq_pid] in Elay, Hrl.
  set (w2 := upd_sess w s2).
  assert (I2 : WInv (w_sess w2)).
  { cbn [w2 w_sess upd_sess]. replace s2 with (fst (subscribe_middle (w_sess w) topics ps)) by (unfold subscribe_middle; now rewrite Hm). eapply WInv_step; [apply SS_subscribe|exact I]. }
  assert (Hc2 : Hc w2).
  { unfold Hc. cbn [w2 w_script w_live w_sess w_now upd_sess]. rewrite Hrt2.
    split; [exact Hs|]. split; [exact Hl|]. split; [exact I2|]. split; [exact Hmps|].
    split; [rewrite Hpt; intros d E; discriminate E|]. split; [rewrite Hlen2; exact HB|].
    unfold Fr. rewrite Ec2, El2, Er2. repeat split; try constructor; [rewrite Est; reflexivity|constructor]. }
  assert (Q2 : PQ w2) by (split; [cbn [w2 w_sess w_now upd_sess]; rewrite (pframe_sq _ _ Hpf); exact (proj1 Hq)|apply calm_nil; exact Hs]).
  destruct FUEL_big as [f Hf].
  destruct (drain_single_retained (S (S (S f))) w2 e bs 130 rl (u16_be (op_pid op) ++ rest) (144 :: [4] ++ u16_be (op_pid op) ++ [0; 0])
              Hc2 Q2 Ec2 El2 Er2 Est Ebs Elay Hrl ltac:(rewrite Elay; apply broker_reply_sub; exact Hrl) ltac:(discriminate)
              ltac:(cbn [w2 w_sess upd_sess]; rewrite Hrt2; exact Hka) ltac:(cbn [w2 w_sess upd_sess]; rewrite Hrt2; exact Hpt)
              Hbr Htx Hiq Hla)
    as [w3 [E3 [Hw3 [Hi3 [Hc3 [R3 [N3 [Np3 [Pt3 [Ec3 [El3 [Er3 _]]]]]]]]]]]].
  assert (E1 : op_subscribe FUEL topics ps w = (w3, ODone (Some op))).
  { unfold op_subscribe. rewrite Hl. cbn [negb]. destruct topics as [|t0 ts]; [contradiction|]. rewrite Hval. cbn [negb].
    rewrite Hf. cbn [flush_outbound]. rewrite (pq_no_ping w Hq), upd_sess_id, (quiescent_no_step _ Ec El Er). cbn [bindu].
    unfold subscribe_middle. rewrite Hm. cbn [finish_mid]. fold w2. rewrite E3. reflexivity. }
  pose proof Hc3 as [Hs3 [Hl3 _]].
  assert (Hbody : lenN (u16_be (op_pid op) ++ [0; 0]) = 4) by (rewrite lenN_app, lenN_u16; reflexivity).
  destruct (poll_single_ack_completes w3 (op_pid op) e (w_now w) 144 (u16_be (op_pid op) ++ [0; 0]) (RSubAck (op_pid op) [] [0])
              Hid Hl3 ltac:(unfold rd; rewrite R3; cbn [w2 w_sess upd_sess]; rewrite Hrd2; exact Hrd)
              ltac:(unfold rd; rewrite R3; cbn [w2 w_sess upd_sess]; rewrite Hrd2; exact Hrp) Ec3 El3 Er3 Epid Np3 Pt3 Hs3)
    as [w4 [E4 [L4 [Q4 [Ec4 [El4 [Er4 Nn4]]]]]]].
  - rewrite Hbody. exact Hi3.
  - rewrite N3. apply N.le_refl.
  - rewrite Hbody. reflexivity.
  - rewrite Hbody. cbn [app]. rewrite !lenN_cons, lenN_app, lenN_u16. unfold rd. rewrite R3. cbn [w2 w_sess upd_sess]. rewrite Hrd2. cbn. exact Hcap.
  - rewrite Hbody. cbn [app]. rewrite !lenN_cons, lenN_app, lenN_u16. cbn. lia.
  - rewrite Hbody. exact (from_buffer_suback6 _ Hid).
  - intros s Hs0. apply (handle_suback_single RSubAck s e (op_pid op)); [left; reflexivity|exact Hs0|exact Epid].
  - exists w3, w4, bs, cap, off. split; [exact E1|]. split; [exact Hb|]. split; [exact Hw3|]. split; [exact Hi3|]. split; [exact E4|].
    repeat split; assumption.
Qed.

(* ---------------------------------------------------------------- unsubscribe(), then one poll() *)
Theorem unsubscribe_exchange_completes : forall w topics ps s2 op,
  Hc w ->
  ob_ctl (s_ob (w_sess w)) = [] -> ob_rel (s_ob (w_sess w)) = [] -> ob_ret (s_ob (w_sess w)) = [] ->
  rt_ka_ms (s_rt (w_sess w)) = 0 -> rt_next_ping (s_rt (w_sess w)) = None -> rt_ping_timeout (s_rt (w_sess w)) = None ->
  w_broker w = 1 -> w_txbuf w = [] -> w_inq w = [] -> w_last_arrival w <= w_now w ->
  rdata (rd w) = [] -> rplen (rd w) = None -> 6 <= rcap (rd w) ->
  topics <> [] -> props_valid_for (PSlice ps) CtxUnsubscribe = true ->
  unsubscribe_middle (w_sess w) topics ps = (s2, MRetained op) -> op_pid op < 65536 ->
  exists w1 w2 bs cap off,
    op_unsubscribe FUEL topics ps w = (w1, ODone (Some op)) /\
    enc_unsubscribe cap {| uq_pid := op_pid op; uq_props := ps; uq_topics := topics |} = SOk off bs /\ w_wire w1 = w_wire w ++ bs /\
    w_inq w1 = [(w_now w, 176 :: [4] ++ u16_be (op_pid op) ++ [0; 0])] /\
    op_poll FUEL w1 = (w2, ODone None) /\ w_live w2 = true /\ w_inq w2 = [] /\
    ob_ctl (s_ob (w_sess w2)) = [] /\ ob_rel (s_ob (w_sess w2)) = [] /\ ob_ret (s_ob (w_sess w2)) = [] /\
    next_step (s_ob (w_sess w2)) = None.
Proof.
  intros w topics ps s2 op Hcw Ec El Er Hka Hnp Hpt Hbr Htx Hiq Hla Hrd Hrp Hcap Hne Hval Hm Hid.
  pose proof Hcw as [Hs [Hl [I [Hmps [_ [HB HF]]]]]].
  assert (Hq : PQ w) by (split; [unfold should_queue_pingreq; rewrite Hpt, Hnp; reflexivity|apply calm_nil; exact Hs]).
  unfold unsubscribe_middle in Hm.
  destruct (enqueue_middle_quiescent _ _ _ _ _ (proj1 I) Ec El Er (fun id => enc_unsubscribe_fits {| uq_pid := id; uq_props := ps; uq_topics := topics |}) Hm)
    as [bs [cap [off [e [Hb [Ec2 [El2 [Er2 [Epid [Ebs [Est [Hpf [Hrt2 [Hrd2 Hlen2]]]]]]]]]]]]]].
  destruct (unsubscribe_layout _ _ _ _ Hb) as [rl [rest [Elay Hrl]]]. cbn [uq_pid] in Elay, Hrl.
  set (w2 := upd_sess w s2).
  assert (I2 : WInv (w_sess w2)).
  { cbn [w2 w_sess upd_sess]. replace s2 with (fst (unsubscribe_middle (w_sess w) topics ps)) by (unfold unsubscribe_middle; now rewrite Hm). eapply WInv_step; [apply SS_unsubscribe|exact I]. }
  assert (Hc2 : Hc w2).
  { unfold Hc. cbn [w2 w_script w_live w_sess w_now upd_sess]. rewrite Hrt2.
    split; [exact Hs|]. split; [exact Hl|]. split; [exact I2|]. split; [exact Hmps|].
    split; [rewrite Hpt; intros d E; discriminate E|]. split; [rewrite Hlen2; exact HB|].
    unfold Fr. rewrite Ec2, El2, Er2. repeat split; try constructor; [rewrite Est; reflexivity|constructor]. }
  assert (Q2 : PQ w2) by (split; [cbn [w2 w_sess w_now upd_sess]; rewrite (pframe_sq _ _ Hpf); exact (proj1 Hq)|apply calm_nil; exact Hs]).
  destruct FUEL_big as [f Hf].
  destruct (drain_single_retained (S (S (S f))) w2 e bs 162 rl (u16_be (op_pid op) ++ rest) (176 :: [4] ++ u16_be (op_pid op) ++ [0; 0])
              Hc2 Q2 Ec2 El2 Er2 Est Ebs Elay Hrl ltac:(rewrite Elay; apply broker_reply_unsub; exact Hrl) ltac:(discriminate)
              ltac:(cbn [w2 w_sess upd_sess]; rewrite Hrt2; exact Hka) ltac:(cbn [w2 w_sess upd_sess]; rewrite Hrt2; exact Hpt)
              Hbr Htx Hiq Hla)
    as [w3 [E3 [Hw3 [Hi3 [Hc3 [R3 [N3 [Np3 [Pt3 [Ec3 [El3 [Er3 _]]]]]]]]]]]].
  assert (E1 : op_unsubscribe FUEL topics ps w = (w3, ODone (Some op))).
  { unfold op_unsubscribe. rewrite Hl. cbn [negb]. destruct topics as [|t0 ts]; [contradiction|]. rewrite Hval. cbn [negb].
    rewrite Hf. cbn [flush_outbound]. rewrite (pq_no_ping w Hq), upd_sess_id, (quiescent_no_step _ Ec El Er). cbn [bindu].
    unfold unsubscribe_middle. rewrite Hm. cbn [finish_mid]. fold w2. rewrite E3. reflexivity. }
  pose proof Hc3 as [Hs3 [Hl3 _]].
  assert (Hbody : lenN (u16_be (op_pid op) ++ [0; 0]) = 4) by (rewrite lenN_app, lenN_u16; reflexivity).
  destruct (poll_single_ack_completes w3 (op_pid op) e (w_now w) 176 (u16_be (op_pid op) ++ [0; 0]) (RUnsubAck (op_pid op) [] [0])
              Hid Hl3 ltac:(unfold rd; rewrite R3; cbn [w2 w_sess upd_sess]; rewrite Hrd2; exact Hrd)
              ltac:(unfold rd; rewrite R3; cbn [w2 w_sess upd_sess]; rewrite Hrd2; exact Hrp) Ec3 El3 Er3 Epid Np3 Pt3 Hs3)
    as [w4 [E4 [L4 [Q4 [Ec4 [El4 [Er4 Nn4]]]]]]].
  - rewrite Hbody. exact Hi3.
  - rewrite N3. apply N.le_refl.
  - rewrite Hbody. reflexivity.
  - rewrite Hbody. cbn [app]. rewrite !lenN_cons, lenN_app, lenN_u16. unfold rd. rewrite R3. cbn [w2 w_sess upd_sess]. rewrite Hrd2. cbn. exact Hcap.
  - rewrite Hbody. cbn [app]. rewrite !lenN_cons, lenN_app, lenN_u16. cbn. lia.
  - rewrite Hbody. exact (from_buffer_unsuback6 _ Hid).
  - intros s Hs0. apply (handle_suback_single RUnsubAck s e (op_pid op)); [right; reflexivity|exact Hs0|exact Epid].
  - exists w3, w4, bs, cap, off. split; [exact E1|]. split; [exact Hb|]. split; [exact Hw3|]. split; [exact Hi3|]. split; [exact E4|].
    repeat split; assumption.
Qed.

(* ---------------------------------------------------------------- non-vacuity (the world of Exchange.v) *)
Definition ex_so1 : sub_opts := {| so_qos := Q1; so_no_local := false; so_rap := false; so_rh := 0 |}.
Definition ex_filter : bytes := [102; 47; 97].
Definition ex_sub_a : world := fst (op_subscribe FUEL [(ex_filter, ex_so1)] [] ex_b1).
Definition ex_unsub_a : world := fst (op_unsubscribe FUEL [ex_filter] [] ex_b1).
Example exchange3_example :
  snd (subscribe_middle (w_sess ex_b1) [(ex_filter, ex_so1)] []) = MRetained {| op_kind := 2; op_pid := 1; op_gen := 1 |} /\
  snd (op_subscribe FUEL [(ex_filter, ex_so1)] [] ex_b1) = ODone (Some {| op_kind := 2; op_pid := 1; op_gen := 1 |}) /\
  w_wire ex_sub_a = w_wire ex_b1 ++ [130; 9; 0; 1; 0; 0; 3; 102; 47; 97; 1] /\ w_inq ex_sub_a = [(0, [144; 4; 0; 1; 0; 0])] /\
  snd (op_poll FUEL ex_sub_a) = ODone None /\ ob_ret (s_ob (w_sess (fst (op_poll FUEL ex_sub_a)))) = [] /\
  snd (op_unsubscribe FUEL [ex_filter] [] ex_b1) = ODone (Some {| op_kind := 3; op_pid := 1; op_gen := 1 |}) /\
  w_wire ex_unsub_a = w_wire ex_b1 ++ [162; 8; 0; 1; 0; 0; 3; 102; 47; 97] /\ w_inq ex_unsub_a = [(0, [176; 4; 0; 1; 0; 0])] /\
  snd (op_poll FUEL ex_unsub_a) = ODone None /\ ob_ret (s_ob (w_sess (fst (op_poll FUEL ex_unsub_a)))) = [].
Proof. vm_compute. repeat split. Qed.
