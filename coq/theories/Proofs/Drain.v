(* Drain.v — the client drains before it reads: every inbound packet is handled in a state in which the outbound
   side has nothing left to write (next_step = None).  Ghost flag w_drained (Machine.v) records the conjunction over
   all process_received calls of an execution; it is true in every reachable world.  Consequences for C04: the
   acknowledgement of an inbound PUBLISH / PUBREL is appended to an EMPTY control queue (so the queue cannot be
   full), and acknowledgements reach the wire in arrival order because each is flushed before the next read. *)
From Coq Require Import List NArith Lia Bool.
From Minimq Require Import Bytes Varint Utf8 Props Ser De Reader Arena Core Show Machine Parse Run.
From Minimq Require Import Util Lts Refine Inv WireInv Wire Inbound Reconnect ConnectOk CodecProofs.
Import ListNotations.
Open Scope N_scope.

(* ---------- functions that never touch the flag ---------- *)
Ltac dr_step :=
  first
    [ progress cbn [fst snd w_drained upd_sess upd_live upd_log upd_script upd_now upd_inq upd_txbuf upd_broker
                    upd_handles upd_waits upd_envok upd_wire upd_poison w_hd sess_hd bindu]
    | match goal with |- context [let '(_, _) := ?x in _] => destruct x eqn:? end
    | match goal with |- context [match ?x with _ => _ end] => destruct x eqn:? end
    | match goal with |- context [if ?x then _ else _] => destruct x eqn:? end ].
Ltac dr := repeat dr_step; try reflexivity; try congruence.

Lemma dr_broker_feed : forall w a, w_drained (broker_feed w a) = w_drained w.
Proof. intros. unfold broker_feed. dr. Qed.

Lemma dr_io_write : forall bs w, w_drained (fst (io_write bs w)) = w_drained w.
Proof. intros. unfold io_write, next_ev, slow_write. dr; rewrite dr_broker_feed; reflexivity. Qed.

Lemma dr_io_flush : forall w, w_drained (fst (io_flush w)) = w_drained w.
Proof. intros. unfold io_flush, next_ev. dr. Qed.

Lemma dr_deliver : forall win amt w, w_drained (fst (deliver win amt w)) = w_drained w.
Proof. intros. unfold deliver. dr. Qed.

Lemma dr_io_read : forall win dl w, w_drained (fst (io_read win dl w)) = w_drained w.
Proof.
  intros. unfold io_read, next_ev.
  repeat first [ rewrite dr_deliver | dr_step ]; try reflexivity.
Qed.

Lemma dr_mark_partial : forall b a l, w_drained (mark_partial b a l) = w_drained a.
Proof. intros. unfold mark_partial. dr. Qed.

Lemma dr_write_all : forall fuel bs w, w_drained (fst (write_all fuel bs w)) = w_drained w.
Proof.
  induction fuel as [|f IH]; intros bs w; cbn [write_all]; [reflexivity|].
  destruct bs as [|b t]; [reflexivity|].
  destruct (io_write (b :: t) w) as [w1 r] eqn:E. pose proof (dr_io_write (b :: t) w) as H. rewrite E in H. cbn [fst] in H.
  destruct r as [n| |]; cbn [fst]; try exact H.
  destruct (N.eqb n 0); cbn [fst]; [exact H|]. now rewrite IH.
Qed.

Lemma dr_flush_current : forall p now w, w_drained (fst (flush_current p now w)) = w_drained w.
Proof.
  intros. unfold flush_current. destruct (negb (w_live w)); [reflexivity|].
  destruct (io_flush w) as [w1 r] eqn:E. pose proof (dr_io_flush w) as H. rewrite E in H. cbn [fst] in H.
  destruct r; dr.
Qed.

Lemma dr_perform : forall st now w, w_drained (fst (perform_outbound_step st now w)) = w_drained w.
Proof.
  intros. unfold perform_outbound_step. destruct (prepare_step (w_sess w) st) as [p bs wr len|p| |e]; try reflexivity.
  2: apply dr_flush_current.
  - destruct (negb (w_live w)); [reflexivity|].
    destruct (io_write (dropN wr bs) w) as [w1 r] eqn:E. pose proof (dr_io_write (dropN wr bs) w) as H. rewrite E in H. cbn [fst] in H.
    destruct r as [n| |]; try (cbn [fst w_hd w_drained upd_live upd_sess]; exact H).
    destruct (N.eqb n 0); [exact H|].
    destruct (set_written (w_sess w1) p (wr + n) len) as [s found].
    destruct (negb found); [exact H|]. destruct (wr + n <? len); [exact H|].
    rewrite dr_flush_current. exact H.
Qed.

Lemma dr_flush_outbound : forall fuel w, w_drained (fst (flush_outbound fuel w)) = w_drained w.
Proof.
  induction fuel as [|f IH]; intros w; cbn [flush_outbound]; [reflexivity|].
  destruct (maybe_queue_pingreq (w_sess w) (w_now w)) as [s1 e]. destruct e; [reflexivity|].
  cbn [w_sess upd_sess]. destruct (next_step (s_ob s1)) as [st|]; [|reflexivity].
  destruct (perform_outbound_step st (w_now w) (upd_sess w s1)) as [w2 r] eqn:E.
  pose proof (dr_perform st (w_now w) (upd_sess w s1)) as H. rewrite E in H. cbn [fst w_drained upd_sess] in H.
  destruct r; cbn [fst]; try exact H. now rewrite IH.
Qed.

Lemma dr_fill_go : forall fuel y dl w, w_drained (fst (fill_go fuel y dl w)) = w_drained w.
Proof.
  induction fuel as [|f IH]; intros y dl w; cbn [fill_go]; [reflexivity|].
  destruct (packet_available _); [reflexivity|].
  destruct (receive_buffer (s_reader (w_sess w))) as [r' ow]. destruct ow as [win|]; [|reflexivity].
  destruct (N.eqb win 0); [reflexivity|].
  destruct (timer_fired y dl _); [reflexivity|].
  match goal with |- context [io_read win dl ?x] => destruct (io_read win dl x) as [w1 r] eqn:E; pose proof (dr_io_read win dl x) as H end.
  rewrite E in H. cbn [fst w_drained upd_sess] in H.
  destruct r as [d| | |]; cbn [fst]; try exact H. destruct d as [|x t]; [exact H|].
  rewrite IH. exact H.
Qed.
Lemma dr_fill : forall fuel dl w, w_drained (fst (fill_packet_reader fuel dl w)) = w_drained w.
Proof. intros. apply dr_fill_go. Qed.

Lemma dr_direct_send : forall fuel bs w, w_drained (fst (direct_send fuel bs w)) = w_drained w.
Proof.
  intros. unfold direct_send. destruct (write_all fuel bs w) as [w1 r] eqn:E.
  pose proof (dr_write_all fuel bs w) as H. rewrite E in H. cbn [fst] in H.
  destruct r; cbn [bindu fst]; try exact H.
  destruct (io_flush w1) as [w2 fr] eqn:E2. pose proof (dr_io_flush w1) as H2. rewrite E2 in H2. cbn [fst] in H2.
  destruct fr; cbn [fst]; congruence.
Qed.

Lemma dr_finish_mid : forall fuel w m, w_drained (fst (finish_mid fuel w m)) = w_drained w.
Proof.
  intros fuel w m. unfold finish_mid. destruct m as [e|o|bs]; [reflexivity| |].
  - destruct (flush_outbound fuel w) as [w1 r] eqn:E. pose proof (dr_flush_outbound fuel w) as H. rewrite E in H.
    destruct r; exact H.
  - destruct (write_all fuel bs w) as [w1 r] eqn:E. pose proof (dr_write_all fuel bs w) as H. rewrite E in H. cbn [fst] in H.
    destruct r as [u|e| | |]; cbn [fst]; rewrite ?dr_mark_partial; try exact H.
    + destruct (io_flush w1) as [w2 fr] eqn:E2. pose proof (dr_io_flush w1) as H2. rewrite E2 in H2. cbn [fst] in H2.
      destruct fr; cbn [fst w_hd w_drained upd_live upd_sess]; congruence.
    + destruct e; cbn [fst w_hd w_drained upd_live upd_sess]; rewrite ?dr_mark_partial; exact H.
Qed.

Lemma dr_bind_mid : forall fuel w (k : world -> session * midres),
  w_drained (fst (bindu (flush_outbound fuel w) (fun w1 => let '(s2, m) := k w1 in finish_mid fuel (upd_sess w1 s2) m))) = w_drained w.
Proof.
  intros. destruct (flush_outbound fuel w) as [w1 r] eqn:E. pose proof (dr_flush_outbound fuel w) as H. rewrite E in H. cbn [fst] in H.
  destruct r; cbn [bindu fst]; try exact H.
  destruct (k w1) as [s2 m]. rewrite dr_finish_mid. exact H.
Qed.

Lemma dr_op_publish : forall fuel rq w, w_drained (fst (op_publish fuel rq w)) = w_drained w.
Proof. intros. unfold op_publish. destruct (negb (w_live w)); [reflexivity|]. apply (dr_bind_mid fuel w (fun w1 => publish_middle (w_sess w1) (w_live w1) rq)). Qed.

Lemma dr_op_subscribe : forall fuel t ps w, w_drained (fst (op_subscribe fuel t ps w)) = w_drained w.
Proof.
  intros. unfold op_subscribe. destruct (negb (w_live w)); [reflexivity|]. destruct t as [|x t]; [reflexivity|].
  destruct (negb _); [reflexivity|]. apply (dr_bind_mid fuel w (fun w1 => subscribe_middle (w_sess w1) (x :: t) ps)).
Qed.

Lemma dr_op_unsubscribe : forall fuel t ps w, w_drained (fst (op_unsubscribe fuel t ps w)) = w_drained w.
Proof.
  intros. unfold op_unsubscribe. destruct (negb (w_live w)); [reflexivity|]. destruct t as [|x t]; [reflexivity|].
  destruct (negb _); [reflexivity|]. apply (dr_bind_mid fuel w (fun w1 => unsubscribe_middle (w_sess w1) (x :: t) ps)).
Qed.

Lemma dr_op_disconnect : forall fuel d w, w_drained (fst (op_disconnect fuel d w)) = w_drained w.
Proof.
  intros. unfold op_disconnect. destruct (negb (w_live w)); [reflexivity|].
  destruct (disconnect_prepare (w_sess w) d) as [e|bs]; [reflexivity|].
  set (w0 := if has_partial (s_ob (w_sess w)) then upd_poison w true else w).
  assert (H0 : w_drained w0 = w_drained w) by (unfold w0; destruct (has_partial _); reflexivity).
  destruct (write_all fuel bs w0) as [w1 r] eqn:E. pose proof (dr_write_all fuel bs w0) as H. rewrite E in H. cbn [fst] in H.
  destruct r as [u|e| | |]; cbn [fst w_hd w_drained upd_live upd_sess]; rewrite ?dr_mark_partial; try congruence.
  destruct (io_flush w1) as [w2 fr] eqn:E2. pose proof (dr_io_flush w1) as H2. rewrite E2 in H2. cbn [fst] in H2.
  destruct fr; cbn [fst w_hd w_drained upd_live upd_sess]; congruence.
Qed.

Lemma dr_op_connect : forall fuel w, w_drained (fst (op_connect fuel w)) = w_drained w.
Proof.
  intros. unfold op_connect.
  match goal with |- context [enc_connect ?a ?b] => destruct (enc_connect a b) as [off bs|e] end; [|reflexivity].
  match goal with |- context [direct_send fuel bs ?x] => destruct (direct_send fuel bs x) as [w3 r] eqn:E; pose proof (dr_direct_send fuel bs x) as H end.
  rewrite E in H. cbn [fst w_drained upd_sess] in H.
  destruct r; cbn [bindu fst]; try exact H.
  match goal with |- context [fill_packet_reader fuel None ?x] => destruct (fill_packet_reader fuel None x) as [w5 fr] eqn:E5; pose proof (dr_fill fuel None x) as H5 end.
  rewrite E5 in H5. cbn [fst w_drained upd_sess] in H5.
  destruct fr; cbn [fst sess_hd w_drained upd_sess]; try congruence.
  destruct (take_packet (s_reader (w_sess w5))) as [[[r' n] p]|]; cbn [fst sess_hd w_drained upd_sess]; [|congruence].
  destruct (connack_process _ p (w_now w5)) as [s6 cr]. destruct cr as [resumed|e b]; [|destruct b]; cbn [fst sess_hd w_drained upd_sess upd_envok]; congruence.
Qed.

(* ---------- the functions that handle inbound packets ---------- *)
Definition D (w : world) : Prop := w_drained w = true.
Definition Rdy (w : world) : Prop :=
  packet_available (s_reader (w_sess w)) = true -> next_step (s_ob (w_sess w)) = None.

Lemma NA_Rdy : forall w, NA w -> Rdy w.
Proof. intros w H Ha. unfold NA in H. congruence. Qed.

Lemma process_dr : forall w w' r, process_received w = (w', r) -> Rdy w -> D w -> D w'.
Proof.
  intros w w' r H Hr Hd. unfold process_received in H.
  destruct (packet_available (s_reader (w_sess w))) eqn:Ea; cbn [negb] in H; [|inversion H; subst; exact Hd].
  specialize (Hr Ea).
  destruct (take_packet (s_reader (w_sess w))) as [[[r' pl] op]|]; [|inversion H; subst; exact Hd].
  destruct op as [p|]; [|inversion H; subst; exact Hd].
  destruct (handle_packet (set_reader (w_sess w) r') p) as [s2 hr]. rewrite Hr in H. unfold D in Hd. rewrite Hd in H. cbn [andb] in H.
  destruct hr as [[|]|e]; [| |destruct e]; inversion H; subst; reflexivity.
Qed.

Lemma service_dr : forall now w, w_drained (fst (service now w)) = w_drained w.
Proof.
  intros. unfold service. destruct (ping_timed_out (w_sess w) now); [reflexivity|].
  destruct (maybe_queue_pingreq (w_sess w) now) as [s1 e]. destruct e; [reflexivity|].
  cbn [w_sess upd_sess]. destruct (next_step (s_ob s1)) as [st|]; [|reflexivity].
  now rewrite dr_perform.
Qed.

Theorem drive_loop_dr : forall fuel adv w w' r,
  WInv (w_sess w) -> Rdy w -> D w -> drive_loop fuel adv w = (w', r) -> D w'.
Proof.
  induction fuel as [|f IH]; intros adv w w' r I Hr Hd H; cbn [drive_loop] in H; [inversion H; subst; exact Hd|].
  destruct (process_received w) as [w1 r1] eqn:Ep.
  pose proof (process_dr w w1 r1 Ep Hr Hd) as D1.
  destruct (process_received_pres w w1 r1 Ep) as [Pa [Pb _]].
  assert (I1 : WInv (w_sess w1)).
  { eapply WInv_wq; [|exact I]. pose proof (process_received_wq w) as Hq. now rewrite Ep in Hq. }
  destruct r1 as [op|e| | |]; try (inversion H; subst; exact D1).
  destruct op as [p|]; [inversion H; subst; exact D1|].
  destruct (packet_available (s_reader (w_sess w))) eqn:Ea.
  - eapply IH; [exact I1|apply NA_Rdy; now apply Pb|exact D1|exact H].
  - specialize (Pa eq_refl). subst w1.
    destruct (service (w_now w) w) as [w2 r2] eqn:Es.
    pose proof (service_dr (w_now w) w) as D2. rewrite Es in D2. cbn [fst] in D2.
    destruct (service_pres (w_now w) w w2 r2 I Ea Es) as [_ [Q2 _]].
    assert (I2 : WInv (w_sess w2)).
    { eapply WInv_wq; [|exact I]. pose proof (service_wq (w_now w) w) as Hq. now rewrite Es in Hq. }
    assert (Dw2 : D w2) by (unfold D; now rewrite D2).
    destruct r2 as [b|e| | |]; try (inversion H; subst; exact Dw2).
    destruct (next_step (s_ob (w_sess w2))); [|inversion H; subst; exact Dw2].
    eapply IH; [exact I2|now apply NA_Rdy|exact Dw2|exact H].
Qed.

Theorem wait_dr : forall fuel w w' r,
  WInv (w_sess w) -> (w_live w = true -> Rdy w) -> D w -> wait_for_progress fuel w = (w', r) ->
  D w' /\ (r = ODone PrAdvanced -> NA w').
Proof.
  induction fuel as [|f IH]; intros w w' r I Hr Hd H; cbn [wait_for_progress] in H; [inversion H; subst; split; [exact Hd|discriminate]|].
  destruct (drive_packet (S f) w) as [w1 r1] eqn:Ed. unfold drive_packet in Ed.
  destruct (w_live w) eqn:Hl; cbn [negb] in Ed.
  2:{ inversion Ed; subst. inversion H; subst. split; [exact Hd|discriminate]. }
  pose proof (drive_loop_dr (S f) false w w1 r1 I (Hr eq_refl) Hd Ed) as D1.
  destruct (drive_loop_pres (S f) false w w1 r1 I Ed) as [_ [_ [D3 _]]].
  assert (I1 : WInv (w_sess w1)).
  { eapply WInv_wq; [|exact I]. pose proof (drive_loop_wq (S f) false w) as Hq. now rewrite Ed in Hq. }
  destruct r1 as [pr|e| | |]; try (inversion H; subst; split; [exact D1|discriminate]).
  destruct pr as [| |q].
  2:{ inversion H; subst. split; [exact D1|]. intros _. exact (proj1 (D3 (or_intror eq_refl))). }
  2:{ inversion H; subst. split; [exact D1|discriminate]. }
  destruct (D3 (or_introl eq_refl)) as [Na1 Nn].
  destruct (w_live w1) eqn:Hl1; cbn [negb] in H; [|inversion H; subst; split; [exact D1|discriminate]].
  destruct (fill_packet_reader (S f) (next_deadline (s_rt (w_sess w1))) w1) as [w2 fr] eqn:Ef.
  pose proof (dr_fill (S f) (next_deadline (s_rt (w_sess w1))) w1) as F1. rewrite Ef in F1. cbn [fst] in F1.
  destruct (fill_same (S f) (next_deadline (s_rt (w_sess w1))) w1) as [_ Fo]. rewrite Ef in Fo. cbn [fst] in Fo.
  assert (I2 : WInv (w_sess w2)).
  { eapply WInv_wq; [|exact I1]. pose proof (fill_wq (S f) (next_deadline (s_rt (w_sess w1))) w1) as Hw. now rewrite Ef in Hw. }
  assert (D2 : D w2) by (unfold D; rewrite F1; exact D1).
  assert (R2 : Rdy w2) by (intros _; rewrite Fo; exact Nn).
  destruct fr as [|e| | |]; try (inversion H; subst; split; [exact D2|discriminate]).
  - eapply IH; [exact I2|intros _; exact R2|exact D2|exact H].
  - eapply IH; [exact I2|intros _; exact R2|exact D2|exact H].
Qed.

Theorem op_poll_dr : forall fuel w w' r, WInv (w_sess w) -> NAl w -> D w -> op_poll fuel w = (w', r) -> D w'.
Proof.
  intros fuel w w' r I Hn Hd H. unfold op_poll in H. destruct (wait_for_progress fuel w) as [w1 r1] eqn:Ew.
  destruct (wait_dr fuel w w1 r1 I (fun Hl => NA_Rdy w (Hn Hl)) Hd Ew) as [D1 _].
  destruct r1 as [[| |p]|e| | |]; inversion H; subst; exact D1.
Qed.

Theorem op_recv_dr : forall fuel w w' r, WInv (w_sess w) -> NAl w -> D w -> op_recv fuel w = (w', r) -> D w'.
Proof.
  induction fuel as [|f IH]; intros w w' r I Hn Hd H; cbn [op_recv] in H; [inversion H; subst; exact Hd|].
  destruct (wait_for_progress (S f) w) as [w1 r1] eqn:Ew.
  destruct (wait_dr (S f) w w1 r1 I (fun Hl => NA_Rdy w (Hn Hl)) Hd Ew) as [D1 A1].
  assert (I1 : WInv (w_sess w1)).
  { eapply WInv_wq; [|exact I]. pose proof (wait_for_progress_wq (S f) w) as Hq. now rewrite Ew in Hq. }
  destruct r1 as [[| |p]|e| | |]; try (inversion H; subst; exact D1).
  eapply IH; [exact I1|intros _; exact (A1 eq_refl)|exact D1|exact H].
Qed.

Theorem op_drive_dr : forall fuel w w' r, WInv (w_sess w) -> NAl w -> D w -> op_drive fuel w = (w', r) -> D w'.
Proof.
  intros fuel w w' r I Hn Hd H. unfold op_drive in H. destruct (drive_packet fuel w) as [w1 r1] eqn:Ed. unfold drive_packet in Ed.
  destruct (w_live w) eqn:Hl; cbn [negb] in Ed.
  2:{ inversion Ed; subst. inversion H; subst. exact Hd. }
  pose proof (drive_loop_dr fuel false w w1 r1 I (NA_Rdy w (Hn Hl)) Hd Ed) as D1.
  destruct r1 as [[| |p]|e| | |]; inversion H; subst; exact D1.
Qed.

(* ---------- whole executions ---------- *)
Lemma dr_feed : forall w d b, w_drained (feed w d b) = w_drained w.
Proof. intros. unfold feed. destruct b; reflexivity. Qed.

Lemma dr_fold_feed : forall chunks w, w_drained (fold_left (fun w c => feed w (fst c) (snd c)) chunks w) = w_drained w.
Proof. induction chunks as [|c t IH]; intros w; cbn [fold_left]; [reflexivity|]. now rewrite IH, dr_feed. Qed.

Lemma dr_record_op : forall w o, w_drained (record_op w o) = w_drained w.
Proof. intros. unfold record_op. destruct o as [[h|]| | | |]; reflexivity. Qed.

Theorem run_action_dr : forall a w, WInv (w_sess w) -> NAl w -> D w -> D (run_action a w).
Proof.
  intros a w I Hn Hd. unfold D in *.
  destruct a as [chunks|r|topics ps|topics ps|d| | | |delay bs|dt| | |mode|pid| ]; cbn [run_action];
    try (destruct (negb (w_conn w)); [exact Hd|]).
  - match goal with |- context [op_connect FUEL ?x] => destruct (op_connect FUEL x) as [w2 r] eqn:E; pose proof (dr_op_connect FUEL x) as H end.
    rewrite E in H. cbn [fst] in H. rewrite dr_fold_feed in H. cbn [w_drained upd_poison upd_wire upd_txbuf upd_inq upd_live] in H.
    destruct r; cbn [w_drained upd_log upd_live]; congruence.
  - destruct (op_publish FUEL r w) as [w1 o] eqn:E. pose proof (dr_op_publish FUEL r w) as H. rewrite E in H. cbn [fst] in H.
    cbn [w_drained upd_log]. rewrite dr_record_op. congruence.
  - destruct (op_subscribe FUEL topics ps w) as [w1 o] eqn:E. pose proof (dr_op_subscribe FUEL topics ps w) as H. rewrite E in H. cbn [fst] in H.
    cbn [w_drained upd_log]. rewrite dr_record_op. congruence.
  - destruct (op_unsubscribe FUEL topics ps w) as [w1 o] eqn:E. pose proof (dr_op_unsubscribe FUEL topics ps w) as H. rewrite E in H. cbn [fst] in H.
    cbn [w_drained upd_log]. rewrite dr_record_op. congruence.
  - destruct (op_disconnect FUEL d w) as [w1 o] eqn:E. pose proof (dr_op_disconnect FUEL d w) as H. rewrite E in H. cbn [fst] in H.
    cbn [w_drained upd_log]. congruence.
  - destruct (op_drive FUEL w) as [w1 o] eqn:E. cbn [w_drained upd_log]. exact (op_drive_dr FUEL w w1 o I Hn Hd E).
  - destruct (op_poll FUEL w) as [w1 o] eqn:E. cbn [w_drained upd_log]. exact (op_poll_dr FUEL w w1 o I Hn Hd E).
  - destruct (op_recv FUEL w) as [w1 o] eqn:E. cbn [w_drained upd_log]. exact (op_recv_dr FUEL w w1 o I Hn Hd E).
  - cbn [w_drained upd_log]. now rewrite dr_feed.
  - exact Hd.
  - exact Hd.
  - exact Hd.
  - exact Hd.
  - destruct (w_conn w); exact Hd.
  - exact Hd.
Qed.

Definition GoodD (w : world) : Prop := Good w /\ D w.

Theorem step_action_dr : forall w a, GoodD w -> GoodD (step_action w a).
Proof.
  intros w a [Gw Hd]. split; [now apply step_action_good|].
  unfold step_action. destruct (halted w) eqn:Eh; [exact Hd|].
  destruct Gw as [I [HW Hh]]. destruct Hh as [Hh|Hn]; [congruence|].
  match goal with |- context [run_action a ?x] => set (w0 := x) end.
  assert (D1 : D (run_action a w0)) by (apply run_action_dr; [exact I|exact Hn|exact Hd]).
  destruct (halted (run_action a w0)); exact D1.
Qed.

(* In every execution — every program, script of partial writes, faults and dropped futures, broker behaviour and
   number of reconnects — every inbound packet was handled with nothing left to write. *)
Theorem reachable_drained : forall c, w_drained (run_case c) = true.
Proof.
  intros c. unfold run_case.
  assert (G0 : GoodD (init_world c)) by (split; [apply Good_init|reflexivity]).
  revert G0. generalize (init_world c). induction (c_prog c) as [|a t IH]; intros w Gw; cbn [fold_left]; [exact (proj2 Gw)|].
  apply IH. now apply step_action_dr.
Qed.

(* ---------- what a drained state means for the acknowledgement owed to an inbound packet ---------- *)
(* ---------- what a drained state means for the acknowledgement owed to an inbound packet ---------- *)
Definition Drained (s : session) : Prop := CtlShape (ob_ctl (s_ob s)) /\ next_step (s_ob s) = None.
Definition AckFits (s : session) : Prop := match rt_mps (s_rt s) with None => True | Some m => 5 <= m end.

Lemma drained_ctl_nil : forall o, CtlShape (ob_ctl o) -> next_step o = None -> ob_ctl o = [].
Proof.
  intros o Hc Hn. destruct (ob_ctl o) as [|e t] eqn:E; [reflexivity|]. exfalso.
  destruct Hc as [Hs _]. unfold next_step in Hn.
  destruct (next_step_pass o true) eqn:P1; [discriminate|]. cbn [orelse] in Hn.
  unfold next_step_pass, find_ctl in P1, Hn. rewrite E in P1, Hn. cbn [find] in P1, Hn. unfold matches_priority in P1, Hn.
  destruct (ce_st e) as [k| |] eqn:Es; [|cbn in P1; discriminate|congruence].
  cbn [is_in_progress is_fresh] in P1, Hn. destruct (N.eqb k 0); cbn [negb orelse] in P1, Hn; discriminate.
Qed.

(* every control packet is at most five bytes: type, remaining length, identifier, reason *)
Lemma control_len : forall a, exists off bs, encode_control_packet a = SOk off bs /\ lenN bs <= 5.
Proof.
  assert (Ack : forall typ pid rc, exists off bs, enc_ack CONTROL_PACKET_LEN typ pid rc = SOk off bs /\ lenN bs <= 5).
  { intros typ pid rc. unfold enc_ack.
    destruct (encode_chunks_succeeds CONTROL_PACKET_LEN typ (if N.eqb typ 6 then 2 else 0) (ack_chunks pid rc)) as [off [bs E]];
      [reflexivity|unfold chunks_len, ack_chunks, CONTROL_PACKET_LEN; cbn [map sumN chunk_len c_u16 c_u8]; rewrite lenN_u16; cbn; lia
      |unfold chunks_len, ack_chunks, VARINT_MAX; cbn [map sumN chunk_len c_u16 c_u8]; rewrite lenN_u16; cbn; lia|].
    exists off, bs. split; [exact E|].
    destruct (encode_chunks_content _ _ _ _ _ _ E) as [rl [body [Hc [Hb Hv]]]].
    assert (Hbody : lenN body = 3).
    { unfold ack_chunks, concat_chunks in Hc. cbn in Hc. inversion Hc; subst body. reflexivity. }
    rewrite Hbody in Hv. inversion Hv; subst rl. rewrite Hb, lenN_cons, lenN_app, Hbody. cbn. lia. }
  intros [pid rc|pid rc|pid rc|]; cbn [encode_control_packet]; try apply Ack.
  unfold enc_pingreq. eexists _, _. split; [vm_compute; reflexivity|vm_compute; discriminate].
Qed.

Lemma control_fits : forall s a, AckFits s -> check_control_size (rt_mps (s_rt s)) a = None.
Proof.
  intros s a Hf. unfold check_control_size. destruct (control_len a) as [off [bs [E L]]]. rewrite E.
  unfold AckFits in Hf. unfold too_large. destruct (rt_mps (s_rt s)) as [m|]; [|reflexivity].
  destruct (N.ltb_spec m (lenN bs)); [lia|reflexivity].
Qed.

(* the residue `refused` of the C04 statements cannot occur in a drained state whose broker limit admits five bytes *)
Theorem drained_not_refused : forall s a hr, Drained s -> AckFits s -> ~ refused s a hr.
Proof.
  intros s a hr [Hc Hn] Hf [[_ Hfull]|[e [_ Hsz]]].
  - rewrite (drained_ctl_nil _ Hc Hn) in Hfull. unfold MAX_PENDING_CONTROL in Hfull. cbn in Hfull. lia.
  - rewrite (control_fits s a Hf) in Hsz. discriminate.
Qed.

Lemma drained_set_srv : forall s l, Drained s -> Drained (set_srv s l).
Proof. intros s l H. exact H. Qed.
Lemma fits_set_srv : forall s l, AckFits s -> AckFits (set_srv s l).
Proof. intros s l H. exact H. Qed.

(* the C04 handling theorems without residue *)
Theorem qos1_acked_then_delivered_drained : forall s t id r d ps pl s' hr, Drained s -> AckFits s ->
  handle_packet s (RPublish t (Some id) Q1 r d ps pl) = (s', hr) ->
  let rc := if mem_id id (s_srv s) then 145 else 0 in
  hr = HOk true /\ ack_appended s s' (CPubAck id rc) /\ s_srv s' = s_srv s /\ ob_ctl (s_ob s') = [fresh_ctl (CPubAck id rc)].
Proof.
  intros s t id r d ps pl s' hr Hd Hf H rc.
  destruct (qos1_acked_then_delivered s t id r d ps pl s' hr H) as [[A [B C]]|[_ R]]; [|exfalso; exact (drained_not_refused _ _ _ Hd Hf R)].
  repeat split; try assumption; try apply B. destruct B as [B _]. rewrite B, (drained_ctl_nil _ (proj1 Hd) (proj2 Hd)). reflexivity.
Qed.

Theorem qos2_first_arrival_drained : forall s t id r d ps pl s' hr, Drained s -> AckFits s ->
  handle_packet s (RPublish t (Some id) Q2 r d ps pl) = (s', hr) ->
  mem_id id (s_srv s) = false -> glen (s_srv s) < MAX_INBOUND_QOS2 ->
  s_srv s' = s_srv s ++ [id] /\ hr = HOk true /\ ack_appended s s' (CPubRec id 0) /\ ob_ctl (s_ob s') = [fresh_ctl (CPubRec id 0)].
Proof.
  intros s t id r d ps pl s' hr Hd Hf H Hm Hl.
  destruct (qos2_first_arrival s t id r d ps pl s' hr H Hm Hl) as [[B [C A]]|[_ R]];
    [|exfalso; exact (drained_not_refused _ _ _ Hd Hf R)].
  repeat split; try assumption; try apply C. destruct C as [C _]. rewrite C, (drained_ctl_nil _ (proj1 Hd) (proj2 Hd)). reflexivity.
Qed.

Theorem qos2_duplicate_drained : forall s t id r d ps pl s' hr, Drained s -> AckFits s ->
  handle_packet s (RPublish t (Some id) Q2 r d ps pl) = (s', hr) -> mem_id id (s_srv s) = true ->
  s_srv s' = s_srv s /\ hr = HOk false /\ ack_appended s s' (CPubRec id 0).
Proof.
  intros s t id r d ps pl s' hr Hd Hf H Hm.
  destruct (qos2_duplicate s t id r d ps pl s' hr H Hm) as [A [_ [[B C]|[_ R]]]]; [|exfalso; exact (drained_not_refused _ _ _ Hd Hf R)].
  repeat split; try assumption; apply C.
Qed.

Theorem pubrel_pending_drained : forall s id rc s' hr, Drained s -> AckFits s ->
  handle_packet s (RPubRel id rc) = (s', hr) -> mem_id id (s_srv s) = true ->
  exists l, swap_remove_id id (s_srv s) = Some l /\ s_srv s' = l /\ hr = HOk false /\ ack_appended s s' (CPubComp id 0).
Proof.
  intros s id rc s' hr Hd Hf H Hm.
  destruct (pubrel_pending s id rc s' hr H Hm) as [l [A [B [[C E]|[_ R]]]]];
    [|exfalso; exact (drained_not_refused _ _ _ (drained_set_srv _ _ Hd) (fits_set_srv _ _ Hf) R)].
  exists l. repeat split; try assumption; apply E.
Qed.

Theorem pubrel_unknown_drained : forall s id rc s' hr, Drained s -> AckFits s ->
  handle_packet s (RPubRel id rc) = (s', hr) -> mem_id id (s_srv s) = false ->
  s_srv s' = s_srv s /\ hr = HOk false /\ ack_appended s s' (CPubComp id 146).
Proof.
  intros s id rc s' hr Hd Hf H Hm.
  destruct (pubrel_unknown s id rc s' hr H Hm) as [A [[B C]|[_ R]]]; [|exfalso; exact (drained_not_refused _ _ _ Hd Hf R)].
  repeat split; try assumption; apply C.
Qed.

(* ---------- the flag is not vacuous ---------- *)
(* a reachable execution in which a QoS 2 PUBLISH was handled (identifier recorded, PUBREC written): flag true *)
Definition ex_q2 : world :=
  run_case {| c_cfg := ex_cfg;
              c_prog := [ASetBroker 2; AConnect []; AFeed 0 [52; 6; 0; 1; 116; 0; 7; 0]; APoll; APoll];
              c_script := [] |}.
(* an (unreachable) world in which a complete packet sits in the reader while a publish is half written: handling it
   would clear the flag — the theorem says no execution gets there *)
Definition ex_undrained : world :=
  let w := ex_broken in
  let w1 := upd_live w true true 0 in
  upd_sess w1 (set_reader (set_ob (w_sess w1) (arm_replay (s_ob (w_sess w1))))
                 {| rcap := 64; rdata := [208; 0]; rplen := Some 2 |}).

Example drained_examples :
  w_drained ex_q2 = true /\ s_srv (w_sess ex_q2) = [7] /\ w_live ex_q2 = true /\
  w_drained ex_undrained = true /\ w_drained (fst (process_received ex_undrained)) = false.
Proof. vm_compute. repeat split; reflexivity. Qed.
