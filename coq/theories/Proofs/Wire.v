(* Wire.v — C01 over whole executions: in every reachable world whose ghost flag `w_poison` is clear, the bytes the
   current transport has accepted are a sequence of whole packets followed by the written prefix of the one entry
   that is in progress (live handle), resp. by a prefix of one packet (dead handle).  `w_poison` is set exactly by
   the three recorded ways in which a packet can start inside another one: a QoS 0 publish or a disconnect() dropped
   (or met by Ok(0)) in the middle of its packet, and disconnect() called while a queued packet is half written. *)
From Coq Require Import List NArith Lia Bool PeanoNat.
From Coq Require Import ZifyBool ZifyN ZifyNat.
From Minimq Require Import Bytes Varint Utf8 Props Ser De Reader Spec Arena Core Show Machine Parse Run Util Lts Refine
  ArenaLemmas ArenaOps Inv Quota Status Persist Frames Limits Reach WireInv Chunking.
From Minimq Require Import PacketShape.
Import ListNotations.
Local Open Scope N_scope.

(* ---------------------------------------------------------------- the bytes of an entry and the tail they own *)
Definition ctl_bytes (a : caction) : bytes := match encode_control_packet a with SOk _ bs => bs | SErr _ => [] end.
Definition rel_bytes (pid rc : N) : bytes := match encode_pubrel pid rc with SOk _ bs => bs | SErr _ => [] end.
Definition st_prefix (st : sstate) (bs : bytes) : bytes := match st with SWrite k => takeN k bs | _ => [] end.

Definition tail_ctl (l : list centry) : bytes := concat (map (fun e => st_prefix (ce_st e) (ctl_bytes (ce_act e))) l).
Definition tail_rel (l : list lentry) : bytes := concat (map (fun e => st_prefix (le_st e) (rel_bytes (le_pid e) (le_rc e))) l).
Definition tail_ret (buf : bytes) (l : list rentry) : bytes :=
  concat (map (fun e => st_prefix (re_st e) (sliceN (re_off e) (re_len e) buf)) l).
Definition tail_of (o : outbound) : bytes := tail_ctl (ob_ctl o) ++ tail_rel (ob_rel o) ++ tail_ret (ob_buf o) (ob_ret o).

Lemma st_prefix_quiet : forall st bs, sstate_partial st = false -> st_prefix st bs = [].
Proof.
  intros [k| |] bs H; cbn [st_prefix sstate_partial] in *; try reflexivity.
  destruct (N.eqb_spec k 0) as [->|]; [apply takeN_0|discriminate].
Qed.

Lemma ppl_zero_forall : forall l, ppl l = 0%nat -> Forall (fun s => sstate_partial s = false) l.
Proof.
  induction l as [|x t IH]; intros H; [constructor|]. rewrite ppl_cons in H. destruct (sstate_partial x) eqn:E; [lia|].
  constructor; [exact E|apply IH; lia].
Qed.
Lemma ipl_zero_forall : forall l, ipl l = 0%nat -> Forall (fun s => is_in_progress s = false) l.
Proof.
  induction l as [|x t IH]; intros H; [constructor|]. rewrite ipl_cons in H. destruct (is_in_progress x) eqn:E; [lia|].
  constructor; [exact E|apply IH; lia].
Qed.
Lemma partial_is_ip : forall s, is_in_progress s = false -> sstate_partial s = false.
Proof. intros [k| |] H; cbn in *; try reflexivity; try discriminate. exact H. Qed.

Lemma tail_quiet : forall {A} (st : A -> sstate) (bs : A -> bytes) (l : list A),
  Forall (fun s => sstate_partial s = false) (map st l) -> concat (map (fun e => st_prefix (st e) (bs e)) l) = [].
Proof.
  induction l as [|x t IH]; intros H; [reflexivity|]. cbn [map] in H. inversion H; subst. cbn [map concat].
  rewrite st_prefix_quiet by assumption. now apply IH.
Qed.

Lemma npart_zero_tail : forall o, npart o = 0%nat -> tail_of o = [].
Proof.
  intros o H. unfold npart in H. unfold tail_of, tail_ctl, tail_rel, tail_ret.
  rewrite (tail_quiet ce_st), (tail_quiet le_st), (tail_quiet re_st); try reflexivity; apply ppl_zero_forall; lia.
Qed.

Lemma has_partial_npart : forall o, has_partial o = false <-> npart o = 0%nat.
Proof.
  intros o. unfold has_partial, npart.
  assert (G : forall {A} (st : A -> sstate) (l : list A), existsb (fun e => sstate_partial (st e)) l = false <-> ppl (map st l) = 0%nat).
  { intros A st l. induction l as [|x t IH]; [split; reflexivity|]. cbn [existsb map]. rewrite ppl_cons.
    destruct (sstate_partial (st x)); cbn [orb]; [split; [discriminate|lia]|]. rewrite IH. split; lia. }
  rewrite !orb_false_iff, (G _ ce_st), (G _ le_st), (G _ re_st). lia.
Qed.

Lemma nip_zero_npart : forall o, nip o = 0%nat -> npart o = 0%nat.
Proof.
  intros o H. unfold nip in H. unfold npart.
  assert (G : forall l, ipl l = 0%nat -> ppl l = 0%nat).
  { intros l Hl. apply ppl_fresh_all. eapply Forall_impl; [|apply ipl_zero_forall; exact Hl]. intros s. apply partial_is_ip. }
  rewrite !G; lia.
Qed.

(* a fresh entry appended to a queue owns nothing *)
Lemma tail_ctl_app_fresh : forall l a, tail_ctl (l ++ [{| ce_act := a; ce_st := SWrite 0 |}]) = tail_ctl l.
Proof. intros. unfold tail_ctl. rewrite map_app, concat_app. cbn [map concat st_prefix ce_st]. rewrite takeN_0. now rewrite !app_nil_r. Qed.

Lemma tail_of_queue_control : forall o a o', queue_control o a = Some o' -> tail_of o' = tail_of o.
Proof.
  intros o a o' H. unfold queue_control in H. destruct (_ <=? _); [discriminate|]. inversion H; subst.
  unfold tail_of. cbn [ob_ctl ob_rel ob_ret ob_buf]. now rewrite tail_ctl_app_fresh.
Qed.

(* ---------------------------------------------------------------- the engine step, at session level *)
Lemma wf_layout_bound : forall es lo used e, wf_layout lo es used -> In e es -> re_off e + re_len e <= used.
Proof.
  induction es as [|x t IH]; intros lo used e W Hi; [contradiction|]. cbn [wf_layout] in W. destruct W as [W1 [W2 W3]].
  destruct Hi as [->|Hi]; [now apply wf_layout_le in W3|]. eapply IH; eassumption.
Qed.

Lemma ret_entry_frame : forall o e, arena_wf o -> FrameInv o -> In e (ob_ret o) ->
  is_frame (sliceN (re_off e) (re_len e) (ob_buf o)) /\ lenN (sliceN (re_off e) (re_len e) (ob_buf o)) = re_len e.
Proof.
  intros o e [W U] F Hi. split.
  - unfold FrameInv in F. rewrite Forall_forall in F.
    apply (F (a_key (abs_entry (ob_buf o) e))). apply in_map. unfold abs. apply in_map. exact Hi.
  - apply lenN_sliceN. pose proof (wf_layout_bound _ _ _ _ W Hi). lia.
Qed.

(* an update that reaches the unique entry carrying the key *)
Lemma update_first_unique : forall {A} (key : A -> N) (f : A -> A) l e,
  NoDup (map key l) -> In e l ->
  exists pre post, l = pre ++ e :: post /\ fst (update_first (fun x => N.eqb (key x) (key e)) f l) = pre ++ f e :: post.
Proof.
  intros A key f l e. induction l as [|y t IH]; intros Hn Hi; [contradiction|].
  cbn [map] in Hn. inversion Hn as [|? ? Hy Ht]; subst. cbn [update_first].
  destruct (N.eqb_spec (key y) (key e)) as [E|E].
  - assert (y = e).
    { destruct Hi as [->|Hi]; [reflexivity|]. exfalso. apply Hy. rewrite E. apply in_map. exact Hi. }
    subst y. exists [], t. split; reflexivity.
  - destruct Hi as [->|Hi]; [contradiction|]. destruct (IH Ht Hi) as [pre [post [-> Hu]]].
    destruct (update_first _ f (pre ++ e :: post)) as [t' b]. cbn [fst] in *. exists (y :: pre), post. split; [reflexivity|]. now rewrite Hu.
Qed.

Lemma tail_isolated : forall {A} (st : A -> sstate) (bs : A -> bytes) pre (e : A) post,
  Forall (fun s => sstate_partial s = false) (map st pre) -> Forall (fun s => sstate_partial s = false) (map st post) ->
  concat (map (fun x => st_prefix (st x) (bs x)) (pre ++ e :: post)) = st_prefix (st e) (bs e).
Proof.
  intros A st bs pre e post H1 H2. rewrite map_app, concat_app. cbn [map concat].
  rewrite (tail_quiet st bs pre H1), (tail_quiet st bs post H2). now rewrite app_nil_r.
Qed.

Lemma quiet_of_ipl : forall l, ipl l = 0%nat -> Forall (fun s => sstate_partial s = false) l.
Proof. intros l H. eapply Forall_impl; [|apply ipl_zero_forall; exact H]. intros s. apply partial_is_ip. Qed.

Lemma sws_prefix : forall w n len bs, lenN bs = len ->
  st_prefix (set_written_state (w + n) len) bs = if len <=? w + n then [] else takeN (w + n) bs.
Proof. intros. unfold set_written_state. destruct (len <=? w + n); reflexivity. Qed.

Theorem engine_tail : forall s st p bs w len n,
  WInv s -> next_step (s_ob s) = Some st -> prepare_step s st = PWrite p bs w len ->
  tail_of (s_ob s) = takeN w bs /\ lenN bs = len /\ is_frame bs /\
  tail_of (s_ob (fst (set_written s p (w + n) len))) = st_prefix (set_written_state (w + n) len) bs /\
  (len <= w + n -> npart (s_ob (fst (set_written s p (w + n) len))) = 0%nat).
Proof.
  intros s st p bs w len n [I [F [Hs Hc]]] Hn Hp.
  destruct (engine_resumes_at_offset s st p bs w len Hp) as [Hst Hkey].
  pose proof (next_step_entry _ _ Hn) as He.
  pose proof (oi_arena _ (inv_ob _ I)) as W.
  destruct (nodup_ids _ (oi_nodup _ (inv_ob _ I))) as [Nret Nrel].
  (* the counts of the three queues when the chosen entry is fresh: all zero *)
  assert (Hz : is_in_progress (SWrite w) = false -> nip (s_ob s) = 0%nat).
  { intros Hf. destruct (fresh_only_when_nothing_in_progress (s_ob s) st Hn) as [F1 [F2 F3]]; [now rewrite Hst|].
    now apply nothing_in_progress_nip. }
  unfold Single, nip in Hs. unfold nip in Hz.
  destruct st as [a s0|pid rc s0|pid off l0 s0]; cbn [step_state] in Hst; subst s0.
  - (* ---- control ---- *)
    subst p. destruct (ctl_step_head _ _ _ Hc Hn) as [t Et].
    destruct (engine_ctl_bytes s a w (FCtl a) bs w len Hp) as [_ [_ [Hlen [first [Hfr _]]]]].
    assert (Hb : ctl_bytes a = bs).
    { unfold ctl_bytes. cbn [prepare_step] in Hp. destruct (encode_control_packet a); [|discriminate].
      destruct (too_large _ _); [discriminate|]. now inversion Hp. }
    rewrite Et in Hc, Hs, Hz. destruct Hc as [_ Ht]. cbn [map ce_st] in Hs, Hz. rewrite ipl_cons in Hs, Hz.
    assert (Qt : Forall (fun s0 => sstate_partial s0 = false) (map ce_st t)).
    { apply Forall_forall. intros x Hx. apply in_map_iff in Hx. destruct Hx as [y [<- Hy]]. rewrite Forall_forall in Ht.
      apply partial_is_ip. apply fresh_not_ip. now apply Ht. }
    assert (Qr : ipl (map le_st (ob_rel (s_ob s))) = 0%nat /\ ipl (map re_st (ob_ret (s_ob s))) = 0%nat).
    { destruct (is_in_progress (SWrite w)) eqn:Ei; [lia|specialize (Hz eq_refl); lia]. }
    destruct Qr as [Qrel Qret]. apply quiet_of_ipl in Qrel. apply quiet_of_ipl in Qret.
    assert (T0 : tail_rel (ob_rel (s_ob s)) = [] /\ tail_ret (ob_buf (s_ob s)) (ob_ret (s_ob s)) = []).
    { split; [apply (tail_quiet le_st)|apply (tail_quiet re_st)]; assumption. }
    destruct T0 as [T1 T2].
    split; [|split; [now rewrite Hlen|split; [now exists first|split]]].
    + unfold tail_of. rewrite Et, T1, T2, !app_nil_r. unfold tail_ctl. cbn [map concat ce_st ce_act].
      rewrite (tail_quiet ce_st _ t Qt), app_nil_r, Hb. reflexivity.
    + unfold set_written, set_control_written. rewrite Et. cbn [update_first ce_act]. rewrite caction_eqb_refl.
      cbn [fst set_ob s_ob]. unfold with_ctl, tail_of. cbn [ob_ctl ob_rel ob_ret ob_buf]. rewrite T1, T2, !app_nil_r.
      unfold tail_ctl. cbn [map concat ce_st ce_act]. rewrite (tail_quiet ce_st _ t Qt), app_nil_r, Hb. reflexivity.
    + intros Hle. unfold set_written, set_control_written. rewrite Et. cbn [update_first ce_act]. rewrite caction_eqb_refl.
      cbn [fst set_ob s_ob]. unfold with_ctl, npart. cbn [ob_ctl ob_rel ob_ret map ce_st].
      unfold set_written_state. destruct (N.leb_spec len (w + n)); [|lia].
      rewrite ppl_cons. cbn [sstate_partial]. rewrite !ppl_fresh_all by assumption. reflexivity.
  - (* ---- release ---- *)
    subst p. destruct He as [e [Hin [Hpid [Hrc Hse]]]].
    destruct (engine_rel_bytes s pid rc w (FRel pid) bs w len Hp) as [_ [_ [Hlen Hfr]]].
    assert (Hb : rel_bytes pid rc = bs).
    { unfold rel_bytes. cbn [prepare_step] in Hp. destruct (encode_pubrel pid rc); [|discriminate].
      destruct (too_large _ _); [discriminate|]. now inversion Hp. }
    destruct (update_first_unique le_pid (fun e0 => {| le_pid := le_pid e0; le_rc := le_rc e0; le_st := set_written_state (w + n) len |})
                (ob_rel (s_ob s)) e Nrel Hin) as [pre [post [El Hu]]].
    rewrite El in Hs, Hz. rewrite map_app in Hs, Hz. cbn [map] in Hs, Hz. rewrite ipl_app, ipl_cons, Hse in Hs, Hz.
    assert (Qs : ipl (map ce_st (ob_ctl (s_ob s))) = 0%nat /\ ipl (map le_st pre) = 0%nat /\ ipl (map le_st post) = 0%nat
                 /\ ipl (map re_st (ob_ret (s_ob s))) = 0%nat).
    { destruct (is_in_progress (SWrite w)) eqn:Ei; [lia|specialize (Hz eq_refl); lia]. }
    destruct Qs as [Qc [Qpre [Qpost Qret]]]. apply quiet_of_ipl in Qc, Qpre, Qpost, Qret.
    assert (T1 : tail_ctl (ob_ctl (s_ob s)) = []) by (apply (tail_quiet ce_st); exact Qc).
    assert (T2 : tail_ret (ob_buf (s_ob s)) (ob_ret (s_ob s)) = []) by (apply (tail_quiet re_st); exact Qret).
    split; [|split; [now rewrite Hlen|split; [eexists; exact Hfr|split]]].
    + unfold tail_of. rewrite T1, T2, app_nil_r. cbn [app]. unfold tail_rel. rewrite El.
      rewrite (tail_isolated le_st _ pre e post Qpre Qpost), Hse, Hpid, Hrc, Hb. reflexivity.
    + unfold set_written, set_release_written. rewrite <- Hpid.
      destruct (update_first _ _ (ob_rel (s_ob s))) as [l b] eqn:E. cbn [fst] in Hu. subst l.
      cbn [fst set_ob s_ob]. unfold with_rel, tail_of. cbn [ob_ctl ob_rel ob_ret ob_buf]. rewrite T1, T2, app_nil_r. cbn [app].
      unfold tail_rel. rewrite (tail_isolated le_st _ pre _ post Qpre Qpost). cbn [le_st le_pid le_rc]. rewrite Hpid, Hrc, Hb. reflexivity.
    + intros Hle. unfold set_written, set_release_written. rewrite <- Hpid.
      destruct (update_first _ _ (ob_rel (s_ob s))) as [l b] eqn:E. cbn [fst] in Hu. subst l.
      cbn [fst set_ob s_ob]. unfold with_rel, npart. cbn [ob_ctl ob_rel ob_ret]. rewrite map_app. cbn [map le_st].
      unfold set_written_state. destruct (N.leb_spec len (w + n)); [|lia].
      rewrite ppl_app, ppl_cons. cbn [sstate_partial]. rewrite !ppl_fresh_all by assumption. reflexivity.
  - (* ---- retained ---- *)
    destruct Hkey as [-> ->]. destruct He as [e [Hin [Hpid [Hoff [Hl Hse]]]]].
    assert (Hb : bs = sliceN (re_off e) (re_len e) (ob_buf (s_ob s))).
    { cbn [prepare_step] in Hp. destruct (too_large _ _); [discriminate|]. inversion Hp; subst. unfold retained_packet. reflexivity. }
    destruct (ret_entry_frame (s_ob s) e W F Hin) as [Hfr Hlen].
    destruct (update_first_unique re_pid (fun e0 => {| re_pid := re_pid e0; re_off := re_off e0; re_len := re_len e0; re_st := set_written_state (w + n) l0 |})
                (ob_ret (s_ob s)) e Nret Hin) as [pre [post [El Hu]]].
    rewrite El in Hs, Hz. rewrite map_app in Hs, Hz. cbn [map] in Hs, Hz. rewrite ipl_app, ipl_cons, Hse in Hs, Hz.
    assert (Qs : ipl (map ce_st (ob_ctl (s_ob s))) = 0%nat /\ ipl (map le_st (ob_rel (s_ob s))) = 0%nat /\ ipl (map re_st pre) = 0%nat
                 /\ ipl (map re_st post) = 0%nat).
    { destruct (is_in_progress (SWrite w)) eqn:Ei; [lia|specialize (Hz eq_refl); lia]. }
    destruct Qs as [Qc [Qrel [Qpre Qpost]]]. apply quiet_of_ipl in Qc, Qrel, Qpre, Qpost.
    assert (T1 : tail_ctl (ob_ctl (s_ob s)) = []) by (apply (tail_quiet ce_st); exact Qc).
    assert (T2 : tail_rel (ob_rel (s_ob s)) = []) by (apply (tail_quiet le_st); exact Qrel).
    split; [|split; [rewrite Hb, Hlen; exact Hl|split; [rewrite Hb; exact Hfr|split]]].
    + unfold tail_of. rewrite T1, T2. cbn [app]. unfold tail_ret. rewrite El.
      rewrite (tail_isolated re_st _ pre e post Qpre Qpost), Hse, Hb. reflexivity.
    + unfold set_written, set_retained_written. rewrite <- Hpid.
      destruct (update_first _ _ (ob_ret (s_ob s))) as [l b] eqn:E. cbn [fst] in Hu. subst l.
      cbn [fst set_ob s_ob]. unfold with_ret, tail_of. cbn [ob_ctl ob_rel ob_ret ob_buf]. rewrite T1, T2. cbn [app].
      unfold tail_ret. rewrite (tail_isolated re_st _ pre _ post Qpre Qpost). cbn [re_st re_off re_len]. rewrite Hb. reflexivity.
    + intros Hle. unfold set_written, set_retained_written. rewrite <- Hpid.
      destruct (update_first _ _ (ob_ret (s_ob s))) as [l b] eqn:E. cbn [fst] in Hu. subst l.
      cbn [fst set_ob s_ob]. unfold with_ret, npart. cbn [ob_ctl ob_rel ob_ret]. rewrite map_app. cbn [map re_st].
      unfold set_written_state. destruct (N.leb_spec l0 (w + n)); [|lia].
      rewrite ppl_app, ppl_cons. cbn [sstate_partial]. rewrite !ppl_fresh_all by assumption. reflexivity.
Qed.

(* a completed flush of the entry the engine picked leaves the tail alone (that entry owned nothing any more) *)
Lemma filter_fresh_id : forall t : list centry, Forall (fun x => is_fresh (ce_st x) = true) t ->
  filter (fun e => negb (sstate_eqb (ce_st e) SSent)) t = t.
Proof.
  induction t as [|y t IH]; intros F; [reflexivity|]. inversion F; subst. cbn [filter].
  destruct (ce_st y) as [w| |]; try discriminate. cbn [sstate_eqb negb]. now rewrite IH.
Qed.

Lemma tail_replace : forall {A} (st : A -> sstate) (bs : A -> bytes) pre (e e' : A) post,
  st_prefix (st e) (bs e) = st_prefix (st e') (bs e') ->
  concat (map (fun x => st_prefix (st x) (bs x)) (pre ++ e :: post)) =
  concat (map (fun x => st_prefix (st x) (bs x)) (pre ++ e' :: post)).
Proof. intros. rewrite !map_app, !concat_app. cbn [map concat]. now rewrite H. Qed.

Theorem engine_flush_tail : forall s st p now,
  WInv s -> next_step (s_ob s) = Some st -> prepare_step s st = PFlush p ->
  tail_of (s_ob (fst (complete_flush s p now))) = tail_of (s_ob s).
Proof.
  intros s st p now [I [F [Hs Hc]]] Hn Hp.
  pose proof (next_step_entry _ _ Hn) as He.
  destruct (nodup_ids _ (oi_nodup _ (inv_ob _ I))) as [Nret Nrel].
  unfold complete_flush.
  destruct st as [a s0|pid rc s0|pid off l0 s0]; destruct s0 as [w0| |]; cbn [prepare_step] in Hp; try discriminate;
    try (destruct (encode_control_packet _); [destruct (too_large _ _)|]; discriminate);
    try (destruct (encode_pubrel _ _); [destruct (too_large _ _)|]; discriminate);
    try (destruct (too_large _ _); discriminate).
  - (* control *) inversion Hp; subst p. destruct (ctl_step_head _ _ _ Hc Hn) as [t Et].
    rewrite Et in Hc. destruct Hc as [_ Ht].
    unfold flush_control. rewrite Et. cbn [update_first ce_act]. rewrite caction_eqb_refl. cbn [fst set_rt set_ob s_ob].
    unfold with_ctl, tail_of. cbn [ob_ctl ob_rel ob_ret ob_buf filter ce_st sstate_eqb negb]. rewrite (filter_fresh_id t Ht), Et.
    unfold tail_ctl. cbn [map concat ce_st st_prefix app]. reflexivity.
  - (* release *) inversion Hp; subst p. destruct He as [e [Hin [Hpid [Hrc Hse]]]].
    destruct (update_first_unique le_pid (fun e0 => {| le_pid := le_pid e0; le_rc := le_rc e0; le_st := SSent |})
                (ob_rel (s_ob s)) e Nrel Hin) as [pre [post [El Hu]]].
    unfold flush_release. rewrite <- Hpid. destruct (update_first _ _ (ob_rel (s_ob s))) as [l b] eqn:E. cbn [fst] in Hu. subst l.
    cbn [fst set_rt set_ob s_ob]. unfold with_rel, tail_of. cbn [ob_ctl ob_rel ob_ret ob_buf]. f_equal. f_equal.
    unfold tail_rel. rewrite El. symmetry. apply tail_replace. rewrite Hse. reflexivity.
  - (* retained *) inversion Hp; subst p. destruct He as [e [Hin [Hpid [Hoff [Hl Hse]]]]].
    destruct (update_first_unique re_pid (fun e0 => {| re_pid := re_pid e0; re_off := re_off e0; re_len := re_len e0; re_st := SSent |})
                (ob_ret (s_ob s)) e Nret Hin) as [pre [post [El Hu]]].
    unfold flush_retained. rewrite <- Hpid. destruct (update_first _ _ (ob_ret (s_ob s))) as [l b] eqn:E. cbn [fst] in Hu. subst l.
    cbn [fst set_rt set_ob s_ob]. unfold with_ret, tail_of. cbn [ob_ctl ob_rel ob_ret ob_buf]. f_equal. f_equal.
    unfold tail_ret. rewrite El. symmetry. apply tail_replace. rewrite Hse. reflexivity.
Qed.

(* ---------------------------------------------------------------- the machine: ghost bookkeeping of the primitives *)
Definition same_ghost (w w' : world) : Prop :=
  w_wire w' = w_wire w /\ w_live w' = w_live w /\ w_poison w' = w_poison w.
Lemma same_ghost_refl : forall w, same_ghost w w.
Proof. intros. repeat split. Qed.
Lemma same_ghost_trans : forall a b c, same_ghost a b -> same_ghost b c -> same_ghost a c.
Proof. intros a b c [H1 [H2 H3]] [H4 [H5 H6]]. repeat split; congruence. Qed.

Lemma broker_feed_ghost : forall w a, same_ghost w (broker_feed w a).
Proof.
  intros. unfold broker_feed. destruct (N.eqb (w_broker w) 0); [apply same_ghost_refl|].
  destruct (broker_split _ _ _ _) as [r rest]. destruct r; repeat split.
Qed.

Lemma io_write_ghost : forall bs w w1 r, io_write bs w = (w1, r) ->
  w_sess w1 = w_sess w /\ w_live w1 = w_live w /\ w_poison w1 = w_poison w /\
  match r with
  | WOk n => w_wire w1 = w_wire w ++ takeN n bs /\ n <= lenN bs
  | _ => w_wire w1 = w_wire w
  end.
Proof.
  intros bs w w1 r H. unfold io_write in H.
  destruct (N.eqb_spec (lenN bs) 0) as [E|E].
  { injection H as <- <-. repeat split; try lia. unfold upd_log, w_wire. rewrite takeN_0. now rewrite app_nil_r. }
  destruct (next_ev w) as [[k amt] rest].
  destruct (N.eqb k 1); [injection H as <- <-; repeat split|].
  destruct (N.eqb k 2).
  { injection H as <- <-. repeat split; try lia. unfold upd_log, upd_script, w_wire. rewrite takeN_0. now rewrite app_nil_r. }
  destruct (N.eqb k 3); [injection H as <- <-; repeat split|].
  assert (L1 : 1 <= lenN bs) by lia.
  destruct (N.eqb k 4).
  { unfold slow_write in H. cbv zeta in H. injection H as <- <-.
    match goal with |- context [broker_feed ?x ?a] => pose proof (broker_feed_ghost x a) as [G1 [G2 G3]]; pose proof (broker_feed_sess x a) as G4 end.
    split; [rewrite G4; reflexivity|]. split; [rewrite G2; reflexivity|]. split; [rewrite G3; reflexivity|].
    split; [rewrite G1; reflexivity|exact L1]. }
  destruct (N.eqb k 5).
  { unfold slow_write in H. cbv zeta in H. injection H as <- <-.
    match goal with |- context [broker_feed ?x ?a] => pose proof (broker_feed_ghost x a) as [G1 [G2 G3]]; pose proof (broker_feed_sess x a) as G4 end.
    split; [rewrite G4; reflexivity|]. split; [rewrite G2; reflexivity|]. split; [rewrite G3; reflexivity|].
    split; [rewrite G1; reflexivity|apply N.le_refl]. }
  cbv zeta in H. injection H as <- <-.
  match goal with |- context [broker_feed ?x ?a] => pose proof (broker_feed_ghost x a) as [G1 [G2 G3]]; pose proof (broker_feed_sess x a) as G4 end.
  unfold upd_wire, upd_log, upd_script in *. cbn [w_wire w_live w_poison w_sess] in *.
  repeat split; try assumption; try lia.
Qed.

Lemma io_flush_ghost : forall w w1 r, io_flush w = (w1, r) -> w_sess w1 = w_sess w /\ same_ghost w w1.
Proof.
  intros w w1 r H. unfold io_flush in H. destruct (next_ev w) as [[k a] rest].
  destruct (N.eqb k 1); [inversion H; subst; repeat split|]. destruct (N.eqb k 3); inversion H; subst; repeat split.
Qed.

Lemma deliver_ghost : forall win amt w, same_ghost w (fst (deliver win amt w)).
Proof. intros. unfold deliver. destruct (avail_split _ _). repeat split. Qed.

Lemma io_read_ghost : forall win dl w, same_ghost w (fst (io_read win dl w)).
Proof.
  intros. unfold io_read. destruct (N.eqb win 0); [repeat split|].
  destruct (next_ev w) as [[k amt] rest].
  destruct (N.eqb k 1); [repeat split|]. destruct (N.eqb k 2); [repeat split|]. destruct (N.eqb k 3); [repeat split|].
  destruct (avail_split (w_now w) (w_inq w)) as [av l0]. destruct av as [|a0 av'].
  - match goal with |- context [if ?c then None else ?t] => destruct (if c then None else t) as [t0|] end; [|repeat split].
    cbv zeta. match goal with |- context [avail_split t0 ?q] => destruct (avail_split t0 q) as [av1 l1] end.
    destruct av1; [repeat split|].
    eapply same_ghost_trans; [|apply deliver_ghost]. repeat split.
  - eapply same_ghost_trans; [|apply deliver_ghost]. repeat split.
Qed.

(* ---------------------------------------------------------------- the wire invariant *)
Definition frames_ok (fs : list bytes) : Prop := Forall is_frame fs.
Definition prefix_of_frame (t : bytes) : Prop := t = [] \/ exists f k, is_frame f /\ t = takeN k f.

(* dead handle (or any handle): whole packets, then at most the beginning of one *)
Definition DeadForm (w : world) : Prop :=
  exists fs t, frames_ok fs /\ w_wire w = concat fs ++ t /\ prefix_of_frame t.
(* live handle: whole packets, then exactly the written prefix of the entry in progress *)
Definition LiveForm (w : world) : Prop :=
  exists fs, frames_ok fs /\ w_wire w = concat fs ++ tail_of (s_ob (w_sess w)).
(* a complete inbound packet waits in the reader only while no outbound packet is half written *)
Definition Jinv (w : world) : Prop :=
  packet_available (s_reader (w_sess w)) = true -> npart (s_ob (w_sess w)) = 0%nat.
Definition WI (w : world) : Prop :=
  w_poison w = false -> DeadForm w /\ (w_live w = true -> LiveForm w /\ Jinv w).

Lemma WInv_wq : forall w w', wq w w' -> WInv (w_sess w) -> WInv (w_sess w').
Proof.
  intros w w' H I. apply wq_sreach in H. destruct H as [ls H]. eapply (spath_inv WInv); [exact WInv_step|exact H|exact I].
Qed.

(* the tail owned by the queues is empty or the beginning of one packet *)
Lemma seg_shape : forall {A} (st : A -> sstate) (bs : A -> bytes) (l : list A),
  (ipl (map st l) <= 1)%nat ->
  concat (map (fun e => st_prefix (st e) (bs e)) l) = [] \/
  exists e, In e l /\ concat (map (fun x => st_prefix (st x) (bs x)) l) = st_prefix (st e) (bs e).
Proof.
  induction l as [|x t IH]; intros H; [now left|]. cbn [map] in H. rewrite ipl_cons in H. cbn [map concat].
  destruct (is_in_progress (st x)) eqn:E.
  - right. exists x. split; [now left|]. rewrite (tail_quiet st bs t), app_nil_r; [reflexivity|]. apply quiet_of_ipl. lia.
  - rewrite (st_prefix_quiet (st x)) by (now apply partial_is_ip). cbn [app].
    destruct IH as [IH|[e [Hi He]]]; [lia|now left|]. right. exists e. split; [now right|exact He].
Qed.

Lemma ctl_bytes_frame : forall a, ctl_bytes a = [] \/ is_frame (ctl_bytes a).
Proof.
  intros a. unfold ctl_bytes. destruct (encode_control_packet a) as [off bs|e] eqn:E; [|now left].
  right. destruct (control_packet_frame a off bs E) as [first [F _]]. now exists first.
Qed.
Lemma rel_bytes_frame : forall pid rc, rel_bytes pid rc = [] \/ is_frame (rel_bytes pid rc).
Proof.
  intros. unfold rel_bytes. destruct (encode_pubrel pid rc) as [off bs|e] eqn:E; [|now left].
  right. eexists. exact (proj1 (pubrel_frame pid rc off bs E)).
Qed.
Lemma takeN_nil : forall k, takeN k (@nil N) = [].
Proof. intros. now destruct k. Qed.

Lemma prefix_shape : forall st bs, bs = [] \/ is_frame bs -> prefix_of_frame (st_prefix st bs).
Proof.
  intros [k| |] bs H; cbn [st_prefix]; try (now left). destruct H as [->|H]; [left; apply takeN_nil|].
  right. exists bs, k. split; [exact H|reflexivity].
Qed.

Lemma seg_zero : forall {A} (st : A -> sstate) (bs : A -> bytes) (l : list A),
  ipl (map st l) = 0%nat -> concat (map (fun e => st_prefix (st e) (bs e)) l) = [].
Proof. intros. apply tail_quiet. now apply quiet_of_ipl. Qed.

Theorem tail_shape : forall s, WInv s -> prefix_of_frame (tail_of (s_ob s)).
Proof.
  intros s [I [F [Hs Hc]]]. pose proof (oi_arena _ (inv_ob _ I)) as W. unfold Single, nip in Hs.
  unfold tail_of, tail_ctl, tail_rel, tail_ret.
  set (c1 := ipl (map ce_st (ob_ctl (s_ob s)))) in *. set (c2 := ipl (map le_st (ob_rel (s_ob s)))) in *.
  set (c3 := ipl (map re_st (ob_ret (s_ob s)))) in *.
  destruct (Nat.eq_dec c1 0) as [Z1|Z1]; destruct (Nat.eq_dec c2 0) as [Z2|Z2]; destruct (Nat.eq_dec c3 0) as [Z3|Z3]; try lia.
  - rewrite (seg_zero ce_st _ _ Z1), (seg_zero le_st _ _ Z2), (seg_zero re_st _ _ Z3). now left.
  - rewrite (seg_zero ce_st _ _ Z1), (seg_zero le_st _ _ Z2). cbn [app].
    destruct (seg_shape re_st (fun e => sliceN (re_off e) (re_len e) (ob_buf (s_ob s))) (ob_ret (s_ob s))) as [E|[e [Hi E]]];
      [fold c3; lia|rewrite E; now left|rewrite E]. apply prefix_shape. right. exact (proj1 (ret_entry_frame (s_ob s) e W F Hi)).
  - rewrite (seg_zero ce_st _ _ Z1), (seg_zero re_st _ _ Z3), app_nil_r. cbn [app].
    destruct (seg_shape le_st (fun e => rel_bytes (le_pid e) (le_rc e)) (ob_rel (s_ob s))) as [E|[e [Hi E]]];
      [fold c2; lia|rewrite E; now left|rewrite E]. apply prefix_shape. apply rel_bytes_frame.
  - rewrite (seg_zero le_st _ _ Z2), (seg_zero re_st _ _ Z3), !app_nil_r.
    destruct (seg_shape ce_st (fun e => ctl_bytes (ce_act e)) (ob_ctl (s_ob s))) as [E|[e [Hi E]]];
      [fold c1; lia|rewrite E; now left|rewrite E]. apply prefix_shape. apply ctl_bytes_frame.
Qed.

Lemma live_is_dead : forall w, WInv (w_sess w) -> LiveForm w -> DeadForm w.
Proof.
  intros w I [fs [F E]]. exists fs, (tail_of (s_ob (w_sess w))). split; [exact F|]. split; [exact E|]. now apply tail_shape.
Qed.

(* ---------------------------------------------------------------- preservation by the machine's functions *)
Definition G (w : world) : Prop := WInv (w_sess w) /\ WI w.
Definition Pres (w w' : world) : Prop := (w_poison w' = false -> w_poison w = false) /\ (G w -> G w').
Definition NA (w : world) : Prop := packet_available (s_reader (w_sess w)) = false.

Lemma Pres_refl : forall w, Pres w w.
Proof. intros. split; auto. Qed.
Lemma Pres_trans : forall a b c, Pres a b -> Pres b c -> Pres a c.
Proof. intros a b c [H1 H2] [H3 H4]. split; auto. Qed.

Lemma G_same : forall w w', w_sess w' = w_sess w -> same_ghost w w' -> G w -> G w'.
Proof.
  intros w w' Hs [Hw [Hl Hp]] [I H]. split; [now rewrite Hs|]. unfold WI, DeadForm, LiveForm, Jinv in *.
  rewrite Hs, Hw, Hl, Hp. exact H.
Qed.
Lemma Pres_same : forall w w', w_sess w' = w_sess w -> same_ghost w w' -> Pres w w'.
Proof. intros w w' Hs Hg. split; [destruct Hg as [_ [_ Hp]]; now rewrite Hp|now apply G_same]. Qed.

Lemma Pres_hd : forall w, Pres w (w_hd w).
Proof.
  intros w. split; [auto|]. intros [I H]. split.
  - eapply WInv_wq; [apply hd_wq|exact I].
  - intros Hp. cbn [w_hd w_poison upd_live upd_sess] in Hp. destruct (H Hp) as [D _]. split; [exact D|]. intros Hl. discriminate Hl.
Qed.

Lemma set_written_reader : forall s p x len, s_reader (fst (set_written s p x len)) = s_reader s.
Proof.
  intros. unfold set_written. destruct p; [destruct (set_control_written _ _ _ _)|destruct (set_release_written _ _ _ _)|destruct (set_retained_written _ _ _ _)]; reflexivity.
Qed.
Lemma complete_flush_reader : forall s p now, s_reader (fst (complete_flush s p now)) = s_reader s.
Proof.
  intros. unfold complete_flush. destruct p; [destruct (flush_control _ _)|destruct (flush_release _ _)|destruct (flush_retained _ _)]; reflexivity.
Qed.

(* after a completed flush, given that nothing is half written afterwards *)
Lemma flush_current_quiet : forall p now w,
  w_live w = true -> NA w -> WInv (w_sess w) -> (exists l, sstep (w_sess w) l (fst (complete_flush (w_sess w) p now))) ->
  (G w -> w_poison w = false -> exists fs, frames_ok fs /\ w_wire w = concat fs ++ tail_of (s_ob (fst (complete_flush (w_sess w) p now)))) ->
  forall w' r, flush_current p now w = (w', r) ->
  (w_poison w' = false -> w_poison w = false) /\ NA w' /\ (G w -> G w').
Proof.
  intros p now w Hl Hna I [lbl Hstep] Hform w' r H. unfold flush_current in H. rewrite Hl in H. cbn [negb] in H.
  destruct (io_flush w) as [w1 fr] eqn:Ef. destruct (io_flush_ghost _ _ _ Ef) as [Hs [Hw [Hlv Hpo]]].
  destruct fr.
  - (* flushed *)
    destruct (complete_flush (w_sess w1) p now) as [s3 f3] eqn:Ec.
    assert (Es3 : s3 = fst (complete_flush (w_sess w) p now)) by (rewrite <- Hs, Ec; reflexivity).
    assert (Hw' : w' = upd_sess w1 s3) by (destruct f3; now inversion H). subst w'. clear H.
    cbn [w_poison upd_sess]. split; [now rewrite Hpo|]. split.
    + unfold NA. cbn [w_sess upd_sess]. rewrite Es3, complete_flush_reader. exact Hna.
    + intros Gw. split.
      * cbn [w_sess upd_sess]. rewrite Es3. eapply WInv_step; eassumption.
      * intros Hp. cbn [w_poison upd_sess] in Hp. rewrite Hpo in Hp. destruct (Hform Gw Hp) as [fs [Ff Ew]].
        assert (L : LiveForm (upd_sess w1 s3)).
        { exists fs. split; [exact Ff|]. cbn [w_wire w_sess upd_sess]. rewrite Hw, Es3. exact Ew. }
        split; [apply live_is_dead; [cbn [w_sess upd_sess]; rewrite Es3; eapply WInv_step; eassumption|exact L]|].
        intros _. split; [exact L|]. intros Hav. unfold NA in Hna. cbn [w_sess upd_sess] in Hav. rewrite Es3, complete_flush_reader in Hav. congruence.
  - (* flush failed *) inversion H; subst. split; [cbn [w_hd w_poison upd_live upd_sess]; now rewrite Hpo|]. split.
    + unfold NA. cbn [w_hd w_sess upd_live upd_sess sess_handle_disconnect set_reader s_reader]. reflexivity.
    + intros Gw. apply (proj2 (Pres_hd w1)). eapply G_same; [exact Hs|repeat split; assumption|exact Gw].
  - (* dropped *) inversion H; subst. split; [now rewrite Hpo|]. split; [unfold NA; now rewrite Hs|].
    intros Gw. eapply G_same; [exact Hs|repeat split; assumption|exact Gw].
Qed.

Lemma frames_ok_snoc : forall fs f, frames_ok fs -> is_frame f -> frames_ok (fs ++ [f]).
Proof. intros. apply Forall_app. split; [assumption|constructor; [assumption|constructor]]. Qed.
Lemma concat_snoc : forall (fs : list bytes) f, concat (fs ++ [f]) = concat fs ++ f.
Proof. intros. rewrite concat_app. cbn [concat]. now rewrite app_nil_r. Qed.

Theorem step_pres : forall st now w w' r,
  WInv (w_sess w) -> NA w -> next_step (s_ob (w_sess w)) = Some st ->
  perform_outbound_step st now w = (w', r) ->
  (w_poison w' = false -> w_poison w = false) /\ NA w' /\ (G w -> G w').
Proof.
  intros st now w w' r I Hna Hn H. unfold perform_outbound_step in H.
  destruct (prepare_step (w_sess w) st) as [p bs written len|p| |e] eqn:Ep.
  - (* write *)
    destruct (w_live w) eqn:Hl; cbn [negb] in H; [|inversion H; subst; split; [auto|split; [exact Hna|auto]]].
    destruct (io_write (dropN written bs) w) as [w1 r0] eqn:Ew.
    destruct (io_write_ghost _ _ _ _ Ew) as [Hs [Hlv [Hpo Hwire]]].
    destruct r0 as [n| |].
    + destruct Hwire as [Hwire Hle]. destruct (N.eqb_spec n 0) as [En|En].
      { (* Ok(0) *) inversion H; subst w' r. subst n. rewrite takeN_0, app_nil_r in Hwire.
        split; [now rewrite Hpo|]. split; [unfold NA; now rewrite Hs|]. intros Gw. eapply G_same; [exact Hs|repeat split; assumption|exact Gw]. }
      destruct (set_written (w_sess w1) p (written + n) len) as [s2 found] eqn:Es.
      assert (Es2 : s2 = fst (set_written (w_sess w) p (written + n) len)) by (rewrite <- Hs, Es; reflexivity).
      set (w2 := upd_sess w1 s2) in *.
      assert (Hstep : sstep (w_sess w) LOther s2) by (rewrite Es2; eapply SS_written; eassumption).
      assert (I2 : WInv (w_sess w2)) by (cbn [w2 w_sess upd_sess]; eapply WInv_step; eassumption).
      assert (Na2 : NA w2) by (unfold NA; cbn [w2 w_sess upd_sess]; rewrite Es2, set_written_reader; exact Hna).
      destruct (engine_tail (w_sess w) st p bs written len n I Hn Ep) as [T0 [Tl [Tf [T1 Tq]]]].
      (* the wire after the write *)
      assert (Form2 : G w -> w_poison w2 = false ->
                exists fs, frames_ok fs /\ w_wire w2 = concat fs ++ tail_of (s_ob s2)).
      { intros [_ HW] Hp. cbn [w2 w_poison upd_sess] in Hp. rewrite Hpo in Hp. destruct (HW Hp) as [_ HL]. destruct (HL Hl) as [[fs [Ff Ewi]] _].
        cbn [w2 w_wire upd_sess]. rewrite Hwire, Ewi, T0, <- app_assoc, takeN_takeN_dropN, Es2, T1.
        unfold set_written_state. destruct (N.leb_spec len (written + n)) as [L|L]; cbn [st_prefix].
        - exists (fs ++ [bs]). split; [now apply frames_ok_snoc|]. rewrite concat_snoc, app_nil_r. f_equal. apply takeN_all. lia.
        - exists fs. split; [exact Ff|reflexivity]. }
      assert (G2 : G w -> G w2).
      { intros Gw. split; [exact I2|]. intros Hp. destruct (Form2 Gw Hp) as [fs [Ff Ewi]].
        assert (L : LiveForm w2) by (exists fs; split; [exact Ff|exact Ewi]).
        split; [now apply live_is_dead|]. intros _. split; [exact L|]. intros Hav. unfold NA in Na2. congruence. }
      assert (P2 : w_poison w2 = false -> w_poison w = false) by (cbn [w2 w_poison upd_sess]; now rewrite Hpo).
      destruct (negb found); [inversion H; subst w' r; exact (conj P2 (conj Na2 G2))|].
      destruct (N.ltb_spec (written + n) len) as [L|L]; [inversion H; subst w' r; exact (conj P2 (conj Na2 G2))|].
      (* the entry is complete: flush *)
      assert (Hl2 : w_live w2 = true) by (cbn [w2 w_live upd_sess]; now rewrite Hlv).
      assert (Q2 : npart (s_ob (fst (complete_flush (w_sess w2) p now))) = 0%nat).
      { pose proof (calmp_complete_flush (w_sess w2) p now) as [Hc _]. cbn [w2 w_sess upd_sess] in *. rewrite Es2 in *.
        specialize (Tq L). lia. }
      destruct (flush_current_quiet p now w2 Hl2 Na2 I2) with (w' := w') (r := r) as [Pa [Pb Pc]].
      * eexists. apply SS_flushed.
      * intros Gw2 Hp.
        (* G w2 gives the live form of w2; its tail is empty because nothing is half written *)
        destruct Gw2 as [_ HW2]. destruct (HW2 Hp) as [_ HL]. destruct (HL Hl2) as [[fs [Ff Ewi]] _]. exists fs. split; [exact Ff|].
        rewrite (npart_zero_tail _ Q2), app_nil_r.
        rewrite Ewi. cbn [w2 w_sess upd_sess]. rewrite Es2, T1. unfold set_written_state. destruct (N.leb_spec len (written + n)); [|lia]. cbn [st_prefix]. now rewrite app_nil_r.
      * exact H.
      * split; [auto|]. split; [exact Pb|]. intros Gw. apply Pc. now apply G2.
    + (* transport failure *) inversion H; subst w' r. split; [cbn [w_hd w_poison upd_live upd_sess]; now rewrite Hpo|]. split.
      * unfold NA. cbn [w_hd w_sess upd_live upd_sess sess_handle_disconnect set_reader s_reader]. reflexivity.
      * intros Gw. apply (proj2 (Pres_hd w1)). eapply G_same; [exact Hs|repeat split; assumption|exact Gw].
    + (* dropped *) inversion H; subst w' r. split; [now rewrite Hpo|]. split; [unfold NA; now rewrite Hs|].
      intros Gw. eapply G_same; [exact Hs|repeat split; assumption|exact Gw].
  - (* flush *)
    destruct (w_live w) eqn:Hl.
    + destruct (flush_current_quiet p now w Hl Hna I) with (w' := w') (r := r) as [Pa [Pb Pc]]; [eexists; apply SS_flushed| |exact H|exact (conj Pa (conj Pb Pc))].
      intros [_ HW] Hp. destruct (HW Hp) as [_ HL]. destruct (HL Hl) as [[fs [Ff Ewi]] _]. exists fs. split; [exact Ff|].
      rewrite (engine_flush_tail (w_sess w) st p now I Hn Ep). exact Ewi.
    + unfold flush_current in H. rewrite Hl in H. cbn [negb] in H. inversion H; subst. split; [auto|split; [exact Hna|auto]].
  - inversion H; subst. split; [auto|split; [exact Hna|auto]].
  - inversion H; subst. split; [auto|split; [exact Hna|auto]].
Qed.

(* a change of the session alone that leaves the owned tail and the reader alone *)
Lemma Pres_sess : forall w s1 l,
  sstep (w_sess w) l s1 -> tail_of (s_ob s1) = tail_of (s_ob (w_sess w)) ->
  (npart (s_ob s1) <= npart (s_ob (w_sess w)))%nat -> s_reader s1 = s_reader (w_sess w) ->
  Pres w (upd_sess w s1).
Proof.
  intros w s1 l Hstep Ht Hq Hr. split; [auto|]. intros [I HW]. split; [cbn [w_sess upd_sess]; eapply WInv_step; eassumption|].
  intros Hp. destruct (HW Hp) as [D L]. split.
  - destruct D as [fs [t [Ff [Ew Pt]]]]. exists fs, t. repeat split; assumption.
  - intros Hl. destruct (L Hl) as [[fs [Ff Ew]] J]. split.
    + exists fs. split; [exact Ff|]. cbn [w_wire w_sess upd_sess]. now rewrite Ht.
    + unfold Jinv in *. cbn [w_sess upd_sess]. rewrite Hr. intros Ha. specialize (J Ha). lia.
Qed.

Lemma ping_pres : forall w now, Pres w (upd_sess w (fst (maybe_queue_pingreq (w_sess w) now))) /\
  s_reader (fst (maybe_queue_pingreq (w_sess w) now)) = s_reader (w_sess w).
Proof.
  intros w now. split.
  - eapply Pres_sess; [apply SS_ping| | |];
      unfold maybe_queue_pingreq; destruct (should_queue_pingreq _ _); try reflexivity; try lia;
      destruct (check_control_size _ _); try reflexivity; try lia;
      destruct (queue_control (s_ob (w_sess w)) CPing) as [o|] eqn:E; cbn [fst set_ob s_ob]; try reflexivity; try lia.
    + eapply tail_of_queue_control; exact E.
    + exact (proj1 (calmp_queue_control _ _ _ E)).
  - unfold maybe_queue_pingreq. destruct (should_queue_pingreq _ _); [|reflexivity]. destruct (check_control_size _ _); [reflexivity|].
    destruct (queue_control _ _); reflexivity.
Qed.

Lemma next_none_quiet : forall o, next_step o = None -> nip o = 0%nat.
Proof.
  intros o H. unfold next_step, orelse in H. destruct (next_step_pass o true) eqn:E1; [discriminate|].
  unfold next_step_pass, orelse, find_ctl, find_rel, find_ret in E1. cbn [matches_priority] in E1.
  destruct (find (fun e => is_in_progress (ce_st e)) (ob_ctl o)) eqn:F1; [discriminate|].
  destruct (find (fun e => is_in_progress (le_st e)) (ob_rel o)) eqn:F2; [discriminate|].
  destruct (find (fun e => is_in_progress (re_st e)) (ob_ret o)) eqn:F3; [discriminate|].
  apply nothing_in_progress_nip; intros e He; [exact (find_none _ _ F1 e He)|exact (find_none _ _ F2 e He)|exact (find_none _ _ F3 e He)].
Qed.

Theorem flush_outbound_pres : forall fuel w w' r,
  WInv (w_sess w) -> NA w -> flush_outbound fuel w = (w', r) ->
  (w_poison w' = false -> w_poison w = false) /\ NA w' /\ (G w -> G w') /\
  (r = ODone tt -> next_step (s_ob (w_sess w')) = None).
Proof.
  induction fuel as [|f IH]; intros w w' r I Hna H; cbn [flush_outbound] in H.
  { inversion H; subst. split; [auto|split; [exact Hna|split; [auto|discriminate]]]. }
  destruct (maybe_queue_pingreq (w_sess w) (w_now w)) as [s1 e] eqn:Em.
  destruct (ping_pres w (w_now w)) as [[P1 P2] Pr]. rewrite Em in P1, P2, Pr. cbn [fst] in P1, P2, Pr.
  set (w1 := upd_sess w s1) in *.
  assert (I1 : WInv (w_sess w1)).
  { cbn [w1 w_sess upd_sess]. replace s1 with (fst (maybe_queue_pingreq (w_sess w) (w_now w))) by now rewrite Em.
    eapply WInv_step; [apply SS_ping|exact I]. }
  assert (Na1 : NA w1) by (unfold NA; cbn [w1 w_sess upd_sess]; rewrite Pr; exact Hna).
  destruct e as [e|]; [inversion H; subst; split; [exact P1|split; [exact Na1|split; [exact P2|discriminate]]]|].
  destruct (next_step (s_ob (w_sess w1))) as [st|] eqn:En;
    [|inversion H; subst; split; [exact P1|split; [exact Na1|split; [exact P2|intros _; exact En]]]].
  destruct (perform_outbound_step st (w_now w) w1) as [w2 r2] eqn:Es.
  destruct (step_pres st (w_now w) w1 w2 r2 I1 Na1 En Es) as [Q1 [Q2 Q3]].
  assert (I2 : WInv (w_sess w2)).
  { eapply WInv_wq; [|exact I1]. pose proof (perform_outbound_step_wq st (w_now w) w1 En) as Hq. now rewrite Es in Hq. }
  destruct r2 as [b|e| | |].
  - destruct (IH w2 w' r I2 Q2 H) as [R1 [R2 [R3 R4]]]. split; [auto|split; [exact R2|split; [auto|exact R4]]].
  - inversion H; subst. split; [auto|split; [exact Q2|split; [auto|discriminate]]].
  - inversion H; subst. split; [auto|split; [exact Q2|split; [auto|discriminate]]].
  - inversion H; subst. split; [auto|split; [exact Q2|split; [auto|discriminate]]].
  - inversion H; subst. split; [auto|split; [exact Q2|split; [auto|discriminate]]].
Qed.

Lemma queue_ctl_checked_reader : forall s a d, s_reader (fst (queue_ctl_checked s a d)) = s_reader s.
Proof. intros. unfold queue_ctl_checked. destruct (check_control_size _ _); [reflexivity|]. destruct (queue_control _ _); reflexivity. Qed.

Lemma handle_packet_reader : forall s p, s_reader (fst (handle_packet s p)) = s_reader s.
Proof.
  intros s p. unfold handle_packet.
  destruct p as [sp rc props|tp pid q rt dup props pl|pid rc|pid rc|pid rc|pid rc|pid props codes|pid props codes|rc props| ];
    try reflexivity.
  - destruct q; [reflexivity| |]; (destruct pid as [id|]; [|reflexivity]).
    + apply queue_ctl_checked_reader.
    + cbn [handle_packet]. q2_split; apply queue_ctl_checked_reader.
  - destruct (ack_packet _ _) as [o f]. destruct (negb f); [reflexivity|]. destruct (rc_success rc); reflexivity.
  - destruct (ack_packet _ _) as [o f]. destruct f.
    + destruct (negb (rc_success rc)); [reflexivity|]. cbn [set_ob s_rt].
      destruct (check_pubrel_size _ _ _); [reflexivity|]. destruct (queue_release _ _ _); reflexivity.
    + destruct (has_pending_release _ _); [destruct (rc_success rc)|]; reflexivity.
  - destruct (swap_remove_id pid (s_srv s)) as [l|].
    + exact (queue_ctl_checked_reader (set_srv s l) _ _).
    + apply queue_ctl_checked_reader.
  - destruct (ack_release _ _) as [o f]. destruct (negb f); [reflexivity|]. destruct (rc_success rc); reflexivity.
  - destruct (ack_packet _ _) as [o f]. destruct (negb f); [reflexivity|]. destruct (all_success codes); reflexivity.
  - destruct (ack_packet _ _) as [o f]. destruct (negb f); [reflexivity|]. destruct (all_success codes); reflexivity.
Qed.

(* a session change made while nothing is half written, ending with an empty reader *)
Lemma Pres_quiet : forall w s2,
  sreach (w_sess w) s2 -> (npart (s_ob s2) <= npart (s_ob (w_sess w)))%nat ->
  packet_available (s_reader s2) = false ->
  (w_live w = true -> npart (s_ob (w_sess w)) = 0%nat) ->
  forall w2, w_sess w2 = s2 -> same_ghost w w2 -> Pres w w2.
Proof.
  intros w s2 Hr Hq Hna Hz w2 Hs [Hw [Hl Hp]]. split; [now rewrite Hp|]. intros [I HW]. split.
  - rewrite Hs. destruct Hr as [ls Hr]. eapply (spath_inv WInv); [exact WInv_step|exact Hr|exact I].
  - intros Hp2. rewrite Hp in Hp2. destruct (HW Hp2) as [D L]. split.
    + destruct D as [fs [t [Ff [Ew Pt]]]]. exists fs, t. rewrite Hw. repeat split; assumption.
    + rewrite Hl. intros Hlv. destruct (L Hlv) as [[fs [Ff Ew]] _]. specialize (Hz Hlv). split.
      * exists fs. split; [exact Ff|]. rewrite Hw, Hs, Ew. rewrite (npart_zero_tail _ Hz). rewrite npart_zero_tail by lia. reflexivity.
      * unfold Jinv. rewrite Hs. intros Ha. congruence.
Qed.

Theorem process_received_pres : forall w w' r, process_received w = (w', r) ->
  (packet_available (s_reader (w_sess w)) = false -> w' = w) /\
  (packet_available (s_reader (w_sess w)) = true -> NA w') /\
  Pres w w'.
Proof.
  intros w w' r H. unfold process_received in H.
  destruct (packet_available (s_reader (w_sess w))) eqn:Ea; cbn [negb] in H.
  2:{ inversion H; subst. split; [reflexivity|]. split; [discriminate|apply Pres_refl]. }
  split; [discriminate|].
  destruct (take_packet (s_reader (w_sess w))) as [[[r' pl] op]|] eqn:Et.
  2:{ unfold take_packet in Et. unfold packet_available in Ea. destruct (rplen (s_reader (w_sess w))); discriminate. }
  assert (Er : r' = reader_reset (s_reader (w_sess w))).
  { unfold take_packet in Et. destruct (rplen (s_reader (w_sess w))); inversion Et; reflexivity. }
  assert (Hr0 : packet_available r' = false) by (rewrite Er; reflexivity).
  set (s1 := set_reader (w_sess w) r') in *.
  assert (R1 : sreach (w_sess w) s1) by (eapply sreach_step; apply SS_reader).
  (* the live form of w has an empty tail: a complete packet is in the reader *)
  assert (Hz : forall G0 : G w, w_poison w = false -> w_live w = true -> npart (s_ob (w_sess w)) = 0%nat).
  { intros [_ HW] Hp Hl. destruct (HW Hp) as [_ L]. destruct (L Hl) as [_ J]. exact (J Ea). }
  destruct op as [p|].
  - destruct (handle_packet s1 p) as [s2 hr] eqn:Eh.
    assert (Es2 : s2 = fst (handle_packet s1 p)) by now rewrite Eh.
    assert (R2 : sreach (w_sess w) s2).
    { eapply sreach_trans; [exact R1|]. rewrite Es2. eapply sreach_step. apply SS_packet. }
    assert (Rd : packet_available (s_reader s2) = false).
    { rewrite Es2, handle_packet_reader. cbn [s1 set_reader s_reader]. exact Hr0. }
    set (w2 := upd_drained (upd_envok (upd_sess w s2) (w_envok w && ack_type_ok s1 p)) _) in *.
    assert (P2 : Pres w w2).
    { split; [auto|]. intros Gw.
      destruct (w_poison w) eqn:Epo.
      - (* poisoned: only WInv matters *)
        split; [|intros Hp; cbn [w2 w_poison upd_drained upd_envok upd_sess] in Hp; congruence].
        cbn [w2 w_sess upd_drained upd_envok upd_sess]. destruct R2 as [ls R2]. eapply (spath_inv WInv); [exact WInv_step|exact R2|exact (proj1 Gw)].
      - eapply (proj2 (Pres_quiet w s2 R2 _ Rd _ w2 eq_refl (conj eq_refl (conj eq_refl eq_refl)))); [exact Gw].
        Unshelve.
        + (* npart does not grow *)
          pose proof (calmp_handle_packet s1 p) as Hc. rewrite Es2.
          assert (I1 : Inv s1).
          { destruct R1 as [ls R1]. exact (proj1 (spath_inv WInv WInv_step _ _ _ R1 (proj1 Gw))). }
          destruct (Hc I1) as [Hn _]. cbn [s1 set_reader s_ob] in Hn. exact Hn.
        + intros Hl. now apply Hz. }
    assert (Na2 : NA w2) by (unfold NA; cbn [w2 w_sess upd_drained upd_envok upd_sess]; exact Rd).
    assert (Nah : NA (w_hd w2)) by (unfold NA; reflexivity).
    destruct hr as [d|e].
    + destruct d; inversion H; subst; (split; [intros _; exact Na2|exact P2]).
    + destruct e; inversion H; subst;
        try (split; [intros _; exact Na2|exact P2]);
        (split; [intros _; exact Nah|eapply Pres_trans; [exact P2|apply Pres_hd]]).
  - (* undecodable packet *)
    inversion H; subst w' r. split; [intros _; unfold NA; reflexivity|].
    eapply Pres_trans; [|apply Pres_hd].
    split; [auto|]. intros Gw.
    destruct (w_poison w) eqn:Epo.
    + split; [|intros Hp; cbn [w_poison upd_sess] in Hp; congruence].
      cbn [w_sess upd_sess]. destruct R1 as [ls R1]. eapply (spath_inv WInv); [exact WInv_step|exact R1|exact (proj1 Gw)].
    + eapply (proj2 (Pres_quiet w s1 R1 _ Hr0 _ (upd_sess w s1) eq_refl (conj eq_refl (conj eq_refl eq_refl)))); [exact Gw].
      Unshelve.
      * cbn [s1 set_reader s_ob]. lia.
      * intros Hl. now apply Hz.
Qed.

Theorem service_pres : forall now w w' r,
  WInv (w_sess w) -> NA w -> service now w = (w', r) ->
  (w_poison w' = false -> w_poison w = false) /\ NA w' /\ (G w -> G w').
Proof.
  intros now w w' r I Hna H. unfold service in H.
  destruct (ping_timed_out (w_sess w) now).
  { inversion H; subst. split; [auto|]. split; [unfold NA; reflexivity|apply (proj2 (Pres_hd w))]. }
  destruct (maybe_queue_pingreq (w_sess w) now) as [s1 e] eqn:Em.
  destruct (ping_pres w now) as [[P1 P2] Pr]. rewrite Em in P1, P2, Pr. cbn [fst] in P1, P2, Pr.
  set (w1 := upd_sess w s1) in *.
  assert (I1 : WInv (w_sess w1)).
  { cbn [w1 w_sess upd_sess]. replace s1 with (fst (maybe_queue_pingreq (w_sess w) now)) by now rewrite Em.
    eapply WInv_step; [apply SS_ping|exact I]. }
  assert (Na1 : NA w1) by (unfold NA; cbn [w1 w_sess upd_sess]; rewrite Pr; exact Hna).
  destruct e as [e|]; [inversion H; subst; exact (conj P1 (conj Na1 P2))|].
  destruct (next_step (s_ob (w_sess w1))) as [st|] eqn:En; [|inversion H; subst; exact (conj P1 (conj Na1 P2))].
  destruct (step_pres st now w1 w' r I1 Na1 En H) as [Q1 [Q2 Q3]]. split; [auto|]. split; [exact Q2|auto].
Qed.

Theorem drive_loop_pres : forall fuel adv w w' r,
  WInv (w_sess w) -> drive_loop fuel adv w = (w', r) ->
  (w_poison w' = false -> w_poison w = false) /\ (G w -> G w') /\
  ((r = ODone PrIdle \/ r = ODone PrAdvanced) -> NA w' /\ next_step (s_ob (w_sess w')) = None) /\
  (forall e, r = OFail e -> True) /\
  (r <> OFuel -> NA w').
Proof.
  induction fuel as [|f IH]; intros adv w w' r I H; cbn [drive_loop] in H.
  { inversion H; subst. split; [auto|]. split; [auto|]. split; [intros [E|E]; discriminate|]. split; [auto|]. intros E. now elim E. }
  destruct (process_received w) as [w1 r1] eqn:Ep.
  destruct (process_received_pres w w1 r1 Ep) as [Pa [Pb [Pc Pd]]].
  assert (I1 : WInv (w_sess w1)).
  { eapply WInv_wq; [|exact I]. pose proof (process_received_wq w) as Hq. now rewrite Ep in Hq. }
  destruct (packet_available (s_reader (w_sess w))) eqn:Ea.
  - (* a packet was waiting: w1 has an empty reader *)
    specialize (Pb eq_refl).
    destruct r1 as [op|e| | |]; try (inversion H; subst; split; [exact Pc|]; split; [exact Pd|]; split; [intros [E|E]; discriminate|];
      split; [auto|]; intros _; exact Pb).
    destruct op as [p|].
    + inversion H; subst. split; [exact Pc|]. split; [exact Pd|]. split; [intros [E|E]; discriminate|]. split; [auto|]. intros _. exact Pb.
    + destruct (IH true w1 w' r I1 H) as [R1 [R2 [R3 [R4 R5]]]]. split; [auto|]. split; [auto|]. split; [exact R3|]. split; [auto|exact R5].
  - (* nothing to process: w1 = w *)
    specialize (Pa eq_refl). subst w1.
    destruct r1 as [op|e| | |]; try (inversion H; subst; split; [auto|]; split; [auto|]; split; [intros [E|E]; discriminate|];
      split; [auto|]; intros _; exact Ea).
    destruct op as [p|]; [inversion H; subst; split; [auto|]; split; [auto|]; split; [intros [E|E]; discriminate|]; split; [auto|]; intros _; exact Ea|].
    destruct (service (w_now w) w) as [w2 r2] eqn:Es.
    destruct (service_pres (w_now w) w w2 r2 I Ea Es) as [Q1 [Q2 Q3]].
    assert (I2 : WInv (w_sess w2)).
    { eapply WInv_wq; [|exact I]. pose proof (service_wq (w_now w) w) as Hq. now rewrite Es in Hq. }
    destruct r2 as [b|e| | |]; try (inversion H; subst; split; [exact Q1|]; split; [exact Q3|]; split; [intros [E|E]; discriminate|];
      split; [auto|]; intros _; exact Q2).
    destruct (next_step (s_ob (w_sess w2))) as [st|] eqn:En.
    + destruct (IH (adv || b) w2 w' r I2 H) as [R1 [R2 [R3 [R4 R5]]]]. split; [auto|]. split; [auto|]. split; [exact R3|]. split; [auto|exact R5].
    + inversion H; subst. split; [exact Q1|]. split; [exact Q3|]. split; [intros _; split; [exact Q2|exact En]|]. split; [auto|]. intros _. exact Q2.
Qed.

Lemma fill_go_same : forall fuel y dl w,
  same_ghost w (fst (fill_go fuel y dl w)) /\ s_ob (w_sess (fst (fill_go fuel y dl w))) = s_ob (w_sess w).
Proof.
  induction fuel as [|f IH]; intros y dl w; cbn [fill_go]; [split; [apply same_ghost_refl|reflexivity]|].
  destruct (packet_available _); [split; [apply same_ghost_refl|reflexivity]|].
  destruct (receive_buffer (s_reader (w_sess w))) as [r' ow]. destruct ow as [win|]; [|split; [repeat split|reflexivity]].
  set (w0 := upd_sess w (set_reader (w_sess w) r')).
  destruct (N.eqb win 0); [split; [repeat split|reflexivity]|].
  destruct (timer_fired y dl w0); [split; [repeat split|reflexivity]|].
  destruct (io_read win dl w0) as [w1 r] eqn:Ei.
  pose proof (io_read_ghost win dl w0) as Hg. rewrite Ei in Hg. cbn [fst] in Hg.
  pose proof (io_read_sess win dl w0) as [Hs _]. rewrite Ei in Hs. cbn [fst] in Hs.
  assert (G0 : same_ghost w w1) by (eapply same_ghost_trans; [|exact Hg]; repeat split).
  assert (O1 : s_ob (w_sess w1) = s_ob (w_sess w)) by (rewrite Hs; reflexivity).
  destruct r as [d| | |]; cbn [fst]; try (split; [exact G0|exact O1]).
  destruct d as [|x t]; [split; [exact G0|exact O1]|].
  match goal with |- context [fill_go f ?yy dl ?x] => destruct (IH yy dl x) as [A B]; split; [eapply same_ghost_trans; [|exact A]|rewrite B] end.
  - destruct G0 as [a [b c]]. repeat split; assumption.
  - cbn [w_sess upd_sess set_reader s_ob]. exact O1.
Qed.
Lemma fill_same : forall fuel dl w,
  same_ghost w (fst (fill_packet_reader fuel dl w)) /\ s_ob (w_sess (fst (fill_packet_reader fuel dl w))) = s_ob (w_sess w).
Proof. intros. apply fill_go_same. Qed.

Theorem fill_pres : forall fuel dl w,
  (w_live w = true -> npart (s_ob (w_sess w)) = 0%nat) -> Pres w (fst (fill_packet_reader fuel dl w)).
Proof.
  intros fuel dl w Hq. destruct (fill_same fuel dl w) as [[Hw [Hl Hp]] Ho].
  set (w' := fst (fill_packet_reader fuel dl w)) in *.
  split; [now rewrite Hp|]. intros [I HW]. split.
  - eapply WInv_wq; [apply fill_wq|exact I].
  - intros Hp2. rewrite Hp in Hp2. destruct (HW Hp2) as [D L]. split.
    + destruct D as [fs [t [Ff [Ew Pt]]]]. exists fs, t. rewrite Hw. repeat split; assumption.
    + rewrite Hl. intros Hlv. destruct (L Hlv) as [[fs [Ff Ew]] _]. split.
      * exists fs. split; [exact Ff|]. now rewrite Hw, Ho.
      * unfold Jinv. rewrite Ho. intros _. now apply Hq.
Qed.

(* what the reader looks like when a read was attempted and did not deliver: no complete packet *)
Lemma receive_window_na : forall r r' win, receive_buffer r = (r', Some win) -> win <> 0 -> packet_available r' = false.
Proof.
  intros r r' win H Hw. unfold receive_buffer in H.
  destruct (match rplen r with None => probe r | Some _ => Some r end) as [r1|]; [|inversion H].
  unfold packet_available. destruct (rplen r1) as [pl|] eqn:Ep.
  - destruct (N.leb_spec pl (rcap r1)); inversion H; subst. rewrite Ep. destruct (N.leb_spec pl (read_bytes r')); [lia|reflexivity].
  - destruct (N.leb_spec (read_bytes r1 + 1) (rcap r1)); inversion H; subst. now rewrite Ep.
Qed.

Definition NAl (w : world) : Prop := w_live w = true -> NA w.

Lemma fill_go_na : forall fuel y dl w w' fr, fill_go fuel y dl w = (w', fr) ->
  match fr with FillOk | FillFuel | FillErr _ => True | _ => NA w' end.
Proof.
  induction fuel as [|f IH]; intros y dl w w' fr H; cbn [fill_go] in H; [inversion H; exact I|].
  destruct (packet_available _); [inversion H; exact I|].
  destruct (receive_buffer (s_reader (w_sess w))) as [r' ow] eqn:Er. destruct ow as [win|]; [|inversion H; exact I].
  destruct (N.eqb_spec win 0) as [Ew|Ew]; [inversion H; exact I|].
  pose proof (receive_window_na _ _ _ Er Ew) as Hna.
  set (w0 := upd_sess w (set_reader (w_sess w) r')) in *.
  destruct (timer_fired y dl w0); [inversion H; subst; unfold NA; exact Hna|].
  destruct (io_read win dl w0) as [w1 r] eqn:Ei.
  pose proof (io_read_sess win dl w0) as [Hs _]. rewrite Ei in Hs. cbn [fst] in Hs.
  destruct r as [d| | |].
  - destruct d as [|x t]; [inversion H; exact I|]. eapply IH. exact H.
  - inversion H; exact I.
  - inversion H; subst. unfold NA. rewrite Hs. exact Hna.
  - inversion H; subst. unfold NA. rewrite Hs. exact Hna.
Qed.
Lemma fill_na : forall fuel dl w w' fr, fill_packet_reader fuel dl w = (w', fr) ->
  match fr with FillOk | FillFuel | FillErr _ => True | _ => NA w' end.
Proof. intros fuel dl w w' fr H. exact (fill_go_na fuel false dl w w' fr H). Qed.

Theorem wait_pres : forall fuel w w' r,
  WInv (w_sess w) -> wait_for_progress fuel w = (w', r) ->
  (w_poison w' = false -> w_poison w = false) /\ (G w -> G w') /\ (r <> OFuel -> NAl w \/ w_live w = true -> NAl w').
Proof.
  induction fuel as [|f IH]; intros w w' r I H; cbn [wait_for_progress] in H.
  { inversion H; subst. split; [auto|]. split; [auto|]. intros E. now elim E. }
  destruct (drive_packet (S f) w) as [w1 r1] eqn:Ed. unfold drive_packet in Ed.
  destruct (w_live w) eqn:Hl; cbn [negb] in Ed.
  2:{ inversion Ed; subst. inversion H; subst. split; [auto|]. split; [auto|]. intros _ _ Hl'. congruence. }
  destruct (drive_loop_pres (S f) false w w1 r1 I Ed) as [D1 [D2 [D3 [_ D5]]]].
  assert (I1 : WInv (w_sess w1)).
  { eapply WInv_wq; [|exact I]. pose proof (drive_loop_wq (S f) false w) as Hq. now rewrite Ed in Hq. }
  destruct r1 as [pr|e| | |];
    try (inversion H; subst; split; [exact D1|]; split; [exact D2|]; intros E1 _ _; apply D5; (discriminate || exact E1)).
  destruct pr as [| |q];
    try (inversion H; subst; split; [exact D1|]; split; [exact D2|]; intros E1 _ _; apply D5; discriminate).
  destruct (D3 (or_introl eq_refl)) as [Na1 Nn].
  destruct (w_live w1) eqn:Hl1; cbn [negb] in H; [|inversion H; subst; split; [exact D1|]; split; [exact D2|]; intros _ _ _; exact Na1].
  destruct (fill_packet_reader (S f) (next_deadline (s_rt (w_sess w1))) w1) as [w2 fr] eqn:Ef.
  assert (Hq : w_live w1 = true -> npart (s_ob (w_sess w1)) = 0%nat).
  { intros _. apply nip_zero_npart. now apply next_none_quiet. }
  pose proof (fill_pres (S f) (next_deadline (s_rt (w_sess w1))) w1 Hq) as [F1 F2]. rewrite Ef in F1, F2. cbn [fst] in F1, F2.
  pose proof (fill_na _ _ _ _ _ Ef) as Fn.
  destruct (fill_same (S f) (next_deadline (s_rt (w_sess w1))) w1) as [[_ [Fl _]] _]. rewrite Ef in Fl. cbn [fst] in Fl.
  assert (I2 : WInv (w_sess w2)).
  { eapply WInv_wq; [|exact I1]. pose proof (fill_wq (S f) (next_deadline (s_rt (w_sess w1))) w1) as Hw. now rewrite Ef in Hw. }
  destruct fr as [|e| | |].
  - destruct (IH w2 w' r I2 H) as [R1 [R2 R3]]. split; [auto|]. split; [auto|]. intros E1 _. apply R3; [exact E1|]. right. congruence.
  - inversion H; subst w' r. split; [intros Hp; apply D1, F1; exact Hp|]. split; [intros Gw; apply (proj2 (Pres_hd w2)); auto|].
    intros _ _ Hl'. cbn [w_hd w_live upd_live upd_sess] in Hl'. discriminate.
  - destruct (IH w2 w' r I2 H) as [R1 [R2 R3]]. split; [auto|]. split; [auto|]. intros E1 _. apply R3; [exact E1|]. right. congruence.
  - inversion H; subst w' r. split; [auto|]. split; [auto|]. intros _ _ _. exact Fn.
  - inversion H; subst w' r. split; [auto|]. split; [auto|]. intros E. now elim E.
Qed.

(* ---------------------------------------------------------------- operations *)
Definition OpOk {A} (w w' : world) (r : outcome A) : Prop :=
  (w_poison w' = false -> w_poison w = false) /\ (G w -> G w') /\ (r <> OFuel -> NAl w').

Theorem op_poll_pres : forall fuel w w' r, WInv (w_sess w) -> NAl w -> op_poll fuel w = (w', r) -> OpOk w w' r.
Proof.
  intros fuel w w' r I Hna H. unfold op_poll in H. destruct (wait_for_progress fuel w) as [w1 r1] eqn:Ew.
  destruct (wait_pres fuel w w1 r1 I Ew) as [A [B C]].
  destruct r1 as [pr|e| | |]; [destruct pr| | | |]; inversion H; subst; (split; [exact A|]; split; [exact B|]);
    try (intros _; apply C; [discriminate|now left]); intros E; now elim E.
Qed.

Theorem op_recv_pres : forall fuel w w' r, WInv (w_sess w) -> NAl w -> op_recv fuel w = (w', r) -> OpOk w w' r.
Proof.
  induction fuel as [|f IH]; intros w w' r I Hna H; cbn [op_recv] in H.
  { inversion H; subst. split; [auto|]. split; [auto|]. intros E. now elim E. }
  destruct (wait_for_progress (S f) w) as [w1 r1] eqn:Ew.
  destruct (wait_pres (S f) w w1 r1 I Ew) as [A [B C]].
  assert (I1 : WInv (w_sess w1)).
  { eapply WInv_wq; [|exact I]. pose proof (wait_for_progress_wq (S f) w) as Hq. now rewrite Ew in Hq. }
  destruct r1 as [pr|e| | |]; [destruct pr| | | |];
    try (inversion H; subst; (split; [exact A|]; split; [exact B|]);
         try (intros _; apply C; [discriminate|now left]); intros E; now elim E).
  assert (Na1 : NAl w1) by (apply C; [discriminate|now left]).
  destruct (IH w1 w' r I1 Na1 H) as [A2 [B2 C2]]. split; [auto|]. split; [auto|exact C2].
Qed.

Theorem op_drive_pres : forall fuel w w' r, WInv (w_sess w) -> NAl w -> op_drive fuel w = (w', r) -> OpOk w w' r.
Proof.
  intros fuel w w' r I Hna H. unfold op_drive in H. destruct (drive_packet fuel w) as [w1 r1] eqn:Ed. unfold drive_packet in Ed.
  destruct (w_live w) eqn:Hl; cbn [negb] in Ed.
  - destruct (drive_loop_pres fuel false w w1 r1 I Ed) as [D1 [D2 [_ [_ D5]]]].
    destruct r1 as [pr|e| | |]; [destruct pr| | | |]; inversion H; subst; (split; [exact D1|]; split; [exact D2|]);
      try (intros _ _; apply D5; discriminate); intros E; now elim E.
  - inversion Ed; subst. inversion H; subst. split; [auto|]. split; [auto|]. intros _ Hl'. congruence.
Qed.

(* direct writes: CONNECT, QoS 0 PUBLISH, DISCONNECT — the packet B goes out in pieces from offset k *)
Lemma write_all_wire : forall fuel B k w w' r,
  k <= lenN B -> write_all fuel (dropN k B) w = (w', r) ->
  w_sess w' = w_sess w /\ w_live w' = w_live w /\ w_poison w' = w_poison w /\
  exists k', k <= k' /\ k' <= lenN B /\ w_wire w' = w_wire w ++ takeN (k' - k) (dropN k B) /\
             (r = ODone tt -> k' = lenN B).
Proof.
  induction fuel as [|f IH]; intros B k w w' r Hk H; cbn [write_all] in H.
  { inversion H; subst. repeat split. exists k. repeat split; try lia. now rewrite N.sub_diag, takeN_0, app_nil_r. discriminate. }
  destruct (dropN k B) as [|x t] eqn:Ed.
  { inversion H; subst. repeat split. exists k. split; [lia|]. split; [exact Hk|]. split; [now rewrite N.sub_diag, takeN_0, app_nil_r|].
    intros _. apply (f_equal lenN) in Ed. rewrite lenN_dropN, lenN_nil in Ed. lia. }
  rewrite <- Ed in H. rewrite <- Ed.
  destruct (io_write (dropN k B) w) as [w1 r0] eqn:Ew. destruct (io_write_ghost _ _ _ _ Ew) as [Hs [Hl [Hp Hw]]].
  destruct r0 as [n| |].
  - destruct Hw as [Hw Hn]. rewrite lenN_dropN in Hn. destruct (N.eqb_spec n 0) as [E0|E0].
    + subst n. inversion H; subst w' r. repeat split; try assumption. exists k. split; [lia|]. split; [exact Hk|]. split; [|discriminate].
      rewrite Hw, N.sub_diag. reflexivity.
    + rewrite dropN_dropN in H. destruct (IH B (k + n) w1 w' r ltac:(lia) H) as [A1 [A2 [A3 [k' [K1 [K2 [K3 K4]]]]]]].
      repeat split; try congruence. exists k'. split; [lia|]. split; [exact K2|]. split; [|exact K4].
      rewrite K3, Hw, <- app_assoc. f_equal. rewrite <- (dropN_dropN B k n), takeN_takeN_dropN. f_equal. lia.
  - inversion H; subst. repeat split; try assumption. exists k. split; [lia|]. split; [exact Hk|]. split; [|discriminate].
    rewrite Hw. now rewrite N.sub_diag, takeN_0, app_nil_r.
  - inversion H; subst. repeat split; try assumption. exists k. split; [lia|]. split; [exact Hk|]. split; [|discriminate].
    rewrite Hw. now rewrite N.sub_diag, takeN_0, app_nil_r.
Qed.

Lemma mark_partial_fields : forall b a l,
  w_sess (mark_partial b a l) = w_sess a /\ w_wire (mark_partial b a l) = w_wire a /\ w_live (mark_partial b a l) = w_live a /\
  (w_poison (mark_partial b a l) = false -> w_poison a = false).
Proof. intros. unfold mark_partial. destruct (_ && _); cbn [w_sess w_wire w_live w_poison upd_poison]; repeat split; auto. discriminate. Qed.

(* a direct write of the whole packet bs that stopped after k' bytes, on a live handle with nothing half written *)
Lemma direct_mark : forall w w1 bs k',
  G w -> w_live w = true -> npart (s_ob (w_sess w)) = 0%nat -> is_frame bs ->
  w_sess w1 = w_sess w -> w_live w1 = w_live w -> w_poison w1 = w_poison w ->
  k' <= lenN bs -> w_wire w1 = w_wire w ++ takeN k' bs ->
  G (mark_partial w w1 (lenN bs)).
Proof.
  intros w w1 bs k' [I HW] Hl Hq Hf Hs Hlv Hp Hk Hw.
  destruct (mark_partial_fields w w1 (lenN bs)) as [Ms [Mw [Ml Mp]]].
  split; [rewrite Ms, Hs; exact I|]. intros Hpm. specialize (Mp Hpm). rewrite Hp in Mp.
  destruct (HW Mp) as [_ L]. destruct (L Hl) as [[fs [Ff Ew]] J]. rewrite (npart_zero_tail _ Hq), app_nil_r in Ew.
  (* the flag is clear: the write was all or nothing *)
  unfold mark_partial in Hpm.
  assert (Hlen : lenN (w_wire w1) - lenN (w_wire w) = k').
  { rewrite Hw, lenN_app, lenN_takeN. lia. }
  rewrite Hlen in Hpm.
  assert (Hc : k' = 0 \/ k' = lenN bs).
  { destruct (N.ltb_spec 0 k'); destruct (N.ltb_spec k' (lenN bs)); cbn [andb] in Hpm; try lia.
    cbn [w_poison upd_poison] in Hpm. discriminate. }
  assert (L' : LiveForm (mark_partial w w1 (lenN bs))).
  { unfold LiveForm. rewrite Mw, Ms, Hs, (npart_zero_tail _ Hq). destruct Hc as [->| ->].
    - exists fs. split; [exact Ff|]. now rewrite Hw, takeN_0, Ew, !app_nil_r.
    - exists (fs ++ [bs]). split; [now apply frames_ok_snoc|]. rewrite Hw, Ew, concat_snoc, app_nil_r. f_equal. apply takeN_all. lia. }
  split; [apply live_is_dead; [rewrite Ms, Hs; exact I|exact L']|]. intros _. split; [exact L'|].
  unfold Jinv. rewrite Ms, Hs. exact J.
Qed.

Lemma direct_dead : forall w w1 bs k',
  G w -> w_live w = true -> npart (s_ob (w_sess w)) = 0%nat -> is_frame bs ->
  w_sess w1 = w_sess w -> w_poison w1 = w_poison w -> w_wire w1 = w_wire w ++ takeN k' bs ->
  G (w_hd w1).
Proof.
  intros w w1 bs k' [I HW] Hl Hq Hf Hs Hp Hw. split.
  - eapply WInv_wq; [apply hd_wq|]. now rewrite Hs.
  - intros Hpm. cbn [w_hd w_poison upd_live upd_sess] in Hpm. rewrite Hp in Hpm.
    destruct (HW Hpm) as [_ L]. destruct (L Hl) as [[fs [Ff Ew]] _]. rewrite (npart_zero_tail _ Hq), app_nil_r in Ew.
    split; [|intros Hd; discriminate Hd]. exists fs, (takeN k' bs). split; [exact Ff|]. split; [cbn [w_hd w_wire upd_live upd_sess]; now rewrite Hw, Ew|].
    right. exists bs, k'. split; [exact Hf|reflexivity].
Qed.

Theorem finish_mid_pres : forall fuel w m w' r,
  WInv (w_sess w) -> NA w ->
  (forall bs, m = MDirect bs -> is_frame bs /\ w_live w = true /\ npart (s_ob (w_sess w)) = 0%nat) ->
  finish_mid fuel w m = (w', r) -> OpOk w w' r.
Proof.
  intros fuel w m w' r I Hna Hfr0 H. destruct m as [e|o|bs]; cbn [finish_mid] in H.
  - inversion H; subst. split; [auto|]. split; [auto|]. intros _ _. exact Hna.
  - destruct (flush_outbound fuel w) as [w1 r1] eqn:Ef. destruct (flush_outbound_pres fuel w w1 r1 I Hna Ef) as [A [B [C _]]].
    destruct r1 as [u|e| | |]; cbn [bindu] in H; inversion H; subst; (split; [exact A|]; split; [exact C|]); intros _ _; exact B.
  - destruct (Hfr0 bs eq_refl) as [Hfr [Hl Hq]].
    destruct (write_all fuel bs w) as [w1 r1] eqn:Ew.
    destruct (write_all_wire fuel bs 0 w w1 r1 ltac:(lia)) as [Hs [Hlv [Hp [k' [_ [K2 [K3 K4]]]]]]]; [rewrite dropN_0; exact Ew|].
    rewrite dropN_0, N.sub_0_r in K3.
    assert (Na1 : NA w1) by (unfold NA; rewrite Hs; exact Hna).
    assert (Mk : forall A (x : outcome A), OpOk w (mark_partial w w1 (lenN bs)) x).
    { intros A x. destruct (mark_partial_fields w w1 (lenN bs)) as [Ms [Mw [Ml Mp]]].
      split; [intros Hx; rewrite <- Hp; now apply Mp|]. split; [intros Gw; eapply direct_mark; eassumption|].
      intros _ _. unfold NA. rewrite Ms. exact Na1. }
    destruct r1 as [u|e| | |].
    + (* all written *)
      specialize (K4 ltac:(destruct u; reflexivity)). subst k'. rewrite takeN_all in K3 by lia.
      assert (G1 : G w -> G w1).
      { intros Gw. pose proof (direct_mark w w1 bs (lenN bs) Gw Hl Hq Hfr Hs Hlv Hp ltac:(lia)) as Hm.
        rewrite takeN_all in Hm by lia. specialize (Hm K3).
        unfold mark_partial in Hm. rewrite K3, lenN_app in Hm.
        replace (lenN (w_wire w) + lenN bs - lenN (w_wire w)) with (lenN bs) in Hm by lia.
        destruct (N.ltb_spec (lenN bs) (lenN bs)); [lia|]. rewrite andb_false_r in Hm. exact Hm. }
      destruct (io_flush w1) as [w2 fr] eqn:Efl. destruct (io_flush_ghost _ _ _ Efl) as [Hs2 Hg2].
      assert (G2 : G w -> G w2) by (intros Gw; eapply G_same; [exact Hs2|exact Hg2|now apply G1]).
      assert (P2 : w_poison w2 = false -> w_poison w = false) by (destruct Hg2 as [_ [_ Hpp]]; rewrite Hpp, Hp; auto).
      assert (Na2 : NA w2) by (unfold NA; rewrite Hs2; exact Na1).
      destruct fr.
      * inversion H; subst. split; [exact P2|]. split; [|intros _ _; exact Na2].
        intros Gw. set (s3 := set_rt (w_sess w2) (note_outbound_activity (s_rt (w_sess w2)) (w_now w2))).
        apply (proj2 (Pres_sess w2 s3 LOther (SS_activity _ _) eq_refl ltac:(cbn [s3 set_rt s_ob]; lia) eq_refl)). now apply G2.
      * inversion H; subst. split; [exact P2|]. split; [intros Gw; apply (proj2 (Pres_hd w2)); now apply G2|]. intros _ Hd. discriminate Hd.
      * inversion H; subst. split; [exact P2|]. split; [exact G2|]. intros _ _. exact Na2.
    + destruct e; inversion H; subst; try exact (Mk _ _);
        (split; [cbn [w_hd w_poison upd_live upd_sess]; rewrite Hp; auto|]; split; [intros Gw; eapply direct_dead; eassumption|];
         intros _ Hd; discriminate Hd).
    + inversion H; subst. apply Mk.
    + inversion H; subst. apply Mk.
    + inversion H; subst. apply Mk.
Qed.

Lemma next_packet_id_reader : forall s, s_reader (fst (next_packet_id s)) = s_reader s /\ s_ob (fst (next_packet_id s)) = s_ob s.
Proof. intros. unfold next_packet_id. destruct (next_packet_id_go _ _ _). split; reflexivity. Qed.

Lemma publish_middle_reader : forall s live r, s_reader (fst (publish_middle s live r)) = s_reader s.
Proof.
  intros s live r. unfold publish_middle. destruct (negb _); [reflexivity|].
  destruct (effective_qos s (pr_qos r)).
  - destruct (negb _); [reflexivity|]. cbv zeta. destruct (enc_publish _ _); try reflexivity.
    destruct (too_large _ _); [reflexivity|]. destruct (negb live); reflexivity.
  - destruct (next_packet_id_reader s) as [Hr _]. destruct (next_packet_id s) as [s1 id]. cbn [fst] in Hr.
    destruct (retained_full _); [exact Hr|]. destruct (negb _); [exact Hr|]. cbv zeta.
    destruct (encode_at _ _) as [o1 er]. destruct er; [|exact Hr].
    destruct (too_large _ _); [exact Hr|]. destruct (retain_packet _ _ _ _); exact Hr.
  - destruct (next_packet_id_reader s) as [Hr _]. destruct (next_packet_id s) as [s1 id]. cbn [fst] in Hr.
    destruct (retained_full _); [exact Hr|]. destruct (negb _); [exact Hr|]. cbv zeta.
    destruct (encode_at _ _) as [o1 er]. destruct er; [|exact Hr].
    destruct (too_large _ _); [exact Hr|]. destruct (retain_packet _ _ _ _); exact Hr.
Qed.

Lemma enqueue_middle_reader : forall s k enc, s_reader (fst (enqueue_middle s k enc)) = s_reader s.
Proof.
  intros s k enc. unfold enqueue_middle. destruct (retained_full _); [reflexivity|].
  destruct (next_packet_id_reader s) as [Hr _]. destruct (next_packet_id s) as [s1 id]. cbn [fst] in Hr.
  destruct (encode_at _ _) as [o1 er]. destruct er; [|exact Hr].
  destruct (too_large _ _); [exact Hr|]. destruct (retain_packet _ _ _ _); exact Hr.
Qed.

Lemma publish_middle_direct : forall s live r s' bs, publish_middle s live r = (s', MDirect bs) -> is_frame bs /\ live = true.
Proof.
  intros s live r s' bs H. unfold publish_middle in H. destruct (negb (props_valid_for _ _)); [discriminate|].
  destruct (effective_qos s (pr_qos r)).
  - destruct live; cbn [andb negb] in H; [|discriminate]. destruct (negb _); [discriminate|]. cbv zeta in H.
    destruct (enc_publish _ _) as [off b|e] eqn:E; [|discriminate]. destruct (too_large _ _); [discriminate|].
    cbn [negb] in H. inversion H; subst. split; [|reflexivity]. eexists. exact (proj1 (enc_publish_frame _ _ _ _ E)).
  - destruct (next_packet_id s) as [s1 id]. destruct (retained_full _); [discriminate|]. destruct (negb _); [discriminate|]. cbv zeta in H.
    destruct (encode_at _ _) as [o1 er]. destruct er; [|discriminate]. destruct (too_large _ _); [discriminate|].
    destruct (retain_packet _ _ _ _); discriminate.
  - destruct (next_packet_id s) as [s1 id]. destruct (retained_full _); [discriminate|]. destruct (negb _); [discriminate|]. cbv zeta in H.
    destruct (encode_at _ _) as [o1 er]. destruct er; [|discriminate]. destruct (too_large _ _); [discriminate|].
    destruct (retain_packet _ _ _ _); discriminate.
Qed.

(* the synchronous middle of a request, applied when nothing is half written *)
Lemma middle_pres : forall w1 s2 l,
  WInv (w_sess w1) -> sstep (w_sess w1) l s2 -> (npart (s_ob s2) <= npart (s_ob (w_sess w1)))%nat ->
  s_reader s2 = s_reader (w_sess w1) -> npart (s_ob (w_sess w1)) = 0%nat ->
  Pres w1 (upd_sess w1 s2) /\ npart (s_ob s2) = 0%nat.
Proof.
  intros w1 s2 l I Hst Hq Hr Hz. split; [|lia].
  eapply Pres_sess; [exact Hst| |exact Hq|exact Hr]. rewrite (npart_zero_tail _ Hz). apply npart_zero_tail. lia.
Qed.

Theorem op_publish_pres : forall fuel rq w w' r, WInv (w_sess w) -> NAl w -> op_publish fuel rq w = (w', r) -> OpOk w w' r.
Proof.
  intros fuel rq w w' r I Hna H. unfold op_publish in H.
  destruct (w_live w) eqn:Hl; cbn [negb] in H; [|inversion H; subst; split; [auto|]; split; [auto|]; intros _ Hd; congruence].
  specialize (Hna Hl).
  destruct (flush_outbound fuel w) as [w1 r1] eqn:Ef. destruct (flush_outbound_pres fuel w w1 r1 I Hna Ef) as [A [B [C D]]].
  assert (I1 : WInv (w_sess w1)).
  { eapply WInv_wq; [|exact I]. pose proof (flush_outbound_wq fuel w) as Hq. now rewrite Ef in Hq. }
  destruct r1 as [u|e| | |]; cbn [bindu] in H;
    try (inversion H; subst; split; [exact A|]; split; [exact C|]; intros _ _; exact B).
  specialize (D ltac:(destruct u; reflexivity)).
  assert (Hz : npart (s_ob (w_sess w1)) = 0%nat) by (apply nip_zero_npart; now apply next_none_quiet).
  destruct (publish_middle (w_sess w1) (w_live w1) rq) as [s2 m] eqn:Em.
  assert (Es2 : s2 = fst (publish_middle (w_sess w1) (w_live w1) rq)) by now rewrite Em.
  destruct (middle_pres w1 s2 LOther I1) as [[P1 P2] Hz2]; [rewrite Es2; apply SS_publish| | |exact Hz|].
  { rewrite Es2. exact (proj1 (calmp_publish (w_sess w1) (w_live w1) rq (proj1 I1))). }
  { rewrite Es2. apply publish_middle_reader. }
  set (w2 := upd_sess w1 s2) in *.
  assert (I2 : WInv (w_sess w2)) by (cbn [w2 w_sess upd_sess]; rewrite Es2; eapply WInv_step; [apply SS_publish|exact I1]).
  assert (Na2 : NA w2) by (unfold NA; cbn [w2 w_sess upd_sess]; rewrite Es2, publish_middle_reader; exact B).
  destruct (finish_mid_pres fuel w2 m w' r I2 Na2) as [F1 [F2 F3]]; [|exact H|].
  - intros bs Eb. subst m. destruct (publish_middle_direct _ _ _ _ _ Em) as [Hf Hlv]. split; [exact Hf|]. split; [exact Hlv|exact Hz2].
  - split; [auto|]. split; [auto|exact F3].
Qed.

Lemma enqueue_not_direct : forall s k enc s' bs, enqueue_middle s k enc <> (s', MDirect bs).
Proof.
  intros s k enc s' bs H. unfold enqueue_middle in H. destruct (retained_full _); [discriminate|].
  destruct (next_packet_id s) as [s1 id]. destruct (encode_at _ _) as [o1 er]. destruct er; [|discriminate].
  destruct (too_large _ _); [discriminate|]. destruct (retain_packet _ _ _ _); discriminate.
Qed.

(* subscribe and unsubscribe share their shape: pre-flush, enqueue, flush *)
Lemma enqueue_op_pres : forall fuel w w' (r : outcome (option op)) k enc l,
  WInv (w_sess w) -> NA w ->
  (forall s, sstep s l (fst (enqueue_middle s k enc))) ->
  bindu (flush_outbound fuel w) (fun w1 => let '(s2, m) := enqueue_middle (w_sess w1) k enc in finish_mid fuel (upd_sess w1 s2) m) = (w', r) ->
  OpOk w w' r.
Proof.
  intros fuel w w' r k enc l I Hna Hst H.
  destruct (flush_outbound fuel w) as [w1 r1] eqn:Ef. destruct (flush_outbound_pres fuel w w1 r1 I Hna Ef) as [A [B [C D]]].
  assert (I1 : WInv (w_sess w1)).
  { eapply WInv_wq; [|exact I]. pose proof (flush_outbound_wq fuel w) as Hq. now rewrite Ef in Hq. }
  destruct r1 as [u|e| | |]; cbn [bindu] in H;
    try (inversion H; subst; split; [exact A|]; split; [exact C|]; intros _ _; exact B).
  specialize (D ltac:(destruct u; reflexivity)).
  assert (Hz : npart (s_ob (w_sess w1)) = 0%nat) by (apply nip_zero_npart; now apply next_none_quiet).
  destruct (enqueue_middle (w_sess w1) k enc) as [s2 m] eqn:Em.
  assert (Es2 : s2 = fst (enqueue_middle (w_sess w1) k enc)) by now rewrite Em.
  destruct (middle_pres w1 s2 l I1) as [[P1 P2] Hz2]; [rewrite Es2; apply Hst| | |exact Hz|].
  { rewrite Es2. exact (proj1 (calmp_enqueue (w_sess w1) k enc (proj1 I1))). }
  { rewrite Es2. apply enqueue_middle_reader. }
  set (w2 := upd_sess w1 s2) in *.
  assert (I2 : WInv (w_sess w2)) by (cbn [w2 w_sess upd_sess]; rewrite Es2; eapply WInv_step; [apply Hst|exact I1]).
  assert (Na2 : NA w2) by (unfold NA; cbn [w2 w_sess upd_sess]; rewrite Es2, enqueue_middle_reader; exact B).
  destruct (finish_mid_pres fuel w2 m w' r I2 Na2) as [F1 [F2 F3]]; [|exact H|].
  - intros bs Eb. subst m. exfalso. eapply enqueue_not_direct. exact Em.
  - split; [auto|]. split; [auto|exact F3].
Qed.

Theorem op_subscribe_pres : forall fuel t ps w w' r, WInv (w_sess w) -> NAl w -> op_subscribe fuel t ps w = (w', r) -> OpOk w w' r.
Proof.
  intros fuel t ps w w' r I Hna H. unfold op_subscribe in H.
  destruct (w_live w) eqn:Hl; cbn [negb] in H; [|inversion H; subst; split; [auto|]; split; [auto|]; intros _ Hd; congruence].
  specialize (Hna Hl).
  destruct t as [|t0 ts]; [inversion H; subst; split; [auto|]; split; [auto|]; intros _ _; exact Hna|].
  destruct (negb _); [inversion H; subst; split; [auto|]; split; [auto|]; intros _ _; exact Hna|].
  unfold subscribe_middle in H. eapply (enqueue_op_pres fuel w w' r _ _ LOther I Hna); [|exact H].
  intros s. exact (SS_subscribe s (t0 :: ts) ps).
Qed.

Theorem op_unsubscribe_pres : forall fuel t ps w w' r, WInv (w_sess w) -> NAl w -> op_unsubscribe fuel t ps w = (w', r) -> OpOk w w' r.
Proof.
  intros fuel t ps w w' r I Hna H. unfold op_unsubscribe in H.
  destruct (w_live w) eqn:Hl; cbn [negb] in H; [|inversion H; subst; split; [auto|]; split; [auto|]; intros _ Hd; congruence].
  specialize (Hna Hl).
  destruct t as [|t0 ts]; [inversion H; subst; split; [auto|]; split; [auto|]; intros _ _; exact Hna|].
  destruct (negb _); [inversion H; subst; split; [auto|]; split; [auto|]; intros _ _; exact Hna|].
  unfold unsubscribe_middle in H. eapply (enqueue_op_pres fuel w w' r _ _ LOther I Hna); [|exact H].
  intros s. exact (SS_unsubscribe s (t0 :: ts) ps).
Qed.

(* disconnect(): the DISCONNECT is written directly; when a queued packet is half written the ghost flag is set
   (K01b), and so it is when the write stops half way with the handle still live (K01c) *)
Theorem op_disconnect_pres : forall fuel d w w' r, WInv (w_sess w) -> NAl w -> op_disconnect fuel d w = (w', r) -> OpOk w w' r.
Proof.
  intros fuel d w w' r I Hna H. unfold op_disconnect in H.
  destruct (w_live w) eqn:Hl; cbn [negb] in H; [|inversion H; subst; split; [auto|]; split; [auto|]; intros _ Hd; congruence].
  specialize (Hna Hl).
  destruct (disconnect_prepare (w_sess w) d) as [e|bs] eqn:Ed; [inversion H; subst; split; [auto|]; split; [auto|]; intros _ _; exact Hna|].
  assert (Hfr : is_frame bs).
  { unfold disconnect_prepare in Ed. destruct (match dq_props d with Some l => _ | None => false end); [discriminate|].
    destruct (enc_disconnect CONTROL_PACKET_LEN d) as [off b|se] eqn:E; [|discriminate]. destruct (too_large _ _); [discriminate|].
    inversion Ed; subst. eexists. exact (proj1 (enc_disconnect_frame _ _ _ _ E)). }
  destruct (has_partial (s_ob (w_sess w))) eqn:Ehp.
  - (* K01b: everything that follows happens under a set flag *)
    set (w0 := upd_poison w true) in *.
    destruct (write_all fuel bs w0) as [w1 r1] eqn:Ew.
    destruct (write_all_wire fuel bs 0 w0 w1 r1 ltac:(lia)) as [Hs [Hlv [Hp _]]]; [rewrite dropN_0; exact Ew|].
    assert (Hp1 : w_poison w1 = true) by (rewrite Hp; reflexivity).
    assert (K : forall w2 (x : outcome unit), w_sess w2 = w_sess w1 \/ w_sess w2 = sess_handle_disconnect (w_sess w1) ->
                 w_poison w2 = true -> (w_live w2 = true -> NA w2) -> OpOk w w2 x).
    { intros w2 x Hs2 Hp2 Hn2. split; [rewrite Hp2; discriminate|]. split; [|intros _; exact Hn2].
      intros [Iw _]. split; [|intros Hx; congruence].
      destruct Hs2 as [-> | ->]; [rewrite Hs; exact Iw|]. rewrite Hs. eapply WInv_step; [apply SS_hd|exact Iw]. }
    assert (Na1 : NA w1) by (unfold NA; rewrite Hs; exact Hna).
    destruct r1 as [u|e| | |].
    + destruct (io_flush w1) as [w2 fr] eqn:Efl. destruct (io_flush_ghost _ _ _ Efl) as [Hs2 [_ [_ Hp2]]].
      destruct fr; inversion H; subst; apply K; cbn [w_hd w_sess w_poison w_live upd_live upd_sess];
        try (right; now rewrite Hs2); try (left; exact Hs2); try congruence; try (intros Hd; discriminate Hd);
        intros _; unfold NA; rewrite Hs2; exact Na1.
    + inversion H; subst. apply K; cbn [w_hd w_sess w_poison w_live upd_live upd_sess]; [now right|exact Hp1|intros Hd; discriminate Hd].
    + inversion H; subst. destruct (mark_partial_fields w0 w1 (lenN bs)) as [Ms [_ [_ _]]]. apply K; [left; exact Ms| |intros _; unfold NA; rewrite Ms; exact Na1].
      unfold mark_partial. destruct (_ && _); [reflexivity|exact Hp1].
    + inversion H; subst. destruct (mark_partial_fields w0 w1 (lenN bs)) as [Ms [_ [_ _]]]. apply K; [left; exact Ms| |intros _; unfold NA; rewrite Ms; exact Na1].
      unfold mark_partial. destruct (_ && _); [reflexivity|exact Hp1].
    + inversion H; subst. destruct (mark_partial_fields w0 w1 (lenN bs)) as [Ms [_ [_ _]]]. apply K; [left; exact Ms| |intros _; unfold NA; rewrite Ms; exact Na1].
      unfold mark_partial. destruct (_ && _); [reflexivity|exact Hp1].
  - (* nothing half written *)
    assert (Hq : npart (s_ob (w_sess w)) = 0%nat) by (now apply has_partial_npart).
    destruct (write_all fuel bs w) as [w1 r1] eqn:Ew.
    destruct (write_all_wire fuel bs 0 w w1 r1 ltac:(lia)) as [Hs [Hlv [Hp [k' [_ [K2 [K3 K4]]]]]]]; [rewrite dropN_0; exact Ew|].
    rewrite dropN_0, N.sub_0_r in K3.
    assert (Na1 : NA w1) by (unfold NA; rewrite Hs; exact Hna).
    assert (Mk : forall (x : outcome unit), OpOk w (mark_partial w w1 (lenN bs)) x).
    { intros x. destruct (mark_partial_fields w w1 (lenN bs)) as [Ms [Mw [Ml Mp]]].
      split; [intros Hx; rewrite <- Hp; now apply Mp|]. split; [intros Gw; eapply direct_mark; eassumption|].
      intros _ _. unfold NA. rewrite Ms. exact Na1. }
    destruct r1 as [u|e| | |].
    + specialize (K4 ltac:(destruct u; reflexivity)). subst k'. rewrite takeN_all in K3 by lia.
      assert (G1 : G w -> G w1).
      { intros Gw. pose proof (direct_mark w w1 bs (lenN bs) Gw Hl Hq Hfr Hs Hlv Hp ltac:(lia)) as Hm.
        rewrite takeN_all in Hm by lia. specialize (Hm K3).
        unfold mark_partial in Hm. rewrite K3, lenN_app in Hm.
        replace (lenN (w_wire w) + lenN bs - lenN (w_wire w)) with (lenN bs) in Hm by lia.
        destruct (N.ltb_spec (lenN bs) (lenN bs)); [lia|]. rewrite andb_false_r in Hm. exact Hm. }
      destruct (io_flush w1) as [w2 fr] eqn:Efl. destruct (io_flush_ghost _ _ _ Efl) as [Hs2 Hg2].
      assert (G2 : G w -> G w2) by (intros Gw; eapply G_same; [exact Hs2|exact Hg2|now apply G1]).
      assert (P2 : w_poison w2 = false -> w_poison w = false) by (destruct Hg2 as [_ [_ Hpp]]; rewrite Hpp, Hp; auto).
      assert (Na2 : NA w2) by (unfold NA; rewrite Hs2; exact Na1).
      destruct fr; inversion H; subst.
      * split; [exact P2|]. split; [intros Gw; apply (proj2 (Pres_hd w2)); now apply G2|]. intros _ Hd. discriminate Hd.
      * split; [exact P2|]. split; [intros Gw; apply (proj2 (Pres_hd w2)); now apply G2|]. intros _ Hd. discriminate Hd.
      * split; [exact P2|]. split; [exact G2|]. intros _ _. exact Na2.
    + inversion H; subst. split; [cbn [w_hd w_poison upd_live upd_sess]; rewrite Hp; auto|]. split; [intros Gw; eapply direct_dead; eassumption|].
      intros _ Hd. discriminate Hd.
    + inversion H; subst. apply Mk.
    + inversion H; subst. apply Mk.
    + inversion H; subst. apply Mk.
Qed.

(* ---------------------------------------------------------------- connect *)
Lemma connack_reader : forall s p now, s_reader (fst (connack_process s p now)) = s_reader s.
Proof.
  intros s p now. unfold connack_process. destruct p as [p|]; [|reflexivity]. destruct p; try reflexivity.
  destruct (negb _); [reflexivity|]. cbv zeta. destruct (connack_props _ _ _); cbn [fst]; [|reflexivity].
  destruct sp; reflexivity.
Qed.

Lemma connack_ok_quiet : forall s p now s' resumed, connack_process s p now = (s', CAOk resumed) ->
  npart (s_ob s) = 0%nat -> npart (s_ob s') = 0%nat.
Proof.
  intros s p now s' resumed H Hz. destruct resumed.
  - now rewrite (connack_resumed_ob _ _ _ _ H).
  - unfold connack_process in H. destruct p as [p|]; [|inversion H]. destruct p; try (inversion H; fail).
    destruct (negb (rc_success rc)); [inversion H|]. cbv zeta in H. destruct (connack_props _ _ _); [|inversion H].
    destruct sp; inversion H; subst. reflexivity.
Qed.

Lemma arm_replay_npart : forall o, npart (arm_replay o) = 0%nat.
Proof. intros o. destruct (arm_replay_quiet o) as [H|[H1 H2]]; [exact H|]. rewrite H1. now apply no_pending_npart. Qed.

Theorem op_connect_pres : forall fuel w w' r,
  WInv (w_sess w) -> w_live w = false -> w_wire w = [] -> w_poison w = false ->
  op_connect fuel w = (w', r) ->
  w_poison w' = false /\ w_live w' = false /\
  (exists fs t, frames_ok fs /\ w_wire w' = concat fs ++ t /\ prefix_of_frame t /\ (forall ev, r = ODone ev -> t = [])) /\
  (forall ev, r = ODone ev -> npart (s_ob (w_sess w')) = 0%nat /\ NA w').
Proof.
  intros fuel w w' r I Hl Hw Hp H. unfold op_connect in H.
  set (s1 := set_ob (set_rt (set_reader (w_sess w) (reader_reset (s_reader (w_sess w)))) (reset_transport (s_rt (w_sess w))))
                    (arm_replay (s_ob (w_sess w)))) in *.
  set (o1 := compact (s_ob s1)) in *. set (s2 := set_ob s1 o1) in *. set (w2 := upd_sess w s2) in *.
  assert (W1 : arena_wf (arm_replay (s_ob (w_sess w)))).
  { apply oi_arena. apply OInv_arm_replay. apply (inv_ob _ (proj1 I)). }
  assert (Q2 : npart (s_ob s2) = 0%nat).
  { unfold s2, o1, s1. cbn [set_ob s_ob]. pose proof (calmp_compact _ W1) as [Hc _]. pose proof (arm_replay_npart (s_ob (w_sess w))). lia. }
  assert (Triv : forall w3 (x : outcome N), w_wire w3 = [] -> w_poison w3 = false -> w_live w3 = false -> (forall ev, x <> ODone ev) ->
            w_poison w3 = false /\ w_live w3 = false /\
            (exists fs t, frames_ok fs /\ w_wire w3 = concat fs ++ t /\ prefix_of_frame t /\ (forall ev, x = ODone ev -> t = [])) /\
            (forall ev, x = ODone ev -> npart (s_ob (w_sess w3)) = 0%nat /\ NA w3)).
  { intros w3 x A B C D. split; [exact B|]. split; [exact C|]. split.
    - exists [], []. split; [constructor|]. split; [now rewrite A|]. split; [now left|auto].
    - intros ev E. exfalso. exact (D ev E). }
  destruct (enc_connect (ob_cap o1 - ob_used o1) (connect_request s2)) as [off bs|e] eqn:Ee.
  2:{ inversion H; subst. apply Triv; try assumption. intros ev. discriminate. }
  assert (Hfr : is_frame bs) by (eexists; exact (proj1 (enc_connect_frame _ _ _ _ Ee))).
  unfold direct_send in H.
  destruct (write_all fuel bs w2) as [w3 r3] eqn:Ew.
  destruct (write_all_wire fuel bs 0 w2 w3 r3 ltac:(lia)) as [Hs3 [Hl3 [Hp3 [k' [_ [K2 [K3 K4]]]]]]]; [rewrite dropN_0; exact Ew|].
  rewrite dropN_0, N.sub_0_r in K3. cbn [w2 w_wire w_live w_poison upd_sess] in K3, Hl3, Hp3. rewrite Hw in K3. cbn [app] in K3.
  (* any world that only differs in the session from w3 and is reached before completion *)
  assert (Part : forall w4 (x : outcome N), w_wire w4 = takeN k' bs -> w_poison w4 = false -> w_live w4 = false -> (forall ev, x <> ODone ev) ->
            w_poison w4 = false /\ w_live w4 = false /\
            (exists fs t, frames_ok fs /\ w_wire w4 = concat fs ++ t /\ prefix_of_frame t /\ (forall ev, x = ODone ev -> t = [])) /\
            (forall ev, x = ODone ev -> npart (s_ob (w_sess w4)) = 0%nat /\ NA w4)).
  { intros w4 x A B C D. split; [exact B|]. split; [exact C|]. split.
    - exists [], (takeN k' bs). split; [constructor|]. split; [now rewrite A|]. split; [right; exists bs, k'; split; [exact Hfr|reflexivity]|].
      intros ev E. exfalso. exact (D ev E).
    - intros ev E. exfalso. exact (D ev E). }
  destruct r3 as [u|e| | |]; cbn [bindu] in H;
    try (inversion H; subst; apply Part; [exact K3|congruence|congruence|intros ev; discriminate]).
  specialize (K4 ltac:(destruct u; reflexivity)). subst k'. rewrite takeN_all in K3 by lia.
  destruct (io_flush w3) as [w4 fr] eqn:Efl. destruct (io_flush_ghost _ _ _ Efl) as [Hs4 [Hw4 [Hl4 Hp4]]].
  assert (Full : forall w5 (x : outcome N), w_wire w5 = bs -> w_poison w5 = false -> w_live w5 = false ->
            (forall ev, x = ODone ev -> npart (s_ob (w_sess w5)) = 0%nat /\ NA w5) ->
            w_poison w5 = false /\ w_live w5 = false /\
            (exists fs t, frames_ok fs /\ w_wire w5 = concat fs ++ t /\ prefix_of_frame t /\ (forall ev, x = ODone ev -> t = [])) /\
            (forall ev, x = ODone ev -> npart (s_ob (w_sess w5)) = 0%nat /\ NA w5)).
  { intros w5 x A B C D. split; [exact B|]. split; [exact C|]. split; [|exact D].
    exists [bs], []. split; [constructor; [exact Hfr|constructor]|]. split; [rewrite A; cbn [concat]; now rewrite !app_nil_r|].
    split; [now left|auto]. }
  destruct fr; cbn [bindu] in H;
    try (inversion H; subst; apply Full; [congruence|congruence|congruence|intros ev; discriminate]).
  set (w5 := upd_sess w4 (set_rt (w_sess w4) (rt_with_timers (s_rt (w_sess w4)) None None))) in *.
  destruct (fill_packet_reader fuel None w5) as [w6 fr6] eqn:Ef6.
  destruct (fill_same fuel None w5) as [[Hw6 [Hl6 Hp6]] Ho6]. rewrite Ef6 in Hw6, Hl6, Hp6, Ho6. cbn [fst] in Hw6, Hl6, Hp6, Ho6.
  cbn [w5 w_wire w_live w_poison w_sess upd_sess set_rt s_ob] in Hw6, Hl6, Hp6, Ho6.
  assert (A6 : w_wire w6 = bs) by congruence. assert (B6 : w_poison w6 = false) by congruence. assert (C6 : w_live w6 = false) by congruence.
  assert (O6 : npart (s_ob (w_sess w6)) = 0%nat).
  { rewrite Ho6, Hs4, Hs3. cbn [w2 w_sess upd_sess]. exact Q2. }
  destruct fr6; try (inversion H; subst; apply Full; cbn [sess_hd w_wire w_poison w_live upd_sess]; try assumption; intros ev; discriminate).
  destruct (take_packet (s_reader (w_sess w6))) as [[[r' pl] p]|] eqn:Et;
    [|inversion H; subst; apply Full; cbn [sess_hd w_wire w_poison w_live upd_sess]; try assumption; intros ev; discriminate].
  assert (Er : r' = reader_reset (s_reader (w_sess w6))).
  { unfold take_packet in Et. destruct (rplen (s_reader (w_sess w6))); inversion Et; reflexivity. }
  destruct (connack_process (set_reader (w_sess w6) r') p (w_now w6)) as [s7 cr] eqn:Ec.
  destruct cr as [resumed|e d].
  - inversion H; subst w' r. apply Full; cbn [w_wire w_poison w_live w_sess upd_envok upd_sess]; try assumption.
    intros ev _. split.
    + eapply connack_ok_quiet; [exact Ec|]. cbn [set_reader s_ob]. exact O6.
    + unfold NA. cbn [w_sess upd_envok upd_sess]. replace s7 with (fst (connack_process (set_reader (w_sess w6) r') p (w_now w6))) by now rewrite Ec.
      rewrite connack_reader. cbn [set_reader s_reader]. rewrite Er. reflexivity.
  - destruct d; inversion H; subst; apply Full; cbn [sess_hd w_wire w_poison w_live upd_sess]; try assumption; intros ev; discriminate.
Qed.

(* ---------------------------------------------------------------- whole runs *)
Definition Good (w : world) : Prop := WInv (w_sess w) /\ WI w /\ (halted w = true \/ NAl w).

Lemma halted_fuel : forall {A} (f : A -> text) w, halted (upd_log w (show_outcome f OFuel)) = true.
Proof. intros. reflexivity. Qed.

Lemma feed_ghost : forall w d b, w_sess (feed w d b) = w_sess w /\ same_ghost w (feed w d b).
Proof. intros. unfold feed. destruct b; repeat split. Qed.
Lemma fold_feed_ghost : forall chunks w,
  w_sess (fold_left (fun w c => feed w (fst c) (snd c)) chunks w) = w_sess w /\
  same_ghost w (fold_left (fun w c => feed w (fst c) (snd c)) chunks w).
Proof.
  induction chunks as [|c t IH]; intros w; cbn [fold_left]; [repeat split|].
  destruct (IH (feed w (fst c) (snd c))) as [A B]. destruct (feed_ghost w (fst c) (snd c)) as [C D].
  split; [congruence|eapply same_ghost_trans; eassumption].
Qed.

Lemma G_log : forall w l, G w -> G (upd_log w l).
Proof. intros. eapply G_same; [reflexivity|repeat split|assumption]. Qed.

(* the result of an operation, logged *)
Lemma op_logged : forall {A} (f : A -> text) w w1 (o : outcome A) (k : world -> world),
  (forall x, w_sess (k x) = w_sess x /\ same_ghost x (k x) /\ w_log (k x) = w_log x) ->
  WInv (w_sess w) -> OpOk w w1 o -> WInv (w_sess w1) -> G w ->
  Good (upd_log (k w1) (show_outcome f o)).
Proof.
  intros A f w w1 o k Hk I [P [Q R]] I1 Gw. destruct (Hk w1) as [Ks [Kg Kl]].
  assert (G1 : G (upd_log (k w1) (show_outcome f o))).
  { apply G_log. eapply G_same; [exact Ks|exact Kg|]. now apply Q. }
  split; [exact (proj1 G1)|]. split; [exact (proj2 G1)|].
  destruct o as [a|e| | |]; try (right; intros Hl; unfold NA; cbn [w_sess w_live upd_log] in *; rewrite Ks;
    apply R; [discriminate|destruct Kg as [_ [Kl' _]]; now rewrite <- Kl']).
  left. reflexivity.
Qed.

Theorem run_action_good : forall a w, Good w -> NAl w -> Good (run_action a w).
Proof.
  intros a w [I [HW Hh]] Hna.
  assert (Gw : G w) by (split; assumption).
  assert (Idk : forall x : world, w_sess x = w_sess x /\ same_ghost x x /\ w_log x = w_log x) by (intros; repeat split).
  assert (Simple : forall w2, w_sess w2 = w_sess w -> same_ghost w w2 -> Good w2).
  { intros w2 Hs Hg. destruct (G_same w w2 Hs Hg Gw) as [A B]. split; [exact A|]. split; [exact B|]. right.
    intros Hl. unfold NA. rewrite Hs. apply Hna. destruct Hg as [_ [Hl' _]]. now rewrite <- Hl'. }
  destruct a as [chunks|r|topics ps|topics ps|d| | | |delay bs|dt| | |mode|pid| ]; cbn [run_action].
  - (* connect *)
    set (w0 := upd_poison (upd_wire (upd_txbuf (upd_inq (upd_live w false false 0) [] (w_now w)) []) []) false).
    destruct (fold_feed_ghost chunks w0) as [Fs [Fw [Fl Fp]]].
    set (w1 := fold_left (fun w c => feed w (fst c) (snd c)) chunks w0) in *.
    destruct (op_connect FUEL w1) as [w2 r] eqn:Eo.
    assert (I1 : WInv (w_sess w1)) by (rewrite Fs; exact I).
    destruct (op_connect_pres FUEL w1 w2 r I1) as [P2 [L2 [[fs [t [Ff [Ew [Pt Pz]]]]] Pq]]]; [now rewrite Fl|now rewrite Fw|now rewrite Fp|exact Eo|].
    assert (I2 : WInv (w_sess w2)).
    { eapply WInv_wq; [|exact I1]. pose proof (op_connect_wq FUEL w1) as Hq. now rewrite Eo in Hq. }
    assert (Dd : forall w3, w_sess w3 = w_sess w2 -> w_wire w3 = w_wire w2 -> w_poison w3 = false -> DeadForm w3).
    { intros w3 A B C. exists fs, t. rewrite B. repeat split; assumption. }
    destruct r as [ev|e| | |].
    + destruct (Pq ev eq_refl) as [Hz Hna2]. specialize (Pz ev eq_refl). subst t. rewrite app_nil_r in Ew.
      split; [cbn [w_sess upd_log upd_live]; exact I2|]. split.
      * intros _. split; [apply Dd; cbn [w_sess w_wire w_poison upd_log upd_live]; auto; now rewrite app_nil_r|].
        intros _. split.
        -- exists fs. split; [exact Ff|]. cbn [w_sess w_wire upd_log upd_live]. rewrite (npart_zero_tail _ Hz), app_nil_r. exact Ew.
        -- unfold Jinv. cbn [w_sess upd_log upd_live]. intros Ha. unfold NA in Hna2. congruence.
      * right. intros _. unfold NA. cbn [w_sess upd_log upd_live]. exact Hna2.
    + split; [cbn [w_sess upd_log upd_live]; exact I2|]. split.
      * intros _. split; [apply Dd; cbn [w_sess w_wire w_poison upd_log upd_live]; auto|]. intros Hd. discriminate Hd.
      * right. intros Hd. discriminate Hd.
    + split; [cbn [w_sess upd_log upd_live]; exact I2|]. split.
      * intros _. split; [apply Dd; cbn [w_sess w_wire w_poison upd_log upd_live]; auto|]. intros Hd. discriminate Hd.
      * right. intros Hd. discriminate Hd.
    + split; [cbn [w_sess upd_log upd_live]; exact I2|]. split.
      * intros _. split; [apply Dd; cbn [w_sess w_wire w_poison upd_log upd_live]; auto|]. intros Hd. discriminate Hd.
      * left. reflexivity.
    + split; [cbn [w_sess upd_log upd_live]; exact I2|]. split.
      * intros _. split; [apply Dd; cbn [w_sess w_wire w_poison upd_log upd_live]; auto|]. intros Hd. discriminate Hd.
      * right. intros Hd. discriminate Hd.
  - (* publish *) destruct (negb (w_conn w)); [apply Simple; repeat split|].
    destruct (op_publish FUEL r w) as [w1 o] eqn:Eo.
    assert (I1 : WInv (w_sess w1)) by (eapply WInv_wq; [|exact I]; pose proof (op_publish_wq FUEL r w) as Hq; now rewrite Eo in Hq).
    apply (op_logged _ w w1 o (fun x => record_op x o)); try assumption.
    + intros x. unfold record_op. destruct o as [[h|]| | | |]; repeat split.
    + eapply op_publish_pres; eassumption.
  - (* subscribe *) destruct (negb (w_conn w)); [apply Simple; repeat split|].
    destruct (op_subscribe FUEL topics ps w) as [w1 o] eqn:Eo.
    assert (I1 : WInv (w_sess w1)) by (eapply WInv_wq; [|exact I]; pose proof (op_subscribe_wq FUEL topics ps w) as Hq; now rewrite Eo in Hq).
    apply (op_logged _ w w1 o (fun x => record_op x o)); try assumption.
    + intros x. unfold record_op. destruct o as [[h|]| | | |]; repeat split.
    + eapply op_subscribe_pres; eassumption.
  - (* unsubscribe *) destruct (negb (w_conn w)); [apply Simple; repeat split|].
    destruct (op_unsubscribe FUEL topics ps w) as [w1 o] eqn:Eo.
    assert (I1 : WInv (w_sess w1)) by (eapply WInv_wq; [|exact I]; pose proof (op_unsubscribe_wq FUEL topics ps w) as Hq; now rewrite Eo in Hq).
    apply (op_logged _ w w1 o (fun x => record_op x o)); try assumption.
    + intros x. unfold record_op. destruct o as [[h|]| | | |]; repeat split.
    + eapply op_unsubscribe_pres; eassumption.
  - (* disconnect *) destruct (negb (w_conn w)); [apply Simple; repeat split|].
    destruct (op_disconnect FUEL d w) as [w1 o] eqn:Eo.
    assert (I1 : WInv (w_sess w1)) by (eapply WInv_wq; [|exact I]; pose proof (op_disconnect_wq FUEL d w) as Hq; now rewrite Eo in Hq).
    apply (op_logged _ w w1 o (fun x => x)); try assumption. eapply op_disconnect_pres; eassumption.
  - (* drive *) destruct (negb (w_conn w)); [apply Simple; repeat split|].
    destruct (op_drive FUEL w) as [w1 o] eqn:Eo.
    assert (I1 : WInv (w_sess w1)) by (eapply WInv_wq; [|exact I]; pose proof (op_drive_wq FUEL w) as Hq; now rewrite Eo in Hq).
    apply (op_logged _ w w1 o (fun x => x)); try assumption. eapply op_drive_pres; eassumption.
  - (* poll *) destruct (negb (w_conn w)); [apply Simple; repeat split|].
    destruct (op_poll FUEL w) as [w1 o] eqn:Eo.
    assert (I1 : WInv (w_sess w1)) by (eapply WInv_wq; [|exact I]; pose proof (op_poll_wq FUEL w) as Hq; now rewrite Eo in Hq).
    apply (op_logged _ w w1 o (fun x => x)); try assumption. eapply op_poll_pres; eassumption.
  - (* recv *) destruct (negb (w_conn w)); [apply Simple; repeat split|].
    destruct (op_recv FUEL w) as [w1 o] eqn:Eo.
    assert (I1 : WInv (w_sess w1)) by (eapply WInv_wq; [|exact I]; pose proof (op_recv_wq FUEL w) as Hq; now rewrite Eo in Hq).
    apply (op_logged _ w w1 o (fun x => x)); try assumption. eapply op_recv_pres; eassumption.
  - (* feed *) apply Simple; [cbn [w_sess upd_log]; exact (proj1 (feed_ghost w delay bs))|].
    eapply same_ghost_trans; [exact (proj2 (feed_ghost w delay bs))|repeat split].
  - apply Simple; repeat split.
  - (* the handle is dropped *)
    split; [cbn [w_sess upd_log upd_live]; exact I|]. split.
    + intros Hp. cbn [w_poison upd_log upd_live] in Hp. destruct (HW Hp) as [D _]. split; [|intros Hd; discriminate Hd].
      destruct D as [fs [t [A [B C]]]]. exists fs, t. repeat split; assumption.
    + right. intros Hd. discriminate Hd.
  - (* handle_disconnect *) destruct (negb (w_conn w)); [apply Simple; repeat split|].
    pose proof (proj2 (Pres_hd w) Gw) as [A B]. split; [exact A|]. split; [exact (proj2 (G_log _ _ (conj A B)))|].
    right. intros Hd. discriminate Hd.
  - apply Simple; repeat split.
  - destruct (w_conn w); [apply Simple; repeat split|].
    set (pv := if N.eqb (pid mod 65536) 0 then 1 else pid mod 65536).
    assert (Hpid : 1 <= pv <= 65535).
    { unfold pv. pose proof (N.mod_upper_bound pid 65536 ltac:(lia)). destruct (N.eqb_spec (pid mod 65536) 0); lia. }
    pose proof (Pres_sess w (set_pid (w_sess w) pv) LOther (SS_setpid _ _ Hpid) eq_refl (le_n _) eq_refl) as [_ PG].
    destruct (PG Gw) as [A B]. split; [exact A|]. split; [exact (proj2 (G_log _ _ (conj A B)))|].
    right. intros Hl. unfold NA. cbn [w_sess upd_log upd_sess set_pid s_reader]. now apply Hna.
  - apply Simple; repeat split.
Qed.

Lemma Good_log_state : forall w l, Good w -> halted w = false -> Good (upd_log w l).
Proof.
  intros w l [I [HW Hh]] Hf. split; [exact I|]. split; [exact (proj2 (G_log w l (conj I HW)))|].
  destruct Hh as [Hh|Hn]; [congruence|]. right. exact Hn.
Qed.

Theorem step_action_good : forall w a, Good w -> Good (step_action w a).
Proof.
  intros w a Gw. unfold step_action. destruct (halted w) eqn:Eh; [exact Gw|].
  destruct Gw as [I [HW Hh]]. destruct Hh as [Hh|Hn]; [congruence|].
  match goal with |- context [run_action a ?x] => set (w0 := x) end.
  assert (G0 : Good w0).
  { assert (Gs : G w0) by (unfold w0; apply (G_same w); [reflexivity|repeat split|exact (conj I HW)]).
    split; [exact (proj1 Gs)|]. split; [exact (proj2 Gs)|]. right. exact Hn. }
  assert (Na0 : NAl w0) by exact Hn.
  pose proof (run_action_good a w0 G0 Na0) as G1.
  destruct (halted (run_action a w0)) eqn:E1; [exact G1|]. now apply Good_log_state.
Qed.

Lemma Good_init : forall c, Good (init_world c).
Proof.
  intros c. split.
  - split; [apply Inv_init|]. split; [constructor|]. split; [unfold Single, nip; cbn; lia|exact Logic.I].
  - split.
    + intros _. split; [exists [], []; split; [constructor|]; split; [reflexivity|now left]|]. intros Hd. discriminate Hd.
    + right. intros Hd. discriminate Hd.
Qed.

Theorem run_case_good : forall c, Good (run_case c).
Proof.
  intros c. unfold run_case. generalize (Good_init c). generalize (init_world c). induction (c_prog c) as [|a t IH]; intros w Gw; cbn [fold_left]; [exact Gw|].
  apply IH. now apply step_action_good.
Qed.

Theorem reachable_WInv : forall c, WInv (w_sess (run_case c)).
Proof. intros c. exact (proj1 (run_case_good c)). Qed.

(* ---------------------------------------------------------------- the theorem *)
(* For every program, every script (partial writes down to one byte, a fault or a dropped future at any I/O call),
   every broker behaviour and every number of reconnects: unless one of the three recorded things happened on the
   current transport (ghost flag), the bytes it has accepted are whole packets followed by at most the beginning of
   one packet; on a live handle that beginning is exactly the written prefix of the one queued entry in progress. *)
Theorem wire_is_whole_packets : forall c,
  let w := run_case c in
  w_poison w = false ->
  exists fs t, Forall is_frame fs /\ w_wire w = concat fs ++ t /\ prefix_of_frame t /\
               (w_live w = true -> t = tail_of (s_ob (w_sess w))).
Proof.
  intros c w Hp. destruct (run_case_good c) as [I [HW _]]. fold w in I, HW. destruct (HW Hp) as [D L].
  destruct (w_live w) eqn:Hl.
  - destruct (L eq_refl) as [[fs [Ff Ew]] _]. exists fs, (tail_of (s_ob (w_sess w))). split; [exact Ff|]. split; [exact Ew|].
    split; [now apply tail_shape|reflexivity].
  - destruct D as [fs [t [Ff [Ew Pt]]]]. exists fs, t. repeat split; try assumption. intros Hd. discriminate Hd.
Qed.

(* the packets are recovered from the stream by the standard's framing rule *)
Corollary wire_frames_split : forall c,
  let w := run_case c in
  w_poison w = false -> w_live w = true -> npart (s_ob (w_sess w)) = 0%nat ->
  exists fs, Forall is_frame fs /\ split_frames (S (length fs)) (w_wire w) = Some fs.
Proof.
  intros c w Hp Hl Hq. destruct (wire_is_whole_packets c Hp) as [fs [t [Ff [Ew [_ Ht]]]]]. fold w in Ew, Ht.
  specialize (Ht Hl). rewrite (npart_zero_tail _ Hq) in Ht. subst t. rewrite app_nil_r in Ew.
  exists fs. split; [exact Ff|]. rewrite Ew. apply split_frames_concat; [|lia].
  eapply Forall_impl; [|exact Ff]. intros f Hf. exact Hf.
Qed.

(* ---------------------------------------------------------------- the flag is not vacuous: the recorded findings set it *)
(* K01a: a SUBSCRIBE replayed on a resumed session has first byte 0x8a = 138: a whole packet (the theorem above holds),
   but not one a client may send *)
Definition k01a_tokens : list N :=
  [64; 256; 1; 116; 0; 0; 0; 0; 0; 5;  0; 1; 0; 5; 32; 3; 0; 0; 0;  2; 0; 1; 1; 97; 0; 0; 0; 0;  10;  0; 1; 0; 5; 32; 3; 1; 0; 0;  6;  0].
(* K01b: QoS 1 PUBLISH dropped after 3 bytes, then disconnect() *)
Definition k01b_tokens : list N :=
  [64; 256; 1; 116; 0; 0; 0; 0; 0; 3;  0; 1; 0; 5; 32; 3; 0; 0; 0;  1; 1; 97; 0; 0; 1; 5; 104; 101; 108; 108; 111; 0;  4; 0; 0;
   7; 0; 1000; 0; 1000; 0; 1000; 0; 1000; 0; 1000; 0; 3; 3; 0].
(* K01c: disconnect() dropped after 1 byte, then a QoS 0 publish *)
Definition k01c_tokens : list N :=
  [64; 256; 1; 116; 0; 0; 0; 0; 0; 3;  0; 1; 0; 5; 32; 3; 0; 0; 0;  4; 0; 0;  1; 1; 97; 0; 0; 0; 1; 120; 0;
   7; 0; 1000; 0; 1000; 0; 1000; 0; 1000; 0; 1000; 0; 1; 3; 0].
Definition world_of (toks : list N) : option world :=
  match p_case toks with Some (c, []) => Some (run_case c) | _ => None end.

Definition ends_with (l suffix : bytes) : Prop := dropN (lenN l - lenN suffix) l = suffix.

Theorem known_findings_witnessed :
  (exists w, world_of k01a_tokens = Some w /\ w_poison w = false /\
     ends_with (w_wire w) [138; 7; 0; 1; 0; 0; 1; 97; 0] /\ spec_client_first_byte 138 = false) /\
  (exists w, world_of k01b_tokens = Some w /\ w_poison w = true /\ ends_with (w_wire w) [50; 11; 0; 224; 0]) /\
  (exists w, world_of k01c_tokens = Some w /\ w_poison w = true /\ w_live w = true /\
     ends_with (w_wire w) [224; 48; 5; 0; 1; 97; 0; 120]).
Proof.
  split; [|split].
  - destruct (world_of k01a_tokens) as [w|] eqn:E; [|vm_compute in E; discriminate].
    exists w. split; [reflexivity|]. vm_compute in E. inversion E; subst; clear E.
    split; [reflexivity|]. split; [|reflexivity]. vm_compute. reflexivity.
  - destruct (world_of k01b_tokens) as [w|] eqn:E; [|vm_compute in E; discriminate].
    exists w. split; [reflexivity|]. vm_compute in E. inversion E; subst; clear E.
    split; [reflexivity|]. vm_compute. reflexivity.
  - destruct (world_of k01c_tokens) as [w|] eqn:E; [|vm_compute in E; discriminate].
    exists w. split; [reflexivity|]. vm_compute in E. inversion E; subst; clear E.
    split; [reflexivity|]. split; [reflexivity|]. vm_compute. reflexivity.
Qed.
