(* Latch.v — C11: a dead connection handle stays dead and never touches the transport again. *)
From Coq Require Import Arith ZArith Lia.
From Minimq Require Import Util Bytes Varint Utf8 Props Ser De Reader Arena Core Show Machine.

(* (1) on a dead handle every network operation returns at once, with the world — session, wire, I/O log,
       script position, clock — unchanged: no read, write or flush is performed *)
Lemma dead_drive_packet : forall fuel w, w_live w = false -> drive_packet fuel w = (w, OFail EDisconnected).
Proof. intros fuel w H. unfold drive_packet. now rewrite H. Qed.

Lemma dead_wait : forall fuel w, w_live w = false -> wait_for_progress fuel w = (w, match fuel with O => OFuel | S _ => OFail EDisconnected end).
Proof. intros fuel w H. destruct fuel; cbn [wait_for_progress]; [reflexivity|]. now rewrite dead_drive_packet. Qed.

Lemma dead_poll : forall fuel w, w_live w = false -> op_poll (S fuel) w = (w, OFail EDisconnected).
Proof. intros. unfold op_poll. now rewrite dead_wait. Qed.
Lemma dead_recv : forall fuel w, w_live w = false -> op_recv (S fuel) w = (w, OFail EDisconnected).
Proof. intros. cbn [op_recv]. now rewrite dead_wait. Qed.
Lemma dead_drive : forall fuel w, w_live w = false -> op_drive fuel w = (w, OFail EDisconnected).
Proof. intros. unfold op_drive. now rewrite dead_drive_packet. Qed.
Lemma dead_publish : forall fuel r w, w_live w = false -> op_publish fuel r w = (w, OFail EDisconnected).
Proof. intros. unfold op_publish. now rewrite H. Qed.
Lemma dead_subscribe : forall fuel t ps w, w_live w = false -> op_subscribe fuel t ps w = (w, OFail EDisconnected).
Proof. intros. unfold op_subscribe. now rewrite H. Qed.
Lemma dead_unsubscribe : forall fuel t ps w, w_live w = false -> op_unsubscribe fuel t ps w = (w, OFail EDisconnected).
Proof. intros. unfold op_unsubscribe. now rewrite H. Qed.
Lemma dead_disconnect : forall fuel d w, w_live w = false -> op_disconnect fuel d w = (w, ODone tt).
Proof. intros. unfold op_disconnect. now rewrite H. Qed.

(* (2) the fatal results latch the handle: whenever an operation returns a transport error, the disconnected
       error or the invalid-packet error, the handle is dead afterwards *)
Definition fatal (e : err) : bool :=
  match e with ETransport | EDisconnected | EInvalidPacket => true | _ => false end.

Definition latched {A} (r : world * outcome A) : Prop :=
  match snd r with OFail e => fatal e = true -> w_live (fst r) = false | _ => True end.

Lemma io_write_live : forall bs w, w_live (fst (io_write bs w)) = w_live w.
Proof.
  intros. unfold io_write. destruct (N.eqb (lenN bs) 0); [reflexivity|].
  destruct (next_ev w) as [[k amt] rest].
  destruct (N.eqb k 1); [reflexivity|]. destruct (N.eqb k 2); [reflexivity|]. destruct (N.eqb k 3); [reflexivity|].
  assert (G : forall x a, w_live (broker_feed x a) = w_live x).
  { intros x a. unfold broker_feed. destruct (N.eqb (w_broker _) 0); [reflexivity|].
    destruct (broker_split _ _ _ _) as [r rest']. destruct r; reflexivity. }
  destruct (N.eqb k 4); [unfold slow_write; cbn [fst]; rewrite G; reflexivity|].
  destruct (N.eqb k 5); [unfold slow_write; cbn [fst]; rewrite G; reflexivity|].
  cbn [fst]. rewrite G. reflexivity.
Qed.
Lemma io_flush_live : forall w, w_live (fst (io_flush w)) = w_live w.
Proof. intros. unfold io_flush. destruct (next_ev w) as [[k amt] rest]. destruct (N.eqb k 1); [reflexivity|]. destruct (N.eqb k 3); reflexivity. Qed.

Lemma latched_flush_current : forall p now w, latched (flush_current p now w).
Proof.
  intros. unfold latched, flush_current. destruct (w_live w) eqn:L; cbn [negb]; [|cbn [snd fst]; intros _; exact L].
  destruct (io_flush w) as [w1 r]. destruct r; cbn [snd fst]; try exact I.
  - destruct (complete_flush _ _ _) as [s f]. destruct f; cbn [snd]; exact I.
  - intros _. reflexivity.
Qed.

Lemma latched_perform : forall st now w, latched (perform_outbound_step st now w).
Proof.
  intros. unfold perform_outbound_step.
  destruct (prepare_step (w_sess w) st) as [p bs written len|p| |e] eqn:Ep.
  - destruct (w_live w) eqn:L; cbn [negb]; [|unfold latched; cbn [snd fst]; intros _; exact L].
    destruct (io_write (dropN written bs) w) as [w1 r]. destruct r as [n| |].
    + destruct (N.eqb n 0); [unfold latched; cbn [snd]; intros H; discriminate|].
      destruct (set_written _ _ _ _) as [s f]. destruct (negb f); [exact I|].
      destruct (_ <? _); [exact I|]. apply latched_flush_current.
    + unfold latched. cbn [snd fst]. intros _. reflexivity.
    + exact I.
  - apply latched_flush_current.
  - exact I.
  - (* errors of the prepare phase are BufferTooSmall / InvalidRequest / Payload / PacketTooLarge: not in the list *)
    unfold latched. cbn [snd]. intros H.
    unfold prepare_step in Ep.
    destruct st as [a st|pid rc st|pid off len st]; destruct st;
      repeat match type of Ep with
             | match ?x with _ => _ end = _ => destruct x eqn:?
             | (if ?c then _ else _) = _ => destruct c
             end; try discriminate; inversion Ep; subst;
      match goal with
      | Hs : fatal (err_of_serr ?se) = true |- _ => destruct se; discriminate
      | _ => discriminate
      end.
Qed.

Lemma latched_flush_outbound : forall fuel w, latched (flush_outbound fuel w).
Proof.
  induction fuel as [|f IH]; intros w; cbn [flush_outbound]; [exact I|].
  destruct (maybe_queue_pingreq (w_sess w) (w_now w)) as [s1 e] eqn:Em.
  destruct e as [e|].
  - unfold latched. cbn [snd]. intros H. unfold maybe_queue_pingreq in Em.
    destruct (should_queue_pingreq _ _); [|inversion Em].
    destruct (check_control_size _ _) as [e0|] eqn:Ec.
    + inversion Em; subst. unfold check_control_size in Ec. destruct (encode_control_packet CPing) as [n b|se].
      * destruct (too_large _ _); inversion Ec; subst; discriminate.
      * inversion Ec; subst. destruct se; discriminate.
    + destruct (queue_control _ _); inversion Em; subst. discriminate.
  - destruct (next_step _) as [st|]; [|exact I].
    pose proof (latched_perform st (w_now w) (upd_sess w s1)) as Hp.
    destruct (perform_outbound_step st (w_now w) (upd_sess w s1)) as [w2 r]. destruct r; try exact Hp; try exact I.
    apply IH.
Qed.

Lemma hd_dead : forall w, w_live (w_hd w) = false.
Proof. reflexivity. Qed.

Lemma queue_ctl_checked_no_transport : forall s a d, snd (queue_ctl_checked s a d) <> HErr ETransport.
Proof.
  intros. unfold queue_ctl_checked. destruct (check_control_size _ _) as [e|] eqn:E; cbn [snd].
  - unfold check_control_size in E. destruct (encode_control_packet a) as [n b|se].
    + destruct (too_large _ _); inversion E; subst; discriminate.
    + inversion E; subst. destruct se; discriminate.
  - destruct (queue_control _ _); cbn [snd]; discriminate.
Qed.

Lemma handle_packet_no_transport : forall s p, snd (handle_packet s p) <> HErr ETransport.
Proof.
  intros s p. destruct p; cbn [handle_packet]; try (cbn [snd]; discriminate).
  - destruct q; [cbn [snd]; discriminate| |]; destruct pid; try (cbn [snd]; discriminate); try apply queue_ctl_checked_no_transport.
    match goal with |- context [queue_ctl_checked s ?a ?dl] =>
      pose proof (queue_ctl_checked_no_transport s a dl) as Hq; destruct (queue_ctl_checked s a dl) as [s1 hr] end.
    cbn [snd] in Hq |- *. exact Hq.
  - destruct (ack_packet _ _) as [o f]. destruct f; cbn [negb]; [|cbn [snd]; discriminate]. destruct (rc_success _); cbn [snd]; discriminate.
  - destruct (ack_packet _ _) as [o f]. destruct f.
    + destruct (negb _); [cbn [snd]; discriminate|].
      destruct (check_pubrel_size _ _ _) as [e|] eqn:E; cbn [snd].
      * unfold check_pubrel_size in E. destruct (encode_pubrel pid 0) as [n b|se].
        -- destruct (too_large _ _); inversion E; subst; discriminate.
        -- inversion E; subst. destruct se; discriminate.
      * destruct (queue_release _ _ _); cbn [snd]; discriminate.
    + destruct (has_pending_release _ _); [destruct (rc_success _)|]; cbn [snd]; discriminate.
  - destruct (swap_remove_id _ _); apply queue_ctl_checked_no_transport.
  - destruct (ack_release _ _) as [o f]. destruct f; cbn [negb]; [|cbn [snd]; discriminate]. destruct (rc_success _); cbn [snd]; discriminate.
  - destruct (ack_packet _ _) as [o f]. destruct f; cbn [negb]; [|cbn [snd]; discriminate]. destruct (all_success _); cbn [snd]; discriminate.
  - destruct (ack_packet _ _) as [o f]. destruct f; cbn [negb]; [|cbn [snd]; discriminate]. destruct (all_success _); cbn [snd]; discriminate.
Qed.

Lemma latched_process : forall w, latched (process_received w).
Proof.
  intros. unfold process_received. destruct (negb _); [exact I|].
  destruct (take_packet _) as [[[r' pl] [p|]]|]; try exact I.
  - pose proof (handle_packet_no_transport (set_reader (w_sess w) r') p) as Hnt.
    destruct (handle_packet _ p) as [s2 hr]. cbn [snd] in Hnt. destruct hr as [[|]|e]; try exact I.
    destruct e; unfold latched; cbn [snd fst]; intros H; try discriminate; try reflexivity. contradiction.
  - unfold latched. cbn [snd fst]. intros _. reflexivity.
Qed.

Lemma latched_service : forall now w, latched (service now w).
Proof.
  intros. unfold service. destruct (ping_timed_out _ _); [unfold latched; cbn [snd fst]; intros _; reflexivity|].
  destruct (maybe_queue_pingreq (w_sess w) now) as [s1 e] eqn:Em.
  destruct e as [e|].
  - unfold latched. cbn [snd]. intros H. unfold maybe_queue_pingreq in Em.
    destruct (should_queue_pingreq _ _); [|inversion Em].
    destruct (check_control_size _ _) as [e0|] eqn:Ec.
    + inversion Em; subst. unfold check_control_size in Ec. destruct (encode_control_packet CPing) as [n b|se].
      * destruct (too_large _ _); inversion Ec; subst; discriminate.
      * inversion Ec; subst. destruct se; discriminate.
    + destruct (queue_control _ _); inversion Em; subst. discriminate.
  - destruct (next_step _) as [st|]; [|exact I]. apply latched_perform.
Qed.

Lemma latched_drive_loop : forall fuel adv w, latched (drive_loop fuel adv w).
Proof.
  induction fuel as [|f IH]; intros adv w; cbn [drive_loop]; [exact I|].
  pose proof (latched_process w) as H1. destruct (process_received w) as [w1 r1].
  destruct r1 as [[p|]| | | |]; try exact H1; try exact I.
  destruct (packet_available _); [apply IH|].
  pose proof (latched_service (w_now w1) w1) as H2. destruct (service (w_now w1) w1) as [w2 r2].
  destruct r2 as [a| | | |]; try exact H2; try exact I.
  destruct (next_step _); [apply IH | exact I].
Qed.

Lemma latched_drive_packet : forall fuel w, latched (drive_packet fuel w).
Proof.
  intros. unfold drive_packet. destruct (w_live w) eqn:L; cbn [negb]; [apply latched_drive_loop|].
  unfold latched. cbn [snd fst]. intros _. exact L.
Qed.

Lemma latched_wait : forall fuel w, latched (wait_for_progress fuel w).
Proof.
  induction fuel as [|f IH]; intros w; cbn [wait_for_progress]; [exact I|].
  pose proof (latched_drive_packet (S f) w) as H1. destruct (drive_packet (S f) w) as [w1 r].
  destruct r as [pr| | | |]; try exact H1. destruct pr; try exact I.
  destruct (w_live w1) eqn:L; cbn [negb]; [|unfold latched; cbn [snd fst]; intros _; exact L].
  destruct (fill_packet_reader (S f) _ w1) as [w2 fr]. destruct fr; try apply IH; try exact I.
  unfold latched. cbn [snd fst]. intros _. reflexivity.
Qed.

Lemma latched_poll : forall fuel w, latched (op_poll fuel w).
Proof.
  intros. unfold op_poll. pose proof (latched_wait fuel w) as H. destruct (wait_for_progress fuel w) as [w1 r].
  destruct r as [pr| | | |]; try exact H; try exact I. destruct pr; exact I.
Qed.
Lemma latched_recv : forall fuel w, latched (op_recv fuel w).
Proof.
  induction fuel as [|f IH]; intros w; cbn [op_recv]; [exact I|].
  pose proof (latched_wait (S f) w) as H. destruct (wait_for_progress (S f) w) as [w1 r].
  destruct r as [pr| | | |]; try exact H; try exact I. destruct pr; try exact I. apply IH.
Qed.
Lemma latched_drive : forall fuel w, latched (op_drive fuel w).
Proof.
  intros. unfold op_drive. pose proof (latched_drive_packet fuel w) as H. destruct (drive_packet fuel w) as [w1 r].
  destruct r as [pr| | | |]; try exact H; try exact I. destruct pr; exact I.
Qed.

(* after disconnect() / disconnect_with() has got past its liveness check the handle is dead, whatever the
   outcome of the write and the flush (unless the future is dropped before completing) *)
Lemma disconnect_latches : forall fuel d w bs w' r,
  w_live w = true -> disconnect_prepare (w_sess w) d = DPOk bs ->
  op_disconnect fuel d w = (w', r) -> r <> OCancel -> r <> OFuel -> r <> OPanic -> w_live w' = false.
Proof.
  intros fuel d w bs w' r L Hp H Hc Hf Hpn. unfold op_disconnect in H. rewrite L, Hp in H. cbn [negb] in H.
  destruct (write_all fuel bs _) as [w1 r1]. destruct r1.
  - destruct (io_flush w1) as [w2 fr]. destruct fr; inversion H; subst; try reflexivity. contradiction.
  - inversion H; subst. reflexivity.
  - inversion H; subst. contradiction.
  - inversion H; subst. contradiction.
  - inversion H; subst. contradiction.
Qed.

(* the same for the remaining operations *)
Lemma latched_bindu : forall {A} (r : world * outcome unit) (k : world -> world * outcome A),
  latched r -> (forall w, latched (k w)) -> latched (bindu r k).
Proof. intros A [w o] k H Hk. unfold bindu. destruct o; try exact H; try exact I. apply Hk. Qed.

Lemma write_all_live : forall fuel bs w, w_live (fst (write_all fuel bs w)) = w_live w.
Proof.
  induction fuel as [|f IH]; intros bs w; cbn [write_all]; [reflexivity|]. destruct bs; [reflexivity|].
  pose proof (io_write_live (n :: bs) w) as Hl. destruct (io_write (n :: bs) w) as [w1 r]. cbn [fst] in Hl.
  destruct r; try exact Hl. destruct (N.eqb n0 0); [exact Hl|]. now rewrite IH.
Qed.

Lemma latched_finish_mid : forall fuel w m, (forall e, m = MErr e -> fatal e = true -> w_live w = false) -> latched (finish_mid fuel w m).
Proof.
  intros fuel w m Hm. destruct m as [e|o|bs]; cbn [finish_mid].
  - unfold latched. cbn [snd fst]. intros H. eapply Hm; [reflexivity|exact H].
  - apply latched_bindu; [apply latched_flush_outbound | intros; exact I].
  - destruct (write_all fuel bs w) as [w1 r]. destruct r as [u|e| | |]; try exact I.
    + destruct (io_flush w1) as [w2 fr]. destruct fr; try exact I. unfold latched. cbn [snd fst]. intros _. reflexivity.
    + destruct e; unfold latched; cbn [snd fst]; intros H; try discriminate; reflexivity.
Qed.

Lemma err_of_serr_not_fatal : forall se, fatal (err_of_serr se) = false.
Proof. destruct se; reflexivity. Qed.

Lemma publish_middle_fatal : forall s live r s' e, publish_middle s live r = (s', MErr e) -> fatal e = true -> live = false.
Proof.
  intros s live r s' e H Hf. unfold publish_middle in H.
  destruct (negb (props_valid_for _ _)); [inversion H; subst; discriminate|].
  destruct (effective_qos _ _).
  - destruct (negb _); [inversion H; subst; discriminate|].
    destruct (enc_publish _ _) as [n b|se]; [|inversion H; subst; rewrite err_of_serr_not_fatal in Hf; discriminate].
    destruct (too_large _ _); [inversion H; subst; discriminate|].
    destruct live; cbn [negb] in H; [inversion H|reflexivity].
  - destruct (next_packet_id s) as [s1 id]. destruct (retained_full _); [inversion H; subst; discriminate|].
    destruct (negb _); [inversion H; subst; discriminate|]. destruct (encode_at _ _) as [o1 er].
    destruct er as [off len|se]; [|inversion H; subst; rewrite err_of_serr_not_fatal in Hf; discriminate].
    destruct (too_large _ _); [inversion H; subst; discriminate|]. destruct (retain_packet _ _ _ _); inversion H; subst; discriminate.
  - destruct (next_packet_id s) as [s1 id]. destruct (retained_full _); [inversion H; subst; discriminate|].
    destruct (negb _); [inversion H; subst; discriminate|]. destruct (encode_at _ _) as [o1 er].
    destruct er as [off len|se]; [|inversion H; subst; rewrite err_of_serr_not_fatal in Hf; discriminate].
    destruct (too_large _ _); [inversion H; subst; discriminate|]. destruct (retain_packet _ _ _ _); inversion H; subst; discriminate.
Qed.

Lemma enqueue_middle_not_fatal : forall s k enc s' e, enqueue_middle s k enc = (s', MErr e) -> fatal e = false.
Proof.
  intros s k enc s' e H. unfold enqueue_middle in H. destruct (retained_full _); [inversion H; reflexivity|].
  destruct (next_packet_id s) as [s1 id]. destruct (encode_at _ _) as [o1 er].
  destruct er as [off len|se]; [|inversion H; apply err_of_serr_not_fatal].
  destruct (too_large _ _); [inversion H; reflexivity|]. destruct (retain_packet _ _ _ _); inversion H; reflexivity.
Qed.

Lemma flush_outbound_live_done : forall fuel w w1, flush_outbound fuel w = (w1, ODone tt) -> w_live w = true -> w_live w1 = true.
Proof.
  induction fuel as [|f IH]; intros w w1 H L; cbn [flush_outbound] in H; [discriminate|].
  destruct (maybe_queue_pingreq (w_sess w) (w_now w)) as [s1 e]. destruct e; [discriminate|].
  destruct (next_step _) as [st|]; [|inversion H; subst; exact L].
  destruct (perform_outbound_step st (w_now w) (upd_sess w s1)) as [w2 r] eqn:Ep. destruct r; try discriminate.
  apply (IH w2 w1 H).
  (* a step that returns normally leaves the handle live *)
  unfold perform_outbound_step in Ep. destruct (prepare_step _ _) as [p bs written len|p| |e0].
  - cbn [w_live upd_sess] in Ep. rewrite L in Ep. cbn [negb] in Ep.
    pose proof (io_write_live (dropN written bs) (upd_sess w s1)) as Hl.
    destruct (io_write (dropN written bs) (upd_sess w s1)) as [w3 r3]. cbn [fst] in Hl. destruct r3; try discriminate.
    destruct (N.eqb n 0); [discriminate|]. destruct (set_written _ _ _ _) as [s4 f4]. destruct (negb f4); [discriminate|].
    destruct (_ <? _); [inversion Ep; subst; cbn [w_live upd_sess]; rewrite Hl; exact L|].
    unfold flush_current in Ep. cbn [w_live upd_sess] in Ep. rewrite Hl in Ep. cbn [w_live upd_sess] in Ep. rewrite L in Ep. cbn [negb] in Ep.
    pose proof (io_flush_live (upd_sess w3 s4)) as Hf. destruct (io_flush (upd_sess w3 s4)) as [w5 r5]. cbn [fst] in Hf.
    destruct r5; try discriminate. destruct (complete_flush _ _ _) as [s6 f6]. destruct f6; inversion Ep; subst.
    cbn [w_live upd_sess]. rewrite Hf. cbn [w_live upd_sess]. rewrite Hl. exact L.
  - unfold flush_current in Ep. cbn [w_live upd_sess] in Ep. rewrite L in Ep. cbn [negb] in Ep.
    pose proof (io_flush_live (upd_sess w s1)) as Hf. destruct (io_flush (upd_sess w s1)) as [w5 r5]. cbn [fst] in Hf.
    destruct r5; try discriminate. destruct (complete_flush _ _ _) as [s6 f6]. destruct f6; inversion Ep; subst.
    cbn [w_live upd_sess]. rewrite Hf. exact L.
  - inversion Ep; subst. exact L.
  - discriminate.
Qed.

Lemma latched_publish : forall fuel r w, latched (op_publish fuel r w).
Proof.
  intros. unfold op_publish. destruct (w_live w) eqn:L; cbn [negb]; [|unfold latched; cbn [snd fst]; intros _; exact L].
  destruct (flush_outbound fuel w) as [w1 o] eqn:Ef. pose proof (latched_flush_outbound fuel w) as Hl. rewrite Ef in Hl.
  destruct o; cbn [bindu]; try exact Hl; try exact I. destruct a.
  pose proof (flush_outbound_live_done _ _ _ Ef L) as L1.
  destruct (publish_middle (w_sess w1) (w_live w1) r) as [s2 m] eqn:Em.
  apply latched_finish_mid. intros e He Hfat. subst m.
  pose proof (publish_middle_fatal _ _ _ _ _ Em Hfat) as Hd. rewrite L1 in Hd. discriminate.
Qed.

Lemma latched_subscribe : forall fuel t ps w, latched (op_subscribe fuel t ps w).
Proof.
  intros. unfold op_subscribe. destruct (w_live w) eqn:L; cbn [negb]; [|unfold latched; cbn [snd fst]; intros _; exact L].
  destruct t; [unfold latched; cbn [snd]; intros H; discriminate|].
  destruct (negb _); [unfold latched; cbn [snd]; intros H; discriminate|].
  apply latched_bindu; [apply latched_flush_outbound|]. intros w1.
  destruct (subscribe_middle (w_sess w1) (p :: t) ps) as [s2 m] eqn:Em.
  apply latched_finish_mid. intros e He Hfat. subst m. unfold subscribe_middle in Em.
  apply enqueue_middle_not_fatal in Em. rewrite Em in Hfat. discriminate.
Qed.

Lemma latched_unsubscribe : forall fuel t ps w, latched (op_unsubscribe fuel t ps w).
Proof.
  intros. unfold op_unsubscribe. destruct (w_live w) eqn:L; cbn [negb]; [|unfold latched; cbn [snd fst]; intros _; exact L].
  destruct t; [unfold latched; cbn [snd]; intros H; discriminate|].
  destruct (negb _); [unfold latched; cbn [snd]; intros H; discriminate|].
  apply latched_bindu; [apply latched_flush_outbound|]. intros w1.
  destruct (unsubscribe_middle (w_sess w1) (b :: t) ps) as [s2 m] eqn:Em.
  apply latched_finish_mid. intros e He Hfat. subst m. unfold unsubscribe_middle in Em.
  apply enqueue_middle_not_fatal in Em. rewrite Em in Hfat. discriminate.
Qed.
