(* PollReads.v — liveness of poll() towards the broker's traffic (C16): on a behaving transport, with nothing left to
   write and no timer pending, poll() on a world where one whole packet has arrived behaves exactly like poll() on the
   world in which that packet already sits, complete, in the reader: the wait loop reads precisely that packet. *)
From Coq Require Import List NArith Lia Bool.
From Coq Require Import ZifyBool ZifyN ZifyNat.
From Minimq Require Import Bytes Varint Utf8 Props Ser De Reader Arena Core Show Machine Parse Run.
From Minimq Require Import Util VarintProofs Chunking ReaderInv Cancel ConnectOk Framing FillWhole.
Import ListNotations.
Open Scope N_scope.

Lemma upd_sess_same : forall w, upd_sess w (w_sess w) = w.
Proof. intros w. destruct w; reflexivity. Qed.

Theorem wait_reads_arrived_packet : forall f w h rl body t,
  varint_write (lenN body) = Some rl ->
  let pkt := h :: rl ++ body in
  lenN pkt <= rcap (rd w) -> (N.to_nat (lenN pkt) + 2 <= f)%nat -> lenN pkt <= BIG ->
  w_live w = true -> rdata (rd w) = [] -> rplen (rd w) = None ->
  next_step (s_ob (w_sess w)) = None ->
  (forall d, rt_next_ping (s_rt (w_sess w)) = Some d -> w_now w < d) -> rt_ping_timeout (s_rt (w_sess w)) = None ->
  w_script w = [] -> w_inq w = [(t, pkt)] -> t <= w_now w ->
  exists w3, wait_for_progress (S f) w = wait_for_progress f w3 /\
    rdata (rd w3) = pkt /\ rplen (rd w3) = Some (lenN pkt) /\ rcap (rd w3) = rcap (rd w) /\
    w_sess w3 = set_reader (w_sess w) (rd w3) /\ w_inq w3 = [] /\ w_script w3 = [] /\ w_now w3 = w_now w /\ w_live w3 = true.
Proof.
  intros f w h rl body t Hrl pkt Hcap Hf HB Hl Hd Hp Hn Hnp Hpt Hs Hi Ht.
  assert (Hna : packet_available (rd w) = false) by (unfold packet_available; now rewrite Hp).
  cbn [wait_for_progress]. unfold drive_packet. rewrite Hl. cbn [negb drive_loop].
  unfold process_received. fold (rd w). rewrite Hna. cbn [negb].
  unfold service, ping_timed_out. rewrite Hpt.
  unfold maybe_queue_pingreq, should_queue_pingreq. rewrite Hpt.
  assert (Hdue : match rt_next_ping (s_rt (w_sess w)) with Some d => d <=? w_now w | None => false end = false).
  { destruct (rt_next_ping (s_rt (w_sess w))) as [d|] eqn:En; [|reflexivity]. specialize (Hnp d eq_refl). apply N.leb_gt. exact Hnp. }
  rewrite Hdue. cbn [andb].
  rewrite upd_sess_same, Hn. cbn [orb]. rewrite Hn. cbn [negb].
  rewrite Hl. cbn [negb].
  assert (Hat : at_k h rl body (rd w) 0).
  { unfold at_k. fold pkt. rewrite Hd, takeN_0. split; [reflexivity|]. split; [lia|]. split; [exact Hcap|].
    split; [|intros pl E; rewrite Hp in E; discriminate].
    split; [unfold ROK; rewrite Hp; unfold HdrOk; rewrite Hd; cbn; constructor|intros _; unfold read_bytes; rewrite Hd; cbn; lia]. }
  destruct (fill_whole_dl h rl body Hrl (next_deadline (s_rt (w_sess w))) (N.to_nat (lenN pkt)) (S f) w 0 t Hat) as [w3 [E3 [D3 [P3 [K3 [S3 [Q3 [C3 N3]]]]]]]].
  { fold pkt. lia. } { lia. } { exact Hs. } { fold pkt. exact HB. }
  { intros _. fold pkt. rewrite dropN_0. split; [exact Hi|exact Ht]. }
  { fold pkt. intros E. assert (1 <= lenN pkt) by (unfold pkt; rewrite lenN_cons; lia). lia. }
  rewrite E3. exists w3. split; [reflexivity|]. fold pkt in D3, P3. repeat split; try assumption.
  (* the handle is still live: fill does not touch it *)
  destruct (Wire.fill_same (S f) (next_deadline (s_rt (w_sess w))) w) as [[_ [Hlv _]] _]. rewrite E3 in Hlv. cbn [fst] in Hlv. now rewrite Hlv.
Qed.
