(* Inv.v — the state invariant of the session (arena geometry, capacities, identifiers) and its closure under
   every arena operation. *)
From Coq Require Import Arith ZArith Lia ZifyBool ZifyN ZifyNat.
From Minimq Require Import Util Bytes Varint Utf8 Props Ser De Reader Arena Core ArenaLemmas SerLemmas ArenaOps.

Definition ids (o : outbound) : list N := map re_pid (ob_ret o) ++ map le_pid (ob_rel o).

Definition id_ok (i : N) : Prop := 1 <= i <= 65535.

Record OInv (o : outbound) : Prop := {
  oi_arena : arena_wf o;
  oi_ret : glen (ob_ret o) <= 8;
  oi_rel : glen (ob_rel o) <= 8;
  oi_ctl : glen (ob_ctl o) <= 8;
  oi_nodup : NoDup (ids o);
  oi_range : Forall id_ok (ids o) }.

Lemma glen_map : forall {A B} (f : A -> B) l, glen (map f l) = glen l.
Proof. intros. rewrite !glen_length, map_length. reflexivity. Qed.

Lemma glen_of_map_eq : forall {A B} (f : A -> B) (l l' : list A), map f l' = map f l -> glen l' = glen l.
Proof. intros A B f l l' H. rewrite <- (glen_map f l'), <- (glen_map f l). now rewrite H. Qed.

Lemma OInv_new : forall cap, OInv (ob_new cap).
Proof.
  intros. constructor; cbn [ob_new ob_ret ob_rel ob_ctl ids map app glen]; try lia; try constructor.
  - cbn [wf_layout ob_ret ob_used ob_new]. lia.
  - cbn [ob_used ob_buf ob_new]. lia.
Qed.

Lemma OInv_clear : forall o, OInv o -> OInv (ob_clear o).
Proof.
  intros o H. constructor; cbn [ob_clear ob_ret ob_rel ob_ctl ids map app glen]; try lia; try constructor.
  - cbn [wf_layout ob_ret ob_used ob_clear]. lia.
  - cbn [ob_used ob_buf ob_clear]. lia.
Qed.

Lemma OInv_compact : forall o, OInv o -> OInv (compact o).
Proof.
  intros o [A R L C N F]. destruct (compact_spec o A) as [C1 [C2 [C3 [C4 [C5 [C6 [C7 [C8 [C9 C10]]]]]]]]].
  constructor; try assumption.
  - rewrite (glen_of_map_eq re_pid _ _ C7). exact R.
  - now rewrite C6.
  - now rewrite C5.
  - unfold ids. now rewrite C7, C6.
  - unfold ids. now rewrite C7, C6.
Qed.

(* states-only updates of the three queues *)
Lemma update_first_map : forall {A B} (g : A -> B) (p : A -> bool) (f : A -> A) l,
  (forall x, g (f x) = g x) -> map g (fst (update_first p f l)) = map g l.
Proof.
  intros A B g p f l H. induction l as [|x t IH]; cbn [update_first map fst]; [reflexivity|].
  destruct (p x); cbn [fst map]; [now rewrite H|].
  destruct (update_first p f t) as [t' b]. cbn [fst map] in *. now rewrite IH.
Qed.
Lemma update_first_glen : forall {A} (p : A -> bool) (f : A -> A) l, glen (fst (update_first p f l)) = glen l.
Proof.
  intros. rewrite <- (glen_map (fun _ => tt)), <- (glen_map (fun _ => tt) l).
  now rewrite update_first_map.
Qed.

Lemma wf_layout_ext : forall es es' lo used,
  map re_off es' = map re_off es -> map re_len es' = map re_len es -> wf_layout lo es used -> wf_layout lo es' used.
Proof.
  induction es as [|e t IH]; intros es' lo used H1 H2 W; destruct es' as [|e' t']; try discriminate; [exact W|].
  cbn [map wf_layout] in *. inversion H1; inversion H2. destruct W as [W1 [W2 W3]].
  rewrite H0, H4. repeat split; try assumption. now apply IH.
Qed.

(* an outbound that differs only in entry states / control queue content (not larger) keeps the invariant *)
Lemma OInv_states : forall o o',
  ob_buf o' = ob_buf o -> ob_used o' = ob_used o ->
  map re_pid (ob_ret o') = map re_pid (ob_ret o) -> map re_off (ob_ret o') = map re_off (ob_ret o) ->
  map re_len (ob_ret o') = map re_len (ob_ret o) -> map le_pid (ob_rel o') = map le_pid (ob_rel o) ->
  glen (ob_ctl o') <= N.max (glen (ob_ctl o)) 0 \/ glen (ob_ctl o') <= 8 ->
  OInv o -> OInv o'.
Proof.
  intros o o' Hb Hu Hp Ho Hl Hr Hc [[W U] R L C N F]. constructor.
  - split; [rewrite Hu; eapply wf_layout_ext; eassumption | now rewrite Hu, Hb].
  - now rewrite (glen_of_map_eq re_pid _ _ Hp).
  - now rewrite (glen_of_map_eq le_pid _ _ Hr).
  - lia.
  - unfold ids. now rewrite Hp, Hr.
  - unfold ids. now rewrite Hp, Hr.
Qed.

Lemma filter_glen_le : forall {A} (f : A -> bool) l, glen (filter f l) <= glen l.
Proof.
  intros A f l. induction l as [|x t IH]; cbn [filter glen]; [lia|].
  destruct (f x); cbn [glen]; lia.
Qed.

Lemma OInv_set_control_written : forall o a w len, OInv o -> OInv (fst (set_control_written o a w len)).
Proof.
  intros o a w len H. unfold set_control_written.
  destruct (update_first _ _ (ob_ctl o)) as [l b] eqn:E. cbn [fst].
  eapply (OInv_states o); try reflexivity; [|exact H]. left. cbn [with_ctl ob_ctl].
  replace l with (fst (update_first (fun e => caction_eqb (ce_act e) a)
     (fun e => {| ce_act := ce_act e; ce_st := set_written_state w len |}) (ob_ctl o))) by now rewrite E.
  rewrite update_first_glen. lia.
Qed.
Lemma OInv_flush_control : forall o a, OInv o -> OInv (fst (flush_control o a)).
Proof.
  intros o a H. unfold flush_control.
  destruct (update_first _ _ (ob_ctl o)) as [l b] eqn:E. cbn [fst].
  eapply (OInv_states o); try reflexivity; [|exact H]. left. cbn [with_ctl ob_ctl].
  eapply N.le_trans; [apply filter_glen_le|].
  replace l with (fst (update_first (fun e => caction_eqb (ce_act e) a)
     (fun e => {| ce_act := ce_act e; ce_st := SSent |}) (ob_ctl o))) by now rewrite E.
  rewrite update_first_glen. lia.
Qed.
Lemma OInv_ret_states : forall o (p : rentry -> bool) (st : sstate),
  OInv o ->
  OInv (with_ret o (fst (update_first p (fun e => {| re_pid := re_pid e; re_off := re_off e; re_len := re_len e; re_st := st |}) (ob_ret o)))).
Proof.
  intros o p st H. eapply (OInv_states o); try reflexivity; cbn [with_ret ob_ret ob_rel ob_ctl];
    try (apply update_first_map; reflexivity); [|exact H]. left. lia.
Qed.
Lemma OInv_rel_states : forall o (p : lentry -> bool) (st : sstate),
  OInv o ->
  OInv (with_rel o (fst (update_first p (fun e => {| le_pid := le_pid e; le_rc := le_rc e; le_st := st |}) (ob_rel o)))).
Proof.
  intros o p st H. eapply (OInv_states o); try reflexivity; cbn [with_rel ob_ret ob_rel ob_ctl];
    try (apply update_first_map; reflexivity); [|exact H]. left. lia.
Qed.

Lemma fst_let_pair : forall {A B C} (x : A * B) (f : A -> C) , (let '(l, b) := x in (f l, b)) = (f (fst x), snd x).
Proof. intros A B C [a b] f. reflexivity. Qed.

Lemma OInv_set_retained_written : forall o pid w len, OInv o -> OInv (fst (set_retained_written o pid w len)).
Proof. intros. unfold set_retained_written. rewrite fst_let_pair. cbn [fst]. now apply OInv_ret_states. Qed.
Lemma OInv_flush_retained : forall o pid, OInv o -> OInv (fst (flush_retained o pid)).
Proof. intros. unfold flush_retained. rewrite fst_let_pair. cbn [fst]. now apply OInv_ret_states. Qed.
Lemma OInv_set_release_written : forall o pid w len, OInv o -> OInv (fst (set_release_written o pid w len)).
Proof. intros. unfold set_release_written. rewrite fst_let_pair. cbn [fst]. now apply OInv_rel_states. Qed.
Lemma OInv_flush_release : forall o pid, OInv o -> OInv (fst (flush_release o pid)).
Proof. intros. unfold flush_release. rewrite fst_let_pair. cbn [fst]. now apply OInv_rel_states. Qed.

Lemma OInv_queue_control : forall o a o', OInv o -> queue_control o a = Some o' -> OInv o'.
Proof.
  intros o a o' H Q. unfold queue_control in Q. destruct (MAX_PENDING_CONTROL <=? glen (ob_ctl o)) eqn:E; [discriminate|].
  inversion Q; subst. eapply (OInv_states o); try reflexivity; [|exact H]. right.
  cbn [ob_ctl]. rewrite glen_app. cbn [glen]. unfold MAX_PENDING_CONTROL in E. lia.
Qed.

Lemma OInv_mark_dup : forall o, OInv o -> OInv (mark_retained_dup o).
Proof.
  intros o [A R L C N F]. destruct (mark_retained_dup_spec o A) as [M1 [M2 [M3 [M4 [M5 [M6 M7]]]]]].
  constructor; try assumption; unfold ids; rewrite ?M3, ?M4, ?M5; assumption.
Qed.

Lemma OInv_arm_replay : forall o, OInv o -> OInv (arm_replay o).
Proof.
  intros o H. unfold arm_replay. destruct (negb (has_pending_state o)); [exact H|].
  pose proof (OInv_mark_dup o H) as H1. set (o1 := mark_retained_dup o) in *.
  eapply (OInv_states o1); [| | | | | | |exact H1]; cbn [ob_buf ob_used ob_ret ob_rel ob_ctl]; try reflexivity;
    try (rewrite map_map; reflexivity).
  left. rewrite glen_map. lia.
Qed.

(* ---------- operations that change the set of identifiers ---------- *)
Lemma remove_first_ret_ids : forall pid es es', remove_first_ret pid es = Some es' ->
  exists a b, map re_pid es = a ++ pid :: b /\ map re_pid es' = a ++ b.
Proof.
  induction es as [|e t IH]; intros es' H; cbn [remove_first_ret] in H; [discriminate|].
  destruct (N.eqb_spec (re_pid e) pid) as [Heq|Hne].
  - inversion H; subst. exists [], (map re_pid es'). split; reflexivity.
  - destruct (remove_first_ret pid t) as [t'|]; [|discriminate]. inversion H; subst.
    destruct (IH t' eq_refl) as [a [b [H1 H2]]]. exists (re_pid e :: a), b. cbn [map app]. now rewrite H1, H2.
Qed.
Lemma remove_first_rel_ids : forall pid es es', remove_first_rel pid es = Some es' ->
  exists a b, map le_pid es = a ++ pid :: b /\ map le_pid es' = a ++ b.
Proof.
  induction es as [|e t IH]; intros es' H; cbn [remove_first_rel] in H; [discriminate|].
  destruct (N.eqb_spec (le_pid e) pid) as [Heq|Hne].
  - inversion H; subst. exists [], (map le_pid es'). split; reflexivity.
  - destruct (remove_first_rel pid t) as [t'|]; [|discriminate]. inversion H; subst.
    destruct (IH t' eq_refl) as [a [b [H1 H2]]]. exists (le_pid e :: a), b. cbn [map app]. now rewrite H1, H2.
Qed.

Lemma NoDup_remove_mid : forall (a b : list N) x, NoDup (a ++ x :: b) -> NoDup (a ++ b) /\ ~ In x (a ++ b).
Proof. intros. apply NoDup_remove. assumption. Qed.
Lemma Forall_remove_mid : forall (P : N -> Prop) a b x, Forall P (a ++ x :: b) -> Forall P (a ++ b) /\ P x.
Proof.
  intros P a b x H. rewrite Forall_app in H. destruct H as [H1 H2]. inversion H2; subst.
  split; [apply Forall_app; now split | assumption].
Qed.

Lemma OInv_ack_packet : forall o pid, OInv o -> OInv (fst (ack_packet o pid)).
Proof.
  intros o pid H. destruct (ack_packet o pid) as [o' found] eqn:E. cbn [fst].
  destruct H as [A R L C N F].
  destruct (ack_packet_spec o pid o' found A E) as [A' [Hc [Hr [Hl Hf]]]].
  unfold ack_packet in E. destruct (remove_first_ret pid (ob_ret o)) as [es|] eqn:Er.
  - inversion E; subst; clear E.
    destruct (remove_first_ret_ids _ _ _ Er) as [a [b [I1 I2]]].
    set (o1 := {| ob_buf := ob_buf o; ob_used := ob_used o; ob_ctl := ob_ctl o; ob_ret := es; ob_rel := ob_rel o |}) in *.
    assert (W1 : arena_wf o1).
    { destruct A as [W U]. split; [|exact U]. cbn [ob_ret ob_used o1]. eapply remove_first_ret_wf; eassumption. }
    destruct (compact_spec o1 W1) as [_ [_ [_ [_ [_ [_ [C7 _]]]]]]].
    assert (Hids : ids (compact o1) = (a ++ b) ++ map le_pid (ob_rel o)).
    { unfold ids. rewrite C7, Hr. cbn [ob_ret o1]. now rewrite I2. }
    assert (Hold : ids o = (a ++ pid :: b) ++ map le_pid (ob_rel o)) by (unfold ids; now rewrite I1).
    constructor; try assumption.
    + rewrite (glen_of_map_eq re_pid _ _ C7). cbn [ob_ret o1].
      rewrite <- (glen_map re_pid es), I2. rewrite <- (glen_map re_pid (ob_ret o)), I1 in R.
      rewrite !glen_app in *. cbn [glen] in R. lia.
    + now rewrite Hr.
    + now rewrite Hc.
    + rewrite Hids. rewrite Hold in N. rewrite <- !app_assoc in *. cbn [app] in N.
      apply NoDup_remove_mid in N. tauto.
    + rewrite Hids. rewrite Hold in F. rewrite <- !app_assoc in *. cbn [app] in F.
      apply Forall_remove_mid in F. tauto.
  - inversion E; subst. constructor; assumption.
Qed.

Lemma OInv_ack_release : forall o pid, OInv o -> OInv (fst (ack_release o pid)).
Proof.
  intros o pid [A R L C N F]. unfold ack_release.
  destruct (remove_first_rel pid (ob_rel o)) as [es|] eqn:Er; cbn [fst]; [|constructor; assumption].
  destruct (remove_first_rel_ids _ _ _ Er) as [a [b [I1 I2]]].
  constructor; cbn [ob_ret ob_rel ob_ctl]; try assumption.
  - rewrite <- (glen_map le_pid es), I2. rewrite <- (glen_map le_pid (ob_rel o)), I1 in L.
    rewrite !glen_app in *. cbn [glen] in L. lia.
  - unfold ids in *. cbn [ob_ret ob_rel]. rewrite I2. rewrite I1 in N. rewrite app_assoc in *.
    apply NoDup_remove_mid in N. tauto.
  - unfold ids in *. cbn [ob_ret ob_rel]. rewrite I2. rewrite I1 in F. rewrite app_assoc in *.
    apply Forall_remove_mid in F. tauto.
Qed.

Lemma NoDup_snoc : forall (l : list N) x, NoDup l -> ~ In x l -> NoDup (l ++ [x]).
Proof.
  induction l as [|y t IH]; intros x Hn Hx; cbn [app]; [repeat constructor; intros []|].
  inversion Hn; subst. constructor.
  - rewrite in_app_iff. cbn [In]. intros [H|[H|[]]]; [contradiction|]. subst. apply Hx. now left.
  - apply IH; [assumption|]. intros H. apply Hx. now right.
Qed.

Lemma OInv_queue_release : forall o pid rc o', OInv o -> queue_release o pid rc = Some o' ->
  ~ In pid (ids o) -> id_ok pid -> OInv o'.
Proof.
  intros o pid rc o' [A R L C N F] Q Hn Hok. unfold queue_release in Q.
  destruct (MAX_PENDING_RELEASE <=? glen (ob_rel o)) eqn:E; [discriminate|]. inversion Q; subst; clear Q.
  unfold MAX_PENDING_RELEASE in E.
  constructor; cbn [ob_ret ob_rel ob_ctl]; try assumption.
  - rewrite glen_app. cbn [glen]. lia.
  - unfold ids in *. cbn [ob_ret ob_rel]. rewrite map_app, app_assoc. cbn [map le_pid].
    now apply NoDup_snoc.
  - unfold ids in *. cbn [ob_ret ob_rel]. rewrite map_app, app_assoc. apply Forall_app. split; [assumption|].
    cbn [map le_pid]. constructor; [exact Hok | constructor].
Qed.

(* ---------- fresh packet identifiers: the allocator of next_packet_id ---------- *)
Lemma pid_in_use_In : forall o id, pid_in_use o id = true <-> In id (ids o).
Proof.
  intros. unfold pid_in_use, has_retained, has_pending_release, ids.
  rewrite orb_true_iff, !existsb_exists, in_app_iff, !in_map_iff. split.
  - intros [[e [H1 H2]]|[e [H1 H2]]]; [left|right]; exists e; split; try assumption; lia.
  - intros [[e [H1 H2]]|[e [H1 H2]]]; [left|right]; exists e; split; try assumption; lia.
Qed.

Fixpoint cand (k : nat) (cur : N) : N := match k with O => cur | S k' => cand k' (pid_succ cur) end.

Lemma pid_succ_ok : forall x, id_ok x -> id_ok (pid_succ x) /\ pid_succ x = (x mod 65535) + 1.
Proof.
  intros x [H1 H2]. unfold pid_succ, id_ok. destruct (N.eqb_spec x 65535) as [->|Hne].
  - split; [lia|reflexivity].
  - rewrite N.mod_small by lia. lia.
Qed.

Section ModArith.
Local Ltac Zify.zify_post_hook ::= Z.div_mod_to_equations.

Lemma cand_closed : forall k cur, id_ok cur -> id_ok (cand k cur) /\ cand k cur = ((cur - 1 + N.of_nat k) mod 65535) + 1.
Proof.
  induction k as [|k IH]; intros cur H; cbn [cand].
  - unfold id_ok in *. split; lia.
  - destruct (pid_succ_ok cur H) as [Hs He]. destruct (IH _ Hs) as [I1 I2]. split; [exact I1|].
    rewrite I2, He. unfold id_ok in *. lia.
Qed.

Lemma cand_distinct : forall cur k1 k2, id_ok cur -> (k1 < k2)%nat -> (k2 < 100)%nat -> cand k1 cur <> cand k2 cur.
Proof.
  intros cur k1 k2 H L1 L2. destruct (cand_closed k1 cur H) as [_ E1]. destruct (cand_closed k2 cur H) as [_ E2].
  rewrite E1, E2. unfold id_ok in *. lia.
Qed.
End ModArith.

Lemma next_packet_id_go_spec : forall fuel o cur nxt id,
  next_packet_id_go fuel o cur = (nxt, id) -> id_ok cur ->
  id_ok nxt /\
  ((id_ok id /\ pid_in_use o id = false) \/
   (id = 0 /\ forall k, (k < fuel)%nat -> pid_in_use o (cand k cur) = true)).
Proof.
  induction fuel as [|f IH]; intros o cur nxt id H Hc; cbn [next_packet_id_go] in H.
  - injection H as <- <-. split; [exact Hc|]. right. split; [reflexivity|]. intros k Hk. lia.
  - destruct (pid_in_use o cur) eqn:E.
    + destruct (pid_succ_ok cur Hc) as [Hs _]. destruct (IH _ _ _ _ H Hs) as [I1 I2]. split; [exact I1|].
      destruct I2 as [I2|[I2 I3]]; [left; exact I2|]. right. split; [exact I2|].
      intros k Hk. destruct k as [|k]; cbn [cand]; [exact E|]. apply I3. lia.
    + injection H as <- <-. destruct (pid_succ_ok cur Hc) as [Hs _]. split; [exact Hs|]. left. split; assumption.
Qed.

Lemma NoDup_map_inj_in : forall {A B} (f : A -> B) l,
  (forall a b, In a l -> In b l -> f a = f b -> a = b) -> NoDup l -> NoDup (map f l).
Proof.
  intros A B f l. induction l as [|x t IH]; intros Hinj Hn; cbn [map]; [constructor|].
  inversion Hn; subst. constructor.
  - rewrite in_map_iff. intros [y [Hy1 Hy2]]. assert (y = x) by (apply Hinj; [now right|now left|exact Hy1]).
    subst. contradiction.
  - apply IH; [|assumption]. intros a b Ha Hb. apply Hinj; now right.
Qed.

Lemma next_packet_id_fresh : forall s s' id,
  OInv (s_ob s) -> id_ok (s_pid s) -> next_packet_id s = (s', id) ->
  id_ok id /\ ~ In id (ids (s_ob s)) /\ id_ok (s_pid s') /\ s' = set_pid s (s_pid s').
Proof.
  intros s s' id HO Hp H. unfold next_packet_id in H.
  destruct (next_packet_id_go 17 (s_ob s) (s_pid s)) as [nxt i] eqn:E. inversion H; subst; clear H.
  destruct (next_packet_id_go_spec _ _ _ _ _ E Hp) as [Hn [[Hi Hu]|[Hz Hall]]].
  - refine (conj Hi (conj _ (conj Hn eq_refl))). rewrite <- pid_in_use_In. now rewrite Hu.
  - exfalso. (* pigeonhole: 17 distinct identifiers among at most 16 in use *)
    set (cs := map (fun k => cand k (s_pid s)) (seq 0 17)).
    assert (Hnd : NoDup cs).
    { unfold cs. apply NoDup_map_inj_in; [|apply seq_NoDup].
      intros a b Ha Hb Heq. rewrite in_seq in Ha, Hb.
      destruct (Nat.lt_trichotomy a b) as [L|[L|L]]; [|exact L|].
      - exfalso. eapply cand_distinct; [exact Hp|exact L| |exact Heq]. lia.
      - exfalso. eapply cand_distinct; [exact Hp|exact L| |symmetry; exact Heq]. lia. }
    assert (Hinc : incl cs (ids (s_ob s))).
    { intros x Hx. unfold cs in Hx. rewrite in_map_iff in Hx. destruct Hx as [k [Hk1 Hk2]]. rewrite in_seq in Hk2.
      subst x. apply pid_in_use_In. apply Hall. lia. }
    pose proof (NoDup_incl_length Hnd Hinc) as Hlen.
    unfold cs in Hlen. rewrite map_length, seq_length in Hlen.
    destruct HO as [_ R L _ _ _]. unfold ids in Hlen. rewrite app_length, !map_length in Hlen.
    rewrite glen_length in R. rewrite glen_length in L. lia.
Qed.

Lemma NoDup_middle_insert_N : forall (a b : list N) x, NoDup (a ++ b) -> ~ In x (a ++ b) -> NoDup (a ++ x :: b).
Proof.
  induction a as [|y t IH]; intros b x Hn Hx; cbn [app] in *.
  - constructor; assumption.
  - inversion Hn; subst. constructor.
    + rewrite in_app_iff in *. cbn [In]. intros [H|[H|H]]; [apply H1; now left| |apply H1; now right].
      subst. apply Hx. now left.
    + apply IH; [assumption|]. intros H. apply Hx. now right.
Qed.

Lemma abs_pids : forall o, map (fun a : aentry => fst (fst a)) (abs o) = map re_pid (ob_ret o).
Proof. intros. unfold abs. rewrite map_map. reflexivity. Qed.

Lemma OInv_retain : forall o enc o1 off len pid o2,
  OInv o ->
  (forall cap off' bs, enc cap = SOk off' bs -> off' + lenN bs <= cap /\ 2 <= lenN bs) ->
  encode_at o enc = (o1, EOk off len) ->
  retain_packet o1 pid off len = Some o2 ->
  ~ In pid (ids o) -> id_ok pid ->
  OInv o2.
Proof.
  intros o enc o1 off len pid o2 [A R L C N F] Henc He Hr Hn Hok.
  assert (Hlt : glen (ob_ret o) < 8).
  { unfold encode_at in He. destruct (enc _); inversion He; subst.
    unfold retain_packet in Hr. cbn [ob_ret] in Hr.
    destruct (compact_spec o A) as [_ [_ [_ [_ [_ [_ [C7 _]]]]]]].
    rewrite (glen_of_map_eq re_pid _ _ C7) in Hr. unfold MAX_RETAINED in Hr.
    destruct (8 <=? glen (ob_ret o)) eqn:E; [discriminate|]. lia. }
  destruct (encode_retain_spec o enc o1 off len pid o2 A Henc He Hr) as [bs [A2 [Ab [_ [_ [Hc [Hl _]]]]]]].
  assert (Hp : map re_pid (ob_ret o2) = map re_pid (ob_ret o) ++ [pid]).
  { rewrite <- !abs_pids, Ab, map_app. reflexivity. }
  constructor; try assumption.
  - rewrite <- (glen_map re_pid), Hp, glen_app, glen_map. cbn [glen]. lia.
  - now rewrite Hl.
  - now rewrite Hc.
  - unfold ids in *. rewrite Hp, Hl. rewrite <- app_assoc. cbn [app].
    apply NoDup_middle_insert_N; assumption.
  - unfold ids in *. rewrite Hp, Hl. rewrite <- app_assoc. cbn [app].
    rewrite Forall_app in *. destruct F as [F1 F2]. split; [assumption|]. constructor; assumption.
Qed.

Lemma ack_packet_found : forall o pid o', OInv o -> ack_packet o pid = (o', true) ->
  OInv o' /\ ~ In pid (ids o') /\ id_ok pid.
Proof.
  intros o pid o' H E. pose proof (OInv_ack_packet o pid H) as HO. rewrite E in HO. cbn [fst] in HO.
  split; [exact HO|]. destruct H as [A R L C N F].
  destruct (ack_packet_spec o pid o' true A E) as [_ [_ [Hr _]]].
  unfold ack_packet in E. destruct (remove_first_ret pid (ob_ret o)) as [es|] eqn:Er; [|discriminate].
  inversion E; subst; clear E.
  destruct (remove_first_ret_ids _ _ _ Er) as [a [b [I1 I2]]].
  set (o1 := {| ob_buf := ob_buf o; ob_used := ob_used o; ob_ctl := ob_ctl o; ob_ret := es; ob_rel := ob_rel o |}) in *.
  assert (W1 : arena_wf o1).
  { destruct A as [W U]. split; [|exact U]. cbn [ob_ret ob_used o1]. eapply remove_first_ret_wf; eassumption. }
  destruct (compact_spec o1 W1) as [_ [_ [_ [_ [_ [_ [C7 _]]]]]]].
  assert (Hids : ids (compact o1) = (a ++ b) ++ map le_pid (ob_rel o)).
  { unfold ids. rewrite C7, Hr. cbn [ob_ret o1]. now rewrite I2. }
  assert (Hold : ids o = (a ++ pid :: b) ++ map le_pid (ob_rel o)) by (unfold ids; now rewrite I1).
  rewrite Hids. rewrite Hold in N, F. rewrite <- !app_assoc in *. cbn [app] in N, F.
  apply NoDup_remove_mid in N. apply Forall_remove_mid in F. tauto.
Qed.

Record Inv (s : session) : Prop := {
  inv_ob : OInv (s_ob s);
  inv_srv : glen (s_srv s) <= 8;
  inv_pid : id_ok (s_pid s) }.

Lemma Inv_init : forall c, Inv (session_new c).
Proof. intros. constructor; cbn [session_new s_ob s_srv s_pid glen]; [apply OInv_new | lia | unfold id_ok; lia]. Qed.

Lemma Inv_ob : forall s o, Inv s -> OInv o -> Inv (set_ob s o).
Proof. intros s o [H1 H2 H3] H. constructor; cbn [set_ob s_ob s_srv s_pid]; assumption. Qed.
Lemma Inv_rt : forall s r, Inv s -> Inv (set_rt s r).
Proof. intros s r [H1 H2 H3]. constructor; cbn [set_rt s_ob s_srv s_pid]; assumption. Qed.
Lemma Inv_reader : forall s r, Inv s -> Inv (set_reader s r).
Proof. intros s r [H1 H2 H3]. constructor; cbn [set_reader s_ob s_srv s_pid]; assumption. Qed.
Lemma Inv_srv : forall s l, Inv s -> glen l <= 8 -> Inv (set_srv s l).
Proof. intros s l [H1 H2 H3] H. constructor; cbn [set_srv s_ob s_srv s_pid]; assumption. Qed.
Lemma Inv_pid : forall s p, Inv s -> id_ok p -> Inv (set_pid s p).
Proof. intros s p [H1 H2 H3] H. constructor; cbn [set_pid s_ob s_srv s_pid]; assumption. Qed.

Lemma Inv_hd : forall s, Inv s -> Inv (sess_handle_disconnect s).
Proof.
  intros s H. unfold sess_handle_disconnect. apply Inv_reader, Inv_rt, Inv_ob; [exact H|].
  apply OInv_arm_replay. apply H.
Qed.

Lemma Inv_queue_ctl_checked : forall s a d, Inv s -> Inv (fst (queue_ctl_checked s a d)).
Proof.
  intros s a d H. unfold queue_ctl_checked. destruct (check_control_size _ _); [exact H|].
  destruct (queue_control (s_ob s) a) as [o|] eqn:E; cbn [fst]; [|exact H].
  apply Inv_ob; [exact H|]. eapply OInv_queue_control; [apply H|exact E].
Qed.

Lemma swap_remove_id_glen : forall id l l', swap_remove_id id l = Some l' -> glen l' <= glen l.
Proof.
  induction l as [|x t IH]; intros l' H; cbn [swap_remove_id] in H; [discriminate|].
  destruct (N.eqb x id).
  - destruct (rev t) as [|lst rinit] eqn:E.
    + inversion H; subst. cbn [glen]. lia.
    + inversion H; subst. cbn [glen]. rewrite !glen_length, rev_length.
      assert (length t = length (lst :: rinit)) by (rewrite <- E, rev_length; reflexivity).
      cbn [length] in *. lia.
  - destruct (swap_remove_id id t) as [t'|]; [|discriminate]. inversion H; subst. cbn [glen].
    specialize (IH t' eq_refl). lia.
Qed.

Lemma Inv_handle_packet : forall s p, Inv s -> Inv (fst (handle_packet s p)).
Proof.
  intros s p H. destruct p; cbn [handle_packet].
  - exact H.
  - (* PUBLISH *)
    destruct q.
    + exact H.
    + destruct pid; [|exact H]. apply Inv_queue_ctl_checked. exact H.
    + destruct pid as [id|]; [|exact H].
      match goal with |- context [queue_ctl_checked s ?a ?dl] =>
        pose proof (Inv_queue_ctl_checked s a dl H) as Hq; destruct (queue_ctl_checked s a dl) as [s1 hr] end.
      cbn [fst] in Hq |- *. destruct hr as [b|e]; [|exact Hq].
      destruct (mem_id id (s_srv s)); cbn [orb]; [exact Hq|].
      destruct (MAX_INBOUND_QOS2 <=? glen (s_srv s)) eqn:E; [exact Hq|].
      apply Inv_srv; [exact Hq|]. rewrite glen_app. cbn [glen]. unfold MAX_INBOUND_QOS2 in E. lia.
  - (* PUBACK *)
    destruct (ack_packet (s_ob s) pid) as [o found] eqn:E.
    pose proof (OInv_ack_packet (s_ob s) pid (inv_ob _ H)) as HO. rewrite E in HO. cbn [fst] in HO.
    destruct found; cbn [negb]; [|exact H].
    destruct (rc_success rc); cbn [fst]; apply Inv_rt, Inv_ob; assumption.
  - (* PUBREC *)
    destruct (ack_packet (s_ob s) pid) as [o found] eqn:E.
    destruct found.
    + destruct (ack_packet_found _ _ _ (inv_ob _ H) E) as [HO [Hn Hok]].
      destruct (negb (rc_success rc)); cbn [fst]; [apply Inv_rt, Inv_ob; assumption|].
      destruct (check_pubrel_size _ _ _); cbn [fst]; [apply Inv_ob; assumption|].
      cbn [set_ob s_ob]. destruct (queue_release o pid 0) as [o2|] eqn:Q; cbn [fst]; [|apply Inv_ob; assumption].
      apply Inv_ob; [apply Inv_ob; assumption|]. eapply OInv_queue_release; eassumption.
    + destruct (has_pending_release _ _); [destruct (rc_success rc)|]; exact H.
  - (* PUBREL *)
    destruct (swap_remove_id pid (s_srv s)) as [l|] eqn:E; apply Inv_queue_ctl_checked; [|exact H].
    apply Inv_srv; [exact H|]. pose proof (swap_remove_id_glen _ _ _ E). pose proof (inv_srv _ H). lia.
  - (* PUBCOMP *)
    destruct (ack_release (s_ob s) pid) as [o found] eqn:E.
    pose proof (OInv_ack_release (s_ob s) pid (inv_ob _ H)) as HO. rewrite E in HO. cbn [fst] in HO.
    destruct found; cbn [negb]; [|exact H].
    destruct (rc_success rc); cbn [fst]; apply Inv_rt, Inv_ob; assumption.
  - (* SUBACK *)
    destruct (ack_packet (s_ob s) pid) as [o found] eqn:E.
    pose proof (OInv_ack_packet (s_ob s) pid (inv_ob _ H)) as HO. rewrite E in HO. cbn [fst] in HO.
    destruct found; cbn [negb]; [|exact H].
    destruct (all_success codes); cbn [fst]; apply Inv_ob; assumption.
  - (* UNSUBACK *)
    destruct (ack_packet (s_ob s) pid) as [o found] eqn:E.
    pose proof (OInv_ack_packet (s_ob s) pid (inv_ob _ H)) as HO. rewrite E in HO. cbn [fst] in HO.
    destruct found; cbn [negb]; [|exact H].
    destruct (all_success codes); cbn [fst]; apply Inv_ob; assumption.
  - exact H.
  - apply Inv_rt. exact H.
Qed.

Lemma enc_publish_fits : forall r cap off bs, enc_publish cap r = SOk off bs -> off + lenN bs <= cap /\ 2 <= lenN bs.
Proof. intros r cap off bs H. apply encode_chunks_payload_spec in H. tauto. Qed.
Lemma enc_subscribe_fits : forall r cap off bs, enc_subscribe cap r = SOk off bs -> off + lenN bs <= cap /\ 2 <= lenN bs.
Proof. intros r cap off bs H. apply encode_chunks_spec in H. tauto. Qed.
Lemma enc_unsubscribe_fits : forall r cap off bs, enc_unsubscribe cap r = SOk off bs -> off + lenN bs <= cap /\ 2 <= lenN bs.
Proof. intros r cap off bs H. apply encode_chunks_spec in H. tauto. Qed.

Lemma encode_at_OInv : forall o enc, OInv o -> OInv (fst (encode_at o enc)) /\ ids (fst (encode_at o enc)) = ids o.
Proof.
  intros o enc H. pose proof (OInv_compact o H) as Hc. unfold encode_at.
  destruct (compact_spec o (oi_arena _ H)) as [_ [_ [_ [_ [_ [C6 [C7 _]]]]]]].
  assert (Hids : ids (compact o) = ids o) by (unfold ids; now rewrite C7, C6).
  destruct (enc _) as [off bs|e] eqn:E; cbn [fst]; [|split; assumption].
  (* the bytes written lie behind `used`: geometry and identifiers are those of the compacted arena; the
     full statement about the new entry is encode_retain_spec — here only the weaker frame fact is needed
     for the error paths after a successful encode (PacketTooLarge, retained list full) *)
  split; [|exact Hids].
  destruct Hc as [[W U] R L C N F].
  constructor; cbn [ob_ret ob_rel ob_ctl ob_used ob_buf]; try assumption.
  split; cbn [ob_ret ob_used ob_buf]; [exact W|].
  destruct (N.leb_spec (ob_used (compact o) + off + lenN bs) (lenN (ob_buf (compact o)))).
  - rewrite lenN_overwrite by lia. exact U.
  - unfold overwrite. rewrite !lenN_app, lenN_takeN, lenN_dropN. lia.
Qed.

Lemma Inv_enqueue_middle : forall s kind enc,
  (forall id cap off bs, enc cap id = SOk off bs -> off + lenN bs <= cap /\ 2 <= lenN bs) ->
  Inv s -> Inv (fst (enqueue_middle s kind enc)).
Proof.
  intros s kind enc Henc H. unfold enqueue_middle. destruct (retained_full _); [exact H|].
  destruct (next_packet_id s) as [s1 id] eqn:En.
  destruct (next_packet_id_fresh s s1 id (inv_ob _ H) (inv_pid _ H) En) as [Hok [Hn [Hp Hs1]]].
  assert (H1 : Inv s1) by (rewrite Hs1; apply Inv_pid; assumption).
  assert (Hob : s_ob s1 = s_ob s) by (rewrite Hs1; reflexivity).
  destruct (encode_at (s_ob s1) (fun cap => enc cap id)) as [o1 er] eqn:Ee.
  pose proof (encode_at_OInv (s_ob s1) (fun cap => enc cap id) (inv_ob _ H1)) as [HO1 Hids]. rewrite Ee in HO1, Hids.
  cbn [fst] in HO1, Hids.
  destruct er as [off len|e]; cbn [fst]; [|apply Inv_ob; assumption].
  destruct (too_large _ _); cbn [fst]; [apply Inv_ob; assumption|].
  destruct (retain_packet o1 id off len) as [o2|] eqn:Er; cbn [fst]; [|apply Inv_ob; assumption].
  apply Inv_ob; [apply Inv_ob; assumption|].
  eapply (OInv_retain (s_ob s1)); [apply H1| |exact Ee|exact Er| |exact Hok].
  - intros cap off' bs Hx. eapply Henc. exact Hx.
  - rewrite Hob. exact Hn.
Qed.

Lemma Inv_publish_middle : forall s live r, Inv s -> Inv (fst (publish_middle s live r)).
Proof.
  intros s live r H. unfold publish_middle. destruct (negb (props_valid_for _ _)); [exact H|].
  destruct (effective_qos s (pr_qos r)) eqn:Eq.
  - destruct (negb _); [exact H|].
    assert (Hc : Inv (set_ob s (compact (s_ob s)))) by (apply Inv_ob; [exact H | apply OInv_compact; apply H]).
    destruct (enc_publish _ _); cbn [fst]; [|exact Hc].
    destruct (too_large _ _); cbn [fst]; [exact Hc|]. destruct (negb live); exact Hc.
  - destruct (next_packet_id s) as [s1 id] eqn:En.
    destruct (next_packet_id_fresh s s1 id (inv_ob _ H) (inv_pid _ H) En) as [Hok [Hn [Hp Hs1]]].
    assert (H1 : Inv s1) by (rewrite Hs1; apply Inv_pid; assumption).
    assert (Hob : s_ob s1 = s_ob s) by (rewrite Hs1; reflexivity).
    destruct (retained_full _); [exact H1|]. destruct (negb _); [exact H1|].
    match goal with |- context [encode_at (s_ob s1) ?f] => set (enc := f) end.
    destruct (encode_at (s_ob s1) enc) as [o1 er] eqn:Ee.
    pose proof (encode_at_OInv (s_ob s1) enc (inv_ob _ H1)) as [HO1 Hids]. rewrite Ee in HO1, Hids.
    cbn [fst] in HO1, Hids.
    destruct er as [off len|e]; cbn [fst]; [|apply Inv_ob; assumption].
    destruct (too_large _ _); cbn [fst]; [apply Inv_ob; assumption|].
    destruct (retain_packet o1 id off len) as [o2|] eqn:Er; cbn [fst]; [|apply Inv_ob; assumption].
    apply Inv_rt, Inv_ob; [apply Inv_ob; assumption|].
    eapply (OInv_retain (s_ob s1)); [apply H1| |exact Ee|exact Er| |exact Hok].
    + intros cap off' bs Hx. eapply enc_publish_fits. exact Hx.
    + rewrite Hob. exact Hn.
  - destruct (next_packet_id s) as [s1 id] eqn:En.
    destruct (next_packet_id_fresh s s1 id (inv_ob _ H) (inv_pid _ H) En) as [Hok [Hn [Hp Hs1]]].
    assert (H1 : Inv s1) by (rewrite Hs1; apply Inv_pid; assumption).
    assert (Hob : s_ob s1 = s_ob s) by (rewrite Hs1; reflexivity).
    destruct (retained_full _); [exact H1|]. destruct (negb _); [exact H1|].
    match goal with |- context [encode_at (s_ob s1) ?f] => set (enc := f) end.
    destruct (encode_at (s_ob s1) enc) as [o1 er] eqn:Ee.
    pose proof (encode_at_OInv (s_ob s1) enc (inv_ob _ H1)) as [HO1 Hids]. rewrite Ee in HO1, Hids.
    cbn [fst] in HO1, Hids.
    destruct er as [off len|e]; cbn [fst]; [|apply Inv_ob; assumption].
    destruct (too_large _ _); cbn [fst]; [apply Inv_ob; assumption|].
    destruct (retain_packet o1 id off len) as [o2|] eqn:Er; cbn [fst]; [|apply Inv_ob; assumption].
    apply Inv_rt, Inv_ob; [apply Inv_ob; assumption|].
    eapply (OInv_retain (s_ob s1)); [apply H1| |exact Ee|exact Er| |exact Hok].
    + intros cap off' bs Hx. eapply enc_publish_fits. exact Hx.
    + rewrite Hob. exact Hn.
Qed.

Lemma Inv_set_written : forall s p w len, Inv s -> Inv (fst (set_written s p w len)).
Proof.
  intros s p w len H. unfold set_written. destruct p as [a|pid|pid].
  - pose proof (OInv_set_control_written (s_ob s) a w len (inv_ob _ H)) as HO.
    destruct (set_control_written _ _ _ _). cbn [fst] in *. now apply Inv_ob.
  - pose proof (OInv_set_release_written (s_ob s) pid w len (inv_ob _ H)) as HO.
    destruct (set_release_written _ _ _ _). cbn [fst] in *. now apply Inv_ob.
  - pose proof (OInv_set_retained_written (s_ob s) pid w len (inv_ob _ H)) as HO.
    destruct (set_retained_written _ _ _ _). cbn [fst] in *. now apply Inv_ob.
Qed.

Lemma Inv_complete_flush : forall s p now, Inv s -> Inv (fst (complete_flush s p now)).
Proof.
  intros s p now H. unfold complete_flush. destruct p as [a|pid|pid].
  - pose proof (OInv_flush_control (s_ob s) a (inv_ob _ H)) as HO.
    destruct (flush_control _ _). cbn [fst] in *. apply Inv_rt. now apply Inv_ob.
  - pose proof (OInv_flush_release (s_ob s) pid (inv_ob _ H)) as HO.
    destruct (flush_release _ _). cbn [fst] in *. apply Inv_rt. now apply Inv_ob.
  - pose proof (OInv_flush_retained (s_ob s) pid (inv_ob _ H)) as HO.
    destruct (flush_retained _ _). cbn [fst] in *. apply Inv_rt. now apply Inv_ob.
Qed.

Lemma Inv_ping : forall s now, Inv s -> Inv (fst (maybe_queue_pingreq s now)).
Proof.
  intros s now H. unfold maybe_queue_pingreq. destruct (should_queue_pingreq _ _); [|exact H].
  destruct (check_control_size _ _); [exact H|].
  destruct (queue_control (s_ob s) CPing) as [o|] eqn:E; cbn [fst]; [|exact H].
  apply Inv_ob; [exact H|]. eapply OInv_queue_control; [apply H|exact E].
Qed.

Lemma Inv_data_reset : forall s, Inv s -> Inv (data_reset s).
Proof.
  intros s H. constructor; cbn [data_reset s_ob s_srv s_pid glen]; [|lia|unfold id_ok; lia].
  apply OInv_clear. apply H.
Qed.

Lemma Inv_connack : forall s p now, Inv s -> Inv (fst (connack_process s p now)).
Proof.
  intros s p now H. unfold connack_process. destruct p as [p|]; [|exact H].
  destruct p; try exact H.
  destruct (negb (rc_success rc)); [exact H|].
  destruct (connack_props _ _ _) as [a|]; cbn [fst]; [|exact H].
  assert (H1 : Inv (if sp then s else data_reset s)) by (destruct sp; [exact H | now apply Inv_data_reset]).
  destruct H1 as [A B C]. constructor; cbn [s_ob s_srv s_pid]; assumption.
Qed.
