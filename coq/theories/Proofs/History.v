(* History.v — C16 for histories of any length: on a healthy connection without keep-alive, answered by the broker, the state
   "idle" (nothing queued, nothing in the reader, nothing in flight between client and broker) is re-established by every
   complete exchange.  Hence every history of QoS 1 publishes, each followed by one poll(), completes every one of them. *)
From Coq Require Import List NArith Lia Bool PeanoNat.
From Coq Require Import ZifyBool ZifyN ZifyNat.
From Minimq Require Import Bytes Varint Utf8 Props Ser De Reader Spec Arena Core Show Machine Parse Run Util Lts Refine
  VarintProofs SerLemmas CodecProofs BrokerProofs ArenaLemmas ArenaOps Inv Quota Status Persist Frames Limits Reach WireInv Chunking Wire Measure
  Terminate KeepAlive ConnectOk PingQuiet Healthy Owed Sends Pings Framing Liveness PingAt PollReads Exchange Exchange3.
Import ListNotations.
Local Open Scope N_scope.
Local Opaque u16_be.

(* ---------------------------------------------------------------- poll() on an arrived packet: everything it leaves behind *)
(* Liveness.poll_handles_arrived, also accounting for the script, the wire and the broker's side *)
Theorem poll_handles_arrived_full : forall w h rl body t p s4,
  varint_write (lenN body) = Some rl ->
  let pkt := h :: rl ++ body in
  lenN pkt <= rcap (rd w) -> lenN pkt <= 29000 ->
  w_live w = true -> rdata (rd w) = [] -> rplen (rd w) = None ->
  next_step (s_ob (w_sess w)) = None ->
  rt_next_ping (s_rt (w_sess w)) = None -> rt_ping_timeout (s_rt (w_sess w)) = None ->
  w_script w = [] -> w_inq w = [(t, pkt)] -> t <= w_now w ->
  from_buffer pkt = Some p ->
  handle_packet (set_reader (w_sess w) (reader_reset (rd w))) p = (s4, HOk false) ->
  next_step (s_ob s4) = None ->
  exists w', op_poll FUEL w = (w', ODone None) /\
    w_sess w' = s4 /\ w_live w' = true /\ w_inq w' = [] /\ w_now w' = w_now w /\
    w_script w' = [] /\ w_wire w' = w_wire w /\ bt w' = bt w.
Proof.
  intros w h rl body t p s4 Hrl pkt Hcap H29 Hl Hd Hpl Hn Hnp Hpt Hs Hi Ht Hdec Hh Hdr.
  destruct FUEL_big as [f Hf]. assert (Hfu : N.of_nat FUEL = 30000) by reflexivity.
  unfold op_poll. rewrite Hf.
  assert (Hto : ping_timed_out (w_sess w) (w_now w) = false) by (unfold ping_timed_out; rewrite Hpt; reflexivity).
  assert (Hq : PQ w) by (split; [unfold should_queue_pingreq; rewrite Hpt, Hnp; reflexivity|apply calm_nil; exact Hs]).
  destruct (wait_reads_arrived_packet_gen (S (S (S (S f)))) w h rl body t Hrl) as [w3 [E3 [D3 [P3 [K3 [S3 [Q3 [C3 [N3 [L3 [W3 B3]]]]]]]]]]];
    try assumption; fold pkt; try (unfold BIG; lia); try (rewrite Hf in Hfu; lia).
  fold pkt in D3, P3. rewrite E3. clear E3.
  rewrite wait_unfold. unfold drive_packet. rewrite L3. cbn [negb]. rewrite drive_loop_unfold.
  assert (Ha3 : packet_available (rd w3) = true).
  { unfold packet_available. rewrite P3. unfold read_bytes. rewrite D3. apply N.leb_le. lia. }
  unfold process_received at 1. fold (rd w3). rewrite Ha3. cbn [negb]. unfold take_packet. rewrite P3, D3.
  rewrite (takeN_all pkt (lenN pkt)) by lia. rewrite Hdec.
  assert (Es3 : set_reader (w_sess w3) (reader_reset (rd w3)) = set_reader (w_sess w) (reader_reset (rd w))).
  { rewrite S3. unfold reader_reset. rewrite K3. destruct (w_sess w); reflexivity. }
  rewrite Es3, Hh.
  match goal with |- context [drive_loop ?fu true ?x] => set (w4 := x) end.
  assert (S4 : w_sess w4 = s4) by reflexivity.
  assert (L4 : w_live w4 = true) by (unfold w4; cbn [w_live upd_drained upd_envok upd_sess]; exact L3).
  assert (N4 : w_now w4 = w_now w) by (unfold w4; cbn [w_now upd_drained upd_envok upd_sess]; exact N3).
  pose proof (handle_packet_reader (set_reader (w_sess w) (reader_reset (rd w))) p) as Hr4. rewrite Hh in Hr4. cbn [fst set_reader s_reader] in Hr4.
  pose proof (handle_packet_pt_none (set_reader (w_sess w) (reader_reset (rd w))) p Hpt) as Pt4. rewrite Hh in Pt4. cbn [fst] in Pt4.
  pose proof (KeepAlive.tframe_handle_packet (set_reader (w_sess w) (reader_reset (rd w))) p) as [_ Np4]. rewrite Hh in Np4. cbn [fst set_reader s_rt] in Np4.
  rewrite drive_loop_unfold. unfold process_received. rewrite S4.
  assert (Na4 : packet_available (s_reader s4) = false) by (rewrite Hr4; reflexivity). rewrite Na4. cbn [negb].
  unfold service, ping_timed_out. rewrite S4, Pt4. unfold maybe_queue_pingreq, should_queue_pingreq. rewrite Pt4, Np4, N4, Hnp.
  cbn [andb]. rewrite <- S4, upd_sess_same, S4, Hdr. cbn [orb]. rewrite S4, Hdr.
  eexists. split; [reflexivity|]. split; [exact S4|]. split; [exact L4|].
  split; [unfold w4; cbn [w_inq upd_drained upd_envok upd_sess]; exact Q3|]. split; [exact N4|].
  split; [unfold w4; cbn [w_script upd_drained upd_envok upd_sess]; exact C3|].
  split; [unfold w4; cbn [w_wire upd_drained upd_envok upd_sess]; exact W3|].
  unfold w4, bt. cbn [w_broker w_txbuf w_last_arrival upd_drained upd_envok upd_sess]. exact B3.
Qed.

(* ---------------------------------------------------------------- idle: the state between two exchanges *)
Definition Idle (w : world) : Prop :=
  Hc w /\
  ob_ctl (s_ob (w_sess w)) = [] /\ ob_rel (s_ob (w_sess w)) = [] /\ ob_ret (s_ob (w_sess w)) = [] /\
  rt_ka_ms (s_rt (w_sess w)) = 0 /\ rt_next_ping (s_rt (w_sess w)) = None /\ rt_ping_timeout (s_rt (w_sess w)) = None /\
  w_broker w = 1 /\ w_txbuf w = [] /\ w_inq w = [] /\ w_last_arrival w <= w_now w /\
  rdata (rd w) = [] /\ rplen (rd w) = None /\ 6 <= rcap (rd w).

(* the PUBACK of the only packet in flight *)
Lemma handle_puback_single : forall s e pid, ob_ret (s_ob s) = [sent_entry e] -> re_pid e = pid ->
  handle_packet s (RPubAck pid 0) =
    (set_rt (set_ob s (compact {| ob_buf := ob_buf (s_ob s); ob_used := ob_used (s_ob s); ob_ctl := ob_ctl (s_ob s); ob_ret := []; ob_rel := ob_rel (s_ob s) |}))
            (quota_inc (s_rt s)), HOk false).
Proof.
  intros s e pid Er Epid. cbn [handle_packet]. unfold ack_packet. rewrite Er.
  cbn [remove_first_ret sent_entry re_pid]. rewrite Epid, N.eqb_refl. cbn [negb]. reflexivity.
Qed.

(* what poll() leaves when the answer to the single packet in flight empties the retained list: idle again *)
Lemma idle_after_ack : forall w1 w2 s4 e now0,
  Hc w1 -> ob_ctl (s_ob (w_sess w1)) = [] -> ob_rel (s_ob (w_sess w1)) = [] -> ob_ret (s_ob (w_sess w1)) = [sent_entry e] ->
  rt_ka_ms (s_rt (w_sess w1)) = 0 -> rt_next_ping (s_rt (w_sess w1)) = None -> rt_ping_timeout (s_rt (w_sess w1)) = None ->
  w_broker w1 = 1 -> w_txbuf w1 = [] -> w_last_arrival w1 = now0 -> now0 <= w_now w1 ->
  6 <= rcap (rd w1) ->
  forall p,
  sstep (set_reader (w_sess w1) (reader_reset (rd w1))) (LPacket (ack_type_ok (set_reader (w_sess w1) (reader_reset (rd w1))) p)) s4 ->
  s_reader s4 = reader_reset (rd w1) ->
  s_ob s4 = compact {| ob_buf := ob_buf (s_ob (w_sess w1)); ob_used := ob_used (s_ob (w_sess w1)); ob_ctl := []; ob_ret := []; ob_rel := [] |} ->
  rt_mps (s_rt s4) = None -> rt_ka_ms (s_rt s4) = 0 -> rt_next_ping (s_rt s4) = None -> rt_ping_timeout (s_rt s4) = None ->
  w_sess w2 = s4 -> w_live w2 = true -> w_inq w2 = [] -> w_now w2 = w_now w1 -> w_script w2 = [] -> bt w2 = bt w1 ->
  Idle w2.
Proof.
  intros w1 w2 s4 e now0 Hc1 Ec El Er Hka Hnp Hpt Hbr Htx Hla Hle Hcap p Hstep Hrd Hob Hmps Hka4 Hnp4 Hpt4 S2 L2 Q2 N2 C2 B2.
  pose proof Hc1 as [_ [_ [I1 [_ [_ [HB _]]]]]].
  assert (I4 : WInv s4).
  { eapply WInv_step; [exact Hstep|]. eapply WInv_step; [apply SS_reader|exact I1]. }
  unfold bt in B2. injection B2 as Bb Bt Bl.
  unfold Idle, Hc, rd. rewrite S2.
  assert (Eo : s_ob s4 = {| ob_buf := ob_buf (s_ob (w_sess w1)); ob_used := 0; ob_ctl := []; ob_ret := []; ob_rel := [] |}) by (rewrite Hob; reflexivity).
  rewrite Eo. cbn [ob_ctl ob_rel ob_ret ob_buf].
  split.
  { split; [exact C2|]. split; [exact L2|]. split; [exact I4|]. split; [exact Hmps|].
    split; [intros d E; rewrite Hpt4 in E; discriminate E|]. split; [exact HB|].
    unfold Fr. cbn [ob_ctl ob_rel ob_ret]. repeat split; constructor. }
  repeat split; try reflexivity; try assumption.
  - rewrite Bb. exact Hbr.
  - rewrite Bt. exact Htx.
  - rewrite Bl, N2, Hla. exact Hle.
  - rewrite Hrd. reflexivity.
  - rewrite Hrd. reflexivity.
  - rewrite Hrd. unfold reader_reset. cbn [rcap]. exact Hcap.
Qed.

(* ---------------------------------------------------------------- what an accepted QoS>0 publish does to the window *)
Lemma publish_middle_retained_rt : forall s r s2 op,
  publish_middle s true r = (s2, MRetained op) ->
  s_rt s2 = rt_with_quota (s_rt s) (rt_quota (s_rt s) - 1) /\ rt_quota (s_rt s) <> 0 /\ (Inv s -> op_pid op < 65536).
Proof.
  intros s r s2 op H. unfold publish_middle in H.
  destruct (negb (props_valid_for (pr_props r) CtxPublish)); [discriminate|].
  set (q := effective_qos s (pr_qos r)) in *.
  assert (Hq : forall s1 id, next_packet_id s = (s1, id) ->
    (if retained_full (s_ob s1) then (s1, MErr EInflightExhausted) else
     if negb (true && sess_can_publish s1 q) then (s1, MErr ENotReady) else
     let req := {| pq_topic := pr_topic r; pq_pid := Some id; pq_props := pr_props r; pq_retain := pr_retain r;
                   pq_qos := q; pq_dup := false; pq_payload := pr_payload r |} in
     let '(o1, er) := encode_at (s_ob s1) (fun cap => enc_publish cap req) in
     let s2 := set_ob s1 o1 in
     match er with
     | EErr e => (s2, MErr (err_of_serr e))
     | EOk off len =>
         if too_large (rt_mps (s_rt s2)) len then (s2, MErr EPacketTooLarge) else
         match retain_packet o1 id off len with
         | None => (s2, MErr EInflightExhausted)
         | Some o2 =>
             let s3 := set_rt (set_ob s2 o2) (rt_with_quota (s_rt s2) (rt_quota (s_rt s2) - 1)) in
             (s3, MRetained {| op_kind := match q with Q2 => 1 | _ => 0 end; op_pid := id; op_gen := s_gen s3 |})
         end
     end) = (s2, MRetained op) -> q <> Q0 ->
    s_rt s2 = rt_with_quota (s_rt s) (rt_quota (s_rt s) - 1) /\ rt_quota (s_rt s) <> 0 /\ (Inv s -> op_pid op < 65536)).
  { intros s1 id En G Hq0. pose proof (next_packet_id_ob s) as [Eo Er]. rewrite En in Eo, Er. cbn [fst] in Eo, Er.
    destruct (retained_full (s_ob s1)); [discriminate|].
    destruct (negb (true && sess_can_publish s1 q)) eqn:Ecp; [discriminate|].
    cbv zeta in G. destruct (encode_at (s_ob s1) _) as [o1 er]. destruct er as [off len|e]; [|discriminate].
    destruct (too_large _ _); [discriminate|]. destruct (retain_packet o1 id off len) as [o2|]; [|discriminate].
    inversion G; subst s2 op. clear G. cbn [op_pid s_rt set_rt set_ob]. rewrite Er.
    split; [reflexivity|]. split.
    - apply negb_false_iff in Ecp. cbn [andb] in Ecp. unfold sess_can_publish in Ecp. rewrite Er in Ecp.
      destruct q; [contradiction|apply andb_prop in Ecp; destruct Ecp as [Ecp _]; apply negb_true_iff in Ecp; apply N.eqb_neq; exact Ecp
                  |apply andb_prop in Ecp; destruct Ecp as [Ecp _]; apply negb_true_iff in Ecp; apply N.eqb_neq; exact Ecp].
    - intros I. destruct (next_packet_id_fresh s s1 id (inv_ob _ I) (inv_pid _ I) En) as [[_ Hid] _]. lia. }
  destruct q eqn:Eq.
  - destruct (negb (true && sess_can_publish s Q0)); [discriminate|].
    match type of H with context [enc_publish ?c ?x] => destruct (enc_publish c x) end; [|discriminate].
    destruct (too_large _ _); [discriminate|]. discriminate.
  - destruct (next_packet_id s) as [s1 id] eqn:En. apply (Hq s1 id eq_refl H). discriminate.
  - destruct (next_packet_id s) as [s1 id] eqn:En. apply (Hq s1 id eq_refl H). discriminate.
Qed.

(* ---------------------------------------------------------------- an idle session accepts every publish that fits *)
Lemma publish_accepted_idle : forall s r q,
  ob_ret (s_ob s) = [] -> rt_mps (s_rt s) = None -> rt_quota (s_rt s) <> 0 -> 5 <= ob_cap (s_ob s) ->
  props_valid_for (pr_props r) CtxPublish = true -> effective_qos s (pr_qos r) = q -> q <> Q0 ->
  (forall id, exists off bs, enc_publish (ob_cap (s_ob s)) (pub_request r q id) = SOk off bs) ->
  exists s2 op, publish_middle s true r = (s2, MRetained op).
Proof.
  intros s r q Hret Hmps Hquota Hcap Hvalid Hq Hq0 Henc.
  unfold publish_middle. rewrite Hvalid. cbn [negb]. rewrite Hq.
  destruct (next_packet_id s) as [s1 id] eqn:En.
  pose proof (next_packet_id_ob s) as [Eo Er]. rewrite En in Eo, Er. cbn [fst] in Eo, Er.
  assert (Hfull : retained_full (s_ob s1) = false) by (unfold retained_full; rewrite Eo, Hret; reflexivity).
  assert (Hcan : sess_can_publish s1 q = true).
  { unfold sess_can_publish. rewrite Er, Eo. unfold can_retain, scratch_len, used_after_compact. rewrite Hret. cbn [map sumN].
    rewrite N.sub_0_r. apply N.eqb_neq in Hquota. rewrite Hquota. cbn [negb andb].
    change (glen [] <? MAX_RETAINED) with true. cbn [andb]. unfold MAX_FIXED_HEADER_SIZE.
    destruct q; [contradiction| |]; apply N.leb_le; exact Hcap. }
  assert (Hcompact : compact (s_ob s1) = {| ob_buf := ob_buf (s_ob s); ob_used := 0; ob_ctl := ob_ctl (s_ob s); ob_ret := []; ob_rel := ob_rel (s_ob s) |}).
  { rewrite Eo. unfold compact. rewrite Hret. reflexivity. }
  destruct (Henc id) as [off [bs Hb]].
  assert (Hen : encode_at (s_ob s1) (fun cap => enc_publish cap (pub_request r q id)) =
                ({| ob_buf := overwrite (ob_buf (s_ob s)) (0 + off) bs; ob_used := 0; ob_ctl := ob_ctl (s_ob s); ob_ret := []; ob_rel := ob_rel (s_ob s) |},
                 EOk (0 + off) (lenN bs))).
  { unfold encode_at. rewrite Hcompact. cbn [ob_used ob_cap ob_buf ob_ctl ob_ret ob_rel]. unfold ob_cap in Hb.
    unfold ob_cap. cbn [ob_buf]. rewrite N.sub_0_r, Hb. reflexivity. }
  destruct q; [contradiction| |];
    rewrite Hfull, Hcan; cbn [andb negb]; cbv zeta; unfold pub_request in Hen; rewrite Hen;
    cbn [set_ob s_rt]; rewrite Er, Hmps; cbn [too_large]; unfold retain_packet; cbn [ob_ret];
    change (MAX_RETAINED <=? glen []) with false; cbv iota; eexists; eexists; reflexivity.
Qed.

(* ---------------------------------------------------------------- one QoS 1 exchange leads from idle to idle *)
Theorem qos1_exchange_idle : forall w r s2 op ps,
  Idle w ->
  publish_middle (w_sess w) true r = (s2, MRetained op) ->
  effective_qos (w_sess w) (pr_qos r) = Q1 -> pr_props r = PSlice ps -> op_pid op < 65536 ->
  exists w1 w2 bs cap off,
    op_publish FUEL r w = (w1, ODone (Some op)) /\
    enc_publish cap (pub_request r Q1 (op_pid op)) = SOk off bs /\ w_wire w1 = w_wire w ++ bs /\
    op_poll FUEL w1 = (w2, ODone None) /\ w_wire w2 = w_wire w1 /\ w_now w2 = w_now w /\
    has_retained (s_ob (w_sess w2)) (op_pid op) = false /\
    rt_quota (s_rt (w_sess w2)) = N.min (N.min (rt_quota (s_rt (w_sess w)) - 1 + 1) 65535) (rt_maxquota (s_rt (w_sess w))) /\
    rt_maxquota (s_rt (w_sess w2)) = rt_maxquota (s_rt (w_sess w)) /\ rt_quota (s_rt (w_sess w)) <> 0 /\
    ob_cap (s_ob (w_sess w2)) = ob_cap (s_ob (w_sess w)) /\
    Idle w2.
Proof.
  intros w r s2 op ps [Hcw [Ec [El [Er [Hka [Hnp [Hpt [Hbr [Htx [Hiq [Hla [Hrd [Hrp Hcap]]]]]]]]]]]]] Hm Hq1 Hps Hid.
  destruct (publish_is_sent_and_answered_rt w r s2 op ps Q1 Hcw Ec El Er Hka Hnp Hpt Hbr Htx Hiq Hla Hm Hq1 ltac:(discriminate) Hps Hid)
    as [w1 [bs [cap [off [e [E1 [Hb [Hw1 [Hi1 [Hc1 [R1 [N1 [Br1 [Tx1 [La1 [Ka1 [Np1 [Pt1 [Ec1 [El1 [Er1 [Epid [Rt1 Bu1]]]]]]]]]]]]]]]]]]]]]]].
  pose proof Hc1 as [Hs1 [Hl1 [I1 [Mps1 _]]]].
  destruct (publish_middle_retained_rt _ _ _ _ Hm) as [Rt2 [Hq0 _]].
  pose proof Hcw as [_ [_ [I0 _]]].
  destruct (publish_middle_quiescent _ _ _ _ (proj1 I0) Ec El Er Hm) as [_ [_ [_ [_ [_ [_ [_ [_ [_ [_ [_ [_ [_ [_ [_ Hlen2]]]]]]]]]]]]]]].
  assert (K1 : rcap (rd w1) = rcap (rd w)) by (unfold rd; rewrite R1; reflexivity).
  assert (H2 : rdata (rd w1) = []) by (unfold rd; rewrite R1; exact Hrd).
  assert (H3 : rplen (rd w1) = None) by (unfold rd; rewrite R1; exact Hrp).
  assert (H5 : next_step (s_ob (w_sess w1)) = None) by (eapply single_sent_no_step; eassumption).
  set (s3 := set_reader (w_sess w1) (reader_reset (rd w1))).
  assert (Er3 : ob_ret (s_ob s3) = [sent_entry e]) by exact Er1.
  pose proof (handle_puback_single s3 e (op_pid op) Er3 Epid) as Hh.
  set (s4 := set_rt (set_ob s3 (compact {| ob_buf := ob_buf (s_ob s3); ob_used := ob_used (s_ob s3); ob_ctl := ob_ctl (s_ob s3); ob_ret := []; ob_rel := ob_rel (s_ob s3) |}))
                    (quota_inc (s_rt s3))) in *.
  assert (Eo4 : s_ob s4 = compact {| ob_buf := ob_buf (s_ob (w_sess w1)); ob_used := ob_used (s_ob (w_sess w1)); ob_ctl := []; ob_ret := []; ob_rel := [] |}).
  { unfold s4. cbn [set_rt s_ob set_ob]. unfold s3. cbn [set_reader s_ob]. rewrite Ec1, El1. reflexivity. }
  assert (Hn4 : next_step (s_ob s4) = None) by (rewrite Eo4; reflexivity).
  destruct (u16_be_two (op_pid op)) as [a [b Eab]].
  assert (Hrl : varint_write (lenN (u16_be (op_pid op))) = Some [2]) by (rewrite lenN_u16; reflexivity).
  assert (Hlen : lenN (64 :: [2] ++ u16_be (op_pid op)) = 4) by (rewrite lenN_cons, lenN_app, lenN_u16; reflexivity).
  destruct (poll_handles_arrived_full w1 64 [2] (u16_be (op_pid op)) (w_now w) (RPubAck (op_pid op) 0) s4 Hrl)
    as [w2 [E2 [S2 [L2 [Q2 [N2 [C2 [W2 B2]]]]]]]]; try assumption.
  - rewrite Hlen, K1. lia.
  - rewrite Hlen. lia.
  - rewrite N1. apply N.le_refl.
  - apply from_buffer_puback4. exact Hid.
  - exists w1, w2, bs, cap, off. split; [exact E1|]. split; [exact Hb|]. split; [exact Hw1|]. split; [exact E2|].
    split; [exact W2|]. split; [rewrite N2; exact N1|].
    split; [rewrite S2, Eo4; reflexivity|].
    split; [rewrite S2; unfold s4; cbn [set_rt s_rt quota_inc rt_with_quota rt_quota rt_maxquota]; unfold s3; cbn [set_reader s_rt];
            rewrite Rt1, Rt2; reflexivity|].
    split; [rewrite S2; unfold s4; cbn [set_rt s_rt quota_inc rt_with_quota rt_maxquota]; unfold s3; cbn [set_reader s_rt];
            rewrite Rt1, Rt2; reflexivity|].
    split; [exact Hq0|].
    split; [rewrite S2, Eo4; unfold ob_cap; cbn [compact compact_go ob_buf]; rewrite Bu1; exact Hlen2|].
    assert (A1 : w_now w <= w_now w1) by (rewrite N1; apply N.le_refl).
    assert (A2 : 6 <= rcap (rd w1)) by (rewrite K1; exact Hcap).
    assert (A3 : sstep s3 (LPacket (ack_type_ok s3 (RPubAck (op_pid op) 0))) s4).
    { replace s4 with (fst (handle_packet s3 (RPubAck (op_pid op) 0))) by (rewrite Hh; reflexivity). apply SS_packet. }
    assert (A4 : s_reader s4 = reader_reset (rd w1)) by reflexivity.
    assert (A5 : rt_mps (s_rt s4) = None) by exact Mps1.
    assert (A6 : rt_ka_ms (s_rt s4) = 0) by exact Ka1.
    assert (A7 : rt_next_ping (s_rt s4) = None) by exact Np1.
    assert (A8 : rt_ping_timeout (s_rt s4) = None) by exact Pt1.
    exact (idle_after_ack w1 w2 s4 e (w_now w) Hc1 Ec1 El1 Er1 Ka1 Np1 Pt1 Br1 Tx1 La1 A1 A2 (RPubAck (op_pid op) 0) A3 A4 Eo4 A5 A6 A7 A8 S2 L2 Q2 N2 C2 B2).
Qed.


(* ---------------------------------------------------------------- histories of any length *)
Definition IdleQ (w : world) : Prop :=
  Idle w /\ 1 <= rt_quota (s_rt (w_sess w)) /\ rt_quota (s_rt (w_sess w)) <= rt_maxquota (s_rt (w_sess w)) /\
  rt_maxquota (s_rt (w_sess w)) <= 65535 /\ 5 <= ob_cap (s_ob (w_sess w)).

(* the application's side of a history: every request is valid, is a QoS 1 publish as far as the session it meets is concerned,
   and its packet fits the transmit buffer (whatever identifier it gets) *)
Fixpoint wanted (cap : N) (rs : list pub_req) (w : world) : Prop :=
  match rs with
  | [] => True
  | r :: t =>
      props_valid_for (pr_props r) CtxPublish = true /\ (exists ps, pr_props r = PSlice ps) /\
      effective_qos (w_sess w) (pr_qos r) = Q1 /\
      (forall id, exists off bs, enc_publish cap (pub_request r Q1 id) = SOk off bs) /\
      forall w1 o w2, op_publish FUEL r w = (w1, ODone o) -> op_poll FUEL w1 = (w2, ODone None) -> wanted cap t w2
  end.

(* what happens: publish() returns a handle and has put exactly the encoded PUBLISH on the wire, the following poll() writes
   nothing and leaves the handle complete — for every request of the history in turn *)
Inductive q1_history : world -> list pub_req -> world -> Prop :=
| q1h_nil : forall w, q1_history w [] w
| q1h_cons : forall w r rs op w1 w2 w' cap off bs,
    op_publish FUEL r w = (w1, ODone (Some op)) ->
    enc_publish cap (pub_request r Q1 (op_pid op)) = SOk off bs -> w_wire w1 = w_wire w ++ bs ->
    op_poll FUEL w1 = (w2, ODone None) -> w_wire w2 = w_wire w1 ->
    has_retained (s_ob (w_sess w2)) (op_pid op) = false ->
    q1_history w2 rs w' -> q1_history w (r :: rs) w'.

Theorem qos1_history_completes : forall rs w,
  IdleQ w -> wanted (ob_cap (s_ob (w_sess w))) rs w ->
  exists w', q1_history w rs w' /\ IdleQ w' /\ w_now w' = w_now w.
Proof.
  induction rs as [|r rs IH]; intros w HI HW.
  - exists w. split; [constructor|]. split; [exact HI|reflexivity].
  - destruct HI as [Hi [Hq1 [Hq2 [Hq3 Hcap]]]].
    cbn [wanted] in HW. destruct HW as [Hv [[ps Hps] [He [Henc Hnext]]]].
    pose proof Hi as [Hcw [_ [_ [Er [_ [_ [_ _]]]]]]]. pose proof Hcw as [_ [_ [I0 [Hmps _]]]].
    assert (Hq0 : rt_quota (s_rt (w_sess w)) <> 0) by lia.
    destruct (publish_accepted_idle (w_sess w) r Q1 Er Hmps Hq0 Hcap Hv He ltac:(discriminate) Henc) as [s2 [op Hm]].
    destruct (publish_middle_retained_rt _ _ _ _ Hm) as [_ [_ Hid]]. specialize (Hid (proj1 I0)).
    destruct (qos1_exchange_idle w r s2 op ps Hi Hm He Hps Hid)
      as [w1 [w2 [bs [cap [off [E1 [Hb [Hw1 [E2 [Hw2 [Hn2 [Hr2 [Hqu [Hmq [_ [Hc2 Hi2]]]]]]]]]]]]]]]].
    assert (HI2 : IdleQ w2).
    { split; [exact Hi2|]. rewrite Hqu, Hmq, Hc2. repeat split; try assumption; lia. }
    specialize (Hnext w1 (Some op) w2 E1 E2). rewrite <- Hc2 in Hnext.
    destruct (IH w2 HI2 Hnext) as [w' [Hh [HI' Hn']]].
    exists w'. split; [econstructor; eassumption|]. split; [exact HI'|]. rewrite Hn'. exact Hn2.
Qed.

(* ---------------------------------------------------------------- the hypotheses are met: two publishes on a fresh connection *)
Definition ex_h1 : world := fst (op_poll FUEL (fst (op_publish FUEL ex_pub ex_b1))).

Lemma ex_pub_fits : forall cap id, cap = 128 -> exists off bs, enc_publish cap (pub_request ex_pub Q1 id) = SOk off bs.
Proof. intros cap id ->. eexists. eexists. vm_compute. reflexivity. Qed.

Example history_hyps_met :
  IdleQ ex_b1 /\ wanted (ob_cap (s_ob (w_sess ex_b1))) [ex_pub; ex_pub] ex_b1.
Proof.
  destruct exchange_hyps_met as [Hcw [Ec [El [Er [A1 [A2 [Pt [A3 [A4 [A5 [A6 [A7 [A8 [_ [_ [A11 _]]]]]]]]]]]]]]]].
  assert (A9 : 6 <= rcap (rd ex_b1)) by (vm_compute; intros X; discriminate X).
  assert (Qa : 1 <= rt_quota (s_rt (w_sess ex_b1))) by (vm_compute; intros X; discriminate X).
  assert (Q2 : rt_quota (s_rt (w_sess ex_b1)) <= rt_maxquota (s_rt (w_sess ex_b1))) by (vm_compute; intros X; discriminate X).
  assert (Q3 : rt_maxquota (s_rt (w_sess ex_b1)) <= 65535) by (vm_compute; intros X; discriminate X).
  assert (Cp : ob_cap (s_ob (w_sess ex_b1)) = 128) by (vm_compute; reflexivity).
  assert (Q4 : 5 <= ob_cap (s_ob (w_sess ex_b1))) by (vm_compute; intros X; discriminate X).
  assert (V : props_valid_for (pr_props ex_pub) CtxPublish = true) by (vm_compute; reflexivity).
  assert (B11 : effective_qos (w_sess ex_h1) (pr_qos ex_pub) = Q1) by (vm_compute; reflexivity).
  split.
  - split; [|split; [exact Qa|split; [exact Q2|split; [exact Q3|exact Q4]]]].
    unfold Idle. repeat (split; [assumption|]). exact A9.
  - cbn [wanted]. split; [exact V|]. split; [exists []; reflexivity|]. split; [exact A11|].
    split; [intros id; apply ex_pub_fits; exact Cp|].
    intros w1 o w2 H1 H2.
    assert (W1 : w1 = fst (op_publish FUEL ex_pub ex_b1)) by exact (eq_sym (f_equal fst H1)).
    assert (W2 : w2 = fst (op_poll FUEL w1)) by exact (eq_sym (f_equal fst H2)).
    assert (W3 : w2 = ex_h1) by (unfold ex_h1; exact (eq_trans W2 (f_equal (fun x => fst (op_poll FUEL x)) W1))).
    clear H1 H2 W1 W2. subst w2.
    split; [exact V|]. split; [exists []; reflexivity|]. split; [exact B11|].
    split; [intros id; apply ex_pub_fits; exact Cp|].
    intros; exact I.
Qed.
